/-
  Absence of panics in the track sizing part of the grid program.

  `GSafe Q p`: the `GM` program `p` never panics, whatever the children answer, and every result satisfies `Q`.
  The only panic of the track sizing algorithm (track_sizing.rs) is the slice index `axis_tracks[track_index]` of the
  span-1 fast path; it is in range as long as
    * every track-sizing step keeps the LENGTH of the track vectors (`*_length` lemmas), and
    * every item's track indexes are in range (`InR`: a property of the item's `frame`, which track sizing never changes).
-/
import TaffyVerif.Lemmas.EvalGridFlags

set_option linter.unusedSectionVars false
set_option linter.unusedVariables false

namespace EvalGrid
open GridModel GridTracks EvalBlock
variable {α : Type} [Num α]

/-! ### `GSafe` -/

/-- never panics; every result satisfies `Q` -/
def GSafe {β : Type} (Q : β → Prop) (p : GM α β) : Prop := Post (fun r => ∃ b, r = .ok b ∧ Q b) (run p)

theorem GSafe_pure {β : Type} (Q : β → Prop) (b : β) (h : Q b) : GSafe Q (pure b : GM α β) := ⟨b, rfl, h⟩

theorem GSafe_mono {β : Type} (Q R : β → Prop) (p : GM α β) (h : ∀ b, Q b → R b) (hp : GSafe Q p) : GSafe R p :=
  Post_mono _ _ _ hp fun r ⟨b, hb, hq⟩ => ⟨b, hb, h b hq⟩

theorem GSafe_bind {β γ : Type} (Q : β → Prop) (R : γ → Prop) (p : GM α β) (f : β → GM α γ)
    (hp : GSafe Q p) (hf : ∀ x, Q x → GSafe R (f x)) : GSafe R (p >>= f) := by
  unfold GSafe
  rw [run_bind]
  refine Post_bind _ _ hp fun r ⟨b, hb, hq⟩ => ?_
  subst hb
  exact hf b hq

theorem GSafe_call (Q : LayoutOutput α → Prop) (i : Nat) (inp : LayoutInput α) (h : ∀ o, Q o) :
    GSafe Q (GM.call i inp) := fun o => ⟨o, rfl, h o⟩

theorem GSafe_setLayout (Q : Unit → Prop) (i : Nat) (l : Layout α) (h : Q ()) : GSafe Q (GM.setLayout i l) :=
  ⟨(), rfl, h⟩

theorem GSafe_ite {β : Type} {c : Prop} [Decidable c] (Q : β → Prop) (p q : GM α β) (hp : GSafe Q p) (hq : GSafe Q q) :
    GSafe Q (if c then p else q) := by
  split <;> assumption

theorem GSafe_noPanic {β : Type} (Q : β → Prop) (p : GM α β) (h : GSafe Q p) : NoPanic p :=
  Post_mono _ _ _ h fun r ⟨b, hb, _⟩ => ⟨b, hb⟩

/-! ### every pure step of track sizing keeps the length of the track vector -/
section lengths

theorem initializeTrackSizes_length (ts : List (GridTrack α)) (inner : Option α) :
    (initializeTrackSizes ts inner).length = ts.length := by
  unfold initializeTrackSizes; exact List.length_map _

theorem distributeApply_length (iterInc : α) (aff : GridTrack α → Bool) (prop ap : GridTrack α → α)
    (lim : GridTrack α → Ext α) (ts : List (GridTrack α)) (space : α) :
    (distributeApply iterInc aff prop ap lim ts space).1.length = ts.length := by
  fun_induction distributeApply iterInc aff prop ap lim ts space <;> simp_all

theorem distributeSpaceUpToLimits_length (aff : GridTrack α → Bool) (prop ap : GridTrack α → α)
    (lim : GridTrack α → Ext α) (fuel : Nat) (space : α) (ts : List (GridTrack α)) :
    (distributeSpaceUpToLimits fuel space ts aff prop ap lim).2.length = ts.length := by
  fun_induction distributeSpaceUpToLimits fuel space ts aff prop ap lim
  case case5 _ _ _ _ _ _ _ rest' space' _ _ _ hx ih =>
    rw [ih]
    have h1 := congrArg (fun r : List (GridTrack α) × α => r.1.length) hx
    simp only [distributeApply_length] at h1
    exact h1.symm
  all_goals simp_all

theorem distributeItemSpaceToBaseSizeInner_length (space : α) (ts : List (GridTrack α)) (aff : GridTrack α → Bool)
    (prop : GridTrack α → α) (lim : GridTrack α → Ext α) (ty : ContributionType) :
    (distributeItemSpaceToBaseSizeInner space ts aff prop lim ty).length = ts.length := by
  unfold distributeItemSpaceToBaseSizeInner
  split
  · rfl
  · simp only [List.length_map]
    split
    · rw [distributeSpaceUpToLimits_length, distributeSpaceUpToLimits_length]
    · rw [distributeSpaceUpToLimits_length]

theorem distributeItemSpaceToBaseSize_length (isFlex useFF : Bool) (space : α) (ts : List (GridTrack α))
    (aff : GridTrack α → Bool) (lim : GridTrack α → Ext α) (ty : ContributionType) :
    (distributeItemSpaceToBaseSize isFlex useFF space ts aff lim ty).length = ts.length := by
  unfold distributeItemSpaceToBaseSize
  split
  · simp only []
    split <;> exact distributeItemSpaceToBaseSizeInner_length _ _ _ _ _ _
  · exact distributeItemSpaceToBaseSizeInner_length _ _ _ _ _ _

theorem distributeItemSpaceToGrowthLimit_length (space : α) (ts : List (GridTrack α)) (aff : GridTrack α → Bool)
    (inner : Option α) : (distributeItemSpaceToGrowthLimit space ts aff inner).length = ts.length := by
  unfold distributeItemSpaceToGrowthLimit
  split
  · rfl
  · simp only [List.length_map]
    split
    · exact List.length_map _
    · exact distributeSpaceUpToLimits_length _ _ _ _ _ _ _

theorem onRange_length (ts : List (GridTrack α)) (lo hi : Nat) (f : List (GridTrack α) → List (GridTrack α))
    (hf : ∀ l, (f l).length = l.length) (h1 : lo ≤ hi) (h2 : hi ≤ ts.length) : (onRange ts lo hi f).length = ts.length := by
  unfold onRange
  simp only [List.length_append, hf, List.length_take, List.length_drop]
  omega

theorem flushPlannedBaseSizeIncreases_length (ts : List (GridTrack α)) :
    (flushPlannedBaseSizeIncreases ts).length = ts.length := by
  unfold flushPlannedBaseSizeIncreases; exact List.length_map _

theorem flushPlannedGrowthLimitIncreases_length (ts : List (GridTrack α)) (b : Bool) :
    (flushPlannedGrowthLimitIncreases ts b).length = ts.length := by
  unfold flushPlannedGrowthLimitIncreases; exact List.length_map _

theorem raiseGrowthLimits_length (ts : List (GridTrack α)) : (raiseGrowthLimits ts).length = ts.length := by
  unfold raiseGrowthLimits; exact List.length_map _

theorem flushSpanOne_length (ts : List (GridTrack α)) : (flushSpanOne ts).length = ts.length := by
  unfold flushSpanOne; exact List.length_map _

theorem maximiseTracks_length (ts : List (GridTrack α)) (inner : Option α) (avail : AvailableSpace α) :
    (maximiseTracks ts inner avail).length = ts.length := by
  unfold maximiseTracks
  simp only []
  split
  · exact List.length_map _
  · rfl
  · split
    · simp only [List.length_map]
      exact distributeSpaceUpToLimits_length _ _ _ _ _ _ _
    · rfl

theorem stretchAutoTracks_length (ts : List (GridTrack α)) (mn : Option α) (av : AvailableSpace α) :
    (stretchAutoTracks ts mn av).length = ts.length := by
  unfold stretchAutoTracks
  simp only []
  repeat' split
  all_goals first | rfl | exact List.length_map _

theorem setGutterAdjustment_length (adj : α) (ts : List (GridTrack α)) : (setGutterAdjustment adj ts).length = ts.length := by
  unfold setGutterAdjustment
  split
  · simp only [List.length_map, List.length_zipIdx]
  · rfl

theorem reresolvePercentTracks_length (cb : α) (ts : List (GridTrack α)) :
    (reresolvePercentTracks cb ts).length = ts.length := by
  unfold reresolvePercentTracks; exact List.length_map _

theorem alignLoop_length (free : α) (n : Nat) (mode : AlignContent) : ∀ (ts : List (GridTrack α)) (i : Nat) (total : α),
    (alignLoop free n mode ts i total).length = ts.length
  | [], _, _ => rfl
  | t :: rest, i, total => by
    unfold alignLoop
    simp only [List.length_cons, alignLoop_length free n mode rest]

theorem alignTracks_length (cb ps bs : α) (ts : List (GridTrack α)) (style : AlignContent) :
    (alignTracks cb ps bs ts style).length = ts.length := by
  unfold alignTracks
  exact alignLoop_length _ _ _ _ _ _

end lengths

/-! ### items: track indexes in range -/

/-- the item's track range in axis `ax` is non-empty and inside a track vector of length `L` -/
def InR (ax : Ax) (L : Nat) (it : GItem α) : Prop :=
  (it.placementIndexes ax).start + 1 ≤ (it.placementIndexes ax).end ∧ (it.placementIndexes ax).end < L

theorem placementIndexes_frame (ax : Ax) (it : GItem α) : (frame it).placementIndexes ax = it.placementIndexes ax := by
  cases ax <;> rfl

theorem InR_of_frame {ax : Ax} {L : Nat} {a b : GItem α} (h : frame a = frame b) (hb : InR ax L b) : InR ax L a := by
  unfold InR at hb ⊢
  rw [← placementIndexes_frame ax a, h, placementIndexes_frame]
  exact hb

/-- every item of `b` has the frame of some item of `a` -/
def FSub (a b : List (GItem α)) : Prop := ∀ x ∈ b, ∃ y ∈ a, frame x = frame y

theorem FSub.refl (a : List (GItem α)) : FSub a a := fun x hx => ⟨x, hx, rfl⟩
theorem FSub.trans {a b c : List (GItem α)} (h1 : FSub a b) (h2 : FSub b c) : FSub a c := by
  intro x hx
  obtain ⟨y, hy, e1⟩ := h2 x hx
  obtain ⟨z, hz, e2⟩ := h1 y hy
  exact ⟨z, hz, e1.trans e2⟩

theorem FSub.of_perm {a b : List (GItem α)} (h : b.Perm a) : FSub a b := fun x hx => ⟨x, h.mem_iff.1 hx, rfl⟩

theorem FSub.of_mapFrame {a b : List (GItem α)} (h : b.map frame = a.map frame) : FSub a b := by
  intro x hx
  have : frame x ∈ a.map frame := by rw [← h]; exact List.mem_map_of_mem hx
  obtain ⟨y, hy, e⟩ := List.mem_map.1 this
  exact ⟨y, hy, e.symm⟩

theorem FSub.of_sublist_mem {a b : List (GItem α)} (h : ∀ x ∈ b, x ∈ a) : FSub a b := fun x hx => ⟨x, h x hx, rfl⟩

theorem FSub.append {a b c : List (GItem α)} (h1 : FSub a b) (h2 : FSub a c) : FSub a (b ++ c) := by
  intro x hx
  rcases List.mem_append.1 hx with h | h
  · exact h1 x h
  · exact h2 x h

theorem FSub.cons {a : List (GItem α)} {x y : GItem α} {b : List (GItem α)} (hy : y ∈ a) (e : frame x = frame y)
    (h : FSub a b) : FSub a (x :: b) := by
  intro z hz
  rcases List.mem_cons.1 hz with rfl | hz
  · exact ⟨y, hy, e⟩
  · exact h z hz

theorem FSub.fp {a b : List (GItem α)} (h : FP a b) : FSub a b := by
  intro x hx
  have : frame x ∈ a.map frame := h.mem_iff.1 (List.mem_map_of_mem hx)
  obtain ⟨y, hy, e⟩ := List.mem_map.1 this
  exact ⟨y, hy, e.symm⟩

/-- all items in range -/
def AllR (ax : Ax) (L : Nat) (items : List (GItem α)) : Prop := ∀ it ∈ items, InR ax L it

theorem AllR.sub {ax : Ax} {L : Nat} {a b : List (GItem α)} (h : AllR ax L a) (hs : FSub a b) : AllR ax L b := by
  intro x hx
  obtain ⟨y, hy, e⟩ := hs x hx
  exact InR_of_frame e (h y hy)

/-! ### the contribution queries never panic -/

theorem GSafe_minContentContributionCached (ax : Ax) (it : GItem α) (av inner : Size (Option α)) :
    GSafe (fun r => frame r.2 = frame it) (it.minContentContributionCached ax av inner) := by
  unfold GItem.minContentContributionCached
  split
  · exact GSafe_pure _ _ rfl
  · unfold GItem.minContentContribution
    refine GSafe_bind (fun _ => True) _ _ _ ?_ fun v _ => GSafe_pure _ _ rfl
    exact GSafe_bind (fun _ => True) _ _ _ (GSafe_call _ _ _ fun _ => trivial) fun o _ => GSafe_pure _ _ trivial

theorem GSafe_maxContentContributionCached (ax : Ax) (it : GItem α) (av inner : Size (Option α)) :
    GSafe (fun r => frame r.2 = frame it) (it.maxContentContributionCached ax av inner) := by
  unfold GItem.maxContentContributionCached
  split
  · exact GSafe_pure _ _ rfl
  · unfold GItem.maxContentContribution
    refine GSafe_bind (fun _ => True) _ _ _ ?_ fun v _ => GSafe_pure _ _ rfl
    exact GSafe_bind (fun _ => True) _ _ _ (GSafe_call _ _ _ fun _ => trivial) fun o _ => GSafe_pure _ _ trivial

/-- a frame-keeping query followed by a frame-keeping continuation -/
theorem GSafe_frame_bind {β γ : Type} (it : GItem α) (π : β → GItem α) (π' : γ → GItem α) (p : GM α β)
    (f : β → GM α γ) (hp : GSafe (fun r => frame (π r) = frame it) p)
    (hf : ∀ b, frame (π b) = frame it → GSafe (fun r => frame (π' r) = frame (π b)) (f b)) :
    GSafe (fun r => frame (π' r) = frame it) (p >>= f) :=
  GSafe_bind _ _ _ _ hp fun b hb => GSafe_mono _ _ _ (fun r hr => hr.trans hb) (hf b hb)

theorem frame_availableSpace (s : Sizer α) (it : GItem α) : frame (s.availableSpace it).2 = frame it :=
  (sizer_availableSpace_same s it).1

theorem GSafe_sizer_minContent (s : Sizer α) (it : GItem α) :
    GSafe (fun r => frame r.2 = frame it) (s.minContentContribution it) := by
  unfold Sizer.minContentContribution
  have hs := frame_availableSpace s it
  generalize s.availableSpace it = r at hs ⊢
  obtain ⟨av, it1⟩ := r
  simp only [] at hs ⊢
  refine GSafe_bind _ _ _ _ (GSafe_minContentContributionCached _ it1 _ _) fun ⟨c, it2⟩ h2 => ?_
  exact GSafe_pure _ _ (h2.trans hs)

theorem GSafe_sizer_maxContent (s : Sizer α) (it : GItem α) :
    GSafe (fun r => frame r.2 = frame it) (s.maxContentContribution it) := by
  unfold Sizer.maxContentContribution
  have hs := frame_availableSpace s it
  generalize s.availableSpace it = r at hs ⊢
  obtain ⟨av, it1⟩ := r
  simp only [] at hs ⊢
  refine GSafe_bind _ _ _ _ (GSafe_maxContentContributionCached _ it1 _ _) fun ⟨c, it2⟩ h2 => ?_
  exact GSafe_pure _ _ (h2.trans hs)

theorem GSafe_minimumContribution (ax : Ax) (it : GItem α) (ts : List (GridTrack α)) (kd inner : Size (Option α)) :
    GSafe (fun r => frame r.2 = frame it) (it.minimumContribution ax ts kd inner) := by
  unfold GItem.minimumContribution
  simp only []
  refine GSafe_bind (fun r => frame r.2 = frame it) _ _ _ ?_ fun ⟨c, it2⟩ h2 => GSafe_pure _ _ h2
  split
  · exact GSafe_pure _ _ rfl
  · split
    · refine GSafe_bind _ _ _ _ (GSafe_minContentContributionCached _ it _ _) fun ⟨c, it2⟩ h2 => ?_
      simp only []
      split <;> exact GSafe_pure _ _ h2
    · exact GSafe_pure _ _ rfl

theorem GSafe_minimumContributionCached (ax : Ax) (it : GItem α) (ts : List (GridTrack α)) (kd inner : Size (Option α)) :
    GSafe (fun r => frame r.2 = frame it) (it.minimumContributionCached ax ts kd inner) := by
  unfold GItem.minimumContributionCached
  split
  · exact GSafe_pure _ _ rfl
  · refine GSafe_bind _ _ _ _ (GSafe_minimumContribution _ it _ _ _) fun ⟨c, it2⟩ h2 => ?_
    exact GSafe_pure _ _ h2

theorem GSafe_sizer_minimum (s : Sizer α) (it : GItem α) (ts : List (GridTrack α)) :
    GSafe (fun r => frame r.2 = frame it) (s.minimumContribution it ts) := by
  unfold Sizer.minimumContribution
  have hs := frame_availableSpace s it
  generalize s.availableSpace it = r at hs ⊢
  obtain ⟨av, it1⟩ := r
  simp only [] at hs ⊢
  refine GSafe_bind _ _ _ _ (GSafe_minimumContributionCached _ it1 _ _ _) fun ⟨c, it2⟩ h2 => ?_
  exact GSafe_pure _ _ (h2.trans hs)

theorem GSafe_minimumSpaceM (s : Sizer α) (avail : AvailableSpace α) (it : GItem α) (ts : List (GridTrack α))
    (limit : GItem α → Option α) : GSafe (fun r => frame r.2 = frame it) (minimumSpaceM s avail it ts limit) := by
  unfold minimumSpaceM
  split
  · exact GSafe_sizer_minimum s it ts
  · split
    · refine GSafe_bind _ _ _ _ (GSafe_sizer_minimum s it ts) fun ⟨a, it1⟩ h1 => ?_
      refine GSafe_bind _ _ _ _ (GSafe_sizer_minContent s it1) fun ⟨b, it2⟩ h2 => ?_
      exact GSafe_pure _ _ (h2.trans h1)
    · exact GSafe_sizer_minimum s it ts

/-! ### the per-item steps -/

theorem trackRange_eq (it : GItem α) (ax : Ax) :
    it.trackRange ax = ((it.placementIndexes ax).start + 1, (it.placementIndexes ax).end) := rfl

theorem distBase_length (ax : Ax) (isFlex useFF : Bool) (it : GItem α) (space : α) (aff : GridTrack α → Bool)
    (lim : GridTrack α → Ext α) (ty : ContributionType) (ts : List (GridTrack α)) (h : InR ax ts.length it) :
    (distBase ax isFlex useFF it space aff lim ty ts).length = ts.length := by
  unfold distBase
  split
  · rw [trackRange_eq]
    exact onRange_length _ _ _ _ (fun l => distributeItemSpaceToBaseSize_length _ _ _ _ _ _ _) h.1 (Nat.le_of_lt h.2)
  · rfl

theorem distGrowth_length (ax : Ax) (inner : Option α) (it : GItem α) (space : α) (aff : GridTrack α → Bool)
    (ts : List (GridTrack α)) (h : InR ax ts.length it) : (distGrowth ax inner it space aff ts).length = ts.length := by
  unfold distGrowth
  split
  · rw [trackRange_eq]
    exact onRange_length _ _ _ _ (fun l => distributeItemSpaceToGrowthLimit_length _ _ _ _) h.1 (Nat.le_of_lt h.2)
  · rfl

/-- the postcondition of a per-item step: same frame, same number of tracks -/
def StepQ (it : GItem α) (L : Nat) (r : GItem α × List (GridTrack α)) : Prop := frame r.1 = frame it ∧ r.2.length = L

theorem GSafe_sizeSpanOneItemM (s : Sizer α) (avail : AvailableSpace α) (axisInner : Option α) (it : GItem α)
    (ts : List (GridTrack α)) (h : InR s.axis ts.length it) :
    GSafe (StepQ it ts.length) (sizeSpanOneItemM s avail axisInner it ts) := by
  unfold sizeSpanOneItemM
  simp only []
  split
  · rename_i hnone
    -- the index is in range
    have hlt : (it.placementIndexes s.axis).start + 1 < ts.length := by have := h.1; have := h.2; omega
    rw [List.getElem?_eq_getElem hlt] at hnone
    cases hnone
  · rename_i track _
    refine GSafe_bind (fun r => frame r.2 = frame it) _ _ _ ?_ fun ⟨nb, it1⟩ h1 => ?_
    · split
      · refine GSafe_bind _ _ _ _ (GSafe_sizer_minContent s it) fun ⟨a, it1⟩ h1 => GSafe_pure _ _ h1
      · split
        · refine GSafe_bind _ _ _ _ (GSafe_sizer_minContent s it) fun ⟨a, it1⟩ h1 => GSafe_pure _ _ h1
        · exact GSafe_pure _ _ rfl
      · refine GSafe_bind _ _ _ _ (GSafe_sizer_maxContent s it) fun ⟨a, it1⟩ h1 => GSafe_pure _ _ h1
      · refine GSafe_bind _ _ _ _ (GSafe_minimumSpaceM s avail it ts _) fun ⟨a, it1⟩ h1 => GSafe_pure _ _ h1
      · exact GSafe_pure _ _ rfl
    · simp only [] at h1 ⊢
      refine GSafe_bind (fun r => frame r.2 = frame it) _ _ _ ?_ fun ⟨tr, it2⟩ h2 =>
        GSafe_pure _ _ ⟨h2, List.length_set⟩
      split
      · refine GSafe_bind (fun r => frame r.2 = frame it) _ _ _ ?_ fun ⟨tr, it2⟩ h2 => ?_
        · split
          · refine GSafe_bind _ _ _ _ (GSafe_sizer_minContent s it1) fun ⟨a, it2⟩ h2 => GSafe_pure _ _ (h2.trans h1)
          · exact GSafe_pure _ _ h1
        · simp only [] at h2 ⊢
          refine GSafe_bind _ _ _ _ (GSafe_sizer_maxContent s it2) fun ⟨a, it3⟩ h3 => GSafe_pure _ _ (h3.trans h2)
      · split
        · refine GSafe_bind _ _ _ _ (GSafe_sizer_maxContent s it1) fun ⟨a, it2⟩ h2 => GSafe_pure _ _ (h2.trans h1)
        · split
          · refine GSafe_bind _ _ _ _ (GSafe_sizer_minContent s it1) fun ⟨a, it2⟩ h2 => GSafe_pure _ _ (h2.trans h1)
          · exact GSafe_pure _ _ h1

/-- `forItemsM` with a step that keeps frames and the number of tracks, on items that are all in range -/
theorem GSafe_forItemsM (ax : Ax) (L : Nat)
    (f : GItem α → List (GridTrack α) → GM α (GItem α × List (GridTrack α)))
    (hf : ∀ it ts, InR ax L it → ts.length = L → GSafe (StepQ it L) (f it ts)) :
    ∀ (items : List (GItem α)) (ts : List (GridTrack α)), AllR ax L items → ts.length = L →
      GSafe (fun r => r.1.map frame = items.map frame ∧ r.2.length = L) (forItemsM f items ts)
  | [], ts, _, hl => GSafe_pure _ _ ⟨rfl, hl⟩
  | it :: rest, ts, hall, hl => by
    simp only [forItemsM]
    refine GSafe_bind _ _ _ _ (hf it ts (hall it List.mem_cons_self) hl) fun ⟨it', ts'⟩ ⟨h1, h2⟩ => ?_
    simp only [] at h1 h2 ⊢
    refine GSafe_bind _ _ _ _ (GSafe_forItemsM ax L f hf rest ts'
      (fun x hx => hall x (List.mem_cons_of_mem _ hx)) h2) fun ⟨rest', ts''⟩ ⟨h3, h4⟩ => ?_
    simp only [] at h3 h4 ⊢
    exact GSafe_pure _ _ ⟨by simp only [List.map_cons, h1, h3], h4⟩

/-- a query, then a track update that keeps the number of tracks -/
theorem GSafe_query_step {β : Type} (it : GItem α) (L : Nat) (q : GM α (β × GItem α))
    (hq : GSafe (fun r => frame r.2 = frame it) q) (g : β → GItem α → List (GridTrack α))
    (hg : ∀ b it', frame it' = frame it → (g b it').length = L) :
    GSafe (StepQ it L) (q >>= fun r => (pure (r.2, g r.1 r.2) : GM α (GItem α × List (GridTrack α)))) :=
  GSafe_bind _ _ _ _ hq fun r hr => GSafe_pure _ _ ⟨hr, hg r.1 r.2 hr⟩

theorem GSafe_sizeBatchGeneralM (s : Sizer α) (avail : AvailableSpace α) (axisInner : Option α) (isFlex : Bool)
    (ffs : α) (batch : List (GItem α)) (tracks : List (GridTrack α)) (hall : AllR s.axis tracks.length batch) :
    GSafe (fun r => r.1.map frame = batch.map frame ∧ r.2.length = tracks.length)
      (sizeBatchGeneralM s avail axisInner isFlex ffs batch tracks) := by
  unfold sizeBatchGeneralM
  simp only []
  have hsub : ∀ {b : List (GItem α)}, b.map frame = batch.map frame → AllR s.axis tracks.length b :=
    fun h => hall.sub (FSub.of_mapFrame h)
  -- 1.
  refine GSafe_bind _ _ _ _ (GSafe_forItemsM s.axis tracks.length _ (fun it ts hr hl => ?_) batch tracks hall rfl)
    fun ⟨b1, t1⟩ ⟨f1, l1⟩ => ?_
  · split
    · exact GSafe_pure _ _ ⟨rfl, hl⟩
    · refine GSafe_bind _ _ _ _ (GSafe_minimumSpaceM s avail it ts _) fun ⟨a, it1⟩ h1 => ?_
      exact GSafe_pure _ _ ⟨h1, by rw [distBase_length _ _ _ _ _ _ _ _ _ (hl ▸ InR_of_frame h1 hr)]; exact hl⟩
  simp only [] at f1 l1 ⊢
  -- 2.
  refine GSafe_bind _ _ _ _ (GSafe_forItemsM s.axis tracks.length _ (fun it ts hr hl => ?_) b1 _ (hsub f1)
    (by rw [flushPlannedBaseSizeIncreases_length]; exact l1)) fun ⟨b2, t2⟩ ⟨f2, l2⟩ => ?_
  · refine GSafe_bind _ _ _ _ (GSafe_sizer_minContent s it) fun ⟨a, it1⟩ h1 => ?_
    exact GSafe_pure _ _ ⟨h1, by rw [distBase_length _ _ _ _ _ _ _ _ _ (hl ▸ InR_of_frame h1 hr)]; exact hl⟩
  simp only [] at f2 l2 ⊢
  have f2' := f2.trans f1
  -- 3.
  refine GSafe_bind (fun r => r.1.map frame = batch.map frame ∧ r.2.length = tracks.length) _ _ _ ?_
    fun ⟨b3, t3⟩ ⟨f3, l3⟩ => ?_
  · split
    · refine GSafe_bind _ _ _ _ (GSafe_forItemsM s.axis tracks.length _ (fun it ts hr hl => ?_) b2 _ (hsub f2')
        (by rw [flushPlannedBaseSizeIncreases_length]; exact l2)) fun ⟨b3, t3⟩ ⟨f3, l3⟩ => ?_
      · refine GSafe_bind _ _ _ _ (GSafe_sizer_maxContent s it) fun ⟨a, it1⟩ h1 => ?_
        simp only []
        split <;>
          exact GSafe_pure _ _ ⟨h1, by rw [distBase_length _ _ _ _ _ _ _ _ _ (hl ▸ InR_of_frame h1 hr)]; exact hl⟩
      · exact GSafe_pure _ _ ⟨f3.trans f2', by rw [flushPlannedBaseSizeIncreases_length]; exact l3⟩
    · exact GSafe_pure _ _ ⟨f2', by rw [flushPlannedBaseSizeIncreases_length]; exact l2⟩
  simp only [] at f3 l3 ⊢
  -- max-content minimums
  refine GSafe_bind _ _ _ _ (GSafe_forItemsM s.axis tracks.length _ (fun it ts hr hl => ?_) b3 _ (hsub f3) l3)
    fun ⟨b4, t4⟩ ⟨f4, l4⟩ => ?_
  · refine GSafe_bind _ _ _ _ (GSafe_sizer_maxContent s it) fun ⟨a, it1⟩ h1 => ?_
    exact GSafe_pure _ _ ⟨h1, by rw [distBase_length _ _ _ _ _ _ _ _ _ (hl ▸ InR_of_frame h1 hr)]; exact hl⟩
  simp only [] at f4 l4 ⊢
  have f4' := f4.trans f3
  have l4' : (raiseGrowthLimits (flushPlannedBaseSizeIncreases t4)).length = tracks.length := by
    rw [raiseGrowthLimits_length, flushPlannedBaseSizeIncreases_length]; exact l4
  split
  · exact GSafe_pure _ _ ⟨f4', l4'⟩
  -- 5.
  refine GSafe_bind _ _ _ _ (GSafe_forItemsM s.axis tracks.length _ (fun it ts hr hl => ?_) b4 _ (hsub f4') l4')
    fun ⟨b5, t5⟩ ⟨f5, l5⟩ => ?_
  · refine GSafe_bind _ _ _ _ (GSafe_sizer_minContent s it) fun ⟨a, it1⟩ h1 => ?_
    exact GSafe_pure _ _ ⟨h1, by rw [distGrowth_length _ _ _ _ _ _ (hl ▸ InR_of_frame h1 hr)]; exact hl⟩
  simp only [] at f5 l5 ⊢
  have f5' := f5.trans f4'
  -- 6.
  refine GSafe_bind _ _ _ _ (GSafe_forItemsM s.axis tracks.length _ (fun it ts hr hl => ?_) b5 _ (hsub f5')
    (by rw [flushPlannedGrowthLimitIncreases_length]; exact l5)) fun ⟨b6, t6⟩ ⟨f6, l6⟩ => ?_
  · refine GSafe_bind _ _ _ _ (GSafe_sizer_maxContent s it) fun ⟨a, it1⟩ h1 => ?_
    exact GSafe_pure _ _ ⟨h1, by rw [distGrowth_length _ _ _ _ _ _ (hl ▸ InR_of_frame h1 hr)]; exact hl⟩
  simp only [] at f6 l6 ⊢
  exact GSafe_pure _ _ ⟨f6.trans f5', by rw [flushPlannedGrowthLimitIncreases_length]; exact l6⟩

end EvalGrid
