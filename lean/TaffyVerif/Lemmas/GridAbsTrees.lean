/-
  C06 for grid at the tree level, first part (`auto` lines).  `AlgAbsBlind gridAlg` is false (Props/EvalGridAbs.lean: an
  absolutely positioned child's lines can make the container panic), so the evaluator-level theorem cannot be
  instantiated with `gridAlg` directly.  Instead (continued in Lemmas/GridAbsCalm.lean for containers that cannot panic):
    * `gridAlgN` = `gridAlg` on the child styles with the grid lines of absolutely positioned children reset to `auto`;
      it IS `AlgAbsBlind` (from `GridAbs.gridAlg_absEquiv`);
    * on a tree in which every absolutely positioned child of a grid container has `auto` lines in both axes
      (`GridAbsAuto`) the evaluator with `gridAlg` and the evaluator with `gridAlgN` coincide
      (`eval_algs_congr_gridOn`).
-/
import TaffyVerif.Lemmas.GridAbsBlind
import TaffyVerif.Lemmas.EvalBlockOnly
import TaffyVerif.Props.EvalFlexAbs

set_option linter.unusedSectionVars false

namespace GridAbs
open GridModel Eval EvalBlock C06 Gen.Facts
variable {α : Type} [Num α] [GridTracks.NumCast α] {C : Type}

/-- decidable form -/
def absAutoLinesB (cs : List (Style α)) : Bool :=
  cs.all fun s => !(s.position == .absolute && !s.isHidden) ||
    (decide (s.grid.row = autoLine) && decide (s.grid.column = autoLine))

theorem absAutoLinesB_iff (cs : List (Style α)) : absAutoLinesB cs = true ↔ AbsAutoLines cs := by
  unfold absAutoLinesB AbsAutoLines
  simp only [List.all_eq_true]
  constructor
  · intro h s hs hv
    obtain ⟨h1, h2⟩ := flags_of_absVis hv
    have := h s hs
    rw [h1, h2] at this
    simp only [Bool.not_false, Bool.and_self, Bool.not_true, Bool.false_or, Bool.and_eq_true, decide_eq_true_eq] at this
    exact this
  · intro h s hs
    cases hh : s.isHidden with
    | true => simp
    | false =>
      cases hp : (s.position == Position.absolute) with
      | false => simp
      | true =>
        obtain ⟨h1, h2⟩ := h s hs (absVis_of_flags hh hp)
        simp [h1, h2]

instance (cs : List (Style α)) : Decidable (AbsAutoLines cs) := decidable_of_iff _ (absAutoLinesB_iff cs)

/-- reset the grid lines of an absolutely positioned box -/
def normAbs (s : Style α) : Style α :=
  if absVis s then { s with grid := { s.grid with row := autoLine, column := autoLine } } else s

theorem normAbs_absVis (s : Style α) : absVis (normAbs s) ↔ absVis s := by
  unfold normAbs
  split
  · rename_i h
    exact ⟨fun _ => h, fun _ => h⟩
  · exact Iff.rfl

theorem normAbs_of_not {s : Style α} (h : ¬ absVis s) : normAbs s = s := by
  unfold normAbs
  rw [if_neg h]

theorem normAbs_auto {s : Style α} (h : absVis s → s.grid.row = autoLine ∧ s.grid.column = autoLine) :
    normAbs s = s := by
  unfold normAbs
  split
  · rename_i hv
    obtain ⟨h1, h2⟩ := h hv
    have e : ({ s.grid with row := autoLine, column := autoLine } : GridExt α) = s.grid := by
      cases hg : s.grid with
      | mk tr tc ar ac af row col =>
        rw [hg] at h1 h2
        simp only at h1 h2
        rw [h1, h2]
    rw [e]
  · rfl

theorem map_normAbs_auto : ∀ (cs : List (Style α)), AbsAutoLines cs → cs.map normAbs = cs
  | [], _ => rfl
  | s :: cs, h => by
    rw [List.map_cons, normAbs_auto (h s List.mem_cons_self),
      map_normAbs_auto cs fun t ht => h t (List.mem_cons_of_mem _ ht)]

theorem agreeA_normAbs : ∀ (xs ys : List (Style α)), AgreeA xs ys →
    AgreeA (xs.map normAbs) (ys.map normAbs) ∧ LinesAgree (xs.map normAbs) (ys.map normAbs)
  | [], [], _ => ⟨trivial, trivial⟩
  | [], _ :: _, h => by simp only [AgreeA] at h
  | _ :: _, [], h => by simp only [AgreeA] at h
  | x :: xs, y :: ys, h => by
    simp only [AgreeA] at h
    obtain ⟨ih1, ih2⟩ := agreeA_normAbs xs ys h.2
    simp only [List.map_cons, AgreeA, LinesAgree]
    refine ⟨⟨?_, ih1⟩, ?_, ih2⟩
    · rcases h.1 with ⟨hx, hy⟩ | ⟨hx, rfl⟩
      · exact Or.inl ⟨(normAbs_absVis x).2 hx, (normAbs_absVis y).2 hy⟩
      · exact Or.inr ⟨fun hv => hx ((normAbs_absVis x).1 hv), rfl⟩
    · intro hv
      have hx := (normAbs_absVis x).1 hv
      rcases h.1 with ⟨_, hy⟩ | ⟨hnx, _⟩
      · unfold normAbs
        rw [if_pos hx, if_pos hy]
        exact ⟨rfl, rfl⟩
      · exact absurd hx hnx

theorem absIdx_normAbs (xs : List (Style α)) : absIdx (xs.map normAbs) = absIdx xs := by
  funext i
  apply propext
  unfold absIdx
  rw [List.getElem?_map]
  constructor
  · rintro ⟨x, hx, hv⟩
    cases hxi : xs[i]? with
    | none => rw [hxi] at hx; cases hx
    | some x0 =>
      rw [hxi] at hx
      simp only [Option.map_some, Option.some.injEq] at hx
      subst hx
      exact ⟨x0, rfl, (normAbs_absVis x0).1 hv⟩
  · rintro ⟨x, hx, hv⟩
    rw [hx]
    exact ⟨normAbs x, rfl, (normAbs_absVis x).2 hv⟩

/-- `compute_grid_layout` with the grid lines of absolutely positioned children reset to `auto` -/
def gridAlgN (s : Style α) (cs : List (Style α)) (inp : LayoutInput α) : ProgM α (LayoutOutput α) :=
  gridAlg s (cs.map normAbs) inp

/-- `gridAlgN` is blind to absolutely positioned children -/
theorem gridAlgN_AbsBlind : AlgAbsBlind (gridAlgN : ContainerAlg α) := by
  intro style xs ys inp h
  obtain ⟨h1, h2⟩ := agreeA_normAbs xs ys h
  have := gridAlg_absEquiv style (xs.map normAbs) (ys.map normAbs) inp h1 h2
  rw [absIdx_normAbs] at this
  exact this

theorem gridAlgN_eq (s : Style α) (cs : List (Style α)) (h : AbsAutoLines cs) : gridAlgN s cs = gridAlg s cs := by
  funext inp
  unfold gridAlgN
  rw [map_normAbs_auto cs h]

/-! ### trees -/

mutual
/-- every absolutely positioned child of every grid container of the tree has `auto` grid lines in both axes -/
def GridAbsAuto : STree α → Prop
  | .node s _ kids => (s.display = .grid → AbsAutoLines (kids.map STree.style)) ∧ GridAbsAutoList kids
def GridAbsAutoList : List (STree α) → Prop
  | [] => True
  | t :: ts => GridAbsAuto t ∧ GridAbsAutoList ts
end

theorem GridAbsAutoList_get : ∀ (kids : List (STree α)) (i : Nat) (t : STree α),
    GridAbsAutoList kids → kids[i]? = some t → GridAbsAuto t
  | [], _, _, _, h => by simp at h
  | a :: as, 0, t, hn, h => by
    simp only [List.getElem?_cons_zero, Option.some.injEq] at h
    subst h
    exact hn.1
  | a :: as, i + 1, t, hn, h => by
    simp only [List.getElem?_cons_succ] at h
    exact GridAbsAutoList_get as i t hn.2 h

/-- on a `GridAbsAuto` tree the evaluator does not distinguish `gridAlg` from `gridAlgN` -/
theorem eval_gridAlgN (ci : CacheImpl α C) (sel : Display → Bool → Option Callee)
    (hsel : ∀ d b, sel d b = some Callee.grid → d = Display.grid) (flex : ContainerAlg α) :
    ∀ (fuel : Nat) (t : STree α) (ns : NS α C) (inp : LayoutInput α), GridAbsAuto t →
      evalNodeWith ci sel (EvalConcrete.algs flex gridAlg) fuel t ns inp =
        evalNodeWith ci sel (EvalConcrete.algs flex gridAlgN) fuel t ns inp := by
  intro fuel
  induction fuel with
  | zero => intro t ns inp _; rw [eval_zero, eval_zero]
  | succ fuel ih =>
    intro t ns inp hn
    cases t with
    | node s ctx kids =>
      rw [eval_succ, eval_succ]
      have hc : computeOf ci sel (EvalConcrete.algs flex gridAlg)
            (evalNodeWith ci sel (EvalConcrete.algs flex gridAlg) fuel) s ctx kids ns inp =
          computeOf ci sel (EvalConcrete.algs flex gridAlgN)
            (evalNodeWith ci sel (EvalConcrete.algs flex gridAlgN) fuel) s ctx kids ns inp := by
        unfold computeOf
        simp only [GridAbsAuto] at hn
        have hkids : evalChildOf (evalNodeWith ci sel (EvalConcrete.algs flex gridAlg) fuel) kids =
            evalChildOf (evalNodeWith ci sel (EvalConcrete.algs flex gridAlgN) fuel) kids :=
          evalChildOf_congr' _ _ kids (fun i t ht k cin => ih t k cin (GridAbsAutoList_get kids i t hn.2 ht))
        cases hsel' : sel s.display (!kids.isEmpty) with
        | none => rfl
        | some c =>
          cases c with
          | hidden => rfl
          | leaf => rfl
          | block => simp only [hkids]; rfl
          | flex => simp only [hkids]; rfl
          | grid =>
            have hd := hsel _ _ hsel'
            simp only [hkids]
            show runOn _ ns (gridAlg s (kids.map STree.style) inp) = runOn _ ns (gridAlgN s (kids.map STree.style) inp)
            rw [gridAlgN_eq s _ (hn.1 hd)]
      rw [hc]

end GridAbs
