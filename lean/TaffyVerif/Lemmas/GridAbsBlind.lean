/-
  C06 for grid.  Since the repair "absolutely positioned children do not create implicit tracks" `compute_grid_layout`
  uses an absolutely positioned child in two places only:
    (1) the hidden/absolute loop resolves the child's grid lines against the final track counts — a line outside the
        implicit grid is `None` (= auto) — and lays the child out in the resulting area;
    (2) its contribution enters `content_size` only.
  The size estimate (step 3) and placement (step 4) no longer see it.  What is left of its grid lines is the CHECKED
  i16 arithmetic of (1) (`into_origin_zero_line`, `OriginZeroLine + u16`, the casts of `try_into_track_vec_index`): a
  line such as `32767 / span 2` panics in a debug build (`overflow` in the model), and a run that panics lays out
  nothing more.  Hence:

    `gridAlg_relW`        for child-style lists that agree except at absolutely positioned boxes (`AgreeA`) the two
                          programs are related UP TO PANICS (`GridRel.GRelW`), unconditionally;
    `gridAlg_absEquiv_noErr`   … and so `AbsEquiv` when neither run can panic;
    `gridAlg_absEquiv`    `AbsEquiv`, panics included, when the absolutely positioned boxes have the same grid lines
                          (`LinesAgree`; the statement that was the partial theorem before the repair);
    `gridAlg_absEquiv_autoR` / `_autoL`  one side may have any lines if it cannot panic and the other has `auto` lines.
-/
import TaffyVerif.Lemmas.GridBoxTop2
import TaffyVerif.Model.GridEval

set_option linter.unusedSectionVars false

namespace GridAbs
open GridModel GridTracks GridRel GridStages C06
variable {α : Type} [Num α] [NumCast α]

abbrev autoLine : Line GridPlacement.Placement := ⟨.auto, .auto⟩

/-- the absolutely positioned children of the two lists have the same `grid_row` / `grid_column` -/
def LinesAgree : List (Style α) → List (Style α) → Prop
  | [], [] => True
  | x :: xs, y :: ys => (absVis x → y.grid.row = x.grid.row ∧ y.grid.column = x.grid.column) ∧ LinesAgree xs ys
  | _, _ => False

/-- both grid lines `auto` -/
def AutoL (s : Style α) : Prop := s.grid.row = autoLine ∧ s.grid.column = autoLine

/-- what is asked of a pair of absolutely positioned boxes at the same index, in a world that tolerates panics on the
left (`eL`) / on the right (`eR`): the same lines, or on each side: panics tolerated or `auto` lines -/
def PairOk (eL eR : Prop) (x y : Style α) : Prop :=
  (y.grid.row = x.grid.row ∧ y.grid.column = x.grid.column) ∨ ((eL ∨ AutoL x) ∧ (eR ∨ AutoL y))

def LinesOk (eL eR : Prop) : List (Style α) → List (Style α) → Prop
  | [], [] => True
  | x :: xs, y :: ys => (absVis x → PairOk eL eR x y) ∧ LinesOk eL eR xs ys
  | _, _ => False

/-! ### one-sided steps -/

variable {w : World α}

theorem GRel.callL_bind {β γ : Type} {Q : β → γ → Prop} {i : Nat} (hi : w.abs i) (inp : LayoutInput α)
    (f : LayoutOutput α → GM α β) (q : GM α γ) (h : ∀ o, GRel w Q (f o) q) : GRel w Q (GM.call i inp >>= f) q := by
  show PRel w _ (ProgM.call i inp _) _
  exact PRel.callL i inp _ _ hi fun o => h o

theorem GRel.callR_bind {β γ : Type} {Q : β → γ → Prop} {i : Nat} (hi : w.abs i) (inp : LayoutInput α)
    (p : GM α β) (f : LayoutOutput α → GM α γ) (h : ∀ o, GRel w Q p (f o)) : GRel w Q p (GM.call i inp >>= f) := by
  show PRel w _ _ (ProgM.call i inp _)
  exact PRel.callR i inp _ _ hi fun o => h o

theorem GRel.setL_bind {β γ : Type} {Q : β → γ → Prop} {i : Nat} (hi : w.abs i) (l : Layout α)
    (f : Unit → GM α β) (q : GM α γ) (h : GRel w Q (f ()) q) : GRel w Q (GM.setLayout i l >>= f) q := by
  show PRel w _ (ProgM.setLayout i l _) _
  exact PRel.setL i l _ _ hi h

theorem GRel.setR_bind {β γ : Type} {Q : β → γ → Prop} {i : Nat} (hi : w.abs i) (l : Layout α)
    (p : GM α β) (f : Unit → GM α γ) (h : GRel w Q p (f ())) : GRel w Q p (GM.setLayout i l >>= f) := by
  show PRel w _ _ (ProgM.setLayout i l _)
  exact PRel.setR i l _ _ hi h

/-- two unrelated `align_and_position_item`s addressed to an `abs` child -/
theorem alignAndPositionItem_oneSided {i : Nat} (hi : w.abs i) (s1 s2 : Style α) (o1 o2 : Nat) (g1 g2 : Rect α)
    (j1 j2 a1 a2 : Option AlignItems) (sh1 sh2 : α) :
    GRel w (fun _ _ => True) (alignAndPositionItem i s1 o1 g1 j1 a1 sh1) (alignAndPositionItem i s2 o2 g2 j2 a2 sh2) := by
  unfold alignAndPositionItem
  dsimp only
  refine GRel.callL_bind hi _ _ _ fun o => ?_
  refine GRel.callR_bind hi _ _ _ fun o' => ?_
  refine GRel.setL_bind hi _ _ _ ?_
  refine GRel.setR_bind hi _ _ _ ?_
  exact GRel.pure trivial

theorem GRel.optOffset (ts : List (GridTrack α)) (i : Option Int) (d : α) :
    GRel w Eq (optOffset ts i d) (optOffset ts i d) := by
  unfold GridModel.optOffset
  cases i with
  | none => exact GRel.pure rfl
  | some i => exact GRel.trackOffset _ _

/-- the absolute branch of the loop for two different `abs` children with the same grid lines: panics included -/
theorem absStep_oneSided {i : Nat} (hi : w.abs i) (a b : GridChildStyle α) (hr : b.gridRow = a.gridRow)
    (hc : b.gridColumn = a.gridColumn) (c : Ctx α) (bb : Size α) (rows cols : List (GridTrack α))
    (cc rc : GridPlacement.TrackCounts) (order : Nat) (acc acc' : Size α) :
    GRel w (fun _ _ => True) (absStep c bb rows cols cc rc a i order acc) (absStep c bb rows cols cc rc b i order acc') := by
  unfold absStep
  rw [hr, hc]
  refine GRel.bind (GRel.ofOutcome _ fun _ => rfl) fun x x' hx => ?_
  subst hx
  refine GRel.bind (GRel.ofOutcome _ fun _ => rfl) fun y y' hy => ?_
  subst hy
  refine GRel.bind (GRel.optOffset _ _ _) fun t t' ht => ?_
  subst ht
  refine GRel.bind (GRel.optOffset _ _ _) fun b1 b1' hb => ?_
  subst hb
  refine GRel.bind (GRel.optOffset _ _ _) fun l l' hl => ?_
  subst hl
  refine GRel.bind (GRel.optOffset _ _ _) fun r r' hr' => ?_
  subst hr'
  refine GRel.bind (alignAndPositionItem_oneSided hi _ _ _ _ _ _ _ _ _ _ _ _) fun _ _ _ => ?_
  exact GRel.pure trivial

/-! ### the grid area of an absolutely positioned child: a value or a panic, no child call -/

/-- the part of `absStep` before `align_and_position_item` -/
def absArea (c : Ctx α) (containerBorderBox : Size α) (rows columns : List (GridTrack α))
    (colCounts rowCounts : GridPlacement.TrackCounts) (cs : GridChildStyle α) : GM α (Rect α) := do
  let colIdx ← GM.ofOutcome (absTrackIndexes cs.gridColumn colCounts)
  let rowIdx ← GM.ofOutcome (absTrackIndexes cs.gridRow rowCounts)
  let top ← optOffset rows rowIdx.start c.border.top
  let bottom ← optOffset rows rowIdx.end (containerBorderBox.height - c.border.bottom - c.scrollbarGutter.y)
  let left ← optOffset columns colIdx.start c.border.left
  let right ← optOffset columns colIdx.end (containerBorderBox.width - c.border.right - c.scrollbarGutter.x)
  pure { top, bottom, left, right }

theorem absStep_eq (c : Ctx α) (bb : Size α) (rows cols : List (GridTrack α)) (cc rc : GridPlacement.TrackCounts)
    (cs : GridChildStyle α) (i order : Nat) (acc : Size α) :
    absStep c bb rows cols cc rc cs i order acc =
      absArea c bb rows cols cc rc cs >>= fun area =>
        alignAndPositionItem i cs.base order area c.justifyItems c.alignItems 0 >>= fun r => pure (acc.f32Max r.1) := by
  unfold absStep absArea
  simp only [bind_assoc, pure_bind]

/-- a `GM` program without interaction: a value or a panic -/
def IsVal {β : Type} (p : GM α β) : Prop := (∃ a, p = pure a) ∨ (∃ e, p = throw e)

theorem IsVal.bind {β γ : Type} {p : GM α β} {f : β → GM α γ} (hp : IsVal p) (hf : ∀ a, IsVal (f a)) :
    IsVal (p >>= f) := by
  rcases hp with ⟨a, rfl⟩ | ⟨e, rfl⟩
  · exact hf a
  · exact Or.inr ⟨e, rfl⟩

theorem IsVal.ofOutcome {β : Type} (o : GridPlacement.Outcome β) : IsVal (GM.ofOutcome o : GM α β) := by
  cases o with
  | ok a => exact Or.inl ⟨a, rfl⟩
  | panic m => exact Or.inr ⟨_, rfl⟩
  | overflow => exact Or.inr ⟨_, rfl⟩
  | outOfFuel => exact Or.inr ⟨_, rfl⟩

theorem IsVal.optOffset (ts : List (GridTrack α)) (i : Option Int) (d : α) : IsVal (optOffset ts i d) := by
  unfold GridModel.optOffset
  cases i with
  | none => exact Or.inl ⟨d, rfl⟩
  | some i =>
    show IsVal (GridModel.trackOffset ts i.toNat)
    unfold GridModel.trackOffset
    cases ts[i.toNat]? with
    | none => exact Or.inr ⟨_, rfl⟩
    | some t => exact Or.inl ⟨_, rfl⟩

theorem absArea_isVal (c : Ctx α) (bb : Size α) (rows cols : List (GridTrack α)) (cc rc : GridPlacement.TrackCounts)
    (cs : GridChildStyle α) : IsVal (absArea c bb rows cols cc rc cs) := by
  unfold absArea
  refine IsVal.bind (IsVal.ofOutcome _) fun _ => ?_
  refine IsVal.bind (IsVal.ofOutcome _) fun _ => ?_
  refine IsVal.bind (IsVal.optOffset _ _ _) fun _ => ?_
  refine IsVal.bind (IsVal.optOffset _ _ _) fun _ => ?_
  refine IsVal.bind (IsVal.optOffset _ _ _) fun _ => ?_
  refine IsVal.bind (IsVal.optOffset _ _ _) fun _ => ?_
  exact Or.inl ⟨_, rfl⟩

/-- `auto` lines resolve to `(None, None)` whatever the track counts -/
theorem absTrackIndexes_auto (counts : GridPlacement.TrackCounts) :
    absTrackIndexes ⟨.auto, .auto⟩ counts = .ok ⟨none, none⟩ := rfl

/-- with `auto` lines in both axes the area is the padding box, whatever the tracks: no panic -/
theorem absArea_auto (c : Ctx α) (bb : Size α) (rows cols : List (GridTrack α)) (cc rc : GridPlacement.TrackCounts)
    (cs : GridChildStyle α) (hr : cs.gridRow = autoLine) (hc : cs.gridColumn = autoLine) :
    ∃ area, absArea c bb rows cols cc rc cs = pure area := by
  unfold absArea
  rw [hr, hc, absTrackIndexes_auto, absTrackIndexes_auto]
  exact ⟨_, rfl⟩

/-- **the absolute branch of the loop for two arbitrary `abs` children, up to panics**: on each side either a panic is
tolerated or the area is a value -/
theorem absStep_weak {i : Nat} (hi : w.abs i) (a b : GridChildStyle α) (c : Ctx α) (bb : Size α)
    (rows cols : List (GridTrack α)) (cc rc : GridPlacement.TrackCounts) (order : Nat) (acc acc' : Size α)
    (hA : w.errL ∨ ∃ area, absArea c bb rows cols cc rc a = pure area)
    (hB : w.errR ∨ ∃ area, absArea c bb rows cols cc rc b = pure area) :
    GRelW w (fun _ _ => True) (absStep c bb rows cols cc rc a i order acc)
      (absStep c bb rows cols cc rc b i order acc') := by
  rw [absStep_eq, absStep_eq]
  have hstep : ∀ (ra rb : Rect α), GRelW w (fun _ _ => True)
      ((pure ra : GM α (Rect α)) >>= fun area =>
        alignAndPositionItem i a.base order area c.justifyItems c.alignItems 0 >>= fun r => pure (acc.f32Max r.1))
      ((pure rb : GM α (Rect α)) >>= fun area =>
        alignAndPositionItem i b.base order area c.justifyItems c.alignItems 0 >>= fun r => pure (acc'.f32Max r.1)) := by
    intro ra rb
    rw [pure_bind, pure_bind]
    exact GRelW.of_GRel (GRel.bind (alignAndPositionItem_oneSided hi _ _ _ _ _ _ _ _ _ _ _ _) fun _ _ _ =>
      GRel.pure trivial)
  rcases absArea_isVal c bb rows cols cc rc a with ⟨ra, ha⟩ | ⟨ea, ha⟩
  · rcases absArea_isVal c bb rows cols cc rc b with ⟨rb, hb⟩ | ⟨eb, hb⟩
    · rw [ha, hb]
      exact hstep ra rb
    · rw [hb]
      rcases hB with hr | ⟨area, harea⟩
      · exact GRelW.throwR hr eb _
      · rw [hb] at harea
        cases harea
  · rw [ha]
    rcases hA with hl | ⟨area, harea⟩
    · exact GRelW.throwL hl ea _
    · rw [ha] at harea
      cases harea

/-! ### the pointwise relation from `AgreeA` + `LinesOk` -/

theorem display_beq_none (d : Display) : (d == Display.none) = true ↔ d = Display.none := by
  cases d <;> decide

theorem position_beq_abs (p : Position) : (p == Position.absolute) = true ↔ p = Position.absolute := by
  cases p <;> decide

theorem absVis_of_flags {s : Style α} (hh : s.isHidden = false) (hp : (s.position == Position.absolute) = true) :
    absVis s := by
  refine ⟨(position_beq_abs _).1 hp, fun hd => ?_⟩
  have : s.isHidden = true := (display_beq_none _).2 hd
  rw [hh] at this
  cases this

theorem flags_of_absVis {s : Style α} (h : absVis s) :
    s.isHidden = false ∧ (s.position == Position.absolute) = true := by
  refine ⟨?_, (position_beq_abs _).2 h.1⟩
  cases hh : s.isHidden with
  | false => rfl
  | true => exact absurd ((display_beq_none _).1 hh) h.2

/-- the world of C06 with tolerated panics is as good as the world of C06 -/
theorem World.absE_good (abs : Nat → Prop) (eL eR : Prop) :
    (World.absE abs eL eR : World α).Good (fun _ _ => True) C06.OutEqv where
  size := fun _ _ h => h.1
  baselines := fun _ _ h => h.2.1
  lay := fun _ _ _ _ => ⟨rfl, rfl, rfl, rfl, rfl, rfl, rfl⟩
  rlRefl := fun l => C06.LayEqv.refl l
  rc0 := trivial
  rcStep := fun _ _ _ _ _ _ _ => trivial
  out := fun _ _ _ _ _ => ⟨rfl, rfl, rfl, rfl, rfl⟩
  outRefl := fun o => C06.OutEqv.refl o

theorem childOK_agree (abs : Nat → Prop) (eL eR : Prop) (i : Nat) (x y : Style α)
    (h : (absVis x ∧ absVis y) ∨ (¬ absVis x ∧ x = y))
    (hl : absVis x → PairOk eL eR x y) (habs : abs i ↔ absVis x) :
    ChildOK (World.absE abs eL eR : World α) (fun _ => false) (fun _ _ => True) i (GridChildStyle.ofStyle x)
      (GridChildStyle.ofStyle y) := by
  rcases h with ⟨hx, hy⟩ | ⟨hx, rfl⟩
  · obtain ⟨hx1, hx2⟩ := flags_of_absVis hx
    obtain ⟨hy1, hy2⟩ := flags_of_absVis hy
    have hi : (World.absE abs eL eR : World α).abs i := habs.2 hx
    refine ⟨hy1.trans hx1.symm, hy2.trans hx2.symm, fun hh => ?_, fun hn => absurd hi hn, fun _ hp => ?_,
      fun _ _ c bb rows cols cc rc order acc acc' _ => ?_⟩
    · rw [show (GridChildStyle.ofStyle x).base.isHidden = x.isHidden from rfl, hx1] at hh
      cases hh
    · rw [show ((GridChildStyle.ofStyle x).base.position == Position.absolute) = (x.position == Position.absolute)
        from rfl, hx2] at hp
      cases hp
    · rcases hl hx with ⟨h1, h2⟩ | ⟨hA, hB⟩
      · exact GRelW.of_GRel (absStep_oneSided hi _ _ h1 h2 c bb rows cols cc rc order acc acc')
      · refine absStep_weak hi _ _ c bb rows cols cc rc order acc acc' ?_ ?_
        · rcases hA with e | ⟨a1, a2⟩
          · exact Or.inl e
          · exact Or.inr (absArea_auto c bb rows cols cc rc _ a1 a2)
        · rcases hB with e | ⟨a1, a2⟩
          · exact Or.inl e
          · exact Or.inr (absArea_auto c bb rows cols cc rc _ a1 a2)
  · have hn : ¬ (World.absE abs eL eR : World α).abs i := fun hi => hx (habs.1 hi)
    refine ⟨rfl, rfl, fun _ => hn, fun _ _ _ _ _ _ => rfl, fun _ _ => ⟨hn, rfl, rfl, fun _ _ _ _ => ?_⟩,
      fun hh hp => absurd (absVis_of_flags hh hp) hx⟩
    rw [phi_false]

theorem childrenOK_agree (abs : Nat → Prop) (eL eR : Prop) : ∀ (xs ys : List (Style α)) (n : Nat), AgreeA xs ys →
    LinesOk eL eR xs ys → (∀ j x, xs[j]? = some x → (abs (n + j) ↔ absVis x)) →
    ChildrenOK (World.absE abs eL eR : World α) (fun _ => false) (fun _ _ => True) n (xs.map GridChildStyle.ofStyle)
      (ys.map GridChildStyle.ofStyle)
  | [], [], _, _, _, _ => trivial
  | [], _ :: _, _, h, _, _ => by simp only [AgreeA] at h
  | _ :: _, [], _, h, _, _ => by simp only [AgreeA] at h
  | x :: xs, y :: ys, n, h, hl, habs => by
    simp only [AgreeA] at h
    simp only [LinesOk] at hl
    simp only [List.map_cons, ChildrenOK]
    refine ⟨childOK_agree abs eL eR n x y h.1 hl.1 (by simpa using habs 0 x rfl),
      childrenOK_agree abs eL eR xs ys (n + 1) h.2 hl.2 fun j x' hx' => ?_⟩
    have := habs (j + 1) x' (by simpa using hx')
    rw [← this]
    have e : n + 1 + j = n + (j + 1) := by omega
    rw [e]

/-- the size estimate does not see absolutely positioned children at all -/
theorem boxChildren_agree : ∀ (xs ys : List (Style α)), AgreeA xs ys →
    boxChildren (ys.map GridChildStyle.ofStyle) = boxChildren (xs.map GridChildStyle.ofStyle)
  | [], [], _ => rfl
  | [], _ :: _, h => by simp only [AgreeA] at h
  | _ :: _, [], h => by simp only [AgreeA] at h
  | x :: xs, y :: ys, h => by
    simp only [AgreeA] at h
    have ih := boxChildren_agree xs ys h.2
    rw [List.map_cons, List.map_cons, boxChildren_cons, boxChildren_cons, ih]
    rcases h.1 with ⟨hx, hy⟩ | ⟨_, rfl⟩
    · obtain ⟨_, hx2⟩ := flags_of_absVis hx
      obtain ⟨_, hy2⟩ := flags_of_absVis hy
      have e1 : ((GridChildStyle.ofStyle x).base.position != Position.absolute) = false := by
        show (!(x.position == Position.absolute)) = false
        rw [hx2]; rfl
      have e2 : ((GridChildStyle.ofStyle y).base.position != Position.absolute) = false := by
        show (!(y.position == Position.absolute)) = false
        rw [hy2]; rfl
      rw [e1, e2, Bool.and_false, Bool.and_false]
      rfl
    · rfl

theorem absIdx_iff (xs : List (Style α)) (j : Nat) (x : Style α) (hx : xs[j]? = some x) :
    absIdx xs (0 + j) ↔ absVis x := by
  rw [Nat.zero_add]
  constructor
  · rintro ⟨x', hx', hv⟩
    rw [hx] at hx'
    cases hx'
    exact hv
  · intro hv
    exact ⟨x, hx, hv⟩

/-- **related up to panics**: child-style lists that agree except at absolutely positioned boxes, with `LinesOk` -/
theorem computeGridLayoutE_relW_agree (eL eR : Prop) (style : Style α) (xs ys : List (Style α)) (inp : LayoutInput α)
    (h : AgreeA xs ys) (hl : LinesOk eL eR xs ys) :
    GRelW (World.absE (absIdx xs) eL eR : World α) OutEqv
      (computeGridLayoutE (GridStyle.ofStyle style) (xs.map GridChildStyle.ofStyle) inp)
      (computeGridLayoutE (GridStyle.ofStyle style) (ys.map GridChildStyle.ofStyle) inp) :=
  computeGridLayoutE_relW (World.absE_good (α := α) (absIdx xs) eL eR) (readers_false (α := α))
    (GridStyle.ofStyle style) (xs.map GridChildStyle.ofStyle) (ys.map GridChildStyle.ofStyle) inp
    (childrenOK_agree (absIdx xs) eL eR xs ys 0 h hl (absIdx_iff xs))
    (fun ec er => by rw [boxChildren_agree xs ys h])

/-- in the world that tolerates panics on both sides no condition on the lines is left -/
theorem linesOk_both : ∀ (xs ys : List (Style α)), AgreeA xs ys → LinesOk True True xs ys
  | [], [], _ => trivial
  | [], _ :: _, h => by simp only [AgreeA] at h
  | _ :: _, [], h => by simp only [AgreeA] at h
  | x :: xs, y :: ys, h => by
    simp only [AgreeA] at h
    exact ⟨fun _ => Or.inr ⟨Or.inl trivial, Or.inl trivial⟩, linesOk_both xs ys h.2⟩

/-- **gridAlg_relW** (unconditional): for child-style lists that agree except at indices where both styles are
absolutely positioned boxes, the two grid programs are equal up to the calls/`setLayout`s addressed to those children, up
to `content_size`, and UP TO PANICS: a run that has panicked is related to every run of the other side -/
theorem gridAlg_relW (style : Style α) (xs ys : List (Style α)) (inp : LayoutInput α) (h : AgreeA xs ys) :
    GRelW (World.absE (absIdx xs) True True : World α) OutEqv
      (computeGridLayoutE (GridStyle.ofStyle style) (xs.map GridChildStyle.ofStyle) inp)
      (computeGridLayoutE (GridStyle.ofStyle style) (ys.map GridChildStyle.ofStyle) inp) :=
  computeGridLayoutE_relW_agree True True style xs ys inp h (linesOk_both xs ys h)

/-- `PRel` does not look at the tolerated panics -/
theorem PRel.to_absEquivE {β γ : Type} {abs : Nat → Prop} {eL eR : Prop} {Q : β → γ → Prop} {p : ProgM α β}
    {q : ProgM α γ} (h : PRel (World.absE abs eL eR : World α) Q p q) : C06.AbsEquiv abs Q p q := by
  induction h with
  | pure a b hab => exact .pure a b hab
  | call i inp k1 k2 hi _ ih => exact .call i inp _ _ hi ih
  | setLayout i lA lB k1 k2 hl _ ih => exact .setLayout i lA lB _ _ hl ih
  | callL i inp k1 q hi _ ih => exact .callL i inp _ _ hi ih
  | callR i inp p k2 hi _ ih => exact .callR i inp _ _ hi ih
  | setL i l k1 q hi _ ih => exact .setL i l _ _ hi ih
  | setR i l p k2 hi _ ih => exact .setR i l _ _ hi ih

/-- from "related up to panics" to `AbsEquiv` of the two `gridAlg`s, when the tolerated panics cannot happen -/
theorem gridAlg_absEquiv_of_relW (eL eR : Prop) (style : Style α) (xs ys : List (Style α)) (inp : LayoutInput α)
    (h : AgreeA xs ys) (hl : LinesOk eL eR xs ys)
    (hL : eL → NoErr (computeGridLayoutE (GridStyle.ofStyle style) (xs.map GridChildStyle.ofStyle) inp).run)
    (hR : eR → NoErr (computeGridLayoutE (GridStyle.ofStyle style) (ys.map GridChildStyle.ofStyle) inp).run) :
    AbsEquiv (absIdx xs) OutEqv (gridAlg style xs inp) (gridAlg style ys inp) := by
  have hrel : GRel (World.absE (absIdx xs) eL eR : World α) OutEqv _ _ :=
    (computeGridLayoutE_relW_agree eL eR style xs ys inp h hl).to_GRel hL hR
  unfold gridAlg computeGridLayout
  refine PRel.to_absEquivE (PRel.bind hrel fun r r' hr => ?_)
  cases r with
  | ok a =>
    cases r' with
    | ok b => exact PRel.pure _ _ hr
    | error e => exact hr.elim
  | error e =>
    cases r' with
    | ok b => exact hr.elim
    | error e' => exact PRel.pure _ _ (OutEqv.refl _)

/-- **AbsBlind on runs that cannot panic**: no condition on the grid lines of the absolutely positioned children -/
theorem gridAlg_absEquiv_noErr (style : Style α) (xs ys : List (Style α)) (inp : LayoutInput α) (h : AgreeA xs ys)
    (hL : NoErr (computeGridLayoutE (GridStyle.ofStyle style) (xs.map GridChildStyle.ofStyle) inp).run)
    (hR : NoErr (computeGridLayoutE (GridStyle.ofStyle style) (ys.map GridChildStyle.ofStyle) inp).run) :
    AbsEquiv (absIdx xs) OutEqv (gridAlg style xs inp) (gridAlg style ys inp) :=
  gridAlg_absEquiv_of_relW True True style xs ys inp h (linesOk_both xs ys h) (fun _ => hL) (fun _ => hR)

theorem linesOk_of_linesAgree : ∀ (xs ys : List (Style α)), LinesAgree xs ys → LinesOk False False xs ys
  | [], [], _ => trivial
  | [], _ :: _, h => by simp only [LinesAgree] at h
  | _ :: _, [], h => by simp only [LinesAgree] at h
  | x :: xs, y :: ys, h => by
    simp only [LinesAgree] at h
    exact ⟨fun hv => Or.inl (h.1 hv), linesOk_of_linesAgree xs ys h.2⟩

/-- **the same grid lines** (the partial theorem of before the repair): panics included, no side condition on the runs -/
theorem gridAlg_absEquiv (style : Style α) (xs ys : List (Style α)) (inp : LayoutInput α) (h : AgreeA xs ys)
    (hl : LinesAgree xs ys) :
    AbsEquiv (absIdx xs) OutEqv (gridAlg style xs inp) (gridAlg style ys inp) :=
  gridAlg_absEquiv_of_relW False False style xs ys inp h (linesOk_of_linesAgree xs ys hl) (fun e => e.elim)
    (fun e => e.elim)

/-- every absolutely positioned box of the list has `auto` grid lines in both axes -/
def AbsAutoLines (cs : List (Style α)) : Prop :=
  ∀ s ∈ cs, absVis s → s.grid.row = autoLine ∧ s.grid.column = autoLine

theorem linesOk_autoR : ∀ (xs ys : List (Style α)), AgreeA xs ys → AbsAutoLines ys → LinesOk True False xs ys
  | [], [], _, _ => trivial
  | [], _ :: _, h, _ => by simp only [AgreeA] at h
  | _ :: _, [], h, _ => by simp only [AgreeA] at h
  | x :: xs, y :: ys, h, hy => by
    simp only [AgreeA] at h
    refine ⟨fun hv => Or.inr ⟨Or.inl trivial, Or.inr ?_⟩,
      linesOk_autoR xs ys h.2 fun s hs => hy s (List.mem_cons_of_mem _ hs)⟩
    rcases h.1 with ⟨_, hvy⟩ | ⟨hn, _⟩
    · exact hy y List.mem_cons_self hvy
    · exact absurd hv hn

theorem linesOk_autoL : ∀ (xs ys : List (Style α)), AgreeA xs ys → AbsAutoLines xs → LinesOk False True xs ys
  | [], [], _, _ => trivial
  | [], _ :: _, h, _ => by simp only [AgreeA] at h
  | _ :: _, [], h, _ => by simp only [AgreeA] at h
  | x :: xs, y :: ys, h, hx => by
    simp only [AgreeA] at h
    exact ⟨fun hv => Or.inr ⟨Or.inr (hx x List.mem_cons_self hv), Or.inl trivial⟩,
      linesOk_autoL xs ys h.2 fun s hs => hx s (List.mem_cons_of_mem _ hs)⟩

/-- the left run cannot panic, the absolutely positioned boxes on the right have `auto` lines -/
theorem gridAlg_absEquiv_autoR (style : Style α) (xs ys : List (Style α)) (inp : LayoutInput α) (h : AgreeA xs ys)
    (hy : AbsAutoLines ys)
    (hL : NoErr (computeGridLayoutE (GridStyle.ofStyle style) (xs.map GridChildStyle.ofStyle) inp).run) :
    AbsEquiv (absIdx xs) OutEqv (gridAlg style xs inp) (gridAlg style ys inp) :=
  gridAlg_absEquiv_of_relW True False style xs ys inp h (linesOk_autoR xs ys h hy) (fun _ => hL) (fun e => e.elim)

/-- the right run cannot panic, the absolutely positioned boxes on the left have `auto` lines -/
theorem gridAlg_absEquiv_autoL (style : Style α) (xs ys : List (Style α)) (inp : LayoutInput α) (h : AgreeA xs ys)
    (hx : AbsAutoLines xs)
    (hR : NoErr (computeGridLayoutE (GridStyle.ofStyle style) (ys.map GridChildStyle.ofStyle) inp).run) :
    AbsEquiv (absIdx xs) OutEqv (gridAlg style xs inp) (gridAlg style ys inp) :=
  gridAlg_absEquiv_of_relW False True style xs ys inp h (linesOk_autoL xs ys h hx) (fun e => e.elim) (fun _ => hR)

end GridAbs
