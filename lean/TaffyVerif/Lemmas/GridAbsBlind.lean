/-
  C06 for grid, the partial theorem.  `compute_grid_layout` uses an absolutely positioned child in three places:
    (1) step 3, the grid size estimate, iterates over ALL box-generating children — the grid lines of an absolutely
        positioned child enter the implicit track counts (this is what makes `AlgAbsBlind gridAlg` false);
    (2) the hidden/absolute loop resolves the child's grid lines against the final track counts (may panic) and lays it
        out in the resulting area;
    (3) its contribution enters `content_size` only.
  If the absolutely positioned children of the two lists agree on their grid lines (`LinesAgree`; in particular if all
  have `auto` lines), the two programs are equal up to the calls/layouts addressed to those children and the outputs
  are equal up to `content_size`.
-/
import TaffyVerif.Lemmas.GridBoxTop2
import TaffyVerif.Model.GridEval

set_option linter.unusedSectionVars false

namespace GridAbs
open GridModel GridTracks GridRel GridStages C06
variable {α : Type} [Num α] [NumCast α]

/-- the absolutely positioned children of the two lists have the same `grid_row` / `grid_column` -/
def LinesAgree : List (Style α) → List (Style α) → Prop
  | [], [] => True
  | x :: xs, y :: ys => (absVis x → y.grid.row = x.grid.row ∧ y.grid.column = x.grid.column) ∧ LinesAgree xs ys
  | _, _ => False

/-! ### one-sided steps -/

variable {w : World α}

theorem GRel.callL_bind {β γ : Type} {Q : β → γ → Prop} {i : Nat} (hi : w.abs i) (inp : LayoutInput α)
    (f : LayoutOutput α → GM α β) (q : GM α γ) (h : ∀ o, GRel w Q (f o) q) : GRel w Q (GM.call i inp >>= f) q := by
  show PRel w _ (ProgM.call i inp _) _
  exact PRel.callL i inp _ _ hi fun o => h o

theorem GRel.callR_bind {β γ : Type} {Q : β → γ → Prop} {i : Nat} (hi : w.abs i) (inp : LayoutInput α)
    (p : GM α β) (f : LayoutOutput α → GM α γ) (h : ∀ o, GRel w Q p (f o)) : GRel w Q p (GM.call i inp >>= f) := by
  show PRel w _ _ (ProgM.call i inp _)
  exact PRel.callR i inp _ _ hi fun o => h o

theorem GRel.setL_bind {β γ : Type} {Q : β → γ → Prop} {i : Nat} (hi : w.abs i) (l : Layout α)
    (f : Unit → GM α β) (q : GM α γ) (h : GRel w Q (f ()) q) : GRel w Q (GM.setLayout i l >>= f) q := by
  show PRel w _ (ProgM.setLayout i l _) _
  exact PRel.setL i l _ _ hi h

theorem GRel.setR_bind {β γ : Type} {Q : β → γ → Prop} {i : Nat} (hi : w.abs i) (l : Layout α)
    (p : GM α β) (f : Unit → GM α γ) (h : GRel w Q p (f ())) : GRel w Q p (GM.setLayout i l >>= f) := by
  show PRel w _ _ (ProgM.setLayout i l _)
  exact PRel.setR i l _ _ hi h

/-- two unrelated `align_and_position_item`s addressed to an `abs` child -/
theorem alignAndPositionItem_oneSided {i : Nat} (hi : w.abs i) (s1 s2 : Style α) (o1 o2 : Nat) (g1 g2 : Rect α)
    (j1 j2 a1 a2 : Option AlignItems) (sh1 sh2 : α) :
    GRel w (fun _ _ => True) (alignAndPositionItem i s1 o1 g1 j1 a1 sh1) (alignAndPositionItem i s2 o2 g2 j2 a2 sh2) := by
  unfold alignAndPositionItem
  dsimp only
  refine GRel.callL_bind hi _ _ _ fun o => ?_
  refine GRel.callR_bind hi _ _ _ fun o' => ?_
  refine GRel.setL_bind hi _ _ _ ?_
  refine GRel.setR_bind hi _ _ _ ?_
  exact GRel.pure trivial

theorem GRel.optOffset (ts : List (GridTrack α)) (i : Option Int) (d : α) :
    GRel w Eq (optOffset ts i d) (optOffset ts i d) := by
  unfold GridModel.optOffset
  cases i with
  | none => exact GRel.pure rfl
  | some i => exact GRel.trackOffset _ _

/-- the absolute branch of the loop for two different `abs` children with the same grid lines -/
theorem absStep_oneSided {i : Nat} (hi : w.abs i) (a b : GridChildStyle α) (hr : b.gridRow = a.gridRow)
    (hc : b.gridColumn = a.gridColumn) (c : Ctx α) (bb : Size α) (rows cols : List (GridTrack α))
    (cc rc : GridPlacement.TrackCounts) (order : Nat) (acc acc' : Size α) :
    GRel w (fun _ _ => True) (absStep c bb rows cols cc rc a i order acc) (absStep c bb rows cols cc rc b i order acc') := by
  unfold absStep
  rw [hr, hc]
  refine GRel.bind (GRel.ofOutcome _ fun _ => rfl) fun x x' hx => ?_
  subst hx
  refine GRel.bind (GRel.ofOutcome _ fun _ => rfl) fun y y' hy => ?_
  subst hy
  refine GRel.bind (GRel.optOffset _ _ _) fun t t' ht => ?_
  subst ht
  refine GRel.bind (GRel.optOffset _ _ _) fun b1 b1' hb => ?_
  subst hb
  refine GRel.bind (GRel.optOffset _ _ _) fun l l' hl => ?_
  subst hl
  refine GRel.bind (GRel.optOffset _ _ _) fun r r' hr' => ?_
  subst hr'
  refine GRel.bind (alignAndPositionItem_oneSided hi _ _ _ _ _ _ _ _ _ _ _ _) fun _ _ _ => ?_
  exact GRel.pure trivial

/-! ### the pointwise relation from `AgreeA` + `LinesAgree` -/

theorem display_beq_none (d : Display) : (d == Display.none) = true ↔ d = Display.none := by
  cases d <;> decide

theorem position_beq_abs (p : Position) : (p == Position.absolute) = true ↔ p = Position.absolute := by
  cases p <;> decide

theorem absVis_of_flags {s : Style α} (hh : s.isHidden = false) (hp : (s.position == Position.absolute) = true) :
    absVis s := by
  refine ⟨(position_beq_abs _).1 hp, fun hd => ?_⟩
  have : s.isHidden = true := (display_beq_none _).2 hd
  rw [hh] at this
  cases this

theorem flags_of_absVis {s : Style α} (h : absVis s) :
    s.isHidden = false ∧ (s.position == Position.absolute) = true := by
  refine ⟨?_, (position_beq_abs _).2 h.1⟩
  cases hh : s.isHidden with
  | false => rfl
  | true => exact absurd ((display_beq_none _).1 hh) h.2

theorem childOK_agree (abs : Nat → Prop) (i : Nat) (x y : Style α)
    (h : (absVis x ∧ absVis y) ∨ (¬ absVis x ∧ x = y))
    (hl : absVis x → y.grid.row = x.grid.row ∧ y.grid.column = x.grid.column) (habs : abs i ↔ absVis x) :
    ChildOK (World.absW abs : World α) (fun _ => false) (fun _ _ => True) i (GridChildStyle.ofStyle x)
      (GridChildStyle.ofStyle y) := by
  rcases h with ⟨hx, hy⟩ | ⟨hx, rfl⟩
  · obtain ⟨hx1, hx2⟩ := flags_of_absVis hx
    obtain ⟨hy1, hy2⟩ := flags_of_absVis hy
    have hi : (World.absW abs : World α).abs i := habs.2 hx
    refine ⟨hy1.trans hx1.symm, hy2.trans hx2.symm, fun hh => ?_, fun hn => absurd hi hn, fun _ hp => ?_,
      fun _ _ c bb rows cols cc rc order acc acc' _ => ?_⟩
    · rw [show (GridChildStyle.ofStyle x).base.isHidden = x.isHidden from rfl, hx1] at hh
      cases hh
    · rw [show ((GridChildStyle.ofStyle x).base.position == Position.absolute) = (x.position == Position.absolute)
        from rfl, hx2] at hp
      cases hp
    · exact absStep_oneSided hi _ _ (hl hx).1 (hl hx).2 c bb rows cols cc rc order acc acc'
  · have hn : ¬ (World.absW abs : World α).abs i := fun hi => hx (habs.1 hi)
    refine ⟨rfl, rfl, fun _ => hn, fun _ _ _ _ _ _ => rfl, fun _ _ => ⟨hn, rfl, rfl, fun _ _ _ _ => ?_⟩,
      fun hh hp => absurd (absVis_of_flags hh hp) hx⟩
    rw [phi_false]

theorem childrenOK_agree (abs : Nat → Prop) : ∀ (xs ys : List (Style α)) (n : Nat), AgreeA xs ys → LinesAgree xs ys →
    (∀ j x, xs[j]? = some x → (abs (n + j) ↔ absVis x)) →
    ChildrenOK (World.absW abs : World α) (fun _ => false) (fun _ _ => True) n (xs.map GridChildStyle.ofStyle)
      (ys.map GridChildStyle.ofStyle)
  | [], [], _, _, _, _ => trivial
  | [], _ :: _, _, h, _, _ => by simp only [AgreeA] at h
  | _ :: _, [], _, h, _, _ => by simp only [AgreeA] at h
  | x :: xs, y :: ys, n, h, hl, habs => by
    simp only [AgreeA] at h
    simp only [LinesAgree] at hl
    simp only [List.map_cons, ChildrenOK]
    refine ⟨childOK_agree abs n x y h.1 hl.1 (by simpa using habs 0 x rfl),
      childrenOK_agree abs xs ys (n + 1) h.2 hl.2 fun j x' hx' => ?_⟩
    have := habs (j + 1) x' (by simpa using hx')
    rw [← this]
    have e : n + 1 + j = n + (j + 1) := by omega
    rw [e]

theorem boxChildren_agree : ∀ (xs ys : List (Style α)), AgreeA xs ys → LinesAgree xs ys →
    boxChildren (ys.map GridChildStyle.ofStyle) = boxChildren (xs.map GridChildStyle.ofStyle)
  | [], [], _, _ => rfl
  | [], _ :: _, h, _ => by simp only [AgreeA] at h
  | _ :: _, [], h, _ => by simp only [AgreeA] at h
  | x :: xs, y :: ys, h, hl => by
    simp only [AgreeA] at h
    simp only [LinesAgree] at hl
    have ih := boxChildren_agree xs ys h.2 hl.2
    unfold boxChildren at ih ⊢
    rcases h.1 with ⟨hx, hy⟩ | ⟨_, rfl⟩
    · obtain ⟨hx1, _⟩ := flags_of_absVis hx
      obtain ⟨hy1, _⟩ := flags_of_absVis hy
      have e1 : (GridChildStyle.ofStyle x).base.isHidden = false := hx1
      have e2 : (GridChildStyle.ofStyle y).base.isHidden = false := hy1
      have e3 : (GridChildStyle.ofStyle y).gridRow = (GridChildStyle.ofStyle x).gridRow := (hl.1 hx).1
      have e4 : (GridChildStyle.ofStyle y).gridColumn = (GridChildStyle.ofStyle x).gridColumn := (hl.1 hx).2
      simp only [List.map_cons, List.filter_cons, e1, e2, Bool.not_false, if_true, e3, e4, ih]
    · simp only [List.map_cons, List.filter_cons]
      split
      · simp only [List.map_cons, ih]
      · exact ih

/-- **the partial theorem, relational form** -/
theorem gridAlg_absEquiv (style : Style α) (xs ys : List (Style α)) (inp : LayoutInput α) (h : AgreeA xs ys)
    (hl : LinesAgree xs ys) :
    AbsEquiv (absIdx xs) OutEqv (gridAlg style xs inp) (gridAlg style ys inp) := by
  have hrel := computeGridLayoutE_rel (World.absW_good (α := α) (absIdx xs)) (readers_false (α := α))
    (GridStyle.ofStyle style) (xs.map GridChildStyle.ofStyle) (ys.map GridChildStyle.ofStyle) inp
    (childrenOK_agree (absIdx xs) xs ys 0 h hl fun j x hx => by
      rw [Nat.zero_add]
      constructor
      · rintro ⟨x', hx', hv⟩
        rw [hx] at hx'
        cases hx'
        exact hv
      · intro hv
        exact ⟨x, hx, hv⟩)
    (fun ec er => by rw [boxChildren_agree xs ys h hl])
  unfold gridAlg computeGridLayout
  refine PRel.to_absEquiv (PRel.bind hrel fun r r' hr => ?_)
  cases r with
  | ok a =>
    cases r' with
    | ok b => exact PRel.pure _ _ hr
    | error e => exact hr.elim
  | error e =>
    cases r' with
    | ok b => exact hr.elim
    | error e' => exact PRel.pure _ _ (OutEqv.refl _)

end GridAbs
