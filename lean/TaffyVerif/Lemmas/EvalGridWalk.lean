/-
  The measuring stages of the grid program (`gridMain`, `gridStep7`: the 2 + 2 runs of the track sizing algorithm and the
  re-run tests of step 7) walked ONCE, for every property `K` of the remaining program that is closed under prefixing a
  measuring program (`Closed K`): `C16.callsLe` (with the call budget), `C05.PHZ`, the coverage flags.

  Call budget of a PerformLayout run with `n` in-flow items and `h` hidden / absolutely positioned children:
      first inline-axis run   ≤ 2n contribution calls (both caches of every item empty) + n baseline calls
      first block-axis run    ≤ 2n
      step 7, inline axis     ≤ n (min-content re-measurement) resp. 0 (caches cleared), then the re-run: what the caches
                               leave + n baseline calls: together with the first run ≤ 6n
      step 7, block axis      together with the first run ≤ 4n
      positioning             n + h
  so at most `11·n + h` child calls.
-/
import TaffyVerif.Lemmas.EvalGridLay

set_option linter.unusedSectionVars false
set_option linter.unusedVariables false

namespace EvalGrid
open GridModel GridTracks EvalBlock
variable {α : Type} [Num α]

/-! ### step 7: the re-run tests -/

theorem pot_clear (ax : Ax) (it : GItem α) :
    pot ax { it with availableSpaceCache := none,
                     minContentContributionCache := sset it.minContentContributionCache ax none,
                     maxContentContributionCache := sset it.maxContentContributionCache ax none,
                     minimumContributionCache := sset it.minimumContributionCache ax none } = 2 := by
  simp only [pot, sget_sset_self]; rfl

theorem UpdL_clearCaches (ax : Ax) : ∀ items : List (GItem α),
    UpdL ax items (clearCaches ax items) ∧ potA ax (clearCaches ax items) = 2 * items.length
  | [] => ⟨UpdL.refl _ _, rfl⟩
  | it :: rest => by
    obtain ⟨h1, h2⟩ := UpdL_clearCaches ax rest
    unfold clearCaches at h1 h2 ⊢
    simp only [List.map_cons]
    refine ⟨UpdL.cons ⟨rfl, ?_⟩ h1, ?_⟩
    · simp only [pot, sget_sset_other]
    · rw [potA_cons, h2, pot_clear, List.length_cons]; omega

/-- `items.iter_mut().filter(crosses_intrinsic_column).any(has_changed)`: one min-content query per visited item; a
visited item comes back with its min-content cache filled and its max-content cache EMPTIED: its potential rises by at
most the one call spent on it -/
theorem GMeas_minContentChanged (ax : Ax) (tracks : List (GridTrack α)) (inner : Size (Option α)) :
    ∀ (items : List (GItem α)) (b : Nat), items.length ≤ b →
      GMeas (fun m r => UpdL ax items r.2 ∧ potA ax r.2 + m ≤ potA ax items + b ∧ b ≤ m + items.length) b
        (minContentChanged ax tracks inner items)
  | [], b, _ => GMeas_pure _ _ _ ⟨UpdL.refl _ _, Nat.le_refl _, Nat.le_refl _⟩
  | it :: rest, b, hb => by
    unfold minContentChanged
    simp only [List.length_cons] at hb
    split
    · refine GMeas_bind _ _ _ _ _ (GMeas_minContentChanged ax tracks inner rest b (by omega)) fun m ⟨bb, rest'⟩
        ⟨hu, h1, h2⟩ => ?_
      simp only [] at hu h1 h2 ⊢
      refine GMeas_pure _ _ _ ⟨UpdL.cons (Upd.refl _ _) hu, ?_, ?_⟩
      · simp only [potA_cons]; omega
      · simp only [List.length_cons]; omega
    · simp only []
      unfold GItem.minContentContribution
      obtain ⟨b', rfl⟩ : ∃ b', b = b' + 1 := ⟨b - 1, by omega⟩
      refine GMeas_bind (fun m _ => m = b') _ _ _ _ ?_ fun m newMin hm => ?_
      · exact GMeas_bind (fun m _ => m = b') _ _ _ _ (GMeas_call _ _ _ _ fun _ => rfl) fun m o hm =>
          GMeas_pure _ _ _ hm
      subst hm
      -- the visited item
      generalize hit' : ({ it with
          availableSpaceCache := some (it.availableSpace ax tracks (sget inner ax.other) .baseSize),
          minContentContributionCache := sset it.minContentContributionCache ax (some newMin),
          maxContentContributionCache := sset it.maxContentContributionCache ax none,
          minimumContributionCache := sset it.minimumContributionCache ax none } : GItem α) = it'
      have hu : Upd ax it it' := by
        subst hit'
        refine ⟨rfl, ?_⟩
        simp only [pot, sget_sset_other]
      have hp : pot ax it' ≤ pot ax it + 1 := by
        subst hit'
        simp only [pot, sget_sset_self]
        have : (if (none : Option α).isNone = true then 1 else 0) = 1 := rfl
        have : (if (some newMin).isNone = true then 1 else 0) = 0 := rfl
        omega
      have tailCase : ∀ hc : Bool,
          GMeas (fun mm r => UpdL ax (it :: rest) r.2 ∧ potA ax r.2 + mm ≤ potA ax (it :: rest) + (m + 1) ∧
              m + 1 ≤ mm + (it :: rest).length) m
            (if hc = true then (pure (true, it' :: rest) : GM α (Bool × List (GItem α))) else
              minContentChanged ax tracks inner rest >>= fun x => pure (x.1, it' :: x.2)) := by
        intro hc
        cases hc with
        | true =>
          simp only [if_true]
          refine GMeas_pure _ _ _ ⟨UpdL.cons hu (UpdL.refl _ _), ?_, ?_⟩
          · simp only [potA_cons]; omega
          · simp only [List.length_cons]; omega
        | false =>
          simp only [Bool.false_eq_true, if_false]
          refine GMeas_bind _ _ _ _ _ (GMeas_minContentChanged ax tracks inner rest m (by omega)) fun m' x
            ⟨hu', h1, h2⟩ => ?_
          refine GMeas_pure _ _ _ ⟨UpdL.cons hu hu', ?_, ?_⟩
          · simp only [potA_cons]; omega
          · simp only [List.length_cons]; omega
      split <;> exact tailCase _

/-- the re-run test of step 7 in axis `ax`, as an operation on the item list: at most `n` calls, after which the items
have at most `n` more empty caches than before — or no call and all `2n` caches of the axis empty -/
theorem LOp_step7Prep (ax : Ax) (rerun0 : Bool) (tracks : List (GridTrack α)) (inner : Size (Option α))
    (items : List (GItem α)) : LOp ax (2 * items.length) items (·.2) (step7Prep ax rerun0 tracks inner items) := by
  intro s
  unfold step7Prep
  split
  · have h := GMeas_minContentChanged ax tracks inner items (potA ax items + 2 * items.length + s) (by omega)
    refine GMeas_mono _ _ _ _ ?_ h
    intro m r ⟨hu, h1, h2⟩
    refine ⟨hu, ?_⟩
    show potA ax r.2 + s ≤ m
    omega
  · obtain ⟨hu, hp⟩ := UpdL_clearCaches ax items
    refine GMeas_pure _ _ _ ⟨hu, ?_⟩
    simp only [hp]; omega

/-- frames up to a permutation -/
def FP (a b : List (GItem α)) : Prop := (b.map frame).Perm (a.map frame)

theorem FP.refl (a : List (GItem α)) : FP a a := List.Perm.refl _
theorem FP.trans {a b c : List (GItem α)} (h1 : FP a b) (h2 : FP b c) : FP a c := List.Perm.trans h2 h1
theorem FP.length {a b : List (GItem α)} (h : FP a b) : b.length = a.length := by
  have := h.length_eq; simpa using this
theorem UpdP.fp {ax : Ax} {a b : List (GItem α)} (h : UpdP ax a b) : FP a b := h.1
theorem UpdL.fp {ax : Ax} {a b : List (GItem α)} (h : UpdL ax a b) : FP a b := h.toP.1

theorem FP.nodes {a b : List (GItem α)} (h : FP a b) : (b.map (·.node)).Perm (a.map (·.node)) := by
  have := h.map (·.node)
  simpa only [List.map_map, Function.comp_def, node_frame] using this

theorem blK_le (b : Bool) (n : Nat) : blK b n ≤ n := by unfold blK; split <;> omega

theorem POp_tsa_ax (a : RunArgs α) (st : RunState α) (ax : Ax) (h : a.axis = ax) :
    POp ax (blK a.hasBaselineAlignedItem st.items.length) st.items (·.items) (trackSizingAlgorithmM a st) :=
  h ▸ POp_trackSizingAlgorithmM a st

/-- **step 7, the re-runs**: with `n` items, a budget of
`(empty inline caches) + n + (empty block caches) + 2n + s` calls suffices and leaves at least `s` -/
theorem GMeas_step7Mid (availableSpace : Size (AvailableSpace α)) (colArgs rowArgs : RunArgs α)
    (inner : Size (Option α)) (columns rows : List (GridTrack α)) (rerun : Bool) (items : List (GItem α))
    (hcol : colArgs.axis = .inl) (hrow : rowArgs.axis = .blk) (hrb : rowArgs.hasBaselineAlignedItem = false)
    (s m : Nat) (hm : potA .inl items + items.length + (potA .blk items + 2 * items.length + s) ≤ m) :
    GMeas (fun m' r => FP items r.2.2 ∧ s ≤ m') m
      (step7Mid availableSpace colArgs rowArgs inner columns rows rerun items) := by
  unfold step7Mid
  split
  · -- the inline-axis re-run
    have h3 := POp_tsa_ax { colArgs with innerNodeSize := inner, est := .baseSize }
      { axisTracks := columns, otherAxisTracks := rows, items } .inl hcol
    have hb := blK_le colArgs.hasBaselineAlignedItem items.length
    have h3' := h3 (m - potA .inl items - blK colArgs.hasBaselineAlignedItem items.length)
    rw [show potA .inl items + blK colArgs.hasBaselineAlignedItem items.length +
      (m - potA .inl items - blK colArgs.hasBaselineAlignedItem items.length) = m by omega] at h3'
    refine GMeas_bind _ _ _ _ _ h3' fun m1 st ⟨hu, hm1⟩ => ?_
    simp only [] at hu hm1 ⊢
    have hlen := hu.length
    have hblk : potA .blk st.items = potA .blk items := hu.2
    -- the block-axis re-run test
    have h4 := LOp_step7Prep .blk (!availableSpace.height.isDefinite && st.otherAxisTracks.any (·.usesPercentage))
      st.axisTracks inner st.items (m1 - potA .blk st.items - 2 * st.items.length)
    rw [show potA .blk st.items + 2 * st.items.length + (m1 - potA .blk st.items - 2 * st.items.length) = m1 by
      omega] at h4
    refine GMeas_bind _ _ _ _ _ h4 fun m2 ⟨rr, items5⟩ ⟨hu5, hm2⟩ => ?_
    simp only [] at hu5 hm2 ⊢
    split
    · have h6 := POp_tsa_ax { rowArgs with innerNodeSize := inner }
        { axisTracks := st.otherAxisTracks, otherAxisTracks := st.axisTracks, items := items5 } .blk hrow
      have hk : blK ({ rowArgs with innerNodeSize := inner } : RunArgs α).hasBaselineAlignedItem
          ({ axisTracks := st.otherAxisTracks, otherAxisTracks := st.axisTracks, items := items5 } :
            RunState α).items.length = 0 := by
        show blK rowArgs.hasBaselineAlignedItem items5.length = 0
        rw [hrb]; rfl
      rw [hk] at h6
      have h6' := h6 (m2 - potA .blk items5)
      rw [show potA .blk items5 + 0 + (m2 - potA .blk items5) = m2 by omega] at h6'
      refine GMeas_bind _ _ _ _ _ h6' fun m3 st' ⟨hu6, hm3⟩ => ?_
      refine GMeas_pure _ _ _ ⟨hu.fp.trans (hu5.fp.trans hu6.fp), ?_⟩
      omega
    · refine GMeas_pure _ _ _ ⟨hu.fp.trans hu5.fp, ?_⟩
      omega
  · exact GMeas_pure _ _ _ ⟨FP.refl _, by omega⟩

/-! ### properties closed under prefixing a measuring program -/

structure Closed (K : Nat → GM α (LayoutOutput α) → Prop) : Prop where
  bind : ∀ {β : Type} (Q : Nat → β → Prop) (b : Nat) (p : GM α β) (f : β → GM α (LayoutOutput α)),
    GMeas Q b p → (∀ m x, Q m x → K m (f x)) → K b (p >>= f)
  mono : ∀ (m m' : Nat) (q : GM α (LayoutOutput α)), m ≤ m' → K m q → K m' q

theorem closed_GCalls : Closed (fun m (q : GM α (LayoutOutput α)) => GCalls m q) where
  bind Q b p f hp hf := GCalls_bind_GMeas Q b p f hp hf
  mono m m' q h hq := GCalls_mono m m' q h hq

theorem closed_GPHZ (cs : List (Style α)) : Closed (fun _ (q : GM α (LayoutOutput α)) => GPHZ cs q) where
  bind Q b p f hp hf :=
    GPHZ_bind cs (fun x => ∃ m, Q m x) p f (GMeas_GPHZ cs _ _ _ hp) (GMeas_GPost _ _ _ hp) fun a ⟨m, h⟩ => hf m a h
  mono _ _ _ _ hq := hq

theorem closed_GTrack (R : LayoutOutput α → (Nat → Bool) → (Nat → Bool) → Prop) :
    Closed (fun _ (q : GM α (LayoutOutput α)) => ∀ own strict, GTrack own strict q R) where
  bind Q b p f hp hf := fun own strict =>
    GTrack_bind p f (fun r _ _ => ∃ m, Q m r) R own strict (GMeas_GTrack Q b p own strict hp)
      fun a o s ⟨m, h⟩ => hf m a h o s
  mono _ _ _ _ hq := hq

section walk
variable [NumCast α]

/-- **step 7 walked**: any closed property of the tail (asked with a budget of `n + h`, for every item list with the same
frames up to order) holds of `gridStep7` with the budget `(empty caches) + 6n + h` -/
theorem K_gridStep7 (K : Nat → GM α (LayoutOutput α) → Prop) (hK : Closed K) (c : Ctx α)
    (childStyles : List (GridChildStyle α)) (availableSpace : Size (AvailableSpace α)) (colArgs rowArgs : RunArgs α)
    (inner : Size (Option α)) (bb cb : Size α) (cc rc : GridPlacement.TrackCounts) (columns rows : List (GridTrack α))
    (items : List (GItem α)) (h : Nat)
    (hcol : colArgs.axis = .inl) (hrow : rowArgs.axis = .blk) (hrb : rowArgs.hasBaselineAlignedItem = false)
    (htail : ∀ columns' rows' items', FP items items' →
      K (items.length + h) (gridTail c childStyles bb cb cc rc columns' rows' items')) :
    K (potA .inl items + potA .blk items + 6 * items.length + h)
      (gridStep7 c childStyles availableSpace colArgs rowArgs inner bb cb cc rc columns rows items) := by
  unfold gridStep7
  simp only []
  have h1 := LOp_step7Prep .inl
    (!availableSpace.width.isDefinite && (if (!c.availableGridSpace.width.isDefinite) = true then
      reresolvePercentTracks cb.width columns else columns).any (·.usesPercentage))
    (if (!c.availableGridSpace.height.isDefinite) = true then reresolvePercentTracks cb.height rows else rows)
    inner items (potA .blk items + 4 * items.length + h)
  rw [show potA .inl items + 2 * items.length + (potA .blk items + 4 * items.length + h) =
    potA .inl items + potA .blk items + 6 * items.length + h by omega] at h1
  refine hK.bind _ _ _ _ h1 fun m ⟨rerun, items3⟩ ⟨hu, hm⟩ => ?_
  simp only [] at hu hm ⊢
  have hlen := hu.length
  have hblk : potA .blk items3 = potA .blk items := hu.2
  have h2 := GMeas_step7Mid availableSpace colArgs rowArgs inner
    (if (!c.availableGridSpace.width.isDefinite) = true then reresolvePercentTracks cb.width columns else columns)
    (if (!c.availableGridSpace.height.isDefinite) = true then reresolvePercentTracks cb.height rows else rows)
    rerun items3 hcol hrow hrb (items.length + h) m (by omega)
  refine hK.bind _ _ _ _ h2 fun m' ⟨columns', rows', items'⟩ ⟨hfp, hm'⟩ => ?_
  simp only [] at hfp hm' ⊢
  exact hK.mono _ _ _ hm' (htail columns' rows' items' (hu.fp.trans hfp))

theorem runMode_beq (a : RunMode) : (a == RunMode.computeSize) = true ↔ a = .computeSize := by
  cases a <;> decide

theorem GMeas_cast {β : Type} {Q : Nat → β → Prop} {n n' : Nat} {p : GM α β} (h : GMeas Q n p) (e : n = n') :
    GMeas Q n' p := e ▸ h

theorem same_clearAvail (it : GItem α) : Same it { it with availableSpaceCache := none } := ⟨rfl, fun _ => rfl⟩

/-- **step 6 walked**: any closed property of the tail (budget `n + h`) holds of `gridMain` with the budget `11·n + h`,
`n` = number of grid items -/
theorem K_gridMain (K : Nat → GM α (LayoutOutput α) → Prop) (hK : Closed K) (style : GridStyle α)
    (childStyles : List (GridChildStyle α)) (inputs : LayoutInput α) (su : Setup α) (h : Nat)
    (hpure : inputs.runMode = .computeSize → ∀ m o, K m (pure o))
    (htail : inputs.runMode ≠ .computeSize → ∀ bb cb columns' rows' items', FP su.items items' →
      K (su.items.length + h) (gridTail (mkCtx style.base inputs) childStyles bb cb su.finalColCounts su.finalRowCounts
        columns' rows' items')) :
    K (11 * su.items.length + h) (gridMain style childStyles inputs su) := by
  unfold gridMain
  simp only []
  have hP := potA_le .inl su.items
  have hb := blK_le (su.items.any fun it => it.alignSelf == .baseline) su.items.length
  have h1 := GMeas_cast (POp_tsa_ax (colArgsOf (mkCtx style.base inputs) (su.items.any fun it => it.alignSelf == .baseline))
    { axisTracks := su.columns, otherAxisTracks := su.rows, items := su.items } .inl rfl
    (11 * su.items.length + h - potA .inl su.items - blK (su.items.any fun it => it.alignSelf == .baseline)
      su.items.length)) (n' := 11 * su.items.length + h) (by
      show potA .inl su.items + blK (su.items.any fun it => it.alignSelf == .baseline) su.items.length + _ = _
      omega)
  refine hK.bind _ _ _ _ h1 fun m1 st ⟨hu1, hm1⟩ => ?_
  simp only [] at hu1 hm1 ⊢
  have hlen1 := hu1.length
  -- the available-space caches are dropped
  obtain ⟨hu1', hp1'⟩ := UpdL.of_map .inl (fun it : GItem α => { it with availableSpaceCache := none })
    same_clearAvail st.items
  obtain ⟨hu1'', hp1''⟩ := UpdL.of_map .blk (fun it : GItem α => { it with availableSpaceCache := none })
    same_clearAvail st.items
  have hQ := potA_le .blk (st.items.map fun it : GItem α => { it with availableSpaceCache := none })
  have hlen1' := hu1'.length
  have h2 := GMeas_cast (POp_tsa_ax (rowArgsOf (mkCtx style.base inputs)
      { (mkCtx style.base inputs).innerNodeSize with
        width := (mkCtx style.base inputs).innerNodeSize.width.or (some (sumF (st.axisTracks.map (·.baseSize)))) })
    { axisTracks := st.otherAxisTracks, otherAxisTracks := st.axisTracks,
      items := st.items.map fun it : GItem α => { it with availableSpaceCache := none } } .blk rfl
    (m1 - potA .blk (st.items.map fun it : GItem α => { it with availableSpaceCache := none }))) (n' := m1) (by
      show potA .blk (st.items.map fun it : GItem α => { it with availableSpaceCache := none }) + 0 + _ = _
      omega)
  refine hK.bind _ _ _ _ h2 fun m2 st2 ⟨hu2, hm2⟩ => ?_
  simp only [] at hu2 hm2 ⊢
  have hlen2 := hu2.length
  have hinl : potA .inl st2.items = potA .inl st.items := by
    have := hu2.2
    simp only [Ax.other] at this
    rw [this, hp1']
  split
  · rename_i hc
    exact hpure ((runMode_beq _).1 hc) _ _
  · rename_i hc
    have hfp : FP su.items st2.items := hu1.fp.trans (hu1'.fp.trans hu2.fp)
    refine hK.mono (potA .inl st2.items + potA .blk st2.items + 6 * st2.items.length + h) _ _ ?_
      (K_gridStep7 K hK _ childStyles _ _ _ _ _ _ _ _ _ _ _ h rfl rfl rfl ?_)
    · have hl : st2.items.length = su.items.length := by omega
      omega
    · intro columns' rows' items' hf
      rw [hfp.length]
      exact htail (fun e => hc ((runMode_beq _).2 e)) _ _ columns' rows' items' (hfp.trans hf)

end walk

end EvalGrid
