/-
  C03 (finiteness at `ER`) — the grid program, part 7: the distribution functions used by 11.5
  `resolve_intrinsic_track_sizes` — `distribute_item_space_to_base_size`, `distribute_item_space_to_growth_limit`
  (`extra / n` under `n > 0`), applied to the item's slice of the track vector (`distBase`, `distGrowth`), and the flushes.
  With this every DIVISION of the grid program is covered; what `IntrinsicFin` still assumes is the control structure of
  the item batches (`batchLoopM`, `sizeSpanOneItemM`, `sizeBatchGeneralM`, `minimum_contribution`), which has none.
-/
import TaffyVerif.Lemmas.FiniteGrid6

set_option linter.unusedSectionVars false
set_option linter.unusedVariables false

namespace C03Fin
open GridModel GridTracks EvalGrid

theorem fin_finishBaseDistribution {t : GridTrack ER} (ht : TrackFin t) : TrackFin (finishBaseDistribution t) := by
  unfold finishBaseDistribution
  dsimp only
  split
  · exact { ht with baseSizePlannedIncrease := ht.itemIncurredIncrease, itemIncurredIncrease := fin_zero }
  · exact { ht with itemIncurredIncrease := fin_zero }

theorem fin_finishGrowthDistribution {t : GridTrack ER} (ht : TrackFin t) : TrackFin (finishGrowthDistribution t) := by
  unfold finishGrowthDistribution
  dsimp only
  split
  · exact { ht with growthLimitPlannedIncrease := ht.itemIncurredIncrease, itemIncurredIncrease := fin_zero }
  · exact { ht with itemIncurredIncrease := fin_zero }

theorem tracks_map {f : GridTrack ER → GridTrack ER} (hf : ∀ t, TrackFin t → TrackFin (f t)) {ts : List (GridTrack ER)}
    (hts : TracksFin ts) : TracksFin (ts.map f) := by
  intro t' ht'
  obtain ⟨t, ht, rfl⟩ := List.mem_map.mp ht'
  exact hf t (hts t ht)

theorem fin_distributeItemSpaceToBaseSizeInner {space : ER} {ts : List (GridTrack ER)} {isA : GridTrack ER → Bool}
    {prop : GridTrack ER → ER} {lim : GridTrack ER → Ext ER} {ty : ContributionType} (hs : IsFin space)
    (hts : TracksFin ts) (hp : ∀ t, TrackFin t → IsFin (prop t)) (hl : ∀ t, TrackFin t → ExtFin (lim t)) :
    TracksFin (distributeItemSpaceToBaseSizeInner space ts isA prop lim ty) ∧
    (distributeItemSpaceToBaseSizeInner space ts isA prop lim ty).length = ts.length := by
  unfold distributeItemSpaceToBaseSizeInner
  split
  · exact ⟨hts, rfl⟩
  · extract_lets trackSizes extra r1 n filter tracks2
    have hextra : IsFin extra := fin_fmax fin_zero (fin_sub hs (fin_sumBase hts))
    have h1 := fin_distributeSpaceUpToLimits (isA := isA) (prop := prop) (aff := fun t => t.baseSize) (lim := lim) hp
      (fun t ht => ht.baseSize) hl (distFuel ts.length) extra ts hextra hts
    have h2 : TracksFin tracks2 ∧ tracks2.length = ts.length := by
      unfold tracks2
      split
      · have h := fin_distributeSpaceUpToLimits (isA := filter) (prop := prop) (aff := fun t => t.baseSize) (lim := lim)
          hp (fun t ht => ht.baseSize) hl (distFuel r1.2.length) r1.1 r1.2 h1.1 h1.2.1
        exact ⟨h.2.1, by rw [h.2.2]; exact h1.2.2⟩
      · exact ⟨h1.2.1, h1.2.2⟩
    exact ⟨tracks_map (fun t ht => fin_finishBaseDistribution ht) h2.1, by simp [h2.2]⟩

/-- **distribute_item_space_to_base_size** -/
theorem fin_distributeItemSpaceToBaseSize {isFlex useFF : Bool} {space : ER} {ts : List (GridTrack ER)}
    {isA : GridTrack ER → Bool} {lim : GridTrack ER → Ext ER} {ty : ContributionType} (hs : IsFin space)
    (hts : TracksFin ts) (hl : ∀ t, TrackFin t → ExtFin (lim t)) :
    TracksFin (distributeItemSpaceToBaseSize isFlex useFF space ts isA lim ty) ∧
    (distributeItemSpaceToBaseSize isFlex useFF space ts isA lim ty).length = ts.length := by
  unfold distributeItemSpaceToBaseSize
  split
  · dsimp only
    split
    · exact fin_distributeItemSpaceToBaseSizeInner hs hts (fun t ht => fin_flexFactor ht) hl
    · exact fin_distributeItemSpaceToBaseSizeInner hs hts (fun _ _ => fin_one) hl
  · exact fin_distributeItemSpaceToBaseSizeInner hs hts (fun _ _ => fin_one) hl

/-- **distribute_item_space_to_growth_limit**: `extra / n` only under `n > 0` -/
theorem fin_distributeItemSpaceToGrowthLimit {space : ER} {ts : List (GridTrack ER)} {isA : GridTrack ER → Bool}
    {inner : Option ER} (hs : IsFin space) (hts : TracksFin ts) (hin : OFin inner) :
    TracksFin (distributeItemSpaceToGrowthLimit space ts isA inner) ∧
    (distributeItemSpaceToGrowthLimit space ts isA inner).length = ts.length := by
  unfold distributeItemSpaceToGrowthLimit
  split
  · exact ⟨hts, rfl⟩
  · extract_lets trackSizes extra growable n inc tracks'
    have hextra : IsFin extra :=
      fin_fmax fin_zero (fin_sub hs (fin_gsumF_map fun t ht => fin_growthLimitOrBase (hts t ht)))
    have h2 : TracksFin tracks' ∧ tracks'.length = ts.length := by
      unfold tracks'
      split
      · rename_i hn
        have hinc : IsFin inc := fin_div hextra (fin_ofNat _) (ofNat_ne_zero hn)
        refine ⟨tracks_map (fun t ht => ?_) hts, by simp⟩
        split
        · exact { ht with itemIncurredIncrease := hinc }
        · exact ht
      · have h := fin_distributeSpaceUpToLimits (isA := isA) (prop := fun _ => (1 : ER))
          (aff := fun t => t.growthLimitOrBase) (lim := fun t => t.fitContentLimit inner) (fun _ _ => fin_one)
          (fun t ht => fin_growthLimitOrBase ht) (fun t ht => fin_fitContentLimit ht hin) (distFuel ts.length) extra ts
          hextra hts
        exact ⟨h.2.1, h.2.2⟩
    exact ⟨tracks_map (fun t ht => fin_finishGrowthDistribution ht) h2.1, by simp [h2.2]⟩

/-- a function that keeps finite slices finite (and their length), applied to a range of the vector -/
theorem fin_onRange {ts : List (GridTrack ER)} {lo hi : Nat} {f : List (GridTrack ER) → List (GridTrack ER)}
    (hts : TracksFin ts) (hf : ∀ sl, TracksFin sl → TracksFin (f sl)) : TracksFin (onRange ts lo hi f) := by
  unfold onRange
  intro t ht
  simp only [List.mem_append] at ht
  rcases ht with (ht | ht) | ht
  · exact hts t (List.mem_of_mem_take ht)
  · exact hf _ (fun x hx => hts x (List.mem_of_mem_drop (List.mem_of_mem_take hx))) t ht
  · exact hts t (List.mem_of_mem_drop ht)

/-- `if space > 0.0 { distribute_item_space_to_base_size(…) }` on the item's slice -/
theorem fin_distBase {ax : Ax} {isFlex useFF : Bool} {it : GItem ER} {space : ER} {aff : GridTrack ER → Bool}
    {lim : GridTrack ER → Ext ER} {ty : ContributionType} {ts : List (GridTrack ER)} (hs : IsFin space)
    (hts : TracksFin ts) (hl : ∀ t, TrackFin t → ExtFin (lim t)) :
    TracksFin (distBase ax isFlex useFF it space aff lim ty ts) := by
  unfold distBase
  split
  · exact fin_onRange hts fun sl hsl => (fin_distributeItemSpaceToBaseSize hs hsl hl).1
  · exact hts

/-- `if space > 0.0 { distribute_item_space_to_growth_limit(…) }` on the item's slice -/
theorem fin_distGrowth {ax : Ax} {inner : Option ER} {it : GItem ER} {space : ER} {aff : GridTrack ER → Bool}
    {ts : List (GridTrack ER)} (hs : IsFin space) (hts : TracksFin ts) (hin : OFin inner) :
    TracksFin (distGrowth ax inner it space aff ts) := by
  unfold distGrowth
  split
  · exact fin_onRange hts fun sl hsl => (fin_distributeItemSpaceToGrowthLimit hs hsl hin).1
  · exact hts

/-- the limit closure of steps 1 and 2 of a batch -/
theorem fin_minLimit {ax : Ax} {inner : Option ER} {it : GItem ER} (hin : OFin inner) :
    ∀ t, TrackFin t → ExtFin (minLimit ax inner it t) := by
  intro t ht
  unfold minLimit
  split
  · exact fin_fitContentLimitedGrowthLimit ht hin
  · exact ht.growthLimit

theorem fin_flushPlannedGrowthLimitIncreases {ts : List (GridTrack ER)} {b : Bool} (hts : TracksFin ts) :
    TracksFin (flushPlannedGrowthLimitIncreases ts b) := by
  unfold flushPlannedGrowthLimitIncreases
  refine tracks_map (fun t ht => ?_) hts
  dsimp only
  split
  · refine { ht with growthLimit := ?_, growthLimitPlannedIncrease := fin_zero }
    have := ht.growthLimit
    dsimp only
    split
    · exact fin_add ht.baseSize ht.growthLimitPlannedIncrease
    · rename_i g hg; rw [hg] at this; exact fin_add this ht.growthLimitPlannedIncrease
  · exact { ht with growthLimitPlannedIncrease := fin_zero }

theorem fin_flushSpanOne {ts : List (GridTrack ER)} (hts : TracksFin ts) : TracksFin (flushSpanOne ts) := by
  unfold flushSpanOne
  refine tracks_map (fun t ht => ?_) hts
  unfold flushSpanOneTrack
  extract_lets gl gl'
  have hgl : ExtFin gl := by
    unfold gl
    have := ht.growthLimit
    split
    · split
      · exact ht.growthLimitPlannedIncrease
      · rename_i g hg; rw [hg] at this; exact fin_fmax this ht.growthLimitPlannedIncrease
    · exact this
  have hgl' : ExtFin gl' := by
    unfold gl'
    split
    · exact ht.baseSize
    · exact hgl
  exact { ht with growthLimit := hgl', growthLimitPlannedIncrease := fin_zero }

end C03Fin
