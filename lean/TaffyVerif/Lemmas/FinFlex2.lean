/-
  C03 (finiteness) — the flex program at `ER`, part 2: flexible lengths, cross sizes, alignment, final layout pass,
  absolutely positioned children, `compute_preliminary`, `compute_flexbox_layout`.

  Divisions in this part: `remaining / lines.len()` in `handle_align_content_stretch` (the quotient is only used when there
  is a line; with no line — a wrapping container whose children are all absolutely positioned or hidden — the real code
  computes `x / 0.0 = ∞` and drops it), `free_space / 2.0`, and the alignment offsets (`AlignOK`).
-/
import TaffyVerif.Lemmas.FinFlex1

namespace C03Fin
open FlexModel AbsPos

/-! ### main-axis projection -/

theorem fin_toM {dir : FlexDirection} {i : FlexItem ER} (h : ItFin i) : MFin (toM dir i) :=
  { flexBasis := h.flexBasis, innerFlexBasis := h.innerFlexBasis
    hypInner := fin_size_main h.hypotheticalInnerSize, hypOuter := fin_size_main h.hypotheticalOuterSize
    resolvedMinMain := h.resolvedMinimumMainSize, maxMain := fin_osize_main h.maxSize
    flexGrow := h.flexGrow, flexShrink := h.flexShrink
    marginStart := fin_mainStart h.margin, marginEnd := fin_mainEnd h.margin
    insetStart := fin_omainStart h.inset, insetEnd := fin_omainEnd h.inset
    violation := h.violation, targetMain := fin_size_main h.targetSize
    outerTargetMain := fin_size_main h.outerTargetSize, offsetMain := h.offsetMain }

theorem fin_fromM {dir : FlexDirection} {i : FlexItem ER} {m : FlexLine.FlexItemM ER} (h : ItFin i) (hm : MFin m) :
    ItFin (fromM dir i m) :=
  { h with violation := hm.violation
           targetSize := fin_setMain h.targetSize hm.targetMain
           outerTargetSize := fin_setMain h.outerTargetSize hm.outerTargetMain
           margin := fin_setMainEnd (fin_setMainStart h.margin hm.marginStart) hm.marginEnd
           offsetMain := hm.offsetMain }

theorem fin_zipBack {dir : FlexDirection} : ∀ (is : List (FlexItem ER)) (ms : List (FlexLine.FlexItemM ER)),
    ItsFin is → MsFin ms → ItsFin (zipBack dir is ms)
  | [], _, h, _ => by unfold zipBack; exact h
  | i :: is, [], h, _ => by unfold zipBack; exact h
  | i :: is, m :: ms, h, hm => by
    unfold zipBack
    exact ItsFin.cons (fin_fromM h.head (hm m (List.mem_cons_self ..)))
      (fin_zipBack is ms h.tail fun x hx => hm x (List.mem_cons_of_mem _ hx))

theorem fin_map_toM {dir : FlexDirection} {l : List (FlexItem ER)} (h : ItsFin l) : MsFin (l.map (toM dir)) := by
  intro c hc
  obtain ⟨y, hy, rfl⟩ := List.mem_map.mp hc
  exact fin_toM (h y hy)

theorem fin_resolveFlexibleLengthsLine {k : AlgoConstants ER} {line : FlexLineS ER} (hk : KFin k) (hl : LineFin line) :
    LineFin (resolveFlexibleLengthsLine k line) := by
  unfold resolveFlexibleLengthsLine
  dsimp only
  split
  · rename_i ms' e
    exact ⟨fin_zipBack _ _ hl.items (fin_resolveFlexibleLengths (fin_map_toM hl.items)
      (fin_osize_main hk.nodeInnerSize) (fin_size_main hk.gap) e), hl.crossSize, hl.offsetCross⟩
  · exact hl

theorem fin_distributeLine {k : AlgoConstants ER} {line : FlexLineS ER} (hk : KFin k) (hl : LineFin line) :
    LineFin (distributeLine k line) :=
  ⟨fin_zipBack _ _ hl.items (fin_distributeRemainingFreeSpace (fin_map_toM hl.items) (fin_size_main hk.innerContainerSize)
    (fin_size_main hk.gap)), hl.crossSize, hl.offsetCross⟩

/-! ### determine_hypothetical_cross_size -/

theorem FinP_hypotheticalCrossItem {k : AlgoConstants ER} {av : Size (AvailableSpace ER)} {child : FlexItem ER}
    (hk : KFin k) (hav : SAvFin av) (hc : ItFin child) : FinP ItFin (hypotheticalCrossItem k av child) := by
  unfold hypotheticalCrossItem
  extract_lets dir pbs ckm cc cac
  have hpbs : IsFin pbs := fin_crossAxisSum (fin_rect_add hc.padding hc.border)
  have hckm : AvFin ckm := fin_size_main hk.containerSize
  have hmn : OFin (child.minSize.cross dir) := fin_osize_cross hc.minSize
  have hmx : OFin (child.maxSize.cross dir) := fin_osize_cross hc.maxSize
  have hcc : OFin cc := fin_of_max (fin_oo_clamp (fin_osize_cross hc.size) hmn hmx) hpbs
  have hcac : AvFin cac := fin_af_max (fin_ao_clamp (fin_asize_cross hav) hmn hmx) hpbs
  clear_value pbs ckm cc cac
  refine FinP_bind (Q := IsFin) (fun v hv => ?_) ?_
  · dsimp only
    exact FinP_pure { hc with
      hypotheticalInnerSize := fin_setCross hc.hypotheticalInnerSize hv
      hypotheticalOuterSize := fin_setCross hc.hypotheticalOuterSize (fin_add hv (fin_crossAxisSum hc.margin)) }
  · split
    · exact FinP_pure hcc
    · refine FinP_bind (Q := IsFin) (fun m hm => FinP_pure (fin_fmax (fin_fo_clamp hm hmn hmx) hpbs)) ?_
      refine FinP_measureChildSize ⟨?_, ?_⟩ hk.nodeInnerSize ⟨?_, ?_⟩
      · exact fin_oite (a := some child.targetSize.width) hc.targetSize.1 trivial
      · exact fin_oite (b := some child.targetSize.height) trivial hc.targetSize.2
      · exact fin_avite hckm hcac
      · exact fin_avite hcac hckm

theorem FinP_hypotheticalCrossItems {k : AlgoConstants ER} {av : Size (AvailableSpace ER)} (hk : KFin k)
    (hav : SAvFin av) :
    ∀ (items : List (FlexItem ER)), ItsFin items → FinP ItsFin (hypotheticalCrossItems k av items)
  | [], _ => ItsFin.nil
  | c :: rest, h => by
    unfold hypotheticalCrossItems
    refine FinP_bind (Q := ItFin) (fun c' hc' => ?_) (FinP_hypotheticalCrossItem hk hav h.head)
    refine FinP_bind (Q := ItsFin) (fun r hr => ?_) (FinP_hypotheticalCrossItems hk hav rest h.tail)
    exact FinP_pure (ItsFin.cons hc' hr)

theorem FinP_determineHypotheticalCrossSize {k : AlgoConstants ER} {av : Size (AvailableSpace ER)} (hk : KFin k)
    (hav : SAvFin av) :
    ∀ (lines : List (FlexLineS ER)), LinesFin lines → FinP LinesFin (determineHypotheticalCrossSize k av lines)
  | [], _ => LinesFin.nil
  | line :: rest, h => by
    unfold determineHypotheticalCrossSize
    refine FinP_bind (Q := ItsFin) (fun items hitems => ?_) (FinP_hypotheticalCrossItems hk hav _ h.head.items)
    refine FinP_bind (Q := LinesFin) (fun r hr => ?_) (FinP_determineHypotheticalCrossSize hk hav rest h.tail)
    exact FinP_pure (LinesFin.cons ⟨hitems, h.head.crossSize, h.head.offsetCross⟩ hr)

/-! ### calculate_children_base_lines -/

theorem FinP_baselineItems {k : AlgoConstants ER} {ns : Size (Option ER)} {av : Size (AvailableSpace ER)}
    (hk : KFin k) (hns : SOFin ns) (hav : SAvFin av) :
    ∀ (items : List (FlexItem ER)), ItsFin items → FinP ItsFin (baselineItems k ns av items)
  | [], _ => ItsFin.nil
  | child :: rest, h => by
    have hc := h.head
    unfold baselineItems
    split
    · refine FinP_bind (Q := ItsFin) (fun r hr => ?_) (FinP_baselineItems hk hns hav rest h.tail)
      exact FinP_pure (ItsFin.cons hc hr)
    · refine FinP_bind (Q := OutFin) (fun out ho => ?_) ?_
      · dsimp only
        refine FinP_bind (Q := ItsFin) (fun r hr => ?_) (FinP_baselineItems hk hns hav rest h.tail)
        refine FinP_pure (ItsFin.cons { hc with baseline := ?_ } hr)
        exact fin_add (fin_getD ho.baselines.2 ho.size.2) hc.margin.t
      · refine FinP_performChildLayout ⟨?_, ?_⟩ hk.nodeInnerSize ⟨?_, ?_⟩
        · exact fin_oite (a := some child.targetSize.width) (b := some child.hypotheticalInnerSize.width)
            hc.targetSize.1 hc.hypotheticalInnerSize.1
        · exact fin_oite (a := some child.hypotheticalInnerSize.height) (b := some child.targetSize.height)
            hc.hypotheticalInnerSize.2 hc.targetSize.2
        · exact fin_avite (a := .definite k.containerSize.width) hk.containerSize.1 (fin_maybeSet hav.1 hns.1)
        · exact fin_avite (b := .definite k.containerSize.height) (fin_maybeSet hav.2 hns.2) hk.containerSize.2

theorem FinP_baselineLines {k : AlgoConstants ER} {ns : Size (Option ER)} {av : Size (AvailableSpace ER)}
    (hk : KFin k) (hns : SOFin ns) (hav : SAvFin av) :
    ∀ (lines : List (FlexLineS ER)), LinesFin lines → FinP LinesFin (baselineLines k ns av lines)
  | [], _ => LinesFin.nil
  | line :: rest, h => by
    unfold baselineLines
    dsimp only
    refine FinP_bind (Q := LineFin) (fun l' hl' => ?_) ?_
    · refine FinP_bind (Q := LinesFin) (fun r hr => ?_) (FinP_baselineLines hk hns hav rest h.tail)
      exact FinP_pure (LinesFin.cons hl' hr)
    · split
      · exact FinP_pure h.head
      · refine FinP_bind (Q := ItsFin) (fun items hitems => ?_) (FinP_baselineItems hk hns hav _ h.head.items)
        exact FinP_pure ⟨hitems, h.head.crossSize, h.head.offsetCross⟩

theorem FinP_calculateChildrenBaseLines {k : AlgoConstants ER} {ns : Size (Option ER)} {av : Size (AvailableSpace ER)}
    {lines : List (FlexLineS ER)} (hk : KFin k) (hns : SOFin ns) (hav : SAvFin av) (hl : LinesFin lines) :
    FinP LinesFin (calculateChildrenBaseLines k ns av lines) := by
  unfold calculateChildrenBaseLines
  split
  · exact FinP_pure hl
  · exact FinP_baselineLines hk hns hav lines hl

/-! ### calculate_cross_size, handle_align_content_stretch -/

theorem fin_foldl_fmax {β : Type} (g : β → ER) :
    ∀ (l : List β) (a : ER), IsFin a → (∀ x ∈ l, IsFin (g x)) → IsFin (l.foldl (fun acc x => Num.fmax acc (g x)) a)
  | [], _, ha, _ => ha
  | x :: l, a, ha, h =>
    fin_foldl_fmax g l _ (fin_fmax ha (h x (List.mem_cons_self ..))) (fun y hy => h y (List.mem_cons_of_mem _ hy))

theorem fin_maxBaseline {items : List (FlexItem ER)} (h : ItsFin items) : IsFin (maxBaseline items) :=
  fin_foldl_fmax (fun c : FlexItem ER => c.baseline) items 0 fin_zero (fun c hc => (h c hc).baseline)

theorem fin_mapHead {f : FlexLineS ER → FlexLineS ER} {lines : List (FlexLineS ER)} (hl : LinesFin lines)
    (hf : ∀ l, LineFin l → LineFin (f l)) : LinesFin (mapHead f lines) := by
  cases lines with
  | nil => exact hl
  | cons x xs => exact LinesFin.cons (hf x hl.head) hl.tail

theorem fin_calculateCrossSize {k : AlgoConstants ER} {ns : Size (Option ER)} {lines : List (FlexLineS ER)}
    (hk : KFin k) (hns : SOFin ns) (hl : LinesFin lines) : LinesFin (calculateCrossSize k ns lines) := by
  have hpb := fin_crossAxisSum (d := k.dir) hk.contentBoxInset
  have hmn := fin_osize_cross (d := k.dir) hk.minSize
  have hmx := fin_osize_cross (d := k.dir) hk.maxSize
  unfold calculateCrossSize
  dsimp only
  split
  · refine fin_mapHead hl fun l hl' => ⟨hl'.items, ?_, hl'.offsetCross⟩
    exact fin_getD (fin_of_max (fin_of_sub (fin_oo_clamp (fin_osize_cross hns) hmn hmx) hpb) fin_zero) fin_zero
  · have hl2 : LinesFin (lines.map fun line =>
        { line with crossSize := line.items.foldl (fun acc child =>
            Num.fmax acc (if child.alignSelf == .baseline && !Dir.crossStart child.marginIsAuto k.dir
                && !Dir.crossEnd child.marginIsAuto k.dir then
              maxBaseline line.items - child.baseline + child.hypotheticalOuterSize.cross k.dir
            else child.hypotheticalOuterSize.cross k.dir)) 0 }) := by
      refine hl.map fun line hline => ⟨hline.items, ?_, hline.offsetCross⟩
      refine fin_foldl_fmax _ _ _ fin_zero fun c hc => ?_
      have hci := hline.items c hc
      exact fin_ite (fin_add (fin_sub (fin_maxBaseline hline.items) hci.baseline)
        (fin_size_cross hci.hypotheticalOuterSize)) (fin_size_cross hci.hypotheticalOuterSize)
    split
    · refine fin_mapHead hl2 fun l hl' => ⟨hl'.items, ?_, hl'.offsetCross⟩
      exact fin_fo_clamp hl'.crossSize (fin_of_sub hmn hpb) (fin_of_sub hmx hpb)
    · exact hl2

theorem fin_handleAlignContentStretch {k : AlgoConstants ER} {ns : Size (Option ER)} {lines : List (FlexLineS ER)}
    (hk : KFin k) (hns : SOFin ns) (hl : LinesFin lines) : LinesFin (handleAlignContentStretch k ns lines) := by
  have hpb := fin_crossAxisSum (d := k.dir) hk.contentBoxInset
  have hmn := fin_osize_cross (d := k.dir) hk.minSize
  have hmx := fin_osize_cross (d := k.dir) hk.maxSize
  unfold handleAlignContentStretch
  dsimp only
  split
  · split
    · -- the quotient `remaining / lines.len()` is only used when there is a line
      cases lines with
      | nil => exact LinesFin.nil
      | cons l0 ls =>
        refine hl.map fun l hl' => ⟨hl'.items, fin_add hl'.crossSize ?_, hl'.offsetCross⟩
        refine fin_div (fin_sub ?_ ?_) (fin_ofNat _) (ofNat_ne_zero (by simp))
        · exact fin_getD (fin_of_max (fin_of_sub (fin_oo_clamp (fin_or (fin_osize_cross hns) hmn) hmn hmx) hpb) fin_zero)
            fin_zero
        · exact fin_add (fin_sumF_map fun l hl' => (hl l hl').crossSize) (fin_sumAxisGaps _ (fin_size_cross hk.gap))
    · exact hl
  · exact hl

/-! ### determine_used_cross_size -/

theorem fin_usedCrossItem {k : AlgoConstants ER} {lcs : ER} {cs : Style ER} {child : FlexItem ER} (hk : KFin k)
    (hlcs : IsFin lcs) (hs : StyleFin cs) (hc : ItFin child) : ItFin (usedCrossItem k lcs cs child) := by
  unfold usedCrossItem
  extract_lets dir pad bor pbsum adj mx cross ts
  have hp : RFin pad := fin_rectLPOrZeroSize hs.padding hk.nodeInnerSize
  have hb : RFin bor := fin_rectLPOrZeroSize hs.border hk.nodeInnerSize
  have hadj : SFin adj := fin_boxSizingAdjustment (fin_sumAxes (fin_rect_add hp hb))
  have hmx : SOFin mx := fin_size_of_add (fin_sizeMaybe hs.maxSize hk.nodeInnerSize) hadj
  have hms : IsFin (child.margin.crossAxisSum dir) := fin_crossAxisSum hc.margin
  have hcross : IsFin cross :=
    fin_ite (fin_fo_clamp (fin_sub hlcs hms) (fin_osize_cross hc.minSize) (fin_osize_cross hmx))
      (fin_size_cross hc.hypotheticalInnerSize)
  have hts : SFin ts := fin_setCross hc.targetSize hcross
  exact { hc with targetSize := hts, outerTargetSize := fin_setCross hc.outerTargetSize (fin_add (fin_size_cross hts) hms) }

theorem fin_determineUsedCrossSize {k : AlgoConstants ER} {styleOf : Nat → Style ER} {lines : List (FlexLineS ER)}
    (hk : KFin k) (hs : ∀ i, StyleFin (styleOf i)) (hl : LinesFin lines) :
    LinesFin (determineUsedCrossSize k styleOf lines) :=
  hl.map fun line hline =>
    ⟨hline.items.map fun c hc => fin_usedCrossItem hk hline.crossSize (hs _) hc, hline.crossSize, hline.offsetCross⟩

/-! ### resolve_cross_axis_auto_margins + align_flex_items_along_cross_axis -/

theorem fin_alignFlexItemsAlongCrossAxis {k : AlgoConstants ER} {child : FlexItem ER} {fs mb : ER} (hc : ItFin child)
    (hfs : IsFin fs) (hmb : IsFin mb) : IsFin (alignFlexItemsAlongCrossAxis k child fs mb) := by
  unfold alignFlexItemsAlongCrossAxis
  split
  · exact fin_zero
  · exact fin_ite hfs fin_zero
  · exact hfs
  · exact fin_ite fin_zero hfs
  · exact fin_div hfs fin_two two_ne_zero
  · exact fin_ite (fin_sub hmb hc.baseline) (fin_ite hfs fin_zero)
  · exact fin_ite hfs fin_zero

theorem fin_crossAutoMarginItem {k : AlgoConstants ER} {lcs mb : ER} {child : FlexItem ER} (hlcs : IsFin lcs)
    (hmb : IsFin mb) (hc : ItFin child) : ItFin (crossAutoMarginItem k lcs mb child) := by
  have hfs := fin_sub hlcs (fin_size_cross (d := k.dir) hc.outerTargetSize)
  have hh := fin_div hfs fin_two two_ne_zero
  unfold crossAutoMarginItem
  dsimp only
  split
  · exact { hc with margin := fin_setCrossEnd (fin_setCrossStart hc.margin hh) hh }
  · split
    · exact { hc with margin := fin_setCrossStart hc.margin hfs }
    · split
      · exact { hc with margin := fin_setCrossEnd hc.margin hfs }
      · exact { hc with offsetCross := fin_alignFlexItemsAlongCrossAxis hc hfs hmb }

theorem fin_resolveCrossAxisAutoMargins {k : AlgoConstants ER} {lines : List (FlexLineS ER)} (hl : LinesFin lines) :
    LinesFin (resolveCrossAxisAutoMargins k lines) :=
  hl.map fun line hline =>
    ⟨hline.items.map fun c hc => fin_crossAutoMarginItem hline.crossSize (fin_maxBaseline hline.items) hc,
     hline.crossSize, hline.offsetCross⟩

/-! ### determine_container_cross_size, align_flex_lines_per_align_content -/

theorem fin_determineContainerCrossSize {k : AlgoConstants ER} {ns : Size (Option ER)} {lines : List (FlexLineS ER)}
    (hk : KFin k) (hns : SOFin ns) (hl : LinesFin lines) :
    IsFin (determineContainerCrossSize k ns lines).1 ∧ KFin (determineContainerCrossSize k ns lines).2 := by
  have htl : IsFin (FlexLine.sumF (lines.map (·.crossSize))) := fin_sumF_map fun l hl' => (hl l hl').crossSize
  have hpb := fin_crossAxisSum (d := k.dir) hk.contentBoxInset
  have hgap := fin_sumAxisGaps lines.length (fin_size_cross (d := k.dir) hk.gap)
  have houter := fin_fmax (fin_fo_clamp (fin_getD (fin_osize_cross (d := k.dir) hns) (fin_add (fin_add htl hgap) hpb))
    (fin_osize_cross (d := k.dir) hk.minSize) (fin_osize_cross (d := k.dir) hk.maxSize))
    (fin_sub hpb (fin_pCross (d := k.dir) hk.scrollbarGutter))
  have hinner := fin_fmax (fin_sub houter hpb) fin_zero
  unfold determineContainerCrossSize
  exact ⟨htl, { hk with containerSize := fin_setCross hk.containerSize houter,
                        innerContainerSize := fin_setCross hk.innerContainerSize hinner }⟩

theorem fin_alignForward {f : Bool → ER} :
    ∀ {lines : List (FlexLineS ER)}, (∀ b, AlignOK lines.length b → IsFin (f b)) → LinesFin lines →
      LinesFin (alignForward f lines)
  | [], _, _ => by unfold alignForward; exact LinesFin.nil
  | l :: rest, hf, h => by
    unfold alignForward
    refine LinesFin.cons ⟨h.head.items, h.head.crossSize, hf true (by simp [AlignOK])⟩ ?_
    intro x hx
    obtain ⟨y, hy, rfl⟩ := List.mem_map.mp hx
    have hy' := h.tail y hy
    refine ⟨hy'.items, hy'.crossSize, hf false ?_⟩
    have : 1 ≤ rest.length := List.length_pos_of_mem hy
    simp only [AlignOK, Bool.false_eq_true, if_false, List.length_cons]
    omega

theorem fin_alignFlexLinesPerAlignContent {k : AlgoConstants ER} {tcs : ER} {lines : List (FlexLineS ER)} (hk : KFin k)
    (ht : IsFin tcs) (hl : LinesFin lines) : LinesFin (alignFlexLinesPerAlignContent k tcs lines) := by
  have hgap := fin_size_cross (d := k.dir) hk.gap
  have hfree := fin_sub (fin_sub (fin_size_cross (d := k.dir) hk.innerContainerSize) ht)
    (fin_sumAxisGaps lines.length hgap)
  unfold alignFlexLinesPerAlignContent
  dsimp only
  split
  · refine LinesFin.reverse (fin_alignForward (fun b hb => ?_) hl.reverse)
    rw [List.length_reverse] at hb
    exact fin_computeAlignmentOffset hfree hgap hb
  · exact fin_alignForward (fun b hb => fin_computeAlignmentOffset hfree hgap hb) hl

/-! ### calculate_flex_item / calculate_layout_line / final_layout_pass -/

theorem fin_insetShift {a b : Option ER} (ha : OFin a) (hb : OFin b) :
    IsFin ((a.or (b.map fun pos => -pos)).getD 0) :=
  fin_getD (fin_or ha (fin_neg_map hb)) fin_zero

theorem FinP_calculateFlexItem {k : AlgoConstants ER} {item : FlexItem ER} {tom toc loc : ER} {tcs : Size ER}
    (hk : KFin k) (hi : ItFin item) (h1 : IsFin tom) (h2 : IsFin toc) (h3 : IsFin loc) (h4 : SFin tcs) :
    FinP (fun r => ItFin r.1 ∧ IsFin r.2.1 ∧ SFin r.2.2) (calculateFlexItem k item tom toc loc tcs) := by
  unfold calculateFlexItem
  dsimp only
  refine FinP_bind (Q := OutFin) (fun out ho => ?_)
    (FinP_performChildLayout ⟨hi.targetSize.1, hi.targetSize.2⟩ hk.nodeInnerSize ⟨hk.containerSize.1, hk.containerSize.2⟩)
  have hom := fin_add (fin_add (fin_add h1 hi.offsetMain) (fin_mainStart (d := k.dir) hi.margin))
    (fin_insetShift (fin_omainStart (d := k.dir) hi.inset) (fin_omainEnd (d := k.dir) hi.inset))
  have hoc := fin_add (fin_add (fin_add (fin_add h2 hi.offsetCross) h3) (fin_crossStart (d := k.dir) hi.margin))
    (fin_insetShift (fin_ocrossStart (d := k.dir) hi.inset) (fin_ocrossEnd (d := k.dir) hi.inset))
  have hib := fin_getD ho.baselines.2 ho.size.2
  have hloc : PFin (if k.dir.isRow then
      (⟨tom + item.offsetMain + Dir.mainStart item.margin k.dir +
          ((Dir.mainStart item.inset k.dir).or ((Dir.mainEnd item.inset k.dir).map fun pos => -pos)).getD 0,
        toc + item.offsetCross + loc + Dir.crossStart item.margin k.dir +
          ((Dir.crossStart item.inset k.dir).or ((Dir.crossEnd item.inset k.dir).map fun pos => -pos)).getD 0⟩ : Point ER)
      else
      ⟨toc + item.offsetCross + loc + Dir.crossStart item.margin k.dir +
          ((Dir.crossStart item.inset k.dir).or ((Dir.crossEnd item.inset k.dir).map fun pos => -pos)).getD 0,
        tom + item.offsetMain + Dir.mainStart item.margin k.dir +
          ((Dir.mainStart item.inset k.dir).or ((Dir.mainEnd item.inset k.dir).map fun pos => -pos)).getD 0⟩) := by
    split
    · exact ⟨hom, hoc⟩
    · exact ⟨hoc, hom⟩
  have hsb : SFin (⟨if item.overflow.y == .scroll then item.scrollbarWidth else 0,
      if item.overflow.x == .scroll then item.scrollbarWidth else 0⟩ : Size ER) :=
    ⟨fin_ite hi.scrollbarWidth fin_zero, fin_ite hi.scrollbarWidth fin_zero⟩
  refine FinP_bind (Q := fun _ => True) (fun _ _ => ?_)
    (FinP_setUnroundedLayout ⟨hloc, ho.size, ho.contentSize, hsb, hi.border, hi.padding, hi.margin⟩)
  refine FinP_pure ⟨{ hi with baseline := ?_ }, ?_, ?_⟩
  · exact fin_ite (fin_add (fin_add (fin_add h2 hi.offsetCross) (fin_crossStart hi.margin)) hib)
      (fin_add (fin_add (fin_add h1 hi.offsetMain) (fin_mainStart hi.margin)) hib)
  · exact fin_add h1 (fin_add (fin_add hi.offsetMain (fin_mainAxisSum hi.margin)) (fin_size_main ho.size))
  · exact fin_f32Max h4 (fin_contentSizeContribution hloc ho.size ho.contentSize)

theorem FinP_layoutItems {k : AlgoConstants ER} {toc loc : ER} (hk : KFin k) (h2 : IsFin toc) (h3 : IsFin loc) :
    ∀ (items : List (FlexItem ER)) (tom : ER) (cs : Size ER), ItsFin items → IsFin tom → SFin cs →
      FinP (fun r => ItsFin r.1 ∧ SFin r.2) (layoutItems k toc loc items tom cs)
  | [], _, _, h, _, hcs => ⟨h, hcs⟩
  | item :: rest, tom, cs, h, htom, hcs => by
    unfold layoutItems
    refine FinP_bind (Q := fun r => ItFin r.1 ∧ IsFin r.2.1 ∧ SFin r.2.2) (fun r hr => ?_)
      (FinP_calculateFlexItem hk h.head htom h2 h3 hcs)
    obtain ⟨i', tom', cs'⟩ := r
    dsimp only at hr ⊢
    refine FinP_bind (Q := fun r => ItsFin r.1 ∧ SFin r.2) (fun r hr' => ?_)
      (FinP_layoutItems hk h2 h3 rest tom' cs' h.tail hr.2.1 hr.2.2)
    exact FinP_pure ⟨ItsFin.cons hr.1 hr'.1, hr'.2⟩

theorem FinP_calculateLayoutLine {k : AlgoConstants ER} {line : FlexLineS ER} {toc : ER} {cs : Size ER} (hk : KFin k)
    (hl : LineFin line) (h2 : IsFin toc) (hcs : SFin cs) :
    FinP (fun r => LineFin r.1 ∧ IsFin r.2.1 ∧ SFin r.2.2) (calculateLayoutLine k line toc cs) := by
  have hstart := fin_mainStart (d := k.dir) hk.contentBoxInset
  unfold calculateLayoutLine
  dsimp only
  refine FinP_bind (Q := fun r => ItsFin r.1 ∧ SFin r.2) (fun r hr => ?_) ?_
  · exact FinP_pure ⟨⟨hr.1, hl.crossSize, hl.offsetCross⟩, fin_add h2 (fin_add hl.offsetCross hl.crossSize), hr.2⟩
  · split
    · refine FinP_bind (Q := fun r => ItsFin r.1 ∧ SFin r.2) (fun r hr => FinP_pure ⟨hr.1.reverse, hr.2⟩)
        (FinP_layoutItems hk h2 hl.offsetCross _ _ _ hl.items.reverse hstart hcs)
    · exact FinP_layoutItems hk h2 hl.offsetCross _ _ _ hl.items hstart hcs

theorem FinP_layoutLines {k : AlgoConstants ER} (hk : KFin k) :
    ∀ (lines : List (FlexLineS ER)) (toc : ER) (cs : Size ER), LinesFin lines → IsFin toc → SFin cs →
      FinP (fun r => LinesFin r.1 ∧ SFin r.2) (layoutLines k lines toc cs)
  | [], _, _, h, _, hcs => ⟨h, hcs⟩
  | line :: rest, toc, cs, h, htoc, hcs => by
    unfold layoutLines
    refine FinP_bind (Q := fun r => LineFin r.1 ∧ IsFin r.2.1 ∧ SFin r.2.2) (fun r hr => ?_)
      (FinP_calculateLayoutLine hk h.head htoc hcs)
    obtain ⟨l', toc', cs'⟩ := r
    dsimp only at hr ⊢
    refine FinP_bind (Q := fun r => LinesFin r.1 ∧ SFin r.2) (fun r hr' => ?_)
      (FinP_layoutLines hk rest toc' cs' h.tail hr.2.1 hr.2.2)
    exact FinP_pure ⟨LinesFin.cons hr.1 hr'.1, hr'.2⟩

theorem FinP_finalLayoutPass {k : AlgoConstants ER} {lines : List (FlexLineS ER)} (hk : KFin k) (hl : LinesFin lines) :
    FinP (fun r => LinesFin r.1 ∧ SFin r.2) (finalLayoutPass k lines) := by
  have hstart := fin_crossStart (d := k.dir) hk.contentBoxInset
  unfold finalLayoutPass
  dsimp only
  refine FinP_bind (Q := fun r => LinesFin r.1 ∧ SFin r.2) (fun r hr => ?_) ?_
  · refine FinP_pure ⟨hr.1, ?_, ?_⟩
    · exact fin_add hr.2.1 (fin_sub (fin_sub hk.contentBoxInset.r hk.border.r) hk.scrollbarGutter.1)
    · exact fin_add hr.2.2 (fin_sub (fin_sub hk.contentBoxInset.b hk.border.b) hk.scrollbarGutter.2)
  · split
    · exact FinP_bind (Q := fun r => LinesFin r.1 ∧ SFin r.2) (fun r hr => FinP_pure ⟨hr.1.reverse, hr.2⟩)
        (FinP_layoutLines hk _ _ _ hl.reverse hstart fin_size_zero)
    · exact FinP_layoutLines hk _ _ _ hl hstart fin_size_zero

/-! ### perform_absolute_layout_on_absolute_children -/

theorem fin_absArgs {k : AlgoConstants ER} {order : Nat} (hk : KFin k) : FlexArgsFin (absArgs k order) :=
  ⟨hk.containerSize, hk.border, hk.scrollbarGutter, hk.contentBoxInset, hk.nodeInnerSize⟩

theorem FinP_ite {β : Type} {Q : β → Prop} {c : Prop} [Decidable c] {a b : ProgM ER β} (ha : FinP Q a) (hb : FinP Q b) :
    FinP Q (if c then a else b) := by
  split <;> assumption

theorem FinP_flex_absItem {k : AlgoConstants ER} {order : Nat} {cs : Style ER} {acc : Size ER} (hk : KFin k)
    (hs : StyleFin cs) (hacc : SFin acc) : FinP SFin (FlexModel.absItem k order cs acc) := by
  unfold FlexModel.absItem
  extract_lets a r kd
  have ha : FlexArgsFin a := fin_absArgs hk
  have hr : FlexResolvedFin r := fin_flexResolve ha hs
  have hkd : SOFin kd := fin_flexKnown ha hr hs.aspectRatio
  refine FinP_bind (Q := OutFin) (fun out ho => ?_) (FinP_computeChildLayout (fin_flexChildInput ha hr hkd))
  extract_lets fs rm loc w h
  have hf : SFin fs := fin_flexFinalSize hr hkd ho.size
  have hrm : RFin rm := fin_flexResolvedMargin ha hr hf
  have hloc : PFin loc := fin_flexLocation ha hr hf hrm
  refine FinP_bind (Q := fun _ => True) (fun _ _ => ?_)
    (FinP_setUnroundedLayout ⟨hloc, hf, ho.contentSize, fin_abs_scrollbarSize hs, hr.border, hr.padding, hrm⟩)
  have hw : IsFin w := by
    unfold w
    split
    · exact fin_fmax hf.1 ho.contentSize.1
    · exact hf.1
  have hh : IsFin h := by
    unfold h
    split
    · exact fin_fmax hf.2 ho.contentSize.2
    · exact hf.2
  exact FinP_ite (FinP_pure (fin_f32Max hacc ⟨fin_add hloc.1 hw, fin_add hloc.2 hh⟩)) (FinP_pure hacc)

theorem FinP_flex_absLoop {k : AlgoConstants ER} (hk : KFin k) :
    ∀ (l : List (Style ER)) (order : Nat) (acc : Size ER), StylesFin l → SFin acc →
      FinP SFin (FlexModel.absLoop k l order acc)
  | [], _, _, _, hacc => hacc
  | cs :: rest, order, acc, hl, hacc => by
    have hrest : StylesFin rest := fun s hs => hl s (List.mem_cons_of_mem _ hs)
    unfold FlexModel.absLoop
    split
    · exact FinP_flex_absLoop hk rest _ acc hrest hacc
    · exact FinP_bind (Q := SFin) (fun acc' h' => FinP_flex_absLoop hk rest _ acc' hrest h')
        (FinP_flex_absItem hk (hl cs (List.mem_cons_self ..)) hacc)

/-! ### compute_preliminary, compute_flexbox_layout -/

theorem fin_firstVerticalBaseline {k : AlgoConstants ER} {lines : List (FlexLineS ER)} (hl : LinesFin lines) :
    OFin (firstVerticalBaseline k lines) := by
  unfold firstVerticalBaseline
  split
  · trivial
  · rename_i line rest
    have hline := hl.head
    generalize hc : ((line.items.find? fun item => k.isColumn || item.alignSelf == .baseline).or line.items.head?) = o
    cases o with
    | none => trivial
    | some child =>
      have hmem : child ∈ line.items := by
        cases hf : line.items.find? fun item => k.isColumn || item.alignSelf == .baseline with
        | some c =>
          rw [hf] at hc
          simp at hc
          subst hc
          exact List.mem_of_find?_eq_some hf
        | none =>
          rw [hf] at hc
          simp at hc
          exact List.mem_of_head? hc
      have hci := hline.items child hmem
      exact fin_add (fin_ite hci.offsetCross hci.offsetMain) hci.baseline

theorem fin_fromSizesAndBaselines {s cs : Size ER} {b : Point (Option ER)} (h1 : SFin s) (h2 : SFin cs) (h3 : POFin b) :
    OutFin (LayoutOutput.fromSizesAndBaselines s cs b) := ⟨h1, h2, h3, fin_ms_zero, fin_ms_zero⟩

theorem fin_style_default : StyleFin (Style.default : Style ER) := by
  constructor
  all_goals (try simp [Style.default, fin_simp, RLPAFin, RLPFin, SLPAFin, SLPFin, zero_def, one_def])

theorem fin_styleOf {cs : List (Style ER)} (hcs : StylesFin cs) (i : Nat) :
    StyleFin ((cs[i]?).getD (Style.default : Style ER)) := by
  cases h : cs[i]? with
  | none => exact fin_style_default
  | some s => exact hcs s (List.mem_of_getElem? h)

theorem FinP_computePreliminary {style : Style ER} {cs : List (Style ER)} {inputs : LayoutInput ER}
    (hs : StyleFin style) (hcs : StylesFin cs) (hi : InFin inputs) :
    FinP OutFin (computePreliminary style cs inputs) := by
  have hk0 := fin_computeConstants hs hi.kd hi.ps
  have hso := fin_styleOf hcs
  have hav := fin_determineAvailableSpace hi.kd hi.av hk0
  unfold computePreliminary
  dsimp only
  refine FinP_bind (Q := ItsFin) (fun items hitems => ?_)
    (FinP_determineFlexBaseSize hk0 hav hso _ (fin_flex_generateItemsFrom hk0 cs 0 hcs))
  have hlines := fin_collectFlexLines (k := computeConstants style inputs.knownDimensions inputs.parentSize)
    (av := determineAvailableSpace inputs.knownDimensions inputs.availableSpace
      (computeConstants style inputs.knownDimensions inputs.parentSize)) hitems
  refine FinP_bind (Q := fun r => LinesFin r.1 ∧ KFin r.2) (fun r hr => ?_) ?_
  · obtain ⟨lines, k⟩ := r
    obtain ⟨hl, hk⟩ := hr
    dsimp only at hl hk ⊢
    have hl1 := hl.map fun l hl' => fin_resolveFlexibleLengthsLine hk hl'
    refine FinP_bind (Q := LinesFin) (fun lines2 hl2 => ?_) (FinP_determineHypotheticalCrossSize hk hav _ hl1)
    refine FinP_bind (Q := LinesFin) (fun lines3 hl3 => ?_) (FinP_calculateChildrenBaseLines hk hi.kd hav hl2)
    have hl4 := fin_calculateCrossSize hk hi.kd hl3
    have hl5 := fin_handleAlignContentStretch hk hi.kd hl4
    have hl6 := fin_determineUsedCrossSize hk hso hl5
    have hl7 := hl6.map fun l hl' => fin_distributeLine hk hl'
    have hl8 := fin_resolveCrossAxisAutoMargins (k := k) hl7
    obtain ⟨htl, hk2⟩ := fin_determineContainerCrossSize hk hi.kd hl8
    split
    · exact FinP_pure (fin_fromOuterSize hk2.containerSize)
    · have hl9 := fin_alignFlexLinesPerAlignContent hk2 htl hl8
      refine FinP_bind (Q := fun r => LinesFin r.1 ∧ SFin r.2) (fun r hr => ?_) (FinP_finalLayoutPass hk2 hl9)
      obtain ⟨lines10, ics⟩ := r
      dsimp only at hr ⊢
      refine FinP_bind (Q := SFin) (fun acs hacs => ?_) (FinP_flex_absLoop hk2 cs 0 _ hcs fin_size_zero)
      refine FinP_bind (Q := fun _ => True) (fun _ _ => ?_) (FinP_hiddenLoop cs 0)
      exact FinP_pure (fin_fromSizesAndBaselines hk2.containerSize (fin_f32Max hr.2 hacs)
        ⟨trivial, fin_firstVerticalBaseline hr.1⟩)
  · split
    · rename_i ims e
      have hims := OFin.of_some (fin_osize_main (d := (computeConstants style inputs.knownDimensions inputs.parentSize).dir)
        hk0.nodeInnerSize) e
      exact FinP_pure ⟨hlines, { hk0 with
        innerContainerSize := fin_setMain hk0.innerContainerSize hims,
        containerSize := fin_setMain hk0.containerSize (fin_add hims (fin_mainAxisSum hk0.contentBoxInset)) }⟩
    · refine FinP_bind (Q := fun r => LinesFin r.1 ∧ KFin r.2) (fun r hr => ?_)
        (FinP_determineContainerMainSize hk0 hav hlines)
      obtain ⟨lines, k⟩ := r
      obtain ⟨hl, hk⟩ := hr
      dsimp only at hl hk ⊢
      have hic := fin_size_main (d := k.dir) hk.innerContainerSize
      refine FinP_pure ⟨hl, { hk with
        nodeInnerSize := fin_osetMain hk.nodeInnerSize (v := some _) hic,
        nodeOuterSize := fin_osetMain hk.nodeOuterSize (v := some _) (fin_size_main hk.containerSize),
        gap := fin_setMain hk.gap ?_ }⟩
      exact fin_LP_resolveOrZero (fin_lpsize_main hs.gap) (ctx := some _) hic

/-- **flex**: finite container style, finite child styles, finite input ⇒ along every run with finite child answers:
every child input, every layout set and the output are finite -/
theorem FinP_computeFlexboxLayout {style : Style ER} {cs : List (Style ER)} {inputs : LayoutInput ER}
    (hs : StyleFin style) (hcs : StylesFin cs) (hi : InFin inputs) :
    FinP OutFin (computeFlexboxLayout style cs inputs) := by
  have hk := fin_flex_styledBasedKnownDimensions hs hi
  unfold computeFlexboxLayout
  dsimp only
  split
  · rename_i w h e0 e1 e2
    exact FinP_pure (fin_fromOuterSize ⟨OFin.of_some hk.1 e1, OFin.of_some hk.2 e2⟩)
  · exact FinP_computePreliminary hs hcs ⟨hk, hi.ps, hi.av⟩

end C03Fin
