/-
  The block program under `C06.AgreeA`: child-style lists that agree except at absolutely positioned children give
  programs that are `C06.AbsEquiv` (equal up to calls/`setLayout`s addressed to those children and up to `content_size`).
-/
import TaffyVerif.Lemmas.EvalBlock
import TaffyVerif.Lemmas.EvalAbs

set_option linter.unusedSectionVars false

namespace EvalBlock
open BlockModel C06
variable {α : Type} [Num α]

/-! ### relations -/

/-- loop states of the in-flow pass, equal except for `inflow_content_size` -/
def StRel (a b : FlowState α) : Prop :=
  a.committedYOffset = b.committedYOffset ∧ a.yOffsetForAbsolute = b.yOffsetForAbsolute ∧
  a.firstChildTopMarginSet = b.firstChildTopMarginSet ∧ a.activeCollapsibleMarginSet = b.activeCollapsibleMarginSet ∧
  a.isCollapsingWithFirstMarginSet = b.isCollapsingWithFirstMarginSet

theorem StRel.refl (a : FlowState α) : StRel a a := ⟨rfl, rfl, rfl, rfl, rfl⟩

/-- one loop iteration: answers equal up to `content_size` and states equal up to `inflow_content_size` give layouts
equal up to `content_size`, states equal up to `inflow_content_size`, and the SAME updated item -/
theorem placeItem_rel (c : FlowCtx α) (stA stB : FlowState α) (item : BlockItem α) (oA oB : LayoutOutput α)
    (hs : StRel stA stB) (ho : OutEqv oA oB) :
    LayEqv (placeItem c stA item oA).layout (placeItem c stB item oB).layout ∧
    StRel (placeItem c stA item oA).st (placeItem c stB item oB).st ∧
    (placeItem c stA item oA).item = (placeItem c stB item oB).item := by
  obtain ⟨sz, csA, fb, tm, bm, cc⟩ := oA
  obtain ⟨sz', csB, fb', tm', bm', cc'⟩ := oB
  obtain ⟨icA, cy, ya, fs, ac, ic⟩ := stA
  obtain ⟨icB, cy', ya', fs', ac', ic'⟩ := stB
  simp only [OutEqv] at ho
  simp only [StRel] at hs
  obtain ⟨h1, h2, h3, h4, h5⟩ := ho
  obtain ⟨g1, g2, g3, g4, g5⟩ := hs
  subst h1 h2 h3 h4 h5 g1 g2 g3 g4 g5
  cases cc <;> cases ic <;>
    exact ⟨⟨rfl, rfl, rfl, rfl, rfl, rfl, rfl⟩, ⟨rfl, rfl, rfl, rfl, rfl⟩, rfl⟩

/-- two items at the same list position: both absolutely positioned (addressing `abs` children, otherwise arbitrary),
or the same in-flow item (addressing a non-`abs` child) -/
def ItemRel (abs : Nat → Prop) (a b : BlockItem α) : Prop :=
  (a.position = .absolute ∧ b.position = .absolute ∧ abs a.nodeIdx ∧ abs b.nodeIdx) ∨
  (a.position ≠ .absolute ∧ a = b ∧ ¬ abs a.nodeIdx)

def ItemsRel (abs : Nat → Prop) : List (BlockItem α) → List (BlockItem α) → Prop
  | [], [] => True
  | a :: as, b :: bs => ItemRel abs a b ∧ ItemsRel abs as bs
  | _, _ => False

theorem absVis_hidden_false (x : Style α) (h : absVis x) : x.isHidden = false :=
  (isHidden_false_iff x).2 h.2

/-- the item lists generated from `AgreeA` style lists -/
theorem generateItemsFrom_rel (abs : Nat → Prop) (inner : Size (Option α)) :
    ∀ (l l' : List (Style α)) (idx order : Nat), AgreeA l l' →
      (∀ j x, l[j]? = some x → (absVis x ↔ abs (idx + j))) →
      ItemsRel abs (generateItemsFrom inner l idx order) (generateItemsFrom inner l' idx order)
  | [], [], _, _, _, _ => trivial
  | [], _ :: _, _, _, h, _ => by simp only [AgreeA] at h
  | _ :: _, [], _, _, h, _ => by simp only [AgreeA] at h
  | x :: xs, y :: ys, idx, order, h, ha => by
    simp only [AgreeA] at h
    have ha' : ∀ j z, xs[j]? = some z → (absVis z ↔ abs (idx + 1 + j)) := by
      intro j z hj
      have := ha (j + 1) z (by simpa using hj)
      rwa [show idx + (j + 1) = idx + 1 + j by omega] at this
    have h0 : absVis x ↔ abs idx := by simpa using ha 0 x (by simp)
    rcases h.1 with ⟨hx, hy⟩ | ⟨hx, hxy⟩
    · simp only [generateItemsFrom, absVis_hidden_false x hx, absVis_hidden_false y hy]
      refine ⟨Or.inl ⟨hx.1, hy.1, h0.1 hx, h0.1 hx⟩, generateItemsFrom_rel abs inner xs ys _ _ h.2 ha'⟩
    · subst hxy
      simp only [generateItemsFrom]
      by_cases hh : x.isHidden = true
      · simp only [hh, if_true]
        exact generateItemsFrom_rel abs inner xs ys _ _ h.2 ha'
      · simp only [hh]
        refine ⟨Or.inr ⟨?_, rfl, fun hab => hx (h0.2 hab)⟩, generateItemsFrom_rel abs inner xs ys _ _ h.2 ha'⟩
        intro hp
        exact hx ⟨hp, (isHidden_false_iff x).1 (by simpa using hh)⟩

theorem generateItemList_rel (xs ys : List (Style α)) (inner : Size (Option α)) (h : AgreeA xs ys) :
    ItemsRel (absIdx xs) (generateItemList xs inner) (generateItemList ys inner) := by
  refine generateItemsFrom_rel (absIdx xs) inner xs ys 0 0 h ?_
  intro j x hj
  simp only [Nat.zero_add, absIdx, hj, Option.some.injEq, exists_eq_left']

/-! ### phases -/

theorem bindE {β γ : Type} (p : ProgM α β) (f : β → ProgM α γ) : p >>= f = p.bind f := rfl

/-- the content-width pass: literally the same queries to the in-flow children, same result -/
theorem contentWidthLoop_equiv (abs : Nat → Prop) (av : AvailableSpace α) :
    ∀ (itemsA itemsB : List (BlockItem α)) (acc : α), ItemsRel abs itemsA itemsB →
      AbsEquiv abs Eq (contentWidthLoop av itemsA acc) (contentWidthLoop av itemsB acc)
  | [], [], acc, _ => .pure _ _ rfl
  | [], _ :: _, _, h => by simp only [ItemsRel] at h
  | _ :: _, [], _, h => by simp only [ItemsRel] at h
  | a :: as, b :: bs, acc, h => by
    simp only [ItemsRel] at h
    rcases h.1 with ⟨ha, hb, _, _⟩ | ⟨ha, hab, hn⟩
    · rw [contentWidthLoop_cons_abs av a as acc ha, contentWidthLoop_cons_abs av b bs acc hb]
      exact contentWidthLoop_equiv abs av as bs acc h.2
    · subst hab
      cases hw : (a.size.oo_clamp a.minSize a.maxSize).width with
      | some w =>
        rw [contentWidthLoop_cons_known av a as acc w ha hw, contentWidthLoop_cons_known av a bs acc w ha hw]
        exact contentWidthLoop_equiv abs av as bs _ h.2
      | none =>
        rw [contentWidthLoop_cons_query av a as acc ha hw, contentWidthLoop_cons_query av a bs acc ha hw]
        refine .call _ _ _ _ hn fun oA oB ho => ?_
        rw [ho.1]
        exact contentWidthLoop_equiv abs av as bs _ h.2

theorem containerWidthProg_equiv (abs : Nat → Prop) (ic : InnerCtx α) (itemsA itemsB : List (BlockItem α))
    (inputs : LayoutInput α) (h : ItemsRel abs itemsA itemsB) :
    AbsEquiv abs Eq (containerWidthProg ic itemsA inputs) (containerWidthProg ic itemsB inputs) := by
  cases hk : inputs.knownDimensions.width with
  | some w =>
    rw [containerWidthProg_known ic itemsA inputs w hk, containerWidthProg_known ic itemsB inputs w hk]
    exact .pure _ _ rfl
  | none =>
    rw [containerWidthProg_unknown ic itemsA inputs hk, containerWidthProg_unknown ic itemsB inputs hk]
    rw [bindE, bindE]
    refine AbsEquiv.bind (contentWidthLoop_equiv abs _ itemsA itemsB 0 h) fun a b hab => ?_
    subst hab
    exact .pure _ _ rfl

/-- the in-flow pass: the same queries to the in-flow children, layouts equal up to `content_size`; resulting items
related, loop states equal up to `inflow_content_size` -/
theorem flowLoop_equiv (abs : Nat → Prop) (c : FlowCtx α) :
    ∀ (itemsA itemsB : List (BlockItem α)) (stA stB : FlowState α), ItemsRel abs itemsA itemsB → StRel stA stB →
      AbsEquiv abs (fun rA rB => ItemsRel abs rA.1 rB.1 ∧ StRel rA.2 rB.2) (flowLoop c itemsA stA) (flowLoop c itemsB stB)
  | [], [], _, _, _, hs => .pure _ _ ⟨trivial, hs⟩
  | [], _ :: _, _, _, h, _ => by simp only [ItemsRel] at h
  | _ :: _, [], _, _, h, _ => by simp only [ItemsRel] at h
  | a :: as, b :: bs, stA, stB, h, hs => by
    simp only [ItemsRel] at h
    rcases h.1 with ⟨ha, hb, hia, hib⟩ | ⟨ha, hab, hn⟩
    · rw [flowLoop_cons_abs c a as stA ha, flowLoop_cons_abs c b bs stB hb, bindE, bindE]
      refine AbsEquiv.bind (flowLoop_equiv abs c as bs stA stB h.2 hs) fun rA rB hr => ?_
      exact .pure _ _ ⟨⟨Or.inl ⟨ha, hb, hia, hib⟩, hr.1⟩, hr.2⟩
    · subst hab
      rw [flowLoop_cons_flow c a as stA ha, flowLoop_cons_flow c a bs stB ha]
      have hin : ∀ st : FlowState α, True := fun _ => trivial
      refine .call _ _ _ _ hn fun oA oB ho => ?_
      obtain ⟨p1, p2, p3⟩ := placeItem_rel c stA stB a oA oB hs ho
      refine .setLayout _ _ _ _ _ p1 ?_
      rw [bindE, bindE]
      refine AbsEquiv.bind (flowLoop_equiv abs c as bs _ _ h.2 p2) fun rA rB hr => ?_
      refine .pure _ _ ⟨⟨Or.inr ⟨?_, p3, ?_⟩, hr.1⟩, hr.2⟩
      · exact ha
      · exact hn

/-- a program all of whose interactions are addressed to `abs` children -/
def OnlyAbs {β : Type} (abs : Nat → Prop) : ProgM α β → Prop
  | .pure _ => True
  | .call i _ k => abs i ∧ ∀ o, OnlyAbs abs (k o)
  | .setLayout i _ k => abs i ∧ OnlyAbs abs (k ())

theorem OnlyAbs_bind {β γ : Type} (abs : Nat → Prop) (p : ProgM α β) (f : β → ProgM α γ)
    (hp : OnlyAbs abs p) (hf : ∀ a, OnlyAbs abs (f a)) : OnlyAbs abs (p >>= f) := by
  rw [bindE]
  induction p with
  | pure b => exact hf b
  | call i inp k ih => exact ⟨hp.1, fun o => ih o (hp.2 o)⟩
  | setLayout i l k ih => exact ⟨hp.1, ih () hp.2⟩

/-- two programs that only talk to `abs` children are equivalent (with unrelated results) -/
theorem OnlyAbs_equiv {β γ : Type} (abs : Nat → Prop) (p : ProgM α β) (q : ProgM α γ)
    (hp : OnlyAbs abs p) (hq : OnlyAbs abs q) : AbsEquiv abs (fun _ _ => True) p q := by
  induction p with
  | pure a =>
    induction q with
    | pure b => exact .pure _ _ trivial
    | call i inp k ih => exact .callR i inp _ _ hq.1 fun o => ih o (hq.2 o)
    | setLayout i l k ih => exact .setR i l _ _ hq.1 (ih () hq.2)
  | call i inp k ih => exact .callL i inp _ _ hp.1 fun o => ih o (hp.2 o)
  | setLayout i l k ih => exact .setL i l _ _ hp.1 (ih () hp.2)

/-- the absolute pass only talks to the (absolutely positioned) items' children -/
theorem absLoop_onlyAbs (abs : Nat → Prop) (styleOf : Nat → Option (Style α)) (a : Size α) (o : Point α) :
    ∀ (items : List (BlockItem α)) (acc : Size α), (∀ it ∈ items, it.position = .absolute → abs it.nodeIdx) →
      OnlyAbs abs (absLoop styleOf a o items acc)
  | [], _, _ => trivial
  | item :: rest, acc, h => by
    have hr : ∀ it ∈ rest, it.position = .absolute → abs it.nodeIdx := fun it hit => h it (List.mem_cons_of_mem _ hit)
    cases ht : absTaken styleOf item with
    | none =>
      rw [absLoop_cons_skip styleOf a o item rest acc ht]
      exact absLoop_onlyAbs abs styleOf a o rest acc hr
    | some s =>
      rw [absLoop_cons_take styleOf a o item rest acc s ht]
      obtain ⟨hp, _, _, _⟩ := absTaken_some styleOf item s ht
      obtain ⟨inp, lay, res, _, he⟩ := absItem_shape item s a o acc
      rw [he]
      have hi := h item List.mem_cons_self hp
      exact OnlyAbs_bind abs _ _ ⟨hi, fun _ => ⟨hi, trivial⟩⟩ fun _ => absLoop_onlyAbs abs styleOf a o rest _ hr

theorem ItemsRel_absL (abs : Nat → Prop) : ∀ (as bs : List (BlockItem α)), ItemsRel abs as bs →
    ∀ it ∈ as, it.position = .absolute → abs it.nodeIdx
  | [], [], _, _, h, _ => by simp at h
  | [], _ :: _, h, _, _, _ => by simp only [ItemsRel] at h
  | _ :: _, [], h, _, _, _ => by simp only [ItemsRel] at h
  | a :: as, b :: bs, h, it, hit, hp => by
    simp only [ItemsRel] at h
    rcases List.mem_cons.1 hit with e | e
    · subst e
      rcases h.1 with ⟨_, _, hi, _⟩ | ⟨hn, _, _⟩
      · exact hi
      · exact absurd hp hn
    · exact ItemsRel_absL abs as bs h.2 it e hp

theorem ItemsRel_absR (abs : Nat → Prop) : ∀ (as bs : List (BlockItem α)), ItemsRel abs as bs →
    ∀ it ∈ bs, it.position = .absolute → abs it.nodeIdx
  | [], [], _, _, h, _ => by simp at h
  | [], _ :: _, h, _, _, _ => by simp only [ItemsRel] at h
  | _ :: _, [], h, _, _, _ => by simp only [ItemsRel] at h
  | a :: as, b :: bs, h, it, hit, hp => by
    simp only [ItemsRel] at h
    rcases List.mem_cons.1 hit with e | e
    · subst e
      rcases h.1 with ⟨_, _, _, hi⟩ | ⟨hn, hab, _⟩
      · exact hi
      · subst hab; exact absurd hp hn
    · exact ItemsRel_absR abs as bs h.2 it e hp

/-- step 7 only looks at the in-flow items -/
theorem allInFlowCollapsible_rel (abs : Nat → Prop) : ∀ (as bs : List (BlockItem α)), ItemsRel abs as bs →
    allInFlowCollapsible as = allInFlowCollapsible bs
  | [], [], _ => rfl
  | [], _ :: _, h => by simp only [ItemsRel] at h
  | _ :: _, [], h => by simp only [ItemsRel] at h
  | a :: as, b :: bs, h => by
    simp only [ItemsRel] at h
    have ih := allInFlowCollapsible_rel abs as bs h.2
    unfold allInFlowCollapsible at ih ⊢
    simp only [List.all_cons, ih]
    rcases h.1 with ⟨ha, hb, _, _⟩ | ⟨_, hab, _⟩
    · simp only [pos_beq, ha, hb, decide_true, Bool.true_or]
    · rw [hab]

/-- the hidden-children loop: identical on both sides -/
theorem hiddenLoop_equiv (abs : Nat → Prop) : ∀ (l l' : List (Style α)) (order : Nat), AgreeA l l' →
    (∀ j x, l[j]? = some x → x.isHidden = true → ¬ abs (order + j)) →
    AbsEquiv abs (fun _ _ => True) (hiddenLoop l order) (hiddenLoop l' order)
  | [], [], _, _, _ => .pure _ _ trivial
  | [], _ :: _, _, h, _ => by simp only [AgreeA] at h
  | _ :: _, [], _, h, _ => by simp only [AgreeA] at h
  | x :: xs, y :: ys, order, h, hn => by
    simp only [AgreeA] at h
    have hn' : ∀ j z, xs[j]? = some z → z.isHidden = true → ¬ abs (order + 1 + j) := by
      intro j z hj hz
      have := hn (j + 1) z (by simpa using hj) hz
      rwa [show order + (j + 1) = order + 1 + j by omega] at this
    have ih := hiddenLoop_equiv abs xs ys (order + 1) h.2 hn'
    rcases h.1 with ⟨hx, hy⟩ | ⟨_, hxy⟩
    · rw [hiddenLoop_cons_visible x xs order (absVis_hidden_false x hx),
        hiddenLoop_cons_visible y ys order (absVis_hidden_false y hy)]
      exact ih
    · subst hxy
      by_cases hh : x.isHidden = true
      · rw [hiddenLoop_cons_hidden x xs order hh, hiddenLoop_cons_hidden x ys order hh]
        refine .call _ _ _ _ ?_ fun _ _ _ => .setLayout _ _ _ _ _ (LayEqv.refl _) ih
        simpa using hn 0 x (by simp) hh
      · rw [hiddenLoop_cons_visible x xs order (by simpa using hh),
          hiddenLoop_cons_visible x ys order (by simpa using hh)]
        exact ih

/-- result relation of `perform_final_layout_on_in_flow_children`: everything but `inflow_content_size` -/
def FinalRel (abs : Nat → Prop) (rA rB : List (BlockItem α) × (Size α × α × MarginSet α × MarginSet α)) : Prop :=
  ItemsRel abs rA.1 rB.1 ∧ rA.2.2 = rB.2.2

theorem performFinal_equiv (abs : Nat → Prop) (c : FlowCtx α) (itemsA itemsB : List (BlockItem α))
    (h : ItemsRel abs itemsA itemsB) :
    AbsEquiv abs (FinalRel abs) (performFinalLayoutOnInFlowChildren c itemsA)
      (performFinalLayoutOnInFlowChildren c itemsB) := by
  rw [performFinal_eq, performFinal_eq, bindE, bindE]
  refine AbsEquiv.bind (flowLoop_equiv abs c itemsA itemsB _ _ h (StRel.refl _)) fun rA rB hr => ?_
  refine .pure _ _ ⟨hr.1, ?_⟩
  obtain ⟨g1, _, g3, g4, _⟩ := hr.2
  simp only [flowResult, g1, g3, g4]

theorem innerTail_equiv (style : Style α) (xs ys : List (Style α)) (inputs : LayoutInput α) (w : α)
    (h : AgreeA xs ys) (rA rB : List (BlockItem α) × (Size α × α × MarginSet α × MarginSet α))
    (hr : FinalRel (absIdx xs) rA rB) :
    AbsEquiv (absIdx xs) OutEqv (innerTail style xs inputs w rA) (innerTail style ys inputs w rB) := by
  have hf : finalOuterSize (innerCtx style inputs) inputs w rA = finalOuterSize (innerCtx style inputs) inputs w rB := by
    simp only [finalOuterSize, hr.2]
  unfold innerTail
  simp only [hf]
  split
  · exact .pure _ _ (OutEqv.refl _)
  · rw [bindE, bindE]
    refine AbsEquiv.bind (Q := fun _ _ => True) (OnlyAbs_equiv _ _ _
      (absLoop_onlyAbs _ _ _ _ rA.1 _ (ItemsRel_absL _ _ _ hr.1))
      (absLoop_onlyAbs _ _ _ _ rB.1 _ (ItemsRel_absR _ _ _ hr.1))) fun acsA acsB _ => ?_
    rw [bindE, bindE]
    refine AbsEquiv.bind (Q := fun _ _ => True) (hiddenLoop_equiv _ xs ys 0 h ?_) fun _ _ _ => ?_
    · intro j x hj hx ⟨x', hj', hv⟩
      rw [Nat.zero_add, hj] at hj'
      cases hj'
      exact hv.2 ((isHidden_iff x).1 hx)
    · refine .pure _ _ ?_
      have e2 : rA.2.2 = rB.2.2 := hr.2
      simp only [innerOutput, OutEqv, allInFlowCollapsible_rel _ _ _ hr.1, e2, and_self]

theorem innerAfterWidth_equiv (style : Style α) (xs ys : List (Style α)) (inputs : LayoutInput α) (w : α)
    (h : AgreeA xs ys) :
    AbsEquiv (absIdx xs) OutEqv (innerAfterWidth style xs inputs w) (innerAfterWidth style ys inputs w) := by
  unfold innerAfterWidth
  simp only
  split
  · exact .pure _ _ (OutEqv.refl _)
  · rw [bindE, bindE]
    exact AbsEquiv.bind (performFinal_equiv _ _ _ _ (generateItemList_rel xs ys _ h)) fun rA rB hr =>
      innerTail_equiv style xs ys inputs w h rA rB hr

theorem computeInner_equiv (style : Style α) (xs ys : List (Style α)) (inputs : LayoutInput α) (h : AgreeA xs ys) :
    AbsEquiv (absIdx xs) OutEqv (computeInner style xs inputs) (computeInner style ys inputs) := by
  rw [computeInner_eq, computeInner_eq, bindE, bindE]
  refine AbsEquiv.bind (containerWidthProg_equiv _ _ _ _ inputs (generateItemList_rel xs ys _ h)) fun a b hab => ?_
  subst hab
  exact innerAfterWidth_equiv style xs ys inputs a h

theorem computeBlockLayout_equiv (style : Style α) (xs ys : List (Style α)) (inputs : LayoutInput α)
    (h : AgreeA xs ys) :
    AbsEquiv (absIdx xs) OutEqv (computeBlockLayout style xs inputs) (computeBlockLayout style ys inputs) := by
  rcases computeBlockLayout_cases style inputs with ⟨_, o, e⟩ | ⟨inputs', _, e⟩
  · rw [e, e]; exact .pure _ _ (OutEqv.refl _)
  · rw [e, e]; exact computeInner_equiv style xs ys inputs' h

end EvalBlock
