/-
  C03 (finiteness) — lifted through the tree-level evaluator (Model/Eval.lean) at `ER`, for every cache implementation
  whose entries stay finite (`CacheFin`: the real nine-slot cache, the exact memo, no cache), every dispatch function and
  every fuel: on a tree of finite styles and finite leaf contents, from a state whose layouts and cache entries are finite,
  a finite `LayoutInput` yields a finite `LayoutOutput` and a state whose layouts and cache entries are again finite.
-/
import TaffyVerif.Lemmas.FinLeaf
import TaffyVerif.Lemmas.FinBlock
import TaffyVerif.Lemmas.EvalUnfold
import TaffyVerif.Model.EvalConcrete

namespace C03Fin
open Eval CacheModel

variable {C : Type}

/-- a cache implementation keeps finite entries: `I` is an invariant of the cache under which every hit is finite -/
structure CacheFin (ci : CacheImpl ER C) (I : C → Prop) : Prop where
  empty : I ci.empty
  get : ∀ c inp o, I c → ci.get c inp = some o → OutFin o
  store : ∀ c inp o, I c → OutFin o → I (ci.store c inp o)
  clear : ∀ c, I c → I (ci.clear c)

mutual
/-- every stored layout and every cache of the subtree is finite -/
def NSFin (I : C → Prop) : NS ER C → Prop
  | .mk c l kids => I c ∧ LayFin l ∧ NSListFin I kids
def NSListFin (I : C → Prop) : List (NS ER C) → Prop
  | [] => True
  | k :: ks => NSFin I k ∧ NSListFin I ks
end

mutual
/-- every style of the tree is finite (`StyleFin`: aspect ratios absent or finite and non-zero) and every leaf content
(`MeasureSpec`) has finite parameters -/
def TreeFin : STree ER → Prop
  | .node s ctx kids => StyleFin s ∧ (∀ m, ctx = some m → MeasureSpecFin m) ∧ TreeListFin kids
def TreeListFin : List (STree ER) → Prop
  | [] => True
  | t :: ts => TreeFin t ∧ TreeListFin ts
end

/-- a container algorithm is finite: finite styles and input ⇒ `FinP OutFin` -/
def AlgFin (f : Style ER → List (Style ER) → LayoutInput ER → ProgM ER (LayoutOutput ER)) : Prop :=
  ∀ style cs inp, StyleFin style → StylesFin cs → InFin inp → FinP OutFin (f style cs inp)

structure AlgsFin (algs : Algs ER) : Prop where
  leaf : ∀ inp style m, InFin inp → StyleFin style → MeasureFin m → OutFin (algs.leaf inp style m)
  block : AlgFin algs.block
  flex : AlgFin algs.flex
  grid : AlgFin algs.grid

/-! ### lists -/

theorem TreeListFin_get : ∀ (kids : List (STree ER)) (i : Nat) (t : STree ER),
    TreeListFin kids → kids[i]? = some t → TreeFin t
  | [], _, _, _, h => by simp at h
  | a :: as, 0, t, hn, h => by
    simp only [List.getElem?_cons_zero, Option.some.injEq] at h
    subst h; exact hn.1
  | a :: as, i + 1, t, hn, h => by
    simp only [List.getElem?_cons_succ] at h
    exact TreeListFin_get as i t hn.2 h

theorem NSListFin_get (I : C → Prop) : ∀ (ks : List (NS ER C)) (i : Nat) (k : NS ER C),
    NSListFin I ks → ks[i]? = some k → NSFin I k
  | [], _, _, _, h => by simp at h
  | a :: as, 0, t, hn, h => by
    simp only [List.getElem?_cons_zero, Option.some.injEq] at h
    subst h; exact hn.1
  | a :: as, i + 1, t, hn, h => by
    simp only [List.getElem?_cons_succ] at h
    exact NSListFin_get I as i t hn.2 h

theorem NSListFin_set (I : C → Prop) : ∀ (ks : List (NS ER C)) (i : Nat) (k : NS ER C),
    NSListFin I ks → NSFin I k → NSListFin I (ks.set i k)
  | [], _, _, _, _ => trivial
  | a :: as, 0, k, hn, hk => ⟨hk, hn.2⟩
  | a :: as, i + 1, k, hn, hk => ⟨hn.1, NSListFin_set I as i k hn.2 hk⟩

theorem TreeListFin_styles : ∀ (kids : List (STree ER)), TreeListFin kids → StylesFin (kids.map STree.style)
  | [], _ => fun _ h => absurd h (by simp)
  | t :: ts, hn => by
    intro s hs
    simp only [List.map_cons, List.mem_cons] at hs
    rcases hs with rfl | hs
    · cases t; exact hn.1.1
    · exact TreeListFin_styles ts hn.2 s hs

/-! ### `compute_hidden_layout`, `NS.init` -/

mutual
theorem fin_hiddenLayout {ci : CacheImpl ER C} {I : C → Prop} (hci : CacheFin ci I) :
    ∀ ns : NS ER C, NSFin I ns → NSFin I (hiddenLayout ci ns)
  | .mk c l kids, h => by
    simp only [hiddenLayout]
    exact ⟨hci.clear c h.1, fin_withOrder 0, fin_hiddenLayoutList hci kids h.2.2⟩
theorem fin_hiddenLayoutList {ci : CacheImpl ER C} {I : C → Prop} (hci : CacheFin ci I) :
    ∀ ks : List (NS ER C), NSListFin I ks → NSListFin I (hiddenLayoutList ci ks)
  | [], _ => by simp only [hiddenLayoutList]; trivial
  | k :: ks, h => by
    simp only [hiddenLayoutList]
    exact ⟨fin_hiddenLayout hci k h.1, fin_hiddenLayoutList hci ks h.2⟩
end

mutual
theorem fin_init {ci : CacheImpl ER C} {I : C → Prop} (hci : CacheFin ci I) : ∀ t : STree ER, NSFin I (NS.init ci t)
  | .node _ _ kids => by
    simp only [NS.init]
    exact ⟨hci.empty, fin_layout_new, fin_initList hci kids⟩
theorem fin_initList {ci : CacheImpl ER C} {I : C → Prop} (hci : CacheFin ci I) :
    ∀ ts : List (STree ER), NSListFin I (NS.initList ci ts)
  | [] => by simp only [NS.initList]; trivial
  | t :: ts => by
    simp only [NS.initList]
    exact ⟨fin_init hci t, fin_initList hci ts⟩
end

/-! ### the interpreter of interaction programs -/

theorem fin_setLayoutAt (I : C → Prop) (ks : List (NS ER C)) (i : Nat) (l : Layout ER) (hk : NSListFin I ks)
    (hl : LayFin l) : NSListFin I (setLayoutAt ks i l) := by
  unfold setLayoutAt
  split
  · rename_i c l0 kids e
    have := NSListFin_get I ks i _ hk e
    exact NSListFin_set I ks i _ hk ⟨this.1, hl, this.2.2⟩
  · exact hk

/-- children answer finite inputs with finite outputs and keep the state finite -/
def EvalChildFin (I : C → Prop)
    (evalChild : Nat → LayoutInput ER → List (NS ER C) → LayoutOutput ER × List (NS ER C)) : Prop :=
  ∀ i cin ks, InFin cin → NSListFin I ks → OutFin (evalChild i cin ks).1 ∧ NSListFin I (evalChild i cin ks).2

theorem fin_runProg {β : Type} {Q : β → Prop} (I : C → Prop)
    {evalChild : Nat → LayoutInput ER → List (NS ER C) → LayoutOutput ER × List (NS ER C)}
    (hev : EvalChildFin I evalChild) :
    ∀ (p : ProgM ER β) (ks : List (NS ER C)), FinP Q p → NSListFin I ks →
      Q (runProg evalChild p ks).1 ∧ NSListFin I (runProg evalChild p ks).2
  | .pure b, ks, hp, hk => ⟨hp, hk⟩
  | .call i inp k, ks, hp, hk => by
    simp only [runProg]
    obtain ⟨h1, h2⟩ := hev i inp ks hp.1 hk
    exact fin_runProg I hev (k _) _ (hp.2 _ h1) h2
  | .setLayout i l k, ks, hp, hk => by
    simp only [runProg]
    exact fin_runProg I hev (k ()) _ hp.2 (fin_setLayoutAt I ks i l hk hp.1)

theorem fin_evalChildOf (I : C → Prop) {ev : STree ER → NS ER C → LayoutInput ER → LayoutOutput ER × NS ER C}
    {kids : List (STree ER)} (hk : TreeListFin kids)
    (hev : ∀ t ns inp, TreeFin t → NSFin I ns → InFin inp → OutFin (ev t ns inp).1 ∧ NSFin I (ev t ns inp).2) :
    EvalChildFin I (evalChildOf ev kids) := by
  intro i cin ks hcin hks
  unfold evalChildOf
  split
  · rename_i t k e1 e2
    obtain ⟨h1, h2⟩ := hev t k cin (TreeListFin_get kids i t hk e1) (NSListFin_get I ks i k hks e2) hcin
    exact ⟨h1, NSListFin_set I ks i _ hks h2⟩
  · exact ⟨fin_out_hidden, hks⟩

theorem fin_runOn (I : C → Prop)
    {evalChild : Nat → LayoutInput ER → List (NS ER C) → LayoutOutput ER × List (NS ER C)}
    (hev : EvalChildFin I evalChild) (ns : NS ER C) (p : ProgM ER (LayoutOutput ER)) (hp : FinP OutFin p)
    (hns : NSFin I ns) : OutFin (runOn evalChild ns p).1 ∧ NSFin I (runOn evalChild ns p).2 := by
  cases ns with
  | mk c l nk =>
    simp only [runOn]
    obtain ⟨h1, h2⟩ := fin_runProg I hev p nk hp hns.2.2
    exact ⟨h1, hns.1, hns.2.1, h2⟩

theorem fin_measureOf {ctx : Option (MeasureSpec ER)} (h : ∀ m, ctx = some m → MeasureSpecFin m) :
    MeasureFin (measureOf ctx) := by
  cases ctx with
  | none => intro _ _ _ _; exact ⟨fin_zero, fin_zero⟩
  | some m => exact fin_measureSpec (h m rfl)

/-! ### the evaluator -/

/-- **evaluator**: `compute_child_layout` on a whole subtree keeps everything finite -/
theorem fin_evalNodeWith {ci : CacheImpl ER C} {I : C → Prop} (hci : CacheFin ci I)
    (sel : Display → Bool → Option Gen.Facts.Callee) {algs : Algs ER} (ha : AlgsFin algs) :
    ∀ (fuel : Nat) (t : STree ER) (ns : NS ER C) (inp : LayoutInput ER), TreeFin t → NSFin I ns → InFin inp →
      OutFin (evalNodeWith ci sel algs fuel t ns inp).1 ∧ NSFin I (evalNodeWith ci sel algs fuel t ns inp).2 := by
  intro fuel
  induction fuel with
  | zero => intro t ns inp _ hns _; rw [eval_zero]; exact ⟨fin_out_hidden, hns⟩
  | succ fuel ih =>
    intro t ns inp ht hns hinp
    cases t with
    | node s ctx kids =>
      rw [eval_succ]
      split
      · exact ⟨fin_out_hidden, fin_hiddenLayout hci ns hns⟩
      · split
        · rename_i out e
          cases ns with
          | mk c l nk => exact ⟨hci.get c inp out hns.1 e, hns⟩
        · have hev := fin_evalChildOf I ht.2.2 (fun t ns inp => ih t ns inp)
          have hcs := TreeListFin_styles kids ht.2.2
          have hcomp : OutFin (computeOf ci sel algs (evalNodeWith ci sel algs fuel) s ctx kids ns inp).1 ∧
              NSFin I (computeOf ci sel algs (evalNodeWith ci sel algs fuel) s ctx kids ns inp).2 := by
            unfold computeOf
            split
            · exact ⟨fin_out_hidden, fin_hiddenLayout hci ns hns⟩
            · exact fin_runOn I hev ns _ (ha.block s _ inp ht.1 hcs hinp) hns
            · exact fin_runOn I hev ns _ (ha.flex s _ inp ht.1 hcs hinp) hns
            · exact fin_runOn I hev ns _ (ha.grid s _ inp ht.1 hcs hinp) hns
            · exact ⟨ha.leaf inp s _ hinp ht.1 (fin_measureOf ht.2.1), hns⟩
            · exact ⟨fin_out_hidden, hns⟩
          revert hcomp
          generalize computeOf ci sel algs (evalNodeWith ci sel algs fuel) s ctx kids ns inp = r
          intro hcomp
          obtain ⟨o, n⟩ := r
          cases n with
          | mk c l nk =>
            rw [storeOf_mk]
            exact ⟨hcomp.1, hci.store c inp o hcomp.2.1 hcomp.1, hcomp.2.2.1, hcomp.2.2.2⟩

/-! ### the cache implementations -/

theorem cacheFin_noCache : CacheFin (noCache : CacheImpl ER Unit) (fun _ => True) :=
  ⟨trivial, fun _ _ _ _ h => absurd h (by simp [noCache]), fun _ _ _ _ _ => trivial, fun _ _ => trivial⟩

/-- invariant of the exact memo: every stored output is finite -/
def MemoFin (c : List (LayoutInput ER × LayoutOutput ER)) : Prop := ∀ e ∈ c, OutFin e.2

theorem cacheFin_exactMemo : CacheFin (exactMemo : CacheImpl ER _) MemoFin := by
  refine ⟨fun e h => absurd h (by simp [exactMemo]), ?_, ?_, fun _ _ e h => absurd h (by simp [exactMemo])⟩
  · intro c inp o hc h
    simp only [exactMemo, Option.map_eq_some_iff] at h
    obtain ⟨e, he, rfl⟩ := h
    exact hc e (List.mem_of_find?_eq_some he)
  · intro c inp o hc ho
    simp only [exactMemo]
    split
    · exact hc
    · intro e he
      rcases List.mem_cons.mp he with rfl | he
      · exact ho
      · exact hc e he

/-- invariant of the real nine-slot cache: the final-layout entry and every measure entry hold finite numbers -/
def RealCacheFin (c : Cache ER) : Prop :=
  (∀ e, c.finalLayoutEntry = some e → OutFin e.content) ∧
  (∀ e, some e ∈ c.measureEntries → SFin e.content)

theorem cacheFin_realCache : CacheFin (realCache : CacheImpl ER _) RealCacheFin := by
  refine ⟨⟨fun e h => absurd h (by simp [realCache, Cache.new]), fun e h => ?_⟩, ?_, ?_, ?_⟩
  · simp only [realCache, Cache.new, List.mem_replicate] at h
    exact absurd h.2 (by simp)
  · intro c inp o hc h
    simp only [realCache, Cache.get] at h
    split at h
    · split at h
      · rename_i e he
        split at h
        · simp only [Option.some.injEq] at h; subst h; exact hc.1 e he
        · exact absurd h (by simp)
      · exact absurd h (by simp)
    · split at h
      · rename_i e he
        simp only [Option.some.injEq] at h; subst h
        have hm := List.mem_of_find?_eq_some he
        simp only [List.mem_filterMap, id] at hm
        obtain ⟨a, ha, rfl⟩ := hm
        exact fin_fromOuterSize (hc.2 e ha)
      · exact absurd h (by simp)
    · exact absurd h (by simp)
  · intro c inp o hc ho
    simp only [realCache, Cache.store]
    split
    · refine ⟨fun e h => ?_, hc.2⟩
      simp only [Option.some.injEq] at h; subst h; exact ho
    · refine ⟨hc.1, fun e h => ?_⟩
      rcases List.mem_or_eq_of_mem_set h with h | h
      · exact hc.2 e h
      · simp only [Option.some.injEq] at h; subst h; exact ho.size
    · exact hc
  · intro c hc
    simp only [realCache, Cache.clear]
    split
    · exact hc
    · refine ⟨fun e h => absurd h (by simp), fun e h => ?_⟩
      simp only [List.mem_replicate] at h
      exact absurd h.2 (by simp)

/-! ### the concrete algorithms -/

theorem fin_leafAlg {inp : LayoutInput ER} {style : Style ER} {m : Size (Option ER) → Size (AvailableSpace ER) → Size ER}
    (hi : InFin inp) (hs : StyleFin style) (hm : MeasureFin m) : OutFin (EvalConcrete.leafAlg inp style m) := by
  unfold EvalConcrete.leafAlg
  split
  · rename_i o cs e; exact (fin_computeLeafLayout hi hs hm e).1
  · exact fin_out_hidden

theorem algFin_idle : AlgFin (EvalConcrete.idle : Style ER → _) := fun _ _ _ _ _ _ => fin_out_hidden

theorem algFin_block : AlgFin (BlockModel.computeBlockLayout : Style ER → _) :=
  fun _ _ _ hs hcs hi => FinP_computeBlockLayout hs hcs hi

theorem algsFin_concrete {flex grid : Style ER → List (Style ER) → LayoutInput ER → ProgM ER (LayoutOutput ER)}
    (hf : AlgFin flex) (hg : AlgFin grid) : AlgsFin (EvalConcrete.algs flex grid) :=
  ⟨fun _ _ _ hi hs hm => fin_leafAlg hi hs hm, algFin_block, hf, hg⟩

end C03Fin
