/-
  `expand_flexible_tracks` (Model/GridSizing.lean) with its pure pieces named (`rfl`).  No Mathlib.
-/
import TaffyVerif.Model.GridSizing

set_option linter.unusedSectionVars false

namespace GridTheta
open GridModel GridTracks
variable {α : Type} [Num α]

/-- the hypothetical size of the grid for a flex fraction -/
def efHypothetical (tracks : List (GridTrack α)) (ff : α) : α :=
  sumF (tracks.map fun t => match t.maxFn with
    | .fr v => Num.fmax t.baseSize (v * ff)
    | _ => t.baseSize)

/-- the flex fraction clamped by the container's min/max size -/
def efClamp (tracks : List (GridTrack α)) (axisMinSize axisMaxSize : Option α) (flexFraction : α) : α :=
  let hypothetical : α := efHypothetical tracks flexFraction
  let mn := axisMinSize.getD 0
  if Num.flt hypothetical mn then findSizeOfFr tracks mn
  else match axisMaxSize with
    | some mx => if Num.flt mx hypothetical then findSizeOfFr tracks mx else flexFraction
    | none => flexFraction

/-- the base size of the flexible tracks -/
def efApply (tracks : List (GridTrack α)) (flexFraction : α) : List (GridTrack α) :=
  tracks.map fun t => match t.maxFn with
    | .fr v => { t with baseSize := Num.fmax t.baseSize (v * flexFraction) }
    | _ => t

/-- the largest `base_size / flex_factor` of the flexible tracks -/
def efTrackMax (tracks : List (GridTrack α)) : α :=
  (maxByTotal ((tracks.filter (·.maxFn.isFr)).map fun t =>
    let ff := t.flexFactor
    if Num.flt 1 ff then t.baseSize / ff else t.baseSize)).getD 0

theorem expandFlexibleTracksM_eq (axis : Ax) (tracks : List (GridTrack α)) (items : List (GItem α))
    (axisMinSize axisMaxSize : Option α) (availForExpansion : AvailableSpace α) (innerNodeSize : Size (Option α)) :
    expandFlexibleTracksM axis tracks items axisMinSize axisMaxSize availForExpansion innerNodeSize =
      (match availForExpansion with
        | .definite availableSpace =>
          pure (items, if Num.fle (availableSpace - sumF (tracks.map (·.baseSize))) 0 then 0
            else findSizeOfFr tracks availableSpace)
        | .minContent => pure (items, 0)
        | .maxContent =>
          flexItemFractions axis innerNodeSize tracks items >>= fun r =>
            pure (r.1, efClamp tracks axisMinSize axisMaxSize
              (Num.fmax (efTrackMax tracks) ((maxByTotal r.2).getD 0))) : GM α (List (GItem α) × α)) >>= fun r =>
      pure (r.1, efApply tracks r.2) := by
  cases availForExpansion <;> rfl

end GridTheta
