/-
  Grid items (Model/GridItem.lean = grid_item.rs) under the program predicates of Lemmas/EvalGrid.lean.

  `frame it`  erases everything the track sizing algorithm mutates in a `GItem`: the contribution caches, the available-space
              cache, the baseline and its shim, `y_position`, `height`.  What is left (`node`, the placement, the track
              indexes, the crossing flags, the style fields) is never changed after `determineCrossings`.
  `pot ax it` the number of EMPTY contribution caches of the item in axis `ax` (min-content, max-content): 0, 1 or 2.
  `COp ax it π p`  "`p` is a cached contribution query of item `it` in axis `ax`": it makes at most `pot ax it` child calls,
              and the item it returns (`π` of the result) has the same frame, the same caches in the other axis, and at
              most `pot ax it − (calls made)` empty caches in axis `ax`.
-/
import TaffyVerif.Lemmas.EvalGrid

set_option linter.unusedSectionVars false
set_option linter.unusedVariables false

namespace EvalGrid
open GridModel GridTracks EvalBlock
variable {α : Type} [Num α]

/-- the immutable part of a grid item -/
def frame (it : GItem α) : GItem α :=
  { it with baseline := none, baselineShim := 0, availableSpaceCache := none,
            minContentContributionCache := Size.none, minimumContributionCache := Size.none,
            maxContentContributionCache := Size.none, yPosition := 0, height := 0 }

/-- number of empty contribution caches in axis `ax` -/
def pot (ax : Ax) (it : GItem α) : Nat :=
  (if (sget it.minContentContributionCache ax).isNone then 1 else 0) +
  (if (sget it.maxContentContributionCache ax).isNone then 1 else 0)

theorem pot_le_two (ax : Ax) (it : GItem α) : pot ax it ≤ 2 := by
  unfold pot; split <;> split <;> omega

/-- same frame, same number of empty caches in both axes -/
def Same (it it' : GItem α) : Prop := frame it' = frame it ∧ ∀ ax, pot ax it' = pot ax it

/-- same frame, same number of empty caches in the OTHER axis -/
def Upd (ax : Ax) (it it' : GItem α) : Prop := frame it' = frame it ∧ pot ax.other it' = pot ax.other it

theorem Same.refl (it : GItem α) : Same it it := ⟨rfl, fun _ => rfl⟩
theorem Upd.refl (ax : Ax) (it : GItem α) : Upd ax it it := ⟨rfl, rfl⟩
theorem Same.upd {it it' : GItem α} (ax : Ax) (h : Same it it') : Upd ax it it' := ⟨h.1, h.2 _⟩
theorem Upd.trans {ax : Ax} {a b c : GItem α} (h1 : Upd ax a b) (h2 : Upd ax b c) : Upd ax a c :=
  ⟨h2.1.trans h1.1, h2.2.trans h1.2⟩
theorem Same.trans {a b c : GItem α} (h1 : Same a b) (h2 : Same b c) : Same a c :=
  ⟨h2.1.trans h1.1, fun ax => (h2.2 ax).trans (h1.2 ax)⟩

/-! ### `Op`: programs that spend a potential -/

/-- `p` transforms a state `x : σ` (an item, a list of items; `π` extracts the new state from the result) spending at
most `φ x − φ x' + k` child calls: started with a budget of `φ x + k + s` calls it never exceeds it, never assigns a
layout, and every non-panicking run returns `r` with `U x (π r)` and at least `φ (π r) + s` calls of the budget left -/
def Op {σ β : Type} (U : σ → σ → Prop) (φ : σ → Nat) (k : Nat) (x : σ) (π : β → σ) (p : GM α β) : Prop :=
  ∀ s, GMeas (fun m r => U x (π r) ∧ φ (π r) + s ≤ m) (φ x + k + s) p

section op
variable {σ β γ : Type} (U : σ → σ → Prop) (φ : σ → Nat)

theorem Op_pure (x : σ) (π : β → σ) (b : β) (k : Nat) (hu : U x (π b)) (hp : φ (π b) ≤ φ x + k) :
    Op U φ k x π (pure b : GM α β) :=
  fun s => GMeas_pure _ _ _ ⟨hu, by omega⟩

theorem Op_throw (x : σ) (π : β → σ) (k : Nat) (e : String) : Op U φ k x π (throw e : GM α β) :=
  fun s => GMeas_throw _ _ _

theorem Op_bind (htrans : ∀ a b c, U a b → U b c → U a c) (x : σ) (π : β → σ) (π' : γ → σ) (k1 k2 : Nat) (p : GM α β)
    (f : β → GM α γ) (hp : Op U φ k1 x π p) (hf : ∀ b, U x (π b) → Op U φ k2 (π b) π' (f b)) :
    Op U φ (k1 + k2) x π' (p >>= f) := by
  intro s
  have h1 := hp (k2 + s)
  rw [show φ x + k1 + (k2 + s) = φ x + (k1 + k2) + s by omega] at h1
  refine GMeas_bind _ _ _ _ _ h1 fun m b ⟨hu, hm⟩ => ?_
  have h2 := hf b hu (s + (m - (φ (π b) + (k2 + s))))
  have e : φ (π b) + k2 + (s + (m - (φ (π b) + (k2 + s)))) = m := by omega
  rw [e] at h2
  refine GMeas_mono _ _ _ _ ?_ h2
  intro m' r ⟨hu', hm'⟩
  exact ⟨htrans _ _ _ hu hu', by omega⟩

theorem Op_ite {c : Prop} [Decidable c] (x : σ) (π : β → σ) (k : Nat) (p q : GM α β)
    (hp : Op U φ k x π p) (hq : Op U φ k x π q) : Op U φ k x π (if c then p else q) := by
  split <;> assumption

/-- more extra calls allowed -/
theorem Op_weaken (x : σ) (π : β → σ) (k k' : Nat) (p : GM α β) (h : k ≤ k') (hp : Op U φ k x π p) :
    Op U φ k' x π p := by
  intro s
  have := hp (k' - k + s)
  rw [show φ x + k + (k' - k + s) = φ x + k' + s by omega] at this
  exact GMeas_mono _ _ _ _ (fun m r ⟨hu, hm⟩ => ⟨hu, by omega⟩) this

/-- a weaker relation -/
theorem Op_rel (U' : σ → σ → Prop) (hUU : ∀ a b, U a b → U' a b) (x : σ) (π : β → σ) (k : Nat) (p : GM α β)
    (hp : Op U φ k x π p) : Op U' φ k x π p :=
  fun s => GMeas_mono _ _ _ _ (fun m r ⟨hu, hm⟩ => ⟨hUU _ _ hu, hm⟩) (hp s)

theorem Op_GCalls (x : σ) (π : β → σ) (k : Nat) (p : GM α β) (hp : Op U φ k x π p) : GCalls (φ x + k) p := by
  have := GMeas_GCalls _ _ _ (hp 0)
  rwa [Nat.add_zero] at this

theorem Op_GPost (x : σ) (π : β → σ) (k : Nat) (p : GM α β) (hp : Op U φ k x π p) : GPost (fun r => U x (π r)) p :=
  GPost_mono _ _ _ (fun r ⟨m, hu, _⟩ => hu) (GMeas_GPost _ _ _ (hp 0))

end op

/-- cached contribution query of `it` in axis `ax` (the item of the result is `π r`) -/
abbrev COp {β : Type} (ax : Ax) (it : GItem α) (π : β → GItem α) (p : GM α β) : Prop :=
  Op (Upd ax) (pot ax) 0 it π p

theorem COp_pure {β : Type} (ax : Ax) (it : GItem α) (π : β → GItem α) (b : β) (hu : Upd ax it (π b))
    (hp : pot ax (π b) ≤ pot ax it) : COp ax it π (pure b : GM α β) :=
  Op_pure _ _ _ _ _ _ hu (by omega)

theorem COp_throw {β : Type} (ax : Ax) (it : GItem α) (π : β → GItem α) (e : String) :
    COp ax it π (throw e : GM α β) :=
  Op_throw _ _ _ _ _ _

theorem COp_bind {β γ : Type} (ax : Ax) (it : GItem α) (π : β → GItem α) (π' : γ → GItem α) (p : GM α β)
    (f : β → GM α γ) (hp : COp ax it π p) (hf : ∀ b, Upd ax it (π b) → COp ax (π b) π' (f b)) :
    COp ax it π' (p >>= f) :=
  Op_bind (Upd ax) (pot ax) (fun _ _ _ => Upd.trans) it π π' 0 0 p f hp hf

theorem COp_ite {β : Type} {c : Prop} [Decidable c] (ax : Ax) (it : GItem α) (π : β → GItem α) (p q : GM α β)
    (hp : COp ax it π p) (hq : COp ax it π q) : COp ax it π (if c then p else q) := by
  split <;> assumption

/-! ### the available-space cache -/

theorem availableSpaceCached_same (it : GItem α) (axis : Ax) (ts : List (GridTrack α)) (o : Option α) (e : Estimate) :
    Same it (it.availableSpaceCached axis ts o e).2 := by
  unfold GItem.availableSpaceCached
  split
  · exact Same.refl it
  · exact ⟨rfl, fun _ => rfl⟩

theorem sizer_availableSpace_same (s : Sizer α) (it : GItem α) : Same it (s.availableSpace it).2 :=
  availableSpaceCached_same it _ _ _ _

/-! ### the contribution caches -/

theorem sget_sset_self {β : Type} (s : Size β) (ax : Ax) (v : β) : sget (sset s ax v) ax = v := by cases ax <;> rfl
theorem sget_sset_other {β : Type} (s : Size β) (ax : Ax) (v : β) : sget (sset s ax v) ax.other = sget s ax.other := by
  cases ax <;> rfl

theorem other_other (ax : Ax) : ax.other.other = ax := by cases ax <;> rfl

theorem COp_minContentContributionCached (ax : Ax) (it : GItem α) (av inner : Size (Option α)) :
    COp ax it (·.2) (it.minContentContributionCached ax av inner) := by
  unfold GItem.minContentContributionCached
  split
  · exact COp_pure ax it _ _ (Upd.refl _ _) (Nat.le_refl _)
  · rename_i hnone
    intro s
    unfold GItem.minContentContribution
    have e : pot ax it + 0 + s = (pot ax it - 1 + s) + 1 := by
      have : 1 ≤ pot ax it := by unfold pot; rw [hnone]; simp
      omega
    rw [e]
    refine GMeas_bind (fun m _ => m = pot ax it - 1 + s) _ _ _ _ ?_ fun m v hm => ?_
    · exact GMeas_bind (fun m _ => m = pot ax it - 1 + s) _ _ _ _ (GMeas_call _ _ _ _ fun _ => rfl) fun m o hm =>
        GMeas_pure _ _ _ hm
    · subst hm
      refine GMeas_pure _ _ _ ⟨⟨rfl, ?_⟩, ?_⟩
      · simp only [pot, sget_sset_other]
      · simp only [pot, sget_sset_self, hnone]
        simp

theorem COp_maxContentContributionCached (ax : Ax) (it : GItem α) (av inner : Size (Option α)) :
    COp ax it (·.2) (it.maxContentContributionCached ax av inner) := by
  unfold GItem.maxContentContributionCached
  split
  · exact COp_pure ax it _ _ (Upd.refl _ _) (Nat.le_refl _)
  · rename_i hnone
    intro s
    unfold GItem.maxContentContribution
    have e : pot ax it + 0 + s = (pot ax it - 1 + s) + 1 := by
      have : 1 ≤ pot ax it := by unfold pot; rw [hnone]; simp
      omega
    rw [e]
    refine GMeas_bind (fun m _ => m = pot ax it - 1 + s) _ _ _ _ ?_ fun m v hm => ?_
    · exact GMeas_bind (fun m _ => m = pot ax it - 1 + s) _ _ _ _ (GMeas_call _ _ _ _ fun _ => rfl) fun m o hm =>
        GMeas_pure _ _ _ hm
    · subst hm
      refine GMeas_pure _ _ _ ⟨⟨rfl, ?_⟩, ?_⟩
      · simp only [pot, sget_sset_other]
      · simp only [pot, sget_sset_self, hnone]
        simp

theorem COp_of_same {β : Type} {ax : Ax} {it it1 : GItem α} {π : β → GItem α} {p : GM α β} (hs : Same it it1)
    (hp : COp ax it1 π p) : COp ax it π p := by
  intro s
  rw [← hs.2 ax]
  exact GMeas_mono _ _ _ _ (fun m r ⟨hu, hm⟩ => ⟨(hs.upd ax).trans hu, hm⟩) (hp s)

/-! ### `IntrisicSizeMeasurer` -/

theorem COp_sizer_minContent (s : Sizer α) (it : GItem α) : COp s.axis it (·.2) (s.minContentContribution it) := by
  unfold Sizer.minContentContribution
  have hs := sizer_availableSpace_same s it
  generalize s.availableSpace it = r at hs ⊢
  obtain ⟨av, it1⟩ := r
  simp only []
  refine COp_of_same hs ?_
  refine COp_bind _ _ (·.2) _ _ _ (COp_minContentContributionCached _ _ _ _) fun ⟨c, it2⟩ hu => ?_
  exact COp_pure _ _ _ _ (Upd.refl _ _) (Nat.le_refl _)

theorem COp_sizer_maxContent (s : Sizer α) (it : GItem α) : COp s.axis it (·.2) (s.maxContentContribution it) := by
  unfold Sizer.maxContentContribution
  have hs := sizer_availableSpace_same s it
  generalize s.availableSpace it = r at hs ⊢
  obtain ⟨av, it1⟩ := r
  simp only []
  refine COp_of_same hs ?_
  refine COp_bind _ _ (·.2) _ _ _ (COp_maxContentContributionCached _ _ _ _) fun ⟨c, it2⟩ hu => ?_
  exact COp_pure _ _ _ _ (Upd.refl _ _) (Nat.le_refl _)

theorem COp_minimumContribution (ax : Ax) (it : GItem α) (ts : List (GridTrack α)) (kd inner : Size (Option α)) :
    COp ax it (·.2) (it.minimumContribution ax ts kd inner) := by
  unfold GItem.minimumContribution
  simp only []
  refine COp_bind _ _ (·.2) _ _ _ ?_ fun ⟨c, it2⟩ hu => COp_pure _ _ _ _ (Upd.refl _ _) (Nat.le_refl _)
  split
  · exact COp_pure _ _ _ _ (Upd.refl _ _) (Nat.le_refl _)
  · split
    · refine COp_bind _ _ (·.2) _ _ _ (COp_minContentContributionCached _ _ _ _) fun ⟨c, it2⟩ hu => ?_
      simp only []
      split <;> exact COp_pure _ _ _ _ (Upd.refl _ _) (Nat.le_refl _)
    · exact COp_pure _ _ _ _ (Upd.refl _ _) (Nat.le_refl _)

theorem COp_minimumContributionCached (ax : Ax) (it : GItem α) (ts : List (GridTrack α)) (kd inner : Size (Option α)) :
    COp ax it (·.2) (it.minimumContributionCached ax ts kd inner) := by
  unfold GItem.minimumContributionCached
  split
  · exact COp_pure _ _ _ _ (Upd.refl _ _) (Nat.le_refl _)
  · refine COp_bind _ _ (·.2) _ _ _ (COp_minimumContribution _ _ _ _ _) fun ⟨c, it2⟩ hu => ?_
    exact COp_pure _ _ _ _ ⟨rfl, rfl⟩ (Nat.le_refl _)

theorem COp_sizer_minimum (s : Sizer α) (it : GItem α) (ts : List (GridTrack α)) :
    COp s.axis it (·.2) (s.minimumContribution it ts) := by
  unfold Sizer.minimumContribution
  have hs := sizer_availableSpace_same s it
  generalize s.availableSpace it = r at hs ⊢
  obtain ⟨av, it1⟩ := r
  simp only []
  refine COp_of_same hs ?_
  refine COp_bind _ _ (·.2) _ _ _ (COp_minimumContributionCached _ _ _ _ _) fun ⟨c, it2⟩ hu => ?_
  exact COp_pure _ _ _ _ (Upd.refl _ _) (Nat.le_refl _)

end EvalGrid
