/-
  C08 for the WHOLE grid program: the grid items that `compute_grid_layout` (Model/Grid.lean) sizes and positions carry the
  areas that `place_grid_items` recorded for the in-flow children, so the theorems of Props/C08.lean (about the placement
  model) hold of the program's item list — on every run that reaches the observation point of Props/C09Grid.lean (the state
  after `align_tracks`), for every style, child styles, input and oracle.

  The program calls `place_grid_items` on the in-flow children with their indices in the child list (`inFlowOf`), starting
  from the occupancy matrix of the size estimate over the box-generating children that are not absolutely positioned
  (`boxChildrenOf`; absolutely positioned ones were included before the repair of finding 10); the invariants of Lemmas/GridPlacement*.lean hold for any start matrix and any indexed
  child list, which is what is used here (`GridPlacement.run`, the subject of Props/C08.lean, is the special case of a child
  list without hidden or absolutely positioned children).
-/
import TaffyVerif.Props.C09Grid
import TaffyVerif.Props.C08

set_option linter.unusedSectionVars false
set_option linter.unusedVariables false

namespace C08Grid
open GridModel GridTracks EvalGrid EvalBlock GridLift C09Grid

/-- the placement input of child `c` -/
def childOf (c : GridChildStyle Rat) : GridPlacement.Child := ⟨c.gridRow, c.gridColumn⟩

/-- the grid item `it` carries the area of the placement record `p` -/
def Carries (it : GItem Rat) (p : GridPlacement.Item) : Prop :=
  it.node = p.index ∧ it.column = p.column ∧ it.row = p.row

theorem frame_fields {a b : GItem Rat} (h : frame a = frame b) :
    a.node = b.node ∧ a.column = b.column ∧ a.row = b.row :=
  ⟨(congrArg GItem.node h : (frame a).node = (frame b).node),
   (congrArg GItem.column h : (frame a).column = (frame b).column),
   (congrArg GItem.row h : (frame a).row = (frame b).row)⟩

theorem mem_inFlowOf {cs : List (GridChildStyle Rat)} {i : Nat} {ch : GridPlacement.Child}
    (h : (i, ch) ∈ inFlowOf cs) : ∃ c, cs[i]? = some c ∧ ch = childOf c ∧
      c.base.isHidden = false ∧ (c.base.position != .absolute) = true := by
  unfold inFlowOf at h
  obtain ⟨ic, hic, e⟩ := List.mem_map.1 h
  obtain ⟨hmem, hf⟩ := List.mem_filter.1 hic
  obtain ⟨_, hget⟩ := GridPlacement.mem_enumFrom hmem
  simp only [Prod.mk.injEq] at e
  obtain ⟨e1, e2⟩ := e
  subst e1
  simp only [Bool.and_eq_true, Bool.not_eq_true'] at hf
  exact ⟨ic.2, by simpa using hget, e2.symm, hf.1, hf.2⟩

/-- what the final grid's item list has to do with the placement run -/
structure PlacedOK (style : GridStyle Rat) (cs : List (GridChildStyle Rat)) (inputs : LayoutInput Rat)
    (f : FinalGrid Rat) (ec er : Nat) (m0 : GridPlacement.Matrix) (placed : GridPlacement.State) : Prop where
  hec : computeExplicitGridSizeInAxis style.base.size.width style.base.maxSize.width style.base.gap.width
    style.gridTemplateColumns (mkCtx style.base inputs).autoFitContainerSize.width = .ok ec
  her : computeExplicitGridSizeInAxis style.base.size.height style.base.maxSize.height style.base.gap.height
    style.gridTemplateRows (mkCtx style.base inputs).autoFitContainerSize.height = .ok er
  wf : GridPlacement.MatrixWF m0
  mec : m0.columns.explicit = ec
  mer : m0.rows.explicit = er
  run : GridPlacement.placeGridItems GridPlacement.defaultFuel m0 (inFlowOf cs) style.gridAutoFlow = .ok placed
  cc : f.colCounts = placed.matrix.columns
  rc : f.rowCounts = placed.matrix.rows
  carries : ∀ it ∈ f.items, ∃ p ∈ placed.items, Carries it p
  nodes : (f.items.map (·.node)).Perm ((inFlowOf cs).map (·.1))

/-- **grid_items_placed_ok**: in every run of `compute_grid_layout` that reaches the observation point, the items handed to
track sizing and positioning are the in-flow children — each exactly once — and each carries the area that the program's
`place_grid_items` run (on the in-flow children, from the estimate's matrix) recorded for it; the reported track counts are
the final counts of that run. -/
theorem grid_items_placed_ok (style : GridStyle Rat) (cs : List (GridChildStyle Rat)) (inputs : LayoutInput Rat)
    (orc : Nat → LayoutInput Rat → LayoutOutput Rat) (f : FinalGrid Rat) (h : FinalOf style cs inputs orc f) :
    ∃ ec er m0 placed, PlacedOK style cs inputs f ec er m0 placed := by
  obtain ⟨su, d, hok, hf⟩ := final_spec h
  have hest := hok.hest
  simp only [GridPlacement.computeGridSizeEstimate, GridPlacement.bind_eq, GridPlacement.bind_eq_ok,
    GridPlacement.pure_eq, GridPlacement.Outcome.ok.injEq, Prod.mk.injEq] at hest
  obtain ⟨k, _, cols, hc, rows, hr, e1, e2⟩ := hest
  obtain ⟨wf, hmc, hmr, _⟩ := GridPlacement.withTrackCounts_wf hok.hm0
  have hg := setup_good style cs inputs su d hok (placed_nonempty hok.hplaced)
  refine ⟨d.ec, d.er, d.m0, d.placed, hok.hec, hok.her, wf, ?_, ?_, hok.hplaced, by rw [hf.cc, hok.hcc],
    by rw [hf.rc, hok.hrc], ?_, ?_⟩
  · rw [hmc, ← e1]; exact estimateAxis_explicit hc
  · rw [hmr, ← e2]; exact estimateAxis_explicit hr
  · intro it hit
    obtain ⟨x, hx, e⟩ := FP_mem hf.inv.fp it hit
    obtain ⟨_, _, y, ⟨p, hp, a0, a1, a2⟩, b0, b1, b2⟩ := hg x hx
    obtain ⟨c0, c1, c2⟩ := frame_fields e
    exact ⟨p, hp, by rw [c0, b0, a0], by rw [c1, b1, a1], by rw [c2, b2, a2]⟩
  · refine (hf.inv.fp.nodes).trans ?_
    rw [hok.hitems, determineCrossings_nodes, resolveItemTrackIndexes_nodes _ _ _ _ hok.hidx, itemsOf_nodes,
      List.map_reverse]
    exact (List.reverse_perm _).trans (placeGridItems_indices hok.hplaced)

/-- **grid_item_areas_nonempty_in_range** (`C08.area_nonempty_in_range` for the program's item list): every grid item
spans at least one track in each axis, inside the reported track counts of both axes -/
theorem grid_item_areas_nonempty_in_range (style : GridStyle Rat) (cs : List (GridChildStyle Rat))
    (inputs : LayoutInput Rat) (orc : Nat → LayoutInput Rat → LayoutOutput Rat) (f : FinalGrid Rat)
    (h : FinalOf style cs inputs orc f) :
    ∀ it ∈ f.items, it.column.start < it.column.end ∧ it.row.start < it.row.end ∧
      -f.colCounts.negativeImplicit ≤ it.column.start ∧
        it.column.end ≤ f.colCounts.explicit + f.colCounts.positiveImplicit ∧
      -f.rowCounts.negativeImplicit ≤ it.row.start ∧ it.row.end ≤ f.rowCounts.explicit + f.rowCounts.positiveImplicit := by
  obtain ⟨ec, er, m0, placed, hp⟩ := grid_items_placed_ok style cs inputs orc f h
  intro it hit
  obtain ⟨p, hpm, e0, e1, e2⟩ := hp.carries it hit
  obtain ⟨l1, l2⟩ := placed_nonempty hp.run p hpm
  obtain ⟨⟨c1, c2⟩, ⟨r1, r2⟩⟩ := (GridPlacement.invB_final hp.run).inRange p hpm
  rw [e1, e2, hp.cc, hp.rc]
  exact ⟨l1, l2, c1, c2, r1, r2⟩

/-- **grid_item_lines_honoured** (`C08.explicit_lines_honoured`): every grid item belongs to an in-flow child of the
container, and its area is, in each axis, what that child's `grid-row` / `grid-column` asks for against the explicit track
count of the axis (`axisHonoured`: a definite axis fixes both lines — see `C08.start_line_exact`, `end_line_exact`,
`both_lines_boundaries` — an indefinite one the number of tracks) -/
theorem grid_item_lines_honoured (style : GridStyle Rat) (cs : List (GridChildStyle Rat)) (inputs : LayoutInput Rat)
    (orc : Nat → LayoutInput Rat → LayoutOutput Rat) (f : FinalGrid Rat) (h : FinalOf style cs inputs orc f) :
    ∀ it ∈ f.items, ∃ c, cs[it.node]? = some c ∧ c.base.isHidden = false ∧ (c.base.position != .absolute) = true ∧
      GridPlacement.axisHonoured c.gridRow f.rowCounts.explicit it.row = true ∧
      GridPlacement.axisHonoured c.gridColumn f.colCounts.explicit it.column = true := by
  obtain ⟨ec, er, m0, placed, hp⟩ := grid_items_placed_ok style cs inputs orc f h
  have inv := GridPlacement.invB_final hp.run
  intro it hit
  obtain ⟨p, hpm, e0, e1, e2⟩ := hp.carries it hit
  obtain ⟨ch, oc, hfc, hidx, hc, hr⟩ := inv.honoured p hpm
  obtain ⟨c, hget, hch, hh, ha⟩ := mem_inFlowOf hfc.1
  have hcc : f.colCounts.explicit = m0.columns.explicit := by rw [hp.cc]; exact inv.growsC.exp
  have hrc : f.rowCounts.explicit = m0.rows.explicit := by rw [hp.rc]; exact inv.growsR.exp
  refine ⟨c, by rw [e0, ← hidx]; exact hget, hh, ha, ?_, ?_⟩
  · rw [GridPlacement.axisHonoured_iff, e2, hrc]
    subst hch
    exact ⟨_, hfc.2.2, hr⟩
  · rw [GridPlacement.axisHonoured_iff, e1, hcc]
    subst hch
    exact ⟨_, hfc.2.1, hc⟩

/-- **grid_auto_items_disjoint** (`C08.auto_items_disjoint`): the area of an auto-placed grid item (its child is not
definite in both axes) shares no cell with the area of any other grid item -/
theorem grid_auto_items_disjoint (style : GridStyle Rat) (cs : List (GridChildStyle Rat)) (inputs : LayoutInput Rat)
    (orc : Nat → LayoutInput Rat → LayoutOutput Rat) (f : FinalGrid Rat) (h : FinalOf style cs inputs orc f) :
    ∀ a ∈ f.items, ∀ b ∈ f.items, a.node ≠ b.node →
      ∀ ca, cs[a.node]? = some ca → GridPlacement.isAutoPlaced (childOf ca) = true →
        ∀ r c, GridPlacement.InArea a.row a.column r c → ¬ GridPlacement.InArea b.row b.column r c := by
  obtain ⟨ec, er, m0, placed, hp⟩ := grid_items_placed_ok style cs inputs orc f h
  have inv := GridPlacement.invC_final hp.wf hp.run
  intro a ha b hb hne ca hca hauto
  obtain ⟨p, hpm, a0, a1, a2⟩ := hp.carries a ha
  obtain ⟨q, hqm, b0, b1, b2⟩ := hp.carries b hb
  -- the model-only flag of `p` says that its child is auto-placed
  obtain ⟨ch, hch, hflag⟩ := inv.autoFlag p hpm
  obtain ⟨c', hget', hch', _, _⟩ := mem_inFlowOf hch
  have hpauto : p.auto = true := by
    rw [hflag, hch']
    rw [← a0, hca] at hget'
    cases hget'
    exact hauto
  have hpq : p ≠ q := fun e => hne (by rw [a0, b0, e])
  obtain ⟨i, hi, rfl⟩ := List.mem_iff_getElem.1 hpm
  obtain ⟨j, hj, rfl⟩ := List.mem_iff_getElem.1 hqm
  have hij : i ≠ j := fun e => hpq (by subst e; rfl)
  have hpw := List.pairwise_iff_getElem.1 inv.pairwise
  rw [a1, a2, b1, b2]
  rcases Nat.lt_or_gt_of_ne hij with hlt | hgt
  · -- `placed.items` is newest first: `p` is newer than `q`
    exact (hpw i j hi hj hlt).1 hpauto
  · have := hpw j i hj hi hgt
    intro r c h1 h2
    exact this.1 (this.2 hpauto) r c h2 h1

/-! ### example: the four auto-placed items of `C09Grid.exGrid` and a grid with definite and automatic items -/

/-- the areas (node, column lines, row lines) of the final grid's items and the reported counts -/
def areasOf (r : Except String (LayoutOutput Rat ⊕ FinalGrid Rat)) :
    Option (List (Nat × (Int × Int) × (Int × Int)) × GridPlacement.TrackCounts × GridPlacement.TrackCounts) :=
  match r with
  | .ok (.inr f) => some (f.items.map fun it => (it.node, (it.column.start, it.column.end), (it.row.start, it.row.end)),
      f.colCounts, f.rowCounts)
  | _ => none

/-- child 0: `grid-column: 3`; child 1: hidden; child 2: automatic, 2 columns wide; child 3: absolutely positioned;
child 4: automatic -/
def plItems : List (Style Rat) :=
  [{ exItem with grid := { column := ⟨.line 3, .auto⟩ } },
   { exItem with display := .none },
   { exItem with grid := { column := ⟨.auto, .span 2⟩ } },
   { exItem with position := .absolute },
   exItem]

/-- three grid items (children 0, 2, 4; the list is in track-sizing order: by span) in a 3 × 2 grid: child 0 in column 3
(lines 2–3) of row 1; under the sparse row flow the cursor is then past columns 1–2 of row 1, so child 2 takes columns 1–2 of
the implicit row 2 and child 4 column 3 of row 2; no two overlap, all lie inside the reported counts -/
example : areasOf (runWith exOrc (run (gridFinalM (GridStyle.ofStyle exGrid) (plItems.map GridChildStyle.ofStyle)
      exInput)))
    = some ([(0, (2, 3), (0, 1)), (4, (2, 3), (1, 2)), (2, (0, 2), (1, 2))], ⟨0, 3, 0⟩, ⟨0, 1, 1⟩) := by
  rw [gridFinalM_eq_K]
  decide +kernel

end C08Grid
