/-
  C04 and the per-node cache.  The homogeneity theorems (Props/C04*.lean) are stated on the cache-free evaluation and
  carried to the exact-key memo by C01's transparency theorems.  For the REAL nine-slot cache the statement is false:
  `AvailableSpace::is_roughly_equal` (src/style/available_space.rs, used by `Cache::get`) compares two definite available
  spaces with the ABSOLUTE tolerance `f32::EPSILON`, a length against a dimensionless constant.  Two available spaces that
  the cache tells apart at scale 1 are "roughly equal" at scale 2^-40, so a lookup that misses at one scale hits at the
  other (known finding c04-cache-absolute-epsilon; replayed on the implementation by the fixed C04 case
  `fixed:cache-absolute-epsilon-witness`).  What does hold: the rule IS invariant under every scale factor k ≥ 1 on inputs it
  tells apart (the difference only grows), and under every k > 0 on identical inputs.
-/
import TaffyVerif.Model.Cache
import Mathlib.Tactic.NormNum
import Mathlib.Tactic.Linarith
import Mathlib.Tactic.Ring

namespace C04Cache
open CacheModel

/-- the witness: 70.5 and 39.75 differ; scaled by 2^-40 they are within f32::EPSILON -/
theorem isRoughlyEqual_not_homogeneous :
    isRoughlyEqual (α := Rat) (.definite (141 / 2)) (.definite (159 / 4)) = false ∧
    isRoughlyEqual (α := Rat) (.definite (141 / 2 / 2 ^ 40)) (.definite (159 / 4 / 2 ^ 40)) = true := by
  constructor
  · simp only [isRoughlyEqual, Num.flt, Num.abs, Num.eps, RatNum.eps]; norm_num
  · simp only [isRoughlyEqual, Num.flt, Num.abs, Num.eps, RatNum.eps]; norm_num

/-- scaling both sides by the same k > 0 never changes the verdict on IDENTICAL definite values, and never on the two
content keywords -/
theorem isRoughlyEqual_scale_same (x k : Rat) :
    isRoughlyEqual (α := Rat) (.definite (k * x)) (.definite (k * x)) = isRoughlyEqual (α := Rat) (.definite x) (.definite x) := by
  simp only [isRoughlyEqual, Num.flt, Num.abs, Num.eps, RatNum.eps, sub_self]

/-- values the rule tells apart stay apart under every enlargement (k ≥ 1): `is_roughly_equal` is monotone in the scale -/
theorem isRoughlyEqual_apart_scale_up (x y k : Rat) (hk : 1 ≤ k)
    (h : isRoughlyEqual (α := Rat) (.definite x) (.definite y) = false) :
    isRoughlyEqual (α := Rat) (.definite (k * x)) (.definite (k * y)) = false := by
  simp only [isRoughlyEqual, Num.flt, Num.abs, Num.eps, RatNum.eps] at h ⊢
  have hk0 : (0 : Rat) < k := by linarith
  have h' : ¬ ((if x - y < 0 then -(x - y) else x - y) < 1 / 8388608) := of_decide_eq_false h
  apply decide_eq_false
  intro hc
  apply h'
  have e : k * x - k * y = k * (x - y) := by ring
  rw [e] at hc
  by_cases hn : x - y < 0
  · have hkn : k * (x - y) < 0 := mul_neg_of_pos_of_neg hk0 hn
    rw [if_pos hkn] at hc
    rw [if_pos hn]
    nlinarith
  · have h0 : 0 ≤ x - y := not_lt.mp hn
    have hkn : ¬ k * (x - y) < 0 := not_lt.mpr (mul_nonneg hk0.le h0)
    rw [if_neg hkn] at hc
    rw [if_neg hn]
    nlinarith

example : isRoughlyEqual (α := Rat) (.definite 1) (.definite 2) = false := by
  simp only [isRoughlyEqual, Num.flt, Num.abs, Num.eps, RatNum.eps]; norm_num

end C04Cache
