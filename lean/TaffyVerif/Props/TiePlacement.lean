/-
  Tie (tier T) for grid item placement: src/compute/grid/types/cell_occupancy.rs, src/compute/grid/placement.rs,
  src/compute/grid/implicit_grid.rs (+ the helpers of geometry.rs, style/grid.rs, grid_track_counts.rs they call).

  `Gen.Placement.*` is regenerated from the Rust source on every run (extract/src/placement.rs on top of gridint.rs: machine
  integers ↦ `Int`, every arithmetic operation and `as` cast checked in `Outcome` in Rust's evaluation order, mutation ↦ shadowing,
  `for` ↦ `Occ.forM`, `loop` ↦ `Occ.loop` under the model's fuel, the `grid` crate's `Grid` ↦ `GridPlacement.Grid`); each theorem
  states that the generated definition IS the hand-written one of Model/GridPlacement.lean, for all arguments (in range or not).
-/
import TaffyVerif.Generated.Placement
import TaffyVerif.Props.TieGrid
import TaffyVerif.Model.Grid

namespace TiePlacement
open GridPlacement TieGrid

/-! ### helpers of geometry.rs, style/grid.rs, grid_track_counts.rs -/

theorem other_axis_eq : Gen.Placement.AbsoluteAxis.other_axis = Axis.other := by
  funext a; cases a <;> rfl

theorem is_dense_eq : Gen.Placement.GridAutoFlow.is_dense = AutoFlow.isDense := by
  funext a; cases a <;> rfl

theorem primary_axis_eq : Gen.Placement.GridAutoFlow.primary_axis = AutoFlow.primaryAxis := by
  funext a; cases a <;> rfl

/-- `InBothAbsAxis::get` on the two placements of a child -/
theorem in_both_get_eq (c : OzChild) (a : Axis) :
    Gen.Placement.InBothAbsAxis.get ⟨c.horizontal, c.vertical⟩ a = c.get a := by
  cases a <;> rfl

theorem grid_placement_eq : Gen.Placement.GridItemStyle.grid_placement = Child.gridPlacement := by
  funext c a; cases a <;> rfl

theorem from_raw_eq : Gen.Placement.TrackCounts.from_raw = TrackCounts.mk := by
  funext a b c; rfl

theorem oz_line_range_to_track_range_eq :
    Gen.Placement.TrackCounts.oz_line_range_to_track_range = TrackCounts.ozLineRangeToTrackRange := by
  funext t l
  unfold Gen.Placement.TrackCounts.oz_line_range_to_track_range TrackCounts.ozLineRangeToTrackRange
  rw [oz_line_to_next_track_eq]

/-! ### cell_occupancy.rs -/

theorem track_counts_eq : Gen.Placement.CellOccupancyMatrix.track_counts = Matrix.trackCounts := by
  funext m a; cases a <;> rfl

theorem with_track_counts_eq : Gen.Placement.CellOccupancyMatrix.with_track_counts = Matrix.withTrackCounts := by
  funext c r
  unfold Gen.Placement.CellOccupancyMatrix.with_track_counts Matrix.withTrackCounts
  rw [track_counts_len_eq]
  rfl

theorem track_area_is_unoccupied_eq :
    Gen.Placement.CellOccupancyMatrix.track_area_is_unoccupied = Matrix.trackAreaIsUnoccupied := by
  funext m a p s
  unfold Gen.Placement.CellOccupancyMatrix.track_area_is_unoccupied Matrix.trackAreaIsUnoccupied
  cases a <;>
    (simp only [rowOf, colOf]
     congr 1; funext x; congr 1; funext y
     unfold Matrix.cellFree
     cases Grid.get m.inner x y with
     | none => rfl
     | some c => cases c <;> rfl)

theorem line_area_is_unoccupied_eq :
    Gen.Placement.CellOccupancyMatrix.line_area_is_unoccupied = Matrix.lineAreaIsUnoccupied := by
  funext m a p s
  unfold Gen.Placement.CellOccupancyMatrix.line_area_is_unoccupied Matrix.lineAreaIsUnoccupied
  rw [oz_line_range_to_track_range_eq, track_counts_eq, other_axis_eq, track_area_is_unoccupied_eq]

theorem last_of_type_eq : Gen.Placement.CellOccupancyMatrix.last_of_type = Matrix.lastOfType := by
  funext m a s k
  unfold Gen.Placement.CellOccupancyMatrix.last_of_type Matrix.lastOfType
  rw [oz_line_to_next_track_eq, track_counts_eq, other_axis_eq, track_to_prev_oz_line_eq]
  apply bind_congr'; intro idx
  cases a <;> dsimp only
  · cases Grid.iterRow m.inner idx with
    | ok cells =>
      simp only [Bind.bind, Outcome.bind, Pure.pure, Occ.rposition]
      cases rposition (fun c => c == k) cells <;> rfl
    | _ => rfl
  · cases Grid.iterCol m.inner idx with
    | ok cells =>
      simp only [Bind.bind, Outcome.bind, Pure.pure, Occ.rposition]
      cases rposition (fun c => c == k) cells <;> rfl
    | _ => rfl

/-! ### `is_area_in_range` (the translation found a model bug, since repaired)

The source tests `range.start < 0` BEFORE it computes `self.track_counts(axis).len() as i16` (short-circuiting `||`); the hand-written
`Matrix.isAreaInRange` used to compute the first length up front, so that the two differed when that length overflows although the
start test already answers `false` (witness: 65535 + 1 columns, range −1..0 — source `false`, old model `overflow`). The model now
follows the source's order and the equality holds for all arguments; the old witness is kept as a regression example. -/

theorem is_area_in_range_eq (m : Matrix) (ax : Axis) (p s : Line Int) :
    Gen.Placement.CellOccupancyMatrix.is_area_in_range m ax p s = m.isAreaInRange ax p s := by
  unfold Gen.Placement.CellOccupancyMatrix.is_area_in_range Matrix.isAreaInRange
  simp only [track_counts_eq, other_axis_eq, track_counts_len_eq]

/-- the old witness of the difference: both sides now answer `false` -/
theorem is_area_in_range_old_witness :
    Gen.Placement.CellOccupancyMatrix.is_area_in_range ⟨⟨[], 0, 0⟩, ⟨65535, 1, 0⟩, ⟨0, 0, 0⟩⟩ .horizontal ⟨-1, 0⟩ ⟨0, 0⟩ = .ok false ∧
    Matrix.isAreaInRange ⟨⟨[], 0, 0⟩, ⟨65535, 1, 0⟩, ⟨0, 0, 0⟩⟩ .horizontal ⟨-1, 0⟩ ⟨0, 0⟩ = .ok false := by
  constructor <;> decide

/-! ### placement.rs -/

theorem place_definite_grid_item_eq (c : OzChild) (a : Axis) :
    Gen.Placement.place_definite_grid_item ⟨c.horizontal, c.vertical⟩ a = placeDefiniteGridItem c a := by
  unfold Gen.Placement.place_definite_grid_item placeDefiniteGridItem
  rw [resolve_definite_grid_lines_eq, in_both_get_eq, in_both_get_eq, other_axis_eq]

/-- the `loop` of `place_definite_secondary_axis_item` is the model's `searchSecondary` (by induction on the fuel) -/
theorem loop_search_secondary (m : Matrix) (ax : Axis) (pl : Line Placement) (sec : Line Int)
    (step : Int → Outcome (Int ⊕ (Line Int × Line Int)))
    (hstep : ∀ pos, step pos = (resolveIndefiniteGridTracks pl pos >>= fun pap =>
      m.lineAreaIsUnoccupied ax pap sec >>= fun fits =>
        if fits then pure (Sum.inr (pap, sec)) else ozAdd pos 1 >>= fun t => pure (Sum.inl t))) :
    ∀ fuel pos, Occ.loop fuel pos step = searchSecondary m ax pl sec fuel pos := by
  intro fuel
  induction fuel with
  | zero => intro pos; rfl
  | succ n ih =>
    intro pos
    unfold Occ.loop searchSecondary
    rw [hstep]
    cases resolveIndefiniteGridTracks pl pos with
    | ok pap =>
      simp only [ok_bind']
      cases m.lineAreaIsUnoccupied ax pap sec with
      | ok fits =>
        simp only [ok_bind']
        cases fits with
        | true => rfl
        | false =>
          simp only [Bool.false_eq_true, if_false]
          cases ozAdd pos 1 with
          | ok t => exact ih t
          | _ => rfl
      | _ => rfl
    | _ => rfl

theorem place_definite_secondary_axis_item_eq (fuel : Nat) (m : Matrix) (c : OzChild) (flow : AutoFlow) :
    Gen.Placement.place_definite_secondary_axis_item fuel m ⟨c.horizontal, c.vertical⟩ flow
      = placeDefiniteSecondaryAxisItem fuel m c flow := by
  unfold Gen.Placement.place_definite_secondary_axis_item placeDefiniteSecondaryAxisItem
  simp only [primary_axis_eq, other_axis_eq, in_both_get_eq, resolve_definite_grid_lines_eq, implicit_start_line_eq,
    track_counts_eq, is_dense_eq, last_of_type_eq, resolve_indefinite_grid_tracks_eq, line_area_is_unoccupied_eq, oz_add_eq]
  apply bind_congr'; intro sec
  apply bind_congr'; intro startLine
  apply bind_congr'; intro st
  exact loop_search_secondary m _ _ sec _ (fun pos => rfl) fuel st

/-- first `loop` of `place_indefinitely_positioned_item` -/
theorem loop_search_fixed_primary (m : Matrix) (ax : Axis) (primary : Line Int) (span : Int)
    (step : Int → Outcome (Int ⊕ (Line Int × Line Int)))
    (hstep : ∀ s, step s = (ozAdd s span >>= fun e =>
      m.lineAreaIsUnoccupied ax primary ⟨s, e⟩ >>= fun free =>
        if (!free) then ozAdd s 1 >>= fun t => pure (Sum.inl t) else pure (Sum.inr (primary, ⟨s, e⟩)))) :
    ∀ fuel s, Occ.loop fuel s step = searchFixedPrimary m ax primary span fuel s := by
  intro fuel
  induction fuel with
  | zero => intro s; rfl
  | succ n ih =>
    intro s
    unfold Occ.loop searchFixedPrimary
    rw [hstep]
    cases ozAdd s span with
    | ok e =>
      simp only [ok_bind']
      cases m.lineAreaIsUnoccupied ax primary ⟨s, e⟩ with
      | ok free =>
        simp only [ok_bind']
        cases free with
        | true => rfl
        | false =>
          simp only [Bool.not_false, if_true]
          cases ozAdd s 1 with
          | ok t => exact ih t
          | _ => rfl
      | _ => rfl
    | _ => rfl

/-- second `loop` of `place_indefinitely_positioned_item`; the generated state is `(secondary_idx, primary_idx)` -/
theorem loop_search_both (m : Matrix) (ax : Axis) (pspan sspan startLine endLine : Int)
    (step : Int × Int → Outcome ((Int × Int) ⊕ (Line Int × Line Int)))
    (hstep : ∀ s p, step (s, p) = (ozAdd p pspan >>= fun pe => ozAdd s sspan >>= fun se =>
      if pe > endLine then ozAdd s 1 >>= fun t => pure (Sum.inl (t, startLine))
      else m.lineAreaIsUnoccupied ax ⟨p, pe⟩ ⟨s, se⟩ >>= fun free =>
        if (!free) then ozAdd p 1 >>= fun t => pure (Sum.inl (s, t)) else pure (Sum.inr (⟨p, pe⟩, ⟨s, se⟩)))) :
    ∀ fuel s p, Occ.loop fuel (s, p) step = searchBoth m ax pspan sspan startLine endLine fuel p s := by
  intro fuel
  induction fuel with
  | zero => intro s p; rfl
  | succ n ih =>
    intro s p
    unfold Occ.loop searchBoth
    rw [hstep]
    cases ozAdd p pspan with
    | ok pe =>
      simp only [ok_bind']
      cases ozAdd s sspan with
      | ok se =>
        simp only [ok_bind']
        by_cases hoob : pe > endLine
        · simp only [hoob, if_true]
          cases ozAdd s 1 with
          | ok t => exact ih t startLine
          | _ => rfl
        · simp only [hoob, if_false]
          cases m.lineAreaIsUnoccupied ax ⟨p, pe⟩ ⟨s, se⟩ with
          | ok free =>
            simp only [ok_bind']
            cases free with
            | true => rfl
            | false =>
              simp only [Bool.not_false, if_true]
              cases ozAdd p 1 with
              | ok t => exact ih s t
              | _ => rfl
          | _ => rfl
      | _ => rfl
    | _ => rfl

theorem place_indefinitely_positioned_item_eq (fuel : Nat) (m : Matrix) (c : OzChild) (flow : AutoFlow) (pos : Int × Int) :
    Gen.Placement.place_indefinitely_positioned_item fuel m ⟨c.horizontal, c.vertical⟩ flow pos
      = placeIndefinitelyPositionedItem fuel m c flow pos := by
  obtain ⟨p0, s0⟩ := pos
  unfold Gen.Placement.place_indefinitely_positioned_item placeIndefinitelyPositionedItem
  simp only [primary_axis_eq, other_axis_eq, in_both_get_eq, resolve_definite_grid_lines_eq, implicit_start_line_eq,
    implicit_end_line_eq, track_counts_eq, is_dense_eq, indefinite_span_eq, is_definite_oz_eq, line_area_is_unoccupied_eq, oz_add_eq]
  apply bind_congr'; intro sspan
  apply bind_congr'; intro startLine
  apply bind_congr'; intro endLine
  apply bind_congr'; intro sStart
  cases isDefiniteOz (c.get flow.primaryAxis) with
  | true =>
    simp only [if_true]
    apply bind_congr'; intro primary
    apply bind_congr'; intro st
    exact loop_search_fixed_primary m _ primary sspan _ (fun s => rfl) fuel st
  | false =>
    simp only [Bool.false_eq_true, if_false]
    apply bind_congr'; intro pspan
    exact loop_search_both m _ pspan sspan startLine endLine _ (fun s p => rfl) fuel s0 p0

/-! ### implicit_grid.rs -/

theorem child_min_line_max_line_span_eq :
    Gen.Placement.child_min_line_max_line_span = childMinLineMaxLineSpan := by
  funext l e
  unfold Gen.Placement.child_min_line_max_line_span childMinLineMaxLineSpan
  simp only [into_origin_zero_eq, oz_add_eq, oz_sub_eq, indefinite_span_eq]
  apply bind_congr'; intro oz
  obtain ⟨s, t⟩ := oz
  cases s <;> cases t <;> try rfl
  rename_i a b
  by_cases h : a = b
  · subst h; simp only [if_true]; rfl
  · simp only [h, if_false]; rfl

end TiePlacement
