/-
  C13 — Pixel rounding is integral, within one pixel, drift-free and seam-free.

  All theorems are about `RoundModel.roundLayout` / `RoundModel.step` (Model/Round.lean, a transliteration of
  `round_layout` in src/compute/mod.rs and of the rounding-related part of `TaffyTree`) at exact rationals, for **every**
  tree of unrounded layouts (any shape, any depth, any values, negative ones included) and every history of passes and
  toggles. A node is addressed by its path of child indices from the root; `t.get? p = some s` says that `s` is the
  subtree at path `p` of `t`.

  Vocabulary (Lemmas/Round.lean): `rnd` = Rust `f32::round` at rationals (half away from zero), `IsInt q`, `IsHalf q`
  (`q = n + 1/2`), `off ax t p` = sum of the locations of the proper ancestors of the node at `p`.
-/
import TaffyVerif.Lemmas.Round

namespace C13
open RoundModel RoundLemmas

/-! ## 1. Integrality -/

/-- every field that `round_layout` rounds is a whole number (`order` and `margin` are copied, not rounded) -/
structure Integral (r : Layout Rat) : Prop where
  location_x : IsInt r.location.x
  location_y : IsInt r.location.y
  width : IsInt r.size.width
  height : IsInt r.size.height
  content_width : IsInt r.contentSize.width
  content_height : IsInt r.contentSize.height
  scrollbar_width : IsInt r.scrollbarSize.width
  scrollbar_height : IsInt r.scrollbarSize.height
  border_left : IsInt r.border.left
  border_right : IsInt r.border.right
  border_top : IsInt r.border.top
  border_bottom : IsInt r.border.bottom
  padding_left : IsInt r.padding.left
  padding_right : IsInt r.padding.right
  padding_top : IsInt r.padding.top
  padding_bottom : IsInt r.padding.bottom

theorem roundNode_integral (u : Layout Rat) (cx cy : Rat) : Integral (roundNode u cx cy) := by
  constructor <;> first | exact rnd_isInt _ | exact (rnd_isInt _).sub (rnd_isInt _)

/-- **rounded_integral**: every node of the rounded tree has integral location, size, content size, scrollbar size,
    border and padding -/
theorem rounded_integral (t : LTree Rat) (p : List Nat) (r : LTree Rat)
    (hr : (roundLayout t).get? p = some r) : Integral r.layout := by
  have hs : (t.get? p).isSome = true := by rw [← get?_roundLayout_isSome, hr]; rfl
  obtain ⟨s, hs⟩ := Option.isSome_iff_exists.mp hs
  rw [layout_at t p s r hs hr]
  exact roundNode_integral _ _ _

/-- paths address **every** node: each layout of the preorder listing of a tree (what `round_layout_inner` visits, what the
    correspondence run prints) is the layout of the subtree at some path — so the path-indexed theorems below and above
    speak about all nodes -/
theorem every_node_has_a_path (t : LTree Rat) (l : Layout Rat) (h : l ∈ t.flatten) :
    ∃ p s, t.get? p = some s ∧ s.layout = l := mem_flatten t l h

/-- `rounded_integral` in list form: every layout `round_layout` writes is integral -/
theorem rounded_integral_all (t : LTree Rat) (l : Layout Rat) (h : l ∈ (roundLayout t).flatten) : Integral l := by
  obtain ⟨p, r, hr, rfl⟩ := every_node_has_a_path _ l h
  exact rounded_integral t p r hr

/-! ## 2. Within one pixel -/

/-- rounded `r` against unrounded `u`: extents computed as differences of rounded edges move by at most one pixel,
    directly rounded fields by at most half a pixel -/
structure Within (r u : Layout Rat) : Prop where
  location_x : |r.location.x - u.location.x| ≤ 1 / 2
  location_y : |r.location.y - u.location.y| ≤ 1 / 2
  width : |r.size.width - u.size.width| ≤ 1
  height : |r.size.height - u.size.height| ≤ 1
  content_width : |r.contentSize.width - u.contentSize.width| ≤ 1
  content_height : |r.contentSize.height - u.contentSize.height| ≤ 1
  scrollbar_width : |r.scrollbarSize.width - u.scrollbarSize.width| ≤ 1 / 2
  scrollbar_height : |r.scrollbarSize.height - u.scrollbarSize.height| ≤ 1 / 2
  border_left : |r.border.left - u.border.left| ≤ 1
  border_right : |r.border.right - u.border.right| ≤ 1
  border_top : |r.border.top - u.border.top| ≤ 1
  border_bottom : |r.border.bottom - u.border.bottom| ≤ 1
  padding_left : |r.padding.left - u.padding.left| ≤ 1
  padding_right : |r.padding.right - u.padding.right| ≤ 1
  padding_top : |r.padding.top - u.padding.top| ≤ 1
  padding_bottom : |r.padding.bottom - u.padding.bottom| ≤ 1
  order : r.order = u.order
  margin : r.margin = u.margin

theorem roundNode_within (u : Layout Rat) (cx cy : Rat) : Within (roundNode u cx cy) u :=
  { location_x := rnd_within_half _
    location_y := rnd_within_half _
    width := near_extent_within _ _
    height := near_extent_within _ _
    content_width := near_extent_within _ _
    content_height := near_extent_within _ _
    scrollbar_width := rnd_within_half _
    scrollbar_height := rnd_within_half _
    border_left := near_extent_within _ _
    border_right := far_extent_within _ _
    border_top := near_extent_within _ _
    border_bottom := far_extent_within _ _
    padding_left := near_extent_within _ _
    padding_right := far_extent_within _ _
    padding_top := near_extent_within _ _
    padding_bottom := far_extent_within _ _
    order := rfl
    margin := rfl }

/-- **size_within_one**: for every node, each rounded extent (size, content size, border, padding) differs from the
    unrounded one by at most one pixel; location and scrollbar size by at most half a pixel; order and margin are unchanged -/
theorem size_within_one (t : LTree Rat) (p : List Nat) (s r : LTree Rat)
    (hs : t.get? p = some s) (hr : (roundLayout t).get? p = some r) : Within r.layout s.layout := by
  rw [layout_at t p s r hs hr]
  exact roundNode_within _ _ _

/-- a box at x = −1/2 of width 1 -/
def tightTree : LTree Rat :=
  .node { (Layout.new : Layout Rat) with location := ⟨-1 / 2, 0⟩, size := ⟨1, 1⟩ } []

/-- **the bound 1 is attained** (so `≤ 1` cannot be improved to `< 1`): the box [−1/2, 1/2] becomes [−1, 1] -/
theorem size_bound_attained :
    (roundLayout tightTree).layout.size.width = 2 ∧
    |(roundLayout tightTree).layout.size.width - tightTree.layout.size.width| = 1 := by
  have h1 : rnd ((0 : Rat) + -1 / 2 + 1) = ((1 : Int) : Rat) :=
    rnd_eq_of_nonneg (by norm_num) (by norm_num) (by norm_num)
  have h2 : rnd ((0 : Rat) + -1 / 2) = ((-1 : Int) : Rat) :=
    rnd_eq_of_neg (by norm_num) (by norm_num) (by norm_num)
  have e : (roundLayout tightTree).layout.size.width = rnd ((0 : Rat) + -1 / 2 + 1) - rnd ((0 : Rat) + -1 / 2) := rfl
  have w : tightTree.layout.size.width = 1 := rfl
  rw [e, w, h1, h2]
  norm_num

/-! ## 3. Never drifts -/

/-- the unrounded tree of the most recent pass -/
def lastComputed : List (Op Rat) → LTree Rat → LTree Rat
  | [], u => u
  | .compute u :: ops, _ => lastComputed ops u
  | .enableRounding :: ops, u => lastComputed ops u
  | .disableRounding :: ops, u => lastComputed ops u

/-- **unrounded_untouched**: after any history the stored unrounded layout is exactly the output of the most recent layout
    pass — neither the rounding that followed it nor any toggle wrote to it -/
theorem unrounded_untouched (ops : List (Op Rat)) : ∀ s : TreeState Rat,
    (run s ops).unrounded = lastComputed ops s.unrounded := by
  induction ops with
  | nil => intro s; rfl
  | cons op ops ih =>
    intro s
    cases op <;> simp [run, lastComputed, ih, step]

/-- the reported rounded layout is the rounding of the stored unrounded one -/
def Synced (s : TreeState Rat) : Prop := s.final = roundLayout s.unrounded

theorem layout_of_synced (s : TreeState Rat) (h : Synced s) :
    s.layout = if s.useRounding then roundLayout s.unrounded else s.unrounded := by
  unfold TreeState.layout
  rw [h]

/-- a pass with rounding enabled synchronises, whatever was there before -/
theorem synced_after_enabled_pass (s : TreeState Rat) (u : LTree Rat) (h : s.useRounding = true) :
    Synced (step s (.compute u)) := by
  simp [Synced, step, h]

/-- the very first pass on a fresh tree (rounding is on by default) synchronises -/
theorem synced_after_first_pass (shape u : LTree Rat) : Synced (step (TreeState.fresh shape) (.compute u)) :=
  synced_after_enabled_pass _ _ rfl

/-- **rounding_idempotent**: once synchronised, any history of repeated passes over an unchanged layout `u` and of
    enable/disable toggles, in any order and number, leaves `layout()` equal to `u` or to `roundLayout u` according to the
    current flag: the rounded layout is a function of the unrounded layout alone; nothing accumulates -/
theorem rounding_idempotent (u : LTree Rat) (ops : List (Op Rat))
    (hops : ∀ op ∈ ops, op = .compute u ∨ op = .enableRounding ∨ op = .disableRounding) :
    ∀ s : TreeState Rat, s.unrounded = u → Synced s →
      (run s ops).unrounded = u ∧ (run s ops).final = roundLayout u ∧
      (run s ops).layout = if (run s ops).useRounding then roundLayout u else u := by
  induction ops with
  | nil =>
    intro s hu hs
    refine ⟨hu, by rw [← hu]; exact hs, ?_⟩
    rw [show run s [] = s from rfl, layout_of_synced s hs, hu]
  | cons op ops ih =>
    intro s hu hs
    have hops' : ∀ op ∈ ops, op = .compute u ∨ op = .enableRounding ∨ op = .disableRounding :=
      fun o ho => hops o (List.mem_cons_of_mem _ ho)
    rcases hops op (List.mem_cons_self) with rfl | rfl | rfl
    · apply ih hops'
      · rfl
      · unfold Synced at hs ⊢
        simp only [step]
        split
        · rfl
        · rw [hs, hu]
    · exact ih hops' _ hu hs
    · exact ih hops' _ hu hs

/-- a concrete unrounded layout used in the examples: one box at (3/2, 5/2) of size 13/4 × 1 -/
def sampleTree : LTree Rat :=
  .node { (Layout.new : Layout Rat) with location := ⟨3 / 2, 5 / 2⟩, size := ⟨13 / 4, 1⟩ } []

/-- non-vacuity of `rounding_idempotent`: pass, pass, disable, pass, enable, pass after the first pass on a fresh tree -/
example :
    let s := step (TreeState.fresh sampleTree) (.compute sampleTree)
    let ops : List (Op Rat) := [.compute sampleTree, .compute sampleTree, .disableRounding, .compute sampleTree, .enableRounding, .compute sampleTree]
    (run s ops).layout = roundLayout sampleTree :=
  ((rounding_idempotent sampleTree _ (by intro op h; simp at h; rcases h with rfl | rfl | rfl | rfl | rfl | rfl <;> simp)
    _ rfl (synced_after_first_pass _ _)).2.2)

/-- **caveat (not drift, but worth knowing)**: `enable_rounding` does not round. After a pass made while rounding was
    disabled, `layout()` with rounding re-enabled reports the *previous* `final_layout` (here the never-written
    `Layout::new()`), not the rounding of the current unrounded layout, until the next pass -/
theorem stale_until_next_pass :
    let s := run (TreeState.fresh sampleTree) [.disableRounding, .compute sampleTree, .enableRounding]
    s.layout.layout.size.width = 0 ∧ (roundLayout sampleTree).layout.size.width ≠ 0 ∧
    (step s (.compute sampleTree)).layout = roundLayout sampleTree := by
  have h1 : rnd ((0 : Rat) + 3 / 2 + 13 / 4) = ((5 : Int) : Rat) :=
    rnd_eq_of_nonneg (by norm_num) (by norm_num) (by norm_num)
  have h2 : rnd ((0 : Rat) + 3 / 2) = ((2 : Int) : Rat) :=
    rnd_eq_of_nonneg (by norm_num) (by norm_num) (by norm_num)
  have e : (roundLayout sampleTree).layout.size.width = rnd ((0 : Rat) + 3 / 2 + 13 / 4) - rnd ((0 : Rat) + 3 / 2) := rfl
  refine ⟨rfl, ?_, rfl⟩
  rw [e, h1, h2]
  norm_num

/-! ## 4. Rounded edges are the rounding of the absolute edges; no seams -/

inductive Side where
  | near
  | far
deriving Repr, DecidableEq

/-- absolute coordinate (relative to the root's origin) of the near (left/top) or far (right/bottom) edge of the node `n`
    sitting at path `p` of `t`: the locations along the path added up, plus the extent for the far edge -/
def absEdge (ax : Axis) (sd : Side) (t : LTree Rat) (p : List Nat) (n : LTree Rat) : Rat :=
  match sd with
  | .near => off ax t p + n.layout.loc ax
  | .far => off ax t p + n.layout.loc ax + n.layout.ext ax

/-- every node strictly above path `p` has an integral unrounded location on axis `ax` -/
def AncestorsIntegral (ax : Axis) (t : LTree Rat) (p : List Nat) : Prop :=
  ∀ q s a, q ++ s = p → s ≠ [] → t.get? q = some a → IsInt (a.layout.loc ax)

theorem sel_off (ax : Axis) (t : LTree Rat) (p : List Nat) (s : LTree Rat) :
    sel ax (off .x t p + s.layout.location.x) (off .y t p + s.layout.location.y) = off ax t p + s.layout.loc ax := by
  cases ax <;> rfl

/-- the core of `edge_commutes`, parametrised by the fact that makes `round` commute with the whole-pixel ancestor offset -/
theorem edge_commutes_core (ax : Axis) (t : LTree Rat) (p : List Nat) (s r : LTree Rat)
    (hs : t.get? p = some s) (hr : (roundLayout t).get? p = some r)
    (hanc : AncestorsIntegral ax t p)
    (hcomm : ∀ z : Int, off ax t p = (z : Rat) → rnd ((z : Rat) + s.layout.loc ax) = (z : Rat) + rnd (s.layout.loc ax))
    (sd : Side) :
    absEdge ax sd (roundLayout t) p r = rnd (absEdge ax sd t p s) := by
  obtain ⟨e1, z, hz⟩ := off_round ax p t 0 0 (ancInt_of_prefixes ax p t hanc)
  have hl := layout_at t p s r hs hr
  have hc := hcomm z hz
  unfold absEdge
  unfold roundLayout
  rw [e1, hl, roundNode_loc, roundNode_ext, sel_off, hz]
  cases sd
  · simp only []
    rw [hc]
  · simp only []
    rw [hc]
    ring

/-- **edge_commutes**: if every proper ancestor of a node has an integral unrounded location on an axis and the node's
    absolute unrounded near edge on that axis is not on a half pixel, then its absolute rounded near edge (sum of the
    rounded locations along the path) and its absolute rounded far edge (that plus the rounded size) equal `round` of the
    corresponding absolute unrounded edges. (The far edge itself may be on a half pixel: only the near edge matters.) -/
theorem edge_commutes (ax : Axis) (t : LTree Rat) (p : List Nat) (s r : LTree Rat)
    (hs : t.get? p = some s) (hr : (roundLayout t).get? p = some r)
    (hanc : AncestorsIntegral ax t p)
    (hhalf : ¬ IsHalf (absEdge ax .near t p s)) (sd : Side) :
    absEdge ax sd (roundLayout t) p r = rnd (absEdge ax sd t p s) := by
  apply edge_commutes_core ax t p s r hs hr hanc _ sd
  intro z hz
  apply rnd_int_add
  intro hh
  apply hhalf
  unfold absEdge
  simp only []
  rw [hz]
  exact isHalf_int_add.mpr hh

/-- the half-pixel exclusion is only needed when a coordinate is negative: with a non-negative location and a
    non-negative absolute near edge the conclusion holds on the half pixels too -/
theorem edge_commutes_nonneg (ax : Axis) (t : LTree Rat) (p : List Nat) (s r : LTree Rat)
    (hs : t.get? p = some s) (hr : (roundLayout t).get? p = some r)
    (hanc : AncestorsIntegral ax t p)
    (h0 : 0 ≤ s.layout.loc ax) (h1 : 0 ≤ absEdge ax .near t p s) (sd : Side) :
    absEdge ax sd (roundLayout t) p r = rnd (absEdge ax sd t p s) := by
  apply edge_commutes_core ax t p s r hs hr hanc _ sd
  intro z hz
  apply rnd_int_add_nonneg h0
  have : absEdge ax .near t p s = (z : Rat) + s.layout.loc ax := by
    unfold absEdge
    simp only []
    rw [hz]
  rw [← this]
  exact h1

/-- **no_seam**: two boxes of the same tree (anywhere in it), both under integral ancestors and with near edges off the
    half pixels: if an edge of one and an edge of the other coincide before rounding they coincide after rounding — boxes
    that touch keep touching, without gap or overlap -/
theorem no_seam (ax : Axis) (t : LTree Rat)
    (p₁ : List Nat) (s₁ r₁ : LTree Rat) (hs₁ : t.get? p₁ = some s₁) (hr₁ : (roundLayout t).get? p₁ = some r₁)
    (hanc₁ : AncestorsIntegral ax t p₁) (hhalf₁ : ¬ IsHalf (absEdge ax .near t p₁ s₁))
    (p₂ : List Nat) (s₂ r₂ : LTree Rat) (hs₂ : t.get? p₂ = some s₂) (hr₂ : (roundLayout t).get? p₂ = some r₂)
    (hanc₂ : AncestorsIntegral ax t p₂) (hhalf₂ : ¬ IsHalf (absEdge ax .near t p₂ s₂))
    (sd₁ sd₂ : Side) (htouch : absEdge ax sd₁ t p₁ s₁ = absEdge ax sd₂ t p₂ s₂) :
    absEdge ax sd₁ (roundLayout t) p₁ r₁ = absEdge ax sd₂ (roundLayout t) p₂ r₂ := by
  rw [edge_commutes ax t p₁ s₁ r₁ hs₁ hr₁ hanc₁ hhalf₁ sd₁, edge_commutes ax t p₂ s₂ r₂ hs₂ hr₂ hanc₂ hhalf₂ sd₂, htouch]

/-! ### witnesses: both hypotheses are necessary -/

def box (x w : Rat) (cs : List (LTree Rat)) : LTree Rat :=
  .node { (Layout.new : Layout Rat) with location := ⟨x, 0⟩, size := ⟨w, 1⟩ } cs

/-- root [0,10] with children B1 = [−2, −1/2] and P = [−1, 3]; P has the child B2 at +1/2, i.e. absolute [−1/2, 1/2].
    B1's right edge and B2's left edge coincide at −1/2; all ancestors are at integral positions. -/
def seamTree : LTree Rat := box 0 10 [box (-2) (3 / 2) [], box (-1) 4 [box (1 / 2) 1 []]]

/-- **the half-pixel exclusion is necessary**: in `seamTree` the two touching edges (both at −1/2 before rounding, every
    ancestor integral) end up one pixel apart: B1 ends at −1, B2 starts at 0. B2's near edge is on a half pixel. -/
theorem half_pixel_exclusion_necessary :
    ∃ (b1 r1 b2 r2 : LTree Rat),
      seamTree.get? [0] = some b1 ∧ (roundLayout seamTree).get? [0] = some r1 ∧
      seamTree.get? [1, 0] = some b2 ∧ (roundLayout seamTree).get? [1, 0] = some r2 ∧
      AncestorsIntegral .x seamTree [0] ∧ AncestorsIntegral .x seamTree [1, 0] ∧
      absEdge .x .far seamTree [0] b1 = -1 / 2 ∧ absEdge .x .near seamTree [1, 0] b2 = -1 / 2 ∧
      absEdge .x .far (roundLayout seamTree) [0] r1 = -1 ∧ absEdge .x .near (roundLayout seamTree) [1, 0] r2 = 0 := by
  refine ⟨_, _, _, _, rfl, rfl, rfl, rfl, ?_, ?_, ?_, ?_, ?_, ?_⟩
  · intro q s a hqs hs ha
    -- the only proper prefix of [0] is []
    match q, s, hqs with
    | [], _, _ =>
      simp only [LTree.get?, Option.some.injEq] at ha
      subst ha
      exact ⟨0, by simp [seamTree, box, LTree.layout, Layout.loc]⟩
    | [_], [], _ => exact absurd rfl hs
  · intro q s a hqs hs ha
    match q, s, hqs with
    | [], _, _ =>
      simp only [LTree.get?, Option.some.injEq] at ha
      subst ha
      exact ⟨0, by simp [seamTree, box, LTree.layout, Layout.loc]⟩
    | [_], [_], h =>
      simp only [List.cons_append, List.nil_append, List.cons.injEq, and_true] at h
      obtain ⟨rfl, rfl⟩ := h
      simp [seamTree, box, LTree.get?] at ha
      subst ha
      exact ⟨-1, by simp [LTree.layout, Layout.loc]⟩
    | [_, _], [], _ => exact absurd rfl hs
  · simp [absEdge, seamTree, box, off, LTree.layout, Layout.loc, Layout.ext]
    norm_num
  · simp [absEdge, seamTree, box, off, LTree.layout, Layout.loc]
    norm_num
  · show off .x (roundLayout seamTree) [0] + rnd (-2) + (rnd ((0 : Rat) + 0 + -2 + 3 / 2) - rnd ((0 : Rat) + 0 + -2)) = -1
    have o : off .x (roundLayout seamTree) [0] = rnd 0 + 0 := rfl
    rw [o, show ((0 : Rat) + 0 + -2 + 3 / 2) = -1 / 2 by norm_num, show ((0 : Rat) + 0 + -2) = -2 by norm_num,
      rnd_neg_two, rnd_neg_half, rnd_zero]
    norm_num
  · show off .x (roundLayout seamTree) [1, 0] + rnd (1 / 2) = 0
    have o : off .x (roundLayout seamTree) [1, 0] = rnd 0 + (rnd (-1) + 0) := rfl
    rw [o, rnd_half, rnd_zero, rnd_neg_one]
    norm_num

/-- parent at 3/8, child at 3/8 inside it: absolute 3/4 -/
def fracTree : LTree Rat := box 0 10 [box (3 / 8) 4 [box (3 / 8) 1 []]]

/-- **integral ancestors are necessary**: `location` is rounded relative to the parent, so under a parent at 3/8 a child at
    3/8 (absolute 3/4, which rounds to 1) is reported at absolute 0 + 0 + 0 = 0 -/
theorem integral_ancestors_necessary :
    ∃ (c r : LTree Rat), fracTree.get? [0, 0] = some c ∧ (roundLayout fracTree).get? [0, 0] = some r ∧
      absEdge .x .near fracTree [0, 0] c = 3 / 4 ∧ ¬ IsHalf (3 / 4) ∧ rnd (3 / 4) = 1 ∧
      absEdge .x .near (roundLayout fracTree) [0, 0] r = 0 := by
  have h38 : rnd (3 / 8 : Rat) = 0 := by
    have := rnd_eq_of_nonneg (q := 3 / 8) (z := 0) (by norm_num) (by norm_num) (by norm_num)
    push_cast at this; exact this
  have h34 : rnd (3 / 4 : Rat) = 1 := by
    have := rnd_eq_of_nonneg (q := 3 / 4) (z := 1) (by norm_num) (by norm_num) (by norm_num)
    push_cast at this; exact this
  refine ⟨_, _, rfl, rfl, ?_, ?_, h34, ?_⟩
  · simp [absEdge, fracTree, box, off, LTree.layout, Layout.loc]
    norm_num
  · rintro ⟨z, hz⟩
    have : (4 : Rat) * (3 / 4) = 4 * ((z : Rat) + 1 / 2) := by rw [hz]
    have h2 : (3 : Rat) = ((4 * z + 2 : Int) : Rat) := by push_cast; linarith
    have h3 : (3 : Int) = 4 * z + 2 := by exact_mod_cast h2
    omega
  · show off .x (roundLayout fracTree) [0, 0] + rnd (3 / 8) = 0
    have o : off .x (roundLayout fracTree) [0, 0] = rnd 0 + (rnd (3 / 8) + 0) := rfl
    rw [o, h38, rnd_zero]
    norm_num

/-! ### non-vacuity of `edge_commutes` / `no_seam` -/

/-- root [0,10] with children A = [1/4, 2] and P at 2 whose child B sits at 0 inside it (absolute [2, 13/4]):
    A's right edge and B's left edge touch at 2; B's far edge 13/4 is fractional -/
def touchTree : LTree Rat := box 0 10 [box (1 / 4) (7 / 4) [], box 2 5 [box 0 (5 / 4) []]]

theorem touchTree_anc (p : List Nat) (hp : p = [0] ∨ p = [1, 0]) : AncestorsIntegral .x touchTree p := by
  intro q s a hqs hs ha
  rcases hp with rfl | rfl
  · match q, s, hqs with
    | [], _, _ =>
      simp only [LTree.get?, Option.some.injEq] at ha
      subst ha
      exact ⟨0, by simp [touchTree, box, LTree.layout, Layout.loc]⟩
    | [_], [], _ => exact absurd rfl hs
  · match q, s, hqs with
    | [], _, _ =>
      simp only [LTree.get?, Option.some.injEq] at ha
      subst ha
      exact ⟨0, by simp [touchTree, box, LTree.layout, Layout.loc]⟩
    | [_], [_], h =>
      simp only [List.cons_append, List.nil_append, List.cons.injEq, and_true] at h
      obtain ⟨rfl, rfl⟩ := h
      simp [touchTree, box, LTree.get?] at ha
      subst ha
      exact ⟨2, by simp [LTree.layout, Layout.loc]⟩
    | [_, _], [], _ => exact absurd rfl hs

/-- the hypotheses of `no_seam` are met by two touching boxes of `touchTree` at different depths, with fractional
    coordinates involved; the conclusion says A's rounded right edge equals B's rounded left edge -/
example :
    ∃ (a ra b rb : LTree Rat),
      touchTree.get? [0] = some a ∧ (roundLayout touchTree).get? [0] = some ra ∧
      touchTree.get? [1, 0] = some b ∧ (roundLayout touchTree).get? [1, 0] = some rb ∧
      absEdge .x .far touchTree [0] a = absEdge .x .near touchTree [1, 0] b ∧
      absEdge .x .far (roundLayout touchTree) [0] ra = absEdge .x .near (roundLayout touchTree) [1, 0] rb := by
  refine ⟨_, _, _, _, rfl, rfl, rfl, rfl, ?_, ?_⟩
  · simp [absEdge, touchTree, box, off, LTree.layout, Layout.loc, Layout.ext]
    norm_num
  · apply no_seam .x touchTree [0] _ _ rfl rfl (touchTree_anc _ (Or.inl rfl)) _ [1, 0] _ _ rfl rfl
      (touchTree_anc _ (Or.inr rfl)) _ .far .near
    · simp [absEdge, touchTree, box, off, LTree.layout, Layout.loc, Layout.ext]
      norm_num
    · apply not_half_of_den 1
      · simp [absEdge, touchTree, box, off, LTree.layout, Layout.loc]
      · decide
    · apply not_half_of_den 8
      · simp [absEdge, touchTree, box, off, LTree.layout, Layout.loc]
        norm_num
      · decide

end C13
