/-
  Tie (tier T) for the integer code of the grid coordinate systems:
  src/compute/grid/types/coordinates.rs, src/compute/grid/types/grid_track_counts.rs, src/style/grid.rs (placements).

  `Gen.Grid.*` is regenerated from the Rust source on every run (machine integers ↦ `Int` with every arithmetic
  operation and every `as` cast checked in `Outcome`, `panic!` ↦ `.panic msg`); each theorem states that the generated
  definition IS the hand-written one of Model/GridPlacement.lean, for all arguments (in range or not).
-/
import TaffyVerif.Generated.GridCoords
import TaffyVerif.Model.GridPlacement
import TaffyVerif.Model.GridSizing

namespace TieGrid
open GridPlacement

theorem bind_pure' {α : Type} (x : Outcome α) : (x >>= fun a => pure a) = x := by cases x <;> rfl

theorem bind_congr' {α β : Type} (x : Outcome α) (f g : α → Outcome β) (h : ∀ a, f a = g a) :
    (x >>= f) = (x >>= g) := by
  have : f = g := funext h
  rw [this]

/-! ### coordinates.rs -/

theorem into_origin_zero_line_eq : Gen.Grid.GridLine.into_origin_zero_line = intoOriginZeroLine := by
  funext l e; rfl

theorem oz_add_eq : Gen.Grid.OriginZeroLine.add_u16 = ozAdd := by
  funext l n; rfl

theorem oz_sub_eq : Gen.Grid.OriginZeroLine.sub_u16 = ozSub := by
  funext l n; rfl

theorem implied_negative_eq :
    Gen.Grid.OriginZeroLine.implied_negative_implicit_tracks = impliedNegativeImplicitTracks := by
  funext l
  unfold Gen.Grid.OriginZeroLine.implied_negative_implicit_tracks impliedNegativeImplicitTracks
  split <;> simp_all

theorem implied_positive_eq :
    Gen.Grid.OriginZeroLine.implied_positive_implicit_tracks = impliedPositiveImplicitTracks := by
  funext l e; rfl

theorem ok_bind' {α β : Type} (a : α) (f : α → Outcome β) : (Outcome.ok a >>= f) = f a := rfl
theorem panic_bind' {α β : Type} (m : String) (f : α → Outcome β) : (Outcome.panic m >>= f) = .panic m := rfl
theorem overflow_bind' {α β : Type} (f : α → Outcome β) : (Outcome.overflow >>= f) = .overflow := rfl
theorem outOfFuel_bind' {α β : Type} (f : α → Outcome β) : (Outcome.outOfFuel >>= f) = .outOfFuel := rfl

theorem i16_ok {x n : Int} (h : i16 x = .ok n) : n = x := by
  unfold i16 at h
  split at h
  · cases h; rfl
  · cases h

/-- `OriginZeroLine::into_track_vec_index` (the two `assert!`s; the model states them as the negated tests) -/
theorem into_track_vec_index_eq : Gen.Grid.OriginZeroLine.into_track_vec_index = GridModel.intoTrackVecIndex := by
  funext l c
  unfold Gen.Grid.OriginZeroLine.into_track_vec_index GridModel.intoTrackVecIndex
  cases h : i16 c.negativeImplicit with
  | ok n =>
    simp only [ok_bind']
    apply bind_congr'; intro negN
    by_cases h1 : l < negN
    · rw [if_neg (by omega), if_pos h1]
    · rw [if_pos (by omega), if_neg h1]
      apply bind_congr'; intro s
      apply bind_congr'; intro s16
      by_cases h2 : l > s16
      · rw [if_neg (by omega), if_pos h2]
      · rw [if_pos (by omega), if_neg h2]
  | panic m => rfl
  | overflow => rfl
  | outOfFuel => rfl

/-- `OriginZeroLine::try_into_track_vec_index` -/
theorem try_into_track_vec_index_eq :
    Gen.Grid.OriginZeroLine.try_into_track_vec_index = GridModel.tryIntoTrackVecIndex := by
  funext l c
  unfold Gen.Grid.OriginZeroLine.try_into_track_vec_index GridModel.tryIntoTrackVecIndex
  rw [into_track_vec_index_eq]

/-! ### grid_track_counts.rs -/

/-- `len` ends in `… as usize`: a u16 value always fits, so the extra check never fires -/
theorem u16_then_usize (x : Int) : (u16 x >>= fun a => usize a) = u16 x := by
  unfold u16 usize
  split
  · rename_i h
    show usize x = _
    unfold usize
    have : 0 ≤ x ∧ x ≤ usizeMax := ⟨h.1, by unfold usizeMax; unfold u16Max at h; omega⟩
    simp [this]
  · rfl

theorem track_counts_len_eq : Gen.Grid.TrackCounts.len = TrackCounts.len := by
  funext t
  unfold Gen.Grid.TrackCounts.len TrackCounts.len
  apply bind_congr'
  intro a
  exact u16_then_usize _

theorem implicit_start_line_eq : Gen.Grid.TrackCounts.implicit_start_line = TrackCounts.implicitStartLine := by
  funext t; rfl

theorem implicit_end_line_eq : Gen.Grid.TrackCounts.implicit_end_line = TrackCounts.implicitEndLine := by
  funext t; rfl

theorem oz_line_to_next_track_eq : Gen.Grid.TrackCounts.oz_line_to_next_track = TrackCounts.ozLineToNextTrack := by
  funext t i; rfl

theorem track_to_prev_oz_line_eq : Gen.Grid.TrackCounts.track_to_prev_oz_line = TrackCounts.trackToPrevOzLine := by
  funext t i; rfl

/-! ### style/grid.rs -/

theorem into_origin_zero_placement_eq :
    Gen.Grid.GridPlacement.into_origin_zero_placement = intoOriginZeroPlacement := by
  funext p e
  cases p with
  | auto => rfl
  | span s => rfl
  | line l =>
    show (if l = 0 then pure Placement.auto else _) = (if l = 0 then pure Placement.auto else _)
    rw [into_origin_zero_line_eq]

theorem into_origin_zero_eq : Gen.Grid.Line_GridPlacement.into_origin_zero = intoOriginZero := by
  funext l e
  unfold Gen.Grid.Line_GridPlacement.into_origin_zero intoOriginZero
  rw [into_origin_zero_placement_eq]

theorem indefinite_span_eq : Gen.Grid.Line_GenericGridPlacement.indefinite_span = indefiniteSpan := by
  funext l
  obtain ⟨s, e⟩ := l
  cases s <;> cases e <;> rfl

theorem is_definite_oz_eq : Gen.Grid.Line_OriginZeroGridPlacement.is_definite = isDefiniteOz := by
  funext l
  obtain ⟨s, e⟩ := l
  cases s <;> cases e <;> rfl

theorem is_definite_raw_eq : Gen.Grid.Line_GridPlacement.is_definite = isDefiniteRaw := by
  funext l
  obtain ⟨s, e⟩ := l
  cases s <;> cases e <;> (try rfl) <;>
    (unfold Gen.Grid.Line_GridPlacement.is_definite Gen.Grid.GridLine.as_i16 isDefiniteRaw isNonzeroLine
     dsimp only
     (repeat' split) <;> simp_all)

theorem resolve_definite_grid_lines_eq :
    Gen.Grid.Line_OriginZeroGridPlacement.resolve_definite_grid_lines = resolveDefiniteGridLines := by
  funext l
  obtain ⟨s, e⟩ := l
  cases s <;> cases e <;> simp only [Gen.Grid.Line_OriginZeroGridPlacement.resolve_definite_grid_lines,
    resolveDefiniteGridLines, oz_add_eq, oz_sub_eq] <;> rfl

theorem resolve_indefinite_grid_tracks_eq :
    Gen.Grid.Line_OriginZeroGridPlacement.resolve_indefinite_grid_tracks = resolveIndefiniteGridTracks := by
  funext l st
  obtain ⟨s, e⟩ := l
  cases s <;> cases e <;> simp only [Gen.Grid.Line_OriginZeroGridPlacement.resolve_indefinite_grid_tracks,
    resolveIndefiniteGridTracks, oz_add_eq] <;> rfl

end TieGrid
