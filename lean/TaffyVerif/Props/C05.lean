/-
  C05 — `display:none` subtrees are zeroed and invisible.

  Model: the tree-level evaluator `Eval.evalNodeWith` (Model/Eval.lean) = `TaffyView::compute_child_layout` +
  `compute_cached_layout` + `compute_hidden_layout`, for every number type, every cache implementation `ci`, every
  dispatch `sel` that sends `display:none` to the hidden arm (the extracted dispatch does: `sel_extracted`, from
  `C17.dispatch_eq`), every fuel, tree, state and input.  Container algorithms enter through two named hypotheses
  (definitions in Lemmas/EvalHidden.lean):

    `AlgsPHZ algs`     := ∀ style cs inp, PHZ cs (algs.block style cs inp) ∧ PHZ cs (algs.flex …) ∧ PHZ cs (algs.grid …)
                          (`PHZ cs p`: every `setLayout i l` of `p` with `cs[i]` display:none has `zeroFields l`, for all
                          answers fed to the continuations)
    `HiddenBlind algs` := ∀ style xs ys inp, AgreeH xs ys → algs.block style xs inp = algs.block style ys inp ∧ (flex) ∧ (grid)
                          (`AgreeH xs ys`: same length and, at every index, equal styles or both display:none)
-/
import TaffyVerif.Lemmas.EvalHidden
import TaffyVerif.Props.C17

namespace C05
open Eval
variable {α : Type} [Num α] {C : Type}

/-- the dispatch extracted from `TaffyView::compute_child_layout` sends `display:none` to `compute_hidden_layout` -/
theorem sel_extracted (b : Bool) : Dispatch.select Gen.Facts.dispatchArms .none b = some .hidden := by
  rw [C17.dispatch_eq]; rfl

/-! ### 1. `compute_hidden_layout` -/

/-- **hiddenLayout_zero**: after `compute_hidden_layout` every node of the subtree has layout `Layout::with_order(0)`
(all numeric fields zero) and its cache is the cleared old cache; the subtree keeps its shape. -/
theorem hiddenLayout_zero (ci : CacheImpl α C) (ns : NS α C) :
    HiddenOf ci ns (hiddenLayout ci ns) ∧ AllZ (hiddenLayout ci ns) :=
  ⟨hiddenLayout_of ci ns, hiddenLayout_AllZ ci ns⟩

/-- the same, read at an arbitrary path below the node -/
theorem hiddenLayout_zero_at (ci : CacheImpl α C) (ns : NS α C) (p : List Nat) (k : NS α C)
    (h : nsAt (hiddenLayout ci ns) p = some k) :
    ∃ k0, nsAt ns p = some k0 ∧ k.cache = ci.clear k0.cache ∧ k.layout = Layout.withOrder 0 :=
  HiddenOf_at ci p ns _ k (hiddenLayout_of ci ns) h

/-! ### 2. hidden nodes stay zero -/

/-- **HZ_init**: a freshly built tree satisfies the invariant (`Layout::new()` is all zero) -/
theorem HZ_init (ci : CacheImpl α C) (t : STree α) : HZ t (NS.init ci t) :=
  AllZ_HZ t _ (init_AllZ ci t)

/-- **hidden_zero**: `compute_child_layout` preserves the invariant "every `display:none` child of a visible node
has an all-zero layout and everything below a `display:none` node is all-zero", for every input (cache hits on the
hidden node included), provided the container algorithms assign only all-zero layouts to hidden children. -/
theorem hidden_zero (ci : CacheImpl α C) (sel : Display → Bool → Option Gen.Facts.Callee) (algs : Algs α)
    (hsel : ∀ b, sel .none b = some .hidden) (hp : AlgsPHZ algs)
    (fuel : Nat) (t : STree α) (ns : NS α C) (inp : LayoutInput α) (hz : HZ t ns) :
    HZ t (evalNodeWith ci sel algs fuel t ns inp).2 :=
  (eval_EvHZ ci sel algs hsel hp fuel t ns inp).1 hz

/-- the node's own layout is never changed by its own evaluation except to `Layout::with_order(0)` -/
theorem own_layout_zero (ci : CacheImpl α C) (sel : Display → Bool → Option Gen.Facts.Callee) (algs : Algs α)
    (hsel : ∀ b, sel .none b = some .hidden) (hp : AlgsPHZ algs)
    (fuel : Nat) (t : STree α) (ns : NS α C) (inp : LayoutInput α) (hz : zeroFields ns.layout) :
    zeroFields (evalNodeWith ci sel algs fuel t ns inp).2.layout :=
  (eval_EvHZ ci sel algs hsel hp fuel t ns inp).2 hz

/-- `hidden_zero` for `TaffyTree`'s own dispatch -/
theorem hidden_zero_evalNode (ci : CacheImpl α C) (algs : Algs α) (hp : AlgsPHZ algs)
    (fuel : Nat) (t : STree α) (ns : NS α C) (inp : LayoutInput α) (hz : HZ t ns) :
    HZ t (evalNode ci algs fuel t ns inp).2 :=
  hidden_zero ci _ algs sel_extracted hp fuel t ns inp hz

/-- what the invariant says node by node: if some node on the path from the root to the (non-root) node at `p` is
`display:none`, the node at `p` has an all-zero layout -/
theorem HZ_reads (t : STree α) (ns k : NS α C) (p : List Nat) (hz : HZ t ns) (hp : p ≠ [])
    (hh : HiddenOnPath t p) (hk : nsAt ns p = some k) : zeroFields k.layout :=
  HZ_at p t ns k hz hp hh hk

/-- **hidden_zero_pass**: after any evaluation of a freshly built tree (and, by `hidden_zero`, after any further
sequence of evaluations), every node at or below a `display:none` node has an all-zero layout. -/
theorem hidden_zero_pass (ci : CacheImpl α C) (algs : Algs α) (hp : AlgsPHZ algs)
    (fuel : Nat) (t : STree α) (inp : LayoutInput α) (p : List Nat) (k : NS α C) (hne : p ≠ [])
    (hh : HiddenOnPath t p) (hk : nsAt (evalNode ci algs fuel t (NS.init ci t) inp).2 p = some k) :
    zeroFields k.layout :=
  HZ_at p t _ k (hidden_zero_evalNode ci algs hp fuel t _ inp (HZ_init ci t)) hne hh hk

/-! ### 3. hidden subtrees are invisible -/

/-- **SimNS_init**: freshly built states of related trees are related -/
theorem SimNS_init (ci : CacheImpl α C) (tA tB : STree α) (h : HidRel tA tB) :
    SimNS tA (NS.init ci tA) (NS.init ci tB) :=
  init_sim ci tA tB h

/-- **hidden_invisible**: if tree B is tree A with `display:none` subtrees replaced by other `display:none`
subtrees and the states agree outside the hidden subtrees, then evaluating A and B on the same input (same fuel —
hidden subtrees consume none) returns EQUAL outputs and states that again agree outside the hidden subtrees,
provided the container algorithms are `HiddenBlind`. -/
theorem hidden_invisible (ci : CacheImpl α C) (sel : Display → Bool → Option Gen.Facts.Callee) (algs : Algs α)
    (hsel : ∀ b, sel .none b = some .hidden) (hb : HiddenBlind algs)
    (fuel : Nat) (tA tB : STree α) (nsA nsB : NS α C) (inp : LayoutInput α)
    (hr : HidRel tA tB) (hs : SimNS tA nsA nsB) :
    (evalNodeWith ci sel algs fuel tA nsA inp).1 = (evalNodeWith ci sel algs fuel tB nsB inp).1 ∧
    SimNS tA (evalNodeWith ci sel algs fuel tA nsA inp).2 (evalNodeWith ci sel algs fuel tB nsB inp).2 :=
  eval_EvSim ci sel algs hsel hb fuel tA tB nsA nsB inp hr hs

/-- `hidden_invisible` for `TaffyTree`'s own dispatch -/
theorem hidden_invisible_evalNode (ci : CacheImpl α C) (algs : Algs α) (hb : HiddenBlind algs)
    (fuel : Nat) (tA tB : STree α) (nsA nsB : NS α C) (inp : LayoutInput α)
    (hr : HidRel tA tB) (hs : SimNS tA nsA nsB) :
    (evalNode ci algs fuel tA nsA inp).1 = (evalNode ci algs fuel tB nsB inp).1 ∧
    SimNS tA (evalNode ci algs fuel tA nsA inp).2 (evalNode ci algs fuel tB nsB inp).2 :=
  hidden_invisible ci _ algs sel_extracted hb fuel tA tB nsA nsB inp hr hs

/-- what the state relation says node by node: at every path none of whose proper ancestors is `display:none`,
the two states have the same layout and the same cache -/
theorem SimNS_reads (t : STree α) (a b : NS α C) (p : List Nat) (hs : SimNS t a b) (hv : VisibleTo t p) :
    (nsAt a p).map NS.layout = (nsAt b p).map NS.layout ∧ (nsAt a p).map NS.cache = (nsAt b p).map NS.cache :=
  SimNS_at p t a b hs hv

/-- **hidden_invisible_pass**: whole passes from freshly built trees: same output, and the same layout and cache
at every node that is not strictly inside a hidden subtree. -/
theorem hidden_invisible_pass (ci : CacheImpl α C) (algs : Algs α) (hb : HiddenBlind algs)
    (fuel : Nat) (tA tB : STree α) (inp : LayoutInput α) (hr : HidRel tA tB) :
    (evalNode ci algs fuel tA (NS.init ci tA) inp).1 = (evalNode ci algs fuel tB (NS.init ci tB) inp).1 ∧
    ∀ p, VisibleTo tA p →
      (nsAt (evalNode ci algs fuel tA (NS.init ci tA) inp).2 p).map NS.layout =
      (nsAt (evalNode ci algs fuel tB (NS.init ci tB) inp).2 p).map NS.layout := by
  obtain ⟨h1, h2⟩ := hidden_invisible_evalNode ci algs hb fuel tA tB _ _ inp hr (SimNS_init ci tA tB hr)
  exact ⟨h1, fun p hv => (SimNS_at p tA _ _ h2 hv).1⟩

omit [Num α] in
/-- the replacement the property talks about: any `display:none` subtree may be replaced by a bare `display:none`
leaf (and every tree is related to itself, so the replacement may happen anywhere below visible nodes) -/
theorem HidRel_bare_leaf (s s' : Style α) (c c' : Option (MeasureSpec α)) (kids : List (STree α))
    (h : s.display = .none) (h' : s'.display = .none) : HidRel (.node s c kids) (.node s' c' []) := by
  simp only [HidRel]
  exact Or.inl ⟨h, h'⟩

theorem HidRel_rfl (t : STree α) : HidRel t t := HidRel_refl t

/-- a bare `display:none` leaf -/
def bareHidden : STree α := .node { (Style.default : Style α) with display := .none } none []

/-- **hidden_invisible_replace** (the property as worded): take any tree, any `display:none` node `h` in it (at
path `q`), and replace `h` with its whole subtree by a bare `display:none` leaf.  A pass over the original and a pass
over the modified tree (fresh states) return the same output and give the same layout to every node that is not
strictly inside a hidden subtree. -/
theorem hidden_invisible_replace (ci : CacheImpl α C) (algs : Algs α) (hb : HiddenBlind algs)
    (fuel : Nat) (t h : STree α) (q : List Nat) (inp : LayoutInput α)
    (ht : treeAt t q = some h) (hd : h.style.display = .none) :
    (evalNode ci algs fuel t (NS.init ci t) inp).1 =
      (evalNode ci algs fuel (replaceAt t q bareHidden) (NS.init ci (replaceAt t q bareHidden)) inp).1 ∧
    ∀ p, VisibleTo t p →
      (nsAt (evalNode ci algs fuel t (NS.init ci t) inp).2 p).map NS.layout =
      (nsAt (evalNode ci algs fuel (replaceAt t q bareHidden) (NS.init ci (replaceAt t q bareHidden)) inp).2 p).map
        NS.layout :=
  hidden_invisible_pass ci algs hb fuel t _ inp (HidRel_replaceAt q t h bareHidden ht hd rfl)

/-! ### non-vacuity -/

section examples

def hiddenStyle : Style α := { (Style.default : Style α) with display := .none }
def blockStyle : Style α := { (Style.default : Style α) with display := .block }

/-- the hidden-child loop of a container with one `display:none` child -/
def exProg : ProgM α (LayoutOutput α) :=
  .setLayout 0 (Layout.withOrder 0) fun _ =>
  .call 0 { (LayoutInput.hidden : LayoutInput α) with runMode := .performLayout } fun o =>
  .setLayout 1 { (Layout.withOrder 1 : Layout α) with size := o.size } fun _ =>
  .pure o

example : PHZ [hiddenStyle, blockStyle] (exProg : ProgM α (LayoutOutput α)) := by
  simp only [exProg, PHZ, implies_true, and_true]
  refine ⟨fun _ _ _ => zeroFields_withOrder 0, ?_⟩
  intro _ o s hs hd
  simp only [List.getElem?_cons_succ, List.getElem?_cons_zero, Option.some.injEq] at hs
  subst hs
  simp [blockStyle] at hd

/-- tree A: a block root with a visible leaf and a `display:none` child that has a subtree of its own -/
def exA : STree α :=
  .node blockStyle none [.node blockStyle none [], .node hiddenStyle none [.node blockStyle none [], .node blockStyle none []]]
/-- tree B: the hidden subtree replaced by a bare `display:none` leaf -/
def exB : STree α :=
  .node blockStyle none [.node blockStyle none [], .node hiddenStyle none []]

theorem exAB_rel : HidRel (exA : STree α) exB := by
  simp only [exA, exB, HidRel, HidRelList, hiddenStyle, blockStyle]
  simp

example : HiddenOnPath (exA : STree α) [1, 0] := by
  simp [exA, HiddenOnPath, hiddenStyle, blockStyle]

example : VisibleTo (exA : STree α) [1] := by
  simp [exA, VisibleTo, blockStyle]

/-- a toy container algorithm that looks at its first child only: a `display:none` first child gets the zero
layout and a hidden-style call; a visible first child determines the container's output -/
def exAlg (xs : List (Style α)) (inp : LayoutInput α) : ProgM α (LayoutOutput α) :=
  match xs with
  | [] => .pure LayoutOutput.hidden
  | x :: _ =>
    if x.display = .none then
      .setLayout 0 (Layout.withOrder 0) fun _ =>
      .call 0 { (LayoutInput.hidden : LayoutInput α) with runMode := .performLayout } fun _ =>
      .pure LayoutOutput.hidden
    else
      .call 0 inp fun o => .setLayout 0 { (Layout.withOrder 0 : Layout α) with size := o.size } fun _ => .pure o

def exAlgs : Algs α where
  leaf := fun _ _ _ => LayoutOutput.hidden
  block := fun _ xs inp => exAlg xs inp
  flex := fun _ xs inp => exAlg xs inp
  grid := fun _ _ _ => .pure LayoutOutput.hidden

theorem exAlg_PHZ (xs : List (Style α)) (inp : LayoutInput α) : PHZ xs (exAlg xs inp) := by
  cases xs with
  | nil => simp only [exAlg, PHZ]
  | cons x xs =>
    by_cases hx : x.display = .none
    · simp only [exAlg, hx, if_true, PHZ, implies_true, and_true]
      exact fun _ _ _ => zeroFields_withOrder 0
    · simp only [exAlg, hx, if_false, PHZ, implies_true, and_true]
      intro _ s hs hd
      simp only [List.getElem?_cons_zero, Option.some.injEq] at hs
      subst hs
      exact absurd hd hx

theorem exAlg_blind (xs ys : List (Style α)) (inp : LayoutInput α) (h : AgreeH xs ys) :
    exAlg xs inp = exAlg ys inp := by
  cases xs with
  | nil =>
    cases ys with
    | nil => rfl
    | cons y ys => simp only [AgreeH] at h
  | cons x xs =>
    cases ys with
    | nil => simp only [AgreeH] at h
    | cons y ys =>
      simp only [AgreeH] at h
      rcases h.1 with hxy | ⟨hx, hy⟩
      · subst hxy; rfl
      · simp only [exAlg, hx, hy, if_true]

/-- the two named hypotheses are jointly satisfiable by an algorithm that does interact with hidden children -/
theorem exAlgs_ok : AlgsPHZ (exAlgs : Algs α) ∧ HiddenBlind (exAlgs : Algs α) :=
  ⟨fun _ xs inp => ⟨exAlg_PHZ xs inp, exAlg_PHZ xs inp, by simp only [exAlgs, PHZ]⟩,
   fun _ xs ys inp h => ⟨exAlg_blind xs ys inp h, exAlg_blind xs ys inp h, rfl⟩⟩

/-- the theorems applied to the concrete trees and algorithm: same root output, same layout of the root, of the
visible child `[0]` and of the hidden child `[1]` itself; and the hidden child and its two children are zero -/
example (ci : CacheImpl α C) (fuel : Nat) (inp : LayoutInput α) :
    (evalNode ci exAlgs fuel exA (NS.init ci exA) inp).1 = (evalNode ci exAlgs fuel exB (NS.init ci exB) inp).1 ∧
    (nsAt (evalNode ci exAlgs fuel exA (NS.init ci exA) inp).2 [1]).map NS.layout =
      (nsAt (evalNode ci exAlgs fuel exB (NS.init ci exB) inp).2 [1]).map NS.layout := by
  obtain ⟨h1, h2⟩ := hidden_invisible_pass ci exAlgs exAlgs_ok.2 fuel exA exB inp exAB_rel
  exact ⟨h1, h2 [1] (by simp [exA, VisibleTo, blockStyle])⟩

example (ci : CacheImpl α C) (fuel : Nat) (inp : LayoutInput α) (k : NS α C)
    (hk : nsAt (evalNode ci exAlgs fuel exA (NS.init ci exA) inp).2 [1, 0] = some k) : zeroFields k.layout :=
  hidden_zero_pass ci exAlgs exAlgs_ok.1 fuel exA inp [1, 0] k (by simp)
    (by simp [exA, HiddenOnPath, hiddenStyle, blockStyle]) hk

end examples

end C05

/-
  Obligations to audit (checklib/props.py):
  C05_THEOREMS = [
    "C05.sel_extracted",
    "C05.hiddenLayout_zero", "C05.hiddenLayout_zero_at",
    "C05.HZ_init", "C05.hidden_zero", "C05.own_layout_zero", "C05.hidden_zero_evalNode", "C05.HZ_reads",
    "C05.hidden_zero_pass",
    "C05.SimNS_init", "C05.hidden_invisible", "C05.hidden_invisible_evalNode", "C05.SimNS_reads",
    "C05.hidden_invisible_pass", "C05.HidRel_bare_leaf", "C05.HidRel_rfl", "C05.hidden_invisible_replace", "C05.AgreeH_iff",
  ]
-/
