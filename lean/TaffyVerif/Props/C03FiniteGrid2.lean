/-
  C03 — finiteness at the extended numbers `ER`, part 4: the GRID program and every style tree WITHOUT the `space-between`
  restriction of Props/C03FiniteGrid.lean, under the range invariant of the `GridCalm` theorems.

  What was missing in part 3: for `align-content` / `justify-content: space-between` the gutter adjustment of a run of the
  track sizing algorithm divides by 0 when the other axis' track vector has 3 entries (harmless: dropped) or 4 entries (it
  would be written).  Here the vectors are shown to keep an ODD number of entries through all four runs:
  `initialize_grid_tracks` creates `2·n + 1` (`grid_initialize_tracks_odd`), and a run keeps both lengths and the items'
  frames (`EvalGrid.RunQ`, `GSafe_trackSizingAlgorithmM` of Lemmas/EvalGridSafe2.lean) PROVIDED every item's track range in
  the run's axis is non-empty and inside the vector (`EvalGrid.AllR`) — the invariant of the no-panic (`GridCalm`) theorems,
  threaded here through `gridMain ▸ gridStep7 ▸ step7Mid` next to the finiteness invariant (Lemmas/FiniteGridCalm1.lean).

  About the hypothesis.  `GridCalm` itself is defined as ABSENCE OF PANICS (`GridNoPanic`), which does not speak about the
  items' track ranges (an empty range `lo > hi` does not panic in the model, it lengthens the vector).  The statements
  therefore use what the `GridCalm` theorems are PROVED from:
    * one container: `SetupRanges style cs inputs` — whenever the setup (steps 2–5) succeeds, every item's track range is
      non-empty and inside its axis' vector; `EvalGrid.gridSafeB s cs = true` (the decidable check behind `gridCalmB`)
      implies it for every input (`grid_setup_ranges_of_gridSafeB`);
    * trees: `C03Fin.GridCalmS t` — every node has finite grid fields and every grid container with children passes
      `gridSafeB`; it implies `GridCalm t` (`gridCalmS_gridCalm`).
  No condition on the alignment is left; `TreeFin` (aspect ratio non-zero) and finite grid fields remain (`_partial`).
-/
import TaffyVerif.Lemmas.FiniteGridCalm2
import TaffyVerif.Lemmas.EvalGridSort
import TaffyVerif.Props.C03FiniteGrid

namespace C03Finite
open C03Fin GridModel GridTracks EvalGrid

/-- **grid_sizing_finite_calm**: one run of `track_sizing_algorithm`, ANY alignment: finite arguments, tracks and items,
an odd number of entries in the other axis' vector, every item's track range non-empty and inside the axis' vector ⇒ only
finite queries, finite tracks and items, and the run keeps the items' frames and the lengths of both vectors -/
theorem grid_sizing_finite_calm (a : RunArgs ER) (st : RunState ER) (ha : RunArgsFinC a) (hst : StFin st)
    (hodd : st.otherAxisTracks.length % 2 = 1) (hall : AllR a.axis st.axisTracks.length st.items) :
    FinG (fun r => StFin r ∧ RunQ st r) (trackSizingAlgorithmM a st) := sizingFin_calm ha hst hodd hall

/-- the lengths alone: a run under `AllR` keeps an odd axis vector odd and an odd other vector odd -/
theorem grid_sizing_keeps_odd (a : RunArgs ER) (st : RunState ER) (ha : RunArgsFinC a) (hst : StFin st)
    (hodd : st.otherAxisTracks.length % 2 = 1) (hodd' : st.axisTracks.length % 2 = 1)
    (hall : AllR a.axis st.axisTracks.length st.items) :
    FinG (fun r => r.axisTracks.length % 2 = 1 ∧ r.otherAxisTracks.length % 2 = 1) (trackSizingAlgorithmM a st) :=
  FinG_mono (fun r h => ⟨by rw [h.2.2.1]; exact hodd', by rw [h.2.2.2]; exact hodd⟩) (sizingFin_calm ha hst hodd hall)

/-- a finiteness statement and a no-panic (`GSafe`) statement about the same grid program combine -/
theorem grid_finite_and_safe {β : Type} {Q R : β → Prop} {p : GM ER β} (h1 : FinG Q p) (h2 : GSafe R p) :
    FinG (fun b => Q b ∧ R b) p := FinG_and_GSafe h1 h2

section
variable [NumCast ER]

/-- everything after the setup, any alignment, from a `SetupCalm` result -/
theorem grid_main_finite_calm (style : GridStyle ER) (cs : List (GridChildStyle ER)) (inputs : LayoutInput ER)
    (su : Setup ER) (hs : StyleFin style.base) (hcs : ∀ s ∈ cs, StyleFin s.base) (hi : InFin inputs)
    (hsu : SetupCalm su) : FinG OutFin (gridMain style cs inputs su) := FinG_gridMain_calm hs hcs hi hsu

/-- the setup's result is finite and has `2·n + 1` track entries per axis, whenever the setup does not panic -/
theorem grid_setup_result (style : GridStyle ER) (cs : List (GridChildStyle ER)) (inputs : LayoutInput ER) (su : Setup ER)
    (hs : GridStyleFinC style) (hcs : ∀ s ∈ cs, StyleFin s.base)
    (hsu : ∀ {γ : Type} (k : Setup ER → GM ER γ), gridSetupK style cs inputs k = k su) :
    SetupFin su ∧ su.columns.length % 2 = 1 ∧ su.rows.length % 2 = 1 := setup_result hs hcs fin_style_default @hsu

/-- **grid_finite_calm_partial**: `compute_grid_layout` for a finite container style (grid fields included; ANY content
alignment, `space-between` included), finite child styles and a finite input, under the range invariant of the setup: every
`LayoutInput` passed to a child, every `Layout` set and the output are finite on every run -/
theorem grid_finite_calm_partial (style : GridStyle ER) (cs : List (GridChildStyle ER)) (inputs : LayoutInput ER)
    (hs : GridStyleFinC style) (hcs : ∀ c ∈ cs, StyleFin c.base) (hi : InFin inputs)
    (hR : SetupRanges style cs inputs) : FinP OutFin (computeGridLayout style cs inputs) :=
  FinP_computeGridLayout_calm style cs inputs hs hcs fin_style_default hi hR

/-- `gridSafeB` gives the range invariant of the setup, for every input -/
theorem grid_setup_ranges_of_gridSafeB (s : Style ER) (cs : List (Style ER)) (h : gridSafeB s cs = true)
    (inp : LayoutInput ER) : SetupRanges (GridStyle.ofStyle s) (cs.map GridChildStyle.ofStyle) inp :=
  setupRanges_of_gridSafeB s cs h inp

/-- **algFin_grid_calm_partial**: the evaluator's grid algorithm at a container that passes `gridSafeB`, any alignment -/
theorem algFin_grid_calm_partial (s : Style ER) (cs : List (Style ER)) (inp : LayoutInput ER) (hs : StyleFin s)
    (hg : GridExtFin s.grid) (hsafe : gridSafeB s cs = true) (hcs : StylesFin cs) (hi : InFin inp) :
    FinP OutFin (GridModel.gridAlg s cs inp) := FinP_gridAlg_calm fin_style_default s cs inp hs hg hsafe hcs hi

variable {C : Type}
open Eval RootModel

/-- `GridCalmS` (every grid container with children passes `gridSafeB`) implies `GridCalm` -/
theorem gridCalmS_gridCalm (t : STree ER) (h : GridCalmS t) : GridCalm t := GridCalm_of_GridCalmS t h

/-- **eval_finite_all_trees_calm_partial**: `compute_child_layout` on ANY style tree (leaf, block, flexbox, grid — all
concrete, any alignment), for every cache implementation with a finiteness invariant, every fuel, every state with finite
layouts and cache entries and every finite input: finite output, finite layouts at every node and finite cache entries.
`_partial`: `TreeFin` (aspect ratios non-zero) and `GridCalmS` (finite grid fields; grid containers pass `gridSafeB`) -/
theorem eval_finite_all_trees_calm_partial (ci : CacheImpl ER C) (I : C → Prop) (hci : CacheFin ci I) (fuel : Nat)
    (t : STree ER) (ns : NS ER C) (inp : LayoutInput ER) (ht : TreeFin t) (hg : GridCalmS t) (hns : NSFin I ns)
    (hi : InFin inp) :
    OutFin (evalNode ci (EvalConcrete.algs FlexModel.computeFlexboxLayout GridModel.gridAlg) fuel t ns inp).1 ∧
    NSFin I (evalNode ci (EvalConcrete.algs FlexModel.computeFlexboxLayout GridModel.gridAlg) fuel t ns inp).2 :=
  fin_evalNodeWithS hci _ EvalBlock.docSel_real (fun _ _ _ hi hs hm => fin_leafAlg hi hs hm) algFin_block algFin_flex
    (fun s cs inp hs hg hsafe hcs hi => algFin_grid_calm_partial s cs inp hs hg hsafe hcs hi) fuel t ns inp ht hg hns hi

/-- **root_pass_finite_all_trees_calm_partial** (C03's finiteness clause for every style tree, any alignment): one
`compute_root_layout` pass over a freshly built tree with the real nine-slot cache: the root's `Layout` and the unrounded
`Layout` stored at EVERY node are finite -/
theorem root_pass_finite_all_trees_calm_partial (fuel : Nat) (t : STree ER) (av : Size (AvailableSpace ER))
    (ht : TreeFin t) (hg : GridCalmS t) (ha : SAvFin av) :
    let r := evalNode realCache (EvalConcrete.algs FlexModel.computeFlexboxLayout GridModel.gridAlg) fuel t
      (NS.init realCache t) (rootInput t.style av)
    LayFin (rootLayout t.style av r.1) ∧ ∀ p k, C05.nsAt r.2 p = some k → LayFin k.layout := by
  have hst : StyleFin t.style := by cases t; exact ht.1
  obtain ⟨h1, h2⟩ := eval_finite_all_trees_calm_partial realCache RealCacheFin cacheFin_realCache fuel t
    (NS.init realCache t) (rootInput t.style av) ht hg (fin_init cacheFin_realCache t) (fin_rootInput hst ha)
  exact ⟨fin_rootLayout hst ha h1, fun p k e => NSFin_at RealCacheFin p _ k h2 e⟩

/-- the same after any number of further passes with finite inputs (relayout on warm caches) -/
theorem relayout_finite_all_trees_calm_partial (t : STree ER) (ht : TreeFin t) (hg : GridCalmS t) :
    ∀ (passes : List (Nat × LayoutInput ER)), (∀ q ∈ passes, InFin q.2) →
      NSFin RealCacheFin (passes.foldl
        (fun ns q => (evalNode realCache (EvalConcrete.algs FlexModel.computeFlexboxLayout GridModel.gridAlg) q.1 t ns
          q.2).2) (NS.init realCache t)) := by
  intro passes
  suffices h : ∀ ns, NSFin RealCacheFin ns → (∀ q ∈ passes, InFin q.2) →
      NSFin RealCacheFin (passes.foldl
        (fun ns q => (evalNode realCache (EvalConcrete.algs FlexModel.computeFlexboxLayout GridModel.gridAlg) q.1 t ns
          q.2).2) ns) from
    h _ (fin_init cacheFin_realCache t)
  induction passes with
  | nil => intro ns h _; exact h
  | cons q rest ih =>
    intro ns h hq
    simp only [List.foldl_cons]
    exact ih _ (eval_finite_all_trees_calm_partial realCache RealCacheFin cacheFin_realCache q.1 t ns q.2 ht hg h
      (hq q (List.mem_cons_self ..))).2 (fun q' hq' => hq q' (List.mem_cons_of_mem _ hq'))

end

/-! ### non-vacuity: a grid with `justify-content: space-between` (and `align-content: space-between`) -/

/-- Rust `x as u16` at the extended numbers: truncates, saturates, NaN ↦ 0 (only used by `auto-fill`/`auto-fit` counts) -/
@[reducible] def erNumCast : NumCast ER :=
  ⟨fun x => match x with
    | .fin q => NumCast.toU16Sat q
    | .pinf => 65535
    | _ => 0⟩

attribute [local instance] erNumCast

/-- grid container, `justify-content: space-between; align-content: space-between`, columns `1fr auto fit-content(100px)`,
implicit rows `min-content` -/
def sGridSB : Style ER :=
  { sGrid.base with justifyContent := some .spaceBetween, alignContent := some .spaceBetween,
                    grid := { templateColumns := [.single ⟨.auto, .fr (.fin 1)⟩, .single ⟨.auto, .auto⟩,
                                                   .single ⟨.auto, .fitContentPx (.fin 100)⟩],
                              autoRows := [⟨.minContent, .minContent⟩] } }

/-- an item spanning two columns, an auto-placed item, an absolutely positioned child, a hidden child -/
def kidsSB : List (STree ER) :=
  [.node { sGood with grid := { column := ⟨.line 1, .span 2⟩ } } (some (.wrap (.fin 120) (.fin 16))) [],
   .node (Style.default : Style ER) (some (.fixed (.fin 12) (.fin 8))) [],
   .node { sGood with position := .absolute, inset := ⟨.length (.fin 5), .auto, .auto, .percent (.fin (1/10))⟩ } none [],
   .node { (Style.default : Style ER) with display := .none } none []]

def tGridSB : STree ER := .node sGridSB none kidsSB

/-- the root is outside `grid_finite_partial` of part 3 … -/
theorem tGridSB_space_between : sGridSB.justifyContent = some .spaceBetween ∧
    sGridSB.alignContent = some .spaceBetween := ⟨rfl, rfl⟩

/-- … and passes the executable check -/
theorem tGridSB_safe : gridSafeB sGridSB (kidsSB.map STree.style) = true := by decide +kernel

/-- **tGridSB_ok**: the hypotheses of the `…_calm_partial` theorems hold of the `space-between` grid -/
theorem tGridSB_ok : TreeFin tGridSB ∧ GridCalmS tGridSB := by
  have hd : ∀ g : GridExt ER, g.templateRows = [] → g.templateColumns = [] → g.autoRows = [] → g.autoColumns = [] →
      GridExtFin g := by
    intro g h1 h2 h3 h4
    constructor <;> simp [h1, h2, h3, h4]
  have hroot : GridExtFin sGridSB.grid := by
    constructor
    · simp [sGridSB]
    · intro d hd'
      simp only [sGridSB, List.mem_cons, List.not_mem_nil, or_false] at hd'
      rcases hd' with rfl | rfl | rfl <;> exact ⟨trivial, trivial⟩
    · intro f hf
      simp only [sGridSB, List.mem_cons, List.not_mem_nil, or_false] at hf
      subst hf
      exact ⟨trivial, trivial⟩
    · simp [sGridSB]
  have hsB : StyleFin sGridSB := { sGrid_fin.base with }
  refine ⟨?_, ?_⟩
  · simp only [tGridSB, kidsSB, TreeFin, TreeListFin, and_true]
    refine ⟨hsB, ?_, ⟨{ sGood_fin with }, ?_⟩, ⟨fin_style_default, ?_⟩, ⟨?_, ?_⟩, ⟨?_, ?_⟩⟩
    all_goals first
      | (intro m hm'; cases hm'; try exact ⟨trivial, trivial⟩)
      | (constructor <;> simp [sGood, Style.default, fin_simp, RLPAFin, RLPFin, SLPAFin, SLPFin, zero_def, one_def])
  · have hsafe := tGridSB_safe
    simp only [tGridSB, GridCalmS]
    refine ⟨hroot, fun _ _ => hsafe, ?_⟩
    simp only [kidsSB, GridCalmSList, GridCalmS, and_true]
    refine ⟨⟨hd _ rfl rfl rfl rfl, ?_⟩, ⟨hd _ rfl rfl rfl rfl, ?_⟩, ⟨hd _ rfl rfl rfl rfl, ?_⟩, hd _ rfl rfl rfl rfl, ?_⟩
    all_goals (intro _ h; exact absurd rfl h)

/-- the instance: one root pass over the `space-between` grid at `400 × max-content` leaves only finite layouts -/
theorem tGridSB_root_pass_finite (fuel : Nat) :
    let r := Eval.evalNode Eval.realCache (EvalConcrete.algs FlexModel.computeFlexboxLayout GridModel.gridAlg) fuel
      tGridSB (Eval.NS.init Eval.realCache tGridSB) (RootModel.rootInput tGridSB.style ⟨.definite (.fin 400), .maxContent⟩)
    LayFin (RootModel.rootLayout tGridSB.style ⟨.definite (.fin 400), .maxContent⟩ r.1) ∧
    ∀ p k, C05.nsAt r.2 p = some k → LayFin k.layout :=
  root_pass_finite_all_trees_calm_partial fuel tGridSB ⟨.definite (.fin 400), .maxContent⟩ tGridSB_ok.1 tGridSB_ok.2
    ⟨trivial, trivial⟩

/-- **tGridSB_evaluated**: the instance evaluated by the kernel, independently of the theorems (on `gridAlgK` = `gridAlg`,
Lemmas/EvalGridSort.lean): root `400 × 238`; the spanning item, the auto-placed item (pushed to the right edge by
`space-between`: `x = 385`), the absolutely positioned child, the hidden child — every number finite -/
theorem tGridSB_evaluated :
    let r := Eval.evalNode Eval.noCache (EvalConcrete.algs FlexModel.computeFlexboxLayout GridModel.gridAlg) 3
      tGridSB (Eval.NS.init Eval.noCache tGridSB) (RootModel.rootInput tGridSB.style ⟨.definite (.fin 400), .maxContent⟩)
    r.1.size = ⟨.fin 400, .fin 238⟩ ∧
    (C05.nsAt r.2 [0]).map (fun k => (k.layout.location, k.layout.size)) =
      some (⟨.fin (766/5), .fin (269/2)⟩, ⟨.fin (1159/5), .fin (199/2)⟩) ∧
    (C05.nsAt r.2 [1]).map (fun k => (k.layout.location, k.layout.size)) =
      some (⟨.fin 385, .fin 40⟩, ⟨.fin 12, .fin 198⟩) ∧
    (C05.nsAt r.2 [2]).map (fun k => (k.layout.location, k.layout.size)) =
      some (⟨.fin 5, .fin (546/5)⟩, ⟨.fin 245, .fin 105⟩) ∧
    (C05.nsAt r.2 [3]).map (fun k => (k.layout.location, k.layout.size)) =
      some (⟨.fin 0, .fin 0⟩, ⟨.fin 0, .fin 0⟩) := by
  rw [EvalGrid.gridAlg_eq_gridAlgK]
  decide +kernel

end C03Finite

/-
  Obligations to audit (`#print axioms`; all depend on [propext, Classical.choice, Quot.sound] at most):
  C03FINITE_GRID2_THEOREMS = [
    "C03Finite.grid_finite_calm_partial", "C03Finite.algFin_grid_calm_partial",
    "C03Finite.eval_finite_all_trees_calm_partial", "C03Finite.root_pass_finite_all_trees_calm_partial",
    "C03Finite.relayout_finite_all_trees_calm_partial",
    "C03Finite.grid_sizing_finite_calm", "C03Finite.grid_sizing_keeps_odd", "C03Finite.grid_finite_and_safe",
    "C03Finite.grid_main_finite_calm", "C03Finite.grid_setup_result", "C03Finite.grid_setup_ranges_of_gridSafeB",
    "C03Finite.gridCalmS_gridCalm",
    "C03Finite.tGridSB_space_between", "C03Finite.tGridSB_safe", "C03Finite.tGridSB_ok", "C03Finite.tGridSB_root_pass_finite",
    "C03Finite.tGridSB_evaluated",
  ]
-/
