/-
  C15 — Relayout is lazy: clean subtrees are not recomputed, dirtiness is exact.

  Part A (this file, flat model `Model/Dirty.lean`): every mutator of `TaffyTree`, with the `mark_dirty` call it makes
  **as extracted from the source** (`Gen.Facts.dirty_*`), preserves the invariant `K`
      (a) a measure entry never outlives the final entry,
      (b) below a clean box-generating node every child is clean,
  which implies `I` (a dirty node's parent is dirty or `display:none`) — exactly what makes `mark_dirty`'s early exit
  sound; and a mutation dirties exactly the ancestor chain of its target.
  Part B (`Props/C15Pass.lean`, rose-tree model): every resolution of a layout pass preserves `K` and leaves every
  node reachable without crossing a `display:none` node clean.
-/
import TaffyVerif.Lemmas.Dirty

namespace C15
open Dirty

/-! ### what the proofs need from the extracted table (breaks when a `mark_dirty` call disappears or moves) -/

theorem facts :
    Gen.Facts.dirty_set_style = .node ∧ Gen.Facts.dirty_set_node_context = .node ∧
    Gen.Facts.dirty_add_child = .parent ∧ Gen.Facts.dirty_insert_child_at_index = .parent ∧
    Gen.Facts.dirty_set_children = .parent ∧ Gen.Facts.dirty_remove_child_at_index = .parent ∧
    Gen.Facts.dirty_remove_children_range = .parent ∧ Gen.Facts.dirty_replace_child_at_index = .parent ∧
    Gen.Facts.dirty_remove = .parent := by decide

theorem I_of_K {s : St} (k : K s) : I s := Dirty.I_of_K k

/-- `applyDirty` with target `x`: restores `KX … E` from `KX … (E ∨ · = x)` -/
theorem applyDirty_some (E : Nat → Prop) (s s' : St) (t : Gen.Facts.DirtyTarget) (node parent x : Nat)
    (ht : dirtyTarget t node parent = some x)
    (kx : KX s (fun q => E q ∨ q = x)) (h : applyDirty s t node parent = some s') :
    KX s' E ∧ s'.dirty x = true ∧ SameShape s s' ∧
    (∀ m, s'.fin m = true → s.fin m = true) ∧ (∀ m, s'.meas m = true → s.meas m = true) ∧
    (∀ m, m ∉ chain (s.next + 1) s x → s'.fin m = s.fin m ∧ s'.meas m = s.meas m) := by
  unfold applyDirty at h
  rw [ht] at h
  exact markDirty_spec E _ s x s' kx h

/-- removing edges and clearing flags of nodes that are nobody's clean parent keeps `KX` -/
theorem KX_of_fewer_edges {s t : St} {E : Nat → Prop} (k : KX s E)
    (hpar : ∀ x q, t.parent x = some q → s.parent x = some q)
    (hfin : t.fin = s.fin) (hmeas : t.meas = s.meas) (hhid : t.hidden = s.hidden) : KX t E := by
  refine ⟨?_, ?_⟩
  · intro n h; rw [hmeas] at h; rw [hfin]; exact k.a n h
  · intro x q hx hf hh
    rw [hfin] at hf ⊢; rw [hhid] at hh
    exact k.b x q (hpar x q hx) hf hh

theorem foldl_upd_none (l : List Nat) (f : Nat → Option Nat) (x q : Nat)
    (h : (l.foldl (fun g c => upd g c none) f) x = some q) : f x = some q := by
  induction l generalizing f with
  | nil => exact h
  | cons c l ih =>
    have := ih (upd f c none) h
    by_cases hxc : x = c
    · subst hxc; simp at this
    · rwa [upd_other _ _ _ _ hxc] at this

/-- **Every mutator preserves `K`** (whenever it returns normally: `none` is a panic/error path or exhausted fuel). -/
theorem step_preserves_K (s s' : St) (op : Op) (k : K s) (h : step s op = some s') : K s' := by
  obtain ⟨f1, f2, f3, f4, f5, f6, f7, f8, f9⟩ := facts
  cases op with
  | newLeaf hd =>
    simp only [step, Option.some.injEq] at h
    subst h
    refine ⟨?_, ?_⟩
    · intro n hn
      by_cases hnn : n = s.next
      · subst hnn; simp at hn
      · simp only [upd_other _ _ _ _ hnn] at hn ⊢; exact k.a n hn
    · intro x p hx hf hh
      by_cases hpn : p = s.next
      · subst hpn; simp at hf
      · by_cases hxn : x = s.next
        · subst hxn; simp at hx
        · simp only [upd_other _ _ _ _ hxn, upd_other _ _ _ _ hpn] at hx hf hh ⊢
          exact k.b x p hx hf hh
  | setStyle n hd =>
    simp only [step] at h
    have kx : KX { s with hidden := upd s.hidden n hd } (fun q => False ∨ q = n) := by
      refine ⟨k.a, ?_⟩
      intro x p hx hf hh
      by_cases hpn : p = n
      · exact Or.inr (Or.inr hpn)
      · left; exact k.b x p hx hf (by simpa [upd_other _ _ _ _ hpn] using hh)
    exact (applyDirty_some _ _ s' _ n n n (by rw [f1]; rfl) kx h).1.toK
  | setContext n =>
    simp only [step] at h
    exact (applyDirty_some _ _ s' _ n n n (by rw [f2]; rfl) ((k.toX _)) h).1.toK
  | addChild p c =>
    simp only [step] at h
    have kx : KX { s with parent := upd s.parent c (some p), children := upd s.children p (s.children p ++ [c]) }
        (fun q => False ∨ q = p) := by
      refine ⟨k.a, ?_⟩
      intro x q hx hf hh
      by_cases hxc : x = c
      · subst hxc; simp at hx; exact Or.inr (Or.inr hx.symm)
      · left; exact k.b x q (by simpa [upd_other _ _ _ _ hxc] using hx) hf hh
    exact (applyDirty_some _ _ s' _ c p p (by rw [f3]; rfl) kx h).1.toK
  | insertChild p i c =>
    simp only [step] at h
    split at h
    · cases h
    · have kx : KX { s with parent := upd s.parent c (some p),
                              children := upd s.children p (insertAt (s.children p) i c) }
          (fun q => False ∨ q = p) := by
        refine ⟨k.a, ?_⟩
        intro x q hx hf hh
        by_cases hxc : x = c
        · subst hxc; simp at hx; exact Or.inr (Or.inr hx.symm)
        · left; exact k.b x q (by simpa [upd_other _ _ _ _ hxc] using hx) hf hh
      exact (applyDirty_some _ _ s' _ c p p (by rw [f4]; rfl) kx h).1.toK
  | removeChildAt p i =>
    simp only [step] at h
    split at h
    · cases h
    · rename_i c _
      have kx : KX { s with children := upd s.children p ((s.children p).eraseIdx i), parent := upd s.parent c none }
          (fun q => False ∨ q = p) := by
        refine KX_of_fewer_edges (s := s) (k.toX _) ?_ rfl rfl rfl
        intro x q hx
        by_cases hxc : x = c
        · subst hxc; simp at hx
        · simpa [upd_other _ _ _ _ hxc] using hx
      exact (applyDirty_some _ _ s' _ c p p (by rw [f6]; rfl) kx h).1.toK
  | replaceChildAt p i c =>
    simp only [step] at h
    split at h
    · cases h
    · rename_i old _
      have kx : KX { s with children := upd s.children p ((s.children p).set i c),
                              parent := upd (upd s.parent c (some p)) old none }
          (fun q => False ∨ q = p) := by
        refine ⟨k.a, ?_⟩
        intro x q hx hf hh
        by_cases hxo : x = old
        · subst hxo; simp at hx
        · simp only [upd_other _ _ _ _ hxo] at hx
          by_cases hxc : x = c
          · subst hxc; simp at hx; exact Or.inr (Or.inr hx.symm)
          · left; exact k.b x q (by simpa [upd_other _ _ _ _ hxc] using hx) hf hh
      exact (applyDirty_some _ _ s' _ c p p (by rw [f8]; rfl) kx h).1.toK
  | removeRange p a b =>
    simp only [step] at h
    split at h
    · cases h
    · have kx : KX { s with children := upd s.children p ((s.children p).take a ++ (s.children p).drop b),
                              parent := (((s.children p).drop a).take (b - a)).foldl (fun f c => upd f c none) s.parent }
          (fun q => False ∨ q = p) := by
        refine KX_of_fewer_edges (s := s) (k.toX _) ?_ rfl rfl rfl
        intro x q hx
        exact foldl_upd_none _ _ x q hx
      exact (applyDirty_some _ _ s' _ p p p (by rw [f7]; rfl) kx h).1.toK
  | markDirty n =>
    simp only [step] at h
    exact (markDirty_spec _ _ s n s' (k.toX _) h).1.toK
  | remove n =>
    simp only [step] at h
    -- first half: detach from the parent and mark it dirty
    have key : ∀ st : St, K st → st.next = s.next →
        K { st with parent := upd ((st.children n).foldl (fun f c => upd f c none) st.parent) n none,
                    children := upd st.children n [], live := upd st.live n false,
                    fin := upd st.fin n false, meas := upd st.meas n false } := by
      intro st kst _
      refine ⟨?_, ?_⟩
      · intro x hx
        by_cases hxn : x = n
        · subst hxn; simp at hx
        · simp only [upd_other _ _ _ _ hxn] at hx ⊢; exact kst.a x hx
      · intro x q hx hf hh
        by_cases hxn : x = n
        · subst hxn; simp at hx
        · simp only [upd_other _ _ _ _ hxn] at hx ⊢
          have hx' := foldl_upd_none _ _ x q hx
          by_cases hqn : q = n
          · subst hqn; simp at hf
          · simp only [upd_other _ _ _ _ hqn] at hf
            exact kst.b x q hx' hf hh
    cases hp : s.parent n with
    | none =>
      rw [hp] at h
      simp only [Option.map_some, Option.some.injEq] at h
      subst h
      exact key s k rfl
    | some p =>
      rw [hp] at h
      simp only [Option.map_eq_some_iff] at h
      obtain ⟨st, hst, hs'⟩ := h
      subst hs'
      have kx : KX { s with children := upd s.children p ((s.children p).filter (· ≠ n)) } (fun q => False ∨ q = p) :=
        KX_of_fewer_edges (k.toX _) (fun _ _ h => h) rfl rfl rfl
      obtain ⟨kst, _, hshape, _⟩ := applyDirty_some _ _ st _ n p p (by rw [f9]; rfl) kx hst
      exact key st kst.toK hshape.1
  | setChildren p cs =>
    simp only [step] at h
    -- the fold keeps "K except edges into p"
    have fold_inv : ∀ (l : List Nat) (acc : Option St) (r : St),
        (∀ st, acc = some st → KX st (fun q => q = p)) →
        l.foldl (fun (acc : Option St) c =>
          match acc with
          | none => none
          | some st =>
            let st' := match st.parent c with
              | some prev => removeChild st prev c
              | none => some st
            st'.map fun st2 => { st2 with parent := upd st2.parent c (some p) }) acc = some r →
        KX r (fun q => q = p) := by
      intro l
      induction l with
      | nil => intro acc r hacc hr; exact hacc r hr
      | cons c l ih =>
        intro acc r hacc hr
        simp only [List.foldl_cons] at hr
        apply ih _ r _ hr
        intro st hst
        cases acc with
        | none => simp at hst
        | some st0 =>
          have k0 := hacc st0 rfl
          simp only at hst
          -- after the optional remove_child we still have KX … (· = p); then the new edge c → p is excepted
          have step1 : ∀ st2, (match st0.parent c with
              | some prev => removeChild st0 prev c
              | none => some st0) = some st2 → KX st2 (fun q => q = p) := by
            intro st2 h2
            cases hpc : st0.parent c with
            | none => rw [hpc] at h2; simp only [Option.some.injEq] at h2; subst h2; exact k0
            | some prev =>
              rw [hpc] at h2
              unfold removeChild at h2
              have kx : KX { st0 with children := upd st0.children prev ((st0.children prev).erase c),
                                      parent := upd st0.parent c none }
                  (fun q => (q = p) ∨ q = prev) := by
                refine KX_of_fewer_edges (s := st0) (k0.mono (fun q h => Or.inl h)) ?_ rfl rfl rfl
                intro x q hx
                by_cases hxc : x = c
                · subst hxc; simp at hx
                · simpa [upd_other _ _ _ _ hxc] using hx
              exact (applyDirty_some _ _ st2 _ c prev prev (by rw [f6]; rfl) kx h2).1
          simp only [Option.map_eq_some_iff] at hst
          obtain ⟨st2, h2, hst⟩ := hst
          subst hst
          have k2 := step1 st2 h2
          refine ⟨k2.a, ?_⟩
          intro x q hx hf hh
          by_cases hxc : x = c
          · subst hxc; simp at hx; exact Or.inr hx.symm
          · exact k2.b x q (by simpa [upd_other _ _ _ _ hxc] using hx) hf hh
    split at h
    · cases h
    · rename_i st hfold
      have k0 : KX { s with parent := (s.children p).foldl (fun f c => upd f c none) s.parent } (fun q => q = p) :=
        KX_of_fewer_edges (k.toX _) (fun x q hx => foldl_upd_none _ _ x q hx) rfl rfl rfl
      have kst := fold_inv cs _ st (by intro st0 h0; simp only [Option.some.injEq] at h0; subst h0; exact k0) hfold
      have kx : KX { st with children := upd st.children p cs } (fun q => False ∨ q = p) :=
        ⟨kst.a, fun x q hx hf hh => (kst.b x q hx hf hh).imp id Or.inr⟩
      exact (applyDirty_some _ _ s' _ p p p (by rw [f5]; rfl) kx h).1.toK

/-- the invariant holds after every history of mutators from the empty tree -/
theorem K_init : K init := ⟨by intro n h; simp [init] at h, by intro n p h; simp [init] at h⟩

def run : List Op → Option St
  | [] => some init
  | op :: h => (run h).bind fun s => step s op

theorem K_reachable (h : List Op) (s : St) (hs : run h = some s) : K s := by
  induction h generalizing s with
  | nil => simp only [run, Option.some.injEq] at hs; subst hs; exact K_init
  | cons op h ih =>
    simp only [run, Option.bind_eq_some_iff] at hs
    obtain ⟨s0, h0, h1⟩ := hs
    exact step_preserves_K s0 s op (ih s0 h0) h1

/-- **mark_dirty early exit is sound**: in every reachable state a dirty node's parent is dirty or display:none. -/
theorem I_reachable (h : List Op) (s : St) (hs : run h = some s) : I s := I_of_K (K_reachable h s hs)

/-- **mutation_dirties_exactly** (for `mark_dirty(x)`, which is what every mutator in the table ends with):
`x` becomes dirty; flags are only ever cleared; nothing outside `x`'s ancestor chain changes; the shape is untouched. -/
theorem mutation_dirties_exactly (s s' : St) (x : Nat) (k : K s) (h : markDirty (s.next + 1) s x = some s') :
    s'.dirty x = true ∧ (∀ m, s.dirty m = true → s'.dirty m = true) ∧
    (∀ m, m ∉ chain (s.next + 1) s x → s'.dirty m = s.dirty m) ∧ SameShape s s' := by
  obtain ⟨_, hd, hshape, hfin, hmeas, hframe⟩ := markDirty_spec (fun _ => False) _ s x s' (k.toX _) h
  refine ⟨hd, ?_, ?_, hshape⟩
  · intro m hm
    simp only [St.dirty, Bool.and_eq_true, Bool.not_eq_eq_eq_not, Bool.not_true] at hm ⊢
    constructor
    · cases hh : s'.fin m with
      | false => rfl
      | true => rw [hfin m hh] at hm; exact absurd hm.1 (by simp)
    · cases hh : s'.meas m with
      | false => rfl
      | true => rw [hmeas m hh] at hm; exact absurd hm.2 (by simp)
  · intro m hm
    obtain ⟨h1, h2⟩ := hframe m hm
    simp [St.dirty, h1, h2]

/-- `BoxAnc s x a`: `a` is `x` or an ancestor of `x` reached through box-generating (not `display:none`) parents -/
inductive BoxAnc (s : St) : Nat → Nat → Prop where
  | refl (x : Nat) : BoxAnc s x x
  | step {x y q : Nat} : BoxAnc s x y → s.parent y = some q → s.hidden q = false → BoxAnc s x q

/-- after `mark_dirty(x)` the target and **all** its ancestors up to the first `display:none` one are dirty
(this is where the invariant is used: the walk stops early at an already-dirty node, above which everything is
dirty already) -/
theorem ancestors_dirty (s s' : St) (x : Nat) (k : K s) (h : markDirty (s.next + 1) s x = some s') :
    ∀ a, BoxAnc s x a → s'.dirty a = true := by
  obtain ⟨k', hd, hshape, _⟩ := markDirty_spec (fun _ => False) _ s x s' (k.toX _) h
  have hI := Dirty.I_of_K k'.toK
  intro a ha
  induction ha with
  | refl => exact hd
  | @step y q _ hp hh ih =>
    have hp' : s'.parent y = some q := by rw [hshape.2.2.1]; exact hp
    rcases hI y q hp' ih with h1 | h1
    · exact h1
    · rw [hshape.2.2.2.2, hh] at h1; cases h1

/-- an already dirty target: the call changes nothing at all -/
theorem already_dirty_noop (s : St) (x : Nat) (fuel : Nat) (hd : s.dirty x = true) :
    markDirty (fuel + 1) s x = some s := by
  simp [markDirty, hd]

/-! ### non-vacuity: a three-node chain, all clean, then `set_style` on the leaf -/
def exS : St :=
  { next := 3, live := fun i => decide (i < 3),
    parent := fun i => if i = 2 then some 1 else if i = 1 then some 0 else none,
    children := fun i => if i = 0 then [1] else if i = 1 then [2] else [],
    hidden := fun _ => false, fin := fun i => decide (i < 3), meas := fun _ => false }

example : K exS := by
  refine ⟨by intro n h; simp [exS] at h, ?_⟩
  intro n p hp hf _
  simp only [exS] at hp hf ⊢
  split at hp
  · subst_vars; simp
  · split at hp
    · subst_vars; simp
    · cases hp
example : (step exS (.setStyle 2 false)).isSome = true := by decide
example : BoxAnc exS 2 0 :=
  .step (y := 1) (.step (y := 2) (.refl 2) (by decide) rfl) (by decide) rfl

end C15
