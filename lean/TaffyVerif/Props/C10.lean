/-
  C10 — Block flow: children stack in order, fill the width, sibling margins collapse.

  Model: `BlockModel` (Model/Block.lean) = src/compute/block.rs.  The theorems are about the in-flow pass
  (`perform_final_layout_on_in_flow_children`) with the children's answers universally quantified:
  `flowTrace c items st outs` is the pure unfolding of the loop for an arbitrary list `outs` of child outputs, and
  `flowLoop_is_flowTrace` shows that running the loop *program* against any (stateful) oracle for the child queries is
  `flowTrace` on the oracle's answers.  "Adjacent in-flow children a, b" = `flowTrace … = l1 ++ a :: b :: l2`
  (absolutely positioned and `display:none` children never enter the trace).

  `flowY t` is `location.y` of the layout set for the child minus its relative-inset offset; with `top`/`bottom` auto it
  is `location.y` (`flowY_eq_location_y`).  Heights are the heights the children reported (`layout.size = out.size`).
-/
import TaffyVerif.Lemmas.Block
import Mathlib.Tactic.NormNum

namespace C10
open BlockModel

/-! ## data for the non-vacuity examples -/

/-- a plain in-flow block item with vertical margins `mt`, `mb` -/
def exItem (idx : Nat) (mt mb : Rat) : BlockItem Rat :=
  { nodeIdx := idx, order := idx, isTable := false, size := ⟨none, none⟩, minSize := ⟨none, none⟩,
    maxSize := ⟨none, none⟩, overflow := ⟨.visible, .visible⟩, scrollbarWidth := 0, position := .relative,
    inset := ⟨.auto, .auto, .auto, .auto⟩, margin := ⟨.length 0, .length 0, .length mt, .length mb⟩,
    padding := ⟨0, 0, 0, 0⟩, border := ⟨0, 0, 0, 0⟩, paddingBorderSum := ⟨0, 0⟩, computedSize := ⟨0, 0⟩,
    staticPosition := ⟨0, 0⟩, canBeCollapsedThrough := false }

def exCtx : FlowCtx Rat :=
  { containerOuterWidth := 100, contentBoxInset := ⟨0, 0, 0, 0⟩, resolvedContentBoxInset := ⟨0, 0, 0, 0⟩,
    textAlign := .auto, ownMarginsCollapseWithChildren := ⟨false, false⟩ }

def exOut (h : Rat) (top bottom : MarginSet Rat) (ct : Bool) : LayoutOutput Rat :=
  { size := ⟨100, h⟩, contentSize := ⟨0, 0⟩, firstBaselines := ⟨none, none⟩, topMargin := top, bottomMargin := bottom,
    marginsCanCollapseThrough := ct }

/-! ## the loop program is its pure unfolding (any oracle) -/

/-- Running `perform_final_layout_on_in_flow_children`'s loop against *any* oracle (σ = oracle state: cache, trace, …):
there is one answer per in-flow item such that the layouts set are exactly those of `flowTrace` on these answers, in
order, and the final loop state is `flowFinal`. -/
theorem flowLoop_is_flowTrace {σ : Type} (orc : σ → Nat → LayoutInput Rat → LayoutOutput Rat × σ) (c : FlowCtx Rat)
    (items : List (BlockItem Rat)) (st : FlowState Rat) (s : σ) :
    ∃ outs : List (LayoutOutput Rat), outs.length = inFlowCount items ∧
      (runProg orc (flowLoop c items st) s).2.2 = stepSets (flowTrace c items st outs) ∧
      (runProg orc (flowLoop c items st) s).1.2 = flowFinal c items st outs :=
  BlockModel.flowLoop_is_flowTrace orc c items st s

/-- **The whole algorithm.**  In any `PerformLayout` run of `compute_block_layout` against any oracle, the layouts set
for the children begin with exactly the `flowTrace` layouts — for the container's outer width `w` (the known width when
there is one), the items generated from the child styles, and one oracle answer per in-flow child — followed by the
layouts of the absolutely positioned and hidden children (`tail`).  So the clauses below, proved about `flowTrace`, are
about the layouts the real algorithm sets. -/
theorem block_layout_sets_are_flowTrace {σ : Type} (orc : σ → Nat → LayoutInput Rat → LayoutOutput Rat × σ)
    (style : Style Rat) (childStyles : List (Style Rat)) (inputs : LayoutInput Rat) (s : σ)
    (hmode : inputs.runMode = .performLayout) :
    ∃ (w : Rat) (outs : List (LayoutOutput Rat)) (tail : List (Nat × Layout Rat)),
      (∀ w', (styledBasedKnownDimensions style inputs).width = some w' → w = w') ∧
      outs.length = inFlowCount (generateItemList childStyles
        (innerCtx style { inputs with knownDimensions := styledBasedKnownDimensions style inputs }).containerContentBoxSize) ∧
      (runProg orc (computeBlockLayout style childStyles inputs) s).2.2
        = stepSets (flowTrace
            (flowCtxOf style (innerCtx style { inputs with knownDimensions := styledBasedKnownDimensions style inputs }) w)
            (generateItemList childStyles
              (innerCtx style { inputs with knownDimensions := styledBasedKnownDimensions style inputs }).containerContentBoxSize)
            (flowCtxOf style (innerCtx style { inputs with knownDimensions := styledBasedKnownDimensions style inputs })
              w).initState outs) ++ tail :=
  computeBlockLayout_sets orc style childStyles inputs s hmode

/-- every step of the trace is `placeItem` of its own data, so the layout's size is the reported size -/
theorem trace_layout_size (c : FlowCtx Rat) (items : List (BlockItem Rat)) (st : FlowState Rat)
    (outs : List (LayoutOutput Rat)) (t : FlowStep Rat) (ht : t ∈ flowTrace c items st outs) :
    t.placed.layout.size = t.out.size := by
  rw [linked_mem c _ st (flowTrace_linked c items st outs) t ht]; rfl

theorem flowY_eq_location_y (t : FlowStep Rat) (h : insetOffsetY t.item = 0) :
    flowY t = t.placed.layout.location.y := by
  unfold flowY; rw [h]; simp

/-- `top`/`bottom` insets auto ⇒ no vertical inset offset -/
theorem insetOffsetY_auto (item : BlockItem Rat) (ht : item.inset.top = .auto) (hb : item.inset.bottom = .auto) :
    insetOffsetY item = 0 := by
  simp [insetOffsetY, ht, hb, LPA.maybeResolve]

/-! ## (1) document order, no overlap -/

/-- the vertical margins adjoining a child are all non-negative: its own top/bottom margin (auto counts as 0) and the
margin sets it reports (margins of descendants that collapse with its own) -/
structure NonNegMargins (c : FlowCtx Rat) (t : FlowStep Rat) : Prop where
  top : 0 ≤ (itemMargin c t.item).top.getD 0
  bottom : 0 ≤ (itemMargin c t.item).bottom.getD 0
  outTop : NonNegSet t.out.topMargin
  outBottom : NonNegSet t.out.bottomMargin

theorem stepNonNeg_of_margins (c : FlowCtx Rat) (t : FlowStep Rat) (h : NonNegMargins c t) : StepNonNeg c t :=
  ⟨nonNegSet_collapseWithMargin _ _ h.outTop h.top, nonNegSet_collapseWithMargin _ _ h.outBottom h.bottom⟩

/-- **Children stack in document order without overlapping.**  In the in-flow pass of a block container, if every
in-flow child has non-negative adjoining margins and is collapse-sound (reports "can be collapsed through" only with
height 0), then for adjacent in-flow children `a`, `b`: `y_b ≥ y_a + h_a` (positions without the relative-inset
offset). -/
theorem stack_order_no_overlap (c : FlowCtx Rat) (items : List (BlockItem Rat)) (outs : List (LayoutOutput Rat))
    (l1 l2 : List (FlowStep Rat)) (a b : FlowStep Rat)
    (htr : flowTrace c items c.initState outs = l1 ++ a :: b :: l2)
    (hnn : ∀ t ∈ flowTrace c items c.initState outs, NonNegMargins c t)
    (hcs : ∀ t ∈ flowTrace c items c.initState outs, CollapseSound t.out) :
    flowY a + a.out.size.height ≤ flowY b := by
  have hl := flowTrace_linked c items c.initState outs
  rw [htr] at hl hnn hcs
  obtain ⟨h1, h2⟩ := linked_append c l1 (a :: b :: l2) _ hl
  have hinv := (linked_inv c (fun st => NonNegSet st.activeCollapsibleMarginSet) l1 c.initState h1 nonNegSet_zero
    (fun t ht hb => active_nonNeg_step c t (linked_mem c l1 _ h1 t ht)
      (stepNonNeg_of_margins c t (hnn t (by simp [ht]))) hb)).2
  obtain ⟨x1, x2, y1, y2, _⟩ := h2
  exact no_overlap_two c _ a b ⟨x1, x2, y1, y2, trivial⟩ hinv
    (stepNonNeg_of_margins c a (hnn a (by simp))) (stepNonNeg_of_margins c b (hnn b (by simp))) (hcs a (by simp))

/-- the same in terms of the layouts set for the children, when neither child has a vertical relative inset -/
theorem stack_order_no_overlap_layout (c : FlowCtx Rat) (items : List (BlockItem Rat)) (outs : List (LayoutOutput Rat))
    (l1 l2 : List (FlowStep Rat)) (a b : FlowStep Rat)
    (htr : flowTrace c items c.initState outs = l1 ++ a :: b :: l2)
    (hnn : ∀ t ∈ flowTrace c items c.initState outs, NonNegMargins c t)
    (hcs : ∀ t ∈ flowTrace c items c.initState outs, CollapseSound t.out)
    (hia : insetOffsetY a.item = 0) (hib : insetOffsetY b.item = 0) :
    a.placed.layout.location.y + a.placed.layout.size.height ≤ b.placed.layout.location.y := by
  have h := stack_order_no_overlap c items outs l1 l2 a b htr hnn hcs
  rw [flowY_eq_location_y a hia, flowY_eq_location_y b hib] at h
  rw [trace_layout_size c items c.initState outs a (by rw [htr]; simp)]
  exact h

/-- non-vacuity of `stack_order_no_overlap`: two 10-high boxes with margins 10/5 and 20/0 -/
example : ∃ a b, flowTrace exCtx [exItem 0 10 5, exItem 1 20 0] exCtx.initState
      [exOut 10 ⟨0, 0⟩ ⟨0, 0⟩ false, exOut 10 ⟨0, 0⟩ ⟨0, 0⟩ false] = [] ++ a :: b :: [] ∧
    (∀ t ∈ [a, b], NonNegMargins exCtx t) ∧ (∀ t ∈ [a, b], CollapseSound t.out) := by
  refine ⟨_, _, rfl, ?_, ?_⟩
  · intro t ht
    simp only [List.mem_cons, List.mem_nil_iff, or_false] at ht
    rcases ht with rfl | rfl <;>
      exact ⟨by norm_num [itemMargin, exItem, LPA.resolveToOption], by norm_num [itemMargin, exItem, LPA.resolveToOption],
        ⟨by norm_num [exOut], rfl⟩, ⟨by norm_num [exOut], rfl⟩⟩
  · intro t ht
    simp only [List.mem_cons, List.mem_nil_iff, or_false] at ht
    rcases ht with rfl | rfl <;> intro h <;> simp [exOut] at h

/-! ## (2) stretch-fit width -/

/-- **An auto-width child fills the content box.**  A child with `width: auto`, no min/max width, no aspect ratio, not a
table, and non-auto horizontal margins resolving to `ml`, `mr` is asked, in the final pass, to be exactly
`content-box width − (ml + mr)` wide. -/
theorem stretch_fit_width (c : FlowCtx Rat) (idx order : Nat) (cs : Style Rat) (inner : Size (Option Rat)) (ml mr : Rat)
    (hw : cs.size.width = .auto) (hmin : cs.minSize.width = .auto) (hmax : cs.maxSize.width = .auto)
    (har : cs.aspectRatio = none) (htbl : cs.itemIsTable = false)
    (hml : cs.margin.left.resolveToOption c.containerOuterWidth = some ml)
    (hmr : cs.margin.right.resolveToOption c.containerOuterWidth = some mr) :
    (itemInput c (generateItem idx order cs inner)).knownDimensions.width
      = some (c.containerInnerWidth - (ml + mr)) := by
  simp [itemInput, itemKnownDimensions, generateItem, resolveStyleSize, Resolve.sizeMaybe, hw, hmin, hmax, har, htbl,
    Size.maybeApplyAspectRatio, Size.of_add, MaybeMath.of_add, LPA.maybeResolve, Size.oo_clamp, MaybeMath.oo_clamp,
    MaybeMath.fo_clamp, itemNonAutoXMarginSum, itemMargin, hml, hmr]

/-- … hence a child that honours the known width the way every taffy algorithm does (`max(known, padding + border)`)
is exactly that wide whenever that is at least its own padding plus border, and its margin box fills the content box. -/
theorem stretch_fit_reported_width (c : FlowCtx Rat) (st : FlowState Rat) (idx order : Nat) (cs : Style Rat)
    (inner : Size (Option Rat)) (ml mr pb : Rat) (out : LayoutOutput Rat)
    (hml : cs.margin.left.resolveToOption c.containerOuterWidth = some ml)
    (hmr : cs.margin.right.resolveToOption c.containerOuterWidth = some mr)
    (hhon : out.size.width = Num.fmax (c.containerInnerWidth - (ml + mr)) pb)
    (hpb : pb ≤ c.containerInnerWidth - (ml + mr)) :
    let l := (placeItem c st (generateItem idx order cs inner) out).layout
    l.size.width = c.containerInnerWidth - (ml + mr) ∧
    l.margin.left + l.size.width + l.margin.right = c.containerInnerWidth := by
  have hwid : out.size.width = c.containerInnerWidth - (ml + mr) := by
    rw [hhon, rat_fmax]; exact max_eq_left hpb
  simp only [placeItem, generateItem, itemMargin, hml, hmr, Option.getD_some, hwid]
  constructor
  · trivial
  · ring

/-- auto-width child with margins 5 and 10 in a 100-wide content box is asked to be 85 wide -/
example : (itemInput exCtx (generateItem 0 0
      { (Style.default : Style Rat) with display := .block, margin := ⟨.length 5, .length 10, .length 0, .length 0⟩ }
      ⟨some 100, none⟩)).knownDimensions.width = some 85 := by
  rw [stretch_fit_width exCtx 0 0 _ _ 5 10 rfl rfl rfl rfl rfl rfl rfl]
  norm_num [FlowCtx.containerInnerWidth, exCtx, Rect.horizontalAxisSum]

/-! ## (3) the gap between siblings is the collapsed margin -/

/-- **Sibling margins collapse.**  Adjacent in-flow siblings `a`, `b`, neither collapsed through: the distance from the
bottom edge of `a` to the top edge of `b` is the collapsed margin of `a`'s bottom margin set and `b`'s top margin set —
the most positive plus the most negative of all adjoining margins — not their sum. -/
theorem sibling_gap_is_collapsed_margin (c : FlowCtx Rat) (items : List (BlockItem Rat)) (st : FlowState Rat)
    (outs : List (LayoutOutput Rat)) (l1 l2 : List (FlowStep Rat)) (a b : FlowStep Rat)
    (htr : flowTrace c items st outs = l1 ++ a :: b :: l2)
    (ha : a.out.marginsCanCollapseThrough = false) :
    flowY b - (flowY a + a.out.size.height)
      = ((bottomMarginSet c a.item a.out).collapseWithSet (topMarginSet c b.item b.out)).resolve := by
  have hl := flowTrace_linked c items st outs
  rw [htr] at hl
  obtain ⟨_, h2⟩ := linked_append c l1 (a :: b :: l2) _ hl
  obtain ⟨x1, x2, y1, y2, _⟩ := h2
  exact gap_through c _ a b [] ⟨x1, x2, y1, y2, trivial⟩ ha (by simp)

/-- the collapsed margin spelled out: most positive + most negative over both sets -/
theorem collapsed_margin_is_max_plus_min (s o : MarginSet Rat) :
    (s.collapseWithSet o).resolve = max s.positive o.positive + min s.negative o.negative := by
  simp [MarginSet.collapseWithSet, MarginSet.resolve, rat_fmax, rat_fmin]

/-- **Empty boxes between siblings.**  `a` not collapsed through, then any number of collapsed-through boxes `mid`, then
`b`: the gap between `a`'s bottom edge and `b`'s top edge is the collapsed margin of *all* margins in between (the
boxes in `mid` contribute their top and bottom sets and no height). -/
theorem sibling_gap_through_empty_boxes (c : FlowCtx Rat) (items : List (BlockItem Rat)) (st : FlowState Rat)
    (outs : List (LayoutOutput Rat)) (l1 l2 mid : List (FlowStep Rat)) (a b : FlowStep Rat)
    (htr : flowTrace c items st outs = l1 ++ a :: (mid ++ b :: l2))
    (ha : a.out.marginsCanCollapseThrough = false)
    (hmid : ∀ m ∈ mid, m.out.marginsCanCollapseThrough = true) :
    flowY b - (flowY a + a.out.size.height)
      = ((collapsedThrough c (bottomMarginSet c a.item a.out) mid).collapseWithSet
          (topMarginSet c b.item b.out)).resolve := by
  have hl := flowTrace_linked c items st outs
  rw [htr] at hl
  obtain ⟨_, h2⟩ := linked_append c l1 (a :: (mid ++ b :: l2)) _ hl
  have h3 : Linked c (endState st l1) ((a :: (mid ++ [b])) ++ l2) := by simpa using h2
  exact gap_through c _ a b mid (linked_append c _ l2 _ h3).1 ha hmid

/-- two plain margins `x`, `y` collapse to: the larger if both are non-negative, the more negative if both are negative,
their sum otherwise -/
theorem collapse_two_margins (x y : Rat) :
    (((MarginSet.zero : MarginSet Rat).collapseWithMargin x).collapseWithSet
        ((MarginSet.zero : MarginSet Rat).collapseWithMargin y)).resolve
      = if 0 ≤ x ∧ 0 ≤ y then max x y else if x < 0 ∧ y < 0 then min x y else x + y := by
  rcases le_or_gt 0 x with hx | hx <;> rcases le_or_gt 0 y with hy | hy
  · simp [MarginSet.zero, MarginSet.collapseWithMargin, MarginSet.collapseWithSet, MarginSet.resolve, rat_fge, rat_fmax,
      rat_fmin, hx, hy]
  · have hy' : ¬ (0 ≤ y) := not_le.mpr hy
    simp [MarginSet.zero, MarginSet.collapseWithMargin, MarginSet.collapseWithSet, MarginSet.resolve, rat_fge, rat_fmax,
      rat_fmin, hx, hy', not_lt.mpr hx, le_of_lt hy]
  · have hx' : ¬ (0 ≤ x) := not_le.mpr hx
    simp [MarginSet.zero, MarginSet.collapseWithMargin, MarginSet.collapseWithSet, MarginSet.resolve, rat_fge, rat_fmax,
      rat_fmin, hy, hx', not_lt.mpr hy, le_of_lt hx]
    exact add_comm y x
  · have hx' : ¬ (0 ≤ x) := not_le.mpr hx
    have hy' : ¬ (0 ≤ y) := not_le.mpr hy
    simp [MarginSet.zero, MarginSet.collapseWithMargin, MarginSet.collapseWithSet, MarginSet.resolve, rat_fge, rat_fmax,
      rat_fmin, hx', hy', hx, hy, le_of_lt hx, le_of_lt hy]

/-- **Two plain margins.**  Adjacent siblings that report no margins of their own descendants (leaves, flex and grid
containers, blocks whose margins do not collapse with their children's): the gap is the larger of the two margins if
both are non-negative, the more negative if both are negative, their sum otherwise. -/
theorem sibling_gap_two_margins (c : FlowCtx Rat) (items : List (BlockItem Rat)) (st : FlowState Rat)
    (outs : List (LayoutOutput Rat)) (l1 l2 : List (FlowStep Rat)) (a b : FlowStep Rat)
    (htr : flowTrace c items st outs = l1 ++ a :: b :: l2)
    (ha : a.out.marginsCanCollapseThrough = false)
    (hab : a.out.bottomMargin = MarginSet.zero) (hbt : b.out.topMargin = MarginSet.zero) :
    let x := (itemMargin c a.item).bottom.getD 0
    let y := (itemMargin c b.item).top.getD 0
    flowY b - (flowY a + a.out.size.height)
      = if 0 ≤ x ∧ 0 ≤ y then max x y else if x < 0 ∧ y < 0 then min x y else x + y := by
  intro x y
  rw [sibling_gap_is_collapsed_margin c items st outs l1 l2 a b htr ha]
  unfold bottomMarginSet topMarginSet
  rw [hab, hbt]
  exact collapse_two_margins x y

def ex16Items : List (BlockItem Rat) := [exItem 0 0 (-8), exItem 1 (-5) 0]
def ex16Outs : List (LayoutOutput Rat) := [exOut 10 ⟨0, 0⟩ ⟨10, 0⟩ false, exOut 10 ⟨20, 0⟩ ⟨0, 0⟩ false]

/-- defect-16 witness: margin sets {10, −8} / {20, −5} → gap 12 (not 7, not the sum) -/
example : ∃ a b, flowTrace exCtx ex16Items exCtx.initState ex16Outs = [] ++ a :: b :: [] ∧
    a.out.marginsCanCollapseThrough = false ∧ flowY b - (flowY a + a.out.size.height) = 12 := by
  refine ⟨_, _, rfl, rfl, ?_⟩
  rw [sibling_gap_is_collapsed_margin exCtx ex16Items exCtx.initState ex16Outs [] [] _ _ rfl rfl,
    collapsed_margin_is_max_plus_min]
  norm_num [bottomMarginSet, topMarginSet, itemMargin, exItem, exOut, LPA.resolveToOption, MarginSet.collapseWithMargin,
    rat_fge, rat_fmax, rat_fmin]

def exEmptyItems : List (BlockItem Rat) := [exItem 0 0 10, exItem 1 (5/2) (-20), exItem 2 5 0]
def exEmptyOuts : List (LayoutOutput Rat) :=
  [exOut 10 ⟨0, 0⟩ ⟨0, 0⟩ false, exOut 0 ⟨0, 0⟩ ⟨0, 0⟩ true, exOut 10 ⟨0, 0⟩ ⟨0, 0⟩ false]

/-- an empty (collapsed-through) box with margins 2.5 / −20 between two boxes with margins 10 and 5 -/
example : ∃ a m b, flowTrace exCtx exEmptyItems exCtx.initState exEmptyOuts = [] ++ a :: ([m] ++ b :: []) ∧
    a.out.marginsCanCollapseThrough = false ∧ (∀ x ∈ [m], x.out.marginsCanCollapseThrough = true) ∧
    flowY b - (flowY a + a.out.size.height) = -10 := by
  have hm : ∀ x ∈ [(⟨(placeItem exCtx exCtx.initState (exItem 0 0 10) (exOut 10 ⟨0, 0⟩ ⟨0, 0⟩ false)).st,
      exItem 1 (5/2) (-20), exOut 0 ⟨0, 0⟩ ⟨0, 0⟩ true,
      placeItem exCtx (placeItem exCtx exCtx.initState (exItem 0 0 10) (exOut 10 ⟨0, 0⟩ ⟨0, 0⟩ false)).st
        (exItem 1 (5/2) (-20)) (exOut 0 ⟨0, 0⟩ ⟨0, 0⟩ true)⟩ : FlowStep Rat)],
      x.out.marginsCanCollapseThrough = true := by
    intro x hx; simp only [List.mem_cons, List.mem_nil_iff, or_false] at hx; subst hx; rfl
  refine ⟨_, _, _, rfl, rfl, hm, ?_⟩
  rw [sibling_gap_through_empty_boxes exCtx exEmptyItems exCtx.initState exEmptyOuts [] [] _ _ _ rfl rfl hm,
    collapsed_margin_is_max_plus_min]
  norm_num [collapsedThrough, bottomMarginSet, topMarginSet, itemMargin, exItem, exOut, LPA.resolveToOption,
    MarginSet.collapseWithMargin, MarginSet.collapseWithSet, rat_fge, rat_fmax, rat_fmin]

/-- non-vacuity: leaves with margin-bottom 10 and margin-top −8 end up 2 apart; 10 and 5 → 10; −8 and −5 → −8 -/
example : (((MarginSet.zero : MarginSet Rat).collapseWithMargin 10).collapseWithSet
    ((MarginSet.zero : MarginSet Rat).collapseWithMargin (-8))).resolve = 2 := by
  rw [collapse_two_margins]; norm_num
example : (((MarginSet.zero : MarginSet Rat).collapseWithMargin 10).collapseWithSet
    ((MarginSet.zero : MarginSet Rat).collapseWithMargin 5)).resolve = 10 := by
  rw [collapse_two_margins]; norm_num
example : (((MarginSet.zero : MarginSet Rat).collapseWithMargin (-8)).collapseWithSet
    ((MarginSet.zero : MarginSet Rat).collapseWithMargin (-5))).resolve = -8 := by
  rw [collapse_two_margins]; norm_num

/-! ## CollapseSound -/

/-- **The block algorithm is collapse-sound**: whatever the children answer (any oracle, any oracle state), a block
container that reports `margins_can_collapse_through` has height 0.  (Since repository commit 0961b7f this needs no
hypothesis on the style or on the children.) -/
theorem block_collapse_sound {σ : Type} (orc : σ → Nat → LayoutInput Rat → LayoutOutput Rat × σ) (style : Style Rat)
    (childStyles : List (Style Rat)) (inputs : LayoutInput Rat) (s : σ) :
    CollapseSound (runProg orc (computeBlockLayout style childStyles inputs) s).1 :=
  allResults_run orc CollapseSound _ (computeBlockLayout_allResults style childStyles inputs) s

/-- the premise of `block_collapse_sound` is satisfiable: a block whose only child is an empty box is collapsed through -/
example : (runPure (fun _ _ => exOut 0 ⟨0, 0⟩ ⟨0, 0⟩ true)
      (computeBlockLayout { (Style.default : Style Rat) with display := .block }
        [{ (Style.default : Style Rat) with display := .block }]
        { runMode := .performLayout, sizingMode := .inherentSize, axis := .both, knownDimensions := ⟨some 100, none⟩,
          parentSize := ⟨some 100, none⟩, availableSpace := ⟨.definite 100, .minContent⟩,
          verticalMarginsAreCollapsible := ⟨true, true⟩ })).1.marginsCanCollapseThrough = true := by
  decide +kernel

/-- **A leaf is collapse-sound**: leaf.rs sets the flag to
`!has_styles_preventing_being_collapsed_through && size.height == 0.0 && measured_size.height == 0.0`. -/
theorem leaf_collapse_sound (prevent : Bool) (size measured : Size Rat)
    (h : leafCollapseFlag prevent size measured = true) : size.height = 0 := by
  simp only [leafCollapseFlag, Bool.and_eq_true, rat_feq, decide_eq_true_eq] at h
  exact h.1.2

/-- non-vacuity: a leaf without preventing styles, zero height and zero measured height is collapsed through -/
example : leafCollapseFlag false (⟨100, 0⟩ : Size Rat) ⟨100, 0⟩ = true := by decide +kernel

end C10
