/-
  C10, tree level: the independent specification `Spec/MarginCollapse.lean` (written from CSS 2.1 §8.3.1)
    (a) speaks about the same collapsed margin as the model's margin algebra (`MarginSet`, tree/layout.rs),
    (b) is not vacuous: it accepts the layouts CSS prescribes for two concrete trees and rejects the layouts in which
        the margins of nested boxes are added up (what a cache entry computed with `vertical_margins_are_collapsible =
        false` and reused by the final pass produces),
    (c) its one-level sibling clause is the statement of `C10.sibling_gap_is_collapsed_margin` about Model/Block.lean.
-/
import TaffyVerif.Spec.MarginCollapse
import TaffyVerif.Props.C10

namespace C10Tree
open MarginCollapse BlockModel

/-! ## (a) the collapsed value of a list of adjoining margins = `MarginSet.resolve` of folding it into a `MarginSet` -/

/-- the list of adjoining margins folded into the implementation's representation, one `collapse_with_margin` each -/
def toSet (ms : List Rat) : MarginSet Rat := ms.foldl (fun s m => s.collapseWithMargin m) MarginSet.zero

theorem maxStep_eq (a m : Rat) : (if a < m then m else a) = max a m := by
  rcases lt_or_ge a m with h | h
  · simp [h, max_eq_right (le_of_lt h)]
  · simp [not_lt.mpr h, max_eq_left h]

theorem minStep_eq (a m : Rat) : (if m < a then m else a) = min a m := by
  rcases lt_or_ge m a with h | h
  · simp [h, min_eq_right (le_of_lt h)]
  · simp [not_lt.mpr h, min_eq_left h]

/-- folding `max` from `x ≥ 0` = `max x (maxOr0 ms)` -/
theorem foldl_maxStep (ms : List Rat) : ∀ x : Rat, 0 ≤ x →
    ms.foldl (fun a m => if a < m then m else a) x = max x (maxOr0 ms) := by
  induction ms with
  | nil => intro x hx; simp [maxOr0, max_eq_left hx]
  | cons m rest ih =>
    intro x hx
    have h0 : (0 : Rat) ≤ max 0 m := le_max_left _ _
    have hx' : (0 : Rat) ≤ max x m := le_trans hx (le_max_left _ _)
    simp only [List.foldl_cons, maxOr0, maxStep_eq]
    have e1 := ih (max x m) hx'
    have e2 := ih (max 0 m) h0
    simp only [maxOr0, maxStep_eq] at e1 e2
    rw [e1, e2]
    rw [max_assoc, max_assoc 0 m, ← max_assoc x 0, max_eq_left hx]

theorem foldl_minStep (ms : List Rat) : ∀ x : Rat, x ≤ 0 →
    ms.foldl (fun a m => if m < a then m else a) x = min x (minOr0 ms) := by
  induction ms with
  | nil => intro x hx; simp [minOr0, min_eq_left hx]
  | cons m rest ih =>
    intro x hx
    have h0 : min 0 m ≤ (0 : Rat) := min_le_left _ _
    have hx' : min x m ≤ (0 : Rat) := le_trans (min_le_left _ _) hx
    simp only [List.foldl_cons, minOr0, minStep_eq]
    have e1 := ih (min x m) hx'
    have e2 := ih (min 0 m) h0
    simp only [minOr0, minStep_eq] at e1 e2
    rw [e1, e2]
    rw [min_assoc, min_assoc 0 m, ← min_assoc x 0, min_eq_left hx]

theorem maxOr0_nonneg (ms : List Rat) : 0 ≤ maxOr0 ms := by
  have h := foldl_maxStep ms 0 (le_refl _)
  have : maxOr0 ms = max 0 (maxOr0 ms) := h
  rw [this]; exact le_max_left _ _

theorem minOr0_nonpos (ms : List Rat) : minOr0 ms ≤ 0 := by
  have h := foldl_minStep ms 0 (le_refl _)
  have : minOr0 ms = min 0 (minOr0 ms) := h
  rw [this]; exact min_le_left _ _

theorem maxOr0_append (a b : List Rat) : maxOr0 (a ++ b) = max (maxOr0 a) (maxOr0 b) := by
  unfold maxOr0
  rw [List.foldl_append]
  exact foldl_maxStep b _ (maxOr0_nonneg a)

theorem minOr0_append (a b : List Rat) : minOr0 (a ++ b) = min (minOr0 a) (minOr0 b) := by
  unfold minOr0
  rw [List.foldl_append]
  exact foldl_minStep b _ (minOr0_nonpos a)

/-- one `collapse_with_margin` step on the two components -/
theorem collapseWithMargin_parts (s : MarginSet Rat) (m : Rat) (hp : 0 ≤ s.positive) (hn : s.negative ≤ 0) :
    (s.collapseWithMargin m).positive = max s.positive m ∧ (s.collapseWithMargin m).negative = min s.negative m := by
  rcases le_or_gt 0 m with h | h
  · simp [MarginSet.collapseWithMargin, rat_fge, rat_fmax, h, min_eq_left (le_trans hn h)]
  · simp [MarginSet.collapseWithMargin, rat_fge, rat_fmin, not_le.mpr h, max_eq_left (le_trans (le_of_lt h) hp)]

theorem foldl_collapse_parts (ms : List Rat) : ∀ s : MarginSet Rat, 0 ≤ s.positive → s.negative ≤ 0 →
    (ms.foldl (fun s m => s.collapseWithMargin m) s).positive = ms.foldl (fun a m => if a < m then m else a) s.positive ∧
    (ms.foldl (fun s m => s.collapseWithMargin m) s).negative = ms.foldl (fun a m => if m < a then m else a) s.negative := by
  induction ms with
  | nil => intro s _ _; simp
  | cons m rest ih =>
    intro s hp hn
    obtain ⟨e1, e2⟩ := collapseWithMargin_parts s m hp hn
    have hp' : 0 ≤ (s.collapseWithMargin m).positive := by rw [e1]; exact le_trans hp (le_max_left _ _)
    have hn' : (s.collapseWithMargin m).negative ≤ 0 := by rw [e2]; exact le_trans (min_le_left _ _) hn
    have := ih (s.collapseWithMargin m) hp' hn'
    simp only [List.foldl_cons, maxStep_eq, minStep_eq] at this ⊢
    rw [this.1, this.2, e1, e2]
    exact ⟨rfl, rfl⟩

theorem toSet_positive (ms : List Rat) : (toSet ms).positive = maxOr0 ms :=
  (foldl_collapse_parts ms MarginSet.zero (le_refl _) (le_refl _)).1

theorem toSet_negative (ms : List Rat) : (toSet ms).negative = minOr0 ms :=
  (foldl_collapse_parts ms MarginSet.zero (le_refl _) (le_refl _)).2

/-- **(a)** The specification's value of a set of adjoining margins — largest positive minus largest |negative| — is
what the implementation's margin algebra computes: `resolve` of the margins folded in with `collapse_with_margin`. -/
theorem collapsed_eq_resolve_fold (ms : List Rat) : collapsed ms = (toSet ms).resolve := by
  simp [collapsed, MarginSet.resolve, toSet_positive, toSet_negative]

/-- … and uniting two sets with `collapse_with_set` is the specification's union (list append) of the adjoining margins;
by `C10.collapsed_margin_is_max_plus_min` -/
theorem collapsed_append_eq_collapseWithSet (a b : List Rat) :
    collapsed (a ++ b) = ((toSet a).collapseWithSet (toSet b)).resolve := by
  rw [C10.collapsed_margin_is_max_plus_min]
  simp [collapsed, toSet_positive, toSet_negative, maxOr0_append, minOr0_append]

/-- the set a child reports united with the child's own margin = the fold of the longer list -/
theorem toSet_append (a b : List Rat) : toSet (a ++ b) = (toSet a).collapseWithSet (toSet b) := by
  have hp : (toSet (a ++ b)).positive = ((toSet a).collapseWithSet (toSet b)).positive := by
    simp [MarginSet.collapseWithSet, rat_fmax, toSet_positive, maxOr0_append]
  have hn : (toSet (a ++ b)).negative = ((toSet a).collapseWithSet (toSet b)).negative := by
    simp [MarginSet.collapseWithSet, rat_fmin, toSet_negative, minOr0_append]
  cases h1 : toSet (a ++ b); cases h2 : (toSet a).collapseWithSet (toSet b)
  simp_all

/-- two plain margins: the larger if both are non-negative, the more negative if both are negative, else their sum
(the wording of the property) -/
theorem collapsed_pair (x y : Rat) :
    collapsed [x, y] = if 0 ≤ x ∧ 0 ≤ y then max x y else if x < 0 ∧ y < 0 then min x y else x + y := by
  have h := collapsed_append_eq_collapseWithSet [x] [y]
  have e : ∀ z : Rat, toSet [z] = (MarginSet.zero : MarginSet Rat).collapseWithMargin z := fun _ => rfl
  rw [e, e, C10.collapse_two_margins] at h
  exact h

/-- non-negative adjoining margins collapse to a non-negative distance: boxes placed by the `siblingGap` clause follow
each other without overlap -/
theorem collapsed_nonneg (ms : List Rat) (h : ∀ m ∈ ms, 0 ≤ m) : 0 ≤ collapsed ms := by
  have hmin : minOr0 ms = 0 := by
    induction ms with
    | nil => rfl
    | cons m rest ih =>
      have hm : 0 ≤ m := h m (by simp)
      have ih' := ih (fun x hx => h x (by simp [hx]))
      have := foldl_minStep rest (min 0 m) (min_le_left _ _)
      simp only [minOr0, List.foldl_cons, minStep_eq] at this ih' ⊢
      rw [this, ih', min_eq_left hm]; simp
  rw [collapsed, hmin]
  simpa using maxOr0_nonneg ms

/-! ## (c) the one-level clause of the specification and the model of block.rs -/

/-- the specification's clause for two consecutive in-flow children through which margins do not collapse: if `flow`
finds nothing to object to, the second one's top border edge is the collapsed value of (bottom set of the first ∪ top set
of the second) below the first one's bottom border edge -/
theorem flow_pair_gap (p : Box) (atTop solid : Bool) (edge : Rat) (pending : List Rat) (idx : Nat) (a b : Tree)
    (rest : List Tree) (ha : a.box.inFlow = true) (hb : b.box.inFlow = true)
    (hat : collapsesThrough a = false) (hbt : collapsesThrough b = false)
    (hok : flow p atTop solid edge pending idx (a :: b :: rest) = []) :
    b.box.y - (a.box.y + a.box.h) = collapsed (bottomSet a ++ topSet b) := by
  simp only [flow, ha, hb, hat, hbt, Bool.not_true, Bool.false_eq_true, if_false, List.append_eq_nil_iff] at hok
  obtain ⟨_, ⟨_, hy⟩, _⟩ := hok
  have hy' : b.box.y = a.box.y + a.box.h + collapsed (bottomSet a ++ topSet b) := by
    by_contra hne
    have : (b.box.y != a.box.y + a.box.h + collapsed (bottomSet a ++ topSet b)) = true := by simpa using hne
    simp [this] at hy
  rw [hy']; ring

/-- the first in-flow child: at the container's content edge when its margins adjoin the container's top margin
(`atTop`), the collapsed value of its adjoining top margins below it otherwise -/
theorem flow_first_child (p : Box) (atTop : Bool) (edge : Rat) (idx : Nat) (c : Tree) (rest : List Tree)
    (hc : c.box.inFlow = true) (hok : flow p atTop false edge [] idx (c :: rest) = []) :
    c.box.y = if atTop then edge else edge + collapsed (topSet c) := by
  cases hct : collapsesThrough c <;>
    simp [flow, hc, hct] at hok <;> exact hok.2.1

/-- **(c)** Model/Block.lean places sibling `b` where the specification's `siblingGap` clause wants it: whenever the margin
sets the model works with are the folds of the specification's adjoining lists (`A` below `a`, `B` above `b`), the
model's gap is `collapsed (A ++ B)` — the right-hand side of `flow_pair_gap`.  (From
`C10.sibling_gap_is_collapsed_margin`.) -/
theorem model_sibling_gap_is_spec_gap (c : FlowCtx Rat) (items : List (BlockItem Rat)) (st : FlowState Rat)
    (outs : List (LayoutOutput Rat)) (l1 l2 : List (FlowStep Rat)) (a b : FlowStep Rat) (A B : List Rat)
    (htr : flowTrace c items st outs = l1 ++ a :: b :: l2)
    (ha : a.out.marginsCanCollapseThrough = false)
    (hA : bottomMarginSet c a.item a.out = toSet A) (hB : topMarginSet c b.item b.out = toSet B) :
    flowY b - (flowY a + a.out.size.height) = collapsed (A ++ B) := by
  rw [C10.sibling_gap_is_collapsed_margin c items st outs l1 l2 a b htr ha, hA, hB, collapsed_append_eq_collapseWithSet]

/-- the same through a run of collapsed-through boxes: their top and bottom sets join the pending margins, as in the
specification's `flow` (from `C10.sibling_gap_through_empty_boxes`) -/
theorem collapsedThrough_toSet (c : FlowCtx Rat) :
    ∀ (mid : List (FlowStep Rat)) (Ms : List (List Rat × List Rat)) (acc : List Rat),
      mid.length = Ms.length →
      (∀ i (h1 : i < mid.length) (h2 : i < Ms.length),
        topMarginSet c mid[i].item mid[i].out = toSet Ms[i].1 ∧ bottomMarginSet c mid[i].item mid[i].out = toSet Ms[i].2) →
      collapsedThrough c (toSet acc) mid = toSet (Ms.foldl (fun l m => l ++ m.1 ++ m.2) acc) := by
  intro mid
  induction mid with
  | nil => intro Ms acc hl _; cases Ms with
    | nil => rfl
    | cons _ _ => simp at hl
  | cons m rest ih =>
    intro Ms acc hl h
    cases Ms with
    | nil => simp at hl
    | cons M Ms =>
      have h0 := h 0 (by simp) (by simp)
      simp only [List.getElem_cons_zero] at h0
      simp only [collapsedThrough, List.foldl_cons, h0.1, h0.2, ← toSet_append]
      apply ih Ms (acc ++ M.1 ++ M.2) (by simpa using hl)
      intro i h1 h2
      have := h (i + 1) (by simp; omega) (by simp; omega)
      simpa using this

theorem model_gap_through_empty_boxes_is_spec_gap (c : FlowCtx Rat) (items : List (BlockItem Rat)) (st : FlowState Rat)
    (outs : List (LayoutOutput Rat)) (l1 l2 mid : List (FlowStep Rat)) (a b : FlowStep Rat) (A B : List Rat)
    (Ms : List (List Rat × List Rat))
    (htr : flowTrace c items st outs = l1 ++ a :: (mid ++ b :: l2))
    (ha : a.out.marginsCanCollapseThrough = false)
    (hmid : ∀ m ∈ mid, m.out.marginsCanCollapseThrough = true)
    (hA : bottomMarginSet c a.item a.out = toSet A) (hB : topMarginSet c b.item b.out = toSet B)
    (hl : mid.length = Ms.length)
    (hM : ∀ i (h1 : i < mid.length) (h2 : i < Ms.length),
        topMarginSet c mid[i].item mid[i].out = toSet Ms[i].1 ∧ bottomMarginSet c mid[i].item mid[i].out = toSet Ms[i].2) :
    flowY b - (flowY a + a.out.size.height) = collapsed (Ms.foldl (fun l m => l ++ m.1 ++ m.2) A ++ B) := by
  rw [C10.sibling_gap_through_empty_boxes c items st outs l1 l2 mid a b htr ha hmid, hA, hB,
    collapsedThrough_toSet c mid Ms A hl hM, collapsed_append_eq_collapseWithSet]

/-! ## (b) non-vacuity: two trees, the layouts CSS prescribes, and the layouts with summed margins -/

/-- a childless block with content `w × h` -/
def leaf (mt mb : Rat) (content : Rat) (y w h : Rat) : Tree :=
  .node { marginTop := mt, marginBottom := mb, content := content, y := y, w := w, h := h } []

/-- **Tree 1** (nested first/last-child margins; the shape of `seed/demo_c10.rs`): a shrink-to-fit block container (root of
its formatting context) with `prev` (20 high, margin-bottom 10), `middle` = plain block { first (margin-top 30, 20 high),
last (margin-bottom 25, 20 high) }, `next` (margin-top 5, 20 high).  Adjoining sets: {10, 0, 30} and {25, 0, 5}. -/
def tree1 (yMiddle hMiddle yFirst yLast yNext hRoot : Rat) : Tree :=
  .node { w := 120, h := hRoot } [
    leaf 0 10 20 0 120 20,
    .node { y := yMiddle, w := 120, h := hMiddle } [leaf 30 0 20 yFirst 120 20, leaf 0 25 20 yLast 120 20],
    leaf 5 0 20 yNext 120 20 ]

/-- CSS: gaps 30 and 25, the grandchildren flush with `middle` -/
def tree1Good : Tree := tree1 50 40 0 20 115 135
/-- margins added up: `middle` was laid out as if it were a formatting-context root (first at 30 inside it, its height
includes both margins) and reported only its own (zero) margins: gaps 10 and 5 around a box of height 95 -/
def tree1Summed : Tree := tree1 30 95 30 50 130 150

theorem tree1_good_ok : TreeOK tree1Good := by decide +kernel
theorem tree1_summed_rejected : ¬ TreeOK tree1Summed := by decide +kernel
theorem tree1_summed_clauses : violations true 0 tree1Summed = [(.siblingGap, 2), (.siblingGap, 5), (.firstChild, 3)] := by decide +kernel

/-- **Tree 2** (collapse-through box, negative margins): container { `a` (10 high, margin-bottom 10),
`middle` = block with margin-top −5 { `p` (margin 20 / 10, 10 high), `e` = empty box with margins 2.5 / −20,
`q` (margin 5 / −8, 10 high) }, `z` (margin-top −5, 10 high) }.
Adjoining sets: a/p {10, −5, 20} → 15;  p/q through e {10, 2.5, −20, 5} → −10;  q/z {−8, 0, −5} → −8. -/
def tree2 (yMiddle hMiddle yP yE yQ yZ hRoot : Rat) : Tree :=
  .node { w := 100, h := hRoot } [
    leaf 0 10 10 0 100 10,
    .node { marginTop := -5, y := yMiddle, w := 100, h := hMiddle } [
      leaf 20 10 10 yP 100 10,
      leaf (5/2) (-20) 0 yE 100 0,
      leaf 5 (-8) 10 yQ 100 10 ],
    leaf (-5) 0 10 yZ 100 10 ]

def tree2Good : Tree := tree2 25 10 0 20 0 27 37
/-- `middle` laid out as a formatting-context root: `p` 20 below its top, its height includes `p`'s top and `q`'s bottom
margin (20 + 10 − 10 + 10 − 8 = 22), and only `middle`'s own margins reach the parent: gaps collapsed [10, −5] = 5 and
collapsed [0, −5] = −5 -/
def tree2Summed : Tree := tree2 15 22 20 40 20 32 42

theorem tree2_good_ok : TreeOK tree2Good := by decide +kernel
theorem tree2_summed_rejected : ¬ TreeOK tree2Summed := by decide +kernel
theorem tree2_summed_clauses : violations true 0 tree2Summed = [(.siblingGap, 2), (.siblingGap, 6), (.firstChild, 3)] := by decide +kernel

/-- the adjoining sets of tree 2, as the text of §8.3.1 gives them -/
example : topSet (tree2Good.kids[1]!) = [-5, 20] ∧ bottomSet (tree2Good.kids[1]!) = [0, -8]
    ∧ collapsed (([10] : List Rat) ++ topSet (tree2Good.kids[1]!)) = 15 := by decide +kernel

end C10Tree
