/-
  C19 — A single leaf is sized by style, content and constraints per the box model.

  Model: `Model/Leaf.lean` (`compute_leaf_layout`, line by line), `Model/Root.lean` (`compute_root_layout`, the dispatch
  of `TaffyView::compute_child_layout`, `compute_hidden_layout`, composed for a tree of one childless node).
  Specification: `Spec/LeafBox.lean` (`Spec.leafBox`, `Spec.measureAvail`), written from the CSS box model.
  All theorems are about the model at `Rat`; the measure function `m` is an arbitrary (pure) function.

  Hypotheses that `leaf_root_spec` needs and why (each excluded corner is replayed on the implementation by
  harness/src/c19.rs `fixed_leaf_cases`, and proved to *violate* the specification below):
    * `0 ≤ padding+border (vertical)`: leaf.rs l.149 floors the height at `0` (`unwrap_or(0.0)`), the width is not.
    * with an aspect ratio `r` (`C19L.ARHyp`):
        - `0 < r`;
        - block root only: `max-size` has both axes definite or neither — `compute_root_layout` transfers a single
          definite max axis through the ratio (mod.rs l.81–85) while `compute_leaf_layout` does not (leaf.rs l.56–57);
        - if the height is not declared: the width is not determined by the padding+border floor — l.149 divides the
          *unfloored* width by the ratio;
        - the specified box is not flatter than its ratio (`width / r ≤ height`) — l.149 re-applies
          `height ≥ width / ratio` *after* clamping and also when the height is declared, so a declared height, a
          max-height or the content-box adjustment that make the box flatter than its ratio are overridden.
-/
import TaffyVerif.Lemmas.LeafBox

namespace C19
open LeafModel RootModel C19L

/-! ## `leaf_root_spec` -/

theorem dispatch_perform (d : Display) :
    dispatchArm .performLayout d false = (match d with | .none => Arm.displayNone | _ => Arm.leaf) := by
  cases d <;> rfl

/-- **The single leaf's layout and its measure calls are the specified ones.** -/
theorem leaf_root_spec (s : Style Rat) (m : MeasureFn) (av : Size (AvailableSpace Rat))
    (hpb : 0 ≤ (Spec.pb s av).height)
    (har : ∀ r, s.aspectRatio = some r → ARHyp s m av r) :
    layoutSingleLeafWith s m av = .ok (Spec.leafBox s m av, Spec.leafMeasureCalls s av) := by
  have hmax := hmax_of s m av har
  obtain ⟨out, hout, hcs, hsz⟩ := leaf_at_root s m av
  rw [Acode_eq s av hmax] at hout hcs hsz
  rw [leaf_size_eq s m av hpb har] at hsz
  have hrm : (rootInput s av).runMode = .performLayout := rfl
  unfold layoutSingleLeafWith computeChildLayoutChildless
  rw [hrm, dispatch_perform]
  cases hd : s.display <;>
    simp only [hd, hout, rootLayout, padding_eq, border_eq, margin_eq, scrollbarSize_eq,
      Spec.leafBox, Spec.leafMeasureCalls, hcs, hsz, LayoutOutput.hidden] <;> rfl

/-- without an aspect ratio the only hypothesis is a non-negative vertical padding + border -/
theorem leaf_root_spec_no_ratio (s : Style Rat) (m : MeasureFn) (av : Size (AvailableSpace Rat))
    (hpb : 0 ≤ (Spec.pb s av).height) (har : s.aspectRatio = none) :
    layoutSingleLeafWith s m av = .ok (Spec.leafBox s m av, Spec.leafMeasureCalls s av) :=
  leaf_root_spec s m av hpb (fun r h => by rw [har] at h; cases h)

/-! ### concrete inputs: the hypotheses are satisfiable, and each excluded corner really fails -/

section examples
def styleOf (f : Style Rat → Style Rat) : Style Rat := f Style.default
def mFixed (w h : Rat) : MeasureFn := fun k _ => ⟨k.width.getD w, k.height.getD h⟩
def maxContent : Size (AvailableSpace Rat) := ⟨.maxContent, .maxContent⟩
def avail (w h : Rat) : Size (AvailableSpace Rat) := ⟨.definite w, .definite h⟩
/-- the size the model answers (`none` = panic) -/
def sizeOf? (r : Traced Rat (Layout Rat)) : Option (Size Rat) :=
  match r with
  | .ok (l, _) => some l.size
  | .error _ => none

/-- block, content-box, 50% width of 400, percentage padding, border, vertical scrollbar, aspect ratio 2, auto height -/
def sGood : Style Rat := styleOf fun s => { s with
  display := .block, boxSizing := .contentBox, size := ⟨.percent (1/2), .auto⟩, aspectRatio := some 2,
  padding := ⟨.length 5, .percent (1/100), .length 3, .length 3⟩, border := ⟨.length 1, .length 1, .length 1, .length 1⟩,
  overflow := ⟨.visible, .scroll⟩, scrollbarWidth := 15, minSize := ⟨.auto, .length 20⟩,
  margin := ⟨.auto, .length (-4), .length 2, .length 2⟩ }

/-- non-vacuity of `leaf_root_spec`: a style with an aspect ratio meets every hypothesis … -/
example : 0 ≤ (Spec.pb sGood (avail 400 300)).height ∧
    ∀ r, sGood.aspectRatio = some r → ARHyp sGood (mFixed 30 10) (avail 400 300) r := by
  refine ⟨by decide +kernel, fun r hr => ?_⟩
  have : r = 2 := by simpa [sGood, styleOf] using hr.symm
  subst this
  exact ⟨by decide +kernel, fun _ => by decide +kernel, fun _ => by decide +kernel, by decide +kernel⟩

/-- … and the resulting box is 211 × 108 (200 + 5 + 4 + 2 wide; height = width / 2 + vertical padding + border) -/
example : (Spec.leafBox sGood (mFixed 30 10) (avail 400 300)).size = ⟨211, 108⟩ := by decide +kernel

/-- corner "both sizes + ratio": size 100 × 10, ratio 1 — the code answers 100 × 100, the specification 100 × 10 -/
def sBoth : Style Rat := styleOf fun s => { s with size := ⟨.length 100, .length 10⟩, aspectRatio := some 1 }
theorem corner_ratio_both_sizes :
    layoutSingleLeafWith sBoth (mFixed 0 0) maxContent ≠
      .ok (Spec.leafBox sBoth (mFixed 0 0) maxContent, Spec.leafMeasureCalls sBoth maxContent) ∧
    (Spec.leafBox sBoth (mFixed 0 0) maxContent).size = ⟨100, 10⟩ ∧
    sizeOf? (layoutSingleLeafWith sBoth (mFixed 0 0) maxContent) = some ⟨100, 100⟩ := by
  decide +kernel

/-- corner "max-height": width 100, ratio 1, max-height 20 on a flex root — the code answers 100 × 100 (max-height is
not honoured), the specification 100 × 20 -/
def sMaxH : Style Rat := styleOf fun s => { s with
  size := ⟨.length 100, .auto⟩, maxSize := ⟨.auto, .length 20⟩, aspectRatio := some 1 }
theorem corner_ratio_max_height :
    (Spec.leafBox sMaxH (mFixed 0 0) maxContent).size = ⟨100, 20⟩ ∧
    sizeOf? (layoutSingleLeafWith sMaxH (mFixed 0 0) maxContent) = some ⟨100, 100⟩ := by
  decide +kernel

/-- the same style on a block root: the root transfers max-height to max-width through the ratio, the answer is 20 × 20 -/
theorem corner_ratio_max_height_block :
    sizeOf? (layoutSingleLeafWith { sMaxH with display := .block } (mFixed 0 0) maxContent) = some ⟨20, 20⟩ := by
  decide +kernel

/-- corner "content-box": content width 100, padding-left 50, ratio 1 — CSS: border box 150 × 100; the code re-applies
the ratio to the border-box width and answers 150 × 150 -/
def sCB : Style Rat := styleOf fun s => { s with
  boxSizing := .contentBox, size := ⟨.length 100, .auto⟩, aspectRatio := some 1,
  padding := ⟨.length 50, .length 0, .length 0, .length 0⟩ }
theorem corner_ratio_content_box :
    (Spec.leafBox sCB (mFixed 0 0) maxContent).size = ⟨150, 100⟩ ∧
    sizeOf? (layoutSingleLeafWith sCB (mFixed 0 0) maxContent) = some ⟨150, 150⟩ := by
  decide +kernel

/-- corner "floored width": flex root, auto sizes, max-width 10 < padding 30, ratio 1 — specified 30 × 30 (ratio of the
used width); the code divides the unfloored width (10) and answers 30 × 10 -/
def sFloor : Style Rat := styleOf fun s => { s with
  maxSize := ⟨.length 10, .auto⟩, aspectRatio := some 1, padding := ⟨.length 30, .length 0, .length 0, .length 0⟩ }
theorem corner_ratio_floored_width :
    (Spec.leafBox sFloor (mFixed 0 0) maxContent).size = ⟨30, 30⟩ ∧
    sizeOf? (layoutSingleLeafWith sFloor (mFixed 0 0) maxContent) = some ⟨30, 10⟩ := by
  decide +kernel
end examples

/-! ## `measure_args` -/

/-- For a box-generating single leaf the measure function is called **exactly once**, with no known dimension and the
available space of leaf.rs l.111–132 evaluated at the root's input (`C19L.Acode`); no hypothesis. -/
theorem measure_called_once (s : Style Rat) (m : MeasureFn) (av : Size (AvailableSpace Rat)) (hd : s.display ≠ .none) :
    ∃ l, layoutSingleLeafWith s m av = .ok (l, [⟨Size.none,
      measureAvailableSpace (rootInput s av) (Spec.margin s av) (insetOf s av) (NS s av) (Spec.minS s av) (Spec.maxS s av)⟩]) := by
  obtain ⟨out, hout, -, -⟩ := leaf_at_root s m av
  have hrm : (rootInput s av).runMode = .performLayout := rfl
  unfold layoutSingleLeafWith computeChildLayoutChildless
  rw [hrm, dispatch_perform]
  cases h : s.display <;> first | exact absurd h hd | (simp only [hout]; exact ⟨_, rfl⟩)

/-- … and that argument is the specified content-box space: per axis, the outer size settled before measuring (else
the definite available space minus margins), clamped by min/max, minus padding, border and scrollbar gutter; an
indefinite available space is passed through.  (Only hypothesis: the block-root/aspect-ratio/single-max corner.) -/
theorem measure_args (s : Style Rat) (m : MeasureFn) (av : Size (AvailableSpace Rat))
    (hmax : s.display = .block → s.aspectRatio = none ∨ MaxBothOrNeither s av)
    (l : Layout Rat) (calls : List (MeasureCall Rat)) (h : layoutSingleLeafWith s m av = .ok (l, calls)) :
    calls = Spec.leafMeasureCalls s av := by
  obtain ⟨out, hout, -, -⟩ := leaf_at_root s m av
  rw [Acode_eq s av hmax] at hout
  have hrm : (rootInput s av).runMode = .performLayout := rfl
  unfold layoutSingleLeafWith computeChildLayoutChildless at h
  rw [hrm, dispatch_perform] at h
  cases hd : s.display <;> simp only [hd, hout] at h <;> cases h <;> simp only [Spec.leafMeasureCalls, hd] <;> rfl

/-- `compute_leaf_layout` itself, any input: the measure function is called at most once; in `ComputeSize` mode it
receives the input's known dimensions, in `PerformLayout` mode none. -/
theorem leaf_calls (input : LayoutInput Rat) (s : Style Rat) (m : MeasureFn) (out : LayoutOutput Rat)
    (calls : List (MeasureCall Rat)) (h : computeLeafLayout input s m = .ok (out, calls)) :
    calls = [] ∨ ∃ a, calls =
      [⟨(match input.runMode with | .computeSize => input.knownDimensions | _ => Size.none), a⟩] := by
  unfold computeLeafLayout at h
  dsimp only at h
  rcases hn : nodeSizes input s (box input.parentSize s).boxSizingAdjustment with ⟨ns, mn, mx, ar⟩
  rw [hn] at h
  simp only at h
  cases hrm : input.runMode <;> simp only [hrm] at h <;> split at h <;> (try split at h) <;> simp at h <;>
    first | (left; exact h.2) | (right; exact ⟨_, h.2.symm⟩)

/-- the early-return path (l.93–108): in `ComputeSize` mode, when both node sizes are definite (style size or known
dimension) and the node cannot be collapsed through, the measure function is **not** called and the size is the
clamped, floored node size. -/
theorem leaf_early_return (input : LayoutInput Rat) (s : Style Rat) (m : MeasureFn) (w h : Rat)
    (hrm : input.runMode = .computeSize)
    (hst : hasStylesPreventingBeingCollapsedThrough s (box input.parentSize s).padding (box input.parentSize s).border
            (nodeSizes input s (box input.parentSize s).boxSizingAdjustment).1
            (nodeSizes input s (box input.parentSize s).boxSizingAdjustment).2.1 = true)
    (hns : (nodeSizes input s (box input.parentSize s).boxSizingAdjustment).1 = ⟨some w, some h⟩) :
    ∃ out, computeLeafLayout input s m = .ok (out, []) ∧
      out.size = Size.f32Max (Size.fo_clamp ⟨w, h⟩
          (nodeSizes input s (box input.parentSize s).boxSizingAdjustment).2.1
          (nodeSizes input s (box input.parentSize s).boxSizingAdjustment).2.2.1)
        (box input.parentSize s).paddingBorder.sumAxes := by
  unfold computeLeafLayout
  have : (RunMode.computeSize == RunMode.computeSize) = true := rfl
  rw [hns] at hst
  simp only [hrm, hns, hst, this, Bool.and_self, if_true]
  refine ⟨_, rfl, ?_⟩
  rfl

/-- non-vacuity of `leaf_early_return`: a flex leaf of size 100 × 10 in `ComputeSize` mode -/
example : computeLeafLayout
    { runMode := .computeSize, sizingMode := .inherentSize, axis := .both, knownDimensions := ⟨none, none⟩,
      parentSize := ⟨none, none⟩, availableSpace := maxContent, verticalMarginsAreCollapsible := ⟨false, false⟩ }
    sBoth (mFixed 7 7) = .ok (LayoutOutput.fromOuterSize ⟨100, 10⟩, []) := by decide +kernel

/-- the `unreachable!()` of l.139: in hidden run mode `compute_leaf_layout` panics, *before* calling the measure function -/
theorem leaf_hidden_mode_panics (input : LayoutInput Rat) (s : Style Rat) (m : MeasureFn)
    (hrm : input.runMode = .performHiddenLayout) :
    computeLeafLayout input s m = .error .unreachableHiddenRunMode := by
  unfold computeLeafLayout
  have : (RunMode.performHiddenLayout == RunMode.computeSize) = false := rfl
  simp only [hrm, this, Bool.false_and, Bool.false_eq_true, if_false]

/-! ## `measure_only_childless_boxes` -/

/-- the arm that owns the measure closure is selected exactly for childless, box-generating nodes outside hidden mode -/
theorem measure_only_childless_boxes (mode : RunMode) (d : Display) (hasChildren : Bool) :
    dispatchArm mode d hasChildren = .leaf ↔ (mode ≠ .performHiddenLayout ∧ d ≠ .none ∧ hasChildren = false) := by
  cases mode <;> cases d <;> cases hasChildren <;> decide

/-- a childless node never reaches a container arm -/
theorem dispatch_childless (mode : RunMode) (d : Display) :
    dispatchArm mode d false = .hiddenMode ∨ dispatchArm mode d false = .displayNone ∨ dispatchArm mode d false = .leaf := by
  cases mode <;> cases d <;> decide

/-- in hidden run mode or for `display: none` the node gets the zero layout and the measure function is not called -/
theorem no_measure_when_hidden (s : Style Rat) (m : MeasureFn) (input : LayoutInput Rat)
    (h : input.runMode = .performHiddenLayout ∨ s.display = .none) :
    computeChildLayoutChildless s m input = .ok ((LayoutOutput.hidden, some (Layout.withOrder 0)), []) := by
  unfold computeChildLayoutChildless
  rcases h with h | h
  · rw [h]; cases s.display <;> rfl
  · rw [h]; cases input.runMode <;> rfl

/-- a `display: none` root: zero size at (0,0), no measure call (the root's padding/border/margin/scrollbar fields
are nevertheless the resolved style values — `compute_root_layout` l.125–152 writes them unconditionally) -/
theorem display_none_root (s : Style Rat) (m : MeasureFn) (av : Size (AvailableSpace Rat)) (hd : s.display = .none) :
    ∃ l, layoutSingleLeafWith s m av = .ok (l, []) ∧ l.size = ⟨0, 0⟩ ∧ l.location = ⟨0, 0⟩ ∧ l.contentSize = ⟨0, 0⟩ := by
  unfold layoutSingleLeafWith
  rw [no_measure_when_hidden s m _ (Or.inr hd)]
  exact ⟨_, rfl, rfl, rfl, rfl⟩

example : dispatchArm .performLayout .flex false = .leaf ∧ dispatchArm .performLayout .flex true ≠ .leaf ∧
    dispatchArm .performHiddenLayout .flex false ≠ .leaf ∧ dispatchArm .computeSize .none false ≠ .leaf := by decide

/-! ## `size_floor`, `min_wins` -/

/-- the root's layout for a box-generating leaf, in terms of the leaf's output -/
theorem root_of_leaf (s : Style Rat) (m : MeasureFn) (av : Size (AvailableSpace Rat)) (hd : s.display ≠ .none)
    (l : Layout Rat) (calls : List (MeasureCall Rat)) (h : layoutSingleLeafWith s m av = .ok (l, calls)) :
    ∃ out, computeLeafLayout (rootInput s av) s m = .ok (out, calls) ∧ l = rootLayout s av out := by
  have hrm : (rootInput s av).runMode = .performLayout := rfl
  unfold layoutSingleLeafWith computeChildLayoutChildless at h
  rw [hrm, dispatch_perform] at h
  cases hdd : s.display <;> first | exact absurd hdd hd | skip
  all_goals
    simp only [hdd] at h
    cases hc : computeLeafLayout (rootInput s av) s m with
    | error e => rw [hc] at h; cases h
    | ok v =>
      obtain ⟨out, cs⟩ := v
      rw [hc] at h
      simp only at h
      cases h
      exact ⟨out, rfl, rfl⟩

/-- **never below padding + border**, per axis, unconditionally (padding/border as reported in the layout itself) -/
theorem size_floor (s : Style Rat) (m : MeasureFn) (av : Size (AvailableSpace Rat)) (hd : s.display ≠ .none)
    (l : Layout Rat) (calls : List (MeasureCall Rat)) (h : layoutSingleLeafWith s m av = .ok (l, calls)) :
    (l.padding.left + l.border.left) + (l.padding.right + l.border.right) ≤ l.size.width ∧
    (l.padding.top + l.border.top) + (l.padding.bottom + l.border.bottom) ≤ l.size.height ∧
    l.location = ⟨0, 0⟩ := by
  obtain ⟨out, hout, hl⟩ := root_of_leaf s m av hd l calls h
  obtain ⟨out', hout', -, hsz⟩ := leaf_at_root s m av
  rw [hout'] at hout
  cases hout
  subst hl
  simp only [rootLayout, padding_eq, border_eq, hsz, Size.f32Max]
  exact ⟨floor_ge _ _, floor_ge _ _, trivial⟩

/-- **min wins over max** in the width: if both are definite and `max ≤ min` the width is `min` (or padding + border
if that is larger), whatever the style size, the content and the available space -/
theorem min_wins_width (s : Style Rat) (m : MeasureFn) (av : Size (AvailableSpace Rat)) (hd : s.display ≠ .none)
    (mn mx : Rat) (hmn : (Spec.minS s av).width = some mn) (hmx : (Spec.maxS s av).width = some mx) (hle : mx ≤ mn)
    (l : Layout Rat) (calls : List (MeasureCall Rat)) (h : layoutSingleLeafWith s m av = .ok (l, calls)) :
    l.size.width = Spec.floorAt mn (Spec.pb s av).width := by
  obtain ⟨out, hout, hl⟩ := root_of_leaf s m av hd l calls h
  obtain ⟨out', hout', -, hsz⟩ := leaf_at_root s m av
  rw [hout'] at hout
  cases hout
  subst hl
  simp only [rootLayout, hsz, Size.f32Max, Size.fo_clamp, fo_clamp_eq, hmn, hmx]
  rw [clamp_degenerate _ _ _ hle]
  rfl

/-- the same in the height, without an aspect ratio and with a non-negative vertical padding + border -/
theorem min_wins_height (s : Style Rat) (m : MeasureFn) (av : Size (AvailableSpace Rat)) (hd : s.display ≠ .none)
    (har : s.aspectRatio = none) (hpb : 0 ≤ (Spec.pb s av).height)
    (mn mx : Rat) (hmn : (Spec.minS s av).height = some mn) (hmx : (Spec.maxS s av).height = some mx) (hle : mx ≤ mn)
    (l : Layout Rat) (calls : List (MeasureCall Rat)) (h : layoutSingleLeafWith s m av = .ok (l, calls)) :
    l.size.height = Spec.floorAt mn (Spec.pb s av).height := by
  obtain ⟨out, hout, hl⟩ := root_of_leaf s m av hd l calls h
  obtain ⟨out', hout', -, hsz⟩ := leaf_at_root s m av
  rw [hout'] at hout
  cases hout
  subst hl
  simp only [rootLayout, hsz, Size.f32Max, Size.fo_clamp, fo_clamp_eq, hmn, hmx, har, Option.map_none,
    Option.getD_none]
  rw [clamp_degenerate _ _ _ hle, fmax_comm3]
  exact fmax_of_le _ _ (le_trans hpb (floor_ge _ _))

/-- non-vacuity of `min_wins_*`: min 80 × 20, max 20 × 10, style width 50 -/
def sMinMax : Style Rat := styleOf fun s => { s with
  size := ⟨.length 50, .auto⟩, minSize := ⟨.length 80, .length 20⟩, maxSize := ⟨.length 20, .length 10⟩ }
example : sizeOf? (layoutSingleLeafWith sMinMax (mFixed 30 10) maxContent) = some ⟨80, 20⟩ := by decide +kernel

/-- non-vacuity of `size_floor`: width 10 with 30 of padding -/
example : sizeOf? (layoutSingleLeafWith { sFloor with aspectRatio := none } (mFixed 0 0) maxContent)
    = some ⟨30, 0⟩ := by decide +kernel

end C19
