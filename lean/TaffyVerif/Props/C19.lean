/-
  C19 — A single leaf is sized by style, content and constraints per the box model.

  Model: `Model/Leaf.lean` (`compute_leaf_layout`, line by line), `Model/Root.lean` (`compute_root_layout`, the dispatch
  of `TaffyView::compute_child_layout`, `compute_hidden_layout`, composed for a tree of one childless node).
  Specification: `Spec/LeafBox.lean` (`Spec.leafBox`, `Spec.measureAvail`), written from the CSS box model.
  All theorems are about the model at `Rat`; the measure function `m` is an arbitrary (pure) function.

  The model follows leaf.rs *after* the repair "a leaf's aspect ratio must not override a height that is already
  determined, and the height it derives is still clamped by min/max height" (l.147–157).  Before it, l.149 re-applied
  `height ≥ width / ratio` after clamping and to declared heights; the three witnesses of that defect are kept below
  as `fixed_*` theorems (they now meet the specification) and as fixed cases of harness/src/c19.rs.

  Hypotheses that `leaf_root_spec` still needs, and why (each remaining corner is proved to *differ* from the
  specification on a witness below and is replayed on the implementation by the harness' fixed cases):
    * `0 ≤ padding+border (vertical)`: leaf.rs l.153 floors an undetermined height at `0` (`unwrap_or(0.0)`), the
      width is not floored.  Negative padding/border is not valid CSS; taffy does not reject it.
    * with an aspect ratio (`C19L.ARHyp`; both vacuous without one):
        - `maxBoth`, block root only: `max-size` has both axes definite or neither — `compute_root_layout` transfers a
          single definite max axis through the ratio (mod.rs l.81–85) and thereby clamps a *declared* size in the
          other axis, while `compute_leaf_layout` does not transfer it (leaf.rs l.56–57);
        - `widthNotFloored`: if the height is not declared, the width is not determined by the padding+border floor —
          l.153 divides the *unfloored* width by the ratio.
-/
import TaffyVerif.Lemmas.LeafBox

namespace C19
open LeafModel RootModel C19L

/-! ## `leaf_root_spec` -/

theorem dispatch_perform (d : Display) :
    dispatchArm .performLayout d false = (match d with | .none => Arm.displayNone | _ => Arm.leaf) := by
  cases d <;> rfl

/-- **The single leaf's layout and its measure calls are the specified ones.** -/
theorem leaf_root_spec (s : Style Rat) (m : MeasureFn) (av : Size (AvailableSpace Rat))
    (hpb : 0 ≤ (Spec.pb s av).height)
    (har : s.aspectRatio ≠ none → ARHyp s m av) :
    layoutSingleLeafWith s m av = .ok (Spec.leafBox s m av, Spec.leafMeasureCalls s av) := by
  have hmax := hmax_of s m av har
  obtain ⟨out, hout, hcs, hsz⟩ := leaf_at_root s m av
  rw [Acode_eq s av hmax] at hout hcs hsz
  rw [leaf_size_eq s m av hpb har] at hsz
  have hrm : (rootInput s av).runMode = .performLayout := rfl
  unfold layoutSingleLeafWith computeChildLayoutChildless
  rw [hrm, dispatch_perform]
  cases hd : s.display <;>
    simp only [hd, hout, rootLayout, padding_eq, border_eq, margin_eq, scrollbarSize_eq,
      Spec.leafBox, Spec.leafMeasureCalls, hcs, hsz, LayoutOutput.hidden] <;> rfl

/-- without an aspect ratio the only hypothesis is a non-negative vertical padding + border -/
theorem leaf_root_spec_no_ratio (s : Style Rat) (m : MeasureFn) (av : Size (AvailableSpace Rat))
    (hpb : 0 ≤ (Spec.pb s av).height) (har : s.aspectRatio = none) :
    layoutSingleLeafWith s m av = .ok (Spec.leafBox s m av, Spec.leafMeasureCalls s av) :=
  leaf_root_spec s m av hpb (fun h => absurd har h)

/-! ### concrete inputs: the hypotheses are satisfiable, and each excluded corner really fails -/

section examples
def styleOf (f : Style Rat → Style Rat) : Style Rat := f Style.default
def mFixed (w h : Rat) : MeasureFn := fun k _ => ⟨k.width.getD w, k.height.getD h⟩
def maxContent : Size (AvailableSpace Rat) := ⟨.maxContent, .maxContent⟩
def avail (w h : Rat) : Size (AvailableSpace Rat) := ⟨.definite w, .definite h⟩
/-- the size the model answers (`none` = panic) -/
def sizeOf? (r : Traced Rat (Layout Rat)) : Option (Size Rat) :=
  match r with
  | .ok (l, _) => some l.size
  | .error _ => none

/-- block, content-box, 50% width of 400, percentage padding, border, vertical scrollbar, aspect ratio 2, auto height -/
def sGood : Style Rat := styleOf fun s => { s with
  display := .block, boxSizing := .contentBox, size := ⟨.percent (1/2), .auto⟩, aspectRatio := some 2,
  padding := ⟨.length 5, .percent (1/100), .length 3, .length 3⟩, border := ⟨.length 1, .length 1, .length 1, .length 1⟩,
  overflow := ⟨.visible, .scroll⟩, scrollbarWidth := 15, minSize := ⟨.auto, .length 20⟩,
  margin := ⟨.auto, .length (-4), .length 2, .length 2⟩ }

/-- non-vacuity of `leaf_root_spec`: a style with an aspect ratio meets every hypothesis … -/
example : 0 ≤ (Spec.pb sGood (avail 400 300)).height ∧
    (sGood.aspectRatio ≠ none → ARHyp sGood (mFixed 30 10) (avail 400 300)) :=
  ⟨by decide +kernel, fun _ => ⟨fun _ => by decide +kernel, fun _ => by decide +kernel⟩⟩

/-- … and the resulting box is 211 × 108 (200 + 5 + 4 + 2 wide; height = width / 2 + vertical padding + border) -/
example : (Spec.leafBox sGood (mFixed 30 10) (avail 400 300)).size = ⟨211, 108⟩ := by decide +kernel

/-! #### the witnesses of the repaired defect now meet the specification (`PerformLayout` = `ComputeSize` too) -/

def specHolds (s : Style Rat) (m : MeasureFn) (av : Size (AvailableSpace Rat)) : Prop :=
  layoutSingleLeafWith s m av = .ok (Spec.leafBox s m av, Spec.leafMeasureCalls s av)
instance (s : Style Rat) (m : MeasureFn) (av : Size (AvailableSpace Rat)) : Decidable (specHolds s m av) := by
  unfold specHolds; infer_instance

/-- `compute_leaf_layout` in `ComputeSize` mode with the root's input (the early-return path where it applies) -/
def computeSizeOf? (s : Style Rat) (m : MeasureFn) (av : Size (AvailableSpace Rat)) : Option (Size Rat) :=
  match computeLeafLayout { rootInput s av with runMode := .computeSize } s m with
  | .ok (o, _) => some o.size
  | .error _ => none

/-- size 100 × 10, ratio 1: was 100 × 100, now 100 × 10 -/
def sBoth : Style Rat := styleOf fun s => { s with size := ⟨.length 100, .length 10⟩, aspectRatio := some 1 }
theorem fixed_ratio_both_sizes :
    specHolds sBoth (mFixed 0 0) maxContent ∧
    sizeOf? (layoutSingleLeafWith sBoth (mFixed 0 0) maxContent) = some ⟨100, 10⟩ ∧
    computeSizeOf? sBoth (mFixed 0 0) maxContent = some ⟨100, 10⟩ := by
  decide +kernel

/-- width 100, ratio 1, max-height 20 on a flex root: was 100 × 100 (max-height not honoured), now 100 × 20 -/
def sMaxH : Style Rat := styleOf fun s => { s with
  size := ⟨.length 100, .auto⟩, maxSize := ⟨.auto, .length 20⟩, aspectRatio := some 1 }
theorem fixed_ratio_max_height :
    specHolds sMaxH (mFixed 0 0) maxContent ∧
    sizeOf? (layoutSingleLeafWith sMaxH (mFixed 0 0) maxContent) = some ⟨100, 20⟩ ∧
    computeSizeOf? sMaxH (mFixed 0 0) maxContent = some ⟨100, 20⟩ := by
  decide +kernel

/-- content-box, content width 100, padding-left 50, ratio 1: was 150 × 150, now 150 × 100 -/
def sCB : Style Rat := styleOf fun s => { s with
  boxSizing := .contentBox, size := ⟨.length 100, .auto⟩, aspectRatio := some 1,
  padding := ⟨.length 50, .length 0, .length 0, .length 0⟩ }
theorem fixed_ratio_content_box :
    specHolds sCB (mFixed 0 0) maxContent ∧
    sizeOf? (layoutSingleLeafWith sCB (mFixed 0 0) maxContent) = some ⟨150, 100⟩ ∧
    computeSizeOf? sCB (mFixed 0 0) maxContent = some ⟨150, 100⟩ := by
  decide +kernel

/-- auto sizes with a ratio and a max-height: the ratio-derived height is now clamped (content 30 × 10, ratio 1,
max-height 20: 30 × 20; was 30 × 30) -/
theorem fixed_ratio_auto_max_height :
    specHolds { sMaxH with size := ⟨.auto, .auto⟩ } (mFixed 30 10) maxContent ∧
    sizeOf? (layoutSingleLeafWith { sMaxH with size := ⟨.auto, .auto⟩ } (mFixed 30 10) maxContent) = some ⟨30, 20⟩ := by
  decide +kernel

/-! #### the corners that remain -/

/-- remaining corner `maxBoth` (**a violation of C19's statement**: a declared width of 100 with no max-width comes
out as 20): the style of `fixed_ratio_max_height` on a *block* root — the root transfers max-height 20 through the
ratio to a max-width of 20 and clamps the declared width with it; specified (and answered on a flex root) 100 × 20 -/
theorem corner_block_root_max_transfer :
    ¬ specHolds { sMaxH with display := .block } (mFixed 0 0) maxContent ∧
    (Spec.leafBox { sMaxH with display := .block } (mFixed 0 0) maxContent).size = ⟨100, 20⟩ ∧
    sizeOf? (layoutSingleLeafWith { sMaxH with display := .block } (mFixed 0 0) maxContent) = some ⟨20, 20⟩ := by
  decide +kernel

/-- remaining corner `widthNotFloored` (**a violation of C19's statement**: the ratio is applied to a width that is
not the box's width): flex root, auto sizes, max-width 10 < padding 30, ratio 1 — the box is 30 wide, specified
30 × 30; the code divides the unfloored width (10) and answers 30 × 10 -/
def sFloor : Style Rat := styleOf fun s => { s with
  maxSize := ⟨.length 10, .auto⟩, aspectRatio := some 1, padding := ⟨.length 30, .length 0, .length 0, .length 0⟩ }
theorem corner_ratio_floored_width :
    ¬ specHolds sFloor (mFixed 0 0) maxContent ∧
    (Spec.leafBox sFloor (mFixed 0 0) maxContent).size = ⟨30, 30⟩ ∧
    sizeOf? (layoutSingleLeafWith sFloor (mFixed 0 0) maxContent) = some ⟨30, 10⟩ := by
  decide +kernel

/-- remaining corner "negative vertical padding" (invalid CSS, not a violation): padding-top −10, no content — the
formula gives −10, the code floors the undetermined height at 0 -/
def sNeg : Style Rat := styleOf fun s => { s with padding := ⟨.length 0, .length 0, .length (-10), .length 0⟩ }
theorem corner_negative_padding :
    ¬ specHolds sNeg (mFixed 0 0) maxContent ∧
    (Spec.leafBox sNeg (mFixed 0 0) maxContent).size = ⟨0, -10⟩ ∧
    sizeOf? (layoutSingleLeafWith sNeg (mFixed 0 0) maxContent) = some ⟨0, 0⟩ := by
  decide +kernel
end examples

/-! ## `measure_args` -/

/-- For a box-generating single leaf the measure function is called **exactly once**, with no known dimension and the
available space of leaf.rs l.111–132 evaluated at the root's input (`C19L.Acode`); no hypothesis. -/
theorem measure_called_once (s : Style Rat) (m : MeasureFn) (av : Size (AvailableSpace Rat)) (hd : s.display ≠ .none) :
    ∃ l, layoutSingleLeafWith s m av = .ok (l, [⟨Size.none,
      measureAvailableSpace (rootInput s av) (Spec.margin s av) (insetOf s av) (NS s av) (Spec.minS s av) (Spec.maxS s av)⟩]) := by
  obtain ⟨out, hout, -, -⟩ := leaf_at_root s m av
  have hrm : (rootInput s av).runMode = .performLayout := rfl
  unfold layoutSingleLeafWith computeChildLayoutChildless
  rw [hrm, dispatch_perform]
  cases h : s.display <;> first | exact absurd h hd | (simp only [hout]; exact ⟨_, rfl⟩)

/-- … and that argument is the specified content-box space: per axis, the outer size settled before measuring (else
the definite available space minus margins), clamped by min/max, minus padding, border and scrollbar gutter; an
indefinite available space is passed through.  (Only hypothesis: the block-root/aspect-ratio/single-max corner.) -/
theorem measure_args (s : Style Rat) (m : MeasureFn) (av : Size (AvailableSpace Rat))
    (hmax : s.display = .block → s.aspectRatio = none ∨ MaxBothOrNeither s av)
    (l : Layout Rat) (calls : List (MeasureCall Rat)) (h : layoutSingleLeafWith s m av = .ok (l, calls)) :
    calls = Spec.leafMeasureCalls s av := by
  obtain ⟨out, hout, -, -⟩ := leaf_at_root s m av
  rw [Acode_eq s av hmax] at hout
  have hrm : (rootInput s av).runMode = .performLayout := rfl
  unfold layoutSingleLeafWith computeChildLayoutChildless at h
  rw [hrm, dispatch_perform] at h
  cases hd : s.display <;> simp only [hd, hout] at h <;> cases h <;> simp only [Spec.leafMeasureCalls, hd] <;> rfl

/-- `compute_leaf_layout` itself, any input: the measure function is called at most once; in `ComputeSize` mode it
receives the input's known dimensions, in `PerformLayout` mode none. -/
theorem leaf_calls (input : LayoutInput Rat) (s : Style Rat) (m : MeasureFn) (out : LayoutOutput Rat)
    (calls : List (MeasureCall Rat)) (h : computeLeafLayout input s m = .ok (out, calls)) :
    calls = [] ∨ ∃ a, calls =
      [⟨(match input.runMode with | .computeSize => input.knownDimensions | _ => Size.none), a⟩] := by
  unfold computeLeafLayout at h
  dsimp only at h
  rcases hn : nodeSizes input s (box input.parentSize s).boxSizingAdjustment with ⟨ns, mn, mx, ar⟩
  rw [hn] at h
  simp only at h
  cases hrm : input.runMode <;> simp only [hrm] at h <;> split at h <;> (try split at h) <;> simp at h <;>
    first | (left; exact h.2) | (right; exact ⟨_, h.2.symm⟩)

/-- the early-return path (l.93–108): in `ComputeSize` mode, when both node sizes are definite (style size or known
dimension) and the node cannot be collapsed through, the measure function is **not** called and the size is the
clamped, floored node size. -/
theorem leaf_early_return (input : LayoutInput Rat) (s : Style Rat) (m : MeasureFn) (w h : Rat)
    (hrm : input.runMode = .computeSize)
    (hst : hasStylesPreventingBeingCollapsedThrough s (box input.parentSize s).padding (box input.parentSize s).border
            (nodeSizes input s (box input.parentSize s).boxSizingAdjustment).1
            (nodeSizes input s (box input.parentSize s).boxSizingAdjustment).2.1 = true)
    (hns : (nodeSizes input s (box input.parentSize s).boxSizingAdjustment).1 = ⟨some w, some h⟩) :
    ∃ out, computeLeafLayout input s m = .ok (out, []) ∧
      out.size = Size.f32Max (Size.fo_clamp ⟨w, h⟩
          (nodeSizes input s (box input.parentSize s).boxSizingAdjustment).2.1
          (nodeSizes input s (box input.parentSize s).boxSizingAdjustment).2.2.1)
        (box input.parentSize s).paddingBorder.sumAxes := by
  unfold computeLeafLayout
  have : (RunMode.computeSize == RunMode.computeSize) = true := rfl
  rw [hns] at hst
  simp only [hrm, hns, hst, this, Bool.and_self, if_true]
  refine ⟨_, rfl, ?_⟩
  rfl

theorem known_or_nodeSize (input : LayoutInput Rat) (s : Style Rat) (adj : Size Rat) :
    input.knownDimensions.orOpt (nodeSizes input s adj).1 = (nodeSizes input s adj).1 := by
  unfold nodeSizes
  rcases hk : input.knownDimensions with ⟨_ | kw, _ | kh⟩ <;> cases input.sizingMode <;> simp [Size.orOpt]

/-- **`ComputeSize` and `PerformLayout` agree** whenever both node sizes are definite (style size or known dimension):
the size `PerformLayout` answers is the early-return size of `leaf_early_return`, whatever the measure function returns. -/
theorem leaf_run_modes_agree (input : LayoutInput Rat) (s : Style Rat) (m : MeasureFn) (w h : Rat)
    (hns : (nodeSizes input s (box input.parentSize s).boxSizingAdjustment).1 = ⟨some w, some h⟩) :
    ∃ out calls, computeLeafLayout { input with runMode := .performLayout } s m = .ok (out, calls) ∧
      out.size = Size.f32Max (Size.fo_clamp ⟨w, h⟩
          (nodeSizes input s (box input.parentSize s).boxSizingAdjustment).2.1
          (nodeSizes input s (box input.parentSize s).boxSizingAdjustment).2.2.1)
        (box input.parentSize s).paddingBorder.sumAxes := by
  have hk := known_or_nodeSize input s (box input.parentSize s).boxSizingAdjustment
  rw [hns] at hk
  have hn : nodeSizes { input with runMode := .performLayout } s (box input.parentSize s).boxSizingAdjustment
      = nodeSizes input s (box input.parentSize s).boxSizingAdjustment := rfl
  have hrm : (RunMode.performLayout == RunMode.computeSize) = false := rfl
  unfold computeLeafLayout
  simp only [hn, hns, hk, hrm, Bool.false_and, Bool.false_eq_true, if_false, Size.unwrapOr, Option.getD_some,
    Option.isSome_some, if_true]
  exact ⟨_, _, rfl, rfl⟩

/-- non-vacuity of `leaf_early_return`: a flex leaf of size 100 × 10 in `ComputeSize` mode -/
example : computeLeafLayout
    { runMode := .computeSize, sizingMode := .inherentSize, axis := .both, knownDimensions := ⟨none, none⟩,
      parentSize := ⟨none, none⟩, availableSpace := maxContent, verticalMarginsAreCollapsible := ⟨false, false⟩ }
    sBoth (mFixed 7 7) = .ok (LayoutOutput.fromOuterSize ⟨100, 10⟩, []) := by decide +kernel

/-- the `unreachable!()` of l.139: in hidden run mode `compute_leaf_layout` panics, *before* calling the measure function -/
theorem leaf_hidden_mode_panics (input : LayoutInput Rat) (s : Style Rat) (m : MeasureFn)
    (hrm : input.runMode = .performHiddenLayout) :
    computeLeafLayout input s m = .error .unreachableHiddenRunMode := by
  unfold computeLeafLayout
  have : (RunMode.performHiddenLayout == RunMode.computeSize) = false := rfl
  simp only [hrm, this, Bool.false_and, Bool.false_eq_true, if_false]

/-! ## `measure_only_childless_boxes` -/

/-- the arm that owns the measure closure is selected exactly for childless, box-generating nodes outside hidden mode -/
theorem measure_only_childless_boxes (mode : RunMode) (d : Display) (hasChildren : Bool) :
    dispatchArm mode d hasChildren = .leaf ↔ (mode ≠ .performHiddenLayout ∧ d ≠ .none ∧ hasChildren = false) := by
  cases mode <;> cases d <;> cases hasChildren <;> decide

/-- a childless node never reaches a container arm -/
theorem dispatch_childless (mode : RunMode) (d : Display) :
    dispatchArm mode d false = .hiddenMode ∨ dispatchArm mode d false = .displayNone ∨ dispatchArm mode d false = .leaf := by
  cases mode <;> cases d <;> decide

/-- in hidden run mode or for `display: none` the node gets the zero layout and the measure function is not called -/
theorem no_measure_when_hidden (s : Style Rat) (m : MeasureFn) (input : LayoutInput Rat)
    (h : input.runMode = .performHiddenLayout ∨ s.display = .none) :
    computeChildLayoutChildless s m input = .ok ((LayoutOutput.hidden, some (Layout.withOrder 0)), []) := by
  unfold computeChildLayoutChildless
  rcases h with h | h
  · rw [h]; cases s.display <;> rfl
  · rw [h]; cases input.runMode <;> rfl

/-- a `display: none` root: zero size at (0,0), no measure call (the root's padding/border/margin/scrollbar fields
are nevertheless the resolved style values — `compute_root_layout` l.125–152 writes them unconditionally) -/
theorem display_none_root (s : Style Rat) (m : MeasureFn) (av : Size (AvailableSpace Rat)) (hd : s.display = .none) :
    ∃ l, layoutSingleLeafWith s m av = .ok (l, []) ∧ l.size = ⟨0, 0⟩ ∧ l.location = ⟨0, 0⟩ ∧ l.contentSize = ⟨0, 0⟩ := by
  unfold layoutSingleLeafWith
  rw [no_measure_when_hidden s m _ (Or.inr hd)]
  exact ⟨_, rfl, rfl, rfl, rfl⟩

example : dispatchArm .performLayout .flex false = .leaf ∧ dispatchArm .performLayout .flex true ≠ .leaf ∧
    dispatchArm .performHiddenLayout .flex false ≠ .leaf ∧ dispatchArm .computeSize .none false ≠ .leaf := by decide

/-! ## `size_floor`, `min_wins` -/

/-- the root's layout for a box-generating leaf, in terms of the leaf's output -/
theorem root_of_leaf (s : Style Rat) (m : MeasureFn) (av : Size (AvailableSpace Rat)) (hd : s.display ≠ .none)
    (l : Layout Rat) (calls : List (MeasureCall Rat)) (h : layoutSingleLeafWith s m av = .ok (l, calls)) :
    ∃ out, computeLeafLayout (rootInput s av) s m = .ok (out, calls) ∧ l = rootLayout s av out := by
  have hrm : (rootInput s av).runMode = .performLayout := rfl
  unfold layoutSingleLeafWith computeChildLayoutChildless at h
  rw [hrm, dispatch_perform] at h
  cases hdd : s.display <;> first | exact absurd hdd hd | skip
  all_goals
    simp only [hdd] at h
    cases hc : computeLeafLayout (rootInput s av) s m with
    | error e => rw [hc] at h; cases h
    | ok v =>
      obtain ⟨out, cs⟩ := v
      rw [hc] at h
      simp only at h
      cases h
      exact ⟨out, rfl, rfl⟩

/-- **never below padding + border**, per axis, unconditionally (padding/border as reported in the layout itself) -/
theorem size_floor (s : Style Rat) (m : MeasureFn) (av : Size (AvailableSpace Rat)) (hd : s.display ≠ .none)
    (l : Layout Rat) (calls : List (MeasureCall Rat)) (h : layoutSingleLeafWith s m av = .ok (l, calls)) :
    (l.padding.left + l.border.left) + (l.padding.right + l.border.right) ≤ l.size.width ∧
    (l.padding.top + l.border.top) + (l.padding.bottom + l.border.bottom) ≤ l.size.height ∧
    l.location = ⟨0, 0⟩ := by
  obtain ⟨out, hout, hl⟩ := root_of_leaf s m av hd l calls h
  obtain ⟨out', hout', -, hsz⟩ := leaf_at_root s m av
  rw [hout'] at hout
  cases hout
  subst hl
  simp only [rootLayout, padding_eq, border_eq, hsz, Size.f32Max]
  exact ⟨floor_ge _ _, floor_ge _ _, trivial⟩

/-- **min wins over max** in the width: if both are definite and `max ≤ min` the width is `min` (or padding + border
if that is larger), whatever the style size, the content and the available space -/
theorem min_wins_width (s : Style Rat) (m : MeasureFn) (av : Size (AvailableSpace Rat)) (hd : s.display ≠ .none)
    (mn mx : Rat) (hmn : (Spec.minS s av).width = some mn) (hmx : (Spec.maxS s av).width = some mx) (hle : mx ≤ mn)
    (l : Layout Rat) (calls : List (MeasureCall Rat)) (h : layoutSingleLeafWith s m av = .ok (l, calls)) :
    l.size.width = Spec.floorAt mn (Spec.pb s av).width := by
  obtain ⟨out, hout, hl⟩ := root_of_leaf s m av hd l calls h
  obtain ⟨out', hout', -, hsz⟩ := leaf_at_root s m av
  rw [hout'] at hout
  cases hout
  subst hl
  simp only [rootLayout, hsz, Size.f32Max, Size.fo_clamp, fo_clamp_eq, hmn, hmx]
  rw [clamp_degenerate _ _ _ hle]
  rfl

/-- the same in the height, unconditionally (with the repaired l.147–157 the ratio-derived height is clamped too) -/
theorem min_wins_height (s : Style Rat) (m : MeasureFn) (av : Size (AvailableSpace Rat)) (hd : s.display ≠ .none)
    (mn mx : Rat) (hmn : (Spec.minS s av).height = some mn) (hmx : (Spec.maxS s av).height = some mx) (hle : mx ≤ mn)
    (l : Layout Rat) (calls : List (MeasureCall Rat)) (h : layoutSingleLeafWith s m av = .ok (l, calls)) :
    l.size.height = Spec.floorAt mn (Spec.pb s av).height := by
  obtain ⟨out, hout, hl⟩ := root_of_leaf s m av hd l calls h
  obtain ⟨out', hout', -, hsz⟩ := leaf_at_root s m av
  rw [hout'] at hout
  cases hout
  subst hl
  simp only [rootLayout, hsz, Size.f32Max, Size.fo_clamp, fo_clamp_eq, hmn, hmx]
  split_ifs <;> rw [clamp_degenerate _ _ _ hle] <;> rfl

/-- non-vacuity of `min_wins_*`: min 80 × 20, max 20 × 10, style width 50 -/
def sMinMax : Style Rat := styleOf fun s => { s with
  size := ⟨.length 50, .auto⟩, minSize := ⟨.length 80, .length 20⟩, maxSize := ⟨.length 20, .length 10⟩ }
example : sizeOf? (layoutSingleLeafWith sMinMax (mFixed 30 10) maxContent) = some ⟨80, 20⟩ := by decide +kernel

/-- non-vacuity of `size_floor`: width 10 with 30 of padding -/
example : sizeOf? (layoutSingleLeafWith { sFloor with aspectRatio := none } (mFixed 0 0) maxContent)
    = some ⟨30, 0⟩ := by decide +kernel

end C19
