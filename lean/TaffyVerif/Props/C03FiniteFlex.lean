/-
  C03 — finiteness at the extended numbers `ER` (Model/ExtNum.lean), part 2: the flex program (`Model/Flex.lean` = the whole
  of src/compute/flexbox.rs, with `Model/FlexLine.lean` and the flex copy of `Model/AbsPos.lean`) and trees of leaves, block
  and flexbox containers; and the stand-alone "absolutely positioned child" functions of C11 (`AbsPos.absBlock`,
  `AbsPos.absFlex`).  Part 1 (leaf, root, block, evaluator, the aspect-ratio witness): Props/C03Finite.lean.

  Result for flexbox: **no finding** — with finite lengths, percentages, `flex_grow`, `flex_shrink`, gaps and an aspect ratio
  that is absent or finite and non-zero, no `∞`/`NaN` reaches a `LayoutInput`, a `Layout` or the output.  Why each division is
  safe (all proved, Lemmas/FinFlexLine.lean, FinFlex1.lean, FinFlex2.lean):
    * `flex_grow / sum_flex_grow` and `inner_flex_basis·flex_shrink / sum_scaled_shrink_factor` (freeze loop): taken only
      under `sum > 0.0`;  `diff / max(1, flex_grow)` and `diff / scaled_shrink_factor` (intrinsic main size): `max(1, x) ≠ 0`
      resp. the guard `> 0.0`;
    * `free_space / num_auto_margins`: guard `> 0`;  `free_space / 2.0`;
    * `compute_alignment_offset` (`/ n`, `/ (n−1)`, `/ (n+1)`): the offset of the first item (line) is only evaluated when
      there is one, that of a later item only when there are two;
    * `remaining / lines.len()` in `handle_align_content_stretch` IS a division by zero when a wrapping container has no flex
      item (all children absolutely positioned or `display:none`) and a positive minimum cross size — the real code computes
      `x / 0.0 = ∞` there — but the quotient is only added to the (non-existent) lines: it reaches nothing;
    * `f32::INFINITY` as "no maximum" is an `Option` in the model (`none`), so the sentinel never enters arithmetic;
      `is_normal()` (freeze loop) is `NumX ER` = finite and non-zero (Model/ExtNumX.lean).
  As everywhere in C03Finite: overflow of finite f32 arithmetic is not modelled.
-/
import TaffyVerif.Lemmas.FinFlex2
import TaffyVerif.Lemmas.FinEval
import TaffyVerif.Props.C03Finite
import TaffyVerif.Props.EvalFlex

namespace C03Finite
open C03Fin Eval FlexModel RootModel

/-! ## 4. the flex program -/

/-- **flex_finite_partial**: `compute_flexbox_layout` for a finite container style, finite child styles and a finite input,
the children's answers universally quantified over finite outputs: every `LayoutInput` it passes to a child
(`measure_child_size`, `perform_child_layout`: known dimensions, parent size, definite available space), every `Layout` it
sets and every number of its output (size, content size, first baseline) is finite. -/
theorem flex_finite_partial (style : Style ER) (cs : List (Style ER)) (inputs : LayoutInput ER)
    (hs : StyleFin style) (hcs : StylesFin cs) (hi : InFin inputs) :
    FinP OutFin (computeFlexboxLayout style cs inputs) :=
  FinP_computeFlexboxLayout hs hcs hi

/-- `resolve_flexible_lengths` on one line (the freeze loop, any fuel): finite items in, finite items out -/
theorem flex_resolve_flexible_lengths_finite (items res : List (FlexLine.FlexItemM ER)) (innerMain : Option ER) (gap : ER)
    (fuel : Nat) (h : MsFin items) (hi : OFin innerMain) (hg : IsFin gap)
    (e : FlexLine.resolveFlexibleLengths items innerMain gap fuel = some res) : MsFin res :=
  fin_resolveFlexibleLengths h hi hg e

/-- `distribute_remaining_free_space` + `compute_alignment_offset` on one line -/
theorem flex_distribute_finite (items : List (FlexLine.FlexItemM ER)) (icm gap : ER) (jc : Option AlignContent)
    (dir : FlexDirection) (h : MsFin items) (hi : IsFin icm) (hg : IsFin gap) :
    MsFin (FlexLine.distributeRemainingFreeSpace items icm gap jc dir) :=
  fin_distributeRemainingFreeSpace h hi hg

/-- `handle_align_content_stretch` with NO line: the division `remaining / 0` happens (its value is `+∞` for a positive
remainder) and is dropped — the function returns the empty list of lines -/
theorem flex_stretch_division_by_zero_dropped (k : AlgoConstants ER) (ns : Size (Option ER)) :
    handleAlignContentStretch k ns [] = [] ∧ (ER.fin 5) / (Num.ofNat ([] : List (FlexLineS ER)).length) = ER.pinf := by
  refine ⟨?_, by decide +kernel⟩
  unfold handleAlignContentStretch
  dsimp only
  split
  · split <;> rfl
  · rfl

/-- non-trivial instance: a wrapping row-reverse container with percentage gap, `justify-content: space-around`,
`align-content: space-between`, padding; children with grow/shrink factors, auto margins, aspect ratio, baseline
alignment, an absolutely positioned child with insets, a hidden child -/
def sFlex : Style ER :=
  { (Style.default : Style ER) with
    display := .flex, flexWrap := .wrap, flexDirection := .rowReverse, justifyContent := some .spaceAround,
    alignContent := some .spaceBetween, gap := ⟨.percent (.fin (1/20)), .length (.fin 4)⟩,
    padding := ⟨.length (.fin 3), .length (.fin 3), .percent (.fin (1/10)), .length (.fin 0)⟩,
    minSize := ⟨.auto, .length (.fin 50)⟩ }

def csFlex : List (Style ER) :=
  [{ (Style.default : Style ER) with flexGrow := .fin 2, flexShrink := .fin (1/2), flexBasis := .percent (.fin (1/4)),
                                     margin := ⟨.auto, .length (.fin 2), .length (.fin 0), .auto⟩ },
   { (Style.default : Style ER) with aspectRatio := some (.fin (3/2)), size := ⟨.length (.fin 60), .auto⟩,
                                     alignSelf := some .baseline, flexGrow := .fin 0, flexShrink := .fin 0 },
   { (Style.default : Style ER) with position := .absolute, inset := ⟨.auto, .length (.fin 5), .percent (.fin (1/10)), .auto⟩ },
   { (Style.default : Style ER) with display := .none },
   { (Style.default : Style ER) with alignSelf := some .baseline, maxSize := ⟨.length (.fin 30), .auto⟩, flexGrow := .fin 1 }]

theorem sFlex_fin : StyleFin sFlex := by
  constructor
  all_goals (try simp [sFlex, Style.default, fin_simp, RLPAFin, RLPFin, SLPAFin, SLPFin, zero_def, one_def])

theorem csFlex_fin : StylesFin csFlex := by
  intro s hs
  simp only [csFlex, List.mem_cons, List.not_mem_nil, or_false] at hs
  rcases hs with rfl | rfl | rfl | rfl | rfl
  all_goals
    constructor
    all_goals (try simp [Style.default, fin_simp, RLPAFin, RLPFin, SLPAFin, SLPFin, zero_def, one_def])
  decide +kernel

example : StyleFin sFlex ∧ StylesFin csFlex ∧ InFin inGood := ⟨sFlex_fin, csFlex_fin, ⟨⟨trivial, trivial⟩, ⟨trivial, trivial⟩,
  ⟨trivial, trivial⟩⟩⟩

/-! ## 5. the "absolutely positioned child" functions of C11 -/

/-- **abs_block_finite_partial**: block.rs' absolutely positioned child (`AbsPos.absBlock`, at the call site of
`compute_inner`): finite container and child styles, finite outer size, any oracle with finite answers ⇒ finite `Layout` -/
theorem abs_block_finite_partial (cst st : Style ER) (outer : Size ER) (order : Nat) (oracle : AbsPos.Oracle ER)
    (hc : StyleFin cst) (hs : StyleFin st) (ho : SFin outer) (horc : ∀ i, InFin i → OutFin (oracle i)) :
    LayFin (AbsPos.absBlock (AbsPos.blockCallSite cst outer order) st oracle) :=
  fin_absBlock (fin_blockCallSite hc ho) hs horc

/-- **abs_flex_finite_partial**: flexbox.rs' absolutely positioned child (`AbsPos.absFlex`) for finite `AlgoConstants` -/
theorem abs_flex_finite_partial (a : AbsPos.FlexArgs ER) (st : Style ER) (oracle : AbsPos.Oracle ER)
    (ha : FlexArgsFin a) (hs : StyleFin st) (horc : ∀ i, InFin i → OutFin (oracle i)) :
    LayFin (AbsPos.absFlex a st oracle) :=
  fin_absFlex ha hs horc

/-- **abs_grid_finite_partial**: grid's `align_and_position_item` (`AbsPos.absGrid`, alignment.rs) at the call site of
grid/mod.rs for a child with `auto` grid lines: finite styles, finite border box ⇒ finite `Layout` -/
theorem abs_grid_finite_partial (cst st : Style ER) (ps : Size (Option ER)) (bb : Size ER) (order : Nat)
    (oracle : AbsPos.Oracle ER) (hc : StyleFin cst) (hs : StyleFin st) (hps : SOFin ps) (hbb : SFin bb)
    (horc : ∀ i, InFin i → OutFin (oracle i)) :
    LayFin (AbsPos.absGrid (AbsPos.gridCallSite cst ps bb order) st oracle) :=
  fin_absGrid (fin_gridCallSite hc hps hbb) hs horc

/-- non-trivial instance for the three functions: the styles of the examples above, a `40×30` answer -/
example : StyleFin sGood ∧ StyleFin sFlex ∧ SFin (⟨.fin 300, .fin 200⟩ : Size ER) ∧
    (∀ i : LayoutInput ER, InFin i → OutFin ((fun _ => LayoutOutput.fromOuterSize ⟨.fin 40, .fin 30⟩) i)) :=
  ⟨sGood_fin, sFlex_fin, ⟨trivial, trivial⟩, fun _ _ => fin_fromOuterSize ⟨trivial, trivial⟩⟩

/-! ## 6. trees of leaves, block containers and flexbox containers -/

theorem algFin_flex : AlgFin (computeFlexboxLayout : Style ER → _) :=
  fun _ _ _ hs hcs hi => FinP_computeFlexboxLayout hs hcs hi

/-- **eval_finite_block_flex_leaf_trees_partial** (unconditional in grid): on a tree without grid containers outside
hidden subtrees (`EvalFlex.NoGrid`), for every cache implementation with a finiteness invariant, every fuel, every state
with finite layouts and cache entries and every finite input: finite output, and again finite layouts at every node and
finite cache entries -/
theorem eval_finite_block_flex_leaf_trees_partial {C : Type} (ci : CacheImpl ER C) (I : C → Prop) (hci : CacheFin ci I)
    (grid : EvalBlock.ContainerAlg ER) (fuel : Nat) (t : STree ER) (ns : NS ER C) (inp : LayoutInput ER)
    (hb : EvalFlex.NoGrid t) (ht : TreeFin t) (hns : NSFin I ns) (hi : InFin inp) :
    OutFin (evalNode ci (EvalConcrete.algs computeFlexboxLayout grid) fuel t ns inp).1 ∧
    NSFin I (evalNode ci (EvalConcrete.algs computeFlexboxLayout grid) fuel t ns inp).2 := by
  rw [EvalFlex.eval_block_flex_leaf_trees ci computeFlexboxLayout grid EvalConcrete.idle fuel t ns inp hb]
  exact eval_finite_algs_partial ci I hci _ _ algFin_flex algFin_idle fuel t ns inp ht hns hi

/-- **root_pass_finite_block_flex_leaf_trees_partial** (C03's finiteness clause for trees of leaves, block and flexbox
containers): one `compute_root_layout` pass over a freshly built tree with the real nine-slot cache: the root's `Layout` and
the unrounded `Layout` stored at EVERY node are finite -/
theorem root_pass_finite_block_flex_leaf_trees_partial (grid : EvalBlock.ContainerAlg ER) (fuel : Nat) (t : STree ER)
    (av : Size (AvailableSpace ER)) (hb : EvalFlex.NoGrid t) (ht : TreeFin t) (ha : SAvFin av) :
    let r := evalNode realCache (EvalConcrete.algs computeFlexboxLayout grid) fuel t (NS.init realCache t)
      (rootInput t.style av)
    LayFin (rootLayout t.style av r.1) ∧ ∀ p k, C05.nsAt r.2 p = some k → LayFin k.layout := by
  have hst : StyleFin t.style := by cases t; exact ht.1
  obtain ⟨h1, h2⟩ := eval_finite_block_flex_leaf_trees_partial realCache RealCacheFin cacheFin_realCache grid fuel t
    (NS.init realCache t) (rootInput t.style av) hb ht (fin_init cacheFin_realCache t) (fin_rootInput hst ha)
  exact ⟨fin_rootLayout hst ha h1, fun p k e => NSFin_at RealCacheFin p _ k h2 e⟩

/-- the same after any number of further passes with finite inputs (relayout on warm caches) -/
theorem relayout_finite_block_flex_leaf_trees_partial (grid : EvalBlock.ContainerAlg ER) (t : STree ER)
    (hb : EvalFlex.NoGrid t) (ht : TreeFin t) :
    ∀ (passes : List (Nat × LayoutInput ER)), (∀ q ∈ passes, InFin q.2) →
      NSFin RealCacheFin (passes.foldl
        (fun ns q => (evalNode realCache (EvalConcrete.algs computeFlexboxLayout grid) q.1 t ns q.2).2)
        (NS.init realCache t)) := by
  intro passes
  suffices h : ∀ ns, NSFin RealCacheFin ns → (∀ q ∈ passes, InFin q.2) →
      NSFin RealCacheFin (passes.foldl
        (fun ns q => (evalNode realCache (EvalConcrete.algs computeFlexboxLayout grid) q.1 t ns q.2).2) ns) from
    h _ (fin_init cacheFin_realCache t)
  induction passes with
  | nil => intro ns h _; exact h
  | cons q rest ih =>
    intro ns h hq
    simp only [List.foldl_cons]
    exact ih _ (eval_finite_block_flex_leaf_trees_partial realCache RealCacheFin cacheFin_realCache grid q.1 t ns q.2 hb ht h
      (hq q (List.mem_cons_self ..))).2 (fun q' hq' => hq q' (List.mem_cons_of_mem _ hq'))

/-- non-trivial instance: the flex container above with leaf contents, one child being a block container with a child and
one a nested column flex container -/
def tFlex : STree ER :=
  .node sFlex none
    [.node csFlex[0] (some (.wrap (.fin 120) (.fin 16))) [],
     .node csFlex[1] none [],
     .node csFlex[2] (some (.fixed (.fin 7) (.fin 9))) [],
     .node csFlex[3] none [.node sFlex none []],
     .node { sGood with aspectRatio := none, size := ⟨.auto, .auto⟩ } none [.node sGood (some (.fixed (.fin 30) (.fin 10))) []],
     .node { sFlex with flexDirection := .column, flexWrap := .noWrap } none
       [.node csFlex[4] (some (.fixed (.fin 12) (.fin 8))) [], .node csFlex[0] none []]]

theorem tFlex_ok : EvalFlex.NoGrid tFlex ∧ ¬ EvalBlock.BlockOnly tFlex ∧ TreeFin tFlex := by
  refine ⟨by simp [tFlex, EvalFlex.NoGrid, EvalFlex.NoGridList, sFlex, csFlex, sGood, Style.default],
    by simp [tFlex, EvalBlock.BlockOnly, EvalBlock.BlockOnlyList, sFlex, csFlex, sGood, Style.default], ?_⟩
  have h0 := csFlex_fin csFlex[0] (by simp [csFlex])
  have h1 := csFlex_fin csFlex[1] (by simp [csFlex])
  have h2 := csFlex_fin csFlex[2] (by simp [csFlex])
  have h3 := csFlex_fin csFlex[3] (by simp [csFlex])
  have h4 := csFlex_fin csFlex[4] (by simp [csFlex])
  have hg : StyleFin { sGood with aspectRatio := none, size := ⟨.auto, .auto⟩ } :=
    { sGood_fin with aspectRatio := trivial, size := ⟨trivial, trivial⟩ }
  have hc : StyleFin { sFlex with flexDirection := .column, flexWrap := .noWrap } := { sFlex_fin with }
  have hm : ∀ (x : MeasureSpec ER) (w h : ER), IsFin w → IsFin h → (x = .fixed w h ∨ x = .wrap w h) → MeasureSpecFin x := by
    intro x w h hw hh hx
    rcases hx with rfl | rfl <;> exact ⟨hw, hh⟩
  simp only [tFlex, TreeFin, TreeListFin, and_true]
  refine ⟨sFlex_fin, ?_, ⟨h0, ?_⟩, ⟨h1, ?_⟩, ⟨h2, ?_⟩, ⟨h3, ?_, sFlex_fin, ?_⟩, ⟨hg, ?_, sGood_fin, ?_⟩,
    ⟨hc, ?_, ⟨h4, ?_⟩, ⟨h0, ?_⟩⟩⟩
  all_goals (intro m hm'; cases hm'; try exact ⟨trivial, trivial⟩)

end C03Finite

/-
  Obligations to audit (`#print axioms`; all depend on [propext, Classical.choice, Quot.sound] at most):
  C03FINITE_FLEX_THEOREMS = [
    "C03Finite.flex_finite_partial", "C03Finite.flex_resolve_flexible_lengths_finite", "C03Finite.flex_distribute_finite",
    "C03Finite.flex_stretch_division_by_zero_dropped", "C03Finite.sFlex_fin", "C03Finite.csFlex_fin",
    "C03Finite.abs_block_finite_partial", "C03Finite.abs_flex_finite_partial", "C03Finite.abs_grid_finite_partial",
    "C03Finite.algFin_flex",
    "C03Finite.eval_finite_block_flex_leaf_trees_partial", "C03Finite.root_pass_finite_block_flex_leaf_trees_partial",
    "C03Finite.relayout_finite_block_flex_leaf_trees_partial", "C03Finite.tFlex_ok",
  ]
-/
