/-
  Tie (tier T) for grid item placement, third part: `place_grid_items` (src/compute/grid/placement.rs).

  The source runs three adaptor chains `children_iter().filter(p).map(to_origin_zero).for_each(place and record)`.  Iterator adaptors are
  lazy: the origin-zero conversion of child k+1 runs AFTER child k has been placed and recorded.  The generated code follows that order
  (`Occ.forM` over the filtered list, the conversion inside the body).  `placeGridItemsL` below is the model in that order (`foldL`); it is
  proved EQUAL to the generated function for all arguments, and related to `GridPlacement.placeGridItems` (which converts a whole phase
  first, `mapO`): same `.ok` results, and one fails exactly when the other does — only WHICH failure is reported can differ.
-/
import TaffyVerif.Props.TiePlacement2

namespace TiePlacement
open GridPlacement TieGrid

/-- `.map(f).for_each(g)` as the adaptors run it: convert one element, process it, go on -/
def foldL {α β σ : Type} (f : α → Outcome β) (g : σ → β → Outcome σ) : σ → List α → Outcome σ
  | s, [] => pure s
  | s, x :: xs => do
    let y ← f x
    let s' ← g s y
    foldL f g s' xs

/-- `for y in ys { s = g(s, y) }` -/
def foldO {β σ : Type} (g : σ → β → Outcome σ) : σ → List β → Outcome σ
  | s, [] => pure s
  | s, y :: ys => do
    let s' ← g s y
    foldO g s' ys

/-- an `Occ.forM` whose body is "convert, then process" in a representation `rep` of the state is `foldL` -/
theorem forM_foldL {α β σ τ : Type} (rep : σ → τ) (f : α → Outcome β) (g : σ → β → Outcome σ) (F : α → τ → Outcome τ)
    (hF : ∀ x s, F x (rep s) = ((f x >>= g s) >>= fun s' => pure (rep s'))) :
    ∀ (l : List α) (s : σ), Occ.forM l (rep s) F = (foldL f g s l >>= fun s' => pure (rep s')) := by
  intro l
  induction l with
  | nil => intro s; rfl
  | cons x xs ih =>
    intro s
    unfold Occ.forM foldL
    rw [hF]
    cases f x with
    | ok y =>
      simp only [ok_bind']
      cases g s y with
      | ok s' =>
        simp only [ok_bind', pure_bind']
        exact ih s'
      | _ => rfl
    | _ => rfl

/-- body of phase 1 for one converted child -/
def g1 (ax : Axis) (st : State) (c : OzChild) : Outcome State :=
  placeDefiniteGridItem c ax >>= fun ps => recordGridPlacement st c.index ax ps.1 ps.2 .definitelyPlaced

/-- body of phase 2 -/
def g2 (fuel : Nat) (flow : AutoFlow) (st : State) (c : OzChild) : Outcome State :=
  placeDefiniteSecondaryAxisItem fuel st.matrix c flow >>= fun ps =>
    recordGridPlacement st c.index flow.primaryAxis ps.1 ps.2 .autoPlaced

/-- body of phase 4 (the state carries `grid_position`) -/
def g4 (fuel : Nat) (flow : AutoFlow) (gridStart : Int × Int) (sp : State × (Int × Int)) (c : OzChild) :
    Outcome (State × (Int × Int)) :=
  placeIndefinitelyPositionedItem fuel sp.1.matrix c flow sp.2 >>= fun ps =>
    recordGridPlacement sp.1 c.index flow.primaryAxis ps.1 ps.2 .autoPlaced >>= fun st' =>
      pure (st', if flow.isDense then gridStart else (ps.1.«end», ps.2.start))

/-- `place_grid_items` in the source's (lazy) order, from any state -/
def placeGridItemsL (fuel : Nat) (st : State) (children : List (Nat × Child)) (flow : AutoFlow) : Outcome State := do
  let primaryAxis := flow.primaryAxis
  let secondaryAxis := primaryAxis.other
  let ec := st.matrix.columns.explicit
  let er := st.matrix.rows.explicit
  let st ← foldL (toOz ec er) (g1 primaryAxis) st (children.filter fun ic => isPhase1 ic.2)
  let st ← foldL (toOz ec er) (g2 fuel flow) st (children.filter fun ic => isPhase2 secondaryAxis ic.2)
  let pn ← i16 (st.matrix.trackCounts primaryAxis).negativeImplicit
  let sn ← i16 (st.matrix.trackCounts secondaryAxis).negativeImplicit
  let ps ← i16 (-pn)
  let ss ← i16 (-sn)
  let r ← foldL (toOz ec er) (g4 fuel flow (ps, ss)) (st, (ps, ss)) (children.filter fun ic => isPhase4 secondaryAxis ic.2)
  pure r.1

theorem bind_eta_of {α : Type} (x : Outcome α) (k : α → Outcome α) (hk : ∀ a, k a = pure a) : (x >>= k) = x := by
  cases x with
  | ok a => exact hk a
  | _ => rfl

theorem phase2_step_eq' (fuel : Nat) (st : State) (c : OzChild) (flow : AutoFlow) :
    (Gen.Placement.place_definite_secondary_axis_item fuel st.matrix ⟨c.horizontal, c.vertical⟩ flow >>= fun ps =>
        Gen.Placement.record_grid_placement st.matrix (placedOf st) (c.index : Int) flow.primaryAxis ps.1 ps.2 .autoPlaced)
      = (g2 fuel flow st c >>= fun st' => pure (st'.matrix, placedOf st')) := by
  have := phase2_step_eq fuel st c flow
  rw [primary_axis_eq] at this
  exact this

theorem phase4_step_eq' (fuel : Nat) (st : State) (c : OzChild) (flow : AutoFlow) (pos : Int × Int) :
    (Gen.Placement.place_indefinitely_positioned_item fuel st.matrix ⟨c.horizontal, c.vertical⟩ flow pos >>= fun ps =>
        Gen.Placement.record_grid_placement st.matrix (placedOf st) (c.index : Int) flow.primaryAxis ps.1 ps.2 .autoPlaced)
      = ((placeIndefinitelyPositionedItem fuel st.matrix c flow pos >>= fun ps =>
            recordGridPlacement st c.index flow.primaryAxis ps.1 ps.2 .autoPlaced)
          >>= fun st' => pure (st'.matrix, placedOf st')) := by
  have := phase4_step_eq fuel st c flow pos
  rw [primary_axis_eq] at this
  exact this

theorem axis_other_other (a : Axis) : a.other.other = a := by cases a <;> rfl

theorem filter_pred_congr {α : Type} (p q : α → Bool) (l : List α) (h : ∀ x, p x = q x) : List.filter p l = List.filter q l := by
  have : p = q := funext h
  rw [this]

theorem place_grid_items_eq (fuel : Nat) (st : State) (children : List (Nat × Child)) (flow : AutoFlow) :
    Gen.Placement.place_grid_items fuel st.matrix (placedOf st) children flow
      = (placeGridItemsL fuel st children flow >>= fun st' => pure (st'.matrix, placedOf st')) := by
  unfold Gen.Placement.place_grid_items placeGridItemsL
  simp only [primary_axis_eq, other_axis_eq, track_counts_eq, is_definite_raw_eq, grid_placement_eq, is_dense_eq,
    into_origin_zero_placement_eq, bind_assoc']
  -- phase 1
  have hp1 : (fun x : Nat × Child => isDefiniteRaw x.snd.row && isDefiniteRaw x.snd.column) = fun ic => isPhase1 ic.2 := rfl
  have hp2 : (fun x : Nat × Child => isDefiniteRaw (x.snd.gridPlacement flow.primaryAxis.other) &&
      !isDefiniteRaw (x.snd.gridPlacement flow.primaryAxis)) = fun ic => isPhase2 flow.primaryAxis.other ic.2 := by
    funext x; simp only [isPhase2, axis_other_other]
  have hp4 : (fun x : Nat × Child => !isDefiniteRaw (x.snd.gridPlacement flow.primaryAxis.other))
      = fun ic => isPhase4 flow.primaryAxis.other ic.2 := rfl
  rw [hp1, hp2, hp4]
  rw [forM_foldL (fun s : State => (s.matrix, placedOf s)) (toOz st.matrix.columns.explicit st.matrix.rows.explicit)
    (g1 flow.primaryAxis) _ ?hF1]
  case hF1 =>
    intro x s
    obtain ⟨idx, ch⟩ := x
    simp only [toOz, intoOriginZero, g1, Matrix.trackCounts, bind_assoc', pure_bind']
    apply bind_congr'; intro a
    apply bind_congr'; intro b
    apply bind_congr'; intro c
    apply bind_congr'; intro d
    have h := phase1_step_eq s ⟨idx, ⟨a, b⟩, ⟨c, d⟩⟩ flow.primaryAxis
    simp only [bind_assoc'] at h
    refine Eq.trans ?_ h
    apply bind_congr'; intro ps
    exact bind_eta_of _ _ (fun t => rfl)
  simp only [bind_assoc', pure_bind']
  apply bind_congr'; intro st1
  -- phase 2
  rw [forM_foldL (fun s : State => (s.matrix, placedOf s)) (toOz st.matrix.columns.explicit st.matrix.rows.explicit)
    (g2 fuel flow) _ ?hF2]
  case hF2 =>
    intro x s
    obtain ⟨idx, ch⟩ := x
    simp only [toOz, intoOriginZero, Matrix.trackCounts, bind_assoc', pure_bind']
    apply bind_congr'; intro a
    apply bind_congr'; intro b
    apply bind_congr'; intro c
    apply bind_congr'; intro d
    refine Eq.trans ?_ (phase2_step_eq' fuel s ⟨idx, ⟨a, b⟩, ⟨c, d⟩⟩ flow)
    apply bind_congr'; intro ps
    exact bind_eta_of _ _ (fun t => rfl)
  simp only [bind_assoc', pure_bind']
  apply bind_congr'; intro st2
  apply bind_congr'; intro pn
  apply bind_congr'; intro sn
  apply bind_congr'; intro ps
  apply bind_congr'; intro ss
  -- phase 4
  rw [forM_foldL (fun s : State × (Int × Int) => (s.1.matrix, placedOf s.1, s.2))
    (toOz st.matrix.columns.explicit st.matrix.rows.explicit) (g4 fuel flow (ps, ss)) _ ?hF4 _ (st2, (ps, ss))]
  case hF4 =>
    intro x s
    obtain ⟨idx, ch⟩ := x
    obtain ⟨s, pos⟩ := s
    simp only [toOz, intoOriginZero, g4, Matrix.trackCounts, bind_assoc', pure_bind']
    apply bind_congr'; intro a
    apply bind_congr'; intro b
    apply bind_congr'; intro c
    apply bind_congr'; intro d
    rw [place_indefinitely_positioned_item_eq fuel s.matrix ⟨idx, ⟨a, b⟩, ⟨c, d⟩⟩ flow pos]
    apply bind_congr'; intro sp
    have h := record_grid_placement_eq s idx flow.primaryAxis sp.1 sp.2 .autoPlaced
    rw [h]
    cases recordGridPlacement s idx flow.primaryAxis sp.1 sp.2 .autoPlaced <;> rfl
  simp only [bind_assoc', pure_bind']

/-! ### the lazy order against `GridPlacement.placeGridItems` (which converts a whole phase first)

Equal `.ok` results, and one fails exactly when the other does; the failure reported can differ (`lazy_eager_failure_witness`). -/

/-- same successful results (hence: one fails iff the other fails) -/
def OkEq {α : Type} (x y : Outcome α) : Prop := ∀ r, x = .ok r ↔ y = .ok r

theorem OkEq.refl {α : Type} (x : Outcome α) : OkEq x x := fun _ => Iff.rfl

theorem OkEq.isOk {α : Type} {x y : Outcome α} (h : OkEq x y) : x.isOk = y.isOk := by
  cases hx : x with
  | ok a => rw [(h a).1 hx]
  | _ =>
    cases hy : y with
    | ok b => have := (h b).2 hy; rw [hx] at this; cases this
    | _ => rfl

theorem OkEq.bind {α β : Type} {x y : Outcome α} {k k' : α → Outcome β} (h : OkEq x y) (hk : ∀ a, OkEq (k a) (k' a)) :
    OkEq (x >>= k) (y >>= k') := by
  intro r
  constructor
  · intro hr
    cases hx : x with
    | ok a => rw [hx] at hr; rw [(h a).1 hx]; exact (hk a r).1 hr
    | _ => rw [hx] at hr; cases hr
  · intro hr
    cases hy : y with
    | ok a => rw [hy] at hr; rw [(h a).2 hy]; exact (hk a r).2 hr
    | _ => rw [hy] at hr; cases hr

theorem okEq_fold {α β σ : Type} (f : α → Outcome β) (g : σ → β → Outcome σ) :
    ∀ (l : List α) (s : σ), OkEq (foldL f g s l) (mapO f l >>= foldO g s) := by
  intro l
  induction l with
  | nil => intro s r; exact Iff.rfl
  | cons x xs ih =>
    intro s r
    unfold foldL mapO
    cases hf : f x with
    | ok y =>
      simp only [ok_bind', bind_assoc', pure_bind', foldO]
      cases hg : g s y with
      | ok s' =>
        simp only [ok_bind']
        exact ih s' r
      | _ =>
        cases mapO f xs <;> (constructor <;> (intro h; cases h))
    | _ => constructor <;> (intro h; cases h)

theorem okEq_bind_fold {α β σ γ : Type} (f : α → Outcome β) (g : σ → β → Outcome σ) (l : List α) (s : σ) {k k' : σ → Outcome γ}
    (hk : ∀ a, OkEq (k a) (k' a)) :
    OkEq (foldL f g s l >>= k) (mapO f l >>= fun cs => foldO g s cs >>= k') := by
  have := OkEq.bind (okEq_fold f g l s) hk
  rw [bind_assoc'] at this
  exact this

theorem phase1_foldO (ax : Axis) : ∀ (cs : List OzChild) (st : State), phase1 ax st cs = foldO (g1 ax) st cs := by
  intro cs
  induction cs with
  | nil => intro st; rfl
  | cons c cs ih =>
    intro st
    unfold phase1 foldO
    simp only [g1, bind_assoc']
    apply bind_congr'; intro ps
    apply bind_congr'; intro st'
    exact ih st'

theorem phase2_foldO (fuel : Nat) (flow : AutoFlow) :
    ∀ (cs : List OzChild) (st : State), phase2 fuel flow st cs = foldO (g2 fuel flow) st cs := by
  intro cs
  induction cs with
  | nil => intro st; rfl
  | cons c cs ih =>
    intro st
    unfold phase2 foldO
    simp only [g2, bind_assoc']
    apply bind_congr'; intro ps
    apply bind_congr'; intro st'
    exact ih st'

theorem phase4_foldO (fuel : Nat) (flow : AutoFlow) (gs : Int × Int) :
    ∀ (cs : List OzChild) (st : State) (pos : Int × Int),
      phase4 fuel flow gs st pos cs = (foldO (g4 fuel flow gs) (st, pos) cs >>= fun r => pure r.1) := by
  intro cs
  induction cs with
  | nil => intro st pos; rfl
  | cons c cs ih =>
    intro st pos
    unfold phase4 foldO
    simp only [g4, bind_assoc', pure_bind']
    apply bind_congr'; intro ps
    apply bind_congr'; intro st'
    exact ih st' _

/-- the source's order and the model's order give the same successful results -/
theorem placeGridItemsL_okEq (fuel : Nat) (m : Matrix) (children : List (Nat × Child)) (flow : AutoFlow) :
    OkEq (placeGridItemsL fuel ⟨m, []⟩ children flow) (placeGridItems fuel m children flow) := by
  unfold placeGridItemsL placeGridItems
  simp only [phase1_foldO, phase2_foldO, phase4_foldO]
  refine okEq_bind_fold _ _ _ _ (fun st1 => ?_)
  refine okEq_bind_fold _ _ _ _ (fun st2 => ?_)
  refine OkEq.bind (OkEq.refl _) (fun pn => ?_)
  refine OkEq.bind (OkEq.refl _) (fun sn => ?_)
  refine OkEq.bind (OkEq.refl _) (fun ps => ?_)
  refine OkEq.bind (OkEq.refl _) (fun ss => ?_)
  exact okEq_bind_fold _ _ _ _ (fun r => OkEq.refl _)

/-- **tie of `place_grid_items` to `GridPlacement.placeGridItems`**: the generated function (on an empty `items`) succeeds with `r` exactly
when the model succeeds with a state whose matrix and items (reversed, `auto` flag erased) are `r` -/
theorem place_grid_items_ok_iff (fuel : Nat) (m : Matrix) (children : List (Nat × Child)) (flow : AutoFlow)
    (r : Matrix × List Occ.PlacedItem) :
    Gen.Placement.place_grid_items fuel m [] children flow = .ok r
      ↔ ∃ st, placeGridItems fuel m children flow = .ok st ∧ r = (st.matrix, placedOf st) := by
  have h := place_grid_items_eq fuel ⟨m, []⟩ children flow
  have hm : placedOf ⟨m, []⟩ = [] := rfl
  rw [hm] at h
  rw [h]
  constructor
  · intro hr
    cases hl : placeGridItemsL fuel ⟨m, []⟩ children flow with
    | ok st =>
      rw [hl] at hr
      refine ⟨st, (placeGridItemsL_okEq fuel m children flow st).1 hl, ?_⟩
      cases hr; rfl
    | _ => rw [hl] at hr; cases hr
  · rintro ⟨st, hst, rfl⟩
    rw [(placeGridItemsL_okEq fuel m children flow st).2 hst]
    rfl

/-- … and it fails exactly when the model fails -/
theorem place_grid_items_isOk (fuel : Nat) (m : Matrix) (children : List (Nat × Child)) (flow : AutoFlow) :
    (Gen.Placement.place_grid_items fuel m [] children flow).isOk = (placeGridItems fuel m children flow).isOk := by
  have h := place_grid_items_eq fuel ⟨m, []⟩ children flow
  have hm : placedOf ⟨m, []⟩ = [] := rfl
  rw [hm] at h
  rw [h, ← (placeGridItemsL_okEq fuel m children flow).isOk]
  cases placeGridItemsL fuel ⟨m, []⟩ children flow <;> rfl

/-- a concrete run: a 2 × 2 explicit grid, one definitely placed child, one auto-placed child that has to go around it -/
example : Gen.Placement.place_grid_items 10 ⟨⟨[.unoccupied, .unoccupied, .unoccupied, .unoccupied], 2, 2⟩, ⟨0, 2, 0⟩, ⟨0, 2, 0⟩⟩ []
      [(0, ⟨⟨.auto, .auto⟩, ⟨.auto, .auto⟩⟩), (1, ⟨⟨.line 1, .auto⟩, ⟨.line 1, .auto⟩⟩)] .row
    = .ok (⟨⟨[.definitelyPlaced, .autoPlaced, .unoccupied, .unoccupied], 2, 2⟩, ⟨0, 2, 0⟩, ⟨0, 2, 0⟩⟩,
        [⟨1, ⟨0, 1⟩, ⟨0, 1⟩⟩, ⟨0, ⟨0, 1⟩, ⟨1, 2⟩⟩]) := by decide

/-- the failure REPORTED can differ (so `place_grid_items_eq` cannot be stated against `placeGridItems` itself): with no fuel, two children of
phase 2 and 40000 explicit rows, the source runs out of fuel placing child 0 before it converts child 1, whose line −1 overflows
(`explicit_line_count as i16`); the model converts both first and reports the overflow -/
theorem lazy_eager_failure_witness :
    Gen.Placement.place_grid_items 0 ⟨⟨[], 0, 0⟩, ⟨0, 1, 0⟩, ⟨0, 40000, 0⟩⟩ []
        [(0, ⟨⟨.line 1, .auto⟩, ⟨.auto, .auto⟩⟩), (1, ⟨⟨.line (-1), .auto⟩, ⟨.auto, .auto⟩⟩)] .rowDense = .outOfFuel ∧
    placeGridItems 0 ⟨⟨[], 0, 0⟩, ⟨0, 1, 0⟩, ⟨0, 40000, 0⟩⟩
        [(0, ⟨⟨.line 1, .auto⟩, ⟨.auto, .auto⟩⟩), (1, ⟨⟨.line (-1), .auto⟩, ⟨.auto, .auto⟩⟩)] .rowDense = .overflow := by
  constructor <;> decide

end TiePlacement
