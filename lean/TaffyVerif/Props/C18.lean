/-
  C18 — Style lengths are encoded losslessly and resolve to what they were built from.

  The definitions under `Gen.CL` are **regenerated from src/style/compact_length.rs on every run**; these
  theorems are therefore re-checked against what the code says now.  Quantifiers: every 32-bit payload
  (so every f32 including NaN payloads, −0, ±∞), every constructor, every non-null 8-aligned pointer.
-/
import TaffyVerif.Model.Lengths

namespace C18
open Gen.CL LenModel

/-! ### the two packing facts everything rests on -/

theorem pack_tag (v : BitVec 32) (t : BitVec 64) (ht : t.toNat < 256) :
    (((BitVec.setWidth 64 v) <<< 32) ||| t) &&& 255#64 = t := by
  apply BitVec.eq_of_toNat_eq
  have hv := v.isLt
  have h1 : ((BitVec.setWidth 64 v) <<< 32).toNat = v.toNat <<< 32 := by
    simp [BitVec.toNat_shiftLeft, BitVec.toNat_setWidth, Nat.shiftLeft_eq]
    omega
  rw [BitVec.toNat_and, BitVec.toNat_or, h1]
  have h2 : v.toNat <<< 32 ||| t.toNat = v.toNat <<< 32 + t.toNat :=
    (Nat.shiftLeft_add_eq_or_of_lt (by omega) _).symm
  rw [h2]
  show (v.toNat <<< 32 + t.toNat) &&& (2^8 - 1) = t.toNat
  rw [Nat.and_two_pow_sub_one_eq_mod, Nat.shiftLeft_eq]
  omega

theorem pack_value (v : BitVec 32) (t : BitVec 64) (ht : t.toNat < 256) :
    BitVec.setWidth 32 ((((BitVec.setWidth 64 v) <<< 32) ||| t) >>> 32) = v := by
  apply BitVec.eq_of_toNat_eq
  have hv := v.isLt
  have h1 : ((BitVec.setWidth 64 v) <<< 32).toNat = v.toNat <<< 32 := by
    simp [BitVec.toNat_shiftLeft, BitVec.toNat_setWidth, Nat.shiftLeft_eq]
    omega
  rw [BitVec.toNat_setWidth, BitVec.toNat_ushiftRight, BitVec.toNat_or, h1]
  have h2 : v.toNat <<< 32 ||| t.toNat = v.toNat <<< 32 + t.toNat :=
    (Nat.shiftLeft_add_eq_or_of_lt (by omega) _).symm
  rw [h2, Nat.shiftLeft_eq, Nat.shiftRight_eq_div_pow]
  omega

theorem pack_low3 (v : BitVec 32) (t : BitVec 64) (ht : t.toNat < 256) :
    (((BitVec.setWidth 64 v) <<< 32) ||| t) &&& 7#64 = t &&& 7#64 := by
  apply BitVec.eq_of_toNat_eq
  have hv := v.isLt
  have h1 : ((BitVec.setWidth 64 v) <<< 32).toNat = v.toNat <<< 32 := by
    simp [BitVec.toNat_shiftLeft, BitVec.toNat_setWidth, Nat.shiftLeft_eq]
    omega
  rw [BitVec.toNat_and, BitVec.toNat_or, h1, BitVec.toNat_and]
  have h2 : v.toNat <<< 32 ||| t.toNat = v.toNat <<< 32 + t.toNat :=
    (Nat.shiftLeft_add_eq_or_of_lt (by omega) _).symm
  rw [h2]
  show (v.toNat <<< 32 + t.toNat) &&& (2^3 - 1) = t.toNat &&& (2^3 - 1)
  rw [Nat.and_two_pow_sub_one_eq_mod, Nat.and_two_pow_sub_one_eq_mod, Nat.shiftLeft_eq]
  omega

/-! ### generic statements about `from_val` / `from_tag` / `from_ptr` as generated -/

theorem from_val_tag (v : BitVec 32) (t : BitVec 64) (ht : t.toNat < 256) :
    Inner.tag (Inner.from_val v t) = t := by
  unfold Inner.tag Inner.from_val Inner.TAG_MASK Compat.f32_to_bits
  exact pack_tag v t ht

theorem from_val_value (v : BitVec 32) (t : BitVec 64) (ht : t.toNat < 256) :
    Inner.value (Inner.from_val v t) = v := by
  unfold Inner.value Inner.from_val Compat.f32_to_bits Compat.f32_from_bits
  exact pack_value v t ht

theorem from_val_calc_tag (v : BitVec 32) (t : BitVec 64) (ht : t.toNat < 256) :
    Inner.calc_tag (Inner.from_val v t) = t &&& 7#64 := by
  unfold Inner.calc_tag Inner.from_val Inner.CALC_TAG_MASK Compat.f32_to_bits
  exact pack_low3 v t ht

/-- the table of tags: the quantifier over "every tag" *is* this finite table -/
def numericTags : List (BitVec 64) := [LENGTH_TAG, PERCENT_TAG, FR_TAG, FIT_CONTENT_PX_TAG, FIT_CONTENT_PERCENT_TAG]
def unitTags : List (BitVec 64) := [AUTO_TAG, MIN_CONTENT_TAG, MAX_CONTENT_TAG]
def allTags : List (BitVec 64) := numericTags ++ unitTags

/-- tags are pairwise distinct -/
theorem tags_distinct : allTags.Nodup := by decide

/-- every tag fits the low byte and has a non-zero bit among the low three (so it can never look like calc) -/
theorem tags_small_nonzero_low3 : ∀ t ∈ allTags, t.toNat < 256 ∧ t &&& 7#64 ≠ 0#64 := by
  intro t ht
  simp only [allTags, numericTags, unitTags, List.cons_append, List.nil_append, List.mem_cons,
    List.not_mem_nil, or_false] at ht
  rcases ht with rfl | rfl | rfl | rfl | rfl | rfl | rfl | rfl <;> exact ⟨by decide, by decide⟩

/-- and `CALC_TAG` is zero -/
theorem calc_tag_zero : CALC_TAG = 0#64 := by decide

/-! ### constructors: tag and value round-trips (bit-identical payload) -/

theorem length_roundtrip (v : BitVec 32) : tag (length v) = LENGTH_TAG ∧ value (length v) = v :=
  ⟨from_val_tag v _ (by decide), from_val_value v _ (by decide)⟩
theorem percent_roundtrip (v : BitVec 32) : tag (percent v) = PERCENT_TAG ∧ value (percent v) = v :=
  ⟨from_val_tag v _ (by decide), from_val_value v _ (by decide)⟩
theorem fr_roundtrip (v : BitVec 32) : tag (fr v) = FR_TAG ∧ value (fr v) = v :=
  ⟨from_val_tag v _ (by decide), from_val_value v _ (by decide)⟩
theorem fit_content_px_roundtrip (v : BitVec 32) :
    tag (fit_content_px v) = FIT_CONTENT_PX_TAG ∧ value (fit_content_px v) = v :=
  ⟨from_val_tag v _ (by decide), from_val_value v _ (by decide)⟩
theorem fit_content_percent_roundtrip (v : BitVec 32) :
    tag (fit_content_percent v) = FIT_CONTENT_PERCENT_TAG ∧ value (fit_content_percent v) = v :=
  ⟨from_val_tag v _ (by decide), from_val_value v _ (by decide)⟩

theorem unit_tags : tag auto = AUTO_TAG ∧ tag min_content = MIN_CONTENT_TAG ∧ tag max_content = MAX_CONTENT_TAG := by
  decide

/-- no numeric or unit constructor is ever mistaken for `calc` -/
theorem numeric_not_calc (v : BitVec 32) :
    is_calc (length v) = false ∧ is_calc (percent v) = false ∧ is_calc (fr v) = false ∧
    is_calc (fit_content_px v) = false ∧ is_calc (fit_content_percent v) = false := by
  refine ⟨?_, ?_, ?_, ?_, ?_⟩ <;>
  · unfold is_calc
    first
      | (unfold length; rw [from_val_calc_tag _ _ (by decide)]; decide)
      | (unfold percent; rw [from_val_calc_tag _ _ (by decide)]; decide)
      | (unfold fr; rw [from_val_calc_tag _ _ (by decide)]; decide)
      | (unfold fit_content_px; rw [from_val_calc_tag _ _ (by decide)]; decide)
      | (unfold fit_content_percent; rw [from_val_calc_tag _ _ (by decide)]; decide)

theorem unit_not_calc : is_calc auto = false ∧ is_calc min_content = false ∧ is_calc max_content = false := by
  decide

/-! ### calc pointers -/

/-- a pointer accepted by `calc`'s assertions is stored without losing a bit and is recognised as calc -/
theorem calc_roundtrip (p : BitVec 64) (hp : calc_pre p = true) :
    calc_value (calc_ p) = p ∧ is_calc (calc_ p) = true := by
  have h0 : calc_ p = p := by
    unfold calc_ Inner.from_ptr Compat.tag_ptr
    rw [calc_tag_zero]; simp
  unfold calc_pre at hp
  simp only [Bool.and_eq_true, bne_iff_ne, ne_eq, beq_iff_eq] at hp
  refine ⟨by rw [h0]; rfl, ?_⟩
  rw [h0]; unfold is_calc Inner.calc_tag Inner.CALC_TAG_MASK
  simp [hp.2]

/-- the low byte of a calc value is never one of the non-calc tags (the resolvers test those tags first) -/
theorem calc_tag_separate (p : BitVec 64) (hp : calc_pre p = true) : ∀ t ∈ allTags, tag (calc_ p) ≠ t := by
  have h0 : calc_ p = p := by
    unfold calc_ Inner.from_ptr Compat.tag_ptr
    rw [calc_tag_zero]; simp
  unfold calc_pre at hp
  simp only [Bool.and_eq_true, bne_iff_ne, ne_eq, beq_iff_eq] at hp
  intro t ht heq
  have hlow := (tags_small_nonzero_low3 t ht).2
  apply hlow
  rw [← heq, h0]
  unfold tag Inner.tag Inner.TAG_MASK
  have : (p &&& 255#64) &&& 7#64 = p &&& 7#64 := by
    rw [BitVec.and_assoc]; congr 1
  rw [this]; exact hp.2

/-! ### predicates agree with the constructor used -/

theorem predicates_length (v : BitVec 32) :
    is_length_or_percentage (length v) = true ∧ is_auto (length v) = false ∧ is_fr (length v) = false ∧
    is_min_content (length v) = false ∧ is_max_content (length v) = false ∧ is_fit_content (length v) = false := by
  simp only [is_length_or_percentage, is_auto, is_fr, is_min_content, is_max_content, is_fit_content,
    (length_roundtrip v).1]
  decide
theorem predicates_percent (v : BitVec 32) :
    is_length_or_percentage (percent v) = true ∧ is_auto (percent v) = false ∧ is_fr (percent v) = false ∧
    is_min_content (percent v) = false ∧ is_max_content (percent v) = false ∧ is_fit_content (percent v) = false ∧
    uses_percentage (percent v) = true := by
  simp only [is_length_or_percentage, is_auto, is_fr, is_min_content, is_max_content, is_fit_content,
    uses_percentage, (percent_roundtrip v).1, (numeric_not_calc v).2.1]
  decide
theorem predicates_fr (v : BitVec 32) :
    is_fr (fr v) = true ∧ is_length_or_percentage (fr v) = false ∧ is_auto (fr v) = false ∧
    is_intrinsic (fr v) = false := by
  simp only [is_length_or_percentage, is_auto, is_fr, is_intrinsic, (fr_roundtrip v).1]
  decide
theorem predicates_fit_content (v : BitVec 32) :
    is_fit_content (fit_content_px v) = true ∧ is_fit_content (fit_content_percent v) = true ∧
    is_max_or_fit_content (fit_content_px v) = true ∧ is_intrinsic (fit_content_percent v) = true ∧
    is_length_or_percentage (fit_content_px v) = false ∧ is_length_or_percentage (fit_content_percent v) = false ∧
    uses_percentage (fit_content_percent v) = true ∧ uses_percentage (fit_content_px v) = false := by
  simp only [is_fit_content, is_max_or_fit_content, is_intrinsic, is_length_or_percentage, uses_percentage,
    (fit_content_px_roundtrip v).1, (fit_content_percent_roundtrip v).1, (numeric_not_calc v).2.2.2.1,
    (numeric_not_calc v).2.2.2.2]
  decide
theorem predicates_unit :
    is_auto auto = true ∧ is_min_content min_content = true ∧ is_max_content max_content = true ∧
    is_auto min_content = false ∧ is_auto max_content = false ∧ is_min_content auto = false ∧
    is_max_content auto = false ∧ is_intrinsic auto = true ∧ is_intrinsic min_content = true ∧
    is_intrinsic max_content = true ∧ is_length_or_percentage auto = false ∧ is_fr auto = false := by
  decide

/-- `is_zero` holds exactly for `length(+0.0)`: not for −0.0, not for any other length -/
theorem is_zero_iff (v : BitVec 32) : is_zero (length v) = true ↔ v = 0#32 := by
  unfold is_zero ZERO
  constructor
  · intro h
    have h := eq_of_beq h
    have := congrArg value h
    rw [(length_roundtrip v).2, (length_roundtrip _).2] at this
    exact this
  · intro h; subst h; simp

/-! ### resolution -/

theorem resolve_length (o : Ops) (v : V) (ctx : Option V) :
    maybeResolveLP o (length v) ctx = .ok (some v) ∧ maybeResolveLPA o (length v) ctx = .ok (some v) ∧
    resolveOrZero (maybeResolveLPA o (length v) ctx) = .ok v ∧ intoOption (length v) = some v ∧
    definiteValue o (length v) ctx = some v := by
  have ht := (length_roundtrip v).1
  have hv := (length_roundtrip v).2
  have hne : (LENGTH_TAG == AUTO_TAG) = false := by decide
  simp [maybeResolveLP, maybeResolveLPA, resolveOrZero, intoOption, definiteValue, ht, hv, hne]

theorem resolve_percent (o : Ops) (f : V) :
    (∀ b, maybeResolveLP o (percent f) (some b) = .ok (some (o.mul b f))) ∧
    maybeResolveLP o (percent f) none = .ok none ∧
    (∀ b, maybeResolveLPA o (percent f) (some b) = .ok (some (o.mul b f))) ∧
    maybeResolveLPA o (percent f) none = .ok none ∧
    resolveOrZero (maybeResolveLPA o (percent f) none) = .ok 0#32 ∧
    (∀ b, resolveToOption o (percent f) b = .ok (some (o.mul b f))) ∧
    (∀ b, resolvedPercentageSize o (percent f) b = some (o.mul f b)) := by
  have ht := (percent_roundtrip f).1
  have hv := (percent_roundtrip f).2
  have h1 : (PERCENT_TAG == AUTO_TAG) = false := by decide
  have h2 : (PERCENT_TAG == LENGTH_TAG) = false := by decide
  simp [maybeResolveLP, maybeResolveLPA, resolveOrZero, resolveToOption, resolvedPercentageSize, ht, hv, h1, h2]

theorem resolve_auto (o : Ops) (ctx : Option V) (b : V) :
    maybeResolveLPA o auto ctx = .ok none ∧ resolveOrZero (maybeResolveLPA o auto ctx) = .ok 0#32 ∧
    resolveToOption o auto b = .ok none ∧ intoOption auto = none := by
  have ht := unit_tags.1
  have h1 : (AUTO_TAG == LENGTH_TAG) = false := by decide
  have h2 : (AUTO_TAG == PERCENT_TAG) = false := by decide
  simp [maybeResolveLPA, resolveOrZero, resolveToOption, intoOption, ht, h1, h2]

/-- `resolve_or_zero` is 0 exactly where `maybe_resolve` is `None` -/
theorem resolve_or_zero_spec (r : Option V) :
    resolveOrZero (.ok r) = .ok (r.getD 0#32) := by
  cases r <;> rfl

/-- a calc value reaches the calc arm of every resolver (never a numeric arm, never `unreachable!()`) -/
theorem resolve_calc (o : Ops) (p : BitVec 64) (hp : calc_pre p = true) (b : V) :
    maybeResolveLP o (calc_ p) (some b) = .ok (some (o.calcFn p b)) ∧
    maybeResolveLPA o (calc_ p) (some b) = .ok (some (o.calcFn p b)) ∧
    maybeResolveLPA o (calc_ p) none = .ok none := by
  have hsep := calc_tag_separate p hp
  have hl : (tag (calc_ p) == LENGTH_TAG) = false := by simpa using hsep LENGTH_TAG (by decide)
  have hpc : (tag (calc_ p) == PERCENT_TAG) = false := by simpa using hsep PERCENT_TAG (by decide)
  have ha : (tag (calc_ p) == AUTO_TAG) = false := by simpa using hsep AUTO_TAG (by decide)
  obtain ⟨hv, hc⟩ := calc_roundtrip p hp
  simp [maybeResolveLP, maybeResolveLPA, hl, hpc, ha, hv, hc]

/-! ### non-vacuity -/
example : calc_pre 0x7f00deadbee8#64 = true := by decide
example : value (length 0x7fc00001#32) = 0x7fc00001#32 := (length_roundtrip _).2   -- a NaN payload survives
example : value (percent 0x80000000#32) = 0x80000000#32 := (percent_roundtrip _).2 -- −0.0 survives

end C18
