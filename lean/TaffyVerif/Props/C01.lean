/-
  C01 — Incremental relayout equals a from-scratch layout (evaluator level).
  C17 (memo clause) — with an exact (full-input) memo in place of the lossy cache, evaluation = cache-free evaluation.

  Model: `Eval.evalNodeWith` (Model/Eval.lean) with the cache implementations `noCache` (cache-free) and `exactMemo`
  (keyed by the complete `LayoutInput`).  Definitions and helper lemmas: Lemmas/EvalMemo.lean (outputs, edits),
  Lemmas/EvalLayouts.lean (stored layouts).

  All theorems hold for every number type `α` (`[Num α]`, plus `[DecidableEq α]` where the exact memo is involved —
  in particular at `Rat`), every dispatch function `sel`, every choice of algorithms `algs`, every tree.
-/
import TaffyVerif.Lemmas.EvalQuiet
import TaffyVerif.Props.C17

set_option linter.unusedSectionVars false

namespace C01
open Eval EvalMemo Gen.Facts
section general
variable {α : Type} [Num α]
variable (sel : Display → Bool → Option Callee) (algs : Algs α)

/-! ## 1. The cache-free output is a pure function of (subtree, input)

`EvalMemo.outFresh sel algs fuel t inp` interprets the node's program with the children's answers given recursively by
`outFresh` itself (no state); hidden run mode, `display:none`, a non-exhaustive dispatch and exhausted fuel give
`LayoutOutput.hidden`.  `EvalMemo.outF sel algs t := outFresh sel algs (depth t) t` is its fuel-free form. -/

/-- **noCache_output**: the output of a cache-free evaluation does not depend on the state (stored layouts) at all -/
theorem noCache_output (fuel : Nat) (t : STree α) (ns : NS α Unit) (inp : LayoutInput α)
    (hd : STree.depth t ≤ fuel) (hshape : Shape t ns) :
    (evalNodeWith noCache sel algs fuel t ns inp).1 = outFresh sel algs fuel t inp :=
  (eval_valid sel algs noCache noCache_sound fuel t ns inp hd (Shape_valid_true sel algs t ns hshape)).1

/-- evaluation keeps the shape of the state -/
theorem noCache_shape (fuel : Nat) (t : STree α) (ns : NS α Unit) (inp : LayoutInput α)
    (hd : STree.depth t ≤ fuel) (hshape : Shape t ns) :
    Shape t (evalNodeWith noCache sel algs fuel t ns inp).2 :=
  Valid_shape _ sel algs _ _
    (eval_valid sel algs noCache noCache_sound fuel t ns inp hd (Shape_valid_true sel algs t ns hshape)).2

/-- **outFresh_fuel_mono**: with fuel ≥ depth the value does not depend on the fuel -/
theorem outFresh_fuel_mono (fuel : Nat) (t : STree α) (inp : LayoutInput α) (hd : STree.depth t ≤ fuel) :
    outFresh sel algs fuel t inp = outFresh sel algs (STree.depth t) t inp :=
  outFresh_fuel_indep sel algs fuel _ t inp hd (Nat.le_refl _)

/-! ## 2. Exact memo: outputs are transparent -/
section exact
variable [DecidableEq α]

/-- the type of an exact memo -/
abbrev Memo (α : Type) := List (LayoutInput α × LayoutOutput α)

/-- **MemoValid**: `ns` has the shape of `t`, and every entry `(inp ↦ out)` in the memo of every node of `ns` satisfies
`out = outF sel algs (subtree of that node) inp` (`outF` = `outFresh` at fuel = depth, hence at any sufficient fuel) -/
def MemoValid (t : STree α) (ns : NS α (Memo α)) : Prop := Valid memoV sel algs t ns

theorem MemoValid_node (style : Style α) (ctx : Option (MeasureSpec α)) (kids : List (STree α)) (c : Memo α)
    (l : Layout α) (nk : List (NS α (Memo α))) :
    MemoValid sel algs (.node style ctx kids) (.mk c l nk) ↔
      ((∀ e ∈ c, e.2 = outF sel algs (.node style ctx kids) e.1) ∧ ValidList memoV sel algs kids nk) :=
  Valid_mk memoV sel algs style ctx kids c l nk

/-- **outputs_transparent_exact**: from a valid state the exact-memo evaluator returns the cache-free output, and the
resulting state is valid again -/
theorem outputs_transparent_exact (fuel : Nat) (t : STree α) (ns : NS α (Memo α)) (inp : LayoutInput α)
    (hd : STree.depth t ≤ fuel) (hv : MemoValid sel algs t ns) :
    (evalNodeWith exactMemo sel algs fuel t ns inp).1 = outFresh sel algs fuel t inp ∧
    MemoValid sel algs t (evalNodeWith exactMemo sel algs fuel t ns inp).2 :=
  eval_valid sel algs exactMemo exactMemo_sound fuel t ns inp hd hv

/-- **MemoValid_init**: a freshly built tree (empty memos) is valid -/
theorem MemoValid_init (t : STree α) : MemoValid sel algs t (NS.init exactMemo t) :=
  Valid_init sel algs exactMemo exactMemo_sound t

/-- **MemoValid_hidden**: `compute_hidden_layout` (memos cleared) preserves validity -/
theorem MemoValid_hidden (t : STree α) (ns : NS α (Memo α)) (hv : MemoValid sel algs t ns) :
    MemoValid sel algs t (hiddenLayout exactMemo ns) :=
  Valid_hidden sel algs exactMemo exactMemo_sound t ns hv

/-- C17, memo clause (outputs): exact-memo evaluation of a valid state = cache-free evaluation of any state of the same
shape -/
theorem memo_eq_cachefree_output (fuel : Nat) (t : STree α) (ns : NS α (Memo α)) (ns' : NS α Unit)
    (inp : LayoutInput α) (hd : STree.depth t ≤ fuel) (hv : MemoValid sel algs t ns) (hshape : Shape t ns') :
    (evalNodeWith exactMemo sel algs fuel t ns inp).1 = (evalNodeWith noCache sel algs fuel t ns' inp).1 := by
  rw [(outputs_transparent_exact sel algs fuel t ns inp hd hv).1, noCache_output sel algs fuel t ns' inp hd hshape]

/-! ## 3. Edits and histories -/

/-- **edit_preserves_valid** (general form): perform any validity-preserving local change `(f, g)` on the subtree/state at
path `p` and clear the memo of every proper ancestor of `p`: validity is preserved.  (Memos off the path belong to
unchanged subtrees; memos on the path are empty.) -/
theorem modify_preserves_valid (f : STree α → STree α) (g : NS α (Memo α) → NS α (Memo α))
    (hfg : ∀ t k, MemoValid sel algs t k → MemoValid sel algs (f t) (g k))
    (p : List Nat) (t : STree α) (ns : NS α (Memo α)) (hv : MemoValid sel algs t ns) :
    MemoValid sel algs (treeModifyAt f p t) (stateModifyAt exactMemo g p ns) :=
  modify_valid sel algs exactMemo exactMemo_sound f g hfg p t ns hv

/-- replacing the subtree at `p` by `new` with any valid state `nsNew` (e.g. a moved subtree keeping its memos) -/
theorem replace_preserves_valid (new : STree α) (nsNew : NS α (Memo α)) (hnew : MemoValid sel algs new nsNew)
    (p : List Nat) (t : STree α) (ns : NS α (Memo α)) (hv : MemoValid sel algs t ns) :
    MemoValid sel algs (treeModifyAt (fun _ => new) p t) (stateModifyAt exactMemo (fun _ => nsNew) p ns) :=
  modify_preserves_valid sel algs _ _ (fun _ _ _ => hnew) p t ns hv

/-- **edit_preserves_valid**: each mutator of `EvalMemo.Edit` (`setStyle` = set_style/set_node_context, `insertChild`,
`removeChild`, `replace`), which changes the node at the path, clears its memo and the memo of every ancestor, preserves
validity -/
theorem edit_preserves_valid (e : Edit α) (t : STree α) (ns : NS α (Memo α)) (hv : MemoValid sel algs t ns) :
    MemoValid sel algs (e.applyTree t) (e.applyState exactMemo ns) :=
  Edit.apply_valid sel algs exactMemo exactMemo_sound e t ns hv

/-- the state reached from a freshly built tree `t0` by a history of (edit, pass) steps is valid -/
theorem history_valid (t0 : STree α) (h : List (Step α)) :
    MemoValid sel algs (runHistory exactMemo sel algs (t0, NS.init exactMemo t0) h).1
      (runHistory exactMemo sel algs (t0, NS.init exactMemo t0) h).2 :=
  runHistory_valid exactMemo sel algs exactMemo_sound h _ (MemoValid_init sel algs t0)

/-- **history_independent_outputs_exact**: after any finite sequence of (edit, pass) steps from a freshly built tree,
the output the exact-memo evaluator returns for the root equals the cache-free output of the final tree, i.e. what a
cache-free pass over a freshly built copy of the final tree returns -/
theorem history_independent_outputs_exact (t0 : STree α) (h : List (Step α)) (inp : LayoutInput α) (fuel : Nat)
    (hd : STree.depth (runHistory exactMemo sel algs (t0, NS.init exactMemo t0) h).1 ≤ fuel) :
    let s := runHistory exactMemo sel algs (t0, NS.init exactMemo t0) h
    (evalNodeWith exactMemo sel algs fuel s.1 s.2 inp).1 = outFresh sel algs fuel s.1 inp ∧
    (evalNodeWith exactMemo sel algs fuel s.1 s.2 inp).1 =
      (evalNodeWith noCache sel algs fuel s.1 (NS.init noCache s.1) inp).1 := by
  intro s
  have hv := history_valid sel algs t0 h
  refine ⟨(outputs_transparent_exact sel algs fuel s.1 s.2 inp hd hv).1, ?_⟩
  exact memo_eq_cachefree_output sel algs fuel s.1 s.2 _ inp hd hv
    (Valid_shape _ sel algs _ _ (Valid_init sel algs noCache noCache_sound s.1))

/-! ## 4. Stored layouts

`erase ns` (Lemmas/EvalLayouts.lean) is the state with all caches forgotten, i.e. exactly the stored layouts.

Outputs are always transparent (§2) but stored layouts are NOT in general: a memo hit skips the body, hence skips the
layout writes a cache-free run performs at that moment.  Three results:

* `layouts_lockstep` / `single_pass_layouts_exact`: equality of ALL stored layouts, step by step, under `HitsSettled`
  (at every hit a cache-free re-evaluation would change no stored layout) — the exact condition for lockstep equality.
* `layouts_final_quiet` / `single_pass_layouts_quiet` / `history_layouts_quiet`: equality of the stored layouts at the
  END of a PerformLayout evaluation, tolerating intermediate differences, under `SelOK sel`, `PLCovers algs` and the
  trace condition `QuietRun` (every hit on a PerformLayout entry hits the newest entry of that node's memo).
* `layouts_not_transparent_witness`: a tree of "(ComputeSize)* then PerformLayout, then set layout" programs on which the
  exact-memo evaluator and the cache-free evaluator store different layouts in ONE pass over a fresh tree: the
  condition `QuietRun` is not implied by the shape of the programs. -/

/-- **layouts_lockstep** (named hypothesis `HitsSettled`): from a valid memo state, if at every memo hit of the run the
subtree is settled for the hit input, the layouts stored by the exact-memo evaluator equal those stored by the
cache-free evaluator started from the same layouts -/
theorem layouts_lockstep (fuel : Nat) (t : STree α) (ns : NS α (Memo α)) (inp : LayoutInput α)
    (hd : STree.depth t ≤ fuel) (hv : MemoValid sel algs t ns) (hq : HitsSettled exactMemo sel algs fuel t ns inp) :
    erase (evalNodeWith exactMemo sel algs fuel t ns inp).2 = (evalNodeWith noCache sel algs fuel t (erase ns) inp).2 :=
  eval_lockstep sel algs exactMemo exactMemo_sound fuel t ns inp hd hv hq

/-- **single_pass_layouts_exact** (hypothesis `HitsSettled`): one pass over a freshly built tree -/
theorem single_pass_layouts_exact (fuel : Nat) (t : STree α) (inp : LayoutInput α) (hd : STree.depth t ≤ fuel)
    (hq : HitsSettled exactMemo sel algs fuel t (NS.init exactMemo t) inp) :
    erase (evalNodeWith exactMemo sel algs fuel t (NS.init exactMemo t) inp).2
      = (evalNodeWith noCache sel algs fuel t (NS.init noCache t) inp).2 := by
  have := layouts_lockstep sel algs fuel t _ inp hd (MemoValid_init sel algs t) hq
  rw [erase_init] at this
  exact this

/-- the ghost invariant of §4 (`EvalMemo.J`): wherever the newest entry of a node's memo is a PerformLayout entry for
`A`, the layouts stored strictly below that node are those a cache-free evaluation of `A` leaves there -/
abbrev GhostInv (t : STree α) (ns : NS α (Memo α)) : Prop := J sel algs t ns

/-- **layouts_final_quiet** (named hypotheses `SelOK sel`, `PLCovers algs`, `QuietRun`): from a valid memo state
satisfying the ghost invariant, and ANY cache-free state `nsF` of the right shape, after a quiet evaluation with a
PerformLayout (or hidden) input the layouts stored strictly below the node are equal; validity and the ghost invariant
are kept (for every input, ComputeSize included). -/
theorem layouts_final_quiet (hsel : SelOK sel) (hcov : PLCovers algs) (fuel : Nat) (t : STree α)
    (ns : NS α (Memo α)) (nsF : NS α Unit) (inp : LayoutInput α) (hd : STree.depth t ≤ fuel)
    (hv : MemoValid sel algs t ns) (hj : GhostInv sel algs t ns) (hshape : Shape t nsF)
    (hq : QuietRun sel algs fuel t ns inp) :
    MemoValid sel algs t (evalNodeWith exactMemo sel algs fuel t ns inp).2 ∧
    GhostInv sel algs t (evalNodeWith exactMemo sel algs fuel t ns inp).2 ∧
    (inp.runMode ≠ .computeSize →
      eraseList (evalNodeWith exactMemo sel algs fuel t ns inp).2.kids
        = (evalNodeWith noCache sel algs fuel t nsF inp).2.kids) := by
  obtain ⟨q1, _, _, q4⟩ := eval_quiet sel algs hsel hcov fuel t ns nsF inp hd hv hj hshape hq
  exact ⟨(outputs_transparent_exact sel algs fuel t ns inp hd hv).2, q1, q4⟩

/-- **single_pass_layouts_quiet**: one PerformLayout pass over a freshly built tree: ALL stored layouts agree -/
theorem single_pass_layouts_quiet (hsel : SelOK sel) (hcov : PLCovers algs) (fuel : Nat) (t : STree α)
    (inp : LayoutInput α) (hd : STree.depth t ≤ fuel) (hmode : inp.runMode ≠ .computeSize)
    (hq : QuietRun sel algs fuel t (NS.init exactMemo t) inp) :
    erase (evalNodeWith exactMemo sel algs fuel t (NS.init exactMemo t) inp).2
      = (evalNodeWith noCache sel algs fuel t (NS.init noCache t) inp).2 := by
  have hsh : Shape t (NS.init noCache t) := Valid_shape _ sel algs _ _ (Valid_init sel algs noCache noCache_sound t)
  obtain ⟨_, _, q3, q4⟩ := eval_quiet sel algs hsel hcov fuel t _ (NS.init noCache t) inp hd
    (MemoValid_init sel algs t) (J_init sel algs t) hsh hq
  apply erase_eq_of
  · apply q3
    · cases t; rfl
    · cases t; rfl
  · exact q4 hmode

/-- **history_layouts_quiet** (C01 for stored layouts, exact-memo mode): after any history of (edit, pass) steps from a
freshly built tree in which every pass was quiet, a further quiet PerformLayout pass stores, below the root, exactly
the layouts a cache-free pass over a freshly built copy of the final tree stores. -/
theorem history_layouts_quiet (hsel : SelOK sel) (hcov : PLCovers algs) (t0 : STree α) (h : List (Step α))
    (hqh : QuietHistory sel algs (t0, NS.init exactMemo t0) h) (inp : LayoutInput α) (fuel : Nat)
    (hd : STree.depth (runHistory exactMemo sel algs (t0, NS.init exactMemo t0) h).1 ≤ fuel)
    (hmode : inp.runMode ≠ .computeSize)
    (hq : QuietRun sel algs fuel (runHistory exactMemo sel algs (t0, NS.init exactMemo t0) h).1
      (runHistory exactMemo sel algs (t0, NS.init exactMemo t0) h).2 inp) :
    let s := runHistory exactMemo sel algs (t0, NS.init exactMemo t0) h
    eraseList (evalNodeWith exactMemo sel algs fuel s.1 s.2 inp).2.kids
      = (evalNodeWith noCache sel algs fuel s.1 (NS.init noCache s.1) inp).2.kids := by
  intro s
  obtain ⟨hv, hj⟩ := runHistory_VJ sel algs hsel hcov h (t0, NS.init exactMemo t0)
    (MemoValid_init sel algs t0) (J_init sel algs t0) hqh
  have hsh : Shape s.1 (NS.init noCache s.1) :=
    Valid_shape _ sel algs _ _ (Valid_init sel algs noCache noCache_sound s.1)
  exact (eval_quiet sel algs hsel hcov fuel s.1 s.2 _ inp hd hv hj hsh hq).2.2.2 hmode

end exact
end general

/-! ### the hypotheses are satisfiable -/
section satisfiable
variable {α : Type} [Num α]

/-- the real dispatch satisfies `SelOK` -/
theorem selOK_real : SelOK (Dispatch.select dispatchArms) := by
  intro d; cases d <;> decide

theorem selOK_documented : SelOK (fun d h => some (C17.documented d h)) := by
  intro d; cases d <;> decide

/-- a container program that, for each child in turn, queries it in ComputeSize mode, then in PerformLayout mode, then
writes its layout -/
def layoutAll (cs pl : LayoutInput α) (lay : Nat → Layout α) : Nat → Nat → ProgM α (LayoutOutput α)
  | _, 0 => .pure LayoutOutput.hidden
  | i, m + 1 =>
    .call i cs (fun _ => .call i pl (fun _ => .setLayout i (lay i) (fun _ => layoutAll cs pl lay (i + 1) m)))

theorem layoutAll_covers (cs pl : LayoutInput α) (lay : Nat → Layout α) (hpl : pl.runMode = .performLayout) :
    ∀ (m i : Nat) (own strict : Nat → Bool), (∀ j, j < i → own j = true ∧ strict j = true) →
      Covers (i + m) own strict (layoutAll cs pl lay i m) := by
  intro m
  induction m with
  | zero => intro i own strict h; simpa only [layoutAll, Covers, Nat.add_zero] using h
  | succ m ih =>
    intro i own strict h
    simp only [layoutAll, Covers]
    intro _ _
    have e : i + (m + 1) = (i + 1) + m := by omega
    rw [e]
    apply ih
    intro j hj
    by_cases hji : j = i
    · subst hji
      simp [upd, hpl]
      decide
    · have : j < i := by omega
      simp only [upd, hji, if_false]
      exact h j this

/-- algorithms whose container programs are `layoutAll` -/
def exAlgs (cs pl : LayoutInput α) : Algs α where
  leaf := fun _ _ _ => LayoutOutput.hidden
  block := fun _ styles _ => layoutAll cs pl Layout.withOrder 0 styles.length
  flex := fun _ styles _ => layoutAll cs pl Layout.withOrder 0 styles.length
  grid := fun _ styles _ => layoutAll cs pl Layout.withOrder 0 styles.length

theorem exAlgs_PLCovers (cs pl : LayoutInput α) (hpl : pl.runMode = .performLayout) : PLCovers (exAlgs cs pl) := by
  intro style styles inp _
  have := layoutAll_covers cs pl Layout.withOrder hpl styles.length 0 (fun _ => false) (fun _ => false)
    (by intro j hj; omega)
  rw [Nat.zero_add] at this
  exact ⟨this, this, this⟩

end satisfiable

/-! ### the witness: stored layouts are not transparent in general -/
namespace Witness

def inA : LayoutInput Rat :=
  { (LayoutInput.hidden : LayoutInput Rat) with runMode := .performLayout, axis := .vertical }
def inI1 : LayoutInput Rat :=
  { (LayoutInput.hidden : LayoutInput Rat) with runMode := .performLayout, axis := .both }
def inI2 : LayoutInput Rat :=
  { (LayoutInput.hidden : LayoutInput Rat) with runMode := .performLayout, axis := .horizontal }

/-- the layout the block container gives its child, as a function of the container's own input -/
def code (i : LayoutInput Rat) : Nat :=
  match i.runMode, i.axis with
  | .performLayout, _ => 1
  | .computeSize, .both => 2
  | .computeSize, .horizontal => 3
  | _, _ => 0

/-- every container program has the shape "(ComputeSize query)* , PerformLayout query, set the child's layout":
* flex (the root): lays its child out twice (baseline pass `inI1`, final pass `inI2`);
* grid: measures its child with an input derived from its own, then lays it out with a FIXED input `inA`;
* block: lays its child out and positions it depending on its own input — in ComputeSize mode too, as
  `compute_block_layout` does. -/
def algs : Algs Rat where
  leaf := fun _ _ _ => LayoutOutput.hidden
  flex := fun _ _ _ =>
    .call 0 inI1 (fun _ => .call 0 inI2 (fun o => .setLayout 0 (Layout.withOrder 7) (fun _ => .pure o)))
  grid := fun _ _ inp =>
    .call 0 { inp with runMode := .computeSize } (fun _ =>
      .call 0 inA (fun o => .setLayout 0 (Layout.withOrder 8) (fun _ => .pure o)))
  block := fun _ _ inp =>
    .call 0 inA (fun o => .setLayout 0 (Layout.withOrder (code inp)) (fun _ => .pure o))

def st (d : Display) : Style Rat := { (default : Style Rat) with display := d }

/-- flex root ▸ grid ▸ block ▸ leaf -/
def tree : STree Rat :=
  .node (st .flex) none [.node (st .grid) none [.node (st .block) none [.node (st .block) none []]]]

/-- the `order` field of the stored layout of the leaf -/
def leafOrder {C : Type} (ns : NS Rat C) : Option Nat :=
  ((ns.kids[0]?.bind (·.kids[0]?)).bind (·.kids[0]?)).map (·.layout.order)

/-- the block node is queried ComputeSize(both), PerformLayout(inA), ComputeSize(horizontal), PerformLayout(inA): the last
query hits the memo, and the leaf keeps the layout written by the ComputeSize(horizontal) evaluation -/
theorem memo_leaf : leafOrder (evalNode exactMemo algs 4 tree (NS.init exactMemo tree) inA).2 = some 3 := by decide

/-- the cache-free evaluator re-evaluates PerformLayout(inA) and rewrites the leaf's layout -/
theorem cachefree_leaf : leafOrder (evalNode noCache algs 4 tree (NS.init noCache tree) inA).2 = some 1 := by decide

end Witness

/-- **layouts_not_transparent_witness**: one pass over a freshly built four-node chain; the exact-memo evaluator (with the
real dispatch) and the cache-free evaluator return the same output but store different layouts -/
theorem layouts_not_transparent_witness :
    erase (evalNode exactMemo Witness.algs 4 Witness.tree (NS.init exactMemo Witness.tree) Witness.inA).2
      ≠ (evalNode noCache Witness.algs 4 Witness.tree (NS.init noCache Witness.tree) Witness.inA).2 ∧
    (evalNode exactMemo Witness.algs 4 Witness.tree (NS.init exactMemo Witness.tree) Witness.inA).1
      = (evalNode noCache Witness.algs 4 Witness.tree (NS.init noCache Witness.tree) Witness.inA).1 := by
  refine ⟨?_, ?_⟩
  · intro h
    have h1 := Witness.memo_leaf
    have h2 := Witness.cachefree_leaf
    have h3 : Witness.leafOrder (erase (evalNode exactMemo Witness.algs 4 Witness.tree
        (NS.init exactMemo Witness.tree) Witness.inA).2) = some 3 := by decide
    rw [h, h2] at h3
    cases h3
  · exact memo_eq_cachefree_output (Dispatch.select dispatchArms) Witness.algs 4 _ _ _ _ (by decide)
      (MemoValid_init _ _ _)
      (Valid_shape _ (Dispatch.select dispatchArms) Witness.algs _ _
        (Valid_init (Dispatch.select dispatchArms) Witness.algs noCache noCache_sound Witness.tree))

/-- consequently the run of the witness is not settled at its hits (contrapositive of `single_pass_layouts_exact`) -/
theorem witness_not_settled :
    ¬ HitsSettled exactMemo (Dispatch.select dispatchArms) Witness.algs 4 Witness.tree
      (NS.init exactMemo Witness.tree) Witness.inA := by
  intro h
  exact layouts_not_transparent_witness.1
    (single_pass_layouts_exact _ Witness.algs 4 Witness.tree Witness.inA (by decide) h)

/-- the witness run is not quiet: the PerformLayout hit at the block node does not hit the newest memo entry -/
theorem witness_not_quiet :
    ¬ QuietRun (Dispatch.select dispatchArms) Witness.algs 4 Witness.tree (NS.init exactMemo Witness.tree) Witness.inA := by
  intro h
  have := quietRunB_complete _ _ _ _ _ _ h
  revert this
  decide

/-! ### non-vacuity: a concrete quiet run with hits, and a concrete history -/
namespace Example

def cs : LayoutInput Rat := { (LayoutInput.hidden : LayoutInput Rat) with runMode := .computeSize }
def pl : LayoutInput Rat := { (LayoutInput.hidden : LayoutInput Rat) with runMode := .performLayout }
def st (d : Display) : Style Rat := { (default : Style Rat) with display := d }

/-- flex ▸ block ▸ grid ▸ leaf, every container running `layoutAll` (ComputeSize query, PerformLayout query, set layout) -/
def tree : STree Rat :=
  .node (st .flex) none [.node (st .block) none [.node (st .grid) none [.node (st .block) none []],
    .node (st .none) none []]]

abbrev sel := Dispatch.select dispatchArms
abbrev algs : Algs Rat := exAlgs cs pl

/-- the run is quiet (checked by the executable monitor) although it contains memo hits: the grid node is queried four
times (ComputeSize, PerformLayout inside each of the two evaluations of the block node) and evaluated twice -/
theorem quiet : QuietRun sel algs 4 tree (NS.init exactMemo tree) pl :=
  quietRunB_sound _ _ _ _ _ _ (by decide)

example : ((evalNodeWith exactMemo sel algs 4 tree (NS.init exactMemo tree) pl).2.kids[0]?.bind
    (·.kids[0]?)).map (·.cache.length) = some 2 := by decide

/-- hence all stored layouts agree with the cache-free pass -/
example : erase (evalNodeWith exactMemo sel algs 4 tree (NS.init exactMemo tree) pl).2
    = (evalNodeWith noCache sel algs 4 tree (NS.init noCache tree) pl).2 :=
  single_pass_layouts_quiet sel algs selOK_real (exAlgs_PLCovers cs pl rfl) 4 tree pl (by decide) (by decide) quiet

/-- a history: restyle the grid node, relayout; remove the `display:none` child, relayout -/
def hist : List (Step Rat) :=
  [⟨.setStyle [0, 0] (st .flex) none, pl, 0⟩, ⟨.removeChild [0] 1, pl, 1⟩]

example : MemoValid sel algs (runHistory exactMemo sel algs (tree, NS.init exactMemo tree) hist).1
    (runHistory exactMemo sel algs (tree, NS.init exactMemo tree) hist).2 :=
  history_valid sel algs tree hist

example : QuietHistory sel algs (tree, NS.init exactMemo tree) hist := by
  simp only [hist, QuietHistory]
  exact ⟨quietRunB_sound _ _ _ _ _ _ (by decide), quietRunB_sound _ _ _ _ _ _ (by decide), trivial⟩

example : Shape tree (NS.init noCache tree) :=
  Valid_shape _ sel algs _ _ (Valid_init sel algs noCache noCache_sound tree)

end Example

/-
Theorems to audit (full names):
  C01.noCache_output
  C01.noCache_shape
  C01.outFresh_fuel_mono
  C01.outputs_transparent_exact
  C01.MemoValid_init
  C01.MemoValid_hidden
  C01.memo_eq_cachefree_output            -- C17 memo clause (outputs)
  C01.modify_preserves_valid
  C01.replace_preserves_valid
  C01.edit_preserves_valid
  C01.history_valid
  C01.history_independent_outputs_exact
  C01.layouts_lockstep                    -- hypothesis HitsSettled
  C01.single_pass_layouts_exact           -- hypothesis HitsSettled
  C01.layouts_final_quiet                 -- hypotheses SelOK, PLCovers, QuietRun
  C01.single_pass_layouts_quiet           -- hypotheses SelOK, PLCovers, QuietRun
  C01.history_layouts_quiet               -- hypotheses SelOK, PLCovers, QuietHistory, QuietRun
  C01.layouts_not_transparent_witness
  C01.witness_not_settled
  C01.witness_not_quiet
  C01.selOK_real
  C01.selOK_documented
  C01.exAlgs_PLCovers
  C01.Example.quiet
and the lemmas they rest on:
  EvalMemo.evalNodeWith_succ, EvalMemo.outFresh_fuel_indep, EvalMemo.eval_valid, EvalMemo.modify_valid,
  EvalMemo.Edit.apply_valid, EvalMemo.runHistory_valid, EvalMemo.exactMemo_sound, EvalMemo.noCache_sound,
  EvalMemo.eval_lockstep, EvalMemo.evalNodeWith_fuel_indep, EvalMemo.eval_quiet, EvalMemo.runHistory_VJ,
  EvalMemo.quietRunB_iff
-/

end C01
