/-
  C06 for the grid algorithm (`GridModel.gridAlg` = `compute_grid_layout`, Model/Grid.lean), after the repair of the
  finding `c06-abs-grid-implicit-tracks` ("absolutely positioned grid children create implicit tracks").

  What grid does with absolutely positioned children since the repair:
    (a) step 3, the grid size estimate, iterates over the box-generating children that are NOT absolutely positioned
        (`get_child_styles_iter` filters `position != Absolute`): their lines create no implicit tracks;
    (b) step 4 places in-flow children only; the item list never contains an absolutely positioned child;
    (c) the hidden/absolute loop resolves the child's lines against the final track counts — a line outside the implicit
        grid is `None` = `auto` (`try_into_track_vec_index`) — and lays the child out in that area; its contribution
        feeds `content_size` only;
    (d) the `order` of hidden and absolutely positioned children counts both, after all in-flow items.

  `old_witness_invisible`: the witness of the finding — a 100-wide grid with `grid-auto-rows: 30px`, one in-flow 10×10
  child and one absolutely positioned child with `grid-row-start: 5` (container 150 high before the repair) — now
  satisfies invisibility: the container is 30 high (`w_line`), and the two programs are `AbsEquiv` for every input.

  The named hypothesis `EvalBlock.AlgAbsBlind gridAlg` is STILL FALSE AS STATED (`grid_not_AbsBlind`), for one reason
  only: (c) resolves the lines with checked i16 arithmetic.  An absolutely positioned child with
  `grid-row: 32767 / span 2` overflows `OriginZeroLine + u16` (`overflow` in the model; "attempt to add with overflow" in a
  debug build of the real code, replayed) and the container lays out nothing, while with `auto` lines it is 100×30.
  What holds:
    `grid_AbsBlind_upToPanic_partial`   UNCONDITIONALLY, the two programs are equal up to the calls/layouts addressed to
                                absolutely positioned children, up to `content_size`, and up to panics (`GridRel.GRelW`);
    `grid_AbsBlind_noPanic_partial`     hence `AbsEquiv` (= the conclusion of `AlgAbsBlind`) for every pair of runs that
                                cannot panic, whatever the lines; decidable sufficient condition: `grid_AbsBlind_safe`
                                (`EvalGrid.gridSafeB` on both lists);
    `grid_AbsBlind_partial`     `AbsEquiv`, panics included, when the absolutely positioned boxes of the two lists have
                                the same lines (the partial theorem of before the repair; `grid_AbsBlind_auto`);
    `abs_invisible_all_trees_calm_partial`   the tree-level theorem for every pair of trees in which every grid container
                                cannot panic or has only `auto`-line absolutely positioned children (`GridAbs.GridAbsCalm`;
                                implied by `EvalGrid.GridCalm`, decidable `EvalGrid.gridCalmB`:
                                `abs_invisible_all_trees_gridCalmB`, and by `GridAbs.GridAbsAuto`:
                                `abs_invisible_all_trees_partial`).

  Helper lemmas: Lemmas/GridBox*.lean (the relational pass shared with C12; `GridRel.PRelW` = related up to panics),
  Lemmas/GridAbsBlind.lean, Lemmas/GridAbsTrees.lean, Lemmas/GridAbsCalm.lean, Lemmas/GridBoxKernel.lean
  (kernel-evaluable form of the model), Lemmas/EvalGridSafe*.lean (absence of panics).
-/
import TaffyVerif.Lemmas.GridAbsCalm
import TaffyVerif.Lemmas.GridBoxKernel

set_option linter.unusedSectionVars false

namespace EvalGridAbs
open Eval EvalBlock Gen.Facts GridModel GridAbs C06

/-! ### the witnesses -/

/-- run a program against fixed child answers -/
def runAns {α β : Type} (ans : Nat → LayoutInput α → LayoutOutput α) : ProgM α β → β
  | .pure b => b
  | .call i inp k => runAns ans (k (ans i inp))
  | .setLayout _ _ k => runAns ans (k ())

/-- equivalent programs give related results when the children outside `abs` answer alike -/
theorem runAns_absEquiv {α β γ : Type} [Num α] {abs : Nat → Prop} {Q : β → γ → Prop} {p : ProgM α β} {q : ProgM α γ}
    (h : AbsEquiv abs Q p q) (ansA ansB : Nat → LayoutInput α → LayoutOutput α)
    (hans : ∀ i inp, ¬ abs i → OutEqv (ansA i inp) (ansB i inp)) : Q (runAns ansA p) (runAns ansB q) := by
  induction h with
  | pure a b hab => exact hab
  | call i inp k1 k2 hi _ ih => exact ih _ _ (hans i inp hi)
  | setLayout i lA lB k1 k2 _ _ ih => exact ih
  | callL i inp k1 q _ _ ih => exact ih _
  | callR i inp p k2 _ _ ih => exact ih _
  | setL i l k1 q _ _ ih => exact ih
  | setR i l p k2 _ _ ih => exact ih

/-- the witness: a 100-wide grid with `grid-auto-rows: 30px` -/
def wGrid : Style Rat :=
  { (Style.default : Style Rat) with
    display := .grid, size := ⟨.length 100, .auto⟩, grid := { autoRows := [⟨.length 30, .length 30⟩] } }
/-- an in-flow 10×10 child -/
def wInflow : Style Rat := { (Style.default : Style Rat) with display := .block, size := ⟨.length 10, .length 10⟩ }
/-- an absolutely positioned child with `grid-row-start: 5` (the witness of the repaired finding) -/
def wAbsLine : Style Rat :=
  { (Style.default : Style Rat) with display := .block, position := .absolute, grid := { row := ⟨.line 5, .auto⟩ } }
/-- an absolutely positioned child with `grid-row: 32767 / span 2`: its end line does not fit an `i16` -/
def wAbsOverflow : Style Rat :=
  { (Style.default : Style Rat) with
    display := .block, position := .absolute, grid := { row := ⟨.line 32767, .span 2⟩ } }
/-- an absolutely positioned child with `auto` lines -/
def wAbsAuto : Style Rat := { (Style.default : Style Rat) with display := .block, position := .absolute }
def wInp : LayoutInput Rat :=
  { runMode := .performLayout, sizingMode := .inherentSize, axis := .both, knownDimensions := ⟨none, none⟩,
    parentSize := ⟨none, none⟩, availableSpace := ⟨.maxContent, .maxContent⟩,
    verticalMarginsAreCollapsible := ⟨false, false⟩ }
/-- every child answers with its known dimensions, 10×10 where unknown -/
def wAns (_ : Nat) (inp : LayoutInput Rat) : LayoutOutput Rat :=
  LayoutOutput.fromOuterSize ⟨inp.knownDimensions.width.getD 10, inp.knownDimensions.height.getD 10⟩

theorem w_agree : AgreeA [wInflow, wAbsLine] [wInflow, wAbsAuto] :=
  ⟨Or.inr ⟨by decide, rfl⟩, Or.inl ⟨by decide, by decide⟩, trivial⟩

theorem w_agree_overflow : AgreeA [wInflow, wAbsOverflow] [wInflow, wAbsAuto] :=
  ⟨Or.inr ⟨by decide, rfl⟩, Or.inl ⟨by decide, by decide⟩, trivial⟩

/-- with `grid-row-start: 5` on the absolutely positioned child the container is 30 high (150 before the repair) … -/
theorem w_line : (runAns wAns (gridAlg wGrid [wInflow, wAbsLine] wInp)).size = ⟨100, 30⟩ := by
  rw [← GridKernel.gridAlgK_eq]
  decide +kernel

/-- … as with `auto` lines -/
theorem w_auto : (runAns wAns (gridAlg wGrid [wInflow, wAbsAuto] wInp)).size = ⟨100, 30⟩ := by
  rw [← GridKernel.gridAlgK_eq]
  decide +kernel

/-- with `grid-row: 32767 / span 2` the run panics (the model's `overflow`; `gridAlg` answers `LayoutOutput.hidden`) -/
theorem w_overflow : (runAns wAns (gridAlg wGrid [wInflow, wAbsOverflow] wInp)).size = ⟨0, 0⟩ := by
  rw [← GridKernel.gridAlgK_eq]
  decide +kernel

/-- **grid_not_AbsBlind**: `compute_grid_layout` is STILL not blind to its absolutely positioned children as stated:
the checked i16 arithmetic on an absolutely positioned child's grid lines can panic -/
theorem grid_not_AbsBlind : ¬ AlgAbsBlind (gridAlg : ContainerAlg Rat) := by
  intro h
  have he := h wGrid [wInflow, wAbsOverflow] [wInflow, wAbsAuto] wInp w_agree_overflow
  have hq := runAns_absEquiv he wAns wAns (fun _ _ _ => OutEqv.refl _)
  have hs := hq.1
  rw [w_overflow, w_auto] at hs
  exact absurd hs (by decide)

/-! ### what holds -/

section
variable {α : Type} [Num α] [GridTracks.NumCast α] [FlexLine.NumX α] {C : Type}

/-- **grid_AbsBlind_upToPanic_partial** (no hypothesis but `AgreeA`): for child-style lists that agree except at indices
where both styles are absolutely positioned boxes, the two grid programs are equal up to the calls/`setLayout`s addressed
to those children, up to `content_size` (of the answers fed back, of the layouts assigned, of the result), and up to
panics: a run that has panicked is related to every run of the other side (`GridRel.PRelW`) -/
theorem grid_AbsBlind_upToPanic_partial (style : Style α) (xs ys : List (Style α)) (inp : LayoutInput α)
    (h : AgreeA xs ys) :
    GridRel.GRelW (GridRel.World.absE (absIdx xs) True True : GridRel.World α) OutEqv
      (computeGridLayoutE (GridStyle.ofStyle style) (xs.map GridChildStyle.ofStyle) inp)
      (computeGridLayoutE (GridStyle.ofStyle style) (ys.map GridChildStyle.ofStyle) inp) :=
  gridAlg_relW style xs ys inp h

/-- **grid_AbsBlind_noPanic_partial**: the conclusion of `AlgAbsBlind`, for every pair of runs that cannot panic — no
condition on the grid lines of the absolutely positioned children -/
theorem grid_AbsBlind_noPanic_partial (style : Style α) (xs ys : List (Style α)) (inp : LayoutInput α)
    (h : AgreeA xs ys)
    (hx : EvalGrid.NoPanic (computeGridLayoutE (GridStyle.ofStyle style) (xs.map GridChildStyle.ofStyle) inp))
    (hy : EvalGrid.NoPanic (computeGridLayoutE (GridStyle.ofStyle style) (ys.map GridChildStyle.ofStyle) inp)) :
    AbsEquiv (absIdx xs) OutEqv (gridAlg style xs inp) (gridAlg style ys inp) :=
  gridAlg_absEquiv_noErr style xs ys inp h ((noErr_iff_noPanic _).2 hx) ((noErr_iff_noPanic _).2 hy)

/-- **grid_AbsBlind_safe**: … in particular when both lists pass the executable check `EvalGrid.gridSafeB` (no
`auto-fill`/`auto-fit`; the setup, run once, does not overflow, and neither does the resolution of the absolutely
positioned children's lines) -/
theorem grid_AbsBlind_safe (style : Style α) (xs ys : List (Style α)) (inp : LayoutInput α) (h : AgreeA xs ys)
    (hx : EvalGrid.gridSafeB style xs = true) (hy : EvalGrid.gridSafeB style ys = true) :
    AbsEquiv (absIdx xs) OutEqv (gridAlg style xs inp) (gridAlg style ys inp) :=
  grid_AbsBlind_noPanic_partial style xs ys inp h (EvalGrid.gridSafeB_sound style xs hx inp)
    (EvalGrid.gridSafeB_sound style ys hy inp)

/-- **grid_AbsBlind_partial**: for child-style lists that agree except at indices where both styles are absolutely
positioned boxes (`AgreeA`) AND whose absolutely positioned boxes have the same `grid_row` / `grid_column`
(`LinesAgree`), the two grid programs are equal up to the calls/`setLayout`s addressed to those children and up to
`content_size` (of the answers fed back, of the layouts assigned, of the result) — panics included -/
theorem grid_AbsBlind_partial (style : Style α) (xs ys : List (Style α)) (inp : LayoutInput α) (h : AgreeA xs ys)
    (hl : LinesAgree xs ys) :
    AbsEquiv (absIdx xs) OutEqv (gridAlg style xs inp) (gridAlg style ys inp) :=
  gridAlg_absEquiv style xs ys inp h hl

/-- lists whose absolutely positioned boxes all have `auto` lines agree on them -/
theorem linesAgree_of_auto : ∀ (xs ys : List (Style α)), AgreeA xs ys → AbsAutoLines xs → AbsAutoLines ys →
    LinesAgree xs ys
  | [], [], _, _, _ => trivial
  | [], _ :: _, h, _, _ => by simp only [AgreeA] at h
  | _ :: _, [], h, _, _ => by simp only [AgreeA] at h
  | x :: xs, y :: ys, h, hx, hy => by
    simp only [AgreeA] at h
    simp only [LinesAgree]
    refine ⟨fun hv => ?_, linesAgree_of_auto xs ys h.2 (fun s hs => hx s (List.mem_cons_of_mem _ hs))
      (fun s hs => hy s (List.mem_cons_of_mem _ hs))⟩
    obtain ⟨hx1, hx2⟩ := hx x List.mem_cons_self hv
    rcases h.1 with ⟨_, hvy⟩ | ⟨hn, _⟩
    · obtain ⟨hy1, hy2⟩ := hy y List.mem_cons_self hvy
      exact ⟨hy1.trans hx1.symm, hy2.trans hx2.symm⟩
    · exact absurd hv hn

/-- **grid_AbsBlind_auto**: the side condition as a decidable predicate on each child-style list: every absolutely
positioned box has `auto` grid lines in both axes -/
theorem grid_AbsBlind_auto (style : Style α) (xs ys : List (Style α)) (inp : LayoutInput α) (h : AgreeA xs ys)
    (hx : absAutoLinesB xs = true) (hy : absAutoLinesB ys = true) :
    AbsEquiv (absIdx xs) OutEqv (gridAlg style xs inp) (gridAlg style ys inp) :=
  grid_AbsBlind_partial style xs ys inp h
    (linesAgree_of_auto xs ys h ((absAutoLinesB_iff xs).1 hx) ((absAutoLinesB_iff ys).1 hy))

/-- the grid algorithm with the lines of absolutely positioned children reset is unconditionally blind -/
theorem gridN_AbsBlind : AlgAbsBlind (gridAlgN : ContainerAlg α) := gridAlgN_AbsBlind

/-- the grid algorithm wherever it cannot panic (with the lines of absolutely positioned children reset elsewhere) is
unconditionally blind -/
theorem gridC_AbsBlind : AlgAbsBlind (gridAlgC : ContainerAlg α) := gridAlgC_AbsBlind

/-- the evaluator with all four modelled algorithms -/
abbrev allAlgs : Algs α := EvalConcrete.algs FlexModel.computeFlexboxLayout gridAlg

theorem real_dispatch_grid (d : Display) (b : Bool) (h : Dispatch.select dispatchArms d b = some Callee.grid) :
    d = Display.grid := by
  rw [C17.dispatch_eq] at h
  cases d <;> cases b <;> simp [C17.documented] at h ⊢

/-- **abs_invisible_all_trees_calm_partial**: two trees of leaves, block, flexbox and grid containers — nested in any
way — the second obtained from the first by replacing absolutely positioned children (at any depth) by arbitrary other
absolutely positioned children (any style, any grid lines, any subtree), in both of which every grid container (outside
`display:none` subtrees) cannot panic or has only `auto`-line absolutely positioned children (`GridAbsCalm`); states
agreeing outside the absolutely positioned subtrees: outputs equal up to `content_size`, states again agreeing outside the
absolutely positioned subtrees -/
theorem abs_invisible_all_trees_calm_partial (ci : CacheImpl α C) (R : C → C → Prop)
    (hc : C06.CacheRespects ci R) (fuel : Nat) (tA tB : STree α) (nsA nsB : NS α C) (inp : LayoutInput α)
    (hA : GridAbsCalm tA) (hB : GridAbsCalm tB) (hr : C06.AbsRel tA tB) (hs : C06.SimA R tA nsA nsB) :
    C06.OutEqv (evalNode ci allAlgs fuel tA nsA inp).1 (evalNode ci allAlgs fuel tB nsB inp).1 ∧
    C06.SimA R tA (evalNode ci allAlgs fuel tA nsA inp).2 (evalNode ci allAlgs fuel tB nsB inp).2 := by
  unfold allAlgs evalNode
  rw [eval_agree ci _ _ _ fuel tA nsA inp (GridAbsCalm_agree _ docSel_real _ tA hA),
    eval_agree ci _ _ _ fuel tB nsB inp (GridAbsCalm_agree _ docSel_real _ tB hB)]
  exact EvalFlexAbs.abs_invisible_flex_algs ci R hc _ gridAlgC_AbsBlind fuel tA tB nsA nsB inp hr hs

/-- whole passes from freshly built trees: outputs equal up to `content_size`, and every node outside the absolutely
positioned subtrees gets the same order, location, size, scrollbar size, border, padding and margin -/
theorem abs_invisible_pass_all_trees_calm_partial (ci : CacheImpl α C) (R : C → C → Prop)
    (hc : C06.CacheRespects ci R) (fuel : Nat) (tA tB : STree α) (inp : LayoutInput α)
    (hA : GridAbsCalm tA) (hB : GridAbsCalm tB) (hr : C06.AbsRel tA tB) :
    C06.OutEqv (evalNode ci allAlgs fuel tA (NS.init ci tA) inp).1 (evalNode ci allAlgs fuel tB (NS.init ci tB) inp).1 ∧
    ∀ p, C06.OutsideAbs tA p →
      C06.OptRel (fun x y => C06.LayEqv x.layout y.layout)
        (C06.nsAt (evalNode ci allAlgs fuel tA (NS.init ci tA) inp).2 p)
        (C06.nsAt (evalNode ci allAlgs fuel tB (NS.init ci tB) inp).2 p) := by
  obtain ⟨h1, h2⟩ := abs_invisible_all_trees_calm_partial ci R hc fuel tA tB _ _ inp hA hB hr
    (C06.SimA_init ci R hc tA tB hr)
  exact ⟨h1, fun p hv => C06.OptRel.mono (fun _ _ h => h.1) _ _ (C06.SimA_at R p tA _ _ h2 hv)⟩

/-- **abs_invisible_all_trees_gridCalmB**: … in particular for trees all of whose grid containers pass the executable
check (`EvalGrid.gridCalmB`): any grid lines on the absolutely positioned children -/
theorem abs_invisible_all_trees_gridCalmB (ci : CacheImpl α C) (R : C → C → Prop)
    (hc : C06.CacheRespects ci R) (fuel : Nat) (tA tB : STree α) (nsA nsB : NS α C) (inp : LayoutInput α)
    (hA : EvalGrid.gridCalmB tA = true) (hB : EvalGrid.gridCalmB tB = true) (hr : C06.AbsRel tA tB)
    (hs : C06.SimA R tA nsA nsB) :
    C06.OutEqv (evalNode ci allAlgs fuel tA nsA inp).1 (evalNode ci allAlgs fuel tB nsB inp).1 ∧
    C06.SimA R tA (evalNode ci allAlgs fuel tA nsA inp).2 (evalNode ci allAlgs fuel tB nsB inp).2 :=
  abs_invisible_all_trees_calm_partial ci R hc fuel tA tB nsA nsB inp
    (GridCalm_GridAbsCalm tA (EvalGrid.gridCalmB_sound tA hA)) (GridCalm_GridAbsCalm tB (EvalGrid.gridCalmB_sound tB hB))
    hr hs

/-- **abs_invisible_all_trees_partial** (the tree theorem of before the repair, now a corollary): trees in both of which
every absolutely positioned child of a grid container has `auto` grid lines -/
theorem abs_invisible_all_trees_partial (ci : CacheImpl α C) (R : C → C → Prop)
    (hc : C06.CacheRespects ci R) (fuel : Nat) (tA tB : STree α) (nsA nsB : NS α C) (inp : LayoutInput α)
    (hA : GridAbsAuto tA) (hB : GridAbsAuto tB) (hr : C06.AbsRel tA tB) (hs : C06.SimA R tA nsA nsB) :
    C06.OutEqv (evalNode ci allAlgs fuel tA nsA inp).1 (evalNode ci allAlgs fuel tB nsB inp).1 ∧
    C06.SimA R tA (evalNode ci allAlgs fuel tA nsA inp).2 (evalNode ci allAlgs fuel tB nsB inp).2 :=
  abs_invisible_all_trees_calm_partial ci R hc fuel tA tB nsA nsB inp (GridAbsAuto_GridAbsCalm tA hA)
    (GridAbsAuto_GridAbsCalm tB hB) hr hs

/-- whole passes from freshly built trees: outputs equal up to `content_size`, and every node outside the absolutely
positioned subtrees gets the same order, location, size, scrollbar size, border, padding and margin -/
theorem abs_invisible_pass_all_trees_partial (ci : CacheImpl α C) (R : C → C → Prop)
    (hc : C06.CacheRespects ci R) (fuel : Nat) (tA tB : STree α) (inp : LayoutInput α)
    (hA : GridAbsAuto tA) (hB : GridAbsAuto tB) (hr : C06.AbsRel tA tB) :
    C06.OutEqv (evalNode ci allAlgs fuel tA (NS.init ci tA) inp).1 (evalNode ci allAlgs fuel tB (NS.init ci tB) inp).1 ∧
    ∀ p, C06.OutsideAbs tA p →
      C06.OptRel (fun x y => C06.LayEqv x.layout y.layout)
        (C06.nsAt (evalNode ci allAlgs fuel tA (NS.init ci tA) inp).2 p)
        (C06.nsAt (evalNode ci allAlgs fuel tB (NS.init ci tB) inp).2 p) :=
  abs_invisible_pass_all_trees_calm_partial ci R hc fuel tA tB inp (GridAbsAuto_GridAbsCalm tA hA)
    (GridAbsAuto_GridAbsCalm tB hB) hr

end

/-! ### the witness of the repaired finding satisfies invisibility -/

/-- neither list of the old witness can make the container panic (executable check) -/
theorem w_safe : EvalGrid.gridSafeB wGrid [wInflow, wAbsLine] = true ∧
    EvalGrid.gridSafeB wGrid [wInflow, wAbsAuto] = true := by
  decide +kernel

/-- **old_witness_invisible**: on the witness of `c06-abs-grid-implicit-tracks` (`grid-row-start: 5` on the absolutely
positioned child of a `grid-auto-rows: 30px` grid) the two programs are now equivalent, for every input -/
theorem old_witness_invisible (inp : LayoutInput Rat) :
    AbsEquiv (absIdx [wInflow, wAbsLine]) OutEqv (gridAlg wGrid [wInflow, wAbsLine] inp)
      (gridAlg wGrid [wInflow, wAbsAuto] inp) :=
  grid_AbsBlind_safe wGrid _ _ inp w_agree w_safe.1 w_safe.2

/-- the list with the overflowing line fails the executable check -/
example : EvalGrid.gridSafeB wGrid [wInflow, wAbsOverflow] = false := by decide +kernel

/-! ### non-vacuity (at `Rat`) -/

section examples

def gridRoot : Style Rat :=
  { (Style.default : Style Rat) with
    display := .grid, size := ⟨.length 120, .auto⟩, gap := ⟨.length 4, .length 4⟩,
    padding := ⟨.length 2, .length 2, .length 2, .length 2⟩,
    grid := { templateColumns := [.single ⟨.length 40, .length 40⟩, .single ⟨.auto, .auto⟩],
              autoRows := [⟨.auto, .auto⟩] } }
def inflowA : Style Rat := { (Style.default : Style Rat) with display := .block, size := ⟨.auto, .length 10⟩ }
def inflowB : Style Rat := { (Style.default : Style Rat) with display := .block, size := ⟨.length 30, .auto⟩ }
def absA : Style Rat :=
  { (Style.default : Style Rat) with
    display := .block, position := .absolute, size := ⟨.length 500, .length 500⟩,
    inset := ⟨.length 3, .auto, .auto, .length 4⟩ }
def absB : Style Rat := { (Style.default : Style Rat) with display := .flex, position := .absolute, flexGrow := 3 }

/-- two child-style lists that differ in the absolutely positioned child (index 1) only, both with `auto` lines -/
example : AgreeA [inflowA, absA, inflowB] [inflowA, absB, inflowB] ∧
    absAutoLinesB [inflowA, absA, inflowB] = true ∧ absAutoLinesB [inflowA, absB, inflowB] = true := by
  exact ⟨⟨Or.inr ⟨by decide, rfl⟩, Or.inl ⟨by decide, by decide⟩, Or.inr ⟨by decide, rfl⟩, trivial⟩, by decide,
    by decide⟩

example (inp : LayoutInput Rat) :
    AbsEquiv (absIdx [inflowA, absA, inflowB]) OutEqv (gridAlg gridRoot [inflowA, absA, inflowB] inp)
      (gridAlg gridRoot [inflowA, absB, inflowB] inp) :=
  grid_AbsBlind_auto gridRoot _ _ inp
    ⟨Or.inr ⟨by decide, rfl⟩, Or.inl ⟨by decide, by decide⟩, Or.inr ⟨by decide, rfl⟩, trivial⟩
    (by decide) (by decide)

/-- the witness lists do NOT satisfy the side condition -/
example : absAutoLinesB [wInflow, wAbsLine] = false := by decide

/-- trees: a grid root with two in-flow leaves and an absolutely positioned child that has a subtree / is a leaf -/
def treeA : STree Rat :=
  .node gridRoot none [.node inflowA (some (.fixed 20 10)) [],
    .node absA none [.node inflowB (some (.fixed 5 5)) []], .node inflowB (some (.wrap 40 8)) []]
def treeB : STree Rat :=
  .node gridRoot none [.node inflowA (some (.fixed 20 10)) [], .node absB none [],
    .node inflowB (some (.wrap 40 8)) []]

theorem treeAB_rel : C06.AbsRel treeA treeB := by
  simp only [treeA, treeB, C06.AbsRel, C06.AbsRelList, true_and, STree.style]
  exact ⟨Or.inr ⟨by decide, trivial⟩, Or.inl ⟨by decide, by decide⟩, Or.inr ⟨by decide, trivial⟩, trivial⟩

theorem treeA_auto : GridAbsAuto treeA := by
  simp only [treeA, GridAbsAuto, GridAbsAutoList, and_true, List.map_cons, List.map_nil, STree.style]
  decide

theorem treeB_auto : GridAbsAuto treeB := by
  simp only [treeB, GridAbsAuto, GridAbsAutoList, and_true, List.map_cons, List.map_nil, STree.style]
  decide

example (fuel : Nat) (inp : LayoutInput Rat) :
    C06.OutEqv (evalNode noCache allAlgs fuel treeA (NS.init noCache treeA) inp).1
      (evalNode noCache allAlgs fuel treeB (NS.init noCache treeB) inp).1 :=
  (abs_invisible_pass_all_trees_partial noCache (fun _ _ => True) C06.noCache_respects fuel treeA treeB inp
    treeA_auto treeB_auto treeAB_rel).1

/-- an absolutely positioned child with lines far outside the grid in both axes, and a subtree -/
def absC : Style Rat :=
  { (Style.default : Style Rat) with
    display := .block, position := .absolute, size := ⟨.length 50, .auto⟩,
    grid := { row := ⟨.line 5, .span 3⟩, column := ⟨.line (-7), .line 9⟩ } }

/-- child-style lists that differ in the absolutely positioned child only — one with lines far outside the grid, one with
`auto` lines —, both passing the executable check: non-vacuity of `grid_AbsBlind_safe` / `grid_AbsBlind_noPanic_partial` -/
example (inp : LayoutInput Rat) :
    AbsEquiv (absIdx [inflowA, absC, inflowB]) OutEqv (gridAlg gridRoot [inflowA, absC, inflowB] inp)
      (gridAlg gridRoot [inflowA, absB, inflowB] inp) :=
  grid_AbsBlind_safe gridRoot _ _ inp
    ⟨Or.inr ⟨by decide, rfl⟩, Or.inl ⟨by decide, by decide⟩, Or.inr ⟨by decide, rfl⟩, trivial⟩
    (by decide +kernel) (by decide +kernel)

/-- … and these lists do NOT satisfy the side condition of the theorem of before the repair -/
example : absAutoLinesB [inflowA, absC, inflowB] = false := by decide

/-- a grid root with two in-flow leaves and the absolutely positioned child with explicit lines and a subtree -/
def treeC : STree Rat :=
  .node gridRoot none [.node inflowA (some (.fixed 20 10)) [],
    .node absC none [.node inflowB (some (.fixed 5 5)) []], .node inflowB (some (.wrap 40 8)) []]

theorem treeCB_rel : C06.AbsRel treeC treeB := by
  simp only [treeC, treeB, C06.AbsRel, C06.AbsRelList, true_and, STree.style]
  exact ⟨Or.inr ⟨by decide, trivial⟩, Or.inl ⟨by decide, by decide⟩, Or.inr ⟨by decide, trivial⟩, trivial⟩

theorem treeC_calm : EvalGrid.gridCalmB treeC = true := by decide +kernel

theorem treeB_calm : EvalGrid.gridCalmB treeB = true := by decide +kernel

/-- the tree theorem applied to a pair of trees with explicit grid lines on the absolutely positioned child -/
example (fuel : Nat) (inp : LayoutInput Rat) :
    C06.OutEqv (evalNode noCache allAlgs fuel treeC (NS.init noCache treeC) inp).1
      (evalNode noCache allAlgs fuel treeB (NS.init noCache treeB) inp).1 :=
  (abs_invisible_all_trees_gridCalmB noCache (fun _ _ => True) C06.noCache_respects fuel treeC treeB _ _ inp
    treeC_calm treeB_calm treeCB_rel (C06.SimA_init noCache _ C06.noCache_respects treeC treeB treeCB_rel)).1

end examples

end EvalGridAbs

/-
  Obligations to audit (`#print axioms`; all depend on [propext, Classical.choice, Quot.sound] at most):
  EVALGRID_C06 = [
    "EvalGridAbs.runAns_absEquiv", "EvalGridAbs.w_agree", "EvalGridAbs.w_agree_overflow", "EvalGridAbs.w_line",
    "EvalGridAbs.w_auto", "EvalGridAbs.w_overflow", "EvalGridAbs.grid_not_AbsBlind",
    "EvalGridAbs.grid_AbsBlind_upToPanic_partial", "EvalGridAbs.grid_AbsBlind_noPanic_partial",
    "EvalGridAbs.grid_AbsBlind_safe", "EvalGridAbs.grid_AbsBlind_partial", "EvalGridAbs.linesAgree_of_auto",
    "EvalGridAbs.grid_AbsBlind_auto", "EvalGridAbs.gridN_AbsBlind", "EvalGridAbs.gridC_AbsBlind",
    "EvalGridAbs.abs_invisible_all_trees_calm_partial", "EvalGridAbs.abs_invisible_pass_all_trees_calm_partial",
    "EvalGridAbs.abs_invisible_all_trees_gridCalmB", "EvalGridAbs.abs_invisible_all_trees_partial",
    "EvalGridAbs.abs_invisible_pass_all_trees_partial", "EvalGridAbs.w_safe", "EvalGridAbs.old_witness_invisible",
    "EvalGridAbs.treeAB_rel", "EvalGridAbs.treeA_auto", "EvalGridAbs.treeB_auto", "EvalGridAbs.treeCB_rel",
    "EvalGridAbs.treeC_calm", "EvalGridAbs.treeB_calm",
    "GridAbs.gridAlg_relW", "GridAbs.gridAlg_absEquiv_noErr", "GridAbs.gridAlg_absEquiv",
    "GridAbs.gridAlg_absEquiv_autoR", "GridAbs.gridAlg_absEquiv_autoL", "GridAbs.absStep_weak",
    "GridAbs.gridAlgN_AbsBlind", "GridAbs.gridAlgC_AbsBlind", "GridAbs.eval_gridAlgN", "GridAbs.GridAbsCalm_agree",
    "GridAbs.GridCalm_GridAbsCalm", "GridAbs.GridAbsAuto_GridAbsCalm", "GridAbs.absAutoLinesB_iff",
    "GridAbs.noErr_iff_noPanic", "GridRel.computeGridLayoutE_relW", "GridRel.PRelW.bindCont", "GridRel.PRelW.to_PRel",
  ]
-/
