/-
  C06 for the grid algorithm (`GridModel.gridAlg` = `compute_grid_layout`, Model/Grid.lean): the named hypothesis
  `EvalBlock.AlgAbsBlind` of the evaluator-level theorems is FALSE for grid, and the strongest true partial.

  What grid does with absolutely positioned children:
    (a) step 3, the grid size estimate, iterates over ALL box-generating children, absolutely positioned ones included:
        the grid lines of an absolutely positioned child enter the implicit track counts, hence the number of tracks,
        hence the container's size and the position of every in-flow item;
    (b) step 4 places in-flow children only; the item list never contains an absolutely positioned child;
    (c) the hidden/absolute loop resolves the child's lines against the final track counts (`into_track_vec_index`
        may panic), lays the child out in that area; its contribution feeds `content_size` only;
    (d) the `order` of hidden and absolutely positioned children counts both, after all in-flow items.

  `grid_not_AbsBlind`: a 100-wide grid with `grid-auto-rows: 30px`, one in-flow 10×10 child and one absolutely
  positioned child — with `grid-row-start: 5` the container is 150 high, with `auto` lines it is 30 high
  (replayed on the real code: /tmp/w_gridq/replay, same numbers).

  `grid_AbsBlind_partial`: if the absolutely positioned children of the two lists have the same `grid_row` and
  `grid_column` (`GridAbs.LinesAgree`; in particular if all have `auto` lines: `grid_AbsBlind_auto`), the two programs
  are equal up to the calls/layouts addressed to those children and the outputs are equal up to `content_size`.
  No "an in-flow child exists" condition is needed in this form: the statement compares two lists with absolutely
  positioned children at the SAME indices, and an `auto`-line absolutely positioned child contributes span 1 to the
  estimate whatever its style.  (Removing an absolutely positioned child is a different comparison: an absolutely
  positioned child with `auto` lines that is the only box-generating child does reserve an implicit track.)

  `abs_invisible_all_trees_partial`: trees of leaves, block, flexbox and grid containers in which every absolutely
  positioned child of a grid container has `auto` grid lines (`GridAbs.GridAbsAuto`, on both trees).

  Helper lemmas: Lemmas/GridBox*.lean (the relational pass shared with C12), Lemmas/GridAbsBlind.lean,
  Lemmas/GridAbsTrees.lean, Lemmas/GridBoxKernel.lean (kernel-evaluable form of the model).
-/
import TaffyVerif.Lemmas.GridAbsTrees
import TaffyVerif.Lemmas.GridBoxKernel

set_option linter.unusedSectionVars false

namespace EvalGridAbs
open Eval EvalBlock Gen.Facts GridModel GridAbs C06

/-! ### the refutation -/

/-- run a program against fixed child answers -/
def runAns {α β : Type} (ans : Nat → LayoutInput α → LayoutOutput α) : ProgM α β → β
  | .pure b => b
  | .call i inp k => runAns ans (k (ans i inp))
  | .setLayout _ _ k => runAns ans (k ())

/-- equivalent programs give related results when the children outside `abs` answer alike -/
theorem runAns_absEquiv {α β γ : Type} [Num α] {abs : Nat → Prop} {Q : β → γ → Prop} {p : ProgM α β} {q : ProgM α γ}
    (h : AbsEquiv abs Q p q) (ansA ansB : Nat → LayoutInput α → LayoutOutput α)
    (hans : ∀ i inp, ¬ abs i → OutEqv (ansA i inp) (ansB i inp)) : Q (runAns ansA p) (runAns ansB q) := by
  induction h with
  | pure a b hab => exact hab
  | call i inp k1 k2 hi _ ih => exact ih _ _ (hans i inp hi)
  | setLayout i lA lB k1 k2 _ _ ih => exact ih
  | callL i inp k1 q _ _ ih => exact ih _
  | callR i inp p k2 _ _ ih => exact ih _
  | setL i l k1 q _ _ ih => exact ih
  | setR i l p k2 _ _ ih => exact ih

/-- the witness: a 100-wide grid with `grid-auto-rows: 30px` -/
def wGrid : Style Rat :=
  { (Style.default : Style Rat) with
    display := .grid, size := ⟨.length 100, .auto⟩, grid := { autoRows := [⟨.length 30, .length 30⟩] } }
/-- an in-flow 10×10 child -/
def wInflow : Style Rat := { (Style.default : Style Rat) with display := .block, size := ⟨.length 10, .length 10⟩ }
/-- an absolutely positioned child with `grid-row-start: 5` -/
def wAbsLine : Style Rat :=
  { (Style.default : Style Rat) with display := .block, position := .absolute, grid := { row := ⟨.line 5, .auto⟩ } }
/-- an absolutely positioned child with `auto` lines -/
def wAbsAuto : Style Rat := { (Style.default : Style Rat) with display := .block, position := .absolute }
def wInp : LayoutInput Rat :=
  { runMode := .performLayout, sizingMode := .inherentSize, axis := .both, knownDimensions := ⟨none, none⟩,
    parentSize := ⟨none, none⟩, availableSpace := ⟨.maxContent, .maxContent⟩,
    verticalMarginsAreCollapsible := ⟨false, false⟩ }
/-- every child answers with its known dimensions, 10×10 where unknown -/
def wAns (_ : Nat) (inp : LayoutInput Rat) : LayoutOutput Rat :=
  LayoutOutput.fromOuterSize ⟨inp.knownDimensions.width.getD 10, inp.knownDimensions.height.getD 10⟩

theorem w_agree : AgreeA [wInflow, wAbsLine] [wInflow, wAbsAuto] :=
  ⟨Or.inr ⟨by decide, rfl⟩, Or.inl ⟨by decide, by decide⟩, trivial⟩

/-- with `grid-row-start: 5` on the absolutely positioned child the container is 150 high … -/
theorem w_line : (runAns wAns (gridAlg wGrid [wInflow, wAbsLine] wInp)).size = ⟨100, 150⟩ := by
  rw [← GridKernel.gridAlgK_eq]
  decide +kernel

/-- … with `auto` lines it is 30 high -/
theorem w_auto : (runAns wAns (gridAlg wGrid [wInflow, wAbsAuto] wInp)).size = ⟨100, 30⟩ := by
  rw [← GridKernel.gridAlgK_eq]
  decide +kernel

/-- **grid_not_AbsBlind**: `compute_grid_layout` is NOT blind to its absolutely positioned children -/
theorem grid_not_AbsBlind : ¬ AlgAbsBlind (gridAlg : ContainerAlg Rat) := by
  intro h
  have he := h wGrid [wInflow, wAbsLine] [wInflow, wAbsAuto] wInp w_agree
  have hq := runAns_absEquiv he wAns wAns (fun _ _ _ => OutEqv.refl _)
  have hs := hq.1
  rw [w_line, w_auto] at hs
  exact absurd hs (by decide)

/-! ### the partial theorem -/

section
variable {α : Type} [Num α] [GridTracks.NumCast α] [FlexLine.NumX α] {C : Type}

/-- **grid_AbsBlind_partial**: for child-style lists that agree except at indices where both styles are absolutely
positioned boxes (`AgreeA`) AND whose absolutely positioned boxes have the same `grid_row` / `grid_column`
(`LinesAgree`), the two grid programs are equal up to the calls/`setLayout`s addressed to those children and up to
`content_size` (of the answers fed back, of the layouts assigned, of the result) -/
theorem grid_AbsBlind_partial (style : Style α) (xs ys : List (Style α)) (inp : LayoutInput α) (h : AgreeA xs ys)
    (hl : LinesAgree xs ys) :
    AbsEquiv (absIdx xs) OutEqv (gridAlg style xs inp) (gridAlg style ys inp) :=
  gridAlg_absEquiv style xs ys inp h hl

/-- lists whose absolutely positioned boxes all have `auto` lines agree on them -/
theorem linesAgree_of_auto : ∀ (xs ys : List (Style α)), AgreeA xs ys → AbsAutoLines xs → AbsAutoLines ys →
    LinesAgree xs ys
  | [], [], _, _, _ => trivial
  | [], _ :: _, h, _, _ => by simp only [AgreeA] at h
  | _ :: _, [], h, _, _ => by simp only [AgreeA] at h
  | x :: xs, y :: ys, h, hx, hy => by
    simp only [AgreeA] at h
    simp only [LinesAgree]
    refine ⟨fun hv => ?_, linesAgree_of_auto xs ys h.2 (fun s hs => hx s (List.mem_cons_of_mem _ hs))
      (fun s hs => hy s (List.mem_cons_of_mem _ hs))⟩
    obtain ⟨hx1, hx2⟩ := hx x List.mem_cons_self hv
    rcases h.1 with ⟨_, hvy⟩ | ⟨hn, _⟩
    · obtain ⟨hy1, hy2⟩ := hy y List.mem_cons_self hvy
      exact ⟨hy1.trans hx1.symm, hy2.trans hx2.symm⟩
    · exact absurd hv hn

/-- **grid_AbsBlind_auto**: the side condition as a decidable predicate on each child-style list: every absolutely
positioned box has `auto` grid lines in both axes -/
theorem grid_AbsBlind_auto (style : Style α) (xs ys : List (Style α)) (inp : LayoutInput α) (h : AgreeA xs ys)
    (hx : absAutoLinesB xs = true) (hy : absAutoLinesB ys = true) :
    AbsEquiv (absIdx xs) OutEqv (gridAlg style xs inp) (gridAlg style ys inp) :=
  grid_AbsBlind_partial style xs ys inp h
    (linesAgree_of_auto xs ys h ((absAutoLinesB_iff xs).1 hx) ((absAutoLinesB_iff ys).1 hy))

/-- the grid algorithm with the lines of absolutely positioned children reset is unconditionally blind -/
theorem gridN_AbsBlind : AlgAbsBlind (gridAlgN : ContainerAlg α) := gridAlgN_AbsBlind

/-- the evaluator with all four modelled algorithms -/
abbrev allAlgs : Algs α := EvalConcrete.algs FlexModel.computeFlexboxLayout gridAlg

theorem real_dispatch_grid (d : Display) (b : Bool) (h : Dispatch.select dispatchArms d b = some Callee.grid) :
    d = Display.grid := by
  rw [C17.dispatch_eq] at h
  cases d <;> cases b <;> simp [C17.documented] at h ⊢

/-- **abs_invisible_all_trees_partial**: two trees of leaves, block, flexbox and grid containers — nested in any way —
the second obtained from the first by replacing absolutely positioned children (at any depth) by arbitrary other
absolutely positioned children, in both of which every absolutely positioned child of a grid container has `auto`
grid lines; states agreeing outside the absolutely positioned subtrees: outputs equal up to `content_size`, states
again agreeing outside the absolutely positioned subtrees -/
theorem abs_invisible_all_trees_partial (ci : CacheImpl α C) (R : C → C → Prop)
    (hc : C06.CacheRespects ci R) (fuel : Nat) (tA tB : STree α) (nsA nsB : NS α C) (inp : LayoutInput α)
    (hA : GridAbsAuto tA) (hB : GridAbsAuto tB) (hr : C06.AbsRel tA tB) (hs : C06.SimA R tA nsA nsB) :
    C06.OutEqv (evalNode ci allAlgs fuel tA nsA inp).1 (evalNode ci allAlgs fuel tB nsB inp).1 ∧
    C06.SimA R tA (evalNode ci allAlgs fuel tA nsA inp).2 (evalNode ci allAlgs fuel tB nsB inp).2 := by
  unfold allAlgs evalNode
  rw [eval_gridAlgN ci _ real_dispatch_grid _ fuel tA nsA inp hA,
    eval_gridAlgN ci _ real_dispatch_grid _ fuel tB nsB inp hB]
  exact EvalFlexAbs.abs_invisible_flex_algs ci R hc _ gridAlgN_AbsBlind fuel tA tB nsA nsB inp hr hs

/-- whole passes from freshly built trees: outputs equal up to `content_size`, and every node outside the absolutely
positioned subtrees gets the same order, location, size, scrollbar size, border, padding and margin -/
theorem abs_invisible_pass_all_trees_partial (ci : CacheImpl α C) (R : C → C → Prop)
    (hc : C06.CacheRespects ci R) (fuel : Nat) (tA tB : STree α) (inp : LayoutInput α)
    (hA : GridAbsAuto tA) (hB : GridAbsAuto tB) (hr : C06.AbsRel tA tB) :
    C06.OutEqv (evalNode ci allAlgs fuel tA (NS.init ci tA) inp).1 (evalNode ci allAlgs fuel tB (NS.init ci tB) inp).1 ∧
    ∀ p, C06.OutsideAbs tA p →
      C06.OptRel (fun x y => C06.LayEqv x.layout y.layout)
        (C06.nsAt (evalNode ci allAlgs fuel tA (NS.init ci tA) inp).2 p)
        (C06.nsAt (evalNode ci allAlgs fuel tB (NS.init ci tB) inp).2 p) := by
  obtain ⟨h1, h2⟩ := abs_invisible_all_trees_partial ci R hc fuel tA tB _ _ inp hA hB hr
    (C06.SimA_init ci R hc tA tB hr)
  exact ⟨h1, fun p hv => C06.OptRel.mono (fun _ _ h => h.1) _ _ (C06.SimA_at R p tA _ _ h2 hv)⟩

end

/-! ### non-vacuity (at `Rat`) -/

section examples

def gridRoot : Style Rat :=
  { (Style.default : Style Rat) with
    display := .grid, size := ⟨.length 120, .auto⟩, gap := ⟨.length 4, .length 4⟩,
    padding := ⟨.length 2, .length 2, .length 2, .length 2⟩,
    grid := { templateColumns := [.single ⟨.length 40, .length 40⟩, .single ⟨.auto, .auto⟩],
              autoRows := [⟨.auto, .auto⟩] } }
def inflowA : Style Rat := { (Style.default : Style Rat) with display := .block, size := ⟨.auto, .length 10⟩ }
def inflowB : Style Rat := { (Style.default : Style Rat) with display := .block, size := ⟨.length 30, .auto⟩ }
def absA : Style Rat :=
  { (Style.default : Style Rat) with
    display := .block, position := .absolute, size := ⟨.length 500, .length 500⟩,
    inset := ⟨.length 3, .auto, .auto, .length 4⟩ }
def absB : Style Rat := { (Style.default : Style Rat) with display := .flex, position := .absolute, flexGrow := 3 }

/-- two child-style lists that differ in the absolutely positioned child (index 1) only, both with `auto` lines -/
example : AgreeA [inflowA, absA, inflowB] [inflowA, absB, inflowB] ∧
    absAutoLinesB [inflowA, absA, inflowB] = true ∧ absAutoLinesB [inflowA, absB, inflowB] = true := by
  exact ⟨⟨Or.inr ⟨by decide, rfl⟩, Or.inl ⟨by decide, by decide⟩, Or.inr ⟨by decide, rfl⟩, trivial⟩, by decide,
    by decide⟩

example (inp : LayoutInput Rat) :
    AbsEquiv (absIdx [inflowA, absA, inflowB]) OutEqv (gridAlg gridRoot [inflowA, absA, inflowB] inp)
      (gridAlg gridRoot [inflowA, absB, inflowB] inp) :=
  grid_AbsBlind_auto gridRoot _ _ inp
    ⟨Or.inr ⟨by decide, rfl⟩, Or.inl ⟨by decide, by decide⟩, Or.inr ⟨by decide, rfl⟩, trivial⟩
    (by decide) (by decide)

/-- the witness lists do NOT satisfy the side condition -/
example : absAutoLinesB [wInflow, wAbsLine] = false := by decide

/-- trees: a grid root with two in-flow leaves and an absolutely positioned child that has a subtree / is a leaf -/
def treeA : STree Rat :=
  .node gridRoot none [.node inflowA (some (.fixed 20 10)) [],
    .node absA none [.node inflowB (some (.fixed 5 5)) []], .node inflowB (some (.wrap 40 8)) []]
def treeB : STree Rat :=
  .node gridRoot none [.node inflowA (some (.fixed 20 10)) [], .node absB none [],
    .node inflowB (some (.wrap 40 8)) []]

theorem treeAB_rel : C06.AbsRel treeA treeB := by
  simp only [treeA, treeB, C06.AbsRel, C06.AbsRelList, true_and, STree.style]
  exact ⟨Or.inr ⟨by decide, trivial⟩, Or.inl ⟨by decide, by decide⟩, Or.inr ⟨by decide, trivial⟩, trivial⟩

theorem treeA_auto : GridAbsAuto treeA := by
  simp only [treeA, GridAbsAuto, GridAbsAutoList, and_true, List.map_cons, List.map_nil, STree.style]
  decide

theorem treeB_auto : GridAbsAuto treeB := by
  simp only [treeB, GridAbsAuto, GridAbsAutoList, and_true, List.map_cons, List.map_nil, STree.style]
  decide

example (fuel : Nat) (inp : LayoutInput Rat) :
    C06.OutEqv (evalNode noCache allAlgs fuel treeA (NS.init noCache treeA) inp).1
      (evalNode noCache allAlgs fuel treeB (NS.init noCache treeB) inp).1 :=
  (abs_invisible_pass_all_trees_partial noCache (fun _ _ => True) C06.noCache_respects fuel treeA treeB inp
    treeA_auto treeB_auto treeAB_rel).1

end examples

end EvalGridAbs

/-
  Obligations to audit (`#print axioms`; all depend on [propext, Classical.choice, Quot.sound] at most):
  EVALGRID_C06 = [
    "EvalGridAbs.runAns_absEquiv", "EvalGridAbs.w_agree", "EvalGridAbs.w_line", "EvalGridAbs.w_auto",
    "EvalGridAbs.grid_not_AbsBlind", "EvalGridAbs.grid_AbsBlind_partial", "EvalGridAbs.linesAgree_of_auto",
    "EvalGridAbs.grid_AbsBlind_auto", "EvalGridAbs.gridN_AbsBlind", "EvalGridAbs.abs_invisible_all_trees_partial",
    "EvalGridAbs.abs_invisible_pass_all_trees_partial", "EvalGridAbs.treeAB_rel", "EvalGridAbs.treeA_auto",
    "EvalGridAbs.treeB_auto",
    "GridAbs.gridAlg_absEquiv", "GridAbs.gridAlgN_AbsBlind", "GridAbs.eval_gridAlgN", "GridAbs.absAutoLinesB_iff",
  ]
-/
