/-
  Tie (tier T) for the grid and flex copies of the absolute-positioning code (C11; also obligations of C06, C12, C04).

  `Gen.GridAlign.*`, `Gen.GridAlignTracks.*`, `Gen.FlexAbs.*` are regenerated from the Rust source on every run (extract/src/absmod.rs):

  * src/compute/grid/alignment.rs
      `align_item_within_area`   — pure, all of it                         `align_item_within_area_eq : … = AbsPos.alignItemWithinArea …`
      `align_tracks`             — slices.rs (`Slice.stepBy`, `Slice.mapIdxAccum`)   `align_tracks_eq : … = GridTracks.alignTracks …`
      `align_and_position_item`  — interaction form over `Gen.Tree.Prog`, as a function of the child's style (the answer of
                                   `tree.get_grid_child_style(node)`): `align_and_position_item_eq` (the program is: one
                                   `compute_child_layout(node, AbsPos.gridChildInput …)`, one `set_unrounded_layout`, the triple),
                                   `align_and_position_item_absGrid` (the layout set IS `AbsPos.absGrid`), `align_and_position_item_GM`
                                   (through `toGM` it IS `GridModel.alignAndPositionItem`, the function the grid program calls).
  * src/compute/flexbox.rs `perform_absolute_layout_on_absolute_children`
      `abs_skip` (the `continue` test)  `abs_skip_eq`;  `abs_item` (lets before the loop + loop body for one child)  `abs_item_eq`,
      `abs_item_absFlex` (the layout set IS `AbsPos.absFlex`), `abs_item_ProgM` (through `toProgM` it IS `FlexModel.absItem`);
      the whole function (`Gen.FlexAbs.Prog`: `child_count`, `get_child_id`, `get_flexbox_child_style` + the body's interactions)
      `perform_absolute_layout_on_absolute_children_eq : runFlex styles (…) = FlexModel.absLoop k styles 0 Size.zero` (as `some`).
      Hypotheses of the flex ties: `k.isRow = k.dir.isRow` (true of `compute_constants`' result) and child index < 2^32
      (`order as u32`; `abs_item_order_truncated` shows the truncation the model does not have).

  Proof style (as Props/TieLeaf.lean): unfold every `let` of the generated definition, rewrite the generated helpers with the existing Tie
  equalities, `rfl` against the model written as a program. Where the source's control flow has another SHAPE than the model's
  (`or_else(|| { if … { return … } … None })` against a three-way `match`; `if let (None, Some, Some) = (…)` against a `match` on three
  scrutinees; `match is_row { true => …, false => … }` against `if`), the stage is restated in the source's shape (`widthFill`, `heightFill`,
  `FlexSrc.fillWidth` …) and proved equal to the model's stage by case analysis. Renaming locals or reordering independent `let`s in the
  Rust leaves every proof intact; a changed comparison, operand or axis breaks the `rfl`.
-/
import TaffyVerif.Generated.GridAlign
import TaffyVerif.Generated.GridAlignTracks
import TaffyVerif.Model.Alignment
import TaffyVerif.Props.TieAlignment
import TaffyVerif.Model.AbsPos
import TaffyVerif.Props.TieLayout
import TaffyVerif.Props.TieMaybeMath
import TaffyVerif.Props.TieResolve
import TaffyVerif.Props.TieStyle
import TaffyVerif.Props.TieContent
import TaffyVerif.Props.TieLeaf
import TaffyVerif.Model.Grid
import TaffyVerif.Generated.FlexAbs
import TaffyVerif.Model.Flex
import TaffyVerif.Props.TieAxes

namespace TieAbsPos
variable {α : Type} [Num α]

theorem line_sum_eq (l : Line α) : Gen.GridAlign.Line.sum l = l.start + l.«end» := rfl

theorem autoCount_eq (a b : Option α) :
    Bool.toNat (Option.isNone a) + Bool.toNat (Option.isNone b) = AbsPos.autoCount a b := by
  cases a <;> cases b <;> rfl

/-- `align_item_within_area` -/
theorem align_item_within_area_eq (gridArea : Line α) (alignmentStyle : AlignItems) (resolvedSize : α) (position : Position)
    (inset margin : Line (Option α)) (baselineShim : α) :
    Gen.GridAlign.align_item_within_area gridArea alignmentStyle resolvedSize position inset margin baselineShim
      = AbsPos.alignItemWithinArea gridArea alignmentStyle resolvedSize position inset margin baselineShim := by
  simp only [Gen.GridAlign.align_item_within_area, AbsPos.alignItemWithinArea, line_sum_eq, autoCount_eq, TieLayout.f32_max_eq,
    AbsPos.countF, decide_eq_true_eq]
  cases alignmentStyle <;> cases position <;> rfl

/-! ### `align_tracks` -/

open GridTracks in
/-- the tracks at the odd positions, counted: `iter().skip(1).step_by(2).filter(p).count()` is the model's indexed filter -/
theorem stepBy_count_aux {β : Type} (p : β → Bool) (l : List β) : ∀ j : Nat,
    (j % 2 = 1 → (List.filter p (Slice.stepByAux 2 0 l)).length
        = ((l.zipIdx j).filter fun (ti : β × Nat) => ti.2 % 2 == 1 && p ti.1).length) ∧
    (j % 2 = 0 → (List.filter p (Slice.stepByAux 2 1 l)).length
        = ((l.zipIdx j).filter fun (ti : β × Nat) => ti.2 % 2 == 1 && p ti.1).length) := by
  induction l with
  | nil => intro j; simp [Slice.stepByAux]
  | cons x rest ih =>
    intro j
    constructor
    · intro hj
      have h2 := (ih (j + 1)).2 (by omega)
      simp only [Slice.stepByAux, List.zipIdx_cons, List.filter_cons, hj, BEq.rfl, Bool.true_and]
      cases p x <;> simp [h2]
    · intro hj
      have h1 := (ih (j + 1)).1 (by omega)
      simp only [Slice.stepByAux, List.zipIdx_cons, List.filter_cons, hj]
      simpa using h1

theorem skip1_stepBy2_count {β : Type} (p : β → Bool) (l : List β) :
    (List.filter p (Slice.stepBy 2 (List.drop 1 l))).length
      = ((l.zipIdx.filter fun (ti : β × Nat) => ti.2 % 2 == 1 && p ti.1)).length := by
  cases l with
  | nil => rfl
  | cons x rest =>
    have h := (stepBy_count_aux p rest 1).1 rfl
    simpa [Slice.stepBy, List.zipIdx_cons] using h

/-- the `for_each` over the enumerated tracks: any step function that does what the source's closure does gives the model's loop -/
theorem mapIdxAccum_alignLoop (fs : α) (n : Nat) (mode : AlignContent)
    (F : Nat → α → GridTracks.GridTrack α → GridTracks.GridTrack α × α)
    (hF : ∀ i s t, F i s t =
      ({ t with offset := s + (if i % 2 == 0 then 0 else GridTracks.computeAlignmentOffset fs n 0 mode false (i == 1)) },
        s + (if i % 2 == 0 then 0 else GridTracks.computeAlignmentOffset fs n 0 mode false (i == 1)) + t.baseSize)) :
    ∀ (l : List (GridTracks.GridTrack α)) (i : Nat) (s : α),
      (Slice.mapIdxAccumFrom F i l s).1 = GridTracks.alignLoop fs n mode l i s := by
  intro l
  induction l with
  | nil => intro i s; rfl
  | cons t rest ih =>
    intro i s
    simp only [Slice.mapIdxAccumFrom, GridTracks.alignLoop, hF, ih]

/-- `align_tracks` (the model takes `padding.start`, `border.start`) -/
theorem align_tracks_eq (contentBoxSize : α) (padding border : Line α) (tracks : List (GridTracks.GridTrack α))
    (style : AlignContent) :
    Gen.GridAlignTracks.align_tracks contentBoxSize padding border tracks style
      = GridTracks.alignTracks contentBoxSize padding.start border.start tracks style := by
  simp only [Gen.GridAlignTracks.align_tracks, GridTracks.alignTracks, TieAlignment.apply_alignment_fallback_eq,
    TieAlignment.compute_alignment_offset_eq, Slice.mapIdxAccum]
  rw [skip1_stepBy2_count]
  exact mapIdxAccum_alignLoop _ _ _ _ (fun _ _ _ => rfl) _ _ _

/-! ### `align_and_position_item` -/

theorem resolve_to_option_eq : Gen.GridAlign.LengthPercentageAuto.resolve_to_option (α := α) = LPA.resolveToOption := by
  funext x c; cases x <;> rfl

/-- `Size<Dimension>::maybe_resolve(Size<f32>)` is the model's `Resolve.sizeMaybe` against `Some` of both axes -/
theorem size_dim_f32_maybe_resolve_eq (s : Size (LPA α)) (c : Size α) :
    Gen.GridAlign.Size_Dimension.f32_maybe_resolve s c = Resolve.sizeMaybe s ⟨some c.width, some c.height⟩ := by
  obtain ⟨w, h⟩ := s
  cases w <;> cases h <;> rfl

theorem rect_map_eq {β γ : Type} (r : Rect β) (f : β → γ) :
    Gen.GridAlign.Rect.map r f = ⟨f r.left, f r.right, f r.top, f r.bottom⟩ := rfl
theorem line_map_eq {β γ : Type} (l : Line β) (f : β → γ) : Gen.GridAlign.Line.map l f = ⟨f l.start, f l.«end»⟩ := rfl
theorem horizontal_components_eq {β : Type} (r : Rect β) : Gen.GridAlign.Rect.horizontal_components r = ⟨r.left, r.right⟩ := rfl
theorem vertical_components_eq {β : Type} (r : Rect β) : Gen.GridAlign.Rect.vertical_components r = ⟨r.top, r.bottom⟩ := rfl

open AbsPos in
/-- alignment.rs l.146–168 in the shape of the source (`or_else(|| { if abs { if let (Some, Some) = … { return } } if … { return } None })`) -/
def widthFill (r : GridResolved α) (position : Position) : Option α :=
  match r.inherentSize.width with
  | some v => some v
  | none =>
    if position == .absolute then
      match (r.insetH.start, r.insetH.«end») with
      | (some left, some right) => some (Num.fmax (r.areaMinusMargins.width - left - right) 0)
      | _ =>
        if r.margin.left.isSome && r.margin.right.isSome && r.alignH == .stretch && !(position == .absolute) then
          some r.areaMinusMargins.width
        else none
    else if r.margin.left.isSome && r.margin.right.isSome && r.alignH == .stretch && !(position == .absolute) then
      some r.areaMinusMargins.width
    else none

open AbsPos in
def heightFill (r : GridResolved α) (position : Position) (height : Option α) : Option α :=
  match height with
  | some v => some v
  | none =>
    if position == .absolute then
      match (r.insetV.start, r.insetV.«end») with
      | (some top, some bottom) => some (Num.fmax (r.areaMinusMargins.height - top - bottom) 0)
      | _ =>
        if r.margin.top.isSome && r.margin.bottom.isSome && r.alignV == .stretch && !(position == .absolute) then
          some r.areaMinusMargins.height
        else none
    else if r.margin.top.isSome && r.margin.bottom.isSome && r.alignV == .stretch && !(position == .absolute) then
      some r.areaMinusMargins.height
    else none

theorem widthFill_eq (r : AbsPos.GridResolved α) (position : Position) : widthFill r position = AbsPos.gridWidth r position := by
  unfold widthFill AbsPos.gridWidth
  cases r.inherentSize.width <;> cases position <;> cases r.insetH.start <;> cases r.insetH.«end» <;> rfl

theorem heightFill_eq (r : AbsPos.GridResolved α) (position : Position) (h : Option α) :
    heightFill r position h = AbsPos.gridHeight r position h := by
  unfold heightFill AbsPos.gridHeight
  cases h <;> cases position <;> cases r.insetV.start <;> cases r.insetV.«end» <;> rfl

open AbsPos in
/-- `AbsPos.gridKnown` with the two fill steps in the shape of the source -/
def knownSrc (r : GridResolved α) (position : Position) (ar : Option α) : Size (Option α) :=
  let width := widthFill r position
  let s1 := Size.maybeApplyAspectRatio ⟨width, r.inherentSize.height⟩ ar
  let height := heightFill r position s1.height
  let s2 := Size.maybeApplyAspectRatio ⟨s1.width, height⟩ ar
  Size.oo_clamp s2 r.minSize r.maxSize

theorem knownSrc_eq : knownSrc (α := α) = AbsPos.gridKnown := by
  funext r p ar
  simp only [knownSrc, AbsPos.gridKnown, widthFill_eq, heightFill_eq]

open AbsPos in
/-- `GridModel.alignAndPositionItem` (Model/Grid.lean) as a program over the generated `Gen.Tree.Prog`: the same lines, with the
known-dimensions stage as a parameter -/
def modelProgWith {NodeId : Type} (known : GridResolved α → Position → Option α → Size (Option α))
    (node : NodeId) (cs : Style α) (order : Nat) (gridArea : Rect α)
    (justifyItems alignItems : Option AlignItems) (baselineShim : α) : Gen.Tree.Prog α NodeId (Size α × α × α) :=
  let a : GridArgs α := { gridArea, justifyItems, alignItems, baselineShim, order }
  let r := gridResolve a cs
  let kd := known r cs.position cs.aspectRatio
  .compute_child_layout node (gridChildInput r kd) fun out =>
  let finalSize := gridFinalSize r kd out.size
  let (x, xMargin) :=
    alignItemWithinArea ⟨gridArea.left, gridArea.right⟩ (cs.justifySelf.getD r.alignH) finalSize.width cs.position
      r.insetH ⟨r.margin.left, r.margin.right⟩ 0
  let (y, yMargin) :=
    alignItemWithinArea ⟨gridArea.top, gridArea.bottom⟩ (cs.alignSelf.getD r.alignV) finalSize.height cs.position
      r.insetV ⟨r.margin.top, r.margin.bottom⟩ baselineShim
  .set_unrounded_layout node
    { order, location := ⟨x, y⟩, size := finalSize, contentSize := out.contentSize,
      scrollbarSize := scrollbarSize cs, padding := r.padding, border := r.border,
      margin := { left := xMargin.start, right := xMargin.«end», top := yMargin.start, bottom := yMargin.«end» } } fun _ =>
  .ret (BlockModel.contentSizeContribution ⟨x, y⟩ finalSize out.contentSize cs.overflow, y, finalSize.height)

theorem align_and_position_item_src {NodeId : Type} (node : NodeId) (order : Nat) (gridArea : Rect α)
    (justifyItems alignItems : Option AlignItems) (baselineShim : α) (style : Style α) :
    Gen.GridAlign.align_and_position_item node order gridArea ⟨justifyItems, alignItems⟩ baselineShim style
      = modelProgWith knownSrc node style order gridArea justifyItems alignItems baselineShim := by
  simp only [Gen.GridAlign.align_and_position_item, Gen.Tree.perform_child_layout, Gen.Tree.Prog.bind,
    align_item_within_area_eq, resolve_to_option_eq, size_dim_f32_maybe_resolve_eq, rect_map_eq, line_map_eq,
    horizontal_components_eq, vertical_components_eq,
    TieLeaf.rect_add_eq, TieLeaf.size_map_eq,
    TieLayout.sum_axes_eq, TieLayout.size_ZERO_eq, TieLayout.maybe_apply_aspect_ratio_eq, TieLayout.size_or_eq,
    TieLayout.size_unwrap_or_eq, TieLayout.f32_max_eq,
    TieMaybeMath.size_of_add_eq, TieMaybeMath.size_of_max_eq, TieMaybeMath.size_fo_clamp_eq, TieMaybeMath.size_oo_clamp_eq,
    TieMaybeMath.fo_sub_eq, TieResolve.lp_resolve_or_zero_eq, TieContent.compute_content_size_contribution_eq,
    TieStyle.box_sizing_eq, TieStyle.overflow_eq, TieStyle.scrollbar_width_eq, TieStyle.position_eq, TieStyle.inset_eq,
    TieStyle.size_eq, TieStyle.min_size_eq, TieStyle.max_size_eq, TieStyle.aspect_ratio_eq, TieStyle.margin_eq,
    TieStyle.padding_eq, TieStyle.border_eq, TieStyle.grid_align_self_eq, TieStyle.grid_justify_self_eq]
  rfl

/-- the generated program IS the model's: one `compute_child_layout(node, AbsPos.gridChildInput …)` (that is what `perform_child_layout`
expands to), then one `set_unrounded_layout`, then the triple `(content-size contribution, y, height)` -/
theorem align_and_position_item_eq {NodeId : Type} (node : NodeId) (order : Nat) (gridArea : Rect α)
    (justifyItems alignItems : Option AlignItems) (baselineShim : α) (style : Style α) :
    Gen.GridAlign.align_and_position_item node order gridArea ⟨justifyItems, alignItems⟩ baselineShim style
      = modelProgWith AbsPos.gridKnown node style order gridArea justifyItems alignItems baselineShim := by
  rw [align_and_position_item_src, knownSrc_eq]

/-- … and the layout it sets is `AbsPos.absGrid` (the definition C11's grid theorems are about) with the child's answer as the oracle -/
theorem align_and_position_item_absGrid {NodeId : Type} (node : NodeId) (order : Nat) (gridArea : Rect α)
    (justifyItems alignItems : Option AlignItems) (baselineShim : α) (style : Style α) :
    Gen.GridAlign.align_and_position_item node order gridArea ⟨justifyItems, alignItems⟩ baselineShim style
      = (let a : AbsPos.GridArgs α := { gridArea, justifyItems, alignItems, baselineShim, order }
         let r := AbsPos.gridResolve a style
         .compute_child_layout node (AbsPos.gridChildInput r (AbsPos.gridKnown r style.position style.aspectRatio)) fun out =>
         let lay := AbsPos.absGrid a style (fun _ => out)
         .set_unrounded_layout node lay fun _ =>
         .ret (BlockModel.contentSizeContribution lay.location lay.size out.contentSize style.overflow, lay.location.y,
           lay.size.height)) := by
  rw [align_and_position_item_eq]
  rfl

/-- the grid model's monad (`GM α = ExceptT String (ProgM α)`, Model/GridItem.lean) as a meaning of the generated program type, for the
interactions a grid item performs (`NodeId` is the child index); the other trait methods do not occur in `align_and_position_item` -/
def toGM {β : Type} : Gen.Tree.Prog α Nat β → GridModel.GM α β
  | .ret b => pure b
  | .unreachable => throw "unreachable"
  | .compute_child_layout n i k => ExceptT.mk (ProgM.call n i fun o => (toGM (k o)).run)
  | .set_unrounded_layout n l k => ExceptT.mk (ProgM.setLayout n l fun u => (toGM (k u)).run)
  | .get_core_container_style _ _ => throw "get_core_container_style"
  | .cache_get _ _ _ _ _ => throw "cache_get"
  | .cache_store _ _ _ _ _ _ => throw "cache_store"
  | .cache_clear _ _ => throw "cache_clear"

/-- the generated `align_and_position_item` IS `GridModel.alignAndPositionItem` (the function the grid program of Model/Grid.lean calls
for every in-flow item and every absolutely positioned child) -/
theorem align_and_position_item_GM (node : Nat) (order : Nat) (gridArea : Rect α)
    (justifyItems alignItems : Option AlignItems) (baselineShim : α) (style : Style α) :
    toGM (Gen.GridAlign.align_and_position_item node order gridArea ⟨justifyItems, alignItems⟩ baselineShim style)
      = GridModel.alignAndPositionItem node style order gridArea justifyItems alignItems baselineShim := by
  rw [align_and_position_item_eq]
  rfl

/-! ### flexbox.rs `perform_absolute_layout_on_absolute_children`: the skip test and the loop body for one child -/

/-- the condition of `if … { continue; }`: the model's `absLoop` skips a child iff `cs.isHidden || cs.position != .absolute` -/
theorem abs_skip_eq (cs : Style α) : Gen.FlexAbs.abs_skip cs = (cs.isHidden || cs.position != .absolute) := by
  simp only [Gen.FlexAbs.abs_skip, TieStyle.box_generation_mode_none_eq, TieStyle.position_eq]
  rfl

theorem size_sub_eq : Gen.FlexAbs.Size.sub (α := α) = Size.sub := rfl
theorem point_into_size_eq (p : Point α) : Gen.FlexAbs.Point.into_size p = ⟨p.x, p.y⟩ := rfl
theorem has_non_zero_area_eq (s : Size α) : Gen.Geometry.Size.has_non_zero_area s = (Num.fgt s.width 0 && Num.fgt s.height 0) := rfl
theorem lpa_f32_maybe_resolve_some (x : LPA α) (c : α) : LPA.resolveToOption x c = x.maybeResolve (some c) := by
  cases x <;> rfl

namespace FlexSrc
open AbsPos

/-- `flexFillWidth` in the shape of the source (`if let (None, Some(left), Some(right)) = (kd.width, left, right) { … }`) -/
def fillWidth (a : FlexArgs α) (r : FlexResolved α) (ar : Option α) (kd : Size (Option α)) : Size (Option α) :=
  match (kd.width, r.left, r.right) with
  | (none, some left, some right) =>
    let newWidthRaw :=
      MaybeMath.fo_sub (MaybeMath.fo_sub (flexInsetRelativeSize a).width r.margin.left) r.margin.right - left - right
    let kd : Size (Option α) := { kd with width := some (Num.fmax newWidthRaw 0) }
    Size.oo_clamp (Size.maybeApplyAspectRatio kd ar) r.minSize r.maxSize
  | _ => kd

def fillHeight (a : FlexArgs α) (r : FlexResolved α) (ar : Option α) (kd : Size (Option α)) : Size (Option α) :=
  match (kd.height, r.top, r.bottom) with
  | (none, some top, some bottom) =>
    let newHeightRaw :=
      MaybeMath.fo_sub (MaybeMath.fo_sub (flexInsetRelativeSize a).height r.margin.top) r.margin.bottom - top - bottom
    let kd : Size (Option α) := { kd with height := some (Num.fmax newHeightRaw 0) }
    Size.oo_clamp (Size.maybeApplyAspectRatio kd ar) r.minSize r.maxSize
  | _ => kd

def known (a : FlexArgs α) (r : FlexResolved α) (ar : Option α) : Size (Option α) :=
  fillHeight a r ar (fillWidth a r ar (Size.oo_clamp r.styleSize r.minSize r.maxSize))

/-- `flexLocation` with the final `match constants.is_row { true => …, false => … }` of the source -/
def location (a : FlexArgs α) (r : FlexResolved α) (finalSize : Size α) (rm : Rect α) : Point α :=
  let isRow := a.dir.isRow
  let (startMain, endMain) := if isRow then (r.left, r.right) else (r.top, r.bottom)
  let (startCross, endCross) := if isRow then (r.top, r.bottom) else (r.left, r.right)
  let offsetMain := flexOffsetMain a startMain endMain finalSize rm
  let offsetCross := flexOffsetCross a r.alignSelf startCross endCross finalSize rm
  match isRow with
  | true => ⟨offsetMain, offsetCross⟩
  | false => ⟨offsetCross, offsetMain⟩

theorem fillWidth_eq (a : FlexArgs α) (r : FlexResolved α) (ar : Option α) (kd : Size (Option α)) :
    fillWidth a r ar kd = flexFillWidth a r ar kd := by
  unfold fillWidth flexFillWidth
  cases kd.width <;> cases r.left <;> cases r.right <;> rfl

theorem fillHeight_eq (a : FlexArgs α) (r : FlexResolved α) (ar : Option α) (kd : Size (Option α)) :
    fillHeight a r ar kd = flexFillHeight a r ar kd := by
  unfold fillHeight flexFillHeight
  cases kd.height <;> cases r.top <;> cases r.bottom <;> rfl

theorem known_eq : known (α := α) = flexKnown := by
  funext a r ar
  simp only [known, flexKnown, fillWidth_eq, fillHeight_eq]

theorem location_eq : location (α := α) = flexLocation := by
  funext a r fs rm
  unfold location flexLocation
  cases a.dir.isRow <;> rfl

/-- `FlexModel.absItem` (Model/Flex.lean) as a program over the generated `Gen.Tree.Prog`: the same lines, the stages "known dimensions" and
"location" as parameters; the child is addressed by `child`, the layout's `order` field is `order` -/
def modelItem {NodeId : Type} (knownF : FlexArgs α → FlexResolved α → Option α → Size (Option α))
    (locF : FlexArgs α → FlexResolved α → Size α → Rect α → Point α)
    (k : FlexModel.AlgoConstants α) (order : Nat) (child : NodeId) (cs : Style α) (acc : Size α) :
    Gen.Tree.Prog α NodeId (Size α) :=
  let a := FlexModel.absArgs k order
  let r := flexResolve a cs
  let kd := knownF a r cs.aspectRatio
  .compute_child_layout child (flexChildInput a r kd) fun out =>
  let finalSize := flexFinalSize r kd out.size
  let rm := flexResolvedMargin a r finalSize
  let location := locF a r finalSize rm
  .set_unrounded_layout child
    { order, size := finalSize, contentSize := out.contentSize, scrollbarSize := scrollbarSize cs,
      location, padding := r.padding, border := r.border, margin := rm } fun _ =>
  let w : α := match cs.overflow.x with
    | .visible => Num.fmax finalSize.width out.contentSize.width
    | _ => finalSize.width
  let h : α := match cs.overflow.y with
    | .visible => Num.fmax finalSize.height out.contentSize.height
    | _ => finalSize.height
  .ret (if Num.fgt w 0 && Num.fgt h 0 then acc.f32Max ⟨location.x + w, location.y + h⟩ else acc)

end FlexSrc

theorem abs_item_src {NodeId : Type} (k : FlexModel.AlgoConstants α) (order : Nat) (child : NodeId) (acc : Size α)
    (cs : Style α) (hrow : k.isRow = k.dir.isRow) (horder : order < 4294967296) :
    Gen.FlexAbs.abs_item k order child acc cs = FlexSrc.modelItem FlexSrc.known FlexSrc.location k order child cs acc := by
  have hord : Gen.FlexAbs.usize_as_u32 order = order := Nat.mod_eq_of_lt horder
  simp only [Gen.FlexAbs.abs_item, hrow, hord, FlexSrc.modelItem, AbsPos.flexResolve, AbsPos.flexInsetRelativeSize, FlexModel.absArgs,
    Gen.Tree.perform_child_layout, Gen.Tree.Prog.bind,
    size_sub_eq, point_into_size_eq, has_non_zero_area_eq, autoCount_eq, decide_eq_true_eq,
    resolve_to_option_eq, size_dim_f32_maybe_resolve_eq, rect_map_eq,
    TieLeaf.rect_add_eq, TieLeaf.size_map_eq,
    TieLayout.sum_axes_eq, TieLayout.size_ZERO_eq, TieLayout.maybe_apply_aspect_ratio_eq, TieLayout.size_or_eq,
    TieLayout.size_unwrap_or_eq, TieLayout.f32_max_eq, TieLayout.size_f32_max_eq, TieLayout.horizontal_axis_sum_eq,
    TieLayout.vertical_axis_sum_eq,
    TieMaybeMath.size_of_add_eq, TieMaybeMath.size_of_max_eq, TieMaybeMath.size_fo_clamp_eq, TieMaybeMath.size_oo_clamp_eq,
    TieMaybeMath.fo_sub_eq, TieMaybeMath.fo_clamp_eq, TieResolve.rect_lp_opt_resolve_or_zero_eq, TieResolve.lpa_f32_maybe_resolve_eq,
    lpa_f32_maybe_resolve_some,
    TieAxes.main_start_eq, TieAxes.main_end_eq, TieAxes.cross_start_eq, TieAxes.cross_end_eq, TieAxes.size_main_eq,
    TieAxes.size_cross_eq, TieAxes.point_main_eq, TieAxes.point_cross_eq,
    TieStyle.box_sizing_eq, TieStyle.overflow_eq, TieStyle.scrollbar_width_eq, TieStyle.inset_eq,
    TieStyle.size_eq, TieStyle.min_size_eq, TieStyle.max_size_eq, TieStyle.aspect_ratio_eq, TieStyle.margin_eq,
    TieStyle.padding_eq, TieStyle.border_eq, TieStyle.flex_align_self_eq]
  rfl

/-- the generated loop body IS the model's: for a child that is not skipped, one `compute_child_layout(child, AbsPos.flexChildInput …)`, one
`set_unrounded_layout`, then the accumulated content size. Hypotheses: `constants.is_row` is `dir.is_row()` (`compute_constants` sets it so:
`TieFlexLine.computeConstants_isRow`) and the child index fits `u32` (`order as u32` in the source) -/
theorem abs_item_eq {NodeId : Type} (k : FlexModel.AlgoConstants α) (order : Nat) (child : NodeId) (acc : Size α)
    (cs : Style α) (hrow : k.isRow = k.dir.isRow) (horder : order < 4294967296) :
    Gen.FlexAbs.abs_item k order child acc cs
      = FlexSrc.modelItem AbsPos.flexKnown AbsPos.flexLocation k order child cs acc := by
  rw [abs_item_src k order child acc cs hrow horder, FlexSrc.known_eq, FlexSrc.location_eq]

/-- the hypotheses are met by the constants the flex program computes (whatever the style) and by any realistic child index -/
example (style : Style Rat) (kd ps : Size (Option Rat)) :
    (FlexModel.computeConstants style kd ps).isRow = (FlexModel.computeConstants style kd ps).dir.isRow
      ∧ (7 : Nat) < 4294967296 := ⟨rfl, by decide⟩

/-- why `order < 2^32` is a hypothesis: for EVERY input the layout the source sets carries `order as u32`, i.e. `order % 2^32`, where the
model (`FlexModel.absItem`, `AbsPos.absFlex`) stores `order` itself — they differ from the 4294967296-th child on -/
theorem abs_item_order_truncated {NodeId : Type} (k : FlexModel.AlgoConstants α) (order : Nat) (child : NodeId) (acc : Size α)
    (cs : Style α) :
    ∃ inp kont, Gen.FlexAbs.abs_item k order child acc cs = .compute_child_layout child inp kont ∧
      ∀ out, ∃ lay rest, kont out = .set_unrounded_layout child lay rest ∧ lay.order = order % 4294967296 := by
  simp only [Gen.FlexAbs.abs_item, Gen.Tree.perform_child_layout, Gen.Tree.Prog.bind]
  exact ⟨_, _, rfl, fun out => ⟨_, _, rfl, rfl⟩⟩

/-! why `k.isRow = k.dir.isRow` is a hypothesis: the source reads both `constants.is_row` and `constants.dir`; on constants that
`compute_constants` never produces (a column direction with `is_row = true`) it pairs the left inset with the top border -/

/-- the layout a loop-body program sets when the child answers `out` -/
def firstLayout {NodeId β : Type} (p : Gen.Tree.Prog α NodeId β) (out : LayoutOutput α) : Option (Layout α) :=
  match p with
  | .compute_child_layout _ _ k =>
    match k out with
    | .set_unrounded_layout _ l _ => some l
    | _ => none
  | _ => none

def witnessConstants : FlexModel.AlgoConstants Rat :=
  { (default : FlexModel.AlgoConstants Rat) with dir := .column, isRow := true, containerSize := ⟨100, 50⟩, border := ⟨0, 0, 5, 0⟩ }
def witnessStyle : Style Rat :=
  { (Style.default : Style Rat) with position := .absolute, inset := ⟨LPA.length 10, LPA.auto, LPA.length 3, LPA.auto⟩ }

/-- without `k.isRow = k.dir.isRow` the equality `abs_item_eq` fails: the location of the one child -/
theorem abs_item_needs_isRow_witness :
    (firstLayout (Gen.FlexAbs.abs_item (NodeId := Nat) witnessConstants 0 0 Size.zero witnessStyle) LayoutOutput.hidden).map (·.location)
      = some ⟨15, 3⟩ ∧
    (firstLayout (FlexSrc.modelItem (NodeId := Nat) AbsPos.flexKnown AbsPos.flexLocation witnessConstants 0 0 witnessStyle Size.zero)
        LayoutOutput.hidden).map (·.location) = some ⟨10, 8⟩ ∧
    witnessConstants.isRow ≠ witnessConstants.dir.isRow := by
  refine ⟨by decide +kernel, by decide +kernel, by decide⟩

/-- … and the layout it sets is `AbsPos.absFlex` (the definition C11's flex theorems are about) with the child's answer as the oracle -/
theorem abs_item_absFlex {NodeId : Type} (k : FlexModel.AlgoConstants α) (order : Nat) (child : NodeId) (acc : Size α)
    (cs : Style α) (hrow : k.isRow = k.dir.isRow) (horder : order < 4294967296) :
    ∃ rest : LayoutOutput α → Unit → Gen.Tree.Prog α NodeId (Size α), Gen.FlexAbs.abs_item k order child acc cs
      = (let a := FlexModel.absArgs k order
         let r := AbsPos.flexResolve a cs
         .compute_child_layout child (AbsPos.flexChildInput a r (AbsPos.flexKnown a r cs.aspectRatio)) fun out =>
         .set_unrounded_layout child (AbsPos.absFlex a cs (fun _ => out)) (rest out)) := by
  rw [abs_item_eq k order child acc cs hrow horder]
  exact ⟨_, rfl⟩

/-- the hand-written `ProgM` (Model/Prog.lean) as a meaning of the generated program type, for the interactions the loop body performs
(`NodeId` is the child index); `none` = an interaction that does not occur in it -/
def toProgM {β : Type} : Gen.Tree.Prog α Nat β → ProgM α (Option β)
  | .ret b => .pure (some b)
  | .unreachable => .pure none
  | .compute_child_layout n i k => .call n i fun o => toProgM (k o)
  | .set_unrounded_layout n l k => .setLayout n l fun u => toProgM (k u)
  | .get_core_container_style _ _ => .pure none
  | .cache_get _ _ _ _ _ => .pure none
  | .cache_store _ _ _ _ _ _ => .pure none
  | .cache_clear _ _ => .pure none

theorem toProgM_ite {β : Type} (c : Bool) (a b : β) :
    (ProgM.pure (some (if c then a else b)) : ProgM α (Option β))
      = ProgM.bind (if c then (ProgM.pure a : ProgM α β) else ProgM.pure b) (fun x => .pure (some x)) := by
  cases c <;> rfl

/-- the generated loop body IS `FlexModel.absItem` (what `FlexModel.absLoop` runs for every child that is not skipped; the model addresses
the child by its index) -/
theorem abs_item_ProgM (k : FlexModel.AlgoConstants α) (order : Nat) (acc : Size α) (cs : Style α)
    (hrow : k.isRow = k.dir.isRow) (horder : order < 4294967296) :
    toProgM (Gen.FlexAbs.abs_item k order order acc cs) = (FlexModel.absItem k order cs acc).bind fun x => .pure (some x) := by
  rw [abs_item_eq k order order acc cs hrow horder]
  unfold FlexModel.absItem FlexSrc.modelItem
  simp only [toProgM, bind, ProgM.bind, ProgM.computeChildLayout, ProgM.setUnroundedLayout, pure]
  congr 1
  funext out
  congr 1
  funext u
  exact toProgM_ite _ _ _

/-! ### the whole of `perform_absolute_layout_on_absolute_children` -/

theorem progM_bind_assoc {β γ δ : Type} (p : ProgM α β) (f : β → ProgM α γ) (g : γ → ProgM α δ) :
    (p.bind f).bind g = p.bind fun x => (f x).bind g := by
  induction p with
  | pure b => rfl
  | call c i k ih => simp only [ProgM.bind, ih]
  | setLayout c l k ih => simp only [ProgM.bind, ih]

/-- the loop header's queries answered on a flex container whose children have the styles `styles` (the child's id is its index, as in
`FlexModel.absLoop`); the loop body's interactions through `toProgM`; `none` = a query that cannot be answered (child index out of range) -/
def runFlex (styles : List (Style α)) {β : Type} : Gen.FlexAbs.Prog α Nat β → ProgM α (Option β)
  | .ret b => .pure (some b)
  | .child_count _ k => runFlex styles (k styles.length)
  | .get_child_id _ i k => runFlex styles (k i)
  | .get_flexbox_child_style c k =>
    match styles[c]? with
    | some s => runFlex styles (k s)
    | none => .pure none
  | .tree p k => (toProgM p).bind fun r =>
    match r with
    | some x => runFlex styles (k x)
    | none => .pure none

theorem abs_loop_run (k : FlexModel.AlgoConstants α) (hrow : k.isRow = k.dir.isRow) (node : Nat) (styles : List (Style α))
    (hlen : styles.length ≤ 4294967296) :
    ∀ (suf pre : List (Style α)) (acc : Size α), styles = pre ++ suf →
      runFlex styles (Gen.FlexAbs.abs_loop node k (List.range' pre.length suf.length) acc)
        = (FlexModel.absLoop k suf pre.length acc).bind fun x => .pure (some x) := by
  intro suf
  induction suf with
  | nil => intro pre acc _; rfl
  | cons cs rest ih =>
    intro pre acc hs
    have hget : styles[pre.length]? = some cs := by rw [hs]; simp
    have hlt : pre.length < 4294967296 := by
      have : styles.length = pre.length + (rest.length + 1) := by rw [hs]; simp
      omega
    have ih' := fun acc' => ih (pre ++ [cs]) acc' (by rw [hs]; simp)
    simp only [List.length_append, List.length_cons, List.length_nil, Nat.zero_add] at ih'
    simp only [List.length_cons, List.range'_succ, Gen.FlexAbs.abs_loop, runFlex, hget, abs_skip_eq, FlexModel.absLoop]
    by_cases hskip : (cs.isHidden || cs.position != .absolute) = true
    · simp only [hskip, if_true]
      exact ih' acc
    · simp only [hskip, if_false, Bool.false_eq_true, runFlex]
      rw [abs_item_ProgM k pre.length acc cs hrow hlt, progM_bind_assoc]
      show _ = ProgM.bind (ProgM.bind _ _) _
      rw [progM_bind_assoc]
      congr 1
      funext acc'
      exact ih' acc'

example (style : Style Rat) (kd ps : Size (Option Rat)) :
    (FlexModel.computeConstants style kd ps).isRow = (FlexModel.computeConstants style kd ps).dir.isRow
      ∧ ([style, style, style] : List (Style Rat)).length ≤ 4294967296 := ⟨rfl, by simp⟩

/-- running the generated `perform_absolute_layout_on_absolute_children` on a container with child styles `styles` IS the model's
`absLoop k styles 0 Size.zero` (the absolute pass of `FlexModel.computeFlexboxLayout`): the same child queries in the same order with
the same inputs, the same layouts set, the same content size -/
theorem perform_absolute_layout_on_absolute_children_eq (k : FlexModel.AlgoConstants α) (hrow : k.isRow = k.dir.isRow) (node : Nat)
    (styles : List (Style α)) (hlen : styles.length ≤ 4294967296) :
    runFlex styles (Gen.FlexAbs.perform_absolute_layout_on_absolute_children node k)
      = (FlexModel.absLoop k styles 0 Size.zero).bind fun x => .pure (some x) := by
  have h := abs_loop_run k hrow node styles hlen styles [] Size.zero rfl
  simp only [List.length_nil] at h
  simp only [Gen.FlexAbs.perform_absolute_layout_on_absolute_children, runFlex, List.range_eq_range', TieLayout.size_ZERO_eq]
  exact h

end TieAbsPos
