/-
  Tie (tier T) for src/tree/layout.rs (`CollapsibleMarginSet`, `LayoutOutput`, `Layout` constructors), the geometry
  helpers of src/geometry.rs / src/style_helpers.rs they use, src/util/sys.rs and the rest of src/style/available_space.rs.

  `Gen.*` is regenerated from the Rust source on every run; each theorem states that the generated definition IS the
  hand-written one of Model/Geometry.lean / Model/Style.lean — for every argument and every `[Num α]`.
-/
import TaffyVerif.Generated.LayoutTypes
import TaffyVerif.Generated.AvailableSpace
import TaffyVerif.Model.Style

namespace TieLayout
variable {α : Type} [Num α]

/-! ### src/util/sys.rs -/
theorem f32_max_eq : Gen.Sys.f32_max (α := α) = Num.fmax := rfl
theorem f32_min_eq : Gen.Sys.f32_min (α := α) = Num.fmin := rfl
theorem abs_eq : Gen.Sys.abs (α := α) = Num.abs := rfl
theorem round_eq : Gen.Sys.round (α := α) = Num.round := rfl
theorem floor_eq : Gen.Sys.floor (α := α) = Num.floor := rfl
theorem ceil_eq : Gen.Sys.ceil (α := α) = Num.ceil := rfl

/-! ### `CollapsibleMarginSet` -/
theorem margin_zero_eq : Gen.LayoutTypes.CollapsibleMarginSet.ZERO (α := α) = MarginSet.zero := rfl
theorem from_margin_eq : Gen.LayoutTypes.CollapsibleMarginSet.from_margin (α := α) = MarginSet.fromMargin := by
  funext m; rfl
theorem collapse_with_margin_eq :
    Gen.LayoutTypes.CollapsibleMarginSet.collapse_with_margin (α := α) = MarginSet.collapseWithMargin := by
  funext s m; rfl
theorem collapse_with_set_eq :
    Gen.LayoutTypes.CollapsibleMarginSet.collapse_with_set (α := α) = MarginSet.collapseWithSet := by
  funext s o; rfl
theorem margin_resolve_eq : Gen.LayoutTypes.CollapsibleMarginSet.resolve (α := α) = MarginSet.resolve := by
  funext s; rfl

/-! ### `LayoutOutput` -/
theorem hidden_eq : Gen.LayoutTypes.LayoutOutput.HIDDEN (α := α) = LayoutOutput.hidden := rfl
theorem default_eq : Gen.LayoutTypes.LayoutOutput.DEFAULT (α := α) = LayoutOutput.hidden := rfl
theorem from_sizes_and_baselines_eq :
    Gen.LayoutTypes.LayoutOutput.from_sizes_and_baselines (α := α) = LayoutOutput.fromSizesAndBaselines := by
  funext s c b; rfl
theorem from_sizes_eq : Gen.LayoutTypes.LayoutOutput.from_sizes (α := α) = LayoutOutput.fromSizes := by
  funext s c; rfl
theorem from_outer_size_eq : Gen.LayoutTypes.LayoutOutput.from_outer_size (α := α) = LayoutOutput.fromOuterSize := by
  funext s; rfl

/-! ### `Layout` -/
theorem layout_with_order_eq : Gen.LayoutTypes.Layout.with_order (α := α) = Layout.withOrder := by
  funext o; rfl
theorem layout_new_eq : Gen.LayoutTypes.Layout.new (α := α) = Layout.new := rfl

/-! ### src/geometry.rs, src/style_helpers.rs -/
theorem horizontal_axis_sum_eq : Gen.Geometry.Rect.horizontal_axis_sum (α := α) = Rect.horizontalAxisSum := by
  funext r; rfl
theorem vertical_axis_sum_eq : Gen.Geometry.Rect.vertical_axis_sum (α := α) = Rect.verticalAxisSum := by
  funext r; rfl
theorem sum_axes_eq : Gen.Geometry.Rect.sum_axes (α := α) = Rect.sumAxes := by
  funext r; rfl
theorem size_f32_max_eq : Gen.Geometry.Size.f32_max (α := α) = Size.f32Max := by
  funext a b; rfl
theorem size_f32_min_eq : Gen.Geometry.Size.f32_min (α := α) = Size.f32Min := by
  funext a b; rfl
theorem maybe_apply_aspect_ratio_eq :
    Gen.Geometry.Size.maybe_apply_aspect_ratio (α := α) = Size.maybeApplyAspectRatio := by
  funext s r
  obtain ⟨w, h⟩ := s
  cases r <;> cases w <;> cases h <;> rfl
theorem size_unwrap_or_eq : Gen.Geometry.Size.unwrap_or (α := α) = Size.unwrapOr := by
  funext a b; rfl
theorem size_or_eq : Gen.Geometry.Size.or (α := α) = Size.orOpt := by
  funext a b; rfl
theorem both_axis_defined_eq : Gen.Geometry.Size.both_axis_defined (α := α) = Size.bothAxisDefined := by
  funext a; rfl
theorem size_zero_eq : Gen.Geometry.Size.zero (α := α) = Size.zero := rfl
theorem size_ZERO_eq : Gen.Geometry.Size.ZERO (α := α) = Size.zero := rfl
theorem size_NONE_eq : Gen.Geometry.Size.NONE (α := α) = Size.none := rfl
theorem rect_zero_eq : Gen.Geometry.Rect.zero (α := α) = Rect.zero := rfl
theorem rect_ZERO_eq : Gen.Geometry.Rect.ZERO (α := α) = Rect.zero := rfl

/-! ### src/style/available_space.rs (`is_roughly_equal` is in TieCache) -/
theorem into_option_eq : Gen.AvailableSpace.into_option (α := α) = AvailableSpace.intoOption := by
  funext a; cases a <;> rfl
theorem maybe_set_eq : Gen.AvailableSpace.maybe_set (α := α) = AvailableSpace.maybeSet := by
  funext a v; cases v <;> rfl
theorem is_definite_eq : Gen.AvailableSpace.is_definite (α := α) = AvailableSpace.isDefinite := by
  funext a; cases a <;> rfl
theorem av_unwrap_or_eq : Gen.AvailableSpace.unwrap_or (α := α) = AvailableSpace.unwrapOr := by
  funext a d; cases a <;> rfl

end TieLayout
