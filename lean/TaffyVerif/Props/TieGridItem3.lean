/-
  Tie (tier T) for `determine_if_item_crosses_flexible_or_intrinsic_tracks` of src/compute/grid/track_sizing.rs
  (extract/src/griditem.rs → Generated/GridItem.lean) against `GridModel.determineCrossings` of Model/GridSizing.lean.

  The source indexes `columns[i]` / `rows[i]` for `i` in the item's range until the predicate holds (`Range::any` stops at the first `true`):
  it panics only when an index beyond the list is reached. The generated definition keeps that outcome (`Slice.rangeAnyM`, `Slice.index`); the
  model reads the truncated slice (`sliceOf`).  `determine_crossings_eq`: for items whose ranges END inside the track lists (a reversed or
  empty range is fine: no index is taken) the generated function answers the model's list; `determine_crossings_ok` (no hypothesis): whenever
  the generated function answers at all — no index beyond a list is reached before the predicate holds — it answers the model's list.
-/
import TaffyVerif.Props.TieGridItem2

set_option linter.unusedSectionVars false

namespace TieGridItem
open GridTracks GridModel Slice
variable {α : Type} [Num α]

theorem index_eq {β : Type} (l : List β) (i : Nat) (h : i < l.length) : Slice.index l i = .ok l[i] := by
  unfold Slice.index
  rw [List.getElem?_eq_getElem h]

/-- `(lo..lo+n).any(|i| f(l[i]))` inside the list is `any f` of the slice -/
theorem range_any_go {β : Type} (f : β → Bool) (l : List β) (n lo : Nat) (h : lo + n ≤ l.length) :
    Slice.rangeAnyM.go (fun i => do let t ← Slice.index l i; pure (f t)) n lo = .ok (((l.drop lo).take n).any f) := by
  induction n generalizing lo with
  | zero => simp [Slice.rangeAnyM.go]
  | succ n ih =>
    have hlt : lo < l.length := by omega
    unfold Slice.rangeAnyM.go
    rw [index_eq l lo hlt, List.drop_eq_getElem_cons hlt, List.take_succ_cons, List.any_cons]
    simp only [Slice.bind_ok]
    show (pure (f l[lo]) >>= fun b => if b = true then pure true else Slice.rangeAnyM.go _ n (lo + 1)) = _
    rw [show (pure (f l[lo]) : Except GErr Bool) = Except.ok (f l[lo]) from rfl, Slice.bind_ok]
    cases hf : f l[lo] with
    | true => rfl
    | false =>
      simp only [Bool.false_eq_true, ↓reduceIte, Bool.false_or]
      exact ih (lo + 1) (by omega)

theorem range_any_eq {β : Type} (f : β → Bool) (l : List β) (r : Nat × Nat) (h : r.2 ≤ l.length) :
    Slice.rangeAnyM r (fun i => do let t ← Slice.index l i; pure (f t)) = .ok (((l.drop r.1).take (r.2 - r.1)).any f) := by
  unfold Slice.rangeAnyM
  by_cases hle : r.1 ≤ r.2
  · exact range_any_go f l _ _ (by omega)
  · have : r.2 - r.1 = 0 := by omega
    rw [this]
    simp [Slice.rangeAnyM.go]

/-- `determine_if_item_crosses_flexible_or_intrinsic_tracks`: for items whose column / row ranges end inside the track lists, the generated
loop answers `determineCrossings` (the four flags of every item, in the source's order of assignment; nothing else changes) -/
theorem determine_crossings_eq (items : List (GItem α)) (columns rows : List (GridTrack α))
    (hr : ∀ it ∈ items, (it.trackRange .inl).2 ≤ columns.length ∧ (it.trackRange .blk).2 ≤ rows.length) :
    Gen.GridItem.determine_if_item_crosses_flexible_or_intrinsic_tracks items columns rows =
      .ok (determineCrossings items columns rows) := by
  unfold Gen.GridItem.determine_if_item_crosses_flexible_or_intrinsic_tracks determineCrossings
  induction items with
  | nil => rfl
  | cons it rest ih =>
    have h1 := hr it List.mem_cons_self
    have ihr := ih (fun y hy => hr y (List.mem_cons_of_mem _ hy))
    rw [List.mapM_cons, List.map_cons]
    simp only [track_range_excluding_lines_eq, TieTrackFns.is_flexible_eq, TieTrackFns.has_intrinsic_sizing_function_eq] at ihr ⊢
    rw [ihr]
    have e1 := range_any_eq (fun (t : GridTrack α) => t.isFlexible) columns (it.trackRange .inl) h1.1
    have e2 := range_any_eq (fun (t : GridTrack α) => t.hasIntrinsicSizingFunction) columns (it.trackRange .inl) h1.1
    have e3 := range_any_eq (fun (t : GridTrack α) => t.isFlexible) rows (it.trackRange .blk) h1.2
    have e4 := range_any_eq (fun (t : GridTrack α) => t.hasIntrinsicSizingFunction) rows (it.trackRange .blk) h1.2
    simp only [GItem.trackRange, GItem.placementIndexes] at e1 e2 e3 e4 ⊢
    simp only [e1, e2, e3, e4, Slice.bind_ok]
    rfl

/-- the hypothesis on the example item of Props/TieGridItem.lean: columns 3..6 of seven entries, rows 1..2 of three -/
example : ∀ it ∈ [exItem], (it.trackRange .inl).2 ≤ exTracks.length ∧ (it.trackRange .blk).2 ≤ (exTracks.take 3).length := by
  intro it h; simp only [List.mem_singleton] at h; subst h; decide

/-! ### unconditional form: whenever the source's loop answers, it answers the model's list -/

theorem index_err {β : Type} (l : List β) (i : Nat) (h : ¬ i < l.length) : Slice.index l i = .error .overflow := by
  unfold Slice.index
  rw [List.getElem?_eq_none (by omega)]

theorem range_any_go_ok {β : Type} (f : β → Bool) (l : List β) (n lo : Nat) (b : Bool)
    (h : Slice.rangeAnyM.go (fun i => do let t ← Slice.index l i; pure (f t)) n lo = .ok b) :
    b = ((l.drop lo).take n).any f := by
  induction n generalizing lo with
  | zero =>
    simp only [Slice.rangeAnyM.go] at h
    cases h
    simp
  | succ n ih =>
    unfold Slice.rangeAnyM.go at h
    by_cases hlt : lo < l.length
    · rw [index_eq l lo hlt] at h
      rw [List.drop_eq_getElem_cons hlt, List.take_succ_cons, List.any_cons]
      simp only [Slice.bind_ok] at h
      replace h : (Except.ok (f l[lo]) >>= fun b => if b = true then pure true else
          Slice.rangeAnyM.go (fun i => do let t ← Slice.index l i; pure (f t)) n (lo + 1)) = Except.ok b := h
      rw [Slice.bind_ok] at h
      cases hf : f l[lo] with
      | true =>
        rw [hf] at h
        cases h
        rfl
      | false =>
        rw [hf] at h
        simp only [Bool.false_eq_true, ↓reduceIte] at h
        simp only [Bool.false_or]
        exact ih (lo + 1) h
    · rw [index_err l lo hlt] at h
      cases h

theorem range_any_ok {β : Type} (f : β → Bool) (l : List β) (r : Nat × Nat) (b : Bool)
    (h : Slice.rangeAnyM r (fun i => do let t ← Slice.index l i; pure (f t)) = .ok b) :
    b = ((l.drop r.1).take (r.2 - r.1)).any f :=
  range_any_go_ok f l _ _ b h

theorem bind_ok_inv {β γ : Type} (x : Except GErr β) (f : β → Except GErr γ) (r : γ) (h : (x >>= f) = .ok r) :
    ∃ a, x = .ok a ∧ f a = .ok r := by
  cases x with
  | error e => cases h
  | ok a => exact ⟨a, rfl, h⟩

/-- whenever the source's loop answers (no index beyond a track list is reached), it answers `determineCrossings` — no hypothesis -/
theorem determine_crossings_ok (items : List (GItem α)) (columns rows : List (GridTrack α)) (r : List (GItem α))
    (h : Gen.GridItem.determine_if_item_crosses_flexible_or_intrinsic_tracks items columns rows = .ok r) :
    r = determineCrossings items columns rows := by
  unfold Gen.GridItem.determine_if_item_crosses_flexible_or_intrinsic_tracks at h
  unfold determineCrossings
  induction items generalizing r with
  | nil => cases h; rfl
  | cons it rest ih =>
    rw [List.mapM_cons] at h
    obtain ⟨it', h1, h2⟩ := bind_ok_inv _ _ _ h
    obtain ⟨bs, h3, h4⟩ := bind_ok_inv _ _ _ h2
    cases h4
    rw [ih bs h3]
    obtain ⟨b1, g1, h1⟩ := bind_ok_inv _ _ _ h1
    obtain ⟨b2, g2, h1⟩ := bind_ok_inv _ _ _ h1
    obtain ⟨b3, g3, h1⟩ := bind_ok_inv _ _ _ h1
    obtain ⟨b4, g4, h1⟩ := bind_ok_inv _ _ _ h1
    cases h1
    have k1 := range_any_ok _ _ _ _ g1
    have k2 := range_any_ok _ _ _ _ g2
    have k3 := range_any_ok _ _ _ _ g3
    have k4 := range_any_ok _ _ _ _ g4
    simp only [track_range_excluding_lines_eq, TieTrackFns.is_flexible_eq, TieTrackFns.has_intrinsic_sizing_function_eq,
      GItem.trackRange, GItem.placementIndexes] at k1 k2 k3 k4
    rw [List.map_cons, k1, k2, k3, k4]
    rfl

end TieGridItem
