/-
  Tie (tier T) for the space-distribution functions of src/compute/grid/track_sizing.rs:
  `distribute_space_up_to_limits` (the `while` with the tolerance `THRESHOLD`, the four closure parameters, `min_by(total_cmp)`).

  `Gen.TrackSizing.*` of Generated/TrackSizing2.lean are regenerated from the Rust source on every run (extract/src/tracks2.rs on top of
  slices.rs); each theorem states that the generated definition IS the hand-written one of Model/FrSize.lean — for every argument
  (closures included) and every `[Num α]` in which `-0.0 == 0.0`.

  That hypothesis (`hz`) is needed for one reason: the Rust code `unwrap`s the minimum over the growable tracks and is safe because an
  empty set of growable tracks makes the proportion sum `-0.0` (`sum::<f32>()` folds from −0.0), which `== 0.0` breaks out of the loop
  first.  The generated code keeps the `unwrap` as an outcome (`GErr.unwrapNone`); the model totalises it.  Without `-0.0 == 0.0` the two
  differ exactly there; `distribute_space_up_to_limits_ok` is the statement without the hypothesis.  Both `Float32` and `Rat` satisfy it.

  The generated step functions are never restated: `loop_spec` / `mapAccum_spec` are congruence lemmas `∀ F, (∀ x, F x = spec x) → …`, applied
  with `F` found by unification; the pointwise goals are closed by rewriting with the vocabulary lemmas below.
-/
import TaffyVerif.Generated.TrackSizing2
import TaffyVerif.Model.FrSize
import TaffyVerif.Lemmas.SliceOps
import TaffyVerif.Props.TieTracks

set_option linter.unusedSectionVars false

namespace TieTracks2
open GridTracks
variable {α : Type} [Num α]

/-! ### the vocabulary of Model/SliceOps2.lean against the model's specialised operations -/

theorem lt_fin_eq (x : α) (e : Ext α) : Slice.Ext.lt (.fin x) e = e.gtF x := by cases e <;> rfl
theorem le_add_eq (x thr : α) (e : Ext α) : Slice.Ext.le (.fin x) (Slice.Ext.add e (.fin thr)) = (e.addF thr).geF x := by
  cases e <;> rfl
theorem divF_subF_eq (e : Ext α) (x p : α) : Slice.Ext.divF (Slice.Ext.subF e x) p = e.subDiv x p := by cases e <;> rfl
theorem minF_eq (e : Ext α) (x : α) : Slice.Ext.minF e x = e.minF x := by cases e <;> rfl
theorem minStep_eq : Slice.Ext.minStep (α := α) = extStep := by
  funext a b; cases a <;> cases b <;> rfl
theorem minByTotalCmp_eq (l : List (Ext α)) : Slice.Ext.minByTotalCmp l = extMinList l := by
  cases l with
  | nil => rfl
  | cons x rest => simp only [Slice.Ext.minByTotalCmp, extMinList, minStep_eq]

theorem filter_filter' {β : Type} (p q : β → Bool) (l : List β) :
    List.filter q (List.filter p l) = List.filter (fun a => p a && q a) l := by
  rw [List.filter_filter]; congr 1; funext a; exact Bool.and_comm _ _

theorem extMinList_eq_none (l : List (Ext α)) : extMinList l = none ↔ l = [] := by
  cases l <;> simp [extMinList]

/-! ### the `for track in tracks.iter_mut().filter(is_affected)` loop of one `while` iteration -/

/-- the body of the loop on one track: the new `(space_to_distribute, track)` -/
def applyStep (iterInc : α) (aff : GridTrack α → Bool) (prop ap : GridTrack α → α) (lim : GridTrack α → Ext α)
    (space : α) (t : GridTrack α) : α × GridTrack α :=
  if aff t then
    if Num.flt 0 (iterInc * prop t) && ((lim t).gtF (ap t + t.itemIncurredIncrease) &&
        ((lim t).addF thresholdDist).geF (ap t + iterInc * prop t)) then
      (space - iterInc * prop t, { t with itemIncurredIncrease := t.itemIncurredIncrease + iterInc * prop t })
    else (space, t)
  else (space, t)

theorem mapAccum_spec (iterInc : α) (aff : GridTrack α → Bool) (prop ap : GridTrack α → α) (lim : GridTrack α → Ext α)
    (G : α → GridTrack α → α × GridTrack α) (hG : ∀ s t, G s t = applyStep iterInc aff prop ap lim s t)
    (tracks : List (GridTrack α)) : ∀ space,
    Slice.mapAccum G space tracks =
      ((distributeApply iterInc aff prop ap lim tracks space).2, (distributeApply iterInc aff prop ap lim tracks space).1) := by
  have : G = applyStep iterInc aff prop ap lim := funext fun s => funext fun t => hG s t
  subst this
  induction tracks with
  | nil => intro space; rfl
  | cons t rest ih =>
    intro space
    simp only [Slice.mapAccum, distributeApply, applyStep]
    by_cases ha : aff t = true
    · simp only [ha, ↓reduceIte]
      split
      · simp only [ih]
      · simp only [ih]
    · simp only [ha, Bool.false_eq_true, ↓reduceIte, ih]

/-! ### the `while` loop -/

/-- one iteration of the `while` on the state `(tracks, space_to_distribute)`: the new state and whether the loop is left -/
def whileStep (aff : GridTrack α → Bool) (prop ap : GridTrack α → α) (lim : GridTrack α → Ext α)
    (s : List (GridTrack α) × α) : Except GErr ((List (GridTrack α) × α) × Bool) :=
  if Num.flt thresholdDist s.2 then
    let growable := s.1.filter fun t => (lim t).gtF (ap t + t.itemIncurredIncrease) && aff t
    if Num.feq (sumF (growable.map prop)) 0 then .ok (s, true)
    else
      match extMinList (growable.map fun t => (lim t).subDiv (ap t) (prop t)) with
      | none => .error .unwrapNone
      | some m =>
        let r := distributeApply (m.minF (s.2 / sumF (growable.map prop))) aff prop ap lim s.1 s.2
        .ok ((r.1, r.2), false)
  else .ok (s, true)

/-- the generated loop against the model's recursion; `hz`: `-0.0 == 0.0` -/
theorem loop_spec (hz : Num.feq (-(0 : α)) 0 = true) (aff : GridTrack α → Bool) (prop ap : GridTrack α → α)
    (lim : GridTrack α → Ext α) (F : List (GridTrack α) × α → Except GErr ((List (GridTrack α) × α) × Bool))
    (hF : ∀ s, F s = whileStep aff prop ap lim s) (n : Nat) : ∀ s,
    Slice.loopM n s F =
      .ok ((distributeSpaceUpToLimits n s.2 s.1 aff prop ap lim).2, (distributeSpaceUpToLimits n s.2 s.1 aff prop ap lim).1) := by
  have : F = whileStep aff prop ap lim := funext hF
  subst this
  induction n with
  | zero => intro s; rfl
  | succ n ih =>
    intro s
    obtain ⟨tracks, space⟩ := s
    unfold Slice.loopM distributeSpaceUpToLimits whileStep
    by_cases hc : Num.flt thresholdDist space = true
    · simp only [hc, ↓reduceIte, Bool.not_true, Bool.false_eq_true]
      by_cases hs : Num.feq (sumF (List.map prop (List.filter
          (fun t => (lim t).gtF (ap t + t.itemIncurredIncrease) && aff t) tracks))) 0 = true
      · simp only [hs, ↓reduceIte]; rfl
      · simp only [hs, Bool.false_eq_true, ↓reduceIte]
        cases hm : extMinList (List.map (fun t => (lim t).subDiv (ap t) (prop t)) (List.filter
            (fun t => (lim t).gtF (ap t + t.itemIncurredIncrease) && aff t) tracks)) with
        | none =>
          exfalso
          rw [extMinList_eq_none, List.map_eq_nil_iff] at hm
          rw [hm] at hs
          exact hs hz
        | some m =>
          simp only [Slice.bind_ok, Bool.false_eq_true, ↓reduceIte]
          exact ih _
    · simp only [hc, Bool.false_eq_true, ↓reduceIte, Bool.not_false]
      rfl

/-- the generated step function of the `while` IS `whileStep` (the model's iteration with the `unwrap` kept as an outcome) -/
theorem distribute_space_up_to_limits_loop (space : α) (tracks : List (GridTrack α))
    (aff : GridTrack α → Bool) (prop ap : GridTrack α → α) (lim : GridTrack α → Ext α) :
    Gen.TrackSizing.distribute_space_up_to_limits space tracks aff prop ap lim =
      Slice.loopM (distFuel tracks.length) (tracks, space) (whileStep aff prop ap lim) := by
  unfold Gen.TrackSizing.distribute_space_up_to_limits
  simp only []
  congr 1
  funext s
  obtain ⟨tracks, space⟩ := s
  have hgt : ∀ x y : α, Num.fgt x y = Num.flt y x := fun _ _ => rfl
  have hthr : (Num.ofNat 1 / Num.ofNat 100 : α) = thresholdDist := rfl
  simp only [whileStep, filter_filter', lt_fin_eq, Slice.sumF32_eq_sumF, minByTotalCmp_eq, divF_subF_eq, minF_eq, le_add_eq,
    hgt, hthr]
  by_cases hc : Num.flt thresholdDist space = true
  · rw [if_pos hc, if_pos hc]
    split
    · rfl
    · split
      · next hm => simp only [hm]; rfl
      · next m hm =>
        simp only [hm, Slice.unwrap_some, Slice.bind_ok]
        rw [mapAccum_spec (m.minF _) aff prop ap lim]
        · rfl
        · intro s t
          simp only [applyStep]
          by_cases ha : aff t = true
          · simp only [ha, ↓reduceIte, Bool.and_assoc]
          · simp only [ha, Bool.false_eq_true, ↓reduceIte]
  · rw [if_neg hc, if_neg hc]
    rfl

/-- **`distribute_space_up_to_limits`** = `distributeSpaceUpToLimits` under the fuel every caller of the model passes
(`distFuel tracks.length`); the generated function returns the updated tracks first, then the space left over -/
theorem distribute_space_up_to_limits_eq (hz : Num.feq (-(0 : α)) 0 = true) (space : α) (tracks : List (GridTrack α))
    (aff : GridTrack α → Bool) (prop ap : GridTrack α → α) (lim : GridTrack α → Ext α) :
    Gen.TrackSizing.distribute_space_up_to_limits space tracks aff prop ap lim =
      .ok ((distributeSpaceUpToLimits (distFuel tracks.length) space tracks aff prop ap lim).2,
           (distributeSpaceUpToLimits (distFuel tracks.length) space tracks aff prop ap lim).1) := by
  rw [distribute_space_up_to_limits_loop]
  exact loop_spec hz aff prop ap lim _ (fun _ => rfl) _ _

/-- `-0.0 == 0.0` at ℚ (at `Float32` it is IEEE) -/
theorem rat_neg_zero : Num.feq (-(0 : Rat)) 0 = true := by decide

/-- 100 to distribute over a track limited to 30 and an unlimited one, both of base size 0: first round 30 each (the smaller limit), second
round the remaining 40 to the unlimited track; nothing is left (exact arithmetic) -/
example : Gen.TrackSizing.distribute_space_up_to_limits (α := Rat) 100
    [{ GridTrack.new ⟨.auto, .length 30⟩ with baseSize := 0, growthLimit := .fin 30 },
     { GridTrack.new ⟨.auto, .auto⟩ with baseSize := 0, growthLimit := .inf }]
    (fun _ => true) (fun _ => 1) (·.baseSize) (·.growthLimit) =
    .ok ([{ GridTrack.new ⟨.auto, .length 30⟩ with baseSize := 0, growthLimit := .fin 30, itemIncurredIncrease := 30 },
          { GridTrack.new ⟨.auto, .auto⟩ with baseSize := 0, growthLimit := .inf, itemIncurredIncrease := 70 }], 0) := by
  rw [distribute_space_up_to_limits_eq rat_neg_zero]
  congr 1
  decide +kernel

/-! ### without `-0.0 == 0.0`: whatever the generated function answers is the model's answer -/

theorem loop_spec_ok (aff : GridTrack α → Bool) (prop ap : GridTrack α → α)
    (lim : GridTrack α → Ext α) (F : List (GridTrack α) × α → Except GErr ((List (GridTrack α) × α) × Bool))
    (hF : ∀ s, F s = whileStep aff prop ap lim s) (n : Nat) : ∀ s r, Slice.loopM n s F = .ok r →
    r = ((distributeSpaceUpToLimits n s.2 s.1 aff prop ap lim).2, (distributeSpaceUpToLimits n s.2 s.1 aff prop ap lim).1) := by
  have : F = whileStep aff prop ap lim := funext hF
  subst this
  induction n with
  | zero => intro s r h; cases h; rfl
  | succ n ih =>
    intro s r
    obtain ⟨tracks, space⟩ := s
    unfold Slice.loopM distributeSpaceUpToLimits whileStep
    by_cases hc : Num.flt thresholdDist space = true
    · simp only [hc, ↓reduceIte, Bool.not_true, Bool.false_eq_true]
      by_cases hs : Num.feq (sumF (List.map prop (List.filter
          (fun t => (lim t).gtF (ap t + t.itemIncurredIncrease) && aff t) tracks))) 0 = true
      · simp only [hs, ↓reduceIte]; intro h; cases h; rfl
      · simp only [hs, Bool.false_eq_true, ↓reduceIte]
        cases hm : extMinList (List.map (fun t => (lim t).subDiv (ap t) (prop t)) (List.filter
            (fun t => (lim t).gtF (ap t + t.itemIncurredIncrease) && aff t) tracks)) with
        | none => intro h; cases h
        | some m =>
          simp only [Slice.bind_ok, Bool.false_eq_true, ↓reduceIte]
          exact ih _ r
    · simp only [hc, Bool.false_eq_true, ↓reduceIte, Bool.not_false]
      intro h; cases h; rfl

/-- for EVERY `[Num α]`: an answer of the generated function is the model's answer (the only other outcome is the `unwrap`, which
`distribute_space_up_to_limits_eq` excludes when `-0.0 == 0.0`) -/
theorem distribute_space_up_to_limits_ok (space : α) (tracks : List (GridTrack α))
    (aff : GridTrack α → Bool) (prop ap : GridTrack α → α) (lim : GridTrack α → Ext α) (r : List (GridTrack α) × α)
    (h : Gen.TrackSizing.distribute_space_up_to_limits space tracks aff prop ap lim = .ok r) :
    r = ((distributeSpaceUpToLimits (distFuel tracks.length) space tracks aff prop ap lim).2,
         (distributeSpaceUpToLimits (distFuel tracks.length) space tracks aff prop ap lim).1) := by
  rw [distribute_space_up_to_limits_loop] at h
  exact loop_spec_ok aff prop ap lim _ (fun _ => rfl) _ _ r h

/-! ### `distribute_item_space_to_base_size` -/

/-- the source's `IntrinsicContributionType` (generated from the enum) as the model's -/
def ctOf : Gen.TrackSizing.IntrinsicContributionType → ContributionType
  | .Minimum => .minimum
  | .Maximum => .maximum

theorem finish_base_map (G : GridTrack α → GridTrack α) (hG : ∀ t, G t = finishBaseDistribution t) (l : List (GridTrack α)) :
    List.map G l = List.map finishBaseDistribution l := by
  have : G = finishBaseDistribution := funext hG
  rw [this]

theorem dist_length (n : Nat) (aff : GridTrack α → Bool) (prop ap : GridTrack α → α) (lim : GridTrack α → Ext α) :
    ∀ (space : α) (tracks : List (GridTrack α)),
      (distributeSpaceUpToLimits n space tracks aff prop ap lim).2.length = tracks.length := by
  have happ : ∀ (i : α) (l : List (GridTrack α)) (s : α), (distributeApply i aff prop ap lim l s).1.length = l.length := by
    intro i l
    induction l with
    | nil => intro s; rfl
    | cons t rest ih =>
      intro s
      unfold distributeApply
      by_cases ha : aff t = true
      · by_cases hc : (Num.flt 0 (i * prop t) && ((lim t).gtF (ap t + t.itemIncurredIncrease) &&
            ((lim t).addF thresholdDist).geF (ap t + i * prop t))) = true
        · simp only [ha, hc, ↓reduceIte, List.length_cons, ih]
        · simp only [ha, hc, ↓reduceIte, List.length_cons, ih, Bool.false_eq_true]
      · simp only [ha, Bool.false_eq_true, ↓reduceIte, List.length_cons, ih]
  induction n with
  | zero => intro space tracks; rfl
  | succ n ih =>
    intro space tracks
    unfold distributeSpaceUpToLimits
    split
    · rfl
    · simp only []
      split
      · rfl
      · split
        · rfl
        · rw [ih, happ]

/-- the nested `distribute_item_space_to_base_size_inner` -/
theorem distribute_item_space_to_base_size_inner_eq (hz : Num.feq (-(0 : α)) 0 = true) (space : α) (tracks : List (GridTrack α))
    (aff : GridTrack α → Bool) (prop : GridTrack α → α) (lim : GridTrack α → Ext α)
    (ty : Gen.TrackSizing.IntrinsicContributionType) :
    Gen.TrackSizing.distribute_item_space_to_base_size.distribute_item_space_to_base_size_inner space tracks aff prop lim ty =
      .ok (distributeItemSpaceToBaseSizeInner space tracks aff prop lim (ctOf ty)) := by
  unfold Gen.TrackSizing.distribute_item_space_to_base_size.distribute_item_space_to_base_size_inner
    distributeItemSpaceToBaseSizeInner
  by_cases h0 : (Num.feq space 0 || !List.any tracks aff) = true
  · simp only [h0, ↓reduceIte]; rfl
  simp only [h0, Bool.false_eq_true, ↓reduceIte]
  have hgt : ∀ x y : α, Num.fgt x y = Num.flt y x := fun _ _ => rfl
  have hthr : (Num.ofNat 1 / Num.ofNat 1000000 : α) = thresholdItem := rfl
  simp only [distribute_space_up_to_limits_eq hz, Slice.bind_ok, Slice.sumF32_eq_sumF, TieLayout.f32_max_eq, hgt, hthr,
    filter_filter', dist_length]
  have hfin : ∀ l : List (GridTrack α), List.map (fun track =>
      { (if Num.flt track.baseSizePlannedIncrease track.itemIncurredIncrease = true then
          { track with baseSizePlannedIncrease := track.itemIncurredIncrease } else track) with itemIncurredIncrease := 0 }) l =
      List.map finishBaseDistribution l := fun l => finish_base_map _ (fun t => rfl) l
  split
  · simp only [Slice.bind_ok, Slice.pure_eq_ok, hfin]
    cases ty
    · simp only [ctOf, TieTrackFns.max_is_intrinsic_eq]
      rfl
    · simp only [ctOf, TieTrackFns.min_is_max_content_eq, TieTrackFns.max_is_max_or_fit_content_eq]
      rfl
  · simp only [Slice.bind_ok, Slice.pure_eq_ok, hfin]

/-- **`distribute_item_space_to_base_size`** (the three call shapes of the nested function, the closures built at the call sites) -/
theorem distribute_item_space_to_base_size_eq (hz : Num.feq (-(0 : α)) 0 = true) (isFlex useFF : Bool) (space : α)
    (tracks : List (GridTrack α)) (aff : GridTrack α → Bool) (lim : GridTrack α → Ext α)
    (ty : Gen.TrackSizing.IntrinsicContributionType) :
    Gen.TrackSizing.distribute_item_space_to_base_size isFlex useFF space tracks aff lim ty =
      .ok (distributeItemSpaceToBaseSize isFlex useFF space tracks aff lim (ctOf ty)) := by
  unfold Gen.TrackSizing.distribute_item_space_to_base_size distributeItemSpaceToBaseSize
  cases isFlex <;> cases useFF <;>
    simp only [distribute_item_space_to_base_size_inner_eq hz, TieTrackFns.is_flexible_eq, TieTrackFns.flex_factor_eq,
      Bool.false_eq_true, ↓reduceIte]

/-- an item's 100 of space on two `auto` tracks of base size 0 and growth limit 20 / ∞: distributed to base sizes up to the limits
(20 + 80), planned as base-size increases (exact arithmetic) -/
example : Gen.TrackSizing.distribute_item_space_to_base_size (α := Rat) false false 100
    [{ GridTrack.new ⟨.auto, .auto⟩ with growthLimit := .fin 20 }, { GridTrack.new ⟨.auto, .auto⟩ with growthLimit := .inf }]
    (fun _ => true) (·.growthLimit) .Minimum =
    .ok [{ GridTrack.new ⟨.auto, .auto⟩ with growthLimit := .fin 20, baseSizePlannedIncrease := 20 },
         { GridTrack.new ⟨.auto, .auto⟩ with growthLimit := .inf, baseSizePlannedIncrease := 80 }] := by
  rw [distribute_item_space_to_base_size_eq rat_neg_zero]
  congr 1
  decide +kernel

/-! ### `distribute_item_space_to_growth_limit` -/

theorem finiteOr_eq (t : GridTrack α) : Slice.Ext.finiteOr t.growthLimit t.baseSize = t.growthLimitOrBase := by
  unfold GridTrack.growthLimitOrBase; cases t.growthLimit <;> rfl
theorem feq_inf_eq (e : Ext α) : Slice.Ext.feq e Ext.inf = e.isInf := by cases e <;> rfl

theorem finish_growth_map (G : GridTrack α → GridTrack α) (hG : ∀ t, G t = finishGrowthDistribution t) (l : List (GridTrack α)) :
    List.map G l = List.map finishGrowthDistribution l := by
  have : G = finishGrowthDistribution := funext hG
  rw [this]

/-- **`distribute_item_space_to_growth_limit`** -/
theorem distribute_item_space_to_growth_limit_eq (hz : Num.feq (-(0 : α)) 0 = true) (space : α) (tracks : List (GridTrack α))
    (aff : GridTrack α → Bool) (axisInner : Option α) :
    Gen.TrackSizing.distribute_item_space_to_growth_limit space tracks aff axisInner =
      .ok (distributeItemSpaceToGrowthLimit space tracks aff axisInner) := by
  unfold Gen.TrackSizing.distribute_item_space_to_growth_limit distributeItemSpaceToGrowthLimit
  by_cases h0 : (Num.feq space 0 || (List.filter aff tracks).length == 0) = true
  · simp only [h0, ↓reduceIte]; rfl
  have hgt : ∀ x y : α, Num.fgt x y = Num.flt y x := fun _ _ => rfl
  have hfin : ∀ l : List (GridTrack α), List.map (fun track =>
      { (if Num.flt track.growthLimitPlannedIncrease track.itemIncurredIncrease = true then
          { track with growthLimitPlannedIncrease := track.itemIncurredIncrease } else track) with itemIncurredIncrease := 0 }) l =
      List.map finishGrowthDistribution l := fun l => finish_growth_map _ (fun t => rfl) l
  simp only [h0, Bool.false_eq_true, ↓reduceIte, distribute_space_up_to_limits_eq hz, Slice.bind_ok, Slice.sumF32_eq_sumF,
    TieLayout.f32_max_eq, hgt, filter_filter', finiteOr_eq, feq_inf_eq, TieTracks.fit_content_limited_growth_limit_eq,
    TieTracks.fit_content_limit_eq, hfin]
  split
  · simp only [Slice.bind_ok, Slice.pure_eq_ok, hfin, decide_eq_true_eq] at *
    simp only [*, ↓reduceIte]
  · simp only [Slice.bind_ok, Slice.pure_eq_ok, hfin, decide_eq_true_eq] at *
    simp only [*, ↓reduceIte]

/-! ### `maximise_tracks` -/

theorem mapM_growth_limit (G : GridTrack α → Except GErr (GridTrack α))
    (hG : ∀ t, G t = (Slice.Ext.toFinite t.growthLimit >>= fun v => pure { t with baseSize := v }))
    (l : List (GridTrack α)) (h : ∀ t ∈ l, t.growthLimit ≠ Ext.inf) :
    List.mapM G l = .ok (l.map fun t => { t with baseSize := t.growthLimitOrBase }) := by
  have : G = fun t => (Slice.Ext.toFinite t.growthLimit >>= fun v => pure { t with baseSize := v }) := funext hG
  subst this
  induction l with
  | nil => rfl
  | cons t rest ih =>
    have ht := h t (List.mem_cons_self)
    have hr := ih (fun x hx => h x (List.mem_cons_of_mem _ hx))
    rw [List.mapM_cons, hr]
    cases hg : t.growthLimit with
    | inf => exact absurd hg ht
    | fin g => simp [Slice.Ext.toFinite, GridTrack.growthLimitOrBase, hg]

/-- **`maximise_tracks`**: for every `[Num α]` with `-0.0 == 0.0` and `¬ 0.0 < 0.0`, and — under a max-content constraint, where the source
stores the growth limits into the base sizes — finite growth limits (what `resolve_intrinsic_track_sizes` leaves; the generated code
keeps the demand as the outcome of `Slice.Ext.toFinite`, the model writes `growthLimitOrBase`) -/
theorem maximise_tracks_eq (hz : Num.feq (-(0 : α)) 0 = true) (hlt : Num.flt (0 : α) 0 = false) (tracks : List (GridTrack α))
    (axisInner : Option α) (avail : AvailableSpace α)
    (hfinite : avail = .maxContent → ∀ t ∈ tracks, t.growthLimit ≠ Ext.inf) :
    Gen.TrackSizing.maximise_tracks tracks axisInner avail = .ok (maximiseTracks tracks axisInner avail) := by
  unfold Gen.TrackSizing.maximise_tracks maximiseTracks
  simp only [TieTracks.compute_free_space_eq, Slice.sumF32_eq_sumF]
  cases avail with
  | maxContent =>
    simp only [Slice.Ext.feq, ↓reduceIte]
    exact mapM_growth_limit _ (fun t => rfl) tracks (hfinite rfl)
  | minContent =>
    simp only [Slice.Ext.feq, Slice.Ext.lt, hlt, Bool.false_eq_true, ↓reduceIte]
    rfl
  | definite a =>
    simp only [Slice.Ext.feq, Slice.Ext.lt, Bool.false_eq_true, ↓reduceIte]
    by_cases hf : Num.flt 0 (a - sumF (List.map (fun (track : GridTrack α) => track.baseSize) tracks)) = true
    · simp only [hf, ↓reduceIte, Slice.Ext.toFinite, Slice.bind_ok, distribute_space_up_to_limits_eq hz,
        TieTracks.fit_content_limited_growth_limit_eq, Slice.pure_eq_ok]
    · simp only [hf, Bool.false_eq_true, ↓reduceIte]
      rfl

theorem rat_zero_not_lt : Num.flt (0 : Rat) 0 = false := by decide

/-- 50 of free space on two tracks of base size 10 with growth limits 20 and 100: the first is filled to its limit, the second takes the rest -/
example : Gen.TrackSizing.maximise_tracks (α := Rat)
    [{ GridTrack.new ⟨.auto, .auto⟩ with baseSize := 10, growthLimit := .fin 20 },
     { GridTrack.new ⟨.auto, .auto⟩ with baseSize := 10, growthLimit := .fin 100 }] none (.definite 70) =
    .ok [{ GridTrack.new ⟨.auto, .auto⟩ with baseSize := 20, growthLimit := .fin 20 },
         { GridTrack.new ⟨.auto, .auto⟩ with baseSize := 50, growthLimit := .fin 100 }] := by
  rw [maximise_tracks_eq rat_neg_zero rat_zero_not_lt _ _ _ (by intro h; cases h)]
  congr 1
  decide +kernel

end TieTracks2
