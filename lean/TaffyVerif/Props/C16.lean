/-
  C16 — Layout cost stays near-linear: within one pass a node's algorithm body is evaluated at most once per distinct
  stored key; for single-child chains the number of leaf measure calls does not grow with depth.

  Instrumentation.  `C16.logged ci` (Lemmas/EvalCost.lean) wraps any cache implementation `ci` of the tree-level
  evaluator `Eval.evalNodeWith` (Model/Eval.lean) and records per node every `store` (`some key`) and every `clear`
  (`none`).  `evalNodeWith` executes `store` exactly once per evaluation of a node's body — i.e. on every cache miss
  outside hidden run mode, in each of the four arms hidden / program / leaf / stuck (`EvalMemo.evalNodeWith_succ`) —
  and nowhere else (`root_log_step` below states this for one evaluation step).  Hence
      `evals log` (number of `some` entries)   = number of body evaluations of the node,
  and for a node whose dispatch is the leaf arm it is the number of `algs.leaf` invocations = measure-function calls.
  `eval_erase`: erasing the logs gives back exactly the uninstrumented evaluator (same outputs, same states).

  All theorems: every `α` with `[Num α]`, every dispatch `sel`, every `algs`, every tree, every fuel.
-/
import TaffyVerif.Lemmas.EvalCost

set_option linter.unusedSectionVars false
set_option linter.unusedVariables false

namespace C16
open Eval EvalMemo Gen.Facts
variable {α : Type} [Num α]

/-! ### 1. the instrumentation is faithful -/

theorem logged_sim {C : Type} (ci : CacheImpl α C) : Sim (logged ci) ci Prod.fst where
  get _ _ := rfl
  store _ _ _ := rfl
  clear _ := rfl

/-- **eval_erase**: the logging wrapper does not change the evaluation: same output, and erasing the logs from the
resulting state gives the state the plain evaluator produces from the erased start state -/
theorem eval_erase {C : Type} (ci : CacheImpl α C) (sel : Display → Bool → Option Callee) (algs : Algs α)
    (fuel : Nat) (t : STree α) (ns : NS α (C × List (Option (LayoutInput α)))) (inp : LayoutInput α) :
    (evalNodeWith (logged ci) sel algs fuel t ns inp).1 =
      (evalNodeWith ci sel algs fuel t (mapCache Prod.fst ns) inp).1 ∧
    mapCache Prod.fst (evalNodeWith (logged ci) sel algs fuel t ns inp).2 =
      (evalNodeWith ci sel algs fuel t (mapCache Prod.fst ns) inp).2 :=
  eval_sim (logged_sim ci) sel algs fuel t ns inp

/-- `eval_erase` from the fresh state -/
theorem eval_erase_init {C : Type} (ci : CacheImpl α C) (sel : Display → Bool → Option Callee) (algs : Algs α)
    (fuel : Nat) (t : STree α) (inp : LayoutInput α) :
    (evalNodeWith (logged ci) sel algs fuel t (NS.init (logged ci) t) inp).1 =
      (evalNodeWith ci sel algs fuel t (NS.init ci t) inp).1 ∧
    mapCache Prod.fst (evalNodeWith (logged ci) sel algs fuel t (NS.init (logged ci) t) inp).2 =
      (evalNodeWith ci sel algs fuel t (NS.init ci t) inp).2 := by
  have h := eval_erase ci sel algs fuel t (NS.init (logged ci) t) inp
  rw [mapCache_init (logged ci) ci Prod.fst rfl t] at h
  exact h

/-- **root_log_step**: what one evaluation does to the log of the evaluated node: hidden run mode logs one `clear`;
a cache hit logs nothing; a miss — the only case in which the node's body (`bodyOf …`) is evaluated — logs exactly one
`store` of the queried input (preceded by a `clear` in the `display:none` arm). -/
theorem root_log_step {C : Type} (ci : CacheImpl α C) (sel : Display → Bool → Option Callee) (algs : Algs α)
    (fuel : Nat) (style : Style α) (ctx : Option (MeasureSpec α)) (kids : List (STree α)) (c : C)
    (log : List (Option (LayoutInput α))) (l : Layout α) (nk : List (NS α (C × List (Option (LayoutInput α)))))
    (inp : LayoutInput α) :
    let r := evalNodeWith (logged ci) sel algs (fuel + 1) (.node style ctx kids) (.mk (c, log) l nk) inp
    (inp.runMode = RunMode.performHiddenLayout ∧ r.2.cache.2 = none :: log) ∨
    (inp.runMode ≠ RunMode.performHiddenLayout ∧ (∃ o, ci.get c inp = some o) ∧ r.2.cache.2 = log) ∨
    (inp.runMode ≠ RunMode.performHiddenLayout ∧ ci.get c inp = none ∧
      ((bodyOf sel algs style kids inp = .hidden ∧ r.2.cache.2 = some inp :: none :: log) ∨
       (bodyOf sel algs style kids inp ≠ .hidden ∧ r.2.cache.2 = some inp :: log))) := by
  intro r
  have hr : r = evalNodeWith (logged ci) sel algs (fuel + 1) (.node style ctx kids) (.mk (c, log) l nk) inp := rfl
  rw [evalNodeWith_succ] at hr
  cases hm : (inp.runMode == RunMode.performHiddenLayout) with
  | true =>
    rw [hm] at hr
    simp only [if_true] at hr
    exact Or.inl ⟨mode_eq_of_beq hm, by rw [hr]; rfl⟩
  | false =>
    rw [hm] at hr
    simp only [Bool.false_eq_true, if_false, logged_get] at hr
    refine Or.inr ?_
    have hne := mode_ne_of_beq hm
    cases hg : ci.get c inp with
    | some out =>
      rw [hg] at hr
      exact Or.inl ⟨hne, ⟨out, rfl⟩, by rw [hr]; rfl⟩
    | none =>
      rw [hg] at hr
      refine Or.inr ⟨hne, rfl, ?_⟩
      cases hb : bodyOf sel algs style kids inp with
      | hidden => rw [hb] at hr; exact Or.inl ⟨rfl, (by rw [hr]; rfl)⟩
      | leaf => rw [hb] at hr; exact Or.inr ⟨(by intro h; cases h), (by rw [hr]; rfl)⟩
      | stuck => rw [hb] at hr; exact Or.inr ⟨(by intro h; cases h), (by rw [hr]; rfl)⟩
      | prog p => rw [hb] at hr; exact Or.inr ⟨(by intro h; cases h), (by rw [hr]; rfl)⟩

/-! ### 2. exact memo: every body evaluation stores a key that was absent -/

section
variable [DecidableEq α]

/-- **logInv_preserved** (invariant preservation): with the exact memo, if at every node the log is consistent with the
memo (`LogInv`: the keys stored since the last `clear` are exactly the memo's keys, and every logged `store` stored a
key absent at that moment), then after any evaluation — any node, any input, any fuel — this still holds at every
node. -/
theorem logInv_preserved (sel : Display → Bool → Option Callee) (algs : Algs α) (fuel : Nat) (t : STree α)
    (ns : NS α (MemoLog α)) (inp : LayoutInput α) (h : AllNodes LogInv ns) :
    AllNodes LogInv (evalNodeWith (logged exactMemo) sel algs fuel t ns inp).2 := by
  have hP : CachePres (logged (exactMemo (α := α))) True LogInv (fun _ => True) :=
    pres_logInv True _ (fun _ _ _ => trivial)
  rw [AllNodes_iff_Inv] at h ⊢
  exact eval_inv (logged exactMemo) sel algs True LogInv (fun _ => True) hP (fun _ _ _ => trivial)
    (AlgsSat_true algs) fuel LogInv (fun _ => True) hP t ns inp trivial h

/-- the fresh state satisfies the invariant -/
theorem logInv_init (t : STree α) : AllNodes LogInv (NS.init (logged (exactMemo (α := α))) t) :=
  AllNodes_init _ _ LogInv_empty t

/-- what `LogInv` says about the counts of one node -/
theorem LogInv_counts (c : MemoLog α) (h : LogInv c) :
    sinceClear c.2 = c.1.map Prod.fst ∧ (c.1.map Prod.fst).Nodup ∧ LogOK c.2 ∧
    (sinceClear c.2).length = c.1.length ∧ (none ∉ c.2 → evals c.2 = c.1.length) := by
  refine ⟨h.1, LogInv_nodup c h, h.2, ?_, ?_⟩
  · rw [h.1, List.length_map]
  · intro hn
    rw [← sinceClear_length_eq_evals c.2 hn, h.1, List.length_map]

/-- **body_evals_le_stores**: fresh state, exact memo, one top-level call.  At every node of the resulting state
(`r.2`, reached by `path`; `r.1` is its style subtree): the keys of body evaluations since the node's last `clear`
are exactly the memo keys and are pairwise distinct — every body evaluation stored a key that was absent (`LogOK` says
this for the whole history of the node, across `clear`s) —; so between two `clear`s the number of body evaluations of a
node = the number of distinct inputs stored = the length of its memo; and if the node was never cleared this is the
total number of its body evaluations. -/
theorem body_evals_le_stores (sel : Display → Bool → Option Callee) (algs : Algs α) (fuel : Nat) (t : STree α)
    (inp : LayoutInput α) (path : List Nat) (r : STree α × NS α (MemoLog α))
    (h : nodeAt path t (evalNodeWith (logged exactMemo) sel algs fuel t (NS.init (logged exactMemo) t) inp).2
      = some r) :
    sinceClear r.2.cache.2 = r.2.cache.1.map Prod.fst ∧ (r.2.cache.1.map Prod.fst).Nodup ∧ LogOK r.2.cache.2 ∧
    (sinceClear r.2.cache.2).length = r.2.cache.1.length ∧
    (none ∉ r.2.cache.2 → evals r.2.cache.2 = r.2.cache.1.length) :=
  LogInv_counts _ (AllNodes_at LogInv path t _ r (logInv_preserved sel algs fuel t _ inp (logInv_init t)) h)

/-- **body_evals_le_queries** (the memo version of the bound, at the level of whole states): from a consistent state,
after any evaluation, at every node the number of body evaluations since the last `clear` equals the number of
distinct keys in the node's memo. -/
theorem body_evals_le_queries (sel : Display → Bool → Option Callee) (algs : Algs α) (fuel : Nat) (t : STree α)
    (ns : NS α (MemoLog α)) (inp : LayoutInput α) (h : AllNodes LogInv ns) :
    AllNodes (fun c => (sinceClear c.2).length = c.1.length ∧ (c.1.map Prod.fst).Nodup)
      (evalNodeWith (logged exactMemo) sel algs fuel t ns inp).2 :=
  AllNodes_mono LogInv _ (fun c hc => ⟨(LogInv_counts c hc).2.2.2.1, (LogInv_counts c hc).2.1⟩) _
    (logInv_preserved sel algs fuel t ns inp h)

end

/-! ### 3. queries per invocation: the compositional bound -/

/-- `CallsAtMost q p`: along every run — for every sequence of answers of the children — the program makes at most `q`
`call`s in total, over all children -/
def CallsAtMost {β : Type} (q : Nat) (p : ProgM α β) : Prop := callsLe q p

theorem AlgsCallsAtMost_iff (q : Nat) (algs : Algs α) : AlgsCallsAtMost q algs ↔
    ∀ style styles inp, CallsAtMost q (algs.block style styles inp) ∧ CallsAtMost q (algs.flex style styles inp) ∧
      CallsAtMost q (algs.grid style styles inp) := Iff.rfl

/-- **logBound_step** (the additive invariant): if every container program makes at most `q` child calls, then — with
any underlying cache, in particular without one — one more call of a node adds at most 1 body evaluation to the node,
`q` to each child, `q²` to each grandchild, … (`LogBound q b`: node ≤ `b`, children ≤ `b·q`, grandchildren ≤ `b·q²` …) -/
theorem logBound_step {C : Type} (ci : CacheImpl α C) (sel : Display → Bool → Option Callee) (algs : Algs α)
    (q : Nat) (hq : AlgsCallsAtMost q algs) (fuel : Nat) (t : STree α)
    (ns : NS α (C × List (Option (LayoutInput α)))) (inp : LayoutInput α) (b : Nat) (h : LogBound q b ns) :
    LogBound q (b + 1) (evalNodeWith (logged ci) sel algs fuel t ns inp).2 :=
  eval_logBound ci sel algs q hq fuel t ns inp b h

/-- a sequence of top-level calls on the same node -/
def evalMany {C : Type} (ci : CacheImpl α C) (sel : Display → Bool → Option Callee) (algs : Algs α) (fuel : Nat)
    (t : STree α) : NS α C → List (LayoutInput α) → NS α C
  | ns, [] => ns
  | ns, i :: is => evalMany ci sel algs fuel t (evalNodeWith ci sel algs fuel t ns i).2 is

/-- `N` top-level calls add at most `N · q^k` body evaluations to a node at depth `k` -/
theorem logBound_many {C : Type} (ci : CacheImpl α C) (sel : Display → Bool → Option Callee) (algs : Algs α)
    (q : Nat) (hq : AlgsCallsAtMost q algs) (fuel : Nat) (t : STree α) (inps : List (LayoutInput α)) :
    ∀ (ns : NS α (C × List (Option (LayoutInput α)))) (b : Nat), LogBound q b ns →
      LogBound q (b + inps.length) (evalMany (logged ci) sel algs fuel t ns inps) := by
  induction inps with
  | nil => intro ns b h; exact h
  | cons i is ih =>
    intro ns b h
    simp only [evalMany, List.length_cons]
    have e : b + (is.length + 1) = b + 1 + is.length := by omega
    rw [e]
    exact ih _ (b + 1) (logBound_step ci sel algs q hq fuel t ns i b h)

/-- **leaf_calls_le_pow**: if every container program makes at most `q` child calls per run, then from a fresh state,
after one top-level call, with any cache `ci`, a node at depth `k = path.length` below the root (root: `k = 0`) has at
most `q ^ k` body evaluations in its log; if the node is a leaf, that is the number of its measure calls. -/
theorem leaf_calls_le_pow {C : Type} (ci : CacheImpl α C) (sel : Display → Bool → Option Callee) (algs : Algs α)
    (q : Nat) (hq : AlgsCallsAtMost q algs) (fuel : Nat) (t : STree α) (inp : LayoutInput α) (path : List Nat)
    (r : STree α × NS α (C × List (Option (LayoutInput α))))
    (h : nodeAt path t (evalNodeWith (logged ci) sel algs fuel t (NS.init (logged ci) t) inp).2 = some r) :
    evals r.2.cache.2 ≤ q ^ path.length := by
  have h0 : LogBound q 0 (NS.init (logged ci) t) := LogBound_init ci q t 0
  have h1 := logBound_step ci sel algs q hq fuel t _ inp 0 h0
  have := LogBound_at q path t _ r (0 + 1) h1 h
  simpa using this

/-- the cache-free pass, as asked: `logged noCache`, and the bound in terms of the depth of the whole tree:
every node — in particular every leaf — is evaluated at most `q ^ (depth t - 1)` times (for `q ≥ 1`) -/
theorem leaf_calls_le_pow_depth (sel : Display → Bool → Option Callee) (algs : Algs α)
    (q : Nat) (hq1 : 1 ≤ q) (hq : AlgsCallsAtMost q algs) (fuel : Nat) (t : STree α) (inp : LayoutInput α)
    (path : List Nat) (r : STree α × NS α (Unit × List (Option (LayoutInput α))))
    (h : nodeAt path t (evalNodeWith (logged noCache) sel algs fuel t (NS.init (logged noCache) t) inp).2 = some r) :
    evals r.2.cache.2 ≤ q ^ path.length ∧ evals r.2.cache.2 ≤ q ^ (STree.depth t - 1) := by
  have h1 := leaf_calls_le_pow noCache sel algs q hq fuel t inp path r h
  refine ⟨h1, Nat.le_trans h1 (Nat.pow_le_pow_right hq1 ?_)⟩
  have h2 := nodeAt_depth path t _ r h
  have h3 : 1 ≤ STree.depth r.1 := by cases r.1; simp [STree.depth]
  omega

/-! ### 4. depth-independent bound with the exact memo -/

section
variable [DecidableEq α]

/-- `CallsWithin Ks p`: every `call` input of every run of `p` is a member of `Ks` -/
def CallsWithin {β : Type} (Ks : List (LayoutInput α)) (p : ProgM α β) : Prop := CallsSat (fun i => i ∈ Ks) p

/-- every container program queries its children only with inputs from the fixed list `Ks`, whatever its own input -/
def AlgsCallsWithin (Ks : List (LayoutInput α)) (algs : Algs α) : Prop := AlgsSat (fun i => i ∈ Ks) algs

theorem AlgsCallsWithin_iff (Ks : List (LayoutInput α)) (algs : Algs α) : AlgsCallsWithin Ks algs ↔
    ∀ style styles inp, CallsWithin Ks (algs.block style styles inp) ∧ CallsWithin Ks (algs.flex style styles inp) ∧
      CallsWithin Ks (algs.grid style styles inp) := Iff.rfl

/-- **keysIn_preserved**: consistent logs everywhere and memo keys within `Ks` everywhere below the evaluated node are
preserved by every evaluation of that node, with any input -/
theorem keysIn_preserved (sel : Display → Bool → Option Callee) (algs : Algs α) (Ks : List (LayoutInput α))
    (hK : AlgsCallsWithin Ks algs) (fuel : Nat) (t : STree α) (ns : NS α (MemoLog α)) (inp : LayoutInput α)
    (h : Inv LogInv (fun c => LogInv c ∧ KeysIn Ks c) ns) :
    Inv LogInv (fun c => LogInv c ∧ KeysIn Ks c) (evalNodeWith (logged exactMemo) sel algs fuel t ns inp).2 := by
  have hP : CachePres (logged (exactMemo (α := α))) True (fun c => LogInv c ∧ KeysIn Ks c) (fun i => i ∈ Ks) :=
    (pres_logInv True _ (fun _ _ _ => trivial)).and (pres_keysIn Ks True _ (fun _ h => h) (fun _ _ _ => trivial))
  have hP0 : CachePres (logged (exactMemo (α := α))) True LogInv (fun _ => True) :=
    pres_logInv True _ (fun _ _ _ => trivial)
  exact eval_inv (logged exactMemo) sel algs True _ _ hP (fun _ _ _ => trivial) hK fuel LogInv (fun _ => True) hP0
    t ns inp trivial h

theorem keysIn_init (Ks : List (LayoutInput α)) (t : STree α) :
    Inv LogInv (fun c => LogInv c ∧ KeysIn Ks c) (NS.init (logged (exactMemo (α := α))) t) := by
  have : AllNodes (fun c => LogInv c ∧ KeysIn Ks c) (NS.init (logged (exactMemo (α := α))) t) :=
    AllNodes_init _ _ ⟨LogInv_empty, by intro k hk; cases hk⟩ t
  cases t with
  | node style ctx kids =>
    simp only [NS.init, AllNodes, Inv] at this ⊢
    exact ⟨this.1.1, this.2⟩

/-- **chain_const**: if every container program queries its children only with inputs from a fixed list `Ks` (not
depending on the program's own input), then with the exact memo, from a fresh state, after one top-level call, EVERY
node below the root — at whatever depth, in a tree of whatever shape, in particular the leaf at the bottom of a
single-child chain — has a memo of at most `Ks.length` entries and at most `Ks.length` body evaluations since its last
`clear`.  The bound does not mention the depth. -/
theorem chain_const (sel : Display → Bool → Option Callee) (algs : Algs α) (Ks : List (LayoutInput α))
    (hK : AlgsCallsWithin Ks algs) (fuel : Nat) (t : STree α) (inp : LayoutInput α) (path : List Nat)
    (r : STree α × NS α (MemoLog α)) (hp : path ≠ [])
    (h : nodeAt path t (evalNodeWith (logged exactMemo) sel algs fuel t (NS.init (logged exactMemo) t) inp).2
      = some r) :
    r.2.cache.1.length ≤ Ks.length ∧ (sinceClear r.2.cache.2).length ≤ Ks.length := by
  have hv := keysIn_preserved sel algs Ks hK fuel t _ inp (keysIn_init Ks t)
  have hc := Inv_at _ _ path t _ r hv h hp
  have h1 := LogInv_keysIn_length Ks r.2.cache hc.1 hc.2
  refine ⟨?_, h1⟩
  rw [← (LogInv_counts _ hc.1).2.2.2.1]; exact h1

/-- **chain_const_total**: if moreover no hidden layout can happen in the pass (the dispatch never selects the
`display:none` arm, no input of `Ks` and not the top-level input is in hidden run mode), then no node is ever cleared
and the TOTAL number of body evaluations of every node below the root is at most `Ks.length`, independent of depth;
for a leaf this is the number of measure calls. -/
theorem chain_const_total (sel : Display → Bool → Option Callee) (algs : Algs α) (Ks : List (LayoutInput α))
    (hK : AlgsCallsWithin Ks algs) (hKs : ∀ k, k ∈ Ks → k.runMode ≠ RunMode.performHiddenLayout)
    (hsel : ∀ d b, sel d b ≠ some Callee.hidden) (fuel : Nat) (t : STree α) (inp : LayoutInput α)
    (hinp : inp.runMode ≠ RunMode.performHiddenLayout) (path : List Nat)
    (r : STree α × NS α (MemoLog α)) (hp : path ≠ [])
    (h : nodeAt path t (evalNodeWith (logged exactMemo) sel algs fuel t (NS.init (logged exactMemo) t) inp).2
      = some r) :
    evals r.2.cache.2 ≤ Ks.length := by
  -- invariants with `H = False`: no `clear` ever happens
  have hI : ∀ i, (i ∈ Ks) → i.runMode = RunMode.performHiddenLayout → False := fun i hi hm => hKs i hi hm
  have hP : CachePres (logged (exactMemo (α := α))) False (fun c => (LogInv c ∧ KeysIn Ks c) ∧ NoClear c)
      (fun i => i ∈ Ks) :=
    ((pres_logInv False _ hI).and (pres_keysIn Ks False _ (fun _ h => h) hI)).and (pres_noClear _ _ hKs)
  have hP0 : CachePres (logged (exactMemo (α := α))) False (fun c => LogInv c ∧ NoClear c)
      (fun i => i.runMode ≠ RunMode.performHiddenLayout) :=
    (pres_logInv False _ (fun _ hi hm => hi hm)).and (pres_noClear _ _ (fun _ h => h))
  have h0 : Inv (fun c => LogInv c ∧ NoClear c) (fun c => (LogInv c ∧ KeysIn Ks c) ∧ NoClear c)
      (NS.init (logged (exactMemo (α := α))) t) := by
    have : AllNodes (fun c => (LogInv c ∧ KeysIn Ks c) ∧ NoClear c) (NS.init (logged (exactMemo (α := α))) t) :=
      AllNodes_init _ _ ⟨⟨LogInv_empty, by intro k hk; cases hk⟩, by intro hn; cases hn⟩ t
    cases t with
    | node style ctx kids =>
      simp only [NS.init, AllNodes, Inv] at this ⊢
      exact ⟨⟨this.1.1.1, this.1.2⟩, this.2⟩
  have hv := eval_inv (logged exactMemo) sel algs False _ _ hP (fun d b hs => hsel d b hs) hK fuel _ _ hP0
    t _ inp hinp h0
  have hc := Inv_at _ _ path t _ r hv h hp
  rw [← sinceClear_length_eq_evals _ hc.2]
  exact LogInv_keysIn_length Ks r.2.cache hc.1.1 hc.1.2

end

/-! ### the nodes talked about exist; single-child chains -/

/-- evaluation keeps the shape of the state: every node of the style tree (`subTree path t = some t'`) has its state
node in the result, so the `nodeAt … = some r` hypotheses above are satisfied exactly by the nodes of `t` -/
theorem nodes_exist {C : Type} (ci : CacheImpl α C) (sel : Display → Bool → Option Callee) (algs : Algs α)
    (fuel : Nat) (t : STree α) (inp : LayoutInput α) (path : List Nat) (t' : STree α)
    (h : subTree path t = some t') :
    ∃ n, nodeAt path t (evalNodeWith ci sel algs fuel t (NS.init ci t) inp).2 = some (t', n) :=
  nodeAt_of_shape path t t' _ (eval_shape ci sel algs fuel t _ inp (Shape_init ci t)) h

/-- the single-child chain with container styles `ss` (outermost first) over the node `leaf` -/
def chainOf (leaf : STree α) : List (Style α) → STree α
  | [] => leaf
  | s :: ss => .node s none [chainOf leaf ss]

theorem subTree_chainOf (leaf : STree α) : ∀ (ss : List (Style α)),
    subTree (List.replicate ss.length 0) (chainOf leaf ss) = some leaf
  | [] => rfl
  | s :: ss => by
    simp only [List.length_cons, List.replicate_succ, chainOf, subTree, List.getElem?_cons_zero]
    exact subTree_chainOf leaf ss

section
variable [DecidableEq α]

/-- **chain_leaf_const**: single-child chain of any depth `ss.length ≥ 1` over `leaf`; container programs query
their child only with inputs from `Ks`; no hidden layout.  After one top-level call from the fresh state with the exact
memo, the bottom node exists in the result and its body has been evaluated (for a leaf: its measure function has been
called) at most `Ks.length` times — whatever the depth. -/
theorem chain_leaf_const (sel : Display → Bool → Option Callee) (algs : Algs α) (Ks : List (LayoutInput α))
    (hK : AlgsCallsWithin Ks algs) (hKs : ∀ k, k ∈ Ks → k.runMode ≠ RunMode.performHiddenLayout)
    (hsel : ∀ d b, sel d b ≠ some Callee.hidden) (leaf : STree α) (ss : List (Style α)) (hss : ss ≠ [])
    (fuel : Nat) (inp : LayoutInput α) (hinp : inp.runMode ≠ RunMode.performHiddenLayout) :
    ∃ n, nodeAt (List.replicate ss.length 0) (chainOf leaf ss)
        (evalNodeWith (logged exactMemo) sel algs fuel (chainOf leaf ss)
          (NS.init (logged exactMemo) (chainOf leaf ss)) inp).2 = some (leaf, n) ∧
      evals n.cache.2 ≤ Ks.length := by
  obtain ⟨n, hn⟩ := nodes_exist (logged exactMemo) sel algs fuel (chainOf leaf ss) inp _ leaf (subTree_chainOf leaf ss)
  refine ⟨n, hn, ?_⟩
  have hp : List.replicate ss.length 0 ≠ [] := by
    cases ss with
    | nil => exact absurd rfl hss
    | cons s ss => simp [List.replicate_succ]
  exact chain_const_total sel algs Ks hK hKs hsel fuel _ inp hinp _ (leaf, n) hp hn

end

/-! ### non-vacuity: the hypotheses are satisfiable -/

section Examples

/-- containers ask child 0 once, with their own input -/
def exAlgs : Algs α where
  leaf := fun _ _ _ => LayoutOutput.hidden
  block := fun _ _ inp => .call 0 inp .pure
  flex := fun _ _ inp => .call 0 inp .pure
  grid := fun _ _ inp => .call 0 inp .pure

/-- a fixed non-hidden input -/
def exK : LayoutInput α := { (LayoutInput.hidden : LayoutInput α) with runMode := .computeSize }

/-- containers ask child 0 twice with the fixed input `exK`, whatever their own input -/
def exAlgsK : Algs α where
  leaf := fun _ _ _ => LayoutOutput.hidden
  block := fun _ _ _ => .call 0 exK (fun _ => .call 0 exK .pure)
  flex := fun _ _ _ => .call 0 exK (fun _ => .call 0 exK .pure)
  grid := fun _ _ _ => .call 0 exK (fun _ => .call 0 exK .pure)

/-- a dispatch without `display:none` arm -/
def exSel : Display → Bool → Option Callee := fun _ h => some (if h then .block else .leaf)

theorem exAlgs_callsAtMost : AlgsCallsAtMost 1 (exAlgs : Algs α) :=
  fun _ _ _ => ⟨⟨0, rfl, fun _ => trivial⟩, ⟨0, rfl, fun _ => trivial⟩, ⟨0, rfl, fun _ => trivial⟩⟩

theorem exAlgsK_callsAtMost : AlgsCallsAtMost 2 (exAlgsK : Algs α) :=
  fun _ _ _ => ⟨⟨1, rfl, fun _ => ⟨0, rfl, fun _ => trivial⟩⟩, ⟨1, rfl, fun _ => ⟨0, rfl, fun _ => trivial⟩⟩,
    ⟨1, rfl, fun _ => ⟨0, rfl, fun _ => trivial⟩⟩⟩

theorem exAlgsK_within [DecidableEq α] : AlgsCallsWithin [exK] (exAlgsK : Algs α) := by
  intro _ _ _
  have h : (exK : LayoutInput α) ∈ [exK] := List.mem_singleton.mpr rfl
  exact ⟨⟨h, fun _ => ⟨h, fun _ => trivial⟩⟩, ⟨h, fun _ => ⟨h, fun _ => trivial⟩⟩, ⟨h, fun _ => ⟨h, fun _ => trivial⟩⟩⟩

theorem exK_not_hidden : ∀ k, k ∈ [(exK : LayoutInput α)] → k.runMode ≠ RunMode.performHiddenLayout := by
  intro k hk
  rw [List.mem_singleton.mp hk]
  intro h; cases h

theorem exSel_not_hidden : ∀ d b, exSel d b ≠ some Callee.hidden := by
  intro d b h
  cases b <;> simp [exSel] at h

/-- `eval_erase` / `root_log_step` / `logInv_preserved` / `body_evals_le_stores` / `nodes_exist` have no hypotheses
beyond the start state; the start-state hypotheses hold for the fresh state: -/
example [DecidableEq α] (t : STree α) : AllNodes LogInv (NS.init (logged (exactMemo (α := α))) t) := logInv_init t
example {C : Type} (ci : CacheImpl α C) (q : Nat) (t : STree α) : LogBound q 0 (NS.init (logged ci) t) :=
  LogBound_init ci q t 0
example [DecidableEq α] (Ks : List (LayoutInput α)) (t : STree α) :
    Inv LogInv (fun c => LogInv c ∧ KeysIn Ks c) (NS.init (logged (exactMemo (α := α))) t) := keysIn_init Ks t

/-- `leaf_calls_le_pow` instantiated: with `exAlgs` (`q = 1`) every node of every tree is evaluated at most once in a
cache-free pass -/
example (sel : Display → Bool → Option Callee) (fuel : Nat) (t : STree α) (inp : LayoutInput α) (path : List Nat)
    (t' : STree α) (h : subTree path t = some t') :
    ∃ n, nodeAt path t (evalNodeWith (logged noCache) sel exAlgs fuel t (NS.init (logged noCache) t) inp).2
        = some (t', n) ∧ evals n.cache.2 ≤ 1 := by
  obtain ⟨n, hn⟩ := nodes_exist (logged noCache) sel exAlgs fuel t inp path t' h
  refine ⟨n, hn, ?_⟩
  have := (leaf_calls_le_pow_depth sel exAlgs 1 (Nat.le_refl 1) exAlgs_callsAtMost fuel t inp path (t', n) hn).1
  simpa using this

/-- `leaf_calls_le_pow` with `exAlgsK` (`q = 2`): cache-free, a node at depth `k` is evaluated at most `2 ^ k` times -/
example (sel : Display → Bool → Option Callee) (fuel : Nat) (t : STree α) (inp : LayoutInput α) (path : List Nat)
    (r : STree α × NS α (Unit × List (Option (LayoutInput α))))
    (h : nodeAt path t (evalNodeWith (logged noCache) sel exAlgsK fuel t (NS.init (logged noCache) t) inp).2 = some r) :
    evals r.2.cache.2 ≤ 2 ^ path.length :=
  leaf_calls_le_pow noCache sel exAlgsK 2 exAlgsK_callsAtMost fuel t inp path r h

/-- `chain_const` / `chain_const_total` / `chain_leaf_const` instantiated: with `exAlgsK`, whose cache-free cost is
`2 ^ depth`, the exact memo evaluates the bottom of a chain of any depth at most once -/
example [DecidableEq α] (leaf : STree α) (ss : List (Style α)) (hss : ss ≠ []) (fuel : Nat) :
    ∃ n, nodeAt (List.replicate ss.length 0) (chainOf leaf ss)
        (evalNodeWith (logged exactMemo) exSel exAlgsK fuel (chainOf leaf ss)
          (NS.init (logged exactMemo) (chainOf leaf ss)) (exK : LayoutInput α)).2 = some (leaf, n) ∧
      evals n.cache.2 ≤ 1 := by
  have := chain_leaf_const exSel (exAlgsK : Algs α) [exK] exAlgsK_within exK_not_hidden exSel_not_hidden leaf ss hss
    fuel exK (exK_not_hidden exK (List.mem_singleton.mpr rfl))
  simpa using this

/-! ### the bounds are attained: a concrete run (computed by the kernel, no arithmetic on `Rat`) -/

def exLeaf : STree Rat := .node Style.default none []
/-- two containers over a leaf -/
def exChain2 : STree Rat := chainOf exLeaf [Style.default, Style.default]

/-- cache-free, `exAlgsK` (two queries per body): the node at depth 2 is evaluated `2 ^ 2 = 4` times -/
example : (nodeAt [0, 0] exChain2 (evalNodeWith (logged noCache) exSel exAlgsK 3 exChain2
    (NS.init (logged noCache) exChain2) exK).2).map (fun x => evals x.2.cache.2) = some 4 := rfl

/-- the same pass with the exact memo: once -/
example : (nodeAt [0, 0] exChain2 (evalNodeWith (logged exactMemo) exSel exAlgsK 3 exChain2
    (NS.init (logged exactMemo) exChain2) exK).2).map (fun x => evals x.2.cache.2) = some 1 := rfl

end Examples

/-
Theorems to audit:
  C16.eval_erase              (+ C16.eval_erase_init; generic form C16.eval_sim in Lemmas/EvalCost.lean)
  C16.root_log_step           (one `store` per body evaluation, none otherwise, at the evaluated node)
  C16.logInv_preserved        (invariant preservation of 2.)
  C16.body_evals_le_stores    (fresh state, single top-level call)
  C16.body_evals_le_queries
  C16.logBound_step           (additive invariant of 3.; = C16.eval_logBound), C16.logBound_many
  C16.leaf_calls_le_pow, C16.leaf_calls_le_pow_depth
  C16.keysIn_preserved, C16.chain_const, C16.chain_const_total, C16.chain_leaf_const
  C16.nodes_exist             (non-vacuity of the `nodeAt … = some r` hypotheses; C16.eval_shape)
Definitions they are stated with (Lemmas/EvalCost.lean): C16.logged, C16.evals, C16.sinceClear, C16.LogOK,
  C16.mapCache, C16.Sim, C16.AllNodes, C16.Inv, C16.CallsSat, C16.AlgsSat, C16.CachePres, C16.nodeAt, C16.subTree,
  C16.callsLe, C16.AlgsCallsAtMost, C16.LogBound, C16.MemoLog, C16.LogInv, C16.KeysIn, C16.NoClear, C16.Shape;
  (this file) C16.CallsAtMost, C16.CallsWithin, C16.AlgsCallsWithin, C16.evalMany, C16.chainOf.
-/

end C16
