/-
  The named hypotheses of the evaluator-level theorems (C05, C06, C01, C16), discharged for the concrete block algorithm
  `BlockModel.computeBlockLayout` (Model/Block.lean = src/compute/block.rs) and the concrete leaf algorithm, and the
  theorems instantiated at `EvalConcrete.algs flex grid` (Model/EvalConcrete.lean).

  For every number type `α` (`[Num α]`).  Flexbox and grid remain parameters: either their hypotheses stay as the only
  assumptions (`…_algs`), or the tree contains no flexbox/grid container with children outside `display:none` subtrees
  (`EvalBlock.BlockOnly`), and then the theorems hold unconditionally (`…_block_leaf_trees`).

  Helper lemmas: Lemmas/EvalBlock.lean (program shape, PHZ, AgreeH, call counts, flags), Lemmas/EvalBlockAbs.lean
  (AbsEquiv), Lemmas/EvalBlockOnly.lean (`BlockOnly`, `eval_algs_congr`).
-/
import TaffyVerif.Lemmas.EvalBlock
import TaffyVerif.Lemmas.EvalBlockOnly
import TaffyVerif.Lemmas.EvalBlockFlags
import TaffyVerif.Lemmas.EvalBlockAbs
import TaffyVerif.Lemmas.EvalBlockTrees
import TaffyVerif.Props.C05
import TaffyVerif.Props.C06
import TaffyVerif.Props.C01
import TaffyVerif.Props.C16

set_option linter.unusedSectionVars false

namespace EvalBlock
open Eval BlockModel Gen.Facts
variable {α : Type} [Num α] {C : Type}

/-- the type of a container algorithm -/
abbrev ContainerAlg (α : Type) := Style α → List (Style α) → LayoutInput α → ProgM α (LayoutOutput α)

/-! ## C05 — hidden children -/

/-- **block_PHZ**: every layout `compute_block_layout` assigns to a `display:none` child is all-zero
(`Layout::with_order(order)`): the in-flow pass only addresses items (children with `box_generation_mode != None`), the
absolute pass re-checks `box_generation_mode` of the child it is about to lay out, and the hidden-children loop writes
`Layout::with_order(order)`. -/
theorem block_PHZ (style : Style α) (cs : List (Style α)) (inp : LayoutInput α) :
    C05.PHZ cs (computeBlockLayout style cs inp) :=
  PHZ_computeBlockLayout style cs inp

/-- **block_HiddenBlind**: `compute_block_layout` reads nothing of a `display:none` child's style but `display`:
for child-style lists that agree except where both styles are `display:none` the two programs are EQUAL. -/
theorem block_HiddenBlind (style : Style α) (xs ys : List (Style α)) (inp : LayoutInput α) (h : C05.AgreeH xs ys) :
    computeBlockLayout style xs inp = computeBlockLayout style ys inp :=
  computeBlockLayout_agree style xs ys inp h

/-- the C05 hypotheses of a single container algorithm -/
def AlgPHZ (f : ContainerAlg α) : Prop := ∀ style cs inp, C05.PHZ cs (f style cs inp)
def AlgHiddenBlind (f : ContainerAlg α) : Prop := ∀ style xs ys inp, C05.AgreeH xs ys → f style xs inp = f style ys inp

theorem idle_PHZ : AlgPHZ (EvalConcrete.idle : ContainerAlg α) := fun _ _ _ => trivial
theorem idle_HiddenBlind : AlgHiddenBlind (EvalConcrete.idle : ContainerAlg α) := fun _ _ _ _ _ => rfl

/-- `AlgsPHZ` for the concrete algorithms: only the flexbox and grid hypotheses remain -/
theorem algs_PHZ (flex grid : ContainerAlg α) (hf : AlgPHZ flex) (hg : AlgPHZ grid) :
    C05.AlgsPHZ (EvalConcrete.algs flex grid) :=
  fun style cs inp => ⟨block_PHZ style cs inp, hf style cs inp, hg style cs inp⟩

/-- `HiddenBlind` for the concrete algorithms: only the flexbox and grid hypotheses remain -/
theorem algs_HiddenBlind (flex grid : ContainerAlg α) (hf : AlgHiddenBlind flex) (hg : AlgHiddenBlind grid) :
    C05.HiddenBlind (EvalConcrete.algs flex grid) :=
  fun style xs ys inp h => ⟨block_HiddenBlind style xs ys inp h, hf style xs ys inp h, hg style xs ys inp h⟩

/-- **hidden_zero_algs**: `C05.hidden_zero` with the concrete block and leaf; assumptions: flexbox and grid assign
all-zero layouts to hidden children -/
theorem hidden_zero_algs (ci : CacheImpl α C) (flex grid : ContainerAlg α) (hf : AlgPHZ flex) (hg : AlgPHZ grid)
    (fuel : Nat) (t : STree α) (ns : NS α C) (inp : LayoutInput α) (hz : C05.HZ t ns) :
    C05.HZ t (evalNode ci (EvalConcrete.algs flex grid) fuel t ns inp).2 :=
  C05.hidden_zero_evalNode ci _ (algs_PHZ flex grid hf hg) fuel t ns inp hz

/-- **hidden_invisible_algs**: `C05.hidden_invisible` with the concrete block and leaf; assumptions: flexbox and grid
are blind to hidden children's styles -/
theorem hidden_invisible_algs (ci : CacheImpl α C) (flex grid : ContainerAlg α)
    (hf : AlgHiddenBlind flex) (hg : AlgHiddenBlind grid)
    (fuel : Nat) (tA tB : STree α) (nsA nsB : NS α C) (inp : LayoutInput α)
    (hr : C05.HidRel tA tB) (hs : C05.SimNS tA nsA nsB) :
    (evalNode ci (EvalConcrete.algs flex grid) fuel tA nsA inp).1 =
      (evalNode ci (EvalConcrete.algs flex grid) fuel tB nsB inp).1 ∧
    C05.SimNS tA (evalNode ci (EvalConcrete.algs flex grid) fuel tA nsA inp).2
      (evalNode ci (EvalConcrete.algs flex grid) fuel tB nsB inp).2 :=
  C05.hidden_invisible_evalNode ci _ (algs_HiddenBlind flex grid hf hg) fuel tA tB nsA nsB inp hr hs

/-! ### trees without flexbox/grid containers: unconditional -/

/-- `TaffyTree`'s extracted dispatch never sends a node of a `BlockOnly` tree to flexbox or grid -/
theorem BlockOnly_NoFG_real (t : STree α) (h : BlockOnly t) : NoFG (Dispatch.select dispatchArms) t :=
  BlockOnly_NoFG _ (fun d b => by rw [C17.dispatch_eq]; cases d <;> rfl) t h

/-- **eval_block_leaf_trees**: on a `BlockOnly` tree the evaluator does not depend on the flexbox/grid parameters -/
theorem eval_block_leaf_trees (ci : CacheImpl α C) (flex grid flex' grid' : ContainerAlg α)
    (fuel : Nat) (t : STree α) (ns : NS α C) (inp : LayoutInput α) (h : BlockOnly t) :
    evalNode ci (EvalConcrete.algs flex grid) fuel t ns inp = evalNode ci (EvalConcrete.algs flex' grid') fuel t ns inp :=
  eval_algs_congr ci _ (EvalConcrete.algs flex grid) (EvalConcrete.algs flex' grid') rfl rfl fuel t ns inp
    (BlockOnly_NoFG_real t h)

/-- **hidden_zero_block_leaf_trees** (unconditional): on a tree of block containers and leaves, `compute_child_layout`
(any cache, any input, any state) preserves "every `display:none` child of a visible node has an all-zero layout and
everything below a `display:none` node is all-zero" -/
theorem hidden_zero_block_leaf_trees (ci : CacheImpl α C) (flex grid : ContainerAlg α)
    (fuel : Nat) (t : STree α) (ns : NS α C) (inp : LayoutInput α) (hb : BlockOnly t) (hz : C05.HZ t ns) :
    C05.HZ t (evalNode ci (EvalConcrete.algs flex grid) fuel t ns inp).2 := by
  rw [eval_block_leaf_trees ci flex grid EvalConcrete.idle EvalConcrete.idle fuel t ns inp hb]
  exact hidden_zero_algs ci _ _ idle_PHZ idle_PHZ fuel t ns inp hz

/-- **hidden_zero_pass_block_leaf_trees** (unconditional): after a pass over a freshly built tree of block containers and
leaves every node at or below a `display:none` node has an all-zero layout -/
theorem hidden_zero_pass_block_leaf_trees (ci : CacheImpl α C) (flex grid : ContainerAlg α)
    (fuel : Nat) (t : STree α) (inp : LayoutInput α) (hb : BlockOnly t) (p : List Nat) (k : NS α C) (hne : p ≠ [])
    (hh : C05.HiddenOnPath t p)
    (hk : C05.nsAt (evalNode ci (EvalConcrete.algs flex grid) fuel t (NS.init ci t) inp).2 p = some k) :
    C05.zeroFields k.layout :=
  C05.HZ_at p t _ k (hidden_zero_block_leaf_trees ci flex grid fuel t _ inp hb (C05.HZ_init ci t)) hne hh hk

/-- **hidden_invisible_block_leaf_trees** (unconditional): two trees of block containers and leaves that differ only
inside `display:none` subtrees, states agreeing outside the hidden subtrees: same output, states again agreeing -/
theorem hidden_invisible_block_leaf_trees (ci : CacheImpl α C) (flex grid : ContainerAlg α)
    (fuel : Nat) (tA tB : STree α) (nsA nsB : NS α C) (inp : LayoutInput α)
    (hA : BlockOnly tA) (hB : BlockOnly tB) (hr : C05.HidRel tA tB) (hs : C05.SimNS tA nsA nsB) :
    (evalNode ci (EvalConcrete.algs flex grid) fuel tA nsA inp).1 =
      (evalNode ci (EvalConcrete.algs flex grid) fuel tB nsB inp).1 ∧
    C05.SimNS tA (evalNode ci (EvalConcrete.algs flex grid) fuel tA nsA inp).2
      (evalNode ci (EvalConcrete.algs flex grid) fuel tB nsB inp).2 := by
  rw [eval_block_leaf_trees ci flex grid EvalConcrete.idle EvalConcrete.idle fuel tA nsA inp hA,
    eval_block_leaf_trees ci flex grid EvalConcrete.idle EvalConcrete.idle fuel tB nsB inp hB]
  exact hidden_invisible_algs ci _ _ idle_HiddenBlind idle_HiddenBlind fuel tA tB nsA nsB inp hr hs

/-- **hidden_invisible_pass_block_leaf_trees** (unconditional): whole passes from freshly built trees: same output and
the same layout at every node that is not strictly inside a hidden subtree -/
theorem hidden_invisible_pass_block_leaf_trees (ci : CacheImpl α C) (flex grid : ContainerAlg α)
    (fuel : Nat) (tA tB : STree α) (inp : LayoutInput α) (hA : BlockOnly tA) (hB : BlockOnly tB)
    (hr : C05.HidRel tA tB) :
    (evalNode ci (EvalConcrete.algs flex grid) fuel tA (NS.init ci tA) inp).1 =
      (evalNode ci (EvalConcrete.algs flex grid) fuel tB (NS.init ci tB) inp).1 ∧
    ∀ p, C05.VisibleTo tA p →
      (C05.nsAt (evalNode ci (EvalConcrete.algs flex grid) fuel tA (NS.init ci tA) inp).2 p).map NS.layout =
      (C05.nsAt (evalNode ci (EvalConcrete.algs flex grid) fuel tB (NS.init ci tB) inp).2 p).map NS.layout := by
  obtain ⟨h1, h2⟩ := hidden_invisible_block_leaf_trees ci flex grid fuel tA tB _ _ inp hA hB hr
    (C05.SimNS_init ci tA tB hr)
  exact ⟨h1, fun p hv => (C05.SimNS_at p tA _ _ h2 hv).1⟩

/-- **hidden_invisible_replace_block_leaf_trees** (C05 as worded, unconditional): in a tree of block containers and
leaves take any `display:none` node (at path `q`) and replace it with its whole subtree by a bare `display:none` leaf:
a pass over the original and a pass over the modified tree (fresh states) return the same output and give the same
layout to every node that is not strictly inside a hidden subtree -/
theorem hidden_invisible_replace_block_leaf_trees (ci : CacheImpl α C) (flex grid : ContainerAlg α)
    (fuel : Nat) (t h : STree α) (q : List Nat) (inp : LayoutInput α) (hb : BlockOnly t)
    (ht : treeAt t q = some h) (hd : h.style.display = .none) :
    (evalNode ci (EvalConcrete.algs flex grid) fuel t (NS.init ci t) inp).1 =
      (evalNode ci (EvalConcrete.algs flex grid) fuel (replaceAt t q C05.bareHidden)
        (NS.init ci (replaceAt t q C05.bareHidden)) inp).1 ∧
    ∀ p, C05.VisibleTo t p →
      (C05.nsAt (evalNode ci (EvalConcrete.algs flex grid) fuel t (NS.init ci t) inp).2 p).map NS.layout =
      (C05.nsAt (evalNode ci (EvalConcrete.algs flex grid) fuel (replaceAt t q C05.bareHidden)
        (NS.init ci (replaceAt t q C05.bareHidden)) inp).2 p).map NS.layout :=
  hidden_invisible_pass_block_leaf_trees ci flex grid fuel t _ inp hb
    (BlockOnly_replaceAt q t _ hb (by simp [C05.bareHidden, BlockOnly]))
    (C05.HidRel_replaceAt q t h C05.bareHidden ht hd rfl)

/-- non-vacuity: the trees of `Props/C05.lean`'s example (a block root with a visible leaf and a `display:none` child
with a subtree of its own / with the subtree removed) are `BlockOnly` and related -/
example : BlockOnly (C05.exA : STree α) ∧ BlockOnly (C05.exB : STree α) ∧ C05.HidRel (C05.exA : STree α) C05.exB := by
  refine ⟨?_, ?_, C05.exAB_rel⟩ <;>
    simp [C05.exA, C05.exB, BlockOnly, BlockOnlyList, C05.blockStyle, C05.hiddenStyle]

example (ci : CacheImpl α C) (flex grid : ContainerAlg α) (fuel : Nat) (inp : LayoutInput α) :
    (evalNode ci (EvalConcrete.algs flex grid) fuel C05.exA (NS.init ci C05.exA) inp).1 =
      (evalNode ci (EvalConcrete.algs flex grid) fuel C05.exB (NS.init ci C05.exB) inp).1 :=
  (hidden_invisible_pass_block_leaf_trees ci flex grid fuel C05.exA C05.exB inp
    (by simp [C05.exA, BlockOnly, BlockOnlyList, C05.blockStyle, C05.hiddenStyle])
    (by simp [C05.exB, BlockOnly, BlockOnlyList, C05.blockStyle, C05.hiddenStyle]) C05.exAB_rel).1

/-! ## C06 — absolutely positioned children -/

/-- **block_AbsBlind**: for child-style lists that agree except at indices where both styles are absolutely positioned
boxes, the two block programs are equal up to the calls/`setLayout`s addressed to those children and up to
`content_size` (of the answers fed back, of the layouts assigned, of the result).  In block.rs absolutely positioned
items enter (a) the skip tests `item.position == Absolute` of the content-width and in-flow passes and the
collapse-through test of step 7 — position only; (b) `perform_absolute_layout_on_absolute_children`, whose result only
feeds `absolute_content_size`; (c) the `order` numbering, which depends on `box_generation_mode` only. -/
theorem block_AbsBlind (style : Style α) (xs ys : List (Style α)) (inp : LayoutInput α) (h : C06.AgreeA xs ys) :
    C06.AbsEquiv (C06.absIdx xs) C06.OutEqv (computeBlockLayout style xs inp) (computeBlockLayout style ys inp) :=
  computeBlockLayout_equiv style xs ys inp h

/-- the C06 hypothesis of a single container algorithm -/
def AlgAbsBlind (f : ContainerAlg α) : Prop :=
  ∀ style xs ys inp, C06.AgreeA xs ys → C06.AbsEquiv (C06.absIdx xs) C06.OutEqv (f style xs inp) (f style ys inp)

theorem idle_AbsBlind : AlgAbsBlind (EvalConcrete.idle : ContainerAlg α) :=
  fun _ _ _ _ _ => .pure _ _ (C06.OutEqv.refl _)

/-- `AbsBlind` for the concrete algorithms: only the flexbox and grid hypotheses remain -/
theorem algs_AbsBlind (flex grid : ContainerAlg α) (hf : AlgAbsBlind flex) (hg : AlgAbsBlind grid) :
    C06.AbsBlind (EvalConcrete.algs flex grid) :=
  fun style xs ys inp h => ⟨block_AbsBlind style xs ys inp h, hf style xs ys inp h, hg style xs ys inp h⟩

/-- **abs_invisible_algs**: `C06.abs_invisible` with the concrete block and leaf -/
theorem abs_invisible_algs (ci : CacheImpl α C) (R : C → C → Prop) (hc : C06.CacheRespects ci R)
    (flex grid : ContainerAlg α) (hf : AlgAbsBlind flex) (hg : AlgAbsBlind grid)
    (fuel : Nat) (tA tB : STree α) (nsA nsB : NS α C) (inp : LayoutInput α)
    (hr : C06.AbsRel tA tB) (hs : C06.SimA R tA nsA nsB) :
    C06.OutEqv (evalNode ci (EvalConcrete.algs flex grid) fuel tA nsA inp).1
      (evalNode ci (EvalConcrete.algs flex grid) fuel tB nsB inp).1 ∧
    C06.SimA R tA (evalNode ci (EvalConcrete.algs flex grid) fuel tA nsA inp).2
      (evalNode ci (EvalConcrete.algs flex grid) fuel tB nsB inp).2 :=
  C06.abs_invisible_evalNode ci R hc _ (algs_AbsBlind flex grid hf hg) fuel tA tB nsA nsB inp hr hs

/-- **abs_invisible_block_leaf_trees** (unconditional): two trees of block containers and leaves, the second obtained
from the first by replacing absolutely positioned children (at any depth) by arbitrary other absolutely positioned
children; states agreeing outside the absolutely positioned subtrees: outputs equal up to `content_size`, states again
agreeing outside the absolutely positioned subtrees -/
theorem abs_invisible_block_leaf_trees (ci : CacheImpl α C) (R : C → C → Prop) (hc : C06.CacheRespects ci R)
    (flex grid : ContainerAlg α) (fuel : Nat) (tA tB : STree α) (nsA nsB : NS α C) (inp : LayoutInput α)
    (hA : BlockOnly tA) (hB : BlockOnly tB) (hr : C06.AbsRel tA tB) (hs : C06.SimA R tA nsA nsB) :
    C06.OutEqv (evalNode ci (EvalConcrete.algs flex grid) fuel tA nsA inp).1
      (evalNode ci (EvalConcrete.algs flex grid) fuel tB nsB inp).1 ∧
    C06.SimA R tA (evalNode ci (EvalConcrete.algs flex grid) fuel tA nsA inp).2
      (evalNode ci (EvalConcrete.algs flex grid) fuel tB nsB inp).2 := by
  rw [eval_block_leaf_trees ci flex grid EvalConcrete.idle EvalConcrete.idle fuel tA nsA inp hA,
    eval_block_leaf_trees ci flex grid EvalConcrete.idle EvalConcrete.idle fuel tB nsB inp hB]
  exact abs_invisible_algs ci R hc _ _ idle_AbsBlind idle_AbsBlind fuel tA tB nsA nsB inp hr hs

/-- **abs_invisible_pass_block_leaf_trees** (unconditional): whole passes from freshly built trees: outputs equal up to
`content_size`, and every node outside the absolutely positioned subtrees gets the same order, location, size,
scrollbar size, border, padding and margin -/
theorem abs_invisible_pass_block_leaf_trees (ci : CacheImpl α C) (R : C → C → Prop) (hc : C06.CacheRespects ci R)
    (flex grid : ContainerAlg α) (fuel : Nat) (tA tB : STree α) (inp : LayoutInput α)
    (hA : BlockOnly tA) (hB : BlockOnly tB) (hr : C06.AbsRel tA tB) :
    C06.OutEqv (evalNode ci (EvalConcrete.algs flex grid) fuel tA (NS.init ci tA) inp).1
      (evalNode ci (EvalConcrete.algs flex grid) fuel tB (NS.init ci tB) inp).1 ∧
    ∀ p, C06.OutsideAbs tA p →
      C06.OptRel (fun x y => C06.LayEqv x.layout y.layout)
        (C06.nsAt (evalNode ci (EvalConcrete.algs flex grid) fuel tA (NS.init ci tA) inp).2 p)
        (C06.nsAt (evalNode ci (EvalConcrete.algs flex grid) fuel tB (NS.init ci tB) inp).2 p) := by
  obtain ⟨h1, h2⟩ := abs_invisible_block_leaf_trees ci R hc flex grid fuel tA tB _ _ inp hA hB hr
    (C06.SimA_init ci R hc tA tB hr)
  exact ⟨h1, fun p hv => C06.OptRel.mono (fun _ _ h => h.1) _ _ (C06.SimA_at R p tA _ _ h2 hv)⟩

/-- **abs_invisible_replace_block_leaf_trees** (C06 as worded, unconditional): in a tree of block containers and leaves
replace any absolutely positioned box (non-root path `q`) with its subtree by ANY other absolutely positioned box `r`
(itself a tree of block containers and leaves) -/
theorem abs_invisible_replace_block_leaf_trees (ci : CacheImpl α C) (R : C → C → Prop) (hc : C06.CacheRespects ci R)
    (flex grid : ContainerAlg α) (fuel : Nat) (t h r : STree α) (q : List Nat) (inp : LayoutInput α)
    (hbt : BlockOnly t) (hbr : BlockOnly r)
    (hq : q ≠ []) (ht : treeAt t q = some h) (hh : C06.absVis h.style) (hr : C06.absVis r.style) :
    C06.OutEqv (evalNode ci (EvalConcrete.algs flex grid) fuel t (NS.init ci t) inp).1
      (evalNode ci (EvalConcrete.algs flex grid) fuel (replaceAt t q r) (NS.init ci (replaceAt t q r)) inp).1 ∧
    ∀ p, C06.OutsideAbs t p →
      C06.OptRel (fun x y => C06.LayEqv x.layout y.layout)
        (C06.nsAt (evalNode ci (EvalConcrete.algs flex grid) fuel t (NS.init ci t) inp).2 p)
        (C06.nsAt (evalNode ci (EvalConcrete.algs flex grid) fuel (replaceAt t q r) (NS.init ci (replaceAt t q r)) inp).2 p) :=
  abs_invisible_pass_block_leaf_trees ci R hc flex grid fuel t _ inp hbt (BlockOnly_replaceAt q t r hbt hbr)
    (C06.AbsRel_replaceAt q t h r hq ht hh hr)

/-- non-vacuity: the trees of `Props/C06.lean`'s example, with the flex replacement child made a leaf, are `BlockOnly` -/
example : BlockOnly (C06.exA : STree α) ∧ BlockOnly (C06.exB : STree α) ∧ C06.AbsRel (C06.exA : STree α) C06.exB := by
  refine ⟨?_, ?_, C06.exAB_rel⟩ <;>
    simp [C06.exA, C06.exB, BlockOnly, BlockOnlyList, C06.blockStyle, C06.absStyle, C06.absStyle2, Style.default]

/-! ## C01 — `PLCovers`

`EvalMemo.Covers n own strict p` follows two flags per child along every run of `p`: a `setLayout i` sets `own i`; a
PerformLayout `call i` sets `strict i` and RESETS `own i`; at the end all children must have both flags.

In PerformLayout mode `compute_block_layout` ends every child — in-flow, absolutely positioned, `display:none` — with
`perform_child_layout` followed by `set_unrounded_layout`.  (For `display:none` children this is the order of the
hidden-children loop since the repair 452a387; before it the two statements were swapped, `Covers` failed exactly when a
child was `display:none`, and `Layout.order` of hidden children depended on the cache state — see the end of the file.) -/

/-- **block_PLCovers**: in PerformLayout mode the block program `Covers` all its children, for every child-style list
(hidden children included) -/
theorem block_PLCovers (style : Style α) (cs : List (Style α)) (inp : LayoutInput α)
    (hm : inp.runMode = .performLayout) :
    EvalMemo.Covers cs.length (fun _ => false) (fun _ => false) (computeBlockLayout style cs inp) :=
  block_covers style cs inp hm

/-- the C01 hypothesis of a single container algorithm -/
def AlgPLCovers (f : ContainerAlg α) : Prop :=
  ∀ style cs (inp : LayoutInput α), inp.runMode = .performLayout →
    EvalMemo.Covers cs.length (fun _ => false) (fun _ => false) (f style cs inp)

theorem coverAlg_PLCovers : AlgPLCovers (coverAlg : ContainerAlg α) := fun style cs inp _ => coverAlg_covers style cs inp

/-- **algs_PLCovers**: `PLCovers` for the concrete algorithms: only the flexbox and grid hypotheses remain -/
theorem algs_PLCovers (flex grid : ContainerAlg α) (hf : AlgPLCovers flex) (hg : AlgPLCovers grid) :
    EvalMemo.PLCovers (EvalConcrete.algs flex grid) :=
  fun style cs inp hm => ⟨block_PLCovers style cs inp hm, hf style cs inp hm, hg style cs inp hm⟩

/-- **single_pass_layouts_quiet_algs**: `C01.single_pass_layouts_quiet` with the concrete block and leaf -/
theorem single_pass_layouts_quiet_algs [DecidableEq α] (flex grid : ContainerAlg α)
    (hf : AlgPLCovers flex) (hg : AlgPLCovers grid) (fuel : Nat) (t : STree α) (inp : LayoutInput α)
    (hd : STree.depth t ≤ fuel) (hmode : inp.runMode ≠ .computeSize)
    (hq : EvalMemo.QuietRun (Dispatch.select dispatchArms) (EvalConcrete.algs flex grid) fuel t
      (NS.init exactMemo t) inp) :
    EvalMemo.erase (evalNode exactMemo (EvalConcrete.algs flex grid) fuel t (NS.init exactMemo t) inp).2
      = (evalNode noCache (EvalConcrete.algs flex grid) fuel t (NS.init noCache t) inp).2 :=
  C01.single_pass_layouts_quiet _ _ C01.selOK_real (algs_PLCovers flex grid hf hg) fuel t inp hd hmode hq

/-! ## C16 — call counts -/

/-- **block_CallsAtMost**: every run of `compute_block_layout` on `n` children makes at most `2·n` child calls in total
(content-width pass + final pass for in-flow children, one call for each absolutely positioned or hidden child) -/
theorem block_CallsAtMost (style : Style α) (cs : List (Style α)) (inp : LayoutInput α) :
    C16.CallsAtMost (2 * cs.length) (computeBlockLayout style cs inp) :=
  callsLe_computeBlockLayout style cs inp

/-- **block_calls_lower**: in PerformLayout mode every run makes at least one call per `display:none` child -/
theorem block_calls_lower (style : Style α) (cs : List (Style α)) (inp : LayoutInput α)
    (hm : inp.runMode = .performLayout) (q : Nat) (h : C16.CallsAtMost q (computeBlockLayout style cs inp)) :
    (cs.filter (fun s => s.display == .none)).length ≤ q := by
  have := callsLe_computeBlockLayout_inv style cs inp hm q h
  have e : ∀ l : List (Style α), nHid l = (l.filter (fun s => s.display == .none)).length := by
    intro l
    induction l with
    | nil => rfl
    | cons a l ih =>
      by_cases ha : (a.display == Display.none) = true
      · simp only [nHid, List.filter_cons, Style.isHidden, ha, if_true, List.length_cons, ih]; omega
      · simp only [nHid, List.filter_cons, Style.isHidden, ha, ih]; simp
  rw [← e]; exact this

/-- **not_AlgsCallsAtMost_algs**: no bound `q` independent of the number of children exists, so `C16.AlgsCallsAtMost q`
is FALSE for the concrete algorithms for every `q`: witness = a block container with `q+1` `display:none` children -/
theorem not_AlgsCallsAtMost_algs (flex grid : ContainerAlg α) (q : Nat) :
    ¬ C16.AlgsCallsAtMost q (EvalConcrete.algs flex grid) := by
  intro h
  have h1 : C16.CallsAtMost q (computeBlockLayout C05.blockStyle (List.replicate (q + 1) C05.hiddenStyle) plIn) :=
    (h C05.blockStyle (List.replicate (q + 1) C05.hiddenStyle) plIn).1
  have := block_calls_lower C05.blockStyle _ plIn rfl q h1
  have e : (List.filter (fun s : Style α => s.display == .none) (List.replicate (q + 1) C05.hiddenStyle)).length
      = q + 1 := by
    rw [List.filter_replicate]
    have : ((C05.hiddenStyle : Style α).display == Display.none) = true := rfl
    rw [if_pos this, List.length_replicate]
  omega

/-! ## Corollaries of C01 and C16 on tree classes

`PLCovers` (for flexbox/grid) and `AlgsCallsAtMost q` quantify over all three container algorithms resp. ALL child-style
lists.  On the tree classes below the evaluator with the concrete algorithms coincides with the evaluator with stand-in
algorithms that do satisfy them (`EvalBlock.eval_agree`), so the theorems transfer. -/

theorem docSel_real : DocSel (Dispatch.select dispatchArms) :=
  fun d b => by rw [C17.dispatch_eq]; cases d <;> rfl

/-- **single_pass_layouts_quiet_block_leaf_trees** (C01 §4 for trees of block containers and leaves, `display:none`
subtrees allowed and arbitrary; only the trace condition `QuietRun` remains): one PerformLayout pass over a freshly built
tree — the exact-memo evaluator and the cache-free evaluator store the same layouts at every node -/
theorem single_pass_layouts_quiet_block_leaf_trees [DecidableEq α] (flex grid : ContainerAlg α)
    (fuel : Nat) (t : STree α) (inp : LayoutInput α) (hb : BlockOnly t) (hd : STree.depth t ≤ fuel)
    (hmode : inp.runMode ≠ .computeSize)
    (hq : EvalMemo.QuietRun (Dispatch.select dispatchArms) (EvalConcrete.algs flex grid) fuel t
      (NS.init exactMemo t) inp) :
    EvalMemo.erase (evalNode exactMemo (EvalConcrete.algs flex grid) fuel t (NS.init exactMemo t) inp).2
      = (evalNode noCache (EvalConcrete.algs flex grid) fuel t (NS.init noCache t) inp).2 := by
  have ha := BlockOnly_agree _ docSel_real flex grid coverAlg coverAlg t hb
  unfold evalNode
  rw [eval_agree exactMemo _ _ _ fuel t _ inp ha, eval_agree noCache _ _ _ fuel t _ inp ha]
  exact C01.single_pass_layouts_quiet _ algsCov C01.selOK_real algsCov_PLCovers fuel t inp hd hmode
    ((QuietRun_agree _ _ _ fuel t _ inp ha).1 hq)

/-- **history_layouts_quiet_block_leaf_trees** (C01 for stored layouts, exact-memo mode, trees of block containers and
leaves; only the trace conditions remain): after any history of (edit, pass) steps from a freshly built tree in which
every tree is `BlockOnly` and every pass was quiet, a further quiet PerformLayout pass stores, below the root, exactly
the layouts a cache-free pass over a freshly built copy of the final tree stores. -/
theorem history_layouts_quiet_block_leaf_trees [DecidableEq α] (flex grid : ContainerAlg α)
    (t0 : STree α) (h : List (EvalMemo.Step α)) (hb : BlockOnlyHist t0 h)
    (hqh : EvalMemo.QuietHistory (Dispatch.select dispatchArms) (EvalConcrete.algs flex grid)
      (t0, NS.init exactMemo t0) h)
    (inp : LayoutInput α) (fuel : Nat)
    (hd : STree.depth (EvalMemo.runHistory exactMemo (Dispatch.select dispatchArms) (EvalConcrete.algs flex grid)
      (t0, NS.init exactMemo t0) h).1 ≤ fuel)
    (hmode : inp.runMode ≠ .computeSize)
    (hq : EvalMemo.QuietRun (Dispatch.select dispatchArms) (EvalConcrete.algs flex grid) fuel
      (EvalMemo.runHistory exactMemo (Dispatch.select dispatchArms) (EvalConcrete.algs flex grid)
        (t0, NS.init exactMemo t0) h).1
      (EvalMemo.runHistory exactMemo (Dispatch.select dispatchArms) (EvalConcrete.algs flex grid)
        (t0, NS.init exactMemo t0) h).2 inp) :
    let s := EvalMemo.runHistory exactMemo (Dispatch.select dispatchArms) (EvalConcrete.algs flex grid)
      (t0, NS.init exactMemo t0) h
    EvalMemo.eraseList (evalNode exactMemo (EvalConcrete.algs flex grid) fuel s.1 s.2 inp).2.kids
      = (evalNode noCache (EvalConcrete.algs flex grid) fuel s.1 (NS.init noCache s.1) inp).2.kids := by
  have hA := BlockOnlyHist_agree _ docSel_real flex grid coverAlg coverAlg h t0 hb
  have hr := runHistory_agree exactMemo _ _ _ h (t0, NS.init exactMemo t0) hA
  have hfin := AgreeHist_final exactMemo _ _ _ algsCov h (t0, NS.init exactMemo t0) hA
  rw [hr] at hd hq ⊢
  have hqh' := (QuietHistory_agree _ _ _ h (t0, NS.init exactMemo t0) hA).1 hqh
  intro s
  unfold evalNode
  rw [eval_agree exactMemo _ _ _ fuel s.1 _ inp hfin, eval_agree noCache _ _ _ fuel s.1 _ inp hfin]
  exact C01.history_layouts_quiet _ algsCov C01.selOK_real algsCov_PLCovers t0 h hqh' inp fuel hd hmode
    ((QuietRun_agree _ _ _ fuel _ _ inp hfin).1 hq)

/-- non-vacuity: a one-step history on the C05 example tree (with a hidden subtree): replace the whole tree by a block
container with an in-flow and an absolutely positioned child, then lay out -/
example : BlockOnlyHist (C05.exA : STree α) [⟨.replace [] C06.exA, plIn, 0⟩] := by
  simp [BlockOnlyHist, EvalMemo.Edit.applyTree, EvalMemo.Edit.path, EvalMemo.Edit.onTree, EvalMemo.treeModifyAt,
    C05.exA, C06.exA, BlockOnly, BlockOnlyList, C05.blockStyle, C05.hiddenStyle, C06.blockStyle, C06.absStyle,
    Style.default]

/-- **leaf_calls_le_pow_block_leaf_trees** (C16 §3 for trees of leaves and block containers with at most `b` children,
hidden subtrees arbitrary; unconditional): in one pass over a freshly built tree, with any cache (in particular none),
the body of the node at `path` — for a leaf: the measure function — is evaluated at most `(2·b)^|path|` times -/
theorem leaf_calls_le_pow_block_leaf_trees (ci : CacheImpl α C) (flex grid : ContainerAlg α) (b : Nat)
    (fuel : Nat) (t : STree α) (inp : LayoutInput α) (hb : FanBlockOnly b t) (path : List Nat)
    (r : STree α × NS α (C × List (Option (LayoutInput α))))
    (h : C16.nodeAt path t (evalNode (C16.logged ci) (EvalConcrete.algs flex grid) fuel t
      (NS.init (C16.logged ci) t) inp).2 = some r) :
    C16.evals r.2.cache.2 ≤ (2 * b) ^ path.length := by
  have ha := FanBlockOnly_agree b _ docSel_real flex grid t hb
  unfold evalNode at h
  rw [eval_agree (C16.logged ci) _ _ _ fuel t _ inp ha] at h
  exact C16.leaf_calls_le_pow ci _ (algsFan b) (2 * b) (algsFan_callsAtMost b) fuel t inp path r h

/-- non-vacuity: a block root with a leaf and an absolutely positioned leaf, and the C05 example tree (with a hidden
subtree), are `FanBlockOnly 2` -/
example : FanBlockOnly 2 (C06.exA : STree α) ∧ FanBlockOnly 2 (C05.exA : STree α) := by
  refine ⟨?_, ?_⟩ <;>
    simp [C06.exA, C05.exA, FanBlockOnly, FanBlockOnlyList, C06.blockStyle, C06.absStyle,
      C05.blockStyle, C05.hiddenStyle, Style.default]

/-! ### `C16.AlgsCallsWithin Ks` does not hold for block

`AlgsCallsWithin Ks algs` asks for ONE finite list `Ks` containing every input any container program ever sends to a
child, whatever the container's own input.  The block program forwards its own width: the final-pass input of an
in-flow child has `parent_size.width = Some(container_outer_width)` and `available_space.width =
Definite(container_inner_width − margins)`, and `container_outer_width` is the container's `known_dimensions.width`
when that is given.  So the set of child inputs is unbounded as the container's input varies (over `Rat`), and no `Ks`
exists.  Concrete instance of the dependence: -/

/-- the first child query of a program -/
def firstCall {β : Type} : ProgM α β → Option (Nat × LayoutInput α)
  | .pure _ => none
  | .call i inp _ => some (i, inp)
  | .setLayout _ _ k => firstCall (k ())

/-- **block_child_input_depends_on_input**: the same block container with the same child, given
`known_dimensions.width = 100` resp. `200`, queries the child with `parent_size.width = 100` resp. `200` -/
theorem block_child_input_depends_on_input :
    (firstCall (computeBlockLayout (C05.blockStyle : Style Rat) [C05.blockStyle]
      { (plIn : LayoutInput Rat) with knownDimensions := ⟨some 100, none⟩ })).map (·.2.parentSize.width)
      = some (some 100) ∧
    (firstCall (computeBlockLayout (C05.blockStyle : Style Rat) [C05.blockStyle]
      { (plIn : LayoutInput Rat) with knownDimensions := ⟨some 200, none⟩ })).map (·.2.parentSize.width)
      = some (some 200) := by
  decide +kernel

/-! ## Repaired finding: `Layout.order` of a `display:none` child no longer depends on the cache state

Before the repair 452a387 the hidden-children loops (block.rs step 5, flexbox.rs, grid/mod.rs) wrote
`Layout::with_order(order)` and THEN called `perform_child_layout` on the hidden child.  On a cache miss the callee
(`compute_hidden_layout`) overwrote the layout with `Layout::with_order(0)`; on a cache hit it did not: `order` was 0
after a fresh pass and the child index after a relayout (replayed on the real `TaffyTree`, /tmp/w_blk/scratch/ordchk:
0 / 1 / 0).  With the call first and the write after it, `order` is the child index in every run.  The two former
witnesses, on the repaired model (at `Rat`): -/
section finding

def wBlock : Style Rat := { (Style.default : Style Rat) with display := .block }
def wHidden : Style Rat := { (Style.default : Style Rat) with display := .none }
/-- block root with a 10×10 leaf and a `display:none` leaf (child index 1) -/
def wTree : STree Rat := .node wBlock none [.node wBlock (some (.fixed 10 10)) [], .node wHidden none []]
/-- the same below one more block container -/
def wTree2 : STree Rat := .node wBlock none [wTree]
def wIn1 : LayoutInput Rat := { (LayoutInput.hidden : LayoutInput Rat) with runMode := .performLayout }
def wIn2 : LayoutInput Rat := { wIn1 with knownDimensions := ⟨some 100, none⟩ }
def wAlgs : Algs Rat := EvalConcrete.algs EvalConcrete.idle EvalConcrete.idle
def orderAt {C : Type} (ns : NS Rat C) (p : List Nat) : Option Nat := (C05.nsAt ns p).map (·.layout.order)

/-- **hidden_order_history_repaired** (real nine-slot cache): after a pass with input 1 and a second pass with input 2
(no edit in between) the hidden child has `order = 1` = its index, and so it has after a single pass with input 2 over
a fresh tree (formerly `0`) -/
theorem hidden_order_history_repaired :
    orderAt (evalNode realCache wAlgs 3 wTree (evalNode realCache wAlgs 3 wTree (NS.init realCache wTree) wIn1).2
      wIn2).2 [1] = some 1 ∧
    orderAt (evalNode realCache wAlgs 3 wTree (NS.init realCache wTree) wIn2).2 [1] = some 1 := by
  decide +kernel

/-- **hidden_order_single_pass_repaired** (exact memo): in ONE pass over a fresh tree the exact-memo evaluator and the
cache-free evaluator now store the same `order` (the child index) at the hidden grandchild, although the inner block
runs twice (content-width query and final layout) and its second run hits the hidden child's memo (formerly `1` vs `0`) -/
theorem hidden_order_single_pass_repaired :
    orderAt (evalNode exactMemo wAlgs 4 wTree2 (NS.init exactMemo wTree2) wIn1).2 [0, 1] = some 1 ∧
    orderAt (evalNode noCache wAlgs 4 wTree2 (NS.init noCache wTree2) wIn1).2 [0, 1] = some 1 := by
  decide +kernel

end finding

end EvalBlock

/-
  Obligations to audit (`#print axioms`; all depend on [propext, Classical.choice, Quot.sound] at most):
  EVALBLOCK_THEOREMS = [
    -- C05
    "EvalBlock.block_PHZ", "EvalBlock.block_HiddenBlind", "EvalBlock.idle_PHZ", "EvalBlock.idle_HiddenBlind",
    "EvalBlock.algs_PHZ", "EvalBlock.algs_HiddenBlind", "EvalBlock.hidden_zero_algs", "EvalBlock.hidden_invisible_algs",
    "EvalBlock.BlockOnly_NoFG_real", "EvalBlock.eval_block_leaf_trees",
    "EvalBlock.hidden_zero_block_leaf_trees", "EvalBlock.hidden_zero_pass_block_leaf_trees",
    "EvalBlock.hidden_invisible_block_leaf_trees", "EvalBlock.hidden_invisible_pass_block_leaf_trees",
    "EvalBlock.hidden_invisible_replace_block_leaf_trees",
    -- C06
    "EvalBlock.block_AbsBlind", "EvalBlock.idle_AbsBlind", "EvalBlock.algs_AbsBlind", "EvalBlock.abs_invisible_algs",
    "EvalBlock.abs_invisible_block_leaf_trees", "EvalBlock.abs_invisible_pass_block_leaf_trees",
    "EvalBlock.abs_invisible_replace_block_leaf_trees",
    -- C01
    "EvalBlock.block_PLCovers", "EvalBlock.coverAlg_PLCovers", "EvalBlock.algs_PLCovers",
    "EvalBlock.single_pass_layouts_quiet_algs",
    "EvalBlock.docSel_real", "EvalBlock.single_pass_layouts_quiet_block_leaf_trees",
    "EvalBlock.history_layouts_quiet_block_leaf_trees",
    -- C16
    "EvalBlock.block_CallsAtMost", "EvalBlock.block_calls_lower", "EvalBlock.not_AlgsCallsAtMost_algs",
    "EvalBlock.leaf_calls_le_pow_block_leaf_trees", "EvalBlock.block_child_input_depends_on_input",
    -- repaired finding (`order` of display:none children = child index in every run)
    "EvalBlock.hidden_order_history_repaired", "EvalBlock.hidden_order_single_pass_repaired",
    -- supporting lemmas worth auditing by name
    "EvalBlock.computeInner_eq", "EvalBlock.computeBlockLayout_cases", "EvalBlock.eval_algs_congr",
    "EvalBlock.eval_agree", "EvalBlock.QuietRun_agree", "EvalBlock.runHistory_agree", "EvalBlock.QuietHistory_agree",
    "EvalBlock.AgreeHist_final", "EvalBlock.algsCov_PLCovers", "EvalBlock.algsFan_callsAtMost",
    "EvalBlock.BlockOnly_agree", "EvalBlock.BlockOnlyHist_agree", "EvalBlock.FanBlockOnly_agree",
    "EvalBlock.BlockOnly_replaceAt", "EvalBlock.Track_computeBlockLayout",
    "EvalBlock.Covers_iff_Track", "EvalBlock.placeItem_rel",
  ]
-/
