/-
  Tie (tier T) for src/util/math.rs: the five `MaybeMath` impls (25 functions) and their `Size<T>` liftings.

  `Gen.MaybeMath.*` is regenerated from the Rust source on every run; each theorem states that the generated definition
  IS the hand-written `MaybeMath.*` / `Size.*` of Model/Style.lean — for every argument and every `[Num α]`.
-/
import TaffyVerif.Generated.MaybeMath
import TaffyVerif.Model.Style

namespace TieMaybeMath
variable {α : Type} [Num α]

/-! ### `Option<f32> ∘ Option<f32>` -/

/-- `maybe_min` of `impl MaybeMath for` Option<f32> ∘ Option<f32> -/
theorem oo_min_eq : Gen.MaybeMath.oo_maybe_min (α := α) = MaybeMath.oo_min := by
  funext l r; cases l <;> cases r <;> rfl

/-- `maybe_max` of `impl MaybeMath for` Option<f32> ∘ Option<f32> -/
theorem oo_max_eq : Gen.MaybeMath.oo_maybe_max (α := α) = MaybeMath.oo_max := by
  funext l r; cases l <;> cases r <;> rfl

/-- `maybe_clamp` of `impl MaybeMath for` Option<f32> ∘ Option<f32> -/
theorem oo_clamp_eq : Gen.MaybeMath.oo_maybe_clamp (α := α) = MaybeMath.oo_clamp := by
  funext x mn mx; cases x <;> cases mn <;> cases mx <;> rfl

/-- `maybe_add` of `impl MaybeMath for` Option<f32> ∘ Option<f32> -/
theorem oo_add_eq : Gen.MaybeMath.oo_maybe_add (α := α) = MaybeMath.oo_add := by
  funext l r; cases l <;> cases r <;> rfl

/-- `maybe_sub` of `impl MaybeMath for` Option<f32> ∘ Option<f32> -/
theorem oo_sub_eq : Gen.MaybeMath.oo_maybe_sub (α := α) = MaybeMath.oo_sub := by
  funext l r; cases l <;> cases r <;> rfl

/-! ### `Option<f32> ∘ f32` -/

/-- `maybe_min` of `impl MaybeMath for` Option<f32> ∘ f32 -/
theorem of_min_eq : Gen.MaybeMath.of_maybe_min (α := α) = MaybeMath.of_min := by
  funext l r; cases l <;> rfl

/-- `maybe_max` of `impl MaybeMath for` Option<f32> ∘ f32 -/
theorem of_max_eq : Gen.MaybeMath.of_maybe_max (α := α) = MaybeMath.of_max := by
  funext l r; cases l <;> rfl

/-- `maybe_clamp` of `impl MaybeMath for` Option<f32> ∘ f32 -/
theorem of_clamp_eq : Gen.MaybeMath.of_maybe_clamp (α := α) = MaybeMath.of_clamp := by
  funext l mn mx; cases l <;> rfl

/-- `maybe_add` of `impl MaybeMath for` Option<f32> ∘ f32 -/
theorem of_add_eq : Gen.MaybeMath.of_maybe_add (α := α) = MaybeMath.of_add := by
  funext l r; cases l <;> rfl

/-- `maybe_sub` of `impl MaybeMath for` Option<f32> ∘ f32 -/
theorem of_sub_eq : Gen.MaybeMath.of_maybe_sub (α := α) = MaybeMath.of_sub := by
  funext l r; cases l <;> rfl

/-! ### `f32 ∘ Option<f32>` -/

/-- `maybe_min` of `impl MaybeMath for` f32 ∘ Option<f32> -/
theorem fo_min_eq : Gen.MaybeMath.fo_maybe_min (α := α) = MaybeMath.fo_min := by
  funext l r; cases r <;> rfl

/-- `maybe_max` of `impl MaybeMath for` f32 ∘ Option<f32> -/
theorem fo_max_eq : Gen.MaybeMath.fo_maybe_max (α := α) = MaybeMath.fo_max := by
  funext l r; cases r <;> rfl

/-- `maybe_clamp` of `impl MaybeMath for` f32 ∘ Option<f32> -/
theorem fo_clamp_eq : Gen.MaybeMath.fo_maybe_clamp (α := α) = MaybeMath.fo_clamp := by
  funext x mn mx; cases mn <;> cases mx <;> rfl

/-- `maybe_add` of `impl MaybeMath for` f32 ∘ Option<f32> -/
theorem fo_add_eq : Gen.MaybeMath.fo_maybe_add (α := α) = MaybeMath.fo_add := by
  funext l r; cases r <;> rfl

/-- `maybe_sub` of `impl MaybeMath for` f32 ∘ Option<f32> -/
theorem fo_sub_eq : Gen.MaybeMath.fo_maybe_sub (α := α) = MaybeMath.fo_sub := by
  funext l r; cases r <;> rfl

/-! ### `AvailableSpace ∘ f32` -/

/-- `maybe_min` of `impl MaybeMath for` AvailableSpace ∘ f32 -/
theorem af_min_eq : Gen.MaybeMath.af_maybe_min (α := α) = MaybeMath.af_min := by
  funext a r; cases a <;> rfl

/-- `maybe_max` of `impl MaybeMath for` AvailableSpace ∘ f32 -/
theorem af_max_eq : Gen.MaybeMath.af_maybe_max (α := α) = MaybeMath.af_max := by
  funext a r; cases a <;> rfl

/-- `maybe_clamp` of `impl MaybeMath for` AvailableSpace ∘ f32 -/
theorem af_clamp_eq : Gen.MaybeMath.af_maybe_clamp (α := α) = MaybeMath.af_clamp := by
  funext a mn mx; cases a <;> rfl

/-- `maybe_add` of `impl MaybeMath for` AvailableSpace ∘ f32 -/
theorem af_add_eq : Gen.MaybeMath.af_maybe_add (α := α) = MaybeMath.af_add := by
  funext a r; cases a <;> rfl

/-- `maybe_sub` of `impl MaybeMath for` AvailableSpace ∘ f32 -/
theorem af_sub_eq : Gen.MaybeMath.af_maybe_sub (α := α) = MaybeMath.af_sub := by
  funext a r; cases a <;> rfl

/-! ### `AvailableSpace ∘ Option<f32>` -/

/-- `maybe_min` of `impl MaybeMath for` AvailableSpace ∘ Option<f32> -/
theorem ao_min_eq : Gen.MaybeMath.ao_maybe_min (α := α) = MaybeMath.ao_min := by
  funext a r; cases a <;> cases r <;> rfl

/-- `maybe_max` of `impl MaybeMath for` AvailableSpace ∘ Option<f32> -/
theorem ao_max_eq : Gen.MaybeMath.ao_maybe_max (α := α) = MaybeMath.ao_max := by
  funext a r; cases a <;> cases r <;> rfl

/-- `maybe_clamp` of `impl MaybeMath for` AvailableSpace ∘ Option<f32> -/
theorem ao_clamp_eq : Gen.MaybeMath.ao_maybe_clamp (α := α) = MaybeMath.ao_clamp := by
  funext a mn mx; cases a <;> cases mn <;> cases mx <;> rfl

/-- `maybe_add` of `impl MaybeMath for` AvailableSpace ∘ Option<f32> -/
theorem ao_add_eq : Gen.MaybeMath.ao_maybe_add (α := α) = MaybeMath.ao_add := by
  funext a r; cases a <;> cases r <;> rfl

/-- `maybe_sub` of `impl MaybeMath for` AvailableSpace ∘ Option<f32> -/
theorem ao_sub_eq : Gen.MaybeMath.ao_maybe_sub (α := α) = MaybeMath.ao_sub := by
  funext a r; cases a <;> cases r <;> rfl

/-! ### the generic `Size<T>` impl, at the instantiations the model has -/

/-- `Size<T>::maybe_add` at Option<f32> ∘ Option<f32> -/
theorem size_oo_add_eq : Gen.MaybeMath.Size.oo_maybe_add (α := α) = Size.oo_add := by
  funext a b
  simp only [Gen.MaybeMath.Size.oo_maybe_add, Size.oo_add, oo_add_eq]

/-- `Size<T>::maybe_sub` at Option<f32> ∘ Option<f32> -/
theorem size_oo_sub_eq : Gen.MaybeMath.Size.oo_maybe_sub (α := α) = Size.oo_sub := by
  funext a b
  simp only [Gen.MaybeMath.Size.oo_maybe_sub, Size.oo_sub, oo_sub_eq]

/-- `Size<T>::maybe_max` at Option<f32> ∘ Option<f32> -/
theorem size_oo_max_eq : Gen.MaybeMath.Size.oo_maybe_max (α := α) = Size.oo_max := by
  funext a b
  simp only [Gen.MaybeMath.Size.oo_maybe_max, Size.oo_max, oo_max_eq]

/-- `Size<T>::maybe_min` at Option<f32> ∘ Option<f32> -/
theorem size_oo_min_eq : Gen.MaybeMath.Size.oo_maybe_min (α := α) = Size.oo_min := by
  funext a b
  simp only [Gen.MaybeMath.Size.oo_maybe_min, Size.oo_min, oo_min_eq]

/-- `Size<T>::maybe_clamp` at Option<f32> ∘ Option<f32> -/
theorem size_oo_clamp_eq : Gen.MaybeMath.Size.oo_maybe_clamp (α := α) = Size.oo_clamp := by
  funext a mn mx
  simp only [Gen.MaybeMath.Size.oo_maybe_clamp, Size.oo_clamp, oo_clamp_eq]

/-- `Size<T>::maybe_add` at Option<f32> ∘ f32 -/
theorem size_of_add_eq : Gen.MaybeMath.Size.of_maybe_add (α := α) = Size.of_add := by
  funext a b
  simp only [Gen.MaybeMath.Size.of_maybe_add, Size.of_add, of_add_eq]

/-- `Size<T>::maybe_sub` at Option<f32> ∘ f32 -/
theorem size_of_sub_eq : Gen.MaybeMath.Size.of_maybe_sub (α := α) = Size.of_sub := by
  funext a b
  simp only [Gen.MaybeMath.Size.of_maybe_sub, Size.of_sub, of_sub_eq]

/-- `Size<T>::maybe_max` at Option<f32> ∘ f32 -/
theorem size_of_max_eq : Gen.MaybeMath.Size.of_maybe_max (α := α) = Size.of_max := by
  funext a b
  simp only [Gen.MaybeMath.Size.of_maybe_max, Size.of_max, of_max_eq]

/-- `Size<T>::maybe_clamp` at f32 ∘ Option<f32> -/
theorem size_fo_clamp_eq : Gen.MaybeMath.Size.fo_maybe_clamp (α := α) = Size.fo_clamp := by
  funext a mn mx
  simp only [Gen.MaybeMath.Size.fo_maybe_clamp, Size.fo_clamp, fo_clamp_eq]

/-- `Size<T>::maybe_max` at f32 ∘ Option<f32> -/
theorem size_fo_max_eq : Gen.MaybeMath.Size.fo_maybe_max (α := α) = Size.fo_max := by
  funext a b
  simp only [Gen.MaybeMath.Size.fo_maybe_max, Size.fo_max, fo_max_eq]

/-- `Size<T>::maybe_min` at f32 ∘ Option<f32> -/
theorem size_fo_min_eq : Gen.MaybeMath.Size.fo_maybe_min (α := α) = Size.fo_min := by
  funext a b
  simp only [Gen.MaybeMath.Size.fo_maybe_min, Size.fo_min, fo_min_eq]

/-- `Size<T>::maybe_sub` at AvailableSpace ∘ Option<f32> -/
theorem size_ao_sub_eq : Gen.MaybeMath.Size.ao_maybe_sub (α := α) = Size.ao_sub := by
  funext a b
  simp only [Gen.MaybeMath.Size.ao_maybe_sub, Size.ao_sub, ao_sub_eq]

/-- `Size<T>::maybe_sub` at AvailableSpace ∘ f32 -/
theorem size_af_sub_eq : Gen.MaybeMath.Size.af_maybe_sub (α := α) = Size.af_sub := by
  funext a b
  simp only [Gen.MaybeMath.Size.af_maybe_sub, Size.af_sub, af_sub_eq]

end TieMaybeMath
