/-
  C09 for the WHOLE grid program — what `compute_grid_layout` (Model/Grid.lean, `GridModel.computeGridLayoutE`) does to its
  tracks on every run, i.e. for every style, every list of child styles, every input and every ORACLE answering the child
  queries (`runWith orc`).  Exact rationals.

  Observation point (`GridLift.FinalGrid`, Lemmas/GridLiftProg.lean): the column and row track vectors right after
  `align_tracks` (step 8) — what the item-positioning loop of step 9 reads.  `GridLift.computeGridLayoutE_eq_G` (by `rfl`)
  says that `compute_grid_layout` IS the program `computeGridLayoutG` up to that point followed by step 9 (`gridFinish`);
  `gridFinalM` is that program returning the `FinalGrid` instead of going on.  A run that returns early (ComputeSize mode) or
  panics has no final grid; nothing is claimed of it.

  The theorems are lifted from the pure component models (Props/C09.lean) through ONE refinement lemma,
  `track_sizing_refines`: on every run the track sizing *program* (Model/GridSizing.lean) returns the axis tracks that the
  *pure* track sizing algorithm (Model/FrSize.lean) computes from contribution data — the data being what the run left in
  the items' contribution caches.
-/
import TaffyVerif.Lemmas.GridLiftProg
import TaffyVerif.Props.C09

set_option linter.unusedSectionVars false
set_option linter.unusedVariables false

namespace C09Grid
open GridModel GridTracks EvalGrid EvalBlock GridLift

/-! ### runs against an oracle -/

/-- run an interaction program against an oracle that answers the child queries (layouts assigned are dropped) -/
def runWith {α β : Type} (orc : Nat → LayoutInput α → LayoutOutput α) : ProgM α β → β
  | .pure b => b
  | .call c i k => runWith orc (k (orc c i))
  | .setLayout _ _ k => runWith orc (k ())

/-- a postcondition of a program holds of its run against every oracle -/
theorem GPost_runWith {α β : Type} [Num α] (Q : β → Prop) (p : GM α β) (h : GPost Q p)
    (orc : Nat → LayoutInput α → LayoutOutput α) (b : β) (hb : runWith orc (run p) = .ok b) : Q b := by
  unfold GPost at h
  generalize run p = q at h hb
  induction q with
  | pure r => exact h b hb
  | call c i k ih => exact ih (orc c i) (h (orc c i)) hb
  | setLayout c l k ih => exact ih () h hb

/-- `f` is the final grid of the run of `compute_grid_layout style cs inputs` against `orc` -/
def FinalOf (style : GridStyle Rat) (cs : List (GridChildStyle Rat)) (inputs : LayoutInput Rat)
    (orc : Nat → LayoutInput Rat → LayoutOutput Rat) (f : FinalGrid Rat) : Prop :=
  runWith orc (run (gridFinalM style cs inputs)) = .ok (.inr f)

/-- **observation_point**: `compute_grid_layout` is the program up to the observation point followed by step 9 (`rfl`) -/
theorem observation_point (style : GridStyle Rat) (cs : List (GridChildStyle Rat)) (inputs : LayoutInput Rat) :
    computeGridLayoutE style cs inputs =
      computeGridLayoutG trackSizingAlgorithmM style cs inputs (gridFinish (mkCtx style.base inputs) cs) pure :=
  computeGridLayoutE_eq_G style cs inputs

/-- every final grid satisfies the specification proved in Lemmas/GridLiftProg.lean -/
theorem final_spec {style : GridStyle Rat} {cs : List (GridChildStyle Rat)} {inputs : LayoutInput Rat}
    {orc : Nat → LayoutInput Rat → LayoutOutput Rat} {f : FinalGrid Rat} (h : FinalOf style cs inputs orc f) :
    FinalSpec style cs inputs f :=
  GPost_runWith _ _ (gridFinalM_spec style cs inputs) orc _ h

/-- **final_property_for_every_continuation**: any consequence `P` of `FinalSpec` may be assumed of the final grid when
reasoning about what follows the observation point — for every continuation `k`, in particular `gridFinish`, i.e. the rest
of `compute_grid_layout` itself -/
theorem final_property_for_every_continuation {β : Type} (P : FinalGrid Rat → Prop) (R : β → Prop)
    (style : GridStyle Rat) (cs : List (GridChildStyle Rat)) (inputs : LayoutInput Rat)
    (hP : ∀ f, FinalSpec style cs inputs f → P f) (k : FinalGrid Rat → GM Rat β) (early : LayoutOutput Rat → GM Rat β)
    (hk : ∀ f, P f → GPost R (k f)) (he : ∀ o, GPost R (early o)) :
    GPost R (computeGridLayoutG trackSizingAlgorithmM style cs inputs k early) :=
  reaches_final R style cs inputs k early (fun f hf => hk f (hP f hf)) he

/-- **program_may_assume_final_spec**: … for `compute_grid_layout` itself: a postcondition of the program's output holds
on every run if it holds of the early ComputeSize results and of step 9 started from any final grid satisfying `FinalSpec`
(hence any of the properties below) -/
theorem program_may_assume_final_spec (R : LayoutOutput Rat → Prop) (style : GridStyle Rat)
    (cs : List (GridChildStyle Rat)) (inputs : LayoutInput Rat)
    (hk : ∀ f, FinalSpec style cs inputs f → GPost R (gridFinish (mkCtx style.base inputs) cs f)) (he : ∀ o, R o) :
    GPost R (computeGridLayoutE style cs inputs) := by
  rw [observation_point]
  exact reaches_final R style cs inputs _ _ hk fun o => GPost_pure _ _ (he o)

/-! ### the refinement: track sizing program ⊑ pure track sizing -/

/-- **track_sizing_refines**: for every run of `track_sizing_algorithm` as an interaction program (every oracle), on items
whose track indexes and crossing flags are consistent with the axis tracks (`GoodItem`: what `resolve_item_track_indexes`
and `determine_if_item_crosses_flexible_or_intrinsic_tracks` establish), there is contribution data — one pure `Item` per
grid item, read off the contribution caches the run leaves behind — such that the axis tracks returned are exactly those of
the pure algorithm.  The pure algorithm is taken in its two-list form `trackSizing2`: `expand_flexible_tracks` reads the
cached max-content contribution WITHOUT the margins (`itemsX`), every other step reads it WITH them (`items`). -/
theorem track_sizing_refines (a : RunArgs Rat) (st : RunState Rat) (n : Int)
    (hg : ∀ it ∈ st.items, GoodItem a.axis n st.axisTracks it) (orc : Nat → LayoutInput Rat → LayoutOutput Rat)
    (st' : RunState Rat) (h : runWith orc (run (trackSizingAlgorithmM a st)) = .ok st') :
    ∃ items itemsX : List (Item Rat),
      items = st'.items.map (absI a.axis a.innerNodeSize.width) ∧
      itemsX = st'.items.map (absX a.axis a.innerNodeSize.width) ∧
      (∀ I ∈ items, I.start < I.end) ∧
      st'.axisTracks = trackSizing2 (paramsOf a) st.axisTracks items itemsX := by
  obtain ⟨h1, h2⟩ := GPost_runWith _ _ (trackSizingAlgorithmM_refines totalIsLt_rat a st n hg) orc st' h
  refine ⟨_, _, rfl, rfl, ?_, h1⟩
  intro I hI
  obtain ⟨it, hit, rfl⟩ := List.mem_map.1 hI
  exact absI_valid _ _ (h2 it hit)

/-- **track_sizing_refines_pure**: if the items have zero margin sums in the sized axis (baseline shims included), the two
lists coincide and the run refines `GridTracks.trackSizingAlgorithm` itself -/
theorem track_sizing_refines_pure (a : RunArgs Rat) (st : RunState Rat) (n : Int)
    (hg : ∀ it ∈ st.items, GoodItem a.axis n st.axisTracks it) (orc : Nat → LayoutInput Rat → LayoutOutput Rat)
    (st' : RunState Rat) (h : runWith orc (run (trackSizingAlgorithmM a st)) = .ok st')
    (hm : ∀ it ∈ st'.items, mrg a.innerNodeSize.width a.axis it = 0) :
    st'.axisTracks = trackSizingAlgorithm (paramsOf a) st.axisTracks
      (st'.items.map (absI a.axis a.innerNodeSize.width)) := by
  obtain ⟨items, itemsX, e1, e2, _, e⟩ := track_sizing_refines a st n hg orc st' h
  have : itemsX = items := by
    rw [e1, e2]
    refine List.map_congr_left fun it hit => ?_
    unfold absX absI
    simp only [hm it hit, add_zero]
  rw [e, this, trackSizing2_self, e1]

/-! ### (a) fixed tracks -/

/-- **grid_fixed_tracks_exact**: in the final grid of every run, every column or row track (or gutter) whose min and max
sizing functions are the same fixed length `v` has base size exactly `v` (and growth limit `v`).  Lifted from
`C09.fixed_track_exact` through `track_sizing_refines`, across the up to two runs per axis, `set_gutter_adjustment`, the
re-resolution of percentage tracks (step 7) and `align_tracks`. -/
theorem grid_fixed_tracks_exact (style : GridStyle Rat) (cs : List (GridChildStyle Rat)) (inputs : LayoutInput Rat)
    (orc : Nat → LayoutInput Rat → LayoutOutput Rat) (f : FinalGrid Rat) (h : FinalOf style cs inputs orc f) :
    ∀ t ∈ f.columns ++ f.rows, ∀ v, t.minFn = .length v → t.maxFn = .length v →
      t.baseSize = v ∧ t.growthLimit = .fin v := by
  obtain ⟨su, d, hok, hf⟩ := final_spec h
  intro t ht v h1 h2
  rcases List.mem_append.1 ht with ht | ht
  · exact ⟨(hf.inv.fixC t ht v h1 h2).base, (hf.inv.fixC t ht v h1 h2).gl⟩
  · exact ⟨(hf.inv.fixR t ht v h1 h2).base, (hf.inv.fixR t ht v h1 h2).gl⟩

/-! ### (b) gutters -/

/-- the vector is `gutter, track, …, gutter`; outer gutters are collapsed and 0 wide; every inner gutter carries the gap as
both sizing functions (and, for a length gap, is exactly that wide) or is the collapsed zero gutter after a collapsed
`auto-fit` track -/
def GuttersOK (gap : LP Rat) (T : List (GridTrack Rat)) : Prop :=
  (∃ n, T.length = 2 * n + 1) ∧
  (∀ i t, T[i]? = some t → t.kind = if i % 2 = 0 then .gutter else .track) ∧
  (∀ i t, T[i]? = some t → (i = 0 ∨ i = T.length - 1) →
      t.isCollapsed = true ∧ t.minFn = .length 0 ∧ t.maxFn = .length 0 ∧ t.baseSize = 0) ∧
  (∀ i t, T[i]? = some t → i % 2 = 0 → 0 < i → i < T.length - 1 →
      (t.isCollapsed = false ∧ t.minFn = MinTrack.ofLP gap ∧ t.maxFn = MaxTrack.ofLP gap ∧
        ∀ g, gap = .length g → t.baseSize = g) ∨
      (t.isCollapsed = true ∧ t.minFn = .length 0 ∧ t.maxFn = .length 0 ∧ t.baseSize = 0 ∧
        ∃ tp, T[i - 1]? = some tp ∧ tp.isCollapsed = true))

theorem guttersOK_of (counts : TrackCounts) (tpl : List (TrackDef Rat)) (autoTracks : List (TrackFn Rat))
    (gap : LP Rat) (has : Nat → Bool) (T0 T : List (GridTrack Rat))
    (h0 : initializeGridTracks counts tpl autoTracks gap has = .ok T0) (hss : SS T0 T)
    (hfix : ∀ t ∈ T, Fix1 t) : GuttersOK gap T := by
  obtain ⟨hlen, hk, houter, hinner⟩ := C09.tracks_alternate counts tpl autoTracks gap has T0 h0
  have hl : T.length = T0.length := hss.length
  -- the shape of the track at position `i`
  have key : ∀ i t, T[i]? = some t → ∃ (hi : i < T0.length), t.kind = T0[i].kind ∧ t.isCollapsed = T0[i].isCollapsed ∧
      t.minFn = T0[i].minFn ∧ t.maxFn = T0[i].maxFn := by
    intro i t ht
    obtain ⟨t0, ht0, hs⟩ := hss.getElem? i t ht
    obtain ⟨hi, e⟩ := List.getElem?_eq_some_iff.1 ht0
    subst e
    exact ⟨hi, congrArg (·.1) hs, congrArg (·.2.1) hs, congrArg (·.2.2.1) hs, congrArg (·.2.2.2) hs⟩
  refine ⟨by rw [hl]; exact hlen, ?_, ?_, ?_⟩
  · intro i t ht
    obtain ⟨hi, e1, _⟩ := key i t ht
    rw [e1]; exact hk i hi
  · intro i t ht ho
    obtain ⟨hi, _, e2, e3, e4⟩ := key i t ht
    obtain ⟨a, b, c⟩ := houter i hi (by rw [← hl]; exact ho)
    have hmn : t.minFn = .length 0 := by rw [e3, b]
    have hmx : t.maxFn = .length 0 := by rw [e4, c]
    exact ⟨by rw [e2, a], hmn, hmx, (hfix t (List.mem_of_getElem? ht) 0 hmn hmx).base⟩
  · intro i t ht hev hpos hlt
    obtain ⟨hi, _, e2, e3, e4⟩ := key i t ht
    rcases hinner i hi hev hpos (by rw [← hl]; exact hlt) with ⟨a, b, c⟩ | ⟨a, b, c, dd⟩
    · left
      refine ⟨by rw [e2, a], by rw [e3, b], by rw [e4, c], ?_⟩
      intro g hg
      subst hg
      exact (hfix t (List.mem_of_getElem? ht) g (by rw [e3, b]; rfl) (by rw [e4, c]; rfl)).base
    · right
      have hmn : t.minFn = .length 0 := by rw [e3, b]
      have hmx : t.maxFn = .length 0 := by rw [e4, c]
      refine ⟨by rw [e2, a], hmn, hmx, (hfix t (List.mem_of_getElem? ht) 0 hmn hmx).base, ?_⟩
      have hi1 : i - 1 < T.length := by omega
      obtain ⟨hi1', _, e2', _⟩ := key (i - 1) _ (List.getElem?_eq_getElem hi1)
      exact ⟨_, List.getElem?_eq_getElem hi1, by rw [e2', dd]⟩

/-- **grid_gutters_are_gaps**: in the final grid of every run both track vectors alternate gutter / track, start and end
with a collapsed gutter of size 0, and every inner gutter has the container's gap as its sizing functions — with base size
exactly the gap when the gap is a length — or is the collapsed zero gutter of a collapsed `auto-fit` track.  (For a
percentage gap the sizing functions are the percentage; its resolved size is not covered.) -/
theorem grid_gutters_are_gaps (style : GridStyle Rat) (cs : List (GridChildStyle Rat)) (inputs : LayoutInput Rat)
    (orc : Nat → LayoutInput Rat → LayoutOutput Rat) (f : FinalGrid Rat) (h : FinalOf style cs inputs orc f) :
    GuttersOK style.base.gap.width f.columns ∧ GuttersOK style.base.gap.height f.rows := by
  obtain ⟨su, d, hok, hf⟩ := final_spec h
  exact ⟨guttersOK_of _ _ _ _ _ _ _ hok.hcols hf.inv.ssC hf.inv.fixC,
    guttersOK_of _ _ _ _ _ _ _ hok.hrows hf.inv.ssR hf.inv.fixR⟩

/-! ### (c) explicit track count -/

theorem estimateAxis_explicit {mn mx sp e : Int} {t : GridPlacement.TrackCounts}
    (h : GridPlacement.estimateAxis mn mx sp e = .ok t) : t.explicit = e := by
  simp only [GridPlacement.estimateAxis, GridPlacement.bind_eq, GridPlacement.bind_eq_ok, GridPlacement.pure_eq] at h
  obtain ⟨_, _, _, _, _, _, _, _, h⟩ := h
  simp only [GridPlacement.Outcome.ok.injEq] at h
  rw [← h]

/-- the explicit counts of the final matrix are those `compute_explicit_grid_size_in_axis` returned -/
theorem setup_explicit {style : GridStyle Rat} {cs : List (GridChildStyle Rat)} {inputs : LayoutInput Rat}
    {su : Setup Rat} {d : SetupData Rat} (h : SetupOK style cs inputs su d) :
    d.placed.matrix.columns.explicit = d.ec ∧ d.placed.matrix.rows.explicit = d.er := by
  have hest := h.hest
  simp only [GridPlacement.computeGridSizeEstimate, GridPlacement.bind_eq, GridPlacement.bind_eq_ok,
    GridPlacement.pure_eq, GridPlacement.Outcome.ok.injEq, Prod.mk.injEq] at hest
  obtain ⟨k, _, cols, hc, rows, hr, e1, e2⟩ := hest
  obtain ⟨_, hmc, hmr, _⟩ := GridPlacement.withTrackCounts_wf h.hm0
  have inv := GridPlacement.invB_final h.hplaced
  constructor
  · rw [inv.growsC.exp, hmc, ← e1]; exact estimateAxis_explicit hc
  · rw [inv.growsR.exp, hmr, ← e2]; exact estimateAxis_explicit hr

/-- the vector `initialize_grid_tracks` returns has `2·(all tracks)+1` entries when the template is not absurdly long -/
theorem init_length (size maxSize : Dimension Rat) (gap : LP Rat) (tpl : List (TrackDef Rat)) (inner : Option Rat)
    (n : Nat) (hs : SmallReps tpl) (hlen : tpl.length < 65536)
    (hc : computeExplicitGridSizeInAxis size maxSize gap tpl inner = .ok n) (counts : TrackCounts)
    (hn : counts.explicit = n) (autoTracks : List (TrackFn Rat)) (has : Nat → Bool) (ts : List (GridTrack Rat))
    (h : initializeGridTracks counts tpl autoTracks gap has = .ok ts) :
    ts.length = 2 * (counts.negativeImplicit + n + counts.positiveImplicit) + 1 := by
  have hsum : counts.negativeImplicit + counts.explicit + counts.positiveImplicit ≤ 65535 := by
    unfold initializeGridTracks at h
    split at h
    · cases h
    · rename_i hov
      simp only [Bool.or_eq_true, decide_eq_true_eq, not_or, Nat.not_lt, u16Max] at hov
      have h3 : ¬ (counts.negativeImplicit + counts.explicit + counts.positiveImplicit > 65535) :=
        fun hgt => hov.2 (decide_eq_true hgt)
      omega
  obtain ⟨ts', h', hl⟩ := C09.explicit_count_is_expansion size maxSize gap tpl inner n hs hlen hc counts hn hsum
    autoTracks has
  rw [h] at h'
  cases h'
  exact hl

/-- **grid_explicit_count**: in the final grid of every run, the explicit track count of each axis is the number
`compute_explicit_grid_size_in_axis` computed from the template (`repeat()`s expanded, the auto-repetition count resolved
against the container), and — for templates of fewer than 65536 entries — the track vector has exactly
`2·(negative implicit + that number + positive implicit) + 1` entries: that many explicit tracks were emitted. -/
theorem grid_explicit_count (style : GridStyle Rat) (cs : List (GridChildStyle Rat)) (inputs : LayoutInput Rat)
    (orc : Nat → LayoutInput Rat → LayoutOutput Rat) (f : FinalGrid Rat) (h : FinalOf style cs inputs orc f) :
    ∃ ec er : Nat,
      computeExplicitGridSizeInAxis style.base.size.width style.base.maxSize.width style.base.gap.width
        style.gridTemplateColumns (mkCtx style.base inputs).autoFitContainerSize.width = .ok ec ∧
      computeExplicitGridSizeInAxis style.base.size.height style.base.maxSize.height style.base.gap.height
        style.gridTemplateRows (mkCtx style.base inputs).autoFitContainerSize.height = .ok er ∧
      f.colCounts.explicit = ec ∧ f.rowCounts.explicit = er ∧
      (SmallReps style.gridTemplateColumns → style.gridTemplateColumns.length < 65536 →
        f.columns.length = 2 * (f.colCounts.negativeImplicit.toNat + ec + f.colCounts.positiveImplicit.toNat) + 1) ∧
      (SmallReps style.gridTemplateRows → style.gridTemplateRows.length < 65536 →
        f.rows.length = 2 * (f.rowCounts.negativeImplicit.toNat + er + f.rowCounts.positiveImplicit.toNat) + 1) := by
  obtain ⟨su, d, hok, hf⟩ := final_spec h
  obtain ⟨x1, x2⟩ := setup_explicit hok
  refine ⟨d.ec, d.er, hok.hec, hok.her, ?_, ?_, ?_, ?_⟩
  · rw [hf.cc, hok.hcc]; exact x1
  · rw [hf.rc, hok.hrc]; exact x2
  · intro hs hl
    rw [hf.inv.ssC.length, hf.cc, hok.hcc]
    exact init_length _ _ _ _ _ _ hs hl hok.hec (toNatCounts d.placed.matrix.columns)
      (by show d.placed.matrix.columns.explicit.toNat = d.ec; rw [x1]; rfl) _ _ _ hok.hcols
  · intro hs hl
    rw [hf.inv.ssR.length, hf.rc, hok.hrc]
    exact init_length _ _ _ _ _ _ hs hl hok.her (toNatCounts d.placed.matrix.rows)
      (by show d.placed.matrix.rows.explicit.toNat = d.er; rw [x2]; rfl) _ _ _ hok.hrows

/-! ### (d) flexible tracks fill a definite container -/

theorem bump_sum_ge (T : List (GridTrack Rat)) (extra : Rat) (he : 0 ≤ extra) :
    (T.map (·.baseSize)).sum ≤
      ((T.map fun t => if t.maxFn.isAuto then { t with baseSize := t.baseSize + extra } else t).map (·.baseSize)).sum := by
  rw [List.map_map]
  refine sum_le_sum_map _ _ _ fun t _ => ?_
  simp only [Function.comp_apply]
  split
  · show t.baseSize ≤ t.baseSize + extra
    linarith
  · exact le_refl _

theorem stretch_sum_ge (T : List (GridTrack Rat)) (mn : Option Rat) (av : AvailableSpace Rat) :
    (T.map (·.baseSize)).sum ≤ ((stretchAutoTracks T mn av).map (·.baseSize)).sum := by
  unfold stretchAutoTracks
  simp only []
  split_ifs with h1 h2
  · refine bump_sum_ge T _ ?_
    have hpos : (0 : Rat) ≤ (Num.ofNat (T.filter (·.maxFn.isAuto)).length : Rat) := by
      show (0 : Rat) ≤ (((T.filter (·.maxFn.isAuto)).length : Nat) : Rat)
      exact_mod_cast Nat.zero_le _
    rw [rat_flt, decide_eq_true_eq] at h2
    exact div_nonneg (le_of_lt h2) hpos
  · exact le_refl _
  · exact le_refl _

theorem no_fr_of_all_eq (T : List (GridTrack Rat)) (inner : Option Rat)
    (h : (initializeTrackSizes T inner).all (fun t => t.growthLimit.eqF t.baseSize) = true) :
    ∀ t ∈ T, t.maxFn.isFr = false := by
  intro t ht
  have := List.all_eq_true.1 h _ (List.mem_map_of_mem (f := initializeTrackSize inner) ht)
  cases hm : t.maxFn with
  | fr v =>
    exfalso
    have hg : (initializeTrackSize inner t).growthLimit = .inf := by
      simp only [initializeTrackSize, hm, MaxTrack.definiteValue, Ext.ofOption, Ext.ltF, Bool.false_eq_true, if_false]
    rw [hg] at this
    cases this
  | _ => rfl

/-- the tracks as they enter `expand_flexible_tracks` in a run of the pure algorithm that does not exit early -/
def preExpand (p : SizingParams Rat) (T0 : List (GridTrack Rat)) (items : List (Item Rat)) : List (GridTrack Rat) :=
  let Ti := initializeTrackSizes T0 p.axisInner
  maximiseTracks (resolveIntrinsicTrackSizes Ti (items.map (determineCrossing Ti)) p.avail p.axisInner) p.axisInner p.avail

/-- what the fill clause says of the base sizes `sizes` of an axis whose container size `W` is definite -/
def FrFills (W : Rat) (tracks : List (GridTrack Rat)) : Prop :=
  (∀ t ∈ tracks, t.maxFn.isFr = false) ∨
  ∃ (p : SizingParams Rat) (T0 : List (GridTrack Rat)) (items : List (Item Rat)),
    p.axisInner = some W ∧
    ((∀ t ∈ preExpand p T0 items, 0 ≤ t.baseSize) → (∀ t ∈ preExpand p T0 items, ∀ v, t.maxFn = .fr v → 0 ≤ v) →
      ((preExpand p T0 items).map (·.baseSize)).sum < W →
      ∃ P, FrExit (preExpand p T0 items) W P (findSizeOfFr (preExpand p T0 items) W) ∧
        (1 ≤ frFlexSum P (preExpand p T0 items) → W ≤ (tracks.map (·.baseSize)).sum))

theorem frFills_of_LR (W : Rat) (p : SizingParams Rat) (hp : p.axisInner = some W) (T : List (GridTrack Rat))
    (hlr : LR p T) : FrFills W T := by
  obtain ⟨T0, items, itemsX, hv, e, hss⟩ := hlr
  by_cases hall : (initializeTrackSizes T0 p.axisInner).all (fun t => t.growthLimit.eqF t.baseSize) = true
  · left
    -- the early exit: no flexible track in `T0`, hence none in `T` (same shapes)
    have h0 := no_fr_of_all_eq T0 p.axisInner hall
    intro t ht
    obtain ⟨i, hi, rfl⟩ := List.mem_iff_getElem.1 ht
    obtain ⟨t0, ht0, hs⟩ := hss.getElem? i _ (List.getElem?_eq_getElem hi)
    have : T[i].maxFn = t0.maxFn := congrArg (·.2.2.2) hs
    rw [this]
    exact h0 t0 (List.mem_of_getElem? ht0)
  · right
    refine ⟨p, T0, items, hp, fun hbase hfac hfree => ?_⟩
    have hlate := trackSizing2_late p T0 items itemsX hall
    have hav : p.availForExpansion = .definite W := by unfold SizingParams.availForExpansion; rw [hp]
    obtain ⟨P, hexit, hfill⟩ := C09.fr_fills_partial (preExpand p T0 items)
      (itemsX.map (determineCrossing (initializeTrackSizes T0 p.axisInner))) p.axisMinSize p.axisMaxSize W hbase hfac hfree
    refine ⟨P, hexit, fun hsum => ?_⟩
    rw [e, hlate]
    simp only []
    rw [hav]
    have := hfill hsum
    split
    · exact le_trans this (stretch_sum_ge _ _ _)
    · exact this

theorem mkCtx_definite_w (s : Style Rat) (inputs : LayoutInput Rat) (W : Rat)
    (h : (mkCtx s inputs).innerNodeSize.width = some W) :
    (mkCtx s inputs).availableGridSpace.width.isDefinite = true := by
  unfold mkCtx at h ⊢
  simp only [Size.of_sub, Size.of_max, Size.oo_clamp, MaybeMath.of_sub, MaybeMath.of_max] at h ⊢
  generalize (inputs.knownDimensions.orOpt _).width = kd at h ⊢
  cases kd with
  | none => simp [MaybeMath.oo_clamp] at h
  | some v =>
    simp only []
    generalize (GItem.resolveSize s.minSize _ _ _).width = mn
    generalize (GItem.resolveSize s.maxSize _ _ _).width = mx
    cases mn <;> cases mx <;> rfl

theorem mkCtx_definite_h (s : Style Rat) (inputs : LayoutInput Rat) (W : Rat)
    (h : (mkCtx s inputs).innerNodeSize.height = some W) :
    (mkCtx s inputs).availableGridSpace.height.isDefinite = true := by
  unfold mkCtx at h ⊢
  simp only [Size.of_sub, Size.of_max, Size.oo_clamp, MaybeMath.of_sub, MaybeMath.of_max] at h ⊢
  generalize (inputs.knownDimensions.orOpt _).height = kd at h ⊢
  cases kd with
  | none => simp [MaybeMath.oo_clamp] at h
  | some v =>
    simp only []
    generalize (GItem.resolveSize s.minSize _ _ _).height = mn
    generalize (GItem.resolveSize s.maxSize _ _ _).height = mx
    cases mn <;> cases mx <;> rfl

/-- **grid_fr_fills_partial**: in the final grid of every run, for each axis in which the container's own inner size `W` is
definite: either the axis has no flexible track at all, or — `T` being the tracks as they entered `expand_flexible_tracks`
in the last run of that axis (`preExpand`: the pure algorithm's state for the run's contribution data) — under the side
conditions of `C09.fr_fills_partial` (base sizes and fr factors of `T` non-negative, positive free space) `find_size_of_fr`
leaves its loop with some last "previous" value `P`, and if the tracks still treated as flexible then have factor sum ≥ 1,
the final base sizes of the axis (tracks and gutters) add up to at least `W`: they fill the content box.  The unconditional
clause is false: `grid_fr_fill_full_false`. -/
theorem grid_fr_fills_partial (style : GridStyle Rat) (cs : List (GridChildStyle Rat)) (inputs : LayoutInput Rat)
    (orc : Nat → LayoutInput Rat → LayoutOutput Rat) (f : FinalGrid Rat) (h : FinalOf style cs inputs orc f) :
    (∀ W, (mkCtx style.base inputs).innerNodeSize.width = some W → FrFills W f.columns) ∧
    (∀ W, (mkCtx style.base inputs).innerNodeSize.height = some W → FrFills W f.rows) := by
  obtain ⟨su, d, hok, hf⟩ := final_spec h
  constructor
  · intro W hW
    obtain ⟨p, hp, hl⟩ := hf.inv.lrC (mkCtx_definite_w _ _ W hW)
    exact frFills_of_LR W p (hp.2.2.2.2 W hW) _ hl
  · intro W hW
    obtain ⟨p, hp, hl⟩ := hf.inv.lrR (mkCtx_definite_h _ _ W hW)
    exact frFills_of_LR W p (hp.2.2.2.2 W hW) _ hl

/-- when the space for expansion is not max-content (a definite container size, or a min-content constraint),
`expand_flexible_tracks` reads no item: the two-list form is the pure algorithm of Model/FrSize.lean -/
theorem trackSizing2_eq_pure (p : SizingParams Rat) (T : List (GridTrack Rat)) (items itemsX : List (Item Rat))
    (h : p.availForExpansion ≠ .maxContent) : trackSizing2 p T items itemsX = trackSizingAlgorithm p T items := by
  have key : ∀ (ts : List (GridTrack Rat)) (i1 i2 : List (Item Rat)),
      expandFlexibleTracks ts i1 p.axisMinSize p.axisMaxSize p.availForExpansion =
        expandFlexibleTracks ts i2 p.axisMinSize p.axisMaxSize p.availForExpansion := by
    intro ts i1 i2
    cases hav : p.availForExpansion with
    | maxContent => exact absurd hav h
    | minContent => rfl
    | definite a => rfl
  unfold trackSizing2 trackSizingAlgorithm
  simp only []
  split
  · rfl
  · rw [key _ (itemsX.map _) (items.map (determineCrossing (initializeTrackSizes T p.axisInner)))]

/-! ### examples -/

private def px (v : Rat) : TrackFn Rat := ⟨.length v, .length v⟩
private def frT (v : Rat) : TrackFn Rat := ⟨.auto, .fr v⟩

/-- the base sizes of the columns and rows of the final grid of a run -/
def sizesOf (r : Except String (LayoutOutput Rat ⊕ FinalGrid Rat)) : Option (List Rat × List Rat) :=
  match r with
  | .ok (.inr f) => some (f.columns.map (·.baseSize), f.rows.map (·.baseSize))
  | _ => none

/-- a PerformLayout input without known dimensions -/
def exInput : LayoutInput Rat :=
  { (LayoutInput.hidden : LayoutInput Rat) with runMode := .performLayout, sizingMode := .inherentSize }

/-- `width: 200px; grid-template-columns: 40px 1fr auto; grid-template-rows: auto; gap: 5px 10px` -/
def exExt : GridExt Rat :=
  { templateColumns := [.single (px 40), .single (frT 1), .single ⟨.auto, .auto⟩],
    templateRows := [.single ⟨.auto, .auto⟩] }
def exGrid : Style Rat :=
  { (Style.default : Style Rat) with display := .grid, grid := exExt, size := ⟨.length 200, .auto⟩,
                                      gap := ⟨.length 10, .length 5⟩ }
def exItem : Style Rat := { (Style.default : Style Rat) with display := .block }
/-- child 0 is 10 wide, the others 30; all are 20 high -/
def exOrc : Nat → LayoutInput Rat → LayoutOutput Rat := fun c _ =>
  LayoutOutput.fromOuterSize ⟨if c = 0 then 10 else 30, 20⟩

/-- **a run with four auto-placed items** (two rows, the second implicit): the `40px` column is exactly 40, the column
gutters exactly 10, the row gutter exactly 5, the outer gutters 0, and the tracks and gutters of the definite inline axis
add up to the 200 of the content box (`1fr`, factor sum 1) -/
example : sizesOf (runWith exOrc (run (gridFinalM (GridStyle.ofStyle exGrid)
      ([exItem, exItem, exItem, exItem].map GridChildStyle.ofStyle) exInput)))
    = some ([0, 40, 10, 110, 10, 30, 0], [0, 20, 5, 20, 0]) := by
  rw [gridFinalM_eq_K]
  decide +kernel

theorem exists_final_of_sizes (r : Except String (LayoutOutput Rat ⊕ FinalGrid Rat))
    (h : (sizesOf r).isSome = true) : ∃ f, r = .ok (.inr f) := by
  cases r with
  | error e => exact absurd (show false = true from h) Bool.false_ne_true
  | ok v =>
    cases v with
    | inl o => exact absurd (show false = true from h) Bool.false_ne_true
    | inr f => exact ⟨f, rfl⟩

/-- the hypotheses of the theorems are met by that run: it has a final grid -/
example : ∃ f, FinalOf (GridStyle.ofStyle exGrid) ([exItem, exItem, exItem, exItem].map GridChildStyle.ofStyle)
    exInput exOrc f :=
  exists_final_of_sizes _ (by rw [gridFinalM_eq_K]; decide +kernel)

/-- `width: 110px; grid-template-columns: 0.5fr 0.6fr`, one child in column 2 whose contributions are all 100 -/
def ufExt : GridExt Rat := { templateColumns := [.single (frT (1/2)), .single (frT (3/5))] }
def ufGrid : Style Rat :=
  { (Style.default : Style Rat) with display := .grid, grid := ufExt, size := ⟨.length 110, .auto⟩ }
def ufItem : Style Rat :=
  { (Style.default : Style Rat) with display := .block, grid := { column := ⟨.line 2, .auto⟩ } }
def ufOrc : Nat → LayoutInput Rat → LayoutOutput Rat := fun _ i =>
  LayoutOutput.fromOuterSize ⟨i.knownDimensions.width.getD 100, 10⟩

/-- **grid_fr_fill_full_false** (the known finding `c09-fr-underfill-content-floored`, now on the whole program): a run of
`compute_grid_layout` on a 110px wide container with columns `0.5fr 0.6fr` (factor sum 1.1 ≥ 1) whose only item sits in the
second column and is 100 wide ends with column base sizes `0, 5, 0, 100, 0`: 105 < 110, the content box is not filled. -/
theorem grid_fr_fill_full_false :
    sizesOf (runWith ufOrc (run (gridFinalM (GridStyle.ofStyle ufGrid) ([ufItem].map GridChildStyle.ofStyle) exInput)))
      = some ([0, 5, 0, 100, 0], [0, 10, 0]) ∧
    (mkCtx (GridStyle.ofStyle ufGrid).base exInput).innerNodeSize.width = some 110 ∧
    ([0, 5, 0, 100, 0] : List Rat).sum < 110 := by
  rw [gridFinalM_eq_K]
  refine ⟨by decide +kernel, by decide +kernel, by decide +kernel⟩

/-! ### the refinement needs the margin-free list: a witness -/

private def wTracks : List (GridTrack Rat) :=
  [(GridTrack.gutter (.length 0)).collapse, GridTrack.new (frT 1), (GridTrack.gutter (.length 0)).collapse]
private def wStyle : Style Rat :=
  { (Style.default : Style Rat) with display := .block, margin := ⟨.length 10, .length 0, .length 0, .length 0⟩ }
private def wItem0 : GItem Rat := GItem.new 0 ⟨0, 1⟩ ⟨0, 1⟩ wStyle .stretch .stretch 0
/-- an item with `margin-left: 10px` in the only (`1fr`) column -/
private def wItem : GItem Rat :=
  { wItem0 with columnIndexes := ⟨0, 2⟩, rowIndexes := ⟨0, 2⟩, crossesFlexibleColumn := true,
                crossesIntrinsicColumn := true }
/-- inline axis, 100px available, container width indefinite (so the space for expansion is max-content) -/
private def wArgs : RunArgs Rat :=
  { axis := .inl, axisMinSize := none, axisMaxSize := none, axisAlignment := .start, otherAxisAlignment := .start,
    availableGridSpace := ⟨.definite 100, .maxContent⟩, innerNodeSize := ⟨none, none⟩, est := .maxFnDefinite,
    hasBaselineAlignedItem := false }
private def wSt : RunState Rat := { axisTracks := wTracks, otherAxisTracks := wTracks, items := [wItem] }
/-- the child is 5 wide under a min-content constraint and 20 wide otherwise -/
private def wOrc : Nat → LayoutInput Rat → LayoutOutput Rat := fun _ i =>
  LayoutOutput.fromOuterSize ⟨match i.availableSpace.width with | .minContent => 5 | _ => 20, 10⟩

/-- **refinement_needs_two_lists**: with the contributions read off the caches in the one natural way (margins added, as
every step of 11.5 sees them), the run is NOT a run of `GridTracks.trackSizingAlgorithm`: an item with a 10px margin in a
`1fr` column of a container of indefinite width.  The program sizes the column 20 (11.7 reads the margin-free max-content
contribution 20), the pure algorithm on the natural data 30; the two-list form gives 20, as `track_sizing_refines` says.
The item satisfies the hypothesis `GoodItem`. -/
theorem refinement_needs_two_lists :
    GoodItem .inl 0 wTracks wItem ∧
    ((runWith wOrc (run (trackSizingAlgorithmM wArgs wSt))).toOption.map fun st' =>
      (st'.axisTracks.map (·.baseSize),
       (trackSizingAlgorithm (paramsOf wArgs) wTracks (st'.items.map (absI .inl none))).map (·.baseSize),
       (trackSizing2 (paramsOf wArgs) wTracks (st'.items.map (absI .inl none))
          (st'.items.map (absX .inl none))).map (·.baseSize)))
      = some ([0, 20, 0], [0, 30, 0], [0, 20, 0]) := by
  refine ⟨⟨⟨by decide +kernel, by decide +kernel⟩, by decide +kernel, by decide +kernel, by decide +kernel,
    by decide +kernel, by decide +kernel⟩, ?_⟩
  rw [trackSizingAlgorithmM_eq]
  decide +kernel

end C09Grid
