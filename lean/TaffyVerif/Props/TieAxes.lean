/-
  Tie (tier T) for the direction-indexed accessors: `impl FlexDirection` (src/style/flex.rs) and the `FlexDirection`-indexed
  helpers of src/geometry.rs (`Rect::{main,cross}_axis_sum`, `Rect::{main,cross}_{start,end}`, `Size::{main,cross,set_main,
  set_cross,from_cross}`, `Point::{main,cross,transpose}`).

  `Gen.Axes.*` is regenerated from the Rust source on every run; each theorem states that the generated definition IS the
  hand-written one (Model/Style.lean, Model/AbsPos.lean `Dir.*`, Model/Flex.lean `setMain`/`setCross`/`fromCross`) — for every
  argument, every element type `β` (the Rust impls are generic in `T`; the translation keeps the parameter) and every `[Num α]`.
  The enums `FlexDirection` / `FlexWrap` of Model/Style.lean are compared with src/style/flex.rs by the extractor.
-/
import TaffyVerif.Generated.Axes
import TaffyVerif.Model.Flex

namespace TieAxes
variable {α : Type} [Num α] {β : Type}

/-! ### `impl FlexDirection` -/
theorem is_row_eq : Gen.Axes.FlexDirection.is_row = FlexDirection.isRow := by
  funext d; cases d <;> rfl
theorem is_column_eq : Gen.Axes.FlexDirection.is_column = FlexDirection.isColumn := by
  funext d; cases d <;> rfl
theorem is_reverse_eq : Gen.Axes.FlexDirection.is_reverse = FlexDirection.isReverse := by
  funext d; cases d <;> rfl

/-! ### `Rect` -/
theorem main_axis_sum_eq : Gen.Axes.Rect.main_axis_sum (α := α) = Rect.mainAxisSum := by
  funext r d; cases d <;> rfl
theorem cross_axis_sum_eq : Gen.Axes.Rect.cross_axis_sum (α := α) = Rect.crossAxisSum := by
  funext r d; cases d <;> rfl
theorem main_start_eq : Gen.Axes.Rect.main_start (β := β) = AbsPos.Dir.mainStart := by
  funext r d; cases d <;> rfl
theorem main_end_eq : Gen.Axes.Rect.main_end (β := β) = AbsPos.Dir.mainEnd := by
  funext r d; cases d <;> rfl
theorem cross_start_eq : Gen.Axes.Rect.cross_start (β := β) = AbsPos.Dir.crossStart := by
  funext r d; cases d <;> rfl
theorem cross_end_eq : Gen.Axes.Rect.cross_end (β := β) = AbsPos.Dir.crossEnd := by
  funext r d; cases d <;> rfl

/-! ### `Size` -/
theorem size_main_eq : Gen.Axes.Size.main (β := β) = Size.main := by
  funext s d; cases d <;> rfl
theorem size_cross_eq : Gen.Axes.Size.cross (β := β) = Size.cross := by
  funext s d; cases d <;> rfl
/-- `&mut self`: the generated function returns the updated `self` -/
theorem set_main_eq : Gen.Axes.Size.set_main (β := β) = FlexModel.setMain := by
  funext s d v; cases d <;> rfl
theorem set_cross_eq : Gen.Axes.Size.set_cross (β := β) = FlexModel.setCross := by
  funext s d v; cases d <;> rfl
/-- `with_main` / `with_cross` (by value) compute what `set_main` / `set_cross` (in place) compute; the model has one
    definition for both -/
theorem with_main_eq : Gen.Axes.Size.with_main (β := β) = FlexModel.setMain := by
  funext s d v; cases d <;> rfl
theorem with_cross_eq : Gen.Axes.Size.with_cross (β := β) = FlexModel.setCross := by
  funext s d v; cases d <;> rfl
theorem from_cross_eq : Gen.Axes.Size.from_cross (α := α) = FlexModel.fromCross := by
  funext d v; cases d <;> rfl

/-! ### `Point` -/
theorem point_transpose_eq : Gen.Axes.Point.transpose (β := β) = Point.transpose := by
  funext p; rfl
theorem point_main_eq : Gen.Axes.Point.main (β := β) = AbsPos.Dir.pMain := by
  funext p d; cases d <;> rfl
theorem point_cross_eq : Gen.Axes.Point.cross (β := β) = AbsPos.Dir.pCross := by
  funext p d; cases d <;> rfl

end TieAxes
