/-
  C02 — Cache lookups only return results stored for compatible inputs.

  All theorems are for **every** `Num` instance `α` (so for the `Float32` instance the correspondence run
  executes, and for exact rationals alike) and for every finite history of `get/store/clear/isEmpty`
  starting from `Cache::new()`. Histories are stacks, newest operation first.
-/
import TaffyVerif.Model.Cache

namespace C02
open CacheModel
variable {α : Type}

/-- the slot index is always within the nine measure entries (so `measure_entries[slot] = …` cannot panic) -/
theorem slot_lt (kd : Size (Option α)) (av : Size (AvailableSpace α)) : computeCacheSlot kd av < cacheSize := by
  unfold computeCacheSlot cacheSize
  simp only []
  split
  · omega
  · split
    · split <;> omega
    · split
      · split <;> omega
      · split <;> omega

variable [Num α]

/-- reachable-state invariant -/
structure Inv (h : List (Op α)) (c : Cache α) : Prop where
  len : c.measureEntries.length = cacheSize
  flag : c.isEmptyFlag = true → c.finalLayoutEntry = none ∧ ∀ e ∈ c.measureEntries, e = none
  unflag : c.isEmptyFlag = false → c.isEmpty = false
  finalLive : ∀ e, c.finalLayoutEntry = some e → Live h e.knownDimensions e.availableSpace .performLayout e.content
  measLive : ∀ i e, c.measureEntries[i]? = some (some e) →
    computeCacheSlot e.knownDimensions e.availableSpace = i ∧
    ∃ out : LayoutOutput α, out.size = e.content ∧ Live h e.knownDimensions e.availableSpace .computeSize out
  liveFinal : ∀ kd av out, Live h kd av .performLayout out → c.finalLayoutEntry = some ⟨kd, av, out⟩
  liveMeas : ∀ kd av out, Live h kd av .computeSize out →
    c.measureEntries[computeCacheSlot kd av]? = some (some ⟨kd, av, out.size⟩)
  noHidden : ∀ kd av out, ¬ Live h kd av .performHiddenLayout out

theorem replicate_none_getElem? {β : Type} (n i : Nat) (e : β) :
    (List.replicate n (none : Option β))[i]? ≠ some (some e) := by
  intro h
  rw [List.getElem?_replicate] at h
  split at h <;> simp at h

theorem inv_new : Inv ([] : List (Op α)) (Cache.new : Cache α) := by
  refine ⟨by simp [Cache.new, cacheSize], ?_, ?_, ?_, ?_, ?_, ?_, ?_⟩
  · intro _; exact ⟨rfl, by intro e he; simp [Cache.new] at he; exact he.2⟩
  · intro h; simp [Cache.new] at h
  · intro e h; simp [Cache.new] at h
  · intro i e h; exact absurd h (replicate_none_getElem? _ _ _)
  · intro kd av out h; exact h.elim
  · intro kd av out h; exact h.elim
  · intro kd av out h; exact h.elim

theorem any_isSome_set {β : Type} (l : List (Option β)) (i : Nat) (v : β) (hi : i < l.length) :
    (l.set i (some v)).any Option.isSome = true := by
  rw [List.any_eq_true]
  exact ⟨some v, by
    have : (l.set i (some v))[i]? = some (some v) := by simp [hi]
    exact List.mem_of_getElem? this, rfl⟩

theorem inv_step (h : List (Op α)) (c : Cache α) (op : Op α) (inv : Inv h c) : Inv (op :: h) (step c op).1 := by
  cases op with
  | get kd av m =>
    simp only [step]
    exact { inv with
      finalLive := fun e he => Or.inr ⟨rfl, inv.finalLive e he⟩
      measLive := fun i e he => by
        obtain ⟨h1, out, h2, h3⟩ := inv.measLive i e he
        exact ⟨h1, out, h2, Or.inr ⟨rfl, h3⟩⟩
      liveFinal := fun kd' av' out hl => by
        rcases hl with ⟨h1, _⟩ | ⟨_, h2⟩
        · cases h1
        · exact inv.liveFinal _ _ _ h2
      liveMeas := fun kd' av' out hl => by
        rcases hl with ⟨h1, _⟩ | ⟨_, h2⟩
        · cases h1
        · exact inv.liveMeas _ _ _ h2
      noHidden := fun kd' av' out hl => by
        rcases hl with ⟨h1, _⟩ | ⟨_, h2⟩
        · cases h1
        · exact inv.noHidden _ _ _ h2 }
  | isEmpty =>
    simp only [step]
    exact { inv with
      finalLive := fun e he => Or.inr ⟨rfl, inv.finalLive e he⟩
      measLive := fun i e he => by
        obtain ⟨h1, out, h2, h3⟩ := inv.measLive i e he
        exact ⟨h1, out, h2, Or.inr ⟨rfl, h3⟩⟩
      liveFinal := fun kd' av' out hl => by
        rcases hl with ⟨h1, _⟩ | ⟨_, h2⟩
        · cases h1
        · exact inv.liveFinal _ _ _ h2
      liveMeas := fun kd' av' out hl => by
        rcases hl with ⟨h1, _⟩ | ⟨_, h2⟩
        · cases h1
        · exact inv.liveMeas _ _ _ h2
      noHidden := fun kd' av' out hl => by
        rcases hl with ⟨h1, _⟩ | ⟨_, h2⟩
        · cases h1
        · exact inv.noHidden _ _ _ h2 }
  | clear =>
    simp only [step, Cache.clear]
    split
    · -- already empty: nothing is stored, nothing is live afterwards
      rename_i hf
      obtain ⟨hfin, hmeas⟩ := inv.flag hf
      refine ⟨inv.len, inv.flag, inv.unflag, ?_, ?_, ?_, ?_, ?_⟩
      · intro e he; rw [hfin] at he; cases he
      · intro i e he
        have := hmeas _ (List.mem_of_getElem? he)
        cases this
      · intro kd av out hl
        rcases hl with ⟨h1, _⟩ | ⟨h1, _⟩
        · cases h1
        · simp [displaces] at h1
      · intro kd av out hl
        rcases hl with ⟨h1, _⟩ | ⟨h1, _⟩
        · cases h1
        · simp [displaces] at h1
      · intro kd av out hl
        rcases hl with ⟨h1, _⟩ | ⟨h1, _⟩
        · cases h1
        · simp [displaces] at h1
    · refine ⟨by simp [cacheSize], ?_, ?_, ?_, ?_, ?_, ?_, ?_⟩
      · intro _; exact ⟨rfl, by intro e he; simp at he; exact he.2⟩
      · intro h; simp at h
      · intro e he; simp at he
      · intro i e he; exact absurd he (replicate_none_getElem? _ _ _)
      · intro kd av out hl
        rcases hl with ⟨h1, _⟩ | ⟨h1, _⟩
        · cases h1
        · simp [displaces] at h1
      · intro kd av out hl
        rcases hl with ⟨h1, _⟩ | ⟨h1, _⟩
        · cases h1
        · simp [displaces] at h1
      · intro kd av out hl
        rcases hl with ⟨h1, _⟩ | ⟨h1, _⟩
        · cases h1
        · simp [displaces] at h1
  | store kd av m o =>
    cases m with
    | performHiddenLayout =>
      simp only [step, Cache.store]
      exact { inv with
        finalLive := fun e he => Or.inr ⟨by simp [displaces], inv.finalLive e he⟩
        measLive := fun i e he => by
          obtain ⟨h1, out, h2, h3⟩ := inv.measLive i e he
          exact ⟨h1, out, h2, Or.inr ⟨by simp [displaces], h3⟩⟩
        liveFinal := fun kd' av' out hl => by
          rcases hl with ⟨h1, _⟩ | ⟨_, h2⟩
          · cases h1
          · exact inv.liveFinal _ _ _ h2
        liveMeas := fun kd' av' out hl => by
          rcases hl with ⟨h1, _⟩ | ⟨_, h2⟩
          · cases h1
          · exact inv.liveMeas _ _ _ h2
        noHidden := fun kd' av' out hl => by
          rcases hl with ⟨_, h1⟩ | ⟨_, h2⟩
          · exact h1 rfl
          · exact inv.noHidden _ _ _ h2 }
    | performLayout =>
      simp only [step, Cache.store]
      refine ⟨inv.len, ?_, ?_, ?_, ?_, ?_, ?_, ?_⟩
      · intro h; simp at h
      · intro _; simp [Cache.isEmpty]
      · intro e he
        simp only [Option.some.injEq] at he
        subst he
        exact Or.inl ⟨rfl, by simp⟩
      · intro i e he
        obtain ⟨h1, out, h2, h3⟩ := inv.measLive i e he
        exact ⟨h1, out, h2, Or.inr ⟨by simp [displaces], h3⟩⟩
      · intro kd' av' out hl
        rcases hl with ⟨h1, _⟩ | ⟨h1, _⟩
        · cases h1; rfl
        · simp [displaces] at h1
      · intro kd' av' out hl
        rcases hl with ⟨h1, _⟩ | ⟨_, h2⟩
        · cases h1
        · exact inv.liveMeas _ _ _ h2
      · intro kd' av' out hl
        rcases hl with ⟨_, h1⟩ | ⟨_, h2⟩
        · exact h1 rfl
        · exact inv.noHidden _ _ _ h2
    | computeSize =>
      simp only [step, Cache.store]
      have hs : computeCacheSlot kd av < c.measureEntries.length := by rw [inv.len]; exact slot_lt kd av
      refine ⟨by simp [inv.len], ?_, ?_, ?_, ?_, ?_, ?_, ?_⟩
      · intro h; simp at h
      · intro _
        simp only [Cache.isEmpty, Bool.and_eq_false_imp]
        intro _
        simp [any_isSome_set _ _ _ hs]
      · intro e he
        exact Or.inr ⟨by simp [displaces], inv.finalLive e he⟩
      · intro i e he
        rw [List.getElem?_set] at he
        split at he
        · rename_i hi
          simp only [Option.some.injEq] at he
          subst he
          exact ⟨hi, o, rfl, Or.inl ⟨rfl, by simp⟩⟩
        · rename_i hi
          obtain ⟨h1, out, h2, h3⟩ := inv.measLive i e he
          refine ⟨h1, out, h2, Or.inr ⟨?_, h3⟩⟩
          simp only [displaces, beq_eq_false_iff_ne, ne_eq]
          rw [h1]; exact hi
      · intro kd' av' out hl
        rcases hl with ⟨h1, _⟩ | ⟨_, h2⟩
        · cases h1
        · exact inv.liveFinal _ _ _ h2
      · intro kd' av' out hl
        rcases hl with ⟨h1, _⟩ | ⟨h1, h2⟩
        · cases h1
          simp [hs]
        · simp only [displaces, beq_eq_false_iff_ne, ne_eq] at h1
          rw [List.getElem?_set_ne h1]
          exact inv.liveMeas _ _ _ h2
      · intro kd' av' out hl
        rcases hl with ⟨_, h1⟩ | ⟨_, h2⟩
        · exact h1 rfl
        · exact inv.noHidden _ _ _ h2

/-- the invariant holds in every reachable state -/
theorem inv_runH (h : List (Op α)) : Inv h (runH h) := by
  induction h with
  | nil => exact inv_new
  | cons op h ih => exact inv_step h (runH h) op ih

/-- **get_sound**: a hit is always explained by a store that is still live in the history, was made in the same
run mode, is compatible with the query on both axes, and whose content is what is returned. -/
theorem get_sound (h : List (Op α)) (kd : Size (Option α)) (av : Size (AvailableSpace α)) (mode : RunMode)
    (out : LayoutOutput α) (hit : (runH h).get kd av mode = some out) :
    ∃ kd' av' out', Live h kd' av' mode out' ∧ compatible kd av kd' av' out'.size = true ∧
      out = (match mode with
             | .performLayout => out'
             | _ => LayoutOutput.fromOuterSize out'.size) := by
  have inv := inv_runH h
  cases mode with
  | performHiddenLayout => simp [Cache.get] at hit
  | performLayout =>
    simp only [Cache.get] at hit
    split at hit
    · rename_i e he
      split at hit
      · rename_i hc
        simp only [Option.some.injEq] at hit
        subst hit
        exact ⟨_, _, _, inv.finalLive e he, hc, rfl⟩
      · cases hit
    · cases hit
  | computeSize =>
    simp only [Cache.get] at hit
    split at hit
    · rename_i e he
      simp only [Option.some.injEq] at hit
      subst hit
      have hm := List.mem_of_find?_eq_some he
      have hp := List.find?_some he
      rw [List.mem_filterMap] at hm
      obtain ⟨oe, hoe, hid⟩ := hm
      simp only [id] at hid
      subst hid
      obtain ⟨i, hi, hget⟩ := List.getElem_of_mem hoe
      have hget' : (runH h).measureEntries[i]? = some (some e) := by
        rw [List.getElem?_eq_getElem hi, hget]
      obtain ⟨_, out', h2, h3⟩ := inv.measLive i e hget'
      refine ⟨_, _, out', h3, ?_, ?_⟩
      · rw [h2]; exact hp
      · rw [h2]
    · cases hit

/-- **hit_until_displaced** (final layout): a live PerformLayout store whose key is compatible with itself
(no NaN / infinite key component) is returned, exactly, by a lookup of the same key. -/
theorem hit_until_displaced_final (h : List (Op α)) (kd : Size (Option α)) (av : Size (AvailableSpace α))
    (out : LayoutOutput α) (live : Live h kd av .performLayout out)
    (self : compatible kd av kd av out.size = true) :
    (runH h).get kd av .performLayout = some out := by
  have inv := inv_runH h
  simp [Cache.get, inv.liveFinal _ _ _ live, self]

/-- **hit_until_displaced** (measure entries): a live ComputeSize store with a self-compatible key makes the
same query hit; the size returned is that of *some* live compatible store (the first compatible slot wins). -/
theorem hit_until_displaced_measure (h : List (Op α)) (kd : Size (Option α)) (av : Size (AvailableSpace α))
    (out : LayoutOutput α) (live : Live h kd av .computeSize out)
    (self : compatible kd av kd av out.size = true) :
    ((runH h).get kd av .computeSize).isSome = true := by
  have inv := inv_runH h
  have hm := inv.liveMeas _ _ _ live
  simp only [Cache.get]
  have hmem : (⟨kd, av, out.size⟩ : Entry α (Size α)) ∈ (runH h).measureEntries.filterMap id := by
    rw [List.mem_filterMap]
    exact ⟨some ⟨kd, av, out.size⟩, List.mem_of_getElem? hm, rfl⟩
  cases hf : List.find? (fun e => compatible kd av e.knownDimensions e.availableSpace e.content)
      ((runH h).measureEntries.filterMap id) with
  | some e => simp
  | none =>
    rw [List.find?_eq_none] at hf
    have := hf _ hmem
    simp [self] at this

/-- **clear_misses**: immediately after `clear`, every lookup misses, the observer reports empty and a second
`clear` reports `AlreadyEmpty`. -/
theorem clear_misses (h : List (Op α)) (kd : Size (Option α)) (av : Size (AvailableSpace α)) (mode : RunMode) :
    (runH (.clear :: h)).get kd av mode = none ∧ (runH (.clear :: h)).isEmpty = true ∧
    (runH (.clear :: h)).clear.2 = .alreadyEmpty := by
  have inv := inv_runH (.clear :: h)
  have hflag : (runH (.clear :: h)).isEmptyFlag = true := by
    simp only [runH, step, Cache.clear]
    split
    · assumption
    · rfl
  obtain ⟨hfin, hmeas⟩ := inv.flag hflag
  refine ⟨?_, ?_, ?_⟩
  · cases mode with
    | performHiddenLayout => rfl
    | performLayout => simp [Cache.get, hfin]
    | computeSize =>
      have : (runH (.clear :: h)).measureEntries.filterMap id = [] := by
        rw [List.filterMap_eq_nil_iff]
        intro e he; rw [hmeas e he]; rfl
      simp [Cache.get, this]
  · simp only [Cache.isEmpty, hfin, Option.isNone_none, Bool.true_and, Bool.not_eq_eq_eq_not, Bool.not_true]
    rw [List.any_eq_false]
    intro e he; rw [hmeas e he]; simp
  · simp [Cache.clear, hflag]

/-- the `is_empty` field and the recomputed observer agree in every reachable state, so `clear`'s early return
never skips a non-empty cache -/
theorem flag_agrees (h : List (Op α)) : (runH h).isEmptyFlag = (runH h).isEmpty := by
  have inv := inv_runH h
  cases hf : (runH h).isEmptyFlag with
  | false => exact (inv.unflag hf).symm
  | true =>
    obtain ⟨hfin, hmeas⟩ := inv.flag hf
    symm
    simp only [Cache.isEmpty, hfin, Option.isNone_none, Bool.true_and, Bool.not_eq_eq_eq_not, Bool.not_true]
    rw [List.any_eq_false]
    intro e he; rw [hmeas e he]; simp

/-- **hidden_never_cached** -/
theorem hidden_never_cached (c : Cache α) (kd : Size (Option α)) (av : Size (AvailableSpace α))
    (out : LayoutOutput α) :
    c.store kd av .performHiddenLayout out = c ∧ c.get kd av .performHiddenLayout = none := ⟨rfl, rfl⟩

/-- **nan_key_misses**: a known dimension that is not `==` to anything (f32 NaN) never hits, in any state. -/
theorem nan_key_misses (c : Cache α) (x : α) (hnan : ∀ y, Num.feq x y = false) (kh : Option α)
    (av : Size (AvailableSpace α)) (mode : RunMode) :
    c.get ⟨some x, kh⟩ av mode = none := by
  have hc : ∀ ekd eav (s : Size α), compatible (⟨some x, kh⟩ : Size (Option α)) av ekd eav s = false := by
    intro ekd eav s
    simp only [compatible, optEq, hnan, Bool.or_false]
    cases ekd.width <;> simp [hnan]
  cases mode with
  | performHiddenLayout => rfl
  | performLayout =>
    simp only [Cache.get]
    split
    · simp [hc]
    · rfl
  | computeSize =>
    simp only [Cache.get]
    split
    · rename_i e he
      have := List.find?_some he
      simp [hc] at this
    · rfl

/-! ### non-vacuity: a concrete history on exact rationals in which a store is live, self-compatible and hit -/

def exKd : Size (Option Rat) := ⟨some 3, none⟩
def exAv : Size (AvailableSpace Rat) := ⟨.maxContent, .minContent⟩
def exOut : LayoutOutput Rat := LayoutOutput.fromOuterSize ⟨3, 4⟩
def exHist : List (Op Rat) := [.isEmpty, .store exKd exAv .performLayout exOut, .clear]

example : Live exHist exKd exAv .performLayout exOut :=
  Or.inr ⟨rfl, Or.inl ⟨rfl, by decide⟩⟩
example : compatible exKd exAv exKd exAv exOut.size = true := by decide
example : (runH exHist).get exKd exAv .performLayout = some exOut := by decide

end C02
