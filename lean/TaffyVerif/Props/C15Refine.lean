/-
  C15 — the evaluator's real pass IS one of the resolutions of the abstract dirtiness pass.

  `Model/DirtyPass.lean` resolves a layout pass over a rose tree of flags by an arbitrary choice stream and
  `Props/C15Pass.lean` proves the property's clauses for EVERY stream.  `Model/Eval.lean` is the tree-level evaluator
  (`compute_child_layout` ▸ `compute_cached_layout` ▸ dispatch ▸ the container programs) with per-node caches, tied to the
  code by the EVAL correspondence.  This file connects the two:

    * `absFT ob t ns`          the flags of the style tree `t` in the state `ns`: hidden := `display:none`, fin := the cache
                               holds a final-layout entry, meas := some measure slot is occupied (`realObs`, the real
                               nine-slot cache; `memoObs`, the exact memo; any `CacheObs`);
    * `eval_refines_visit`     every evaluation in PerformLayout or ComputeSize mode, at every fuel, from every state whose
                               caches are well-formed, leaves exactly the flags that `DirtyPass.visit` leaves on a stream
                               that is constructed from the run (and is self-delimiting);
    * `eval_root_pass_refines` `compute_root_layout` leaves the flags of `DirtyPass.pass` on some stream;
    * `eval_pass_preserves_K`, `eval_pass_cleans`, `eval_passes_K`  Props/C15Pass.lean transported to the evaluator: the
                               invariant "a dirty node's parent is dirty or `display:none`" (`KT`) is preserved by every
                               root pass, and after a root pass every node that is reachable from the root without crossing
                               a `display:none` node strictly above it has a non-empty cache;
    * `…_all_trees`            for the real cache, the extracted dispatch and the concrete leaf / block / flexbox / grid
                               algorithms, every style tree whose grid containers cannot panic (`GridCalm`).

  Hypotheses on the bundle (each proved for the concrete programs): `EvalMemo.PLCovers` (a PerformLayout evaluation
  PerformLayouts every child — this is what makes answering the final phase of `recompute` by hits sound) and
  `EvalDirty.AlgsCalm` (no hidden-mode query; no ComputeSize query to a `display:none` child — this is what
  `DirtyPass.steps` assumes by skipping such steps).

  Change to the model: `DirtyPass.recompute` now consumes a closing `done` marker after its second scripted phase.  With
  the former definition the statement is FALSE (`old_recompute_too_rigid`): a recomputed child always returned a stream
  whose head is not a `step`, which ended the parent's scripted phase, so a parent could recompute at most one child per
  scripted phase; a container that measures three leaves (ComputeSize miss × 3, then PerformLayout × 3) is then no
  resolution at all.
-/
import TaffyVerif.Lemmas.EvalDirtyCalmGrid
import TaffyVerif.Lemmas.EvalCost
import TaffyVerif.Lemmas.EvalHidden
import TaffyVerif.Props.C15Pass
import TaffyVerif.Props.C02
import TaffyVerif.Props.C01
import TaffyVerif.Props.EvalGrid
import TaffyVerif.Model.RootPass

set_option autoImplicit false
set_option linter.unusedSectionVars false
set_option linter.unusedVariables false

namespace C15Refine
open Eval EvalDirty DirtyPass CacheModel Gen.Facts

section general
variable {α : Type} [Num α]

/-! ## 1. the observers -/

/-- the invariant of a real cache value that the flags rely on: nine measure slots, and the `is_empty` field is only set
when there is no entry (`Cache::clear` returns early on that field) -/
def RealOK (c : Cache α) : Prop :=
  c.measureEntries.length = cacheSize ∧
  (c.isEmptyFlag = true → c.finalLayoutEntry = none ∧ c.measureEntries.any Option.isSome = false)

theorem any_replicate_none (n : Nat) :
    (List.replicate n (none : Option (Entry α (Size α)))).any Option.isSome = false := by
  induction n with
  | zero => rfl
  | succ n ih => simp only [List.replicate_succ, List.any_cons, Option.isSome_none, Bool.false_or, ih]

theorem any_set_some {β : Type} : ∀ (l : List (Option β)) (i : Nat) (x : β), i < l.length →
    (l.set i (some x)).any Option.isSome = true
  | [], _, _, h => by simp at h
  | a :: as, 0, x, _ => by simp
  | a :: as, i + 1, x, h => by
    simp only [List.set_cons_succ, List.any_cons]
    rw [any_set_some as i x (by simpa using h)]
    simp

/-- **realObs**: the real nine-slot cache (`Eval.realCache` = Model/Cache.lean = src/tree/cache.rs) observed by
"final entry present" / "some measure slot occupied" -/
def realObs : CacheObs (realCache : CacheImpl α (Cache α)) where
  fin c := c.finalLayoutEntry.isSome
  meas c := c.measureEntries.any Option.isSome
  ok := RealOK
  ok_empty := ⟨by simp [realCache, Cache.new], fun _ => ⟨rfl, any_replicate_none _⟩⟩
  empty_flags := ⟨rfl, any_replicate_none _⟩
  ok_store := by
    intro c i o h
    simp only [realCache, Cache.store]
    cases i.runMode with
    | performLayout => exact ⟨h.1, fun hf => by cases hf⟩
    | computeSize => exact ⟨by simp only [List.length_set]; exact h.1, fun hf => by cases hf⟩
    | performHiddenLayout => exact h
  ok_clear := by
    intro c h
    simp only [realCache, Cache.clear]
    split
    · exact h
    · exact ⟨by simp, fun _ => ⟨rfl, any_replicate_none _⟩⟩
  get_L := by
    intro c i o _ hm hg
    simp only [realCache, Cache.get, hm] at hg
    cases hf : c.finalLayoutEntry with
    | none => rw [hf] at hg; cases hg
    | some e => rfl
  get_S := by
    intro c i o _ hm hg
    simp only [realCache, Cache.get, hm] at hg
    cases hf : (c.measureEntries.filterMap id).find?
        (fun e => compatible i.knownDimensions i.availableSpace e.knownDimensions e.availableSpace e.content) with
    | none => rw [hf] at hg; cases hg
    | some e =>
      have hmem := List.mem_of_find?_eq_some hf
      simp only [List.mem_filterMap, id] at hmem
      obtain ⟨x, hx, hxe⟩ := hmem
      subst hxe
      simp only [List.any_eq_true]
      exact ⟨some e, hx, rfl⟩
  store_L := by
    intro c i o _ hm
    simp only [realCache, Cache.store, hm]
    refine ⟨?_, ?_⟩ <;> first | rfl | trivial
  store_S := by
    intro c i o h hm
    simp only [realCache, Cache.store, hm]
    refine ⟨?_, ?_⟩
    · apply any_set_some
      rw [h.1]
      exact C02.slot_lt _ _
    · first | rfl | trivial
  clear_flags := by
    intro c h
    simp only [realCache, Cache.clear]
    split
    · rename_i hf
      obtain ⟨e1, e2⟩ := h.2 hf
      exact ⟨by rw [e1]; rfl, e2⟩
    · exact ⟨rfl, any_replicate_none _⟩

/-- **memoObs**: the exact memo (`cfg(taffy_verif)` exact-key mode) observed by "an entry of that run mode is present" -/
def memoObs [DecidableEq α] : CacheObs (exactMemo : CacheImpl α (List (LayoutInput α × LayoutOutput α))) where
  fin c := c.any fun e => e.1.runMode == .performLayout
  meas c := c.any fun e => e.1.runMode == .computeSize
  ok _ := True
  ok_empty := trivial
  empty_flags := ⟨rfl, rfl⟩
  ok_store _ _ _ _ := trivial
  ok_clear _ _ := trivial
  get_L := by
    intro c i o _ hm hg
    simp only [exactMemo, Option.map_eq_some_iff] at hg
    obtain ⟨e, he, _⟩ := hg
    have hmem := List.mem_of_find?_eq_some he
    have hp := List.find?_some he
    simp only [decide_eq_true_eq] at hp
    simp only [List.any_eq_true]
    exact ⟨e, hmem, by rw [hp, hm]; rfl⟩
  get_S := by
    intro c i o _ hm hg
    simp only [exactMemo, Option.map_eq_some_iff] at hg
    obtain ⟨e, he, _⟩ := hg
    have hmem := List.mem_of_find?_eq_some he
    have hp := List.find?_some he
    simp only [decide_eq_true_eq] at hp
    simp only [List.any_eq_true]
    exact ⟨e, hmem, by rw [hp, hm]; rfl⟩
  store_L := by
    intro c i o _ hm
    simp [exactMemo, hm]
    exact ⟨Or.inl (by decide), fun h => absurd h (by decide)⟩
  store_S := by
    intro c i o _ hm
    simp [exactMemo, hm]
    exact ⟨Or.inl (by decide), fun h => absurd h (by decide)⟩
  clear_flags _ _ := ⟨rfl, rfl⟩

/-! ## 2. one evaluation refines one visit -/

variable {C : Type} {ci : CacheImpl α C} (ob : CacheObs ci)

/-- **eval_refines_visit**: for every cache implementation with observers, every dispatch that sends `display:none` —
and nothing else — to `compute_hidden_layout` and never sends a node with children to the leaf algorithm, every bundle
whose programs cover their children in PerformLayout mode and are calm, EVERY fuel, style tree, state with well-formed
caches and input in PerformLayout (`m = .L`) or ComputeSize (`m = .S`) mode: there is a choice stream `cs` — `hit` when
the lookup hits; otherwise `miss`, one `step i m'` plus the child's own stream per child query in the order the program
issues them, one `hit` per child for the final phase (PerformLayout mode), `done`, `done` — such that the visit of the
dirtiness pass driven by `cs`, whatever follows `cs` in the stream, consumes exactly `cs` and leaves exactly the flags the
evaluation leaves; and the evaluation keeps the caches well-formed. -/
theorem eval_refines_visit (sel : Display → Bool → Option Callee) (algs : Algs α) (hsel : SelHidden sel)
    (hsok : EvalMemo.SelOK sel) (hcov : EvalMemo.PLCovers algs) (hcalm : AlgsCalm algs)
    (fuel : Nat) (t : STree α) (ns : NS α C) (inp : LayoutInput α) (m : Mode) (hm : inp.runMode = runOf m)
    (hok : OK ob ns) :
    OK ob (evalNodeWith ci sel algs fuel t ns inp).2 ∧
    ∃ cs, ∀ rest, visit fuel m (absFT ob t ns) (cs ++ rest) = (absFT ob t (evalNodeWith ci sel algs fuel t ns inp).2, rest) := by
  obtain ⟨h1, _, h3⟩ := eval_ref ob sel algs hsel hsok hcov hcalm fuel t ns inp m hm hok
  exact ⟨h1, h3⟩

/-- the statement in the form of the task: the flags after the evaluation are the flags after a visit -/
theorem eval_refines_visit_flags (sel : Display → Bool → Option Callee) (algs : Algs α) (hsel : SelHidden sel)
    (hsok : EvalMemo.SelOK sel) (hcov : EvalMemo.PLCovers algs) (hcalm : AlgsCalm algs)
    (fuel : Nat) (t : STree α) (ns : NS α C) (inp : LayoutInput α) (m : Mode) (hm : inp.runMode = runOf m)
    (hok : OK ob ns) :
    ∃ cs, absFT ob t (evalNodeWith ci sel algs fuel t ns inp).2 = (visit fuel m (absFT ob t ns) cs).1 := by
  obtain ⟨_, cs, h⟩ := eval_refines_visit ob sel algs hsel hsok hcov hcalm fuel t ns inp m hm hok
  refine ⟨cs, ?_⟩
  have := h []
  rw [List.append_nil] at this
  rw [this]

/-! ## 3. a whole pass -/

mutual
theorem depth_abs : ∀ (t : STree α) (ns : NS α C), C16.Shape t ns → depth (absFT ob t ns) = STree.depth t
  | .node _ _ kids, .mk _ _ nk, h => by
    simp only [C16.Shape] at h
    simp only [absFT, depth, STree.depth, depthList_abs kids nk h]
theorem depthList_abs : ∀ (ts : List (STree α)) (ks : List (NS α C)), C16.ShapeList ts ks →
    depthList (absList ob ts ks) = STree.depthList ts
  | [], [], _ => rfl
  | t :: ts, k :: ks, h => by
    simp only [C16.ShapeList] at h
    simp only [absList, depthList, STree.depthList, depth_abs t k h.1, depthList_abs ts ks h.2]
  | [], _ :: _, h => by simp [C16.ShapeList] at h
  | _ :: _, [], h => by simp [C16.ShapeList] at h
end

theorem abs_setRootLayout (t : STree α) (ns : NS α C) (l : Layout α) :
    absFT ob t (setRootLayout ns l) = absFT ob t ns := by
  cases t; cases ns; rfl

theorem OK_setRootLayout (ns : NS α C) (l : Layout α) (h : OK ob ns) : OK ob (setRootLayout ns l) := by
  cases ns
  simp only [setRootLayout, OK] at h ⊢
  exact h

theorem shape_setRootLayout (t : STree α) (ns : NS α C) (l : Layout α) (h : C16.Shape t ns) :
    C16.Shape t (setRootLayout ns l) := by
  cases t; cases ns
  simp only [setRootLayout, C16.Shape] at h ⊢
  exact h

/-- **eval_root_pass_refines**: `compute_root_layout` (any available space, any state of the right shape with well-formed
caches, any fuel that suffices for the tree) leaves exactly the flags of `DirtyPass.pass` on some choice stream; the new
state has again the right shape and well-formed caches. -/
theorem eval_root_pass_refines (sel : Display → Bool → Option Callee) (algs : Algs α) (hsel : SelHidden sel)
    (hsok : EvalMemo.SelOK sel) (hcov : EvalMemo.PLCovers algs) (hcalm : AlgsCalm algs)
    (fuel : Nat) (t : STree α) (av : Size (AvailableSpace α)) (ns : NS α C) (hd : STree.depth t ≤ fuel)
    (hsh : C16.Shape t ns) (hok : OK ob ns) :
    (∃ cs, absFT ob t (computeRootLayout ci sel algs fuel t av ns).2 = pass (absFT ob t ns) cs) ∧
    OK ob (computeRootLayout ci sel algs fuel t av ns).2 ∧ C16.Shape t (computeRootLayout ci sel algs fuel t av ns).2 := by
  have e : evalNodeWith ci sel algs fuel t ns (RootModel.rootInput t.style av) =
      evalNodeWith ci sel algs (STree.depth t) t ns (RootModel.rootInput t.style av) :=
    EvalMemo.evalNodeWith_fuel_indep ci sel algs fuel (STree.depth t) t ns _ hd (Nat.le_refl _)
  obtain ⟨h1, cs, h2⟩ := eval_refines_visit ob sel algs hsel hsok hcov hcalm (STree.depth t) t ns
    (RootModel.rootInput t.style av) .L rfl hok
  refine ⟨⟨cs, ?_⟩, ?_, ?_⟩
  · unfold computeRootLayout pass
    simp only
    rw [abs_setRootLayout, e, depth_abs ob t ns hsh]
    have := h2 []
    rw [List.append_nil] at this
    rw [this]
  · unfold computeRootLayout
    simp only
    rw [e]
    exact OK_setRootLayout ob _ _ h1
  · unfold computeRootLayout
    simp only
    exact shape_setRootLayout t _ _ (C16.eval_shape ci sel algs fuel t ns _ hsh)

/-! ## 4. Props/C15Pass.lean transported to the evaluator -/

/-- the property's invariant read on the evaluator's state: `C15Pass.KT` (= `Dirty.K`: a dirty node's parent is dirty or
`display:none`; a measure entry implies a final entry) of the abstracted flags -/
def KTns (t : STree α) (ns : NS α C) : Prop := C15Pass.KT (absFT ob t ns)

/-- **eval_pass_preserves_K**: every root pass of the evaluator preserves the invariant -/
theorem eval_pass_preserves_K (sel : Display → Bool → Option Callee) (algs : Algs α) (hsel : SelHidden sel)
    (hsok : EvalMemo.SelOK sel) (hcov : EvalMemo.PLCovers algs) (hcalm : AlgsCalm algs)
    (fuel : Nat) (t : STree α) (av : Size (AvailableSpace α)) (ns : NS α C) (hd : STree.depth t ≤ fuel)
    (hsh : C16.Shape t ns) (hok : OK ob ns) (hk : KTns ob t ns) :
    KTns ob t (computeRootLayout ci sel algs fuel t av ns).2 := by
  obtain ⟨⟨cs, h⟩, _, _⟩ := eval_root_pass_refines ob sel algs hsel hsok hcov hcalm fuel t av ns hd hsh hok
  unfold KTns
  rw [h]
  exact (C15Pass.pass_cleans _ cs hk).1

/-- reading `C15Pass.Clean` at a path: a node with no `display:none` node strictly above it has a final entry -/
theorem Clean_at : ∀ (p : List Nat) (t : STree α) (ns k : NS α C), C15Pass.Clean (absFT ob t ns) → C05.VisibleTo t p →
    (∃ t', treeAt t p = some t') → C05.nsAt ns p = some k → ob.fin k.cache = true
  | [], .node _ _ _, .mk _ _ _, k, hc, _, _, hk => by
    simp only [C05.nsAt, Option.some.injEq] at hk
    subst hk
    simp only [absFT, C15Pass.Clean] at hc
    exact hc.1
  | i :: p, .node s _ kids, .mk c l nk, k, hc, hv, ⟨t', ht'⟩, hk => by
    simp only [absFT, C15Pass.Clean] at hc
    simp only [C05.VisibleTo] at hv
    simp only [C05.nsAt] at hk
    simp only [treeAt] at ht'
    cases h1 : kids[i]? with
    | none => rw [h1] at ht'; cases ht'
    | some tc =>
      cases h2 : nk[i]? with
      | none => rw [h2] at hk; cases hk
      | some kc =>
        rw [h1] at ht' hv
        rw [h2] at hk
        have hcl : C15Pass.CleanList (absList ob kids nk) := hc.2 ((EvalDirty.isHidden_false_iff s).2 hv.1)
        have hmem : C15Pass.Clean (absFT ob tc kc) := by
          have hg := absList_get_some ob kids nk i tc kc h1 h2
          generalize absList ob kids nk = L at hcl hg
          clear h1 h2 hc hv hk
          induction L generalizing i with
          | nil => simp at hg
          | cons a as ih =>
            cases i with
            | zero =>
              simp only [List.getElem?_cons_zero, Option.some.injEq] at hg
              subst hg; exact hcl.1
            | succ i =>
              simp only [List.getElem?_cons_succ] at hg
              exact ih i hcl.2 hg
        exact Clean_at p tc kc k hmem hv.2 ⟨t', ht'⟩ hk

/-- **eval_pass_cleans**: after a root pass of the evaluator from a state satisfying the invariant, every node that is
reachable from the root without crossing a `display:none` node strictly above it (the node itself may be `display:none`)
has a final-layout entry in its cache — it is clean -/
theorem eval_pass_cleans (sel : Display → Bool → Option Callee) (algs : Algs α) (hsel : SelHidden sel)
    (hsok : EvalMemo.SelOK sel) (hcov : EvalMemo.PLCovers algs) (hcalm : AlgsCalm algs)
    (fuel : Nat) (t : STree α) (av : Size (AvailableSpace α)) (ns : NS α C) (hd : STree.depth t ≤ fuel)
    (hsh : C16.Shape t ns) (hok : OK ob ns) (hk : KTns ob t ns)
    (p : List Nat) (k : NS α C) (hv : C05.VisibleTo t p) (ht : ∃ t', treeAt t p = some t')
    (hat : C05.nsAt (computeRootLayout ci sel algs fuel t av ns).2 p = some k) :
    ob.fin k.cache = true := by
  obtain ⟨⟨cs, h⟩, _, _⟩ := eval_root_pass_refines ob sel algs hsel hsok hcov hcalm fuel t av ns hd hsh hok
  apply Clean_at ob p t _ k _ hv ht hat
  rw [h]
  exact (C15Pass.pass_cleans _ cs hk).2.1

mutual
/-- a freshly built tree (empty caches) satisfies the invariant -/
theorem KT_init : ∀ t : STree α, C15Pass.A (absFT ob t (NS.init ci t)) ∧ C15Pass.B (absFT ob t (NS.init ci t))
  | .node s c kids => by
    simp only [NS.init, absFT, C15Pass.A, C15Pass.B, ob.empty_flags.1, ob.empty_flags.2]
    exact ⟨⟨(fun h => by cases h), (KTList_init kids).1⟩, ⟨(fun h => by cases h), (KTList_init kids).2⟩⟩
theorem KTList_init : ∀ ts : List (STree α), C15Pass.AList (absList ob ts (NS.initList ci ts)) ∧
    C15Pass.BList (absList ob ts (NS.initList ci ts))
  | [] => ⟨trivial, trivial⟩
  | t :: ts => by
    simp only [NS.initList, absList, C15Pass.AList, C15Pass.BList]
    exact ⟨⟨(KT_init t).1, (KTList_init ts).1⟩, ⟨(KT_init t).2, (KTList_init ts).2⟩⟩
end

theorem KTns_init (t : STree α) : KTns ob t (NS.init ci t) := KT_init ob t

/-- any number of root passes (any available spaces) from a freshly built tree: the invariant holds, the shape and the
cache invariant are kept — so `eval_pass_cleans` applies to every one of them -/
theorem eval_passes_K (sel : Display → Bool → Option Callee) (algs : Algs α) (hsel : SelHidden sel)
    (hsok : EvalMemo.SelOK sel) (hcov : EvalMemo.PLCovers algs) (hcalm : AlgsCalm algs)
    (fuel : Nat) (t : STree α) (hd : STree.depth t ≤ fuel) :
    ∀ (avs : List (Size (AvailableSpace α))) (ns : NS α C), C16.Shape t ns → OK ob ns → KTns ob t ns →
      let ns' := avs.foldl (fun s av => (computeRootLayout ci sel algs fuel t av s).2) ns
      C16.Shape t ns' ∧ OK ob ns' ∧ KTns ob t ns'
  | [], ns, h1, h2, h3 => ⟨h1, h2, h3⟩
  | av :: avs, ns, h1, h2, h3 => by
    obtain ⟨_, g2, g1⟩ := eval_root_pass_refines ob sel algs hsel hsok hcov hcalm fuel t av ns hd h1 h2
    have g3 := eval_pass_preserves_K ob sel algs hsel hsok hcov hcalm fuel t av ns hd h1 h2 h3
    exact eval_passes_K sel algs hsel hsok hcov hcalm fuel t hd avs _ g1 g2 g3

end general

/-! ## 5. the hypotheses, for the concrete programs -/
section concrete
variable {α : Type} [Num α] [FlexLine.NumX α] [GridTracks.NumCast α]
open EvalGrid EvalBlock EvalFlex

/-- the hypothesis `Calm` of a single container algorithm -/
def AlgCalm (f : ContainerAlg α) : Prop := ∀ style cs (inp : LayoutInput α), Calm cs (f style cs inp)

/-- **block_Calm**: `compute_block_layout` only issues PerformLayout queries -/
theorem block_Calm : AlgCalm (BlockModel.computeBlockLayout : ContainerAlg α) :=
  fun style cs inp => EvalDirty.block_calm style cs inp

/-- **flex_Calm**: the ComputeSize queries of `compute_flexbox_layout` go to flex items (children that generate boxes) -/
theorem flex_Calm : AlgCalm (flexAlg : ContainerAlg α) :=
  fun style cs inp => EvalDirty.flex_calm style cs inp

/-- **grid_Calm**: the ComputeSize queries of `compute_grid_layout` go to grid items (children that generate boxes);
panicking runs included -/
theorem grid_Calm : AlgCalm (gridAlg : ContainerAlg α) :=
  fun style cs inp => EvalDirty.grid_calm style cs inp

/-- `AlgsCalm` for a bundle with the concrete leaf and block -/
theorem algs_Calm (flex grid : ContainerAlg α) (hf : AlgCalm flex) (hg : AlgCalm grid) :
    AlgsCalm (EvalConcrete.algs flex grid) :=
  fun style cs inp _ => ⟨EvalDirty.block_calm style cs inp, hf style cs inp, hg style cs inp⟩

/-- `AlgsCalm` for the concrete algorithms: no hypothesis left (no `GridCalm` either) -/
theorem algs_Calm_all : AlgsCalm (allAlgs : Algs α) := algs_Calm _ _ flex_Calm grid_Calm

theorem algsCovG_Calm : AlgsCalm (algsCovG : Algs α) :=
  algs_Calm _ _ flex_Calm fun style cs inp => EvalDirty.gridCov_calm style cs inp

/-- the extracted dispatch sends `display:none`, and nothing else, to `compute_hidden_layout` -/
theorem selHidden_real : SelHidden (Dispatch.select dispatchArms) := by
  refine ⟨fun b => by cases b <;> decide, fun d b => ?_⟩
  cases d <;> cases b <;> decide

/-! ## 6. all trees: the real cache, the extracted dispatch, the concrete algorithms -/

/-- **eval_refines_visit_all_trees**: `TaffyView::compute_child_layout` with the real nine-slot cache, the extracted
dispatch and the concrete leaf / block / flexbox / grid algorithms, on EVERY style tree in which no grid container can
panic, in every state with well-formed caches, for every PerformLayout or ComputeSize input and every fuel: one of the
resolutions of `DirtyPass.visit`. -/
theorem eval_refines_visit_all_trees (fuel : Nat) (t : STree α) (ns : NS α (Cache α)) (inp : LayoutInput α) (m : Mode)
    (hm : inp.runMode = runOf m) (hb : GridCalm t) (hok : OK realObs ns) :
    OK realObs (evalNode realCache allAlgs fuel t ns inp).2 ∧
    ∃ cs, ∀ rest, visit fuel m (absFT realObs t ns) (cs ++ rest) =
      (absFT realObs t (evalNode realCache allAlgs fuel t ns inp).2, rest) := by
  have ha := GridCalm_agree _ docSel_real t hb
  unfold evalNode
  rw [eval_agree realCache _ _ _ fuel t ns inp ha]
  exact eval_refines_visit realObs _ algsCovG selHidden_real C01.selOK_real algsCovG_PLCovers algsCovG_Calm fuel t ns
    inp m hm hok

theorem computeRootLayout_agree (fuel : Nat) (t : STree α) (av : Size (AvailableSpace α)) (ns : NS α (Cache α))
    (hb : GridCalm t) :
    computeRootLayout realCache (Dispatch.select dispatchArms) allAlgs fuel t av ns =
      computeRootLayout realCache (Dispatch.select dispatchArms) algsCovG fuel t av ns := by
  unfold computeRootLayout
  rw [eval_agree realCache _ _ _ fuel t ns _ (GridCalm_agree _ docSel_real t hb)]

/-- **eval_root_pass_refines_all_trees**: `compute_root_layout` on every `GridCalm` tree is a resolution of
`DirtyPass.pass` -/
theorem eval_root_pass_refines_all_trees (fuel : Nat) (t : STree α) (av : Size (AvailableSpace α))
    (ns : NS α (Cache α)) (hb : GridCalm t) (hd : STree.depth t ≤ fuel) (hsh : C16.Shape t ns) (hok : OK realObs ns) :
    (∃ cs, absFT realObs t (computeRootLayout realCache (Dispatch.select dispatchArms) allAlgs fuel t av ns).2 =
      pass (absFT realObs t ns) cs) ∧
    OK realObs (computeRootLayout realCache (Dispatch.select dispatchArms) allAlgs fuel t av ns).2 ∧
    C16.Shape t (computeRootLayout realCache (Dispatch.select dispatchArms) allAlgs fuel t av ns).2 := by
  rw [computeRootLayout_agree fuel t av ns hb]
  exact eval_root_pass_refines realObs _ algsCovG selHidden_real C01.selOK_real algsCovG_PLCovers algsCovG_Calm fuel t av
    ns hd hsh hok

/-- **eval_pass_preserves_K_all_trees**: the invariant "a dirty node's parent is dirty or `display:none`", read on the
real caches, is preserved by every root pass over every `GridCalm` tree -/
theorem eval_pass_preserves_K_all_trees (fuel : Nat) (t : STree α) (av : Size (AvailableSpace α))
    (ns : NS α (Cache α)) (hb : GridCalm t) (hd : STree.depth t ≤ fuel) (hsh : C16.Shape t ns) (hok : OK realObs ns)
    (hk : KTns realObs t ns) :
    KTns realObs t (computeRootLayout realCache (Dispatch.select dispatchArms) allAlgs fuel t av ns).2 := by
  rw [computeRootLayout_agree fuel t av ns hb]
  exact eval_pass_preserves_K realObs _ algsCovG selHidden_real C01.selOK_real algsCovG_PLCovers algsCovG_Calm fuel t av
    ns hd hsh hok hk

/-- a real cache with a final-layout entry is not empty (`Cache::is_empty()`, what `TaffyTree::dirty` reports) -/
theorem fin_not_empty (c : Cache α) (h : (realObs (α := α)).fin c = true) : c.isEmpty = false := by
  have h' : c.finalLayoutEntry.isSome = true := h
  unfold Cache.isEmpty
  cases hf : c.finalLayoutEntry with
  | none => rw [hf] at h'; cases h'
  | some e => rfl

/-- **eval_pass_cleans_all_trees** (the clause of C15 on the evaluator tied to the code): after a root pass over a
`GridCalm` tree whose state satisfies the invariant, every node that is reachable from the root without crossing a
`display:none` node strictly above it is clean: its real cache is not empty (it holds a final-layout entry) -/
theorem eval_pass_cleans_all_trees (fuel : Nat) (t : STree α) (av : Size (AvailableSpace α))
    (ns : NS α (Cache α)) (hb : GridCalm t) (hd : STree.depth t ≤ fuel) (hsh : C16.Shape t ns) (hok : OK realObs ns)
    (hk : KTns realObs t ns) (p : List Nat) (k : NS α (Cache α)) (hv : C05.VisibleTo t p)
    (ht : ∃ t', treeAt t p = some t')
    (hat : C05.nsAt (computeRootLayout realCache (Dispatch.select dispatchArms) allAlgs fuel t av ns).2 p = some k) :
    k.cache.finalLayoutEntry.isSome = true ∧ k.cache.isEmpty = false := by
  rw [computeRootLayout_agree fuel t av ns hb] at hat
  have h := eval_pass_cleans realObs _ algsCovG selHidden_real C01.selOK_real algsCovG_PLCovers algsCovG_Calm fuel t av
    ns hd hsh hok hk p k hv ht hat
  exact ⟨h, fin_not_empty _ h⟩

/-- **eval_passes_K_all_trees**: after ANY sequence of root passes (any available spaces) over a freshly built
`GridCalm` tree, the invariant holds (and every one of the passes cleaned what it could reach) -/
theorem eval_passes_K_all_trees (fuel : Nat) (t : STree α) (hb : GridCalm t) (hd : STree.depth t ≤ fuel)
    (avs : List (Size (AvailableSpace α))) :
    let ns' := avs.foldl (fun s av =>
      (computeRootLayout realCache (Dispatch.select dispatchArms) allAlgs fuel t av s).2) (NS.init realCache t)
    C16.Shape t ns' ∧ OK realObs ns' ∧ KTns realObs t ns' := by
  have e : ∀ (l : List (Size (AvailableSpace α))) (s : NS α (Cache α)),
      l.foldl (fun s av => (computeRootLayout realCache (Dispatch.select dispatchArms) allAlgs fuel t av s).2) s =
      l.foldl (fun s av => (computeRootLayout realCache (Dispatch.select dispatchArms) algsCovG fuel t av s).2) s := by
    intro l
    induction l with
    | nil => intro s; rfl
    | cons a l ih => intro s; simp only [List.foldl_cons]; rw [computeRootLayout_agree fuel t a s hb, ih]
  intro ns'
  show C16.Shape t (avs.foldl _ _) ∧ OK realObs (avs.foldl _ _) ∧ KTns realObs t (avs.foldl _ _)
  rw [e]
  exact eval_passes_K realObs _ algsCovG selHidden_real C01.selOK_real algsCovG_PLCovers algsCovG_Calm fuel t hd avs _
    (C16.Shape_init realCache t) (OK_init realObs t) (KTns_init realObs t)

end concrete

/-! ## 7. non-vacuity: a concrete tree, its stream exhibited -/
section Examples

mutual
/-- executable equality of flag trees (`FT` has no derived `DecidableEq`) -/
def ftEq : FT → FT → Bool
  | .node h f m ks, .node h' f' m' ks' => h == h' && f == f' && m == m' && ftEqList ks ks'
def ftEqList : List FT → List FT → Bool
  | [], [] => true
  | a :: as, b :: bs => ftEq a b && ftEqList as bs
  | _, _ => false
end

mutual
theorem ftEq_sound : ∀ a b : FT, ftEq a b = true → a = b
  | .node h f m ks, .node h' f' m' ks', e => by
    simp only [ftEq, Bool.and_eq_true, beq_iff_eq] at e
    obtain ⟨⟨⟨e1, e2⟩, e3⟩, e4⟩ := e
    rw [e1, e2, e3, ftEqList_sound ks ks' e4]
theorem ftEqList_sound : ∀ a b : List FT, ftEqList a b = true → a = b
  | [], [], _ => rfl
  | a :: as, b :: bs, e => by
    simp only [ftEqList, Bool.and_eq_true] at e
    rw [ftEq_sound a b e.1, ftEqList_sound as bs e.2]
  | [], _ :: _, e => by simp [ftEqList] at e
  | _ :: _, [], e => by simp [ftEqList] at e
end

/-- a block root over a flexbox container over a measured leaf -/
def ex3 : STree Rat :=
  .node C05.blockStyle none [.node EvalFlex.flexStyle none [.node C05.blockStyle (some (.fixed 10 10)) []]]

/-- the choice stream of the first root pass over the fresh `ex3` (available space 100 × max-content), as
`eval_refines_visit` constructs it: the root misses; the block program PerformLayouts the flexbox child, which misses; the
flexbox program measures the leaf three times (flex basis: miss; min-content contribution: miss — another slot —;
hypothetical cross size: hit) and PerformLayouts it (miss); the final phases are answered by hits -/
def ex3Stream : List Choice :=
  [.miss, .step 0 .L, .miss, .step 0 .S, .miss, .done, .done, .step 0 .S, .miss, .done, .done, .step 0 .S, .hit,
   .step 0 .L, .miss, .done, .done, .hit, .done, .done, .hit, .done, .done]

theorem ex3_calm : EvalGrid.GridCalm ex3 := EvalGrid.gridCalm_of_gridCalmB ex3 (by decide +kernel)

/-- the flags `compute_root_layout` leaves on `ex3` ARE the flags of the dirtiness pass on `ex3Stream` (evaluated) -/
theorem ex3_pass_is_stream :
    absFT realObs ex3 (computeRootLayout realCache (Dispatch.select dispatchArms) (EvalGrid.allAlgs : Algs Rat) 3 ex3
      ⟨.definite 100, .maxContent⟩ (NS.init realCache ex3)).2 =
    pass (absFT realObs ex3 (NS.init realCache ex3)) ex3Stream := by
  rw [EvalGrid.allAlgs_eq_K]
  exact ftEq_sound _ _ (by decide +kernel)

/-- the hypotheses of the general theorems hold for it, so the existence statement applies too … -/
example : ∃ cs, absFT realObs ex3 (computeRootLayout realCache (Dispatch.select dispatchArms) (EvalGrid.allAlgs : Algs Rat)
      3 ex3 ⟨.definite 100, .maxContent⟩ (NS.init realCache ex3)).2 = pass (absFT realObs ex3 (NS.init realCache ex3)) cs :=
  (eval_root_pass_refines_all_trees 3 ex3 _ _ ex3_calm (by decide) (C16.Shape_init realCache ex3)
    (OK_init realObs ex3)).1

/-- … and after the pass all three nodes are clean, e.g. the leaf at path `[0, 0]` -/
example (k : NS Rat (Cache Rat))
    (hk : C05.nsAt (computeRootLayout realCache (Dispatch.select dispatchArms) (EvalGrid.allAlgs : Algs Rat) 3 ex3
      ⟨.definite 100, .maxContent⟩ (NS.init realCache ex3)).2 [0, 0] = some k) : k.cache.isEmpty = false :=
  (eval_pass_cleans_all_trees 3 ex3 _ _ ex3_calm (by decide) (C16.Shape_init realCache ex3) (OK_init realObs ex3)
    (KTns_init realObs ex3) [0, 0] k (by simp [ex3, C05.VisibleTo, C05.blockStyle, EvalFlex.flexStyle])
    ⟨_, rfl⟩ hk).2

/-- the pass really did something: before it every flag is down, after it every node has a final entry and the leaf
(measured in ComputeSize mode) has a measure entry as well -/
example : ftEq (absFT realObs ex3 (NS.init realCache ex3))
      (.node false false false [.node false false false [.node false false false []]]) = true ∧
    ftEq (pass (absFT realObs ex3 (NS.init realCache ex3)) ex3Stream)
      (.node false true false [.node false true false [.node false true true []]]) = true := by
  decide +kernel

end Examples

/-! ## 8. the former `recompute` was too rigid: the reason `Model/DirtyPass.lean` was changed -/
section Rigid

/-- `DirtyPass.recompute` as it was before this refinement was proved: no closing `done` marker -/
def recomputeOld (visitF : Mode → FT → List Choice → FT × List Choice) (m : Mode) (kids : List FT) (cs : List Choice) :
    List FT × List Choice :=
  let r1 := steps visitF kids cs
  let r2 := finalPhase visitF m r1.1 r1.2
  steps visitF r2.1 (dropDone r2.2)

/-- `DirtyPass.visit` over `recomputeOld` -/
def visitOld : Nat → Mode → FT → List Choice → FT × List Choice
  | 0, _, t, cs => (t, cs)
  | fuel + 1, m, t, cs =>
    if canHit m t ∧ cs.head? = some .hit then (t, cs.tail)
    else
      match t with
      | .node true _ _ kids => (DirtyPass.store m (.node true false false (hvisitList kids)), dropDecision cs)
      | .node false f ms kids =>
        let r := recomputeOld (visitOld fuel) m kids (dropDecision cs)
        (DirtyPass.store m (.node false f ms r.1), r.2)

/-- `DirtyPass.pass` over `recomputeOld` -/
def passOld (t : FT) (cs : List Choice) : FT := (visitOld (depth t) .L t cs).1

/-- a box-generating node without children -/
def IsLeaf (k : FT) : Prop := k.hidden = false ∧ k.kids = []

/-- number of nodes of the list that hold a measure entry -/
def mc : List FT → Nat
  | [] => 0
  | k :: ks => (if k.meas = true then 1 else 0) + mc ks

theorem mc_set_le : ∀ (K : List FT) (i : Nat) (k' : FT), mc (K.set i k') ≤ mc K + 1
  | [], _, _ => by simp [mc]
  | a :: as, 0, k' => by
    simp only [List.set_cons_zero, mc]
    split <;> split <;> omega
  | a :: as, i + 1, k' => by
    simp only [List.set_cons_succ, mc]
    have := mc_set_le as i k'
    omega

theorem set_self : ∀ (K : List FT) (i : Nat) (k : FT), K[i]? = some k → K.set i k = K
  | [], _, _, h => by simp at h
  | a :: as, 0, k, h => by
    simp only [List.getElem?_cons_zero, Option.some.injEq] at h
    subst h; rfl
  | a :: as, i + 1, k, h => by
    simp only [List.getElem?_cons_succ] at h
    simp only [List.set_cons_succ, set_self as i k h]

theorem steps_nil (vf : Mode → FT → List Choice → FT × List Choice) :
    ∀ cs : List Choice, (steps vf [] cs).1 = [] ∧ NoStepHead (steps vf [] cs).2
  | [] => by rw [steps_nostep vf [] [] trivial]; exact ⟨rfl, trivial⟩
  | c :: cs => by
    cases c with
    | step i m => rw [steps_skip vf [] i m cs (by simp)]; exact steps_nil vf cs
    | hit => rw [steps_nostep vf [] (.hit :: cs) trivial]; exact ⟨rfl, trivial⟩
    | miss => rw [steps_nostep vf [] (.miss :: cs) trivial]; exact ⟨rfl, trivial⟩
    | done => rw [steps_nostep vf [] (.done :: cs) trivial]; exact ⟨rfl, trivial⟩

theorem recomputeOld_nil (vf : Mode → FT → List Choice → FT × List Choice) (m : Mode) (cs : List Choice) :
    (recomputeOld vf m [] cs).1 = [] ∧ NoStepHead (recomputeOld vf m [] cs).2 := by
  unfold recomputeOld
  simp only
  have e2 : ∀ X, finalPhase vf m [] X = ([], X) := by intro X; cases m <;> rfl
  rw [(steps_nil vf cs).1, e2]
  exact steps_nil vf _

/-- a lookup on a childless box-generating node under the former `recompute`: a hit, or a recomputation that hands back a
stream whose head is not a `step` — which ends the caller's scripted phase -/
theorem visitOld1_leaf (m : Mode) (f ms : Bool) (cs : List Choice) :
    visitOld 1 m (.node false f ms []) cs = (.node false f ms [], cs.tail) ∨
    ((visitOld 1 m (.node false f ms []) cs).1 = DirtyPass.store m (.node false f ms []) ∧
      NoStepHead (visitOld 1 m (.node false f ms []) cs).2) := by
  simp only [visitOld]
  split
  · exact Or.inl rfl
  · refine Or.inr ⟨?_, (recomputeOld_nil _ m _).2⟩
    simp only [(recomputeOld_nil _ m _).1]

theorem visitOld_miss_box (fuel : Nat) (m : Mode) (f ms : Bool) (K : List FT) (cs : List Choice)
    (h : canHit m (.node false f ms K) = false) :
    visitOld (fuel + 1) m (.node false f ms K) cs =
      (DirtyPass.store m (.node false f ms (recomputeOld (visitOld fuel) m K (dropDecision cs)).1),
        (recomputeOld (visitOld fuel) m K (dropDecision cs)).2) := by
  rw [visitOld]
  simp only [h, Bool.false_eq_true, false_and, if_false]

theorem store_leaf (m : Mode) (k : FT) (h : IsLeaf k) : IsLeaf (DirtyPass.store m k) ∧
    (m = .L → (DirtyPass.store m k).meas = k.meas) := by
  cases k with
  | node hd f ms kids =>
    cases m with
    | L => exact ⟨h, fun _ => rfl⟩
    | S => exact ⟨h, fun e => by cases e⟩

theorem leaf_form (k : FT) (h : IsLeaf k) : k = .node false k.fin k.meas [] := by
  cases k with
  | node hd f ms kids =>
    obtain ⟨h1, h2⟩ := h
    simp only [FT.hidden, FT.kids] at h1 h2
    subst h1; subst h2; rfl

theorem steps_visit_fst (vf : Mode → FT → List Choice → FT × List Choice) (kids : List FT) (i : Nat) (m : Mode)
    (cs : List Choice) (k : FT) (h : kids[i]? = some k) (hh : ¬ (m = .S ∧ k.hidden = true))
    (hn : NoStepHead (vf m k cs).2) : (steps vf kids (.step i m :: cs)).1 = kids.set i (vf m k cs).1 := by
  rw [steps]
  simp only [h, hh, if_false]
  split
  · rw [steps_nostep vf _ _ hn]
  · rfl

/-- under the former `recompute`, ONE scripted phase over childless box-generating children gives at most ONE of them a
new measure entry -/
theorem steps_old_mc : ∀ (n : Nat) (cs : List Choice), cs.length ≤ n → ∀ K : List FT, (∀ k ∈ K, IsLeaf k) →
    (∀ k ∈ (steps (visitOld 1) K cs).1, IsLeaf k) ∧ mc (steps (visitOld 1) K cs).1 ≤ mc K + 1 := by
  intro n
  induction n with
  | zero =>
    intro cs hl K hK
    cases cs with
    | nil => rw [steps_nostep _ K [] trivial]; exact ⟨hK, Nat.le_succ _⟩
    | cons c cs => simp at hl
  | succ n ih =>
    intro cs hl K hK
    cases cs with
    | nil => rw [steps_nostep _ K [] trivial]; exact ⟨hK, Nat.le_succ _⟩
    | cons c cs =>
      have hlen : cs.length ≤ n := by simp at hl; omega
      cases c with
      | hit => rw [steps_nostep _ K (.hit :: cs) trivial]; exact ⟨hK, Nat.le_succ _⟩
      | miss => rw [steps_nostep _ K (.miss :: cs) trivial]; exact ⟨hK, Nat.le_succ _⟩
      | done => rw [steps_nostep _ K (.done :: cs) trivial]; exact ⟨hK, Nat.le_succ _⟩
      | step i m =>
        cases hk : K[i]? with
        | none => rw [steps_skip _ K i m cs hk]; exact ih cs hlen K hK
        | some k =>
          have hkl : IsLeaf k := hK k (List.mem_of_getElem? hk)
          have hh : ¬ (m = .S ∧ k.hidden = true) := by
            rintro ⟨_, h2⟩; rw [hkl.1] at h2; cases h2
          have hform := leaf_form k hkl
          rcases visitOld1_leaf m k.fin k.meas cs with hv | ⟨hv1, hv2⟩
          · rw [← hform] at hv
            rw [steps_visit _ K i m cs cs.tail k k hk hh hv (by simp), set_self K i k hk]
            exact ih cs.tail (by simp; omega) K hK
          · rw [← hform] at hv1 hv2
            rw [steps_visit_fst _ K i m cs k hk hh hv2, hv1]
            refine ⟨fun x hx => ?_, mc_set_le K i _⟩
            rcases List.mem_or_eq_of_mem_set hx with h1 | h1
            · exact hK x h1
            · rw [h1]; exact (store_leaf m k hkl).1

/-- the final-layout phase gives no child a measure entry -/
theorem visitAllL_old_mc : ∀ (K : List FT) (cs : List Choice), (∀ k ∈ K, IsLeaf k) →
    (∀ k ∈ (visitAllL (visitOld 1) K cs).1, IsLeaf k) ∧ mc (visitAllL (visitOld 1) K cs).1 = mc K
  | [], cs, _ => ⟨(fun _ h => by cases h), rfl⟩
  | k :: ks, cs, hK => by
    have hkl : IsLeaf k := hK k List.mem_cons_self
    have hform := leaf_form k hkl
    obtain ⟨r1, r2⟩ := visitAllL_old_mc ks (visitOld 1 .L k cs).2 fun x hx => hK x (List.mem_cons_of_mem _ hx)
    have hk' : IsLeaf (visitOld 1 .L k cs).1 ∧ (visitOld 1 .L k cs).1.meas = k.meas := by
      rcases visitOld1_leaf .L k.fin k.meas cs with hv | ⟨hv1, _⟩
      · rw [← hform] at hv; rw [hv]; exact ⟨hkl, rfl⟩
      · rw [← hform] at hv1; rw [hv1]; exact ⟨(store_leaf .L k hkl).1, (store_leaf .L k hkl).2 rfl⟩
    simp only [visitAllL, mc]
    refine ⟨fun x hx => ?_, by rw [hk'.2, r2]⟩
    rcases List.mem_cons.1 hx with e | e
    · rw [e]; exact hk'.1
    · exact r1 x e

/-- three clean-to-be leaves -/
def leaf0 : FT := .node false false false []
def leafFM : FT := .node false true true []

/-- **old_recompute_rigid**: with the former `recompute`, NO choice stream takes a box-generating parent of three dirty
childless children to the state in which all three hold a measure entry and a final entry — two scripted phases, each
ended by the first child that is recomputed. -/
theorem old_recompute_rigid (cs : List Choice) :
    passOld (.node false false false [leaf0, leaf0, leaf0]) cs ≠ .node false true false [leafFM, leafFM, leafFM] := by
  have hK0 : ∀ k ∈ [leaf0, leaf0, leaf0], IsLeaf k := by
    intro k hk
    simp only [List.mem_cons, List.not_mem_nil, or_false, or_self] at hk
    subst hk; exact ⟨rfl, rfl⟩
  intro h
  have h' : (visitOld 2 .L (.node false false false [leaf0, leaf0, leaf0]) cs).1 =
      .node false true false [leafFM, leafFM, leafFM] := h
  rw [visitOld_miss_box 1 .L false false _ cs rfl] at h'
  simp only [DirtyPass.store, FT.node.injEq, true_and] at h'
  -- the children after the recomputation hold at most two measure entries
  have hb : mc (recomputeOld (visitOld 1) .L [leaf0, leaf0, leaf0] (dropDecision cs)).1 ≤ 2 := by
    unfold recomputeOld
    simp only [finalPhase]
    obtain ⟨a1, a2⟩ := steps_old_mc _ (dropDecision cs) (Nat.le_refl _) _ hK0
    obtain ⟨b1, b2⟩ := visitAllL_old_mc _ (steps (visitOld 1) [leaf0, leaf0, leaf0] (dropDecision cs)).2 a1
    obtain ⟨_, c2⟩ := steps_old_mc _ (dropDone (visitAllL (visitOld 1)
      (steps (visitOld 1) [leaf0, leaf0, leaf0] (dropDecision cs)).1
      (steps (visitOld 1) [leaf0, leaf0, leaf0] (dropDecision cs)).2).2) (Nat.le_refl _) _ b1
    have e0 : mc [leaf0, leaf0, leaf0] = 0 := rfl
    omega
  rw [h'] at hb
  exact absurd hb (by decide)

/-- a flexbox container over three measured leaves -/
def ex4 : STree Rat :=
  .node EvalFlex.flexStyle none
    [.node C05.blockStyle (some (.fixed 10 10)) [], .node C05.blockStyle (some (.fixed 20 10)) [],
     .node C05.blockStyle (some (.fixed 30 10)) []]

theorem ex4_calm : EvalGrid.GridCalm ex4 := EvalGrid.gridCalm_of_gridCalmB ex4 (by decide +kernel)

/-- the real pass over the fresh `ex4`: the three leaves are measured (ComputeSize, miss) and laid out -/
theorem ex4_flags :
    absFT realObs ex4 (NS.init realCache ex4) = .node false false false [leaf0, leaf0, leaf0] ∧
    absFT realObs ex4 (computeRootLayout realCache (Dispatch.select dispatchArms) (EvalGrid.allAlgs : Algs Rat) 2 ex4
      ⟨.definite 100, .maxContent⟩ (NS.init realCache ex4)).2 = .node false true false [leafFM, leafFM, leafFM] := by
  rw [EvalGrid.allAlgs_eq_K]
  exact ⟨ftEq_sound _ _ (by decide +kernel), ftEq_sound _ _ (by decide +kernel)⟩

/-- **old_recompute_too_rigid** (why `DirtyPass.recompute` was changed): the first root pass of the evaluator (real
cache, extracted dispatch, concrete algorithms) over a flexbox container with three measured leaves is NOT a resolution of
the dirtiness pass with the former `recompute`, for any choice stream; with the present `recompute` it is one
(`eval_root_pass_refines_all_trees`). -/
theorem old_recompute_too_rigid :
    (∀ cs, absFT realObs ex4 (computeRootLayout realCache (Dispatch.select dispatchArms) (EvalGrid.allAlgs : Algs Rat)
        2 ex4 ⟨.definite 100, .maxContent⟩ (NS.init realCache ex4)).2 ≠
      passOld (absFT realObs ex4 (NS.init realCache ex4)) cs) ∧
    (∃ cs, absFT realObs ex4 (computeRootLayout realCache (Dispatch.select dispatchArms) (EvalGrid.allAlgs : Algs Rat)
        2 ex4 ⟨.definite 100, .maxContent⟩ (NS.init realCache ex4)).2 =
      pass (absFT realObs ex4 (NS.init realCache ex4)) cs) := by
  refine ⟨fun cs h => ?_, (eval_root_pass_refines_all_trees 2 ex4 _ _ ex4_calm (by decide)
    (C16.Shape_init realCache ex4) (OK_init realObs ex4)).1⟩
  rw [ex4_flags.1, ex4_flags.2] at h
  exact old_recompute_rigid cs h.symm

end Rigid

end C15Refine
