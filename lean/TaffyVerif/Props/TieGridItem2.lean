/-
  Tie (tier T) for `GridItem::minimum_contribution` / `minimum_contribution_cached` of src/compute/grid/types/grid_item.rs in interaction form
  (extract/src/griditem.rs → Generated/GridItem.lean) against `GItem.minimumContribution[Cached]` of Model/GridItem.lean.
-/
import TaffyVerif.Props.TieGridItem
import TaffyVerif.Lemmas.GridBoxRel

set_option linter.unusedSectionVars false

namespace TieGridItem
open GridTracks GridModel Slice
variable {α : Type} [Num α]

/-! ### the meaning of programs commutes with sequencing -/

section
variable {χ β γ : Type} (h : χ → Bool)

theorem toGM_pure (b : β) : TreeProg.toGM h (pure b : TreeProg χ α β) = pure b := rfl

theorem toGM_ofExcept_ok (b : β) : TreeProg.toGM h (TreeProg.ofExcept (.ok b) : TreeProg χ α β) = pure b := rfl

theorem toGM_bind (x : TreeProg χ α β) (f : β → TreeProg χ α γ) :
    TreeProg.toGM h (x >>= f) = (TreeProg.toGM h x >>= fun b => TreeProg.toGM h (f b)) := by
  induction x with
  | ret b =>
    show TreeProg.toGM h (f b) = (pure b >>= fun b => TreeProg.toGM h (f b))
    rw [pure_bind]
  | fail e => cases e <;> rfl
  | measureChildSize n kd ps av sm ax vm k ih =>
    show TreeProg.toGM h (TreeProg.measureChildSize n kd ps av sm ax vm (fun r => TreeProg.bind (k r) f)) = _
    simp only [TreeProg.toGM]
    rw [bind_assoc]
    congr 1
    funext v
    exact ih v

end

/-! ### `minimum_contribution` -/

theorem ofExcept_ok_bind {χ β γ : Type} (b : β) (f : β → TreeProg χ α γ) :
    (TreeProg.ofExcept (Except.ok b) >>= f) = f b := rfl

theorem or_isSome_eq {β : Type} (o d : Option β) : (if o.isSome = true then o else d) = o.or d := by
  cases o <;> rfl

theorem minimum_contribution_eq (it : GItem α) (ax : Ax) (tracks : List (GridTrack α)) (kd inner : Size (Option α))
    (hr : (it.trackRange ax).1 ≤ (it.trackRange ax).2 ∧ (it.trackRange ax).2 ≤ tracks.length) :
    (Gen.GridItem.GridItem.minimum_contribution it ax tracks kd inner).toGM isHorizontal =
      (fun r => (r.2, r.1)) <$> it.minimumContribution ax tracks kd inner := by
  have key : ∀ c, Gen.GridItem.GridItem.spanned_fixed_track_limit { it with minContentContributionCache := c } ax tracks
      (sget inner ax) = .ok ({ it with minContentContributionCache := c },
        GItem.spannedFixedTrackLimit { it with minContentContributionCache := c } ax tracks (sget inner ax)) :=
    fun c => spanned_fixed_track_limit_eq _ ax tracks _ hr
  have key0 := spanned_fixed_track_limit_eq it ax tracks (sget inner ax) hr
  unfold Gen.GridItem.GridItem.minimum_contribution GItem.minimumContribution GItem.resolveSize
  simp only [TieResolve.rect_lp_size_resolve_or_zero_eq, TieLayout.sum_axes_eq, TieLeaf.rect_add_eq, TieLayout.size_ZERO_eq,
    TieMaybeMath.size_of_add_eq, TieLayout.maybe_apply_aspect_ratio_eq, TieResolve.size_dim_maybe_resolve_eq,
    TieGridAxes.size_get_eq, TieGridAxes.point_get_eq, TieStyle.maybe_into_automatic_min_size_eq, TieTrackFns.min_is_auto_eq,
    TieTrackFns.max_is_fr_eq, TieMaybeMath.fo_min_eq, TieMaybeMath.of_add_eq, TieResolve.dim_maybe_resolve_eq,
    track_range_excluding_lines_eq, toGM_bind, toGM_pure]
  have hidx : Slice.indexRange tracks (it.trackRange ax) = .ok (it.spannedTracks ax tracks) := by
    rw [show it.trackRange ax = ((it.trackRange ax).1, (it.trackRange ax).2) from rfl, TieTracks3.indexRange_eq _ _ _ hr]
    rfl
  simp only [or_isSome_eq, hidx]
  generalize ((sget ((((Resolve.sizeMaybe it.size inner).maybeApplyAspectRatio it.aspectRatio).of_add
      (if (it.boxSizing == BoxSizing.contentBox) = true then
        ((Resolve.rectLPOrZeroSize it.padding inner).add (Resolve.rectLPOrZeroSize it.border inner)).sumAxes
      else Size.zero))) ax).or
    (sget ((((Resolve.sizeMaybe it.minSize inner).maybeApplyAspectRatio it.aspectRatio).of_add
      (if (it.boxSizing == BoxSizing.contentBox) = true then
        ((Resolve.rectLPOrZeroSize it.padding inner).add (Resolve.rectLPOrZeroSize it.border inner)).sumAxes
      else Size.zero))) ax)).or (pget it.overflow ax).maybeIntoAutomaticMinSize = fs
  cases fs with
  | some v =>
    simp only [toGM_pure, pure_bind, key0, toGM_ofExcept_ok, map_pure]
  | none =>
    simp only [ofExcept_ok_bind]
    by_cases hu : ((tracks.any fun (track : GridTrack α) => track.minFn.isAuto) &&
        ((it.spannedTracks ax tracks).length == 1 || !tracks.any fun (track : GridTrack α) => track.maxFn.isFr)) = true
    · simp only [hu, ↓reduceIte, toGM_bind, min_content_contribution_cached_eq, toGM_pure]
      unfold GItem.minContentContributionCached
      cases hc : sget it.minContentContributionCache ax with
      | some c =>
        simp only [map_pure, pure_bind, key0, toGM_ofExcept_ok]
        by_cases hcr : it.isCompressibleReplaced = true
        · simp only [hcr, ↓reduceIte, pure_bind, map_pure]
        · simp only [hcr, Bool.false_eq_true, ↓reduceIte, pure_bind, map_pure]
      | none =>
        simp only [map_eq_pure_bind, bind_assoc, pure_bind, key, toGM_ofExcept_ok]
        by_cases hcr : it.isCompressibleReplaced = true
        · simp only [hcr, ↓reduceIte, pure_bind]
          try rfl
        · simp only [hcr, Bool.false_eq_true, ↓reduceIte, pure_bind]
          try rfl
    · simp only [hu, Bool.false_eq_true, ↓reduceIte, toGM_pure, pure_bind, key0, toGM_ofExcept_ok, map_pure]

/-- `minimum_contribution_cached`: the cached value if there is one; otherwise `minimum_contribution`, stored in `minimum_contribution_cache` -/
theorem minimum_contribution_cached_eq (it : GItem α) (ax : Ax) (tracks : List (GridTrack α)) (kd inner : Size (Option α))
    (hr : (it.trackRange ax).1 ≤ (it.trackRange ax).2 ∧ (it.trackRange ax).2 ≤ tracks.length) :
    (Gen.GridItem.GridItem.minimum_contribution_cached it ax tracks kd inner).toGM isHorizontal =
      (fun r => (r.2, r.1)) <$> it.minimumContributionCached ax tracks kd inner := by
  unfold Gen.GridItem.GridItem.minimum_contribution_cached GItem.minimumContributionCached
  rw [TieGridAxes.size_get_eq, TieGridAxes.size_set_eq]
  cases hc : sget it.minimumContributionCache ax with
  | some v => rfl
  | none =>
    simp only [toGM_bind, minimum_contribution_eq it ax tracks kd inner hr, toGM_pure, map_eq_pure_bind, bind_assoc, pure_bind]

/-- the hypothesis of `minimum_contribution_eq` on the example item of Props/TieGridItem.lean -/
example : (exItem.trackRange .inl).1 ≤ (exItem.trackRange .inl).2 ∧ (exItem.trackRange .inl).2 ≤ exTracks.length := by decide

end TieGridItem
