/-
  C04 at the tree level for ALL trees (block, flexbox and grid containers, leaves), cache-free evaluator
  (`Eval.noCache`, as in `C04.tree_homogeneous`), at `Rat`, for every `k > 0`.

  `Scalable.scale k` (Model/Scale.lean) multiplies every absolute length of a style tree by `k` — the lengths inside
  `grid_template_rows/columns` and `grid_auto_rows/columns` included (`C04Grid.scale_scales_grid`).

  Grid homogeneity is FALSE in general (`C04Grid.grid_not_homogeneous`, `grid_not_homogeneous_autorepeat`: the 1px
  substitute of a zero-size auto-repetition, THRESHOLD 0.01, THRESHOLD 0.000001), so the tree theorem comes in the two
  strongest true forms:

    (a) `tree_homogeneous_joint_all_trees` — UNCONDITIONAL, every tree: the evaluator with the grid algorithm run with
        the k-scaled constants (`algsT (k·one) (k·θd) (k·θi)`) on the k-scaled tree yields the k-scaled output and state of
        the evaluator with the constants `one θd θi` on the tree.  At the real constants
        (`tree_homogeneous_real_constants`): the layout of the scaled tree computed with 1·k, 0.01·k, 0.000001·k is the
        scaled REAL layout.  This is the precise sense in which the three constants are the only absolute lengths in
        taffy's layout algorithms (leaf, block, flexbox, grid, root, abs-pos, hidden).
    (b) `tree_homogeneous_all_trees_partial` — the REAL algorithms on both sides, on every tree all of whose grid
        containers with children, outside `display:none` subtrees, satisfy the static, decidable, input-independent
        condition `GridFixedS` (`GridFixedTree`): all track sizing functions `minmax(a, b)` with lengths `b ≤ a`, auto
        track lists non-empty, gaps lengths, no auto-repetition of zero size.  `GridFixedS s → ∀ inp, GridFixed s inp`
        (`gridFixedS_gridFixed`).  Every `NoGrid` tree is a `GridFixedTree` (`NoGrid_GridFixedTree`), so (b) contains
        `C04Flex.tree_homogeneous_block_flex_leaf_trees` at the real grid algorithm.

  Both are instances of the relational tree theorem `tree_homogeneous_rel` (Lemmas/ScaleEvalRel.lean): two `Algs`, one
  per side, related by `AlgsHomRel algs' algs k G`, on trees whose grid-dispatched nodes satisfy `G`.
-/
import TaffyVerif.Props.EvalGridScale
import TaffyVerif.Props.EvalFlexScale
import TaffyVerif.Lemmas.ScaleEvalRel
import TaffyVerif.Lemmas.GridScaleStatic
import TaffyVerif.Model.EvalConcrete

set_option linter.unusedSectionVars false
set_option linter.unusedVariables false

namespace C04Tree
open Scalable GridModel GridTracks GridStages GridScale GridTheta C04 Eval FlexModel FlexTrees

variable {k : Rat}

/-! ### 0. the algorithms -/

/-- the evaluator's algorithms: the modelled leaf, block and flexbox algorithms, and `compute_grid_layout` with its
three absolute constants as parameters -/
def algsT (one θd θi : Rat) : Algs Rat := concreteAlgs computeFlexboxLayout (gridAlgT one θd θi)

/-- the evaluator's REAL algorithms: leaf, block, flexbox, grid -/
def realAlgs : Algs Rat := concreteAlgs computeFlexboxLayout gridAlg

/-- at the real constants `algsT` is `realAlgs` -/
theorem algsT_real : algsT 1 thresholdDist thresholdItem = realAlgs := by
  unfold algsT realAlgs
  rw [C04Grid.gridAlgT_real]

/-- `realAlgs` are the algorithms the other properties use (`EvalConcrete.algs`) -/
theorem realAlgs_eq : realAlgs = EvalConcrete.algs computeFlexboxLayout gridAlg := by
  have hl : (C04.leafAlg : LayoutInput Rat → Style Rat → _ → LayoutOutput Rat) = EvalConcrete.leafAlg := by
    funext inp style m
    unfold C04.leafAlg EvalConcrete.leafAlg
    cases LeafModel.computeLeafLayout inp style m <;> rfl
  unfold realAlgs concreteAlgs EvalConcrete.algs
  rw [hl]

/-- the real constants at `Rat` -/
theorem thresholds_rat : (thresholdDist : Rat) = 1 / 100 ∧ (thresholdItem : Rat) = 1 / 1000000 := by
  constructor <;> simp [thresholdDist, thresholdItem, Num.ofNat]

/-! ### 1. the relational tree theorem -/

/-- **tree_homogeneous_rel**: for the cache-free evaluator, every dispatch table `sel`, two families of algorithms
`algs'` (scaled side) and `algs` (original side) that correspond under scaling — the grid components on the containers
that satisfy `G` — every fuel, every tree whose grid-dispatched nodes outside hidden subtrees satisfy `G`, every state of
stored layouts and input: evaluating the scaled tree with `algs'` yields the scaled output and the scaled state of
evaluating the tree with `algs`. -/
theorem tree_homogeneous_rel (hk : 0 < k) (sel : Display → Bool → Option Gen.Facts.Callee) (algs' algs : Algs Rat)
    (G : Style Rat → Prop) (h : AlgsHomRel algs' algs k G) (fuel : Nat) (t : STree Rat) (ht : GridNodes sel G t)
    (ns : NS Rat Unit) (inp : LayoutInput Rat) :
    evalNodeWith noCache sel algs' fuel (scale k t) (scale k ns) (scale k inp) =
      scale k (evalNodeWith noCache sel algs fuel t ns inp) :=
  evalNodeWith_scale_rel hk sel algs' algs G h fuel t ht ns inp

/-- `C04.tree_homogeneous` is the case `algs' = algs`, `G = True` -/
theorem tree_homogeneous_of_rel (hk : 0 < k) (sel : Display → Bool → Option Gen.Facts.Callee) (algs : Algs Rat)
    (h : AlgsHomogeneous algs k) (fuel : Nat) (t : STree Rat) (ns : NS Rat Unit) (inp : LayoutInput Rat) :
    evalNodeWith noCache sel algs fuel (scale k t) (scale k ns) (scale k inp) =
      scale k (evalNodeWith noCache sel algs fuel t ns inp) :=
  tree_homogeneous_rel hk sel algs algs _ h.toRel fuel t (GridNodes_true sel t) ns inp

/-! ### 2. (a) joint homogeneity in lengths and constants: every tree, no hypothesis -/

/-- the algorithms with the scaled constants correspond to the algorithms with the constants, on every container -/
theorem algsHomRel_joint (hk : 0 < k) (one θd θi : Rat) :
    AlgsHomRel (algsT (scale k one) (scale k θd) (scale k θi)) (algsT one θd θi) k (fun _ => True) :=
  { leaf := leafAlg_homogeneous hk
    block := block_homogeneous hk
    flex := C04Flex.flex_homogeneous k hk
    grid := fun s cs inp _ => C04Grid.grid_homogeneous_joint hk one θd θi s cs inp }

/-- the same for every dispatch table -/
theorem tree_homogeneous_joint_all_trees_with (hk : 0 < k) (sel : Display → Bool → Option Gen.Facts.Callee)
    (one θd θi : Rat) (fuel : Nat) (t : STree Rat) (ns : NS Rat Unit) (inp : LayoutInput Rat) :
    evalNodeWith noCache sel (algsT (scale k one) (scale k θd) (scale k θi)) fuel (scale k t) (scale k ns) (scale k inp) =
      scale k (evalNodeWith noCache sel (algsT one θd θi) fuel t ns inp) :=
  tree_homogeneous_rel hk sel _ _ _ (algsHomRel_joint hk one θd θi) fuel t (GridNodes_true sel t) ns inp

/-- **tree_homogeneous_joint_all_trees** (UNCONDITIONAL): for EVERY tree (block, flexbox and grid containers, leaves,
hidden subtrees), every `k > 0`, constants `one θd θi`, fuel, state of stored layouts and input: the cache-free evaluator
(`TaffyTree`'s dispatch; the modelled leaf, block, flexbox and grid algorithms) run on the k-scaled tree with the k-scaled
input from the k-scaled state, with the grid constants scaled by `k`, yields the k-scaled output and the k-scaled state —
every stored unrounded layout of every node scaled — of the run on the tree with the constants `one θd θi`. -/
theorem tree_homogeneous_joint_all_trees (hk : 0 < k) (one θd θi : Rat) (fuel : Nat) (t : STree Rat)
    (ns : NS Rat Unit) (inp : LayoutInput Rat) :
    evalNode noCache (algsT (scale k one) (scale k θd) (scale k θi)) fuel (scale k t) (scale k ns) (scale k inp) =
      scale k (evalNode noCache (algsT one θd θi) fuel t ns inp) :=
  tree_homogeneous_joint_all_trees_with hk _ one θd θi fuel t ns inp

/-- **tree_homogeneous_real_constants**: at the real constants.  The layout of the k-scaled tree computed with the
constants `k·1`, `k·0.01`, `k·0.000001` is the k-scaled layout computed by the REAL algorithms: the three constants are
the only absolute lengths in taffy's layout algorithms. -/
theorem tree_homogeneous_real_constants (hk : 0 < k) (fuel : Nat) (t : STree Rat) (ns : NS Rat Unit)
    (inp : LayoutInput Rat) :
    evalNode noCache (algsT (k * 1) (k * (1 / 100)) (k * (1 / 1000000))) fuel (scale k t) (scale k ns) (scale k inp) =
      scale k (evalNode noCache realAlgs fuel t ns inp) := by
  rw [← algsT_real, ← thresholds_rat.1, ← thresholds_rat.2]
  exact tree_homogeneous_joint_all_trees hk 1 thresholdDist thresholdItem fuel t ns inp

/-- from a freshly built tree -/
theorem tree_homogeneous_real_constants_fresh (hk : 0 < k) (fuel : Nat) (t : STree Rat) (inp : LayoutInput Rat) :
    evalNode noCache (algsT (k * 1) (k * (1 / 100)) (k * (1 / 1000000))) fuel (scale k t)
        (NS.init noCache (scale k t)) (scale k inp) =
      scale k (evalNode noCache realAlgs fuel t (NS.init noCache t) inp) := by
  rw [init_scale]
  exact tree_homogeneous_real_constants hk fuel t _ inp

/-! ### 3. (b) the real algorithms on trees whose grid containers are fixed-track -/

/-- the static, input-independent side condition on a grid container: on both axes every track sizing function of the
template and of the auto-track list is `minmax(a, b)` with lengths `b ≤ a`, the auto-track list is not empty, the gap is
a length (`AxisFixed`), and the auto-repetition of the template (if any) does not take zero space (checked against the
container size 0: on such an axis the space it takes does not depend on the container size) -/
def GridFixedS (s : Style Rat) : Prop :=
  AxisFixed s.grid.templateColumns s.grid.autoColumns s.gap.width ∧
  AxisFixed s.grid.templateRows s.grid.autoRows s.gap.height ∧
  ExplicitNoPx s.gap.width s.grid.templateColumns (some 0) ∧
  ExplicitNoPx s.gap.height s.grid.templateRows (some 0)

instance (s : Style Rat) : Decidable (GridFixedS s) := by
  unfold GridFixedS
  have d1 := decidable_of_iff _ (axisFixedB_iff s.grid.templateColumns s.grid.autoColumns s.gap.width)
  have d2 := decidable_of_iff _ (axisFixedB_iff s.grid.templateRows s.grid.autoRows s.gap.height)
  infer_instance

/-- **gridFixedS_gridFixed**: the input-independent condition implies `C04Grid.GridFixed` for every input -/
theorem gridFixedS_gridFixed (s : Style Rat) (h : GridFixedS s) (inp : LayoutInput Rat) : C04Grid.GridFixed s inp :=
  ⟨h.1, h.2.1, ExplicitNoPx_static _ _ _ h.1 h.2.2.1 _, ExplicitNoPx_static _ _ _ h.2.1 h.2.2.2 _⟩

/-- a template without auto-repetition on fixed axes: the simplest sufficient condition -/
theorem gridFixedS_of_no_autorepeat (s : Style Rat)
    (hc : AxisFixed s.grid.templateColumns s.grid.autoColumns s.gap.width)
    (hr : AxisFixed s.grid.templateRows s.grid.autoRows s.gap.height)
    (hac : findAutoRepetition s.grid.templateColumns = none) (har : findAutoRepetition s.grid.templateRows = none) :
    GridFixedS s := by
  refine ⟨hc, hr, ?_, ?_⟩ <;> unfold ExplicitNoPx
  · rw [hac]; trivial
  · rw [har]; trivial

mutual
/-- **GridFixedTree**: every node that is not inside a `display:none` subtree and is a `display:grid` container with
children satisfies `GridFixedS` (block and flexbox containers and leaves are unconstrained) -/
def GridFixedTree : STree Rat → Prop
  | .node s _ kids => s.display = .none ∨ ((s.display = .grid → kids ≠ [] → GridFixedS s) ∧ GridFixedTreeList kids)
def GridFixedTreeList : List (STree Rat) → Prop
  | [] => True
  | t :: ts => GridFixedTree t ∧ GridFixedTreeList ts
end

mutual
/-- executable form -/
def gridFixedTreeB : STree Rat → Bool
  | .node s _ kids =>
    decide (s.display = .none) ||
      ((decide (s.display ≠ .grid) || kids.isEmpty || decide (GridFixedS s)) && gridFixedTreeListB kids)
def gridFixedTreeListB : List (STree Rat) → Bool
  | [] => true
  | t :: ts => gridFixedTreeB t && gridFixedTreeListB ts
end

mutual
theorem gridFixedTreeB_sound : ∀ t : STree Rat, gridFixedTreeB t = true → GridFixedTree t
  | .node s c kids, h => by
    simp only [gridFixedTreeB, Bool.or_eq_true, Bool.and_eq_true, List.isEmpty_iff, decide_eq_true_eq] at h
    simp only [GridFixedTree]
    rcases h with h | ⟨h, hk⟩
    · exact Or.inl h
    · refine Or.inr ⟨fun hg hne => ?_, gridFixedTreeListB_sound kids hk⟩
      rcases h with (h | h) | h
      · exact absurd hg h
      · exact absurd h hne
      · exact h
theorem gridFixedTreeListB_sound : ∀ ts : List (STree Rat), gridFixedTreeListB ts = true → GridFixedTreeList ts
  | [], _ => trivial
  | t :: ts, h => by
    simp only [gridFixedTreeListB, Bool.and_eq_true] at h
    exact ⟨gridFixedTreeB_sound t h.1, gridFixedTreeListB_sound ts h.2⟩
end

mutual
theorem gridFixedTreeB_complete : ∀ t : STree Rat, GridFixedTree t → gridFixedTreeB t = true
  | .node s c kids, h => by
    simp only [GridFixedTree] at h
    simp only [gridFixedTreeB, Bool.or_eq_true, Bool.and_eq_true, List.isEmpty_iff, decide_eq_true_eq]
    rcases h with h | ⟨h, hk⟩
    · exact Or.inl h
    · refine Or.inr ⟨?_, gridFixedTreeListB_complete kids hk⟩
      by_cases hg : s.display = .grid
      · by_cases hne : kids = []
        · exact Or.inl (Or.inr hne)
        · exact Or.inr (h hg hne)
      · exact Or.inl (Or.inl hg)
theorem gridFixedTreeListB_complete : ∀ ts : List (STree Rat), GridFixedTreeList ts → gridFixedTreeListB ts = true
  | [], _ => rfl
  | t :: ts, h => by
    simp only [gridFixedTreeListB, Bool.and_eq_true]
    exact ⟨gridFixedTreeB_complete t h.1, gridFixedTreeListB_complete ts h.2⟩
end

/-- `GridFixedTree` is decided by `gridFixedTreeB` -/
theorem gridFixedTreeB_iff (t : STree Rat) : GridFixedTree t ↔ gridFixedTreeB t = true :=
  ⟨gridFixedTreeB_complete t, gridFixedTreeB_sound t⟩

instance (t : STree Rat) : Decidable (GridFixedTree t) := decidable_of_iff _ (gridFixedTreeB_iff t).symm

mutual
/-- a tree without grid containers is a `GridFixedTree` -/
theorem NoGrid_GridFixedTree : ∀ t : STree Rat, NoGrid t → GridFixedTree t
  | .node s c kids, h => by
    simp only [NoGrid] at h
    simp only [GridFixedTree]
    rcases h with h | ⟨h, hk⟩
    · exact Or.inl h
    · refine Or.inr ⟨fun hg hne => ?_, NoGridList_GridFixedTreeList kids hk⟩
      rcases h with h | h | h
      · exact absurd h hne
      · rw [hg] at h; cases h
      · rw [hg] at h; cases h
theorem NoGridList_GridFixedTreeList : ∀ ts : List (STree Rat), NoGridList ts → GridFixedTreeList ts
  | [], _ => trivial
  | t :: ts, h => ⟨NoGrid_GridFixedTree t h.1, NoGridList_GridFixedTreeList ts h.2⟩
end

mutual
/-- under `TaffyTree`'s extracted dispatch, the nodes sent to grid are the `display:grid` nodes with children, and the
hidden subtrees are the `display:none` ones -/
theorem GridFixedTree_GridNodes : ∀ t : STree Rat, GridFixedTree t →
    GridNodes (Dispatch.select Gen.Facts.dispatchArms) GridFixedS t
  | .node s c kids, h => by
    simp only [GridFixedTree] at h
    simp only [GridNodes, C17.dispatch_eq]
    rcases h with h | ⟨h, hk⟩
    · left; rw [h]; rfl
    · refine Or.inr ⟨fun hg => ?_, GridFixedTreeList_GridNodesList kids hk⟩
      have hd : s.display = .grid ∧ kids ≠ [] := by
        cases hdisp : s.display <;> cases kids <;> simp [hdisp, C17.documented] at hg ⊢
      exact h hd.1 hd.2
theorem GridFixedTreeList_GridNodesList : ∀ ts : List (STree Rat), GridFixedTreeList ts →
    GridNodesList (Dispatch.select Gen.Facts.dispatchArms) GridFixedS ts
  | [], _ => trivial
  | t :: ts, h => ⟨GridFixedTree_GridNodes t h.1, GridFixedTreeList_GridNodesList ts h.2⟩
end

/-- the real algorithms correspond to themselves on the containers that satisfy `GridFixedS` -/
theorem algsHomRel_real_partial (hk : 0 < k) : AlgsHomRel realAlgs realAlgs k GridFixedS :=
  { leaf := leafAlg_homogeneous hk
    block := block_homogeneous hk
    flex := C04Flex.flex_homogeneous k hk
    grid := fun s cs inp h => C04Grid.grid_homogeneous_partial hk s cs inp (gridFixedS_gridFixed s h inp) }

/-- **tree_homogeneous_all_trees_partial**: for the REAL algorithms (leaf, block, flexbox, grid) on both sides, every
tree all of whose grid containers with children, outside `display:none` subtrees, have fixed-size tracks
(`GridFixedTree`), every `k > 0`, fuel, state of stored layouts and input: evaluating the scaled tree with the scaled
input from the scaled state (cache-free evaluator, `TaffyTree`'s dispatch) yields the scaled output and the scaled state —
every stored unrounded layout of every node scaled.  PARTIAL: what is missing is exactly the grid containers with an
intrinsic, flexible, percentage or implicit-`auto` track or a zero-size auto-repetition, where the statement is false
(`C04Grid.grid_not_homogeneous`, `grid_not_homogeneous_autorepeat`); for those see (a) and, per run,
`C04Grid.grid_homogeneous_run_iff`. -/
theorem tree_homogeneous_all_trees_partial (hk : 0 < k) (fuel : Nat) (t : STree Rat) (ns : NS Rat Unit)
    (inp : LayoutInput Rat) (h : GridFixedTree t) :
    evalNode noCache realAlgs fuel (scale k t) (scale k ns) (scale k inp) =
      scale k (evalNode noCache realAlgs fuel t ns inp) :=
  tree_homogeneous_rel hk _ realAlgs realAlgs GridFixedS (algsHomRel_real_partial hk) fuel t
    (GridFixedTree_GridNodes t h) ns inp

/-- from a freshly built tree (the fresh state of the scaled tree is the scaled fresh state) -/
theorem tree_homogeneous_all_trees_partial_fresh (hk : 0 < k) (fuel : Nat) (t : STree Rat) (inp : LayoutInput Rat)
    (h : GridFixedTree t) :
    evalNode noCache realAlgs fuel (scale k t) (NS.init noCache (scale k t)) (scale k inp) =
      scale k (evalNode noCache realAlgs fuel t (NS.init noCache t) inp) := by
  rw [init_scale]
  exact tree_homogeneous_all_trees_partial hk fuel t _ inp h

/-- the hypothesis of (b) cannot be dropped: the real algorithms are not homogeneous at `k = 16` -/
theorem realAlgs_not_homogeneous : ¬ AlgsHomogeneous realAlgs 16 := C04Grid.not_algsHomogeneous_grid _

/-! ### 4. non-vacuity: concrete trees at `Rat` (k = 4, 1/4, 16) -/

section examples

/-- the kernel-evaluable forms of the algorithms (`List.mergeSort` does not reduce in the kernel;
`GridKernel.gridAlgK = gridAlg`, `gridAlgTK = gridAlgT`) -/
def realAlgsK : Algs Rat := concreteAlgs computeFlexboxLayout GridKernel.gridAlgK
def algsTK (one θd θi : Rat) : Algs Rat := concreteAlgs computeFlexboxLayout (gridAlgTK one θd θi)

theorem realAlgsK_eq : realAlgsK = realAlgs := by
  unfold realAlgsK realAlgs
  rw [GridKernel.gridAlgK_eq]

theorem algsTK_eq (one θd θi : Rat) : algsTK one θd θi = algsT one θd θi := by
  unfold algsTK algsT
  rw [gridAlgTK_eq]

def exLeaf : Style Rat := { (Style.default : Style Rat) with display := .block }

/-- the items of the fixed-track grid, with explicit lines, in row-major order (`GridKernel.gridAlgK` reduces in the
kernel when the item lists it sorts are already sorted): an auto-margin text item, a percentage-width baseline item
spanning two columns, a baseline item in an implicit row -/
def gA : Style Rat := { C04Grid.exKidA with grid := { column := ⟨.line 1, .auto⟩, row := ⟨.line 1, .auto⟩ } }
def gB : Style Rat := { C04Grid.exKidB with grid := { column := ⟨.line 2, .span 2⟩, row := ⟨.line 1, .auto⟩ } }
def gC : Style Rat := { C04Grid.exKidC with grid := { column := ⟨.line 1, .auto⟩, row := ⟨.line 2, .auto⟩ } }

/-- a tree: a block root (160 wide, padding 2) with
  * a wrapping flexbox row (`C04Flex.exRoot`: 100 wide, gaps, percentage padding, `space-between`) holding a growing item
    with an auto margin and a shrinking percentage-basis text item,
  * a fixed-track grid (`C04Grid.exGrid`: `grid-template-columns: 40px repeat(2, minmax(30px, 20px))`,
    `grid-template-rows: 25px`, `grid-auto-rows: 15px`, `grid-auto-columns: 10px`, gaps 4/2, padding,
    `space-between`, `align-items: center`) holding the three items above, an absolutely positioned item with explicit
    lines (percentage inset and width), and a hidden item,
  * a text leaf -/
def exTree : STree Rat :=
  .node C04Flex.exBlockRoot none
    [.node C04Flex.exRoot none [.node C04Flex.exKidA none [], .node C04Flex.exKidB (some (.wrap 50 8)) []],
     .node C04Grid.exGrid none
       [.node gA (some (.wrap 50 8)) [], .node gB (some (.wrap 50 8)) [], .node gC (some (.fixed 20 7)) [],
        .node C04Grid.exKidAbs none [], .node C04Grid.exKidHidden none []],
     .node exLeaf (some (.wrap 30 6)) []]

/-- the grid container of the tree satisfies the static condition; the tree is not `NoGrid` -/
theorem exGrid_fixedS : GridFixedS C04Grid.exGrid := by decide +kernel
theorem exTree_fixed : GridFixedTree exTree := gridFixedTreeB_sound _ (by decide +kernel)
theorem exTree_not_noGrid : ¬ NoGrid exTree := by
  simp [exTree, NoGrid, NoGridList, C04Flex.exBlockRoot, C04Flex.exRoot, C04Grid.exGrid, Style.default]

/-- scaling scales the grid tracks of the grid container -/
example : (scale 4 C04Grid.exGrid).grid.templateColumns =
      [TrackDef.single ⟨.length 160, .length 160⟩, TrackDef.rep (.count 2) [⟨.length 120, .length 80⟩]] ∧
    (scale (1/4) C04Grid.exGrid).grid.autoRows = [⟨.length (15/4), .length (15/4)⟩] := by decide +kernel

/-- `tree_homogeneous_all_trees_partial` for this tree at k = 4 and k = 1/4 (real algorithms on both sides) -/
example : evalNode noCache realAlgs 4 (scale 4 exTree) (NS.init noCache (scale 4 exTree)) (scale 4 C04Flex.treeIn) =
    scale 4 (evalNode noCache realAlgs 4 exTree (NS.init noCache exTree) C04Flex.treeIn) :=
  tree_homogeneous_all_trees_partial_fresh (by norm_num) 4 exTree C04Flex.treeIn exTree_fixed
example : evalNode noCache realAlgs 4 (scale (1/4) exTree) (NS.init noCache (scale (1/4) exTree))
      (scale (1/4) C04Flex.treeIn) =
    scale (1/4) (evalNode noCache realAlgs 4 exTree (NS.init noCache exTree) C04Flex.treeIn) :=
  tree_homogeneous_all_trees_partial_fresh (by norm_num) 4 exTree C04Flex.treeIn exTree_fixed

/-- what the three evaluations are (sizes and locations of the root's children and grandchildren): every number is
multiplied by 4, resp. divided by 4 -/
theorem exTree_layout :
    C04Flex.kidLayouts2 (evalNode noCache realAlgs 4 exTree (NS.init noCache exTree) C04Flex.treeIn) =
    (⟨160, 90⟩,
      [((⟨2, 2⟩, ⟨100, 34⟩), [(⟨3, 35/2⟩, ⟨43, 10⟩), (⟨50, 16⟩, ⟨48, 16⟩)]),
       ((⟨2, 36⟩, ⟨200, 46⟩),
         [(⟨3, 6⟩, ⟨38, 16⟩), (⟨90, 3⟩, ⟨54, 8⟩), (⟨2, 30⟩, ⟨40, 7⟩), (⟨5, 23/2⟩, ⟨59, 10⟩), (⟨0, 0⟩, ⟨0, 0⟩)]),
       ((⟨2, 82⟩, ⟨156, 6⟩), [])]) := by
  rw [← realAlgsK_eq]
  decide +kernel
theorem exTree_layout_times_4 :
    C04Flex.kidLayouts2 (evalNode noCache realAlgs 4 (scale 4 exTree) (NS.init noCache (scale 4 exTree))
      (scale 4 C04Flex.treeIn)) =
    (⟨640, 360⟩,
      [((⟨8, 8⟩, ⟨400, 136⟩), [(⟨12, 70⟩, ⟨172, 40⟩), (⟨200, 64⟩, ⟨192, 64⟩)]),
       ((⟨8, 144⟩, ⟨800, 184⟩),
         [(⟨12, 24⟩, ⟨152, 64⟩), (⟨360, 12⟩, ⟨216, 32⟩), (⟨8, 120⟩, ⟨160, 28⟩), (⟨20, 46⟩, ⟨236, 40⟩),
          (⟨0, 0⟩, ⟨0, 0⟩)]),
       ((⟨8, 328⟩, ⟨624, 24⟩), [])]) := by
  rw [← realAlgsK_eq]
  decide +kernel
theorem exTree_layout_div_4 :
    C04Flex.kidLayouts2 (evalNode noCache realAlgs 4 (scale (1/4) exTree) (NS.init noCache (scale (1/4) exTree))
      (scale (1/4) C04Flex.treeIn)) =
    (⟨40, 45/2⟩,
      [((⟨1/2, 1/2⟩, ⟨25, 17/2⟩), [(⟨3/4, 35/8⟩, ⟨43/4, 5/2⟩), (⟨25/2, 4⟩, ⟨12, 4⟩)]),
       ((⟨1/2, 9⟩, ⟨50, 23/2⟩),
         [(⟨3/4, 3/2⟩, ⟨19/2, 4⟩), (⟨45/2, 3/4⟩, ⟨27/2, 2⟩), (⟨1/2, 15/2⟩, ⟨10, 7/4⟩), (⟨5/4, 23/8⟩, ⟨59/4, 5/2⟩),
          (⟨0, 0⟩, ⟨0, 0⟩)]),
       ((⟨1/2, 41/2⟩, ⟨39, 3/2⟩), [])]) := by
  rw [← realAlgsK_eq]
  decide +kernel

mutual
/-- every stored layout of a state, in preorder -/
def allLayouts : NS Rat Unit → List (Layout Rat)
  | .mk _ l kids => l :: allLayoutsList kids
def allLayoutsList : List (NS Rat Unit) → List (Layout Rat)
  | [] => []
  | n :: ns => allLayouts n ++ allLayoutsList ns
end

/-- the output and every stored layout of every node (all 13, every field) of the evaluation of the tree scaled by 4
(by 1/4) are the scaled output and layouts of the evaluation of the tree, by computation -/
example :
    (fun r => (r.1, allLayouts r.2))
      (evalNode noCache realAlgs 4 (scale 4 exTree) (NS.init noCache (scale 4 exTree)) (scale 4 C04Flex.treeIn)) =
    (fun r => (scale 4 r.1, scale 4 (allLayouts r.2)))
      (evalNode noCache realAlgs 4 exTree (NS.init noCache exTree) C04Flex.treeIn) := by
  rw [← realAlgsK_eq]
  decide +kernel
example :
    (fun r => (r.1, allLayouts r.2))
      (evalNode noCache realAlgs 4 (scale (1/4) exTree) (NS.init noCache (scale (1/4) exTree))
        (scale (1/4) C04Flex.treeIn)) =
    (fun r => (scale (1/4) r.1, scale (1/4) (allLayouts r.2)))
      (evalNode noCache realAlgs 4 exTree (NS.init noCache exTree) C04Flex.treeIn) := by
  rw [← realAlgsK_eq]
  decide +kernel

/-- a tree OUTSIDE `GridFixedTree`: the block root with the THRESHOLD witness grid (`C04Grid.wGrid`: 1/128 wide, one
implicit `auto` column, a text child of max-content width 1/64) and the intrinsic grid `C04Grid.inGrid`
(`auto`, `minmax(min-content, 80px)`, `fit-content(60px)`, `1fr` columns, six text children) -/
def wTree : STree Rat :=
  .node C04Flex.exBlockRoot none
    [.node C04Grid.wGrid none [.node C04Grid.wChild (some (.wrap (1/64) (1/64))) []],
     .node C04Grid.inGrid none (C04Grid.inKids.map fun s => .node s (some (.wrap 50 8)) [])]

theorem wTree_not_fixed : ¬ GridFixedTree wTree := by
  rw [gridFixedTreeB_iff]
  decide +kernel

/-- `tree_homogeneous_real_constants` for it at k = 16: with the constants 16, 0.16, 0.000016 the layout of the scaled
tree IS the scaled real layout -/
example : evalNode noCache (algsT (16 * 1) (16 * (1 / 100)) (16 * (1 / 1000000))) 4 (scale 16 wTree)
      (NS.init noCache (scale 16 wTree)) (scale 16 C04Flex.treeIn) =
    scale 16 (evalNode noCache realAlgs 4 wTree (NS.init noCache wTree) C04Flex.treeIn) :=
  tree_homogeneous_real_constants_fresh (by norm_num) 4 wTree C04Flex.treeIn

/-- what the evaluations are: with the real algorithms the witness grid is 1/128 × 1/16 (4 lines of text) … -/
theorem wTree_layout :
    C04Flex.kidLayouts2 (evalNode noCache realAlgs 4 wTree (NS.init noCache wTree) C04Flex.treeIn) =
    (⟨160, 1297/16⟩,
      [((⟨2, 2⟩, ⟨1/128, 1/16⟩), [(⟨0, 0⟩, ⟨1/256, 1/16⟩)]),
       ((⟨2, 33/16⟩, ⟨156, 77⟩),
         [(⟨2, 3⟩, ⟨247/6, 19⟩), (⟨295/6, 3⟩, ⟨241/6, 16⟩), (⟨286/3, 3⟩, ⟨247/6, 16⟩), (⟨286/3, 25⟩, ⟨247/6, 16⟩),
          (⟨289/6, 44⟩, ⟨265/3, 32⟩), (⟨283/2, 44⟩, ⟨25/2, 32⟩)])]) := by
  rw [← realAlgsK_eq]
  decide +kernel
/-- … sixteen times larger, with the SCALED constants, everything is multiplied by 16 (the witness grid 1/8 × 1) … -/
theorem wTree_layout_times_16_joint :
    C04Flex.kidLayouts2 (evalNode noCache (algsT (16 * 1) (16 * (1 / 100)) (16 * (1 / 1000000))) 4 (scale 16 wTree)
      (NS.init noCache (scale 16 wTree)) (scale 16 C04Flex.treeIn)) =
    (⟨2560, 1297⟩,
      [((⟨32, 32⟩, ⟨1/8, 1⟩), [(⟨0, 0⟩, ⟨1/16, 1⟩)]),
       ((⟨32, 33⟩, ⟨2496, 1232⟩),
         [(⟨32, 48⟩, ⟨1976/3, 304⟩), (⟨2360/3, 48⟩, ⟨1928/3, 256⟩), (⟨4576/3, 48⟩, ⟨1976/3, 256⟩),
          (⟨4576/3, 400⟩, ⟨1976/3, 256⟩), (⟨2312/3, 704⟩, ⟨4240/3, 512⟩), (⟨2264, 704⟩, ⟨200, 512⟩)])]) := by
  rw [← algsTK_eq]
  decide +kernel
/-- … and with the REAL constants the witness grid is 1/8 × 1/2 (2 lines of text), its child 1/8 wide, the intrinsic grid
sits 1/2 higher and the root is 1/2 shorter: not the scaled layout -/
theorem wTree_layout_times_16_real :
    C04Flex.kidLayouts2 (evalNode noCache realAlgs 4 (scale 16 wTree) (NS.init noCache (scale 16 wTree))
      (scale 16 C04Flex.treeIn)) =
    (⟨2560, 2593/2⟩,
      [((⟨32, 32⟩, ⟨1/8, 1/2⟩), [(⟨0, 0⟩, ⟨1/8, 1/2⟩)]),
       ((⟨32, 65/2⟩, ⟨2496, 1232⟩),
         [(⟨32, 48⟩, ⟨1976/3, 304⟩), (⟨2360/3, 48⟩, ⟨1928/3, 256⟩), (⟨4576/3, 48⟩, ⟨1976/3, 256⟩),
          (⟨4576/3, 400⟩, ⟨1976/3, 256⟩), (⟨2312/3, 704⟩, ⟨4240/3, 512⟩), (⟨2264, 704⟩, ⟨200, 512⟩)])]) := by
  rw [← realAlgsK_eq]
  decide +kernel

/-- **tree_not_homogeneous_real**: the hypothesis of `tree_homogeneous_all_trees_partial` cannot be dropped: for the real
algorithms the unconditional tree statement is FALSE (witness: `wTree`, k = 16, output size of the root) -/
theorem tree_not_homogeneous_real :
    ¬ ∀ (t : STree Rat) (inp : LayoutInput Rat),
      evalNode noCache realAlgs 4 (scale 16 t) (NS.init noCache (scale 16 t)) (scale 16 inp) =
        scale 16 (evalNode noCache realAlgs 4 t (NS.init noCache t) inp) := by
  intro h
  have h1 := congrArg (fun r => (C04Flex.kidLayouts2 r).1) (h wTree C04Flex.treeIn)
  simp only [wTree_layout_times_16_real] at h1
  have h2 : (C04Flex.kidLayouts2 (scale 16 (evalNode noCache realAlgs 4 wTree (NS.init noCache wTree)
      C04Flex.treeIn))).1 = scale 16 (C04Flex.kidLayouts2 (evalNode noCache realAlgs 4 wTree (NS.init noCache wTree)
      C04Flex.treeIn)).1 := rfl
  rw [h2, wTree_layout] at h1
  revert h1
  decide +kernel

end examples

end C04Tree

/-
  Obligations to audit (`#print axioms`; all depend on [propext, Classical.choice, Quot.sound] at most):
  C04TREE = [
    "C04Tree.algsT_real", "C04Tree.realAlgs_eq", "C04Tree.thresholds_rat",
    "C04Tree.tree_homogeneous_rel", "C04Tree.tree_homogeneous_of_rel", "C04Tree.algsHomRel_joint",
    "C04Tree.tree_homogeneous_joint_all_trees_with", "C04Tree.tree_homogeneous_joint_all_trees",
    "C04Tree.tree_homogeneous_real_constants", "C04Tree.tree_homogeneous_real_constants_fresh",
    "C04Tree.gridFixedS_gridFixed", "C04Tree.gridFixedS_of_no_autorepeat", "C04Tree.gridFixedTreeB_iff",
    "C04Tree.NoGrid_GridFixedTree", "C04Tree.GridFixedTree_GridNodes", "C04Tree.algsHomRel_real_partial",
    "C04Tree.tree_homogeneous_all_trees_partial", "C04Tree.tree_homogeneous_all_trees_partial_fresh",
    "C04Tree.realAlgs_not_homogeneous",
    "C04Tree.realAlgsK_eq", "C04Tree.algsTK_eq", "C04Tree.exGrid_fixedS", "C04Tree.exTree_fixed",
    "C04Tree.exTree_not_noGrid", "C04Tree.exTree_layout", "C04Tree.exTree_layout_times_4",
    "C04Tree.exTree_layout_div_4", "C04Tree.wTree_not_fixed", "C04Tree.wTree_layout",
    "C04Tree.wTree_layout_times_16_joint", "C04Tree.wTree_layout_times_16_real", "C04Tree.tree_not_homogeneous_real",
    "C04.evalNodeWith_scale_rel", "C04.computeOf_scale_rel", "C04.runProg_scale_rel", "C04.GridNodes_true",
    "C04.ExplicitNoPx_static", "C04.findAutoRepetition_mem", "C04.trackDefiniteValue_fixed",
  ]
-/
