/-
  C07 — flex lines: items stay ordered, never overlap, and flexibility is exhausted — LIFTED TO THE WHOLE FLEXBOX PROGRAM.

  Props/C07.lean proves the two laws about the per-line component functions of Model/FlexLine.lean
  (`resolveFlexibleLengths`, `distributeRemainingFreeSpace`, `marginBoxes`).  Here they are proved about the layouts the
  program `FlexModel.computeFlexboxLayout` really hands to `set_unrounded_layout`, in every PerformLayout run, i.e. against
  every family of children `orc : child → query → answer` (`Lift.lays orc p` = the `(child, layout)` pairs the run sets;
  a projection of `C04.runO`).

  WHICH SIZE IS OBSERVED.  `calculate_flex_item` sets `Layout.size` := the size the CHILD RETURNS from
  `perform_child_layout(known_dimensions = target_size)`, not `target_size` itself, and accumulates the returned main size
  into the running offset.  So
    * order / no overlap needs nothing but "children return non-negative main sizes" (`OracleSizesNonneg`, C07's own
      `hsize`), whatever the relation between returned and target size;
    * flexibility-exhausted speaks about `target_size`; it is a statement about the sizes SET only if the children return
      the main size they are told: `OracleHonoursKnownMain` (implied by `OracleHonoursKnown`).  For real nodes this holds
      whenever the target is ≥ the child's own padding + border: `compute_leaf_layout` returns
      `known_dimensions.maybe_max(padding_border)` in `SizingMode::ContentSize`, and the three container algorithms take
      the known dimensions as their outer size (floored at padding + border likewise).  It FAILS for a real leaf whose
      target is below its padding + border — see `flex_program_target_below_padding_border` (replayed on the real code).

  Theorems
    flex_program_sets_once                 every child is set at most once in a run
    flex_program_lines_partition / _nowrap the lines partition the flex items in document order; nowrap: one line
    flex_program_line_order_no_overlap     (a) per line: margin boxes of the layouts set, in document order, are pairwise
                                           ordered along the main axis (reversed for *-reverse) and non-degenerate
    flex_program_flexibility_exhausted     (b) nowrap + definite inner main size `W`: Σ (size set + margins) + gaps = W, or
                                           every item that can still flex sits at its max (growing) / min (shrinking)
    flex_program_passes_non_ItemWF,
    flex_program_exhausted_false_without_maxPb   the lift of (b) WITHOUT the extra hypothesis "max main size ≥ padding + border"
                                           is false: the program's items then violate C07's `ItemWF.hyp`, and the
                                           conclusion fails on a witness (replayed on the real code)
-/
import TaffyVerif.Lemmas.LiftFlexOnce

set_option linter.unusedSectionVars false
set_option linter.unusedVariables false

namespace C07Flex
open Lift FlexModel EvalFlex FlexLine
open AbsPos (Dir.mainStart Dir.mainEnd)

/-! ## observers and hypotheses -/

/-- the main gap the run uses (re-resolved against the inner main size when that is determined from the content) -/
def flexGapMain (orc : Orc) (style : Style Rat) (cs : List (Style Rat)) (inp : LayoutInput Rat) : Rat :=
  (flexMid orc style cs inp).2.gap.main style.flexDirection

/-- the inner main size `compute_constants` derives from the known dimensions / the style (`none`: indefinite) -/
def flexInnerMain (style : Style Rat) (inp : LayoutInput Rat) : Option Rat :=
  (k0 style (flexInp style inp)).nodeInnerSize.main style.flexDirection

/-- the main gap `compute_constants` resolves (the gap of a container with a definite main size) -/
def flexGap0 (style : Style Rat) (inp : LayoutInput Rat) : Rat :=
  (k0 style (flexInp style inp)).gap.main style.flexDirection

/-- the item `generate_anonymous_flex_items` makes of child `i` with style `s` (margins, insets, sizes resolved) -/
def genItem (style : Style Rat) (inp : LayoutInput Rat) (i : Nat) (s : Style Rat) : FlexItem Rat :=
  generateItem (k0 style (flexInp style inp)) i s

/-- the children return non-negative main sizes -/
def OracleSizesNonneg (dir : FlexDirection) (orc : Orc) : Prop := ∀ i q, 0 ≤ (orc i q).size.main dir

/-! ## bookkeeping -/

/-- **every child is set at most once** -/
theorem flex_program_sets_once (orc : Orc) (style : Style Rat) (cs : List (Style Rat)) (inp : LayoutInput Rat)
    (hrun : inp.runMode = .performLayout) :
    ((lays orc (computeFlexboxLayout style cs inp)).map Prod.fst).Nodup :=
  flexRun_sets_once orc style cs inp hrun

/-- **the lines partition the flex items in document order** (`i ∈ inflowIdx cs` ↔ child `i` generates a box and is not
absolutely positioned: `Lift.mem_inflowIdx`) -/
theorem flex_program_lines_partition (orc : Orc) (style : Style Rat) (cs : List (Style Rat)) (inp : LayoutInput Rat) :
    (flexLinesOf orc style cs inp).flatten = inflowIdx cs :=
  flexRun_lines_flatten orc style cs inp

theorem flex_program_lines_nowrap (orc : Orc) (style : Style Rat) (cs : List (Style Rat)) (inp : LayoutInput Rat)
    (hnw : style.flexWrap = .noWrap) : flexLinesOf orc style cs inp = [inflowIdx cs] :=
  flexRun_lines_nowrap orc style cs inp hnw

/-! ## (a) order and no overlap -/

/-- **flex_program_line_order_no_overlap**.  PerformLayout run; main gap ≥ 0; every in-flow child has main-axis margins
≥ 0 (auto counts as 0), default main-axis insets (`MainOK` of its generated item); children return main sizes ≥ 0.
Then for every line `ln` (child indices in document order) there are the layouts `Ls` set for its items, in document
order, such that for `a` before `b`: the margin box of `a` ends before the margin box of `b` starts along the main axis
(`mbox dir L` = (start, end)); for `row-reverse`/`column-reverse`: `b` ends before `a` starts.  So they never overlap. -/
theorem flex_program_line_order_no_overlap (orc : Orc) (style : Style Rat) (cs : List (Style Rat)) (inp : LayoutInput Rat)
    (hrun : inp.runMode = .performLayout)
    (hgap : 0 ≤ flexGapMain orc style cs inp)
    (hkids : ∀ i s, cs[i]? = some s → isItem s = true → MainOK style.flexDirection (genItem style inp i s))
    (horc : OracleSizesNonneg style.flexDirection orc) :
    ∀ ln ∈ flexLinesOf orc style cs inp, ∃ Ls : List (Nat × Layout Rat),
      Ls.map Prod.fst = ln ∧
      (∀ x ∈ Ls, x ∈ lays orc (computeFlexboxLayout style cs inp)) ∧
      Ls.Pairwise (fun a b =>
        if style.flexDirection.isReverse then (mbox style.flexDirection b.2).2 ≤ (mbox style.flexDirection a.2).1
        else (mbox style.flexDirection a.2).2 ≤ (mbox style.flexDirection b.2).1) ∧
      ∀ x ∈ Ls, (mbox style.flexDirection x.2).1 ≤ (mbox style.flexDirection x.2).2 := by
  intro ln hln
  obtain ⟨l, hl, rfl⟩ := List.mem_map.1 hln
  obtain ⟨Ls, h1, h2, h3, h4⟩ := flexRun_line_order orc style cs inp hrun hgap
    (items0_of_styles style cs (flexInp style inp) _ hkids) horc l hl
  exact ⟨Ls, h1, h2, List.pairwise_map.1 h3, h4⟩

theorem eq_of_nodup_keys {β : Type} : ∀ (l : List (Nat × β)), (l.map Prod.fst).Nodup → ∀ x ∈ l, ∀ y ∈ l, x.1 = y.1 → x = y
  | [], _, x, hx, _, _, _ => by cases hx
  | a :: l, hn, x, hx, y, hy, hxy => by
    rw [List.map_cons, List.nodup_cons] at hn
    rcases List.mem_cons.1 hx with hx | hx <;> rcases List.mem_cons.1 hy with hy | hy
    · rw [hx, hy]
    · refine absurd ?_ hn.1
      rw [← hx, hxy]
      exact List.mem_map_of_mem (f := Prod.fst) hy
    · refine absurd ?_ hn.1
      rw [← hy, ← hxy]
      exact List.mem_map_of_mem (f := Prod.fst) hx
    · exact eq_of_nodup_keys l hn.2 x hx y hy hxy

/-- **the same, about any two layouts the run sets**: children `i`, `j` on the same line `ln`, `i` before `j` in
document order, `Li`, `Lj` layouts the run sets for them (there is exactly one each: `flex_program_sets_once`): the margin
box of `i` ends before the margin box of `j` starts along the main axis (the other way round for `*-reverse`) -/
theorem flex_program_line_order_no_overlap_pairs (orc : Orc) (style : Style Rat) (cs : List (Style Rat))
    (inp : LayoutInput Rat) (hrun : inp.runMode = .performLayout)
    (hgap : 0 ≤ flexGapMain orc style cs inp)
    (hkids : ∀ i s, cs[i]? = some s → isItem s = true → MainOK style.flexDirection (genItem style inp i s))
    (horc : OracleSizesNonneg style.flexDirection orc)
    (ln : List Nat) (hln : ln ∈ flexLinesOf orc style cs inp) (l1 l2 l3 : List Nat) (i j : Nat)
    (hpos : ln = l1 ++ i :: (l2 ++ j :: l3)) (Li Lj : Layout Rat)
    (hi : (i, Li) ∈ lays orc (computeFlexboxLayout style cs inp))
    (hj : (j, Lj) ∈ lays orc (computeFlexboxLayout style cs inp)) :
    if style.flexDirection.isReverse then (mbox style.flexDirection Lj).2 ≤ (mbox style.flexDirection Li).1
    else (mbox style.flexDirection Li).2 ≤ (mbox style.flexDirection Lj).1 := by
  obtain ⟨Ls, hfst, hmem, hpw, -⟩ := flex_program_line_order_no_overlap orc style cs inp hrun hgap hkids horc ln hln
  rw [hpos] at hfst
  obtain ⟨A, R1, rfl, hA, hR1⟩ := List.map_eq_append_iff.1 hfst
  obtain ⟨a, R2, rfl, ha, hR2⟩ := List.map_eq_cons_iff.1 hR1
  obtain ⟨B, R3, rfl, hB, hR3⟩ := List.map_eq_append_iff.1 hR2
  obtain ⟨b, C, rfl, hb, hC⟩ := List.map_eq_cons_iff.1 hR3
  have hnd := flex_program_sets_once orc style cs inp hrun
  have ea : a = (i, Li) := eq_of_nodup_keys _ hnd a (hmem a (by simp)) (i, Li) hi ha
  have eb : b = (j, Lj) := eq_of_nodup_keys _ hnd b (hmem b (by simp)) (j, Lj) hj hb
  have h1 := (List.pairwise_append.1 hpw).2.1
  have h2 := (List.pairwise_cons.1 h1).1 b (by simp)
  rw [ea, eb] at h2
  exact h2

/-- a gap given as a non-negative length meets `hgap` -/
theorem flex_program_gap_of_length (orc : Orc) (style : Style Rat) (cs : List (Style Rat)) (inp : LayoutInput Rat) (g : Rat)
    (hg : style.gap.main style.flexDirection = .length g) : flexGapMain orc style cs inp = g :=
  flexRun_gap_of_length orc style cs inp g hg

/-- main-axis margins that are `auto` or non-negative lengths, and `auto` main-axis insets, meet `hkids` -/
def NonnegLPA (m : LPA Rat) : Prop := m = .auto ∨ ∃ v, m = .length v ∧ 0 ≤ v

theorem nonneg_resolveOrZero (m : LPA Rat) (h : NonnegLPA m) (ctx : Option Rat) : 0 ≤ m.resolveOrZero ctx := by
  rcases h with h | ⟨v, h, hv⟩
  · subst h; exact le_refl _
  · subst h; exact hv

theorem mainOK_of_style (style : Style Rat) (inp : LayoutInput Rat) (i : Nat) (s : Style Rat)
    (h1 : NonnegLPA (Dir.mainStart s.margin style.flexDirection))
    (h2 : NonnegLPA (Dir.mainEnd s.margin style.flexDirection))
    (h3 : Dir.mainStart s.inset style.flexDirection = .auto) (h4 : Dir.mainEnd s.inset style.flexDirection = .auto) :
    MainOK style.flexDirection (genItem style inp i s) := by
  unfold MainOK FlexLine.ItemOK genItem
  simp only [toM, generateItem, Resolve.rectLPAOrZero]
  unfold Dir.mainStart Dir.mainEnd at *
  split at h1 <;> simp_all [nonneg_resolveOrZero, LPA.maybeResolve]

/-! ## (b) flexibility is exhausted -/

/-- **flex_program_flexibility_exhausted**.  PerformLayout run of a `flex-wrap: nowrap` container whose inner main size is
definite (`W`).  Every in-flow child (`ChildWF` of its generated item): flex factors ≥ 0, each non-zero factor ≥ 1,
padding + border ≥ 0 along the main axis and — beyond C07's component hypotheses — a max main size, if any, not below
padding + border.  Children return the main size they are told (`OracleHonoursKnownMain`).

Then there are the layouts `Ls` set for the in-flow children, in document order, such that — with `items` the items as
`determine_flex_base_size` left them in this run (`flexBaseItems`: flex basis, resolved minimum main size, hypothetical
sizes; margins = the child's resolved margins, auto = 0) —
  either   Σ (main size set + main margins) + gaps = W,
  or       growing (Σ hypothetical outer sizes + gaps < W): every item with flex-grow > 0 has a max main size `u` and the
           main size set for it is `max (max u min) 0`, `min` = its resolved minimum main size;
           otherwise: every item with inner flex basis · flex-shrink > 0 has the main size `max min 0`. -/
theorem flex_program_flexibility_exhausted (orc : Orc) (style : Style Rat) (cs : List (Style Rat)) (inp : LayoutInput Rat)
    (hrun : inp.runMode = .performLayout) (hnw : style.flexWrap = .noWrap) (W : Rat)
    (hW : flexInnerMain style inp = some W)
    (hkids : ∀ i s, cs[i]? = some s → isItem s = true → ChildWF style.flexDirection (genItem style inp i s))
    (horc : OracleHonoursKnownMain style.flexDirection orc) :
    ∃ Ls : List (Nat × Layout Rat),
      Ls.map Prod.fst = inflowIdx cs ∧
      (∀ x ∈ Ls, x ∈ lays orc (computeFlexboxLayout style cs inp)) ∧
      (lsum (List.zipWith (fun (it : FlexItem Rat) (x : Nat × Layout Rat) =>
            x.2.size.main style.flexDirection + it.margin.mainAxisSum style.flexDirection)
          (flexBaseItems orc style cs inp) Ls) +
        sumAxisGaps (flexGap0 style inp) (flexBaseItems orc style cs inp).length = W ∨
       (if sumAxisGaps (flexGap0 style inp) (flexBaseItems orc style cs inp).length +
            sumF ((flexBaseItems orc style cs inp).map fun it => it.hypotheticalOuterSize.main style.flexDirection) < W then
          List.Forall₂ (fun (it : FlexItem Rat) (x : Nat × Layout Rat) => 0 < it.flexGrow →
            ∃ u, it.maxSize.main style.flexDirection = some u ∧
              x.2.size.main style.flexDirection = max (max u it.resolvedMinimumMainSize) 0)
            (flexBaseItems orc style cs inp) Ls
        else
          List.Forall₂ (fun (it : FlexItem Rat) (x : Nat × Layout Rat) => 0 < it.innerFlexBasis * it.flexShrink →
            x.2.size.main style.flexDirection = max it.resolvedMinimumMainSize 0)
            (flexBaseItems orc style cs inp) Ls)) := by
  obtain ⟨Ls, h1, h2, h3⟩ := flexRun_exhausted orc style cs inp hrun hnw W hW
    (items0_of_styles style cs (flexInp style inp) _ hkids) horc
  refine ⟨Ls, h1.trans ?_, h2, h3⟩
  exact iidx_generateItemsFrom_indep _ _ cs 0

/-- the items of `flexBaseItems` correspond to the in-flow children, and what they copy from the generated items -/
theorem flexBaseItems_fields (orc : Orc) (style : Style Rat) (cs : List (Style Rat)) (inp : LayoutInput Rat) :
    List.Forall₂ (fun (it g : FlexItem Rat) => it.nodeIdx = g.nodeIdx ∧ it.margin = g.margin ∧ it.maxSize = g.maxSize ∧
      it.minSize = g.minSize ∧ it.flexGrow = g.flexGrow ∧ it.flexShrink = g.flexShrink ∧ it.padding = g.padding ∧
      it.border = g.border)
      (flexBaseItems orc style cs inp) (items0 style cs (flexInp style inp)) := by
  have hfb : List.Forall₂ (fun it c => ∃ fb mc, it = FlexStages.fbFinish (k0 style (flexInp style inp)) c fb mc)
      (flexBaseItems orc style cs inp) (items0 style cs (flexInp style inp)) :=
    res_post orc _ (Post_determineFlexBaseSize_fb _ _ _ _)
  refine forall₂_mono ?_ hfb
  rintro it g ⟨fb, mc, rfl⟩
  exact ⟨rfl, rfl, rfl, rfl, rfl, rfl, rfl, rfl⟩

/-! ## concrete runs (at `Rat`): a 100×40 container, padding 2, gap 5, with three flex items and an absolutely
positioned child -/

namespace Ex

def sd : Style Rat := Style.default

def inp : LayoutInput Rat :=
  { runMode := .performLayout, sizingMode := .inherentSize, axis := .both, knownDimensions := ⟨none, none⟩,
    parentSize := ⟨some 400, some 300⟩, availableSpace := ⟨.definite 400, .definite 300⟩,
    verticalMarginsAreCollapsible := ⟨false, false⟩ }

def cont (d : FlexDirection) : Style Rat :=
  { sd with display := .flex, flexDirection := d, size := ⟨.length 100, .length 40⟩, gap := ⟨.length 5, .length 5⟩,
            padding := ⟨.length 2, .length 2, .length 2, .length 2⟩ }
/-- flex-basis 10, grow 1, margins 1 / 2 -/
def kidA : Style Rat :=
  { sd with flexBasis := .length 10, flexGrow := 1, margin := ⟨.length 1, .length 2, .length 1, .length 2⟩ }
/-- flex-basis 20, grow 0, max 30, margins 0 / 3 -/
def kidB : Style Rat :=
  { sd with flexBasis := .length 20, flexGrow := 0, maxSize := ⟨.length 30, .length 30⟩,
            margin := ⟨.length 0, .length 3, .length 0, .length 3⟩ }
/-- flex-basis 5, grow 2, start margin 4 -/
def kidC : Style Rat :=
  { sd with flexBasis := .length 5, flexGrow := 2, margin := ⟨.length 4, .length 0, .length 4, .length 0⟩ }
def kidAbs : Style Rat :=
  { sd with position := .absolute, size := ⟨.length 7, .length 7⟩, inset := ⟨.length 1, .auto, .length 1, .auto⟩ }
def kids : List (Style Rat) := [kidA, kidAbs, kidB, kidC]

/-- children that return the known dimensions they are given (20×10 otherwise), never below 0 -/
def orcA : Orc := fun _ q =>
  LayoutOutput.fromOuterSize ⟨max (q.knownDimensions.width.getD 20) 0, max (q.knownDimensions.height.getD 10) 0⟩
/-- children that return exactly the known dimensions they are given (20×10 otherwise) -/
def orcB : Orc := fun _ q =>
  LayoutOutput.fromOuterSize ⟨q.knownDimensions.width.getD 20, q.knownDimensions.height.getD 10⟩

def view (x : Nat × Layout Rat) : Nat × Point Rat × Size Rat × Rect Rat := (x.1, x.2.location, x.2.size, x.2.margin)

theorem orcA_nonneg (d : FlexDirection) : OracleSizesNonneg d orcA := by
  intro i q
  unfold orcA LayoutOutput.fromOuterSize LayoutOutput.fromSizes LayoutOutput.fromSizesAndBaselines Size.main
  split <;> exact le_max_right _ _

theorem orcB_honours : OracleHonoursKnown orcB := by
  intro i q w h _ hq
  simp [orcB, hq, LayoutOutput.fromOuterSize, LayoutOutput.fromSizes, LayoutOutput.fromSizesAndBaselines]

theorem kids_mainOK (d : FlexDirection) : ∀ i s, kids[i]? = some s → isItem s = true →
    MainOK (cont d).flexDirection (genItem (cont d) inp i s) := by
  intro i s hs hi
  have hv : ∀ v : Rat, 0 ≤ v → NonnegLPA (.length v) := fun v hv => Or.inr ⟨v, rfl, hv⟩
  rcases i with _ | _ | _ | _ | i
  · cases hs
    cases d <;> exact mainOK_of_style _ _ _ _ (hv _ (by norm_num)) (hv _ (by norm_num)) rfl rfl
  · cases hs; cases hi
  · cases hs
    cases d <;> exact mainOK_of_style _ _ _ _ (hv _ (by norm_num)) (hv _ (by norm_num)) rfl rfl
  · cases hs
    cases d <;> exact mainOK_of_style _ _ _ _ (hv _ (by norm_num)) (hv _ (by norm_num)) rfl rfl
  · cases hs

/-- `row`: final layout pass (0, 2, 3 — one line), absolute pass (1).  71/3 + 20 + 97/3 (sizes) + 3 + 3 + 4 (margins)
+ 2·5 (gaps) = 96 = the inner width -/
example : (lays orcA (computeFlexboxLayout (cont .row) kids inp)).map view =
    [(0, ⟨3, 3⟩, ⟨71/3, 33⟩, ⟨1, 2, 1, 2⟩), (2, ⟨101/3, 2⟩, ⟨20, 30⟩, ⟨0, 3, 0, 3⟩),
     (3, ⟨197/3, 6⟩, ⟨97/3, 32⟩, ⟨4, 0, 4, 0⟩), (1, ⟨1, 1⟩, ⟨7, 7⟩, ⟨0, 0, 0, 0⟩)] ∧
    flexLinesOf orcA (cont .row) kids inp = [[0, 2, 3]] := by
  decide +kernel

/-- `row-reverse`: the visiting order is reversed (3, 2, 0); item 0 lies to the right of item 2 to the right of item 3 -/
example : (lays orcA (computeFlexboxLayout (cont .rowReverse) kids inp)).map view =
    [(3, ⟨6, 6⟩, ⟨97/3, 32⟩, ⟨4, 0, 4, 0⟩), (2, ⟨130/3, 2⟩, ⟨20, 30⟩, ⟨0, 3, 0, 3⟩),
     (0, ⟨217/3, 3⟩, ⟨71/3, 33⟩, ⟨1, 2, 1, 2⟩), (1, ⟨1, 1⟩, ⟨7, 7⟩, ⟨0, 0, 0, 0⟩)] := by
  decide +kernel

/-- the hypotheses of `flex_program_line_order_no_overlap` are met by these runs (all four directions), and what it
yields -/
example (d : FlexDirection) : ∀ ln ∈ flexLinesOf orcA (cont d) kids inp, ∃ Ls : List (Nat × Layout Rat),
    Ls.map Prod.fst = ln ∧ (∀ x ∈ Ls, x ∈ lays orcA (computeFlexboxLayout (cont d) kids inp)) ∧
    Ls.Pairwise (fun a b =>
      if (cont d).flexDirection.isReverse then (mbox (cont d).flexDirection b.2).2 ≤ (mbox (cont d).flexDirection a.2).1
      else (mbox (cont d).flexDirection a.2).2 ≤ (mbox (cont d).flexDirection b.2).1) ∧
    ∀ x ∈ Ls, (mbox (cont d).flexDirection x.2).1 ≤ (mbox (cont d).flexDirection x.2).2 :=
  flex_program_line_order_no_overlap orcA (cont d) kids inp rfl
    (by rw [flex_program_gap_of_length orcA (cont d) kids inp 5 (by cases d <;> rfl)]; norm_num)
    (kids_mainOK d) (orcA_nonneg _)

/-- … concretely, `row`: the margin boxes are [2, 86/3], [101/3, 170/3], [185/3, 98]: each ends before the next starts
(the gap 5 lies between them) -/
example : ((lays orcA (computeFlexboxLayout (cont .row) kids inp)).take 3).map (fun x => mbox .row x.2) =
    [(2, 86/3), (101/3, 170/3), (185/3, 98)] := by
  decide +kernel

theorem kids_childWF : ∀ i s, kids[i]? = some s → isItem s = true →
    ChildWF (cont .row).flexDirection (genItem (cont .row) inp i s) := by
  intro i s hs hi
  rcases i with _ | _ | _ | _ | i
  · cases hs
    exact ⟨by decide +kernel, by decide +kernel, by decide +kernel, by decide +kernel, by decide +kernel,
      fun u hu => by
        have : (genItem (cont .row) inp 0 kidA).maxSize.main (cont .row).flexDirection = none := by decide +kernel
        rw [this] at hu; cases hu⟩
  · cases hs; cases hi
  · cases hs
    exact ⟨by decide +kernel, by decide +kernel, by decide +kernel, by decide +kernel, by decide +kernel,
      fun u hu => by
        have : (genItem (cont .row) inp 2 kidB).maxSize.main (cont .row).flexDirection = some 30 := by decide +kernel
        rw [this] at hu; cases hu
        decide +kernel⟩
  · cases hs
    exact ⟨by decide +kernel, by decide +kernel, by decide +kernel, by decide +kernel, by decide +kernel,
      fun u hu => by
        have : (genItem (cont .row) inp 3 kidC).maxSize.main (cont .row).flexDirection = none := by decide +kernel
        rw [this] at hu; cases hu⟩
  · cases hs

/-- the hypotheses of `flex_program_flexibility_exhausted` are met by the `row` run against children that honour their
known dimensions (inner width 96) -/
example : True := by
  have _h := flex_program_flexibility_exhausted orcB (cont .row) kids inp rfl rfl 96 (by decide +kernel) kids_childWF
    (honoursKnownMain_of_honoursKnown _ _ orcB_honours)
  trivial

/-- … concretely: the sizes set, the margins and the gaps fill the inner width exactly, although item 2 (grow 0) does not
flex and items 0 and 3 share the rest 1 : 2 -/
example : inflowIdx kids = [0, 2, 3] ∧
    ((lays orcB (computeFlexboxLayout (cont .row) kids inp)).take 3).map (fun x => x.2.size.width) = [71/3, 20, 97/3] ∧
    ((flexBaseItems orcB (cont .row) kids inp).map fun it => it.margin.mainAxisSum .row) = [3, 3, 4] ∧
    (71/3 + 3) + (20 + 3) + (97/3 + 4) + sumAxisGaps (flexGap0 (cont .row) inp) 3 = (96 : Rat) := by
  decide +kernel

end Ex

/-! ## what does NOT lift: C07's `ItemWF` is not what the program passes -/

namespace Neg
open Ex

/-- a 100×40 container (no padding, no gap) -/
def wcont : Style Rat := { sd with display := .flex, size := ⟨.length 100, .length 40⟩ }
/-- flex-basis 50, grow 1, `max-width: 5`, `min-width: 0`, `padding-left: 20` (border-box): max < padding + border -/
def kidW : Style Rat :=
  { sd with flexBasis := .length 50, flexGrow := 1, maxSize := ⟨.length 5, .auto⟩, minSize := ⟨.length 0, .auto⟩,
            padding := ⟨.length 20, .length 0, .length 0, .length 0⟩ }
/-- flex-basis 10, `min-width: 0` -/
def kidP : Style Rat := { sd with flexBasis := .length 10, minSize := ⟨.length 0, .auto⟩ }
def wkids : List (Style Rat) := [kidW, kidAbs, kidP]

/-- children that behave like taffy's leaves: the known dimension (0 if unknown), not below padding + border (20 for
child 0) -/
def wOrc : Orc := fun i q =>
  LayoutOutput.fromOuterSize
    ⟨max (q.knownDimensions.width.getD 0) (if i == 0 then 20 else 0), q.knownDimensions.height.getD 0⟩

/-- the items the program passes to `resolve_flexible_lengths` in this run -/
def wItems : List (FlexItemM Rat) := (flexBaseItems wOrc wcont wkids inp).map (toM .row)

/-- **the program passes an item that violates C07's `ItemWF`**: the hypothetical main size of child 0 is 20
(`flex_basis.maybe_clamp(Some(max(min, padding+border)), max)` = max(min(50, 5), max(0, 20))), the clamp of the freeze loop
gives `clampMain = max(max(min(50, 5), 0), 0) = 5` -/
theorem flex_program_passes_non_ItemWF : ∃ c ∈ wItems, c.hypInner = 20 ∧ clampMain c c.flexBasis = 5 ∧ ¬ ItemWF c := by
  refine ⟨wItems.head!, List.mem_of_getElem? (i := 0) (by decide +kernel), by decide +kernel, by decide +kernel,
    fun h => ?_⟩
  exact absurd h.hyp (by decide +kernel)

/-- **the conclusion of `flexibility_exhausted` is false on this run** (every hypothesis of
`flex_program_flexibility_exhausted` holds except `ChildWF.maxPb` for child 0): the line is growing (20 + 10 < 100), child
0 is frozen at its hypothetical size 20 at the start (flex basis 50 > 20), child 2 cannot grow: the outer sizes sum to
30 ≠ 100, and child 0 has flex-grow 1 > 0 but does not sit at `max (max 5 0) 0 = 5` -/
theorem flex_program_exhausted_false_without_maxPb :
    ∃ r, resolveFlexibleLengths wItems (some 100) (flexGap0 wcont inp) (wItems.length + 1) = some r ∧
      ¬ (sumF (r.map (·.outerTargetMain)) + sumAxisGaps (flexGap0 wcont inp) wItems.length = 100 ∨
        (if sumAxisGaps (flexGap0 wcont inp) wItems.length + sumF (wItems.map (·.hypOuter)) < 100 then
           ∀ c ∈ r, 0 < c.flexGrow → AtMax c
         else ∀ c ∈ r, 0 < c.innerFlexBasis * c.flexShrink → AtMin c)) := by
  refine ⟨(resolveFlexibleLengths wItems (some 100) (flexGap0 wcont inp) (wItems.length + 1)).getD [], by decide +kernel, ?_⟩
  rintro (h | h)
  · revert h; decide +kernel
  · rw [if_pos (by decide +kernel)] at h
    obtain ⟨u, hu, ht⟩ := h ((resolveFlexibleLengths wItems (some 100) (flexGap0 wcont inp) (wItems.length + 1)).getD []).head!
      (List.mem_of_getElem? (i := 0) (by decide +kernel)) (by decide +kernel)
    have e : ((resolveFlexibleLengths wItems (some 100) (flexGap0 wcont inp) (wItems.length + 1)).getD []).head!.maxMain
        = some 5 := by decide +kernel
    rw [e] at hu
    cases hu
    revert ht; decide +kernel

/-- what the run sets (and what the real `TaffyTree` computes for this tree: child 0: 20×40 at (0,0), child 2: 10×40 at
(20,0); replayed in /tmp/w_lift711/scratch/replay): 20 + 10 = 30, not 100, and child 0 — growable, `max-width: 5` — is 20
wide: its effective maximum is its padding + border -/
example : (lays wOrc (computeFlexboxLayout wcont wkids inp)).map view =
    [(0, ⟨0, 0⟩, ⟨20, 40⟩, ⟨0, 0, 0, 0⟩), (2, ⟨20, 0⟩, ⟨10, 40⟩, ⟨0, 0, 0, 0⟩), (1, ⟨1, 1⟩, ⟨7, 7⟩, ⟨0, 0, 0, 0⟩)] := by
  decide +kernel

/-- flex-basis 20, grow 1, `max-width: 5`, `min-width: 0`, `padding-left: 20` -/
def kidV : Style Rat := { kidW with flexBasis := .length 20 }
/-- flex-basis 0, grow 1, `min-width: 0` -/
def kidQ : Style Rat := { sd with flexBasis := .length 0, flexGrow := 1, minSize := ⟨.length 0, .auto⟩ }

/-- **a target size below padding + border**: here child 0 is NOT frozen at the start (flex basis 20 = hypothetical size),
the loop clamps its target to `max-width` = 5 < padding + border = 20, child 2 receives the remaining 95; the leaf answers
20 to the known width 5 (`OracleHonoursKnownMain` fails for real leaves exactly here), so the sizes SET are 20 and 95: the
line overflows the 100-wide container by 15.  Same numbers on the real `TaffyTree` (scratch/replay, bin `w2`). -/
theorem flex_program_target_below_padding_border :
    (lays wOrc (computeFlexboxLayout wcont [kidV, kidAbs, kidQ] inp)).map view =
      [(0, ⟨0, 0⟩, ⟨20, 40⟩, ⟨0, 0, 0, 0⟩), (2, ⟨20, 0⟩, ⟨95, 40⟩, ⟨0, 0, 0, 0⟩), (1, ⟨1, 1⟩, ⟨7, 7⟩, ⟨0, 0, 0, 0⟩)] ∧
    ((flexAlignedLines wOrc wcont [kidV, kidAbs, kidQ] inp).map fun l => l.items.map fun it => it.targetSize.width) =
      [[5, 95]] := by
  decide +kernel

end Neg

end C07Flex
