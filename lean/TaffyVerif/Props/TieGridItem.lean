/-
  Tie (tier T) for src/compute/grid/types/grid_item.rs (extract/src/griditem.rs → Generated/GridItem.lean) against Model/GridItem.lean.

  * `struct GridItem`: the extractor compares the source's fields (names, order, types) with its table and generates `GridItem.ofFields`,
    the structure instance of `GridModel.GItem` from exactly these fields; `ofFields_eta` says that every model record IS such an instance
    (no field of the record is missing from the source).
  * the pure methods: `placement`, `placement_indexes`, `track_range_excluding_lines`, `crosses_flexible_track`, `crosses_intrinsic_track`,
    `margins_axis_sums_with_baseline_shims`, `known_dimensions` are EQUAL to the model's functions (for every `[Num α]`);
    `span`, `spanned_track_limit`, `spanned_fixed_track_limit`, `available_space` can panic in the source (checked `i16` subtraction in
    `Line<OriginZeroLine>::span`; `&axis_tracks[range]` out of range): the generated definitions keep the panic as an outcome, the model
    totalises it (`sliceOf` truncates, `span` is computed in `Int`).  `…_ok`: whenever the generated definition answers, it answers the model's
    value; `…_eq`: it answers when the range lies inside the track list / the difference fits an `i16`.
  * the methods that call the tree (`min_content_contribution`, `max_content_contribution`, their `_cached` forms; `available_space_cached`;
    `minimum_contribution[_cached]` in Props/TieGridItem2.lean): the generated programs of `Slice.TreeProg` (one node per
    `tree.measure_child_size(…)`), read as interaction programs of the model (`TreeProg.toGM`: the node is `ProgM.measureChildSize`), ARE the
    model's `GM` programs — same queries (same `LayoutInput`, field by field) in the same order, same cache fields read and written
    (the generated functions answer `(self, value)`, the model's `(value, self)`).
-/
import TaffyVerif.Generated.GridItem
import TaffyVerif.Props.TieTracks3
import TaffyVerif.Props.TieGridAxes
import TaffyVerif.Props.TieFlex

set_option linter.unusedSectionVars false

namespace TieGridItem
open GridTracks GridModel Slice
variable {α : Type} [Num α]

/-! ### the struct -/

/-- every record of the model is the instance built from the source's fields -/
theorem ofFields_eta (it : GItem α) :
    Gen.GridItem.GridItem.ofFields it.node it.sourceOrder it.row it.column it.isCompressibleReplaced it.overflow it.boxSizing it.size
      it.minSize it.maxSize it.aspectRatio it.padding it.border it.margin it.alignSelf it.justifySelf it.baseline it.baselineShim
      it.rowIndexes it.columnIndexes it.crossesFlexibleRow it.crossesFlexibleColumn it.crossesIntrinsicRow it.crossesIntrinsicColumn
      it.availableSpaceCache it.minContentContributionCache it.minimumContributionCache it.maxContentContributionCache it.yPosition
      it.height = it := rfl

/-! ### accessors -/

theorem placement_eq : Gen.GridItem.GridItem.placement (α := α) = GItem.placement := by
  funext it ax; cases ax <;> rfl
theorem placement_indexes_eq : Gen.GridItem.GridItem.placement_indexes (α := α) = GItem.placementIndexes := by
  funext it ax; cases ax <;> rfl
theorem track_range_excluding_lines_eq : Gen.GridItem.GridItem.track_range_excluding_lines (α := α) = GItem.trackRange := by
  funext it ax; cases ax <;> rfl
theorem crosses_flexible_track_eq : Gen.GridItem.GridItem.crosses_flexible_track (α := α) = GItem.crossesFlexibleTrack := by
  funext it ax; cases ax <;> rfl
theorem crosses_intrinsic_track_eq : Gen.GridItem.GridItem.crosses_intrinsic_track (α := α) = GItem.crossesIntrinsicTrack := by
  funext it ax; cases ax <;> rfl

/-! ### `span` -/

theorem line_span_eq (l : Line Int) (h : GridPlacement.i16Min ≤ l.end - l.start ∧ l.end - l.start ≤ GridPlacement.i16Max) :
    Gen.GridItem.line_span l = .ok (max (l.end - l.start) 0).toNat := by
  unfold Gen.GridItem.line_span Gen.Grid.Line_OriginZeroLine.span
  have h2 : (0 : Int) ≤ max (l.end - l.start) 0 ∧ max (l.end - l.start) 0 ≤ GridPlacement.u16Max := by
    simp only [GridPlacement.i16Max, GridPlacement.u16Max] at *
    omega
  simp only [bind, GridPlacement.Outcome.bind, GridPlacement.i16, GridPlacement.u16, h, h2, and_self, ↓reduceIte]

theorem line_span_err (l : Line Int) (h : ¬ (GridPlacement.i16Min ≤ l.end - l.start ∧ l.end - l.start ≤ GridPlacement.i16Max)) :
    Gen.GridItem.line_span l = .error .overflow := by
  unfold Gen.GridItem.line_span Gen.Grid.Line_OriginZeroLine.span
  simp only [bind, GridPlacement.Outcome.bind, GridPlacement.i16, h, ↓reduceIte]

theorem line_span_ok (l : Line Int) (n : Nat) (h : Gen.GridItem.line_span l = .ok n) : n = (max (l.end - l.start) 0).toNat := by
  by_cases hc : GridPlacement.i16Min ≤ l.end - l.start ∧ l.end - l.start ≤ GridPlacement.i16Max
  · rw [line_span_eq l hc] at h
    injection h with h; exact h.symm
  · rw [line_span_err l hc] at h
    cases h

/-- whenever the source's `span` answers (no `i16` overflow in `end − start`), it answers the model's value -/
theorem span_ok (it : GItem α) (ax : Ax) (n : Nat) (h : Gen.GridItem.GridItem.span it ax = .ok n) : n = it.span ax := by
  cases ax <;> exact line_span_ok _ n h

/-- `span` answers when `end − start` fits an `i16` (true of every placement the placement code builds: both are `i16` lines and
`end ≥ start − …`; the hypothesis is what `OriginZeroLine::sub` checks in a debug build) -/
theorem span_eq (it : GItem α) (ax : Ax)
    (h : GridPlacement.i16Min ≤ (it.placement ax).end - (it.placement ax).start ∧
      (it.placement ax).end - (it.placement ax).start ≤ GridPlacement.i16Max) :
    Gen.GridItem.GridItem.span it ax = .ok (it.span ax) := by
  cases ax <;> exact line_span_eq _ h

/-! ### `spanned_track_limit`, `spanned_fixed_track_limit` -/

theorem all_isSome_eq {β γ : Type} (f : β → Option γ) (l : List β) :
    l.all (fun t => (f t).isSome) = (allSome (l.map f)).isSome := by
  induction l with
  | nil => rfl
  | cons x rest ih =>
    simp only [List.all_cons, List.map_cons, ih]
    cases hx : f x with
    | none => simp [allSome]
    | some v => cases hr : allSome (rest.map f) <;> simp [allSome, hr]

theorem unwrap_some {β : Type} (v : β) : Slice.unwrap (some v) = .ok v := rfl
theorem unwrap_none {β : Type} : Slice.unwrap (none : Option β) = .error .unwrapNone := rfl

theorem foldlM_unwrap {β : Type} (f : β → Option α) (l : List β) (a : α) :
    l.foldlM (fun acc x => do let v ← Slice.unwrap (f x); pure (acc + v)) a =
      (match allSome (l.map f) with
        | some vs => Except.ok (vs.foldl (· + ·) a)
        | none => Except.error GErr.unwrapNone) := by
  induction l generalizing a with
  | nil => rfl
  | cons x rest ih =>
    cases hx : f x with
    | none =>
      simp only [List.foldlM_cons, List.map_cons, hx, unwrap_none, allSome]
      rfl
    | some v =>
      simp only [List.foldlM_cons, List.map_cons, hx, unwrap_some, allSome, Slice.bind_ok, pure_bind]
      rw [ih]
      cases allSome (rest.map f) <;> rfl

/-- `if all(is_some) { Some(map(unwrap).sum()) } else { None }` is `allSome(...).map(sum)` -/
theorem limit_eq {β : Type} (f : β → Option α) (l : List β) (it : GItem α) :
    (if l.all (fun t => (f t).isSome) = true then
        (Slice.sumF32M (fun t => Slice.unwrap (f t)) l >>= fun limit => pure (it, some limit))
      else pure (it, none) : Except GErr (GItem α × Option α)) =
    .ok (it, (allSome (l.map f)).map sumF) := by
  rw [all_isSome_eq]
  unfold Slice.sumF32M
  rw [foldlM_unwrap]
  cases allSome (l.map f) <;> rfl

theorem spanned_track_limit_eq (it : GItem α) (ax : Ax) (tracks : List (GridTrack α)) (parent : Option α)
    (hr : (it.trackRange ax).1 ≤ (it.trackRange ax).2 ∧ (it.trackRange ax).2 ≤ tracks.length) :
    Gen.GridItem.GridItem.spanned_track_limit it ax tracks parent = .ok (it, it.spannedTrackLimit ax tracks parent) := by
  unfold Gen.GridItem.GridItem.spanned_track_limit
  rw [track_range_excluding_lines_eq, show it.trackRange ax = ((it.trackRange ax).1, (it.trackRange ax).2) from rfl,
    TieTracks3.indexRange_eq _ _ _ hr, Slice.bind_ok, TieTrackFns.max_definite_limit_eq]
  exact limit_eq (fun (t : GridTrack α) => t.maxFn.definiteLimit parent) _ it

theorem spanned_fixed_track_limit_eq (it : GItem α) (ax : Ax) (tracks : List (GridTrack α)) (parent : Option α)
    (hr : (it.trackRange ax).1 ≤ (it.trackRange ax).2 ∧ (it.trackRange ax).2 ≤ tracks.length) :
    Gen.GridItem.GridItem.spanned_fixed_track_limit it ax tracks parent =
      .ok (it, it.spannedFixedTrackLimit ax tracks parent) := by
  unfold Gen.GridItem.GridItem.spanned_fixed_track_limit
  rw [track_range_excluding_lines_eq, show it.trackRange ax = ((it.trackRange ax).1, (it.trackRange ax).2) from rfl,
    TieTracks3.indexRange_eq _ _ _ hr, Slice.bind_ok, TieTrackFns.max_definite_value_eq]
  exact limit_eq (fun (t : GridTrack α) => t.maxFn.definiteValue parent) _ it

/-- `&l[a..b]` answers only inside the list -/
theorem indexRange_ok {β : Type} (l : List β) (r : Nat × Nat) (v : List β) (h : Slice.indexRange l r = .ok v) :
    r.1 ≤ r.2 ∧ r.2 ≤ l.length := by
  unfold Slice.indexRange at h
  split at h
  · assumption
  · simp at h

/-- whenever the source's `spanned_track_limit` answers (the slice index does not panic), it answers the model's value and leaves the item alone -/
theorem spanned_track_limit_ok (it : GItem α) (ax : Ax) (tracks : List (GridTrack α)) (parent : Option α) (r : GItem α × Option α)
    (h : Gen.GridItem.GridItem.spanned_track_limit it ax tracks parent = .ok r) :
    r = (it, it.spannedTrackLimit ax tracks parent) := by
  by_cases hr : (it.trackRange ax).1 ≤ (it.trackRange ax).2 ∧ (it.trackRange ax).2 ≤ tracks.length
  · rw [spanned_track_limit_eq it ax tracks parent hr] at h
    injection h with h; exact h.symm
  · exfalso
    unfold Gen.GridItem.GridItem.spanned_track_limit at h
    rw [track_range_excluding_lines_eq] at h
    cases hi : Slice.indexRange tracks (it.trackRange ax) with
    | ok v => exact hr (indexRange_ok _ _ _ hi)
    | error e => rw [hi] at h; cases h

theorem spanned_fixed_track_limit_ok (it : GItem α) (ax : Ax) (tracks : List (GridTrack α)) (parent : Option α) (r : GItem α × Option α)
    (h : Gen.GridItem.GridItem.spanned_fixed_track_limit it ax tracks parent = .ok r) :
    r = (it, it.spannedFixedTrackLimit ax tracks parent) := by
  by_cases hr : (it.trackRange ax).1 ≤ (it.trackRange ax).2 ∧ (it.trackRange ax).2 ≤ tracks.length
  · rw [spanned_fixed_track_limit_eq it ax tracks parent hr] at h
    injection h with h; exact h.symm
  · exfalso
    unfold Gen.GridItem.GridItem.spanned_fixed_track_limit at h
    rw [track_range_excluding_lines_eq] at h
    cases hi : Slice.indexRange tracks (it.trackRange ax) with
    | ok v => exact hr (indexRange_ok _ _ _ hi)
    | error e => rw [hi] at h; cases h

/-! ### `margins_axis_sums_with_baseline_shims`, `known_dimensions` -/

theorem margins_axis_sums_with_baseline_shims_eq :
    Gen.GridItem.GridItem.margins_axis_sums_with_baseline_shims (α := α) = GItem.marginsAxisSums := by
  funext it w
  unfold Gen.GridItem.GridItem.margins_axis_sums_with_baseline_shims GItem.marginsAxisSums
  simp only [TieLayout.sum_axes_eq, TieResolve.lpa_resolve_or_zero_eq]

theorem or_else_eq {β : Type} (o : Option β) (d : Option β) :
    (if Option.isSome o = true then o else d) = (match o with | some w => some w | none => d) := by
  cases o <;> rfl

theorem known_dimensions_eq : Gen.GridItem.GridItem.known_dimensions (α := α) = GItem.knownDimensions := by
  funext it inner area
  unfold Gen.GridItem.GridItem.known_dimensions GItem.knownDimensions GItem.resolveSize
  simp only [margins_axis_sums_with_baseline_shims_eq, TieResolve.rect_lp_size_resolve_or_zero_eq, TieLayout.sum_axes_eq,
    TieLeaf.rect_add_eq, TieLayout.size_ZERO_eq, TieMaybeMath.size_of_add_eq, TieLayout.maybe_apply_aspect_ratio_eq,
    TieResolve.size_dim_maybe_resolve_eq, TieMaybeMath.size_of_sub_eq, TieFlex.is_auto_eq, TieMaybeMath.size_oo_clamp_eq, or_else_eq]
  rfl

/-! ### `available_space` -/

theorem available_space_eq (it : GItem α) (ax : Ax) (tracks : List (GridTrack α)) (avail : Option α) (est : Estimate)
    (hr : (it.trackRange ax.other).1 ≤ (it.trackRange ax.other).2 ∧ (it.trackRange ax.other).2 ≤ tracks.length) :
    Gen.GridItem.GridItem.available_space it ax tracks avail (fun t p => est.eval t p) =
      .ok (it.availableSpace ax tracks avail est) := by
  unfold Gen.GridItem.GridItem.available_space
  rw [track_range_excluding_lines_eq, TieGridAxes.axis_other_eq,
    show it.trackRange ax.other = ((it.trackRange ax.other).1, (it.trackRange ax.other).2) from rfl]
  simp only [TieTracks3.indexRange_eq _ _ _ hr, Slice.bind_ok, TieGridAxes.size_set_eq, TieLayout.size_NONE_eq]
  rfl

theorem available_space_ok (it : GItem α) (ax : Ax) (tracks : List (GridTrack α)) (avail : Option α) (est : Estimate)
    (r : Size (Option α)) (h : Gen.GridItem.GridItem.available_space it ax tracks avail (fun t p => est.eval t p) = .ok r) :
    r = it.availableSpace ax tracks avail est := by
  by_cases hr : (it.trackRange ax.other).1 ≤ (it.trackRange ax.other).2 ∧ (it.trackRange ax.other).2 ≤ tracks.length
  · rw [available_space_eq it ax tracks avail est hr] at h
    injection h with h; exact h.symm
  · exfalso
    unfold Gen.GridItem.GridItem.available_space at h
    rw [track_range_excluding_lines_eq, TieGridAxes.axis_other_eq] at h
    cases hi : Slice.indexRange tracks (it.trackRange ax.other) with
    | ok v => exact hr (indexRange_ok _ _ _ hi)
    | error e => simp only [hi] at h; cases h

/-! ### the methods that call the tree: `min_content_contribution`, `max_content_contribution` (interaction form) -/

/-- which `AbsoluteAxis` is `Horizontal` -/
def isHorizontal : Gen.TrackFns.AbsoluteAxis → Bool
  | .horizontal => true
  | .vertical => false

theorem as_abs_naive_eq (ax : Ax) :
    isHorizontal (Gen.GridItem.AbstractAxis.as_abs_naive ax) = (match ax with | .inl => true | .blk => false) := by
  cases ax <;> rfl

/-- the generated program of `min_content_contribution` — one `measure_child_size` node with the arguments the source builds — means the
model's interaction program: the same `compute_child_layout` query (same `LayoutInput`, field by field), the same projection of the answer -/
theorem min_content_contribution_eq (it : GItem α) (ax : Ax) (av inner : Size (Option α)) :
    (Gen.GridItem.GridItem.min_content_contribution it ax av inner).toGM isHorizontal = it.minContentContribution ax av inner := by
  unfold Gen.GridItem.GridItem.min_content_contribution GItem.minContentContribution
  rw [known_dimensions_eq]
  cases ax <;> rfl

theorem max_content_contribution_eq (it : GItem α) (ax : Ax) (av inner : Size (Option α)) :
    (Gen.GridItem.GridItem.max_content_contribution it ax av inner).toGM isHorizontal = it.maxContentContribution ax av inner := by
  unfold Gen.GridItem.GridItem.max_content_contribution GItem.maxContentContribution
  rw [known_dimensions_eq]
  cases ax <;> rfl

/-! ### the cached forms: same lookup, same query on a miss, same cache field written -/

/-- `available_space_cached`: the cached value if there is one (the item is left alone); otherwise `available_space`, stored in
`available_space_cache` (the generated function answers `(self, value)`, the model `(value, self)`) -/
theorem available_space_cached_eq (it : GItem α) (ax : Ax) (tracks : List (GridTrack α)) (avail : Option α) (est : Estimate)
    (hr : it.availableSpaceCache.isSome = true ∨
      ((it.trackRange ax.other).1 ≤ (it.trackRange ax.other).2 ∧ (it.trackRange ax.other).2 ≤ tracks.length)) :
    Gen.GridItem.GridItem.available_space_cached it ax tracks avail (fun t p => est.eval t p) =
      .ok ((it.availableSpaceCached ax tracks avail est).2, (it.availableSpaceCached ax tracks avail est).1) := by
  unfold Gen.GridItem.GridItem.available_space_cached GItem.availableSpaceCached
  cases hc : it.availableSpaceCache with
  | some a => rfl
  | none =>
    have hr' := hr.resolve_left (by simp [hc])
    simp only [available_space_eq it ax tracks avail est hr', Slice.bind_ok]
    rfl

theorem min_content_contribution_cached_eq (it : GItem α) (ax : Ax) (av inner : Size (Option α)) :
    (Gen.GridItem.GridItem.min_content_contribution_cached it ax av inner).toGM isHorizontal =
      (fun r => (r.2, r.1)) <$> it.minContentContributionCached ax av inner := by
  unfold Gen.GridItem.GridItem.min_content_contribution_cached GItem.minContentContributionCached
  rw [TieGridAxes.size_get_eq, TieGridAxes.size_set_eq]
  cases hc : sget it.minContentContributionCache ax with
  | some v => rfl
  | none =>
    simp only []
    unfold Gen.GridItem.GridItem.min_content_contribution GItem.minContentContribution
    rw [known_dimensions_eq]
    cases ax <;> rfl

theorem max_content_contribution_cached_eq (it : GItem α) (ax : Ax) (av inner : Size (Option α)) :
    (Gen.GridItem.GridItem.max_content_contribution_cached it ax av inner).toGM isHorizontal =
      (fun r => (r.2, r.1)) <$> it.maxContentContributionCached ax av inner := by
  unfold Gen.GridItem.GridItem.max_content_contribution_cached GItem.maxContentContributionCached
  rw [TieGridAxes.size_get_eq, TieGridAxes.size_set_eq]
  cases hc : sget it.maxContentContributionCache ax with
  | some v => rfl
  | none =>
    simp only []
    unfold Gen.GridItem.GridItem.max_content_contribution GItem.maxContentContribution
    rw [known_dimensions_eq]
    cases ax <;> rfl

/-! ### concrete instances of the hypotheses -/

/-- an item placed in columns 1..3 (origin-zero lines 1 and 3; track-vector indexes 2 and 6) of a grid with three columns -/
def exItem : GItem Rat := { (default : GItem Rat) with column := ⟨1, 3⟩, columnIndexes := ⟨2, 6⟩, row := ⟨0, 1⟩, rowIndexes := ⟨0, 2⟩ }
/-- line, track, line, track, line, track, line -/
def exTracks : List (GridTrack Rat) := List.replicate 7 default

/-- `span_eq`: the difference of the lines fits an `i16`; the span is 2 -/
example : Gen.GridItem.GridItem.span exItem .inl = .ok 2 := by
  rw [span_eq exItem .inl (by decide)]; rfl
/-- `spanned_track_limit_eq` / `spanned_fixed_track_limit_eq` / `available_space_eq`: the range 3..6 lies inside the seven entries -/
example : (exItem.trackRange .inl).1 ≤ (exItem.trackRange .inl).2 ∧ (exItem.trackRange .inl).2 ≤ exTracks.length := by decide
example : (exItem.trackRange (Ax.other .blk)).1 ≤ (exItem.trackRange (Ax.other .blk)).2 ∧
    (exItem.trackRange (Ax.other .blk)).2 ≤ exTracks.length := by decide
/-- the range is not trivial: three entries (track, line, track) are spanned -/
example : (exItem.spannedTracks .inl exTracks).length = 3 := by decide
/-- outside the list the source panics: the generated definition answers the error, not a value -/
example : Gen.GridItem.GridItem.spanned_track_limit exItem .inl (exTracks.take 4) none = .error .overflow := rfl

end TieGridItem
