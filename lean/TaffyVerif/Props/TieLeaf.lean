/-
  Tie (tier T) for src/compute/leaf.rs: `compute_leaf_layout` in full.

  `Gen.Leaf.compute_leaf_layout` is regenerated from the Rust source on every run, in interaction form (`Gen.Leaf.Prog`, generated
  too): the user's measure function is not a parameter of the generated definition; each call of it is a node
  `Prog.measure_function known_dimensions available_space (fun measured_size => …)`, and `unreachable!()` is `Prog.unreachable`.

  * `compute_leaf_layout_prog_eq`: the generated program IS `modelProg`, the hand-written model `LeafModel.computeLeafLayout` with
    its helper definitions (`box`, `nodeSizes`, `scrollbarGutter`, `contentBoxInset`, `hasStylesPreventingBeingCollapsedThrough`,
    `measureAvailableSpace`), the measure call being a node of the program.  Proof: rewrite the generated helpers with the existing
    Tie equalities (all lets are unfolded first, so the names and the order of independent `let`s in leaf.rs do not matter), `rfl`.
  * `run measure` answers the measure calls with a pure function and records them (that is `LeafModel.Traced`: the result and
    the list of measure calls, or the panic); `run_modelProg`: running `modelProg` is `computeLeafLayout` (no generated code involved).
  * `compute_leaf_layout_eq`: hence running the generated program IS `LeafModel.computeLeafLayout` (the definition C19's theorems
    are about) — output, recorded measure calls (how many, in which order, with which arguments) and the panic outcome — for
    every input, style, measure function and every `[Num α]`.
-/
import TaffyVerif.Generated.Leaf
import TaffyVerif.Model.Leaf
import TaffyVerif.Model.EvalConcrete
import TaffyVerif.Props.TieLayout
import TaffyVerif.Props.TieMaybeMath
import TaffyVerif.Props.TieResolve
import TaffyVerif.Props.TieAxes
import TaffyVerif.Props.TieStyle

namespace TieLeaf
variable {α : Type} [Num α]

/-! ### the helpers translated for leaf.rs (geometry.rs, available_space.rs) -/
theorem rect_add_eq : Gen.Geometry.Rect.add (α := α) = Rect.add := rfl
theorem size_add_eq : Gen.Geometry.Size.add (α := α) = Size.add := rfl
theorem size_map_eq {β γ : Type} : Gen.Geometry.Size.map (β := β) (R := γ) = Size.map := rfl
theorem size_zip_map_eq {β γ δ : Type} : Gen.Geometry.Size.zip_map (β := β) (Other := γ) (Ret := δ) = Size.zipMap := rfl
theorem point_map_eq {β γ : Type} (p : Point β) (f : β → γ) : Gen.Geometry.Point.map p f = ⟨f p.x, f p.y⟩ := rfl
theorem from_f32_eq : Gen.AvailableSpace.from_f32 (α := α) = AvailableSpace.definite := rfl
theorem from_option_eq : Gen.AvailableSpace.from_option (α := α) = AvailableSpace.ofOption := by
  funext o; cases o <;> rfl
theorem map_definite_value_eq (a : AvailableSpace α) (f : α → α) :
    Gen.AvailableSpace.map_definite_value a f = (match a with | .definite v => .definite (f v) | x => x) := by
  cases a <;> rfl
/-- `size.maybe_max(rect.sum_axes().map(Some))` is the model's `Size.f32Max` -/
theorem fo_max_map_some (a b : Size α) : Size.fo_max a (Size.map b some) = Size.f32Max a b := rfl

/-! ### running the generated program -/

/-- answer every `measure_function` query with `measure`, recording the arguments in call order; `unreachable!()` is the model's
one panic (leaf.rs `RunMode::PerformHiddenLayout => unreachable!()`) -/
def run {β : Type} (measure : Size (Option α) → Size (AvailableSpace α) → Size α) :
    Gen.Leaf.Prog α β → LeafModel.Traced α β
  | .ret b => .ok (b, [])
  | .unreachable => .error .unreachableHiddenRunMode
  | .measure_function kd av k =>
    match run measure (k (measure kd av)) with
    | .ok (b, calls) => .ok (b, ⟨kd, av⟩ :: calls)
    | .error e => .error e

theorem point_NONE_eq : Gen.Geometry.Point.NONE (α := α) = ⟨none, none⟩ := rfl

/-- `LeafModel.computeLeafLayout` written as an interaction program: the same lines, with the measure call as a node of the
program instead of an application of the measure function (`run_modelProg`: running it IS the model) -/
def modelProg (input : LayoutInput α) (style : Style α) : Gen.Leaf.Prog α (LayoutOutput α) :=
  let knownDimensions := input.knownDimensions
  let runMode := input.runMode
  let b := LeafModel.box input.parentSize style
  let (nodeSize, nodeMinSize, nodeMaxSize, aspectRatio) := LeafModel.nodeSizes input style b.boxSizingAdjustment
  let gutter := LeafModel.scrollbarGutter style
  let inset := LeafModel.contentBoxInset b.paddingBorder gutter
  let hasStyles := LeafModel.hasStylesPreventingBeingCollapsedThrough style b.padding b.border nodeSize nodeMinSize
  let measuredPath : Unit → Gen.Leaf.Prog α (LayoutOutput α) := fun _ =>
    let availableSpace := LeafModel.measureAvailableSpace input b.margin inset nodeSize nodeMinSize nodeMaxSize
    match (match runMode with
           | .computeSize => some knownDimensions
           | .performLayout => some Size.none
           | .performHiddenLayout => none) with
    | none => .unreachable
    | some kd =>
      .measure_function kd availableSpace fun measuredSize =>
      let clampedSize :=
        Size.fo_clamp ((knownDimensions.orOpt nodeSize).unwrapOr (measuredSize.add inset.sumAxes)) nodeMinSize nodeMaxSize
      let size : Size α :=
        { width := clampedSize.width
          height :=
            if (knownDimensions.orOpt nodeSize).height.isSome then clampedSize.height
            else MaybeMath.fo_clamp
              (Num.fmax clampedSize.height ((aspectRatio.map fun ratio => clampedSize.width / ratio).getD 0))
              nodeMinSize.height nodeMaxSize.height }
      let size := Size.f32Max size b.paddingBorder.sumAxes
      .ret { size
             contentSize := measuredSize.add b.padding.sumAxes
             firstBaselines := ⟨none, none⟩
             topMargin := MarginSet.zero
             bottomMargin := MarginSet.zero
             marginsCanCollapseThrough :=
               !hasStyles && Num.feq size.height 0 && Num.feq measuredSize.height 0 }
  if runMode == .computeSize && hasStyles then
    match nodeSize with
    | ⟨some width, some height⟩ =>
      let size := Size.f32Max (Size.fo_clamp ⟨width, height⟩ nodeMinSize nodeMaxSize) b.paddingBorder.sumAxes
      .ret { size
             contentSize := Size.zero
             firstBaselines := ⟨none, none⟩
             topMargin := MarginSet.zero
             bottomMargin := MarginSet.zero
             marginsCanCollapseThrough := false }
    | _ => measuredPath ()
  else measuredPath ()

/-- the generated program IS the model's program: same interactions, same arguments, same results -/
theorem compute_leaf_layout_prog_eq (inputs : LayoutInput α) (style : Style α) :
    Gen.Leaf.compute_leaf_layout inputs style = modelProg inputs style := by
  simp only [Gen.Leaf.compute_leaf_layout,
    rect_add_eq, size_add_eq, size_map_eq, point_map_eq, from_f32_eq, map_definite_value_eq, point_NONE_eq,
    TieLayout.sum_axes_eq, TieLayout.size_ZERO_eq, TieLayout.size_NONE_eq, TieLayout.maybe_apply_aspect_ratio_eq,
    TieLayout.size_or_eq, TieLayout.size_unwrap_or_eq, TieLayout.horizontal_axis_sum_eq, TieLayout.vertical_axis_sum_eq,
    TieLayout.maybe_set_eq, TieLayout.f32_max_eq, TieLayout.margin_zero_eq,
    TieMaybeMath.size_of_add_eq, TieMaybeMath.size_fo_clamp_eq, TieMaybeMath.size_fo_max_eq, TieMaybeMath.fo_clamp_eq,
    TieMaybeMath.af_sub_eq,
    TieResolve.rect_lp_opt_resolve_or_zero_eq, TieResolve.rect_lpa_opt_resolve_or_zero_eq, TieResolve.size_dim_maybe_resolve_eq,
    TieAxes.point_transpose_eq,
    TieStyle.margin_eq, TieStyle.padding_eq, TieStyle.border_eq, TieStyle.box_sizing_eq, TieStyle.aspect_ratio_eq,
    TieStyle.size_eq, TieStyle.min_size_eq, TieStyle.max_size_eq, TieStyle.overflow_eq, TieStyle.scrollbar_width_eq,
    TieStyle.is_block_eq, TieStyle.is_scroll_container_eq, TieStyle.position_eq, fo_max_map_some]
  rfl

/-- running the model's program is the model -/
theorem run_modelProg (input : LayoutInput α) (style : Style α)
    (measure : Size (Option α) → Size (AvailableSpace α) → Size α) :
    run measure (modelProg input style) = LeafModel.computeLeafLayout input style measure := by
  obtain ⟨runMode, sizingMode, axis, kd, ps, av, vmc⟩ := input
  unfold modelProg LeafModel.computeLeafLayout
  cases runMode <;> simp only [apply_ite (run measure)]
  all_goals
    generalize LeafModel.nodeSizes _ style _ = T
    obtain ⟨⟨_ | w, _ | h⟩, nmin, nmax, ar⟩ := T
    all_goals rfl

/-- **Tie, leaf.rs.**  Running the program generated from `compute_leaf_layout` with a pure measure function IS the hand-written
model: the same output, the same recorded measure calls (number, order, arguments), the same panic — for every input, style,
measure function and every `[Num α]`. -/
theorem compute_leaf_layout_eq (inputs : LayoutInput α) (style : Style α)
    (measure : Size (Option α) → Size (AvailableSpace α) → Size α) :
    run measure (Gen.Leaf.compute_leaf_layout inputs style) = LeafModel.computeLeafLayout inputs style measure := by
  rw [compute_leaf_layout_prog_eq]; exact run_modelProg inputs style measure

/-- the evaluator's leaf algorithm `EvalConcrete.leafAlg` (the output of `computeLeafLayout`; the hidden output on the panic, which
the evaluator never reaches) read off the generated program -/
theorem leafAlg_eq (inputs : LayoutInput α) (style : Style α)
    (measure : Size (Option α) → Size (AvailableSpace α) → Size α) :
    EvalConcrete.leafAlg inputs style measure =
      match run measure (Gen.Leaf.compute_leaf_layout inputs style) with
      | .ok (out, _) => out
      | .error _ => LayoutOutput.hidden := by
  rw [compute_leaf_layout_eq]; rfl

/-! ### concrete instances -/

/-- a `PerformLayout` run of the generated program asks the measure function exactly once, with `known_dimensions = NONE`
(for every style and measure function) -/
example (style : Style α) (measure : Size (Option α) → Size (AvailableSpace α) → Size α) (ps : Size (Option α))
    (av : Size (AvailableSpace α)) :
    (run measure (Gen.Leaf.compute_leaf_layout
        { runMode := .performLayout, sizingMode := .contentSize, axis := .both, knownDimensions := ⟨none, none⟩,
          parentSize := ps, availableSpace := av, verticalMarginsAreCollapsible := ⟨false, false⟩ } style)).toOption.map
      (fun r => r.2.map (·.knownDimensions)) = some [⟨none, none⟩] := rfl

/-- the one panic site: a hidden-mode run reaches `unreachable!()` before the measure function is asked -/
example (style : Style α) (measure : Size (Option α) → Size (AvailableSpace α) → Size α) :
    run measure (Gen.Leaf.compute_leaf_layout LayoutInput.hidden style) = .error .unreachableHiddenRunMode := rfl

/-- a `ComputeSize` run with both dimensions known and a style that prevents collapsing returns without asking -/
example (measure : Size (Option α) → Size (AvailableSpace α) → Size α) (w h : α) :
    (run measure (Gen.Leaf.compute_leaf_layout
        { runMode := .computeSize, sizingMode := .contentSize, axis := .both, knownDimensions := ⟨some w, some h⟩,
          parentSize := ⟨none, none⟩, availableSpace := ⟨.maxContent, .maxContent⟩,
          verticalMarginsAreCollapsible := ⟨false, false⟩ } { (Style.default : Style α) with display := .flex })).toOption.map
      (·.2) = some [] := rfl

end TieLeaf
