/-
  C06 for the flexbox algorithm: the named hypothesis `EvalBlock.AlgAbsBlind` of the evaluator-level theorems, discharged
  for the whole of src/compute/flexbox.rs (`FlexModel.computeFlexboxLayout`, Model/Flex.lean), for every number type `α`
  (`[Num α] [FlexLine.NumX α]`), and the evaluator-level theorems for trees of block containers, flexbox containers and
  leaves (`FlexTrees.NoGrid`), where they hold unconditionally.  Grid remains a parameter.

  What flexbox.rs does with absolutely positioned children:
    (a) `generate_anonymous_flex_items` filters them (and the `display:none` children) out: the item lists of two
        `AgreeA` child-style lists are EQUAL; all child queries of steps 3–15 and of the final layout pass are addressed
        to items, and `tree.get_flexbox_child_style(child.node)` (steps 3 and 11) reads item styles only;
    (b) `perform_absolute_layout_on_absolute_children` runs after the in-flow work, addresses only absolutely positioned
        box-generating children, and its result feeds `absolute_content_size` only, which enters
        `LayoutOutput.content_size` and nothing else;
    (c) the `order` of a flex item is its index in the child list (`enumerate()` BEFORE the filters), so removing or
        replacing absolutely positioned children does not renumber the others;
    (d) the answers of the in-flow children enter through `size`, `first_baselines` (steps 3–7, baselines, final pass)
        and `content_size`, the latter only into the child's own `Layout.content_size` and the container's
        `content_size`.
  So, as for block: the OUTPUT depends on the absolutely positioned children through `content_size` only
  (`C06.OutEqv` leaves `content_size` free), and the programs are `C06.AbsEquiv`.

  Helper lemmas: Lemmas/FlexStages.lean (the program cut into stages, `rfl`), Lemmas/FlexAbsBasic.lean,
  FlexAbsStages.lean, FlexAbsTail.lean, FlexAbsTop.lean, Lemmas/FlexNoGrid.lean (`NoGrid`, `eval_algs_congr_grid`).
-/
import TaffyVerif.Lemmas.FlexAbsTop
import TaffyVerif.Lemmas.FlexNoGrid
import TaffyVerif.Props.EvalBlock

set_option linter.unusedSectionVars false

namespace EvalFlexAbs
open Eval EvalBlock Gen.Facts FlexTrees
variable {α : Type} [Num α] [FlexLine.NumX α] {C : Type}

/-- **flex_AbsBlind**: for child-style lists that agree except at indices where both styles are absolutely positioned
boxes, the two flexbox programs are equal up to the calls/`setLayout`s addressed to those children and up to
`content_size` (of the answers fed back, of the layouts assigned, of the result). -/
theorem flex_AbsBlind : AlgAbsBlind (FlexModel.computeFlexboxLayout : ContainerAlg α) :=
  fun style xs ys inp h => FlexAbs.computeFlexboxLayout_equiv style xs ys inp h

/-- the item lists are equal: absolutely positioned children never become flex items -/
theorem flex_items_abs_blind (k : FlexModel.AlgoConstants α) (xs ys : List (Style α)) (h : C06.AgreeA xs ys) :
    FlexModel.generateAnonymousFlexItems k xs = FlexModel.generateAnonymousFlexItems k ys :=
  FlexAbs.generateItemsFrom_agree k xs ys 0 h

/-- the absolute pass talks to absolutely positioned box-generating children only -/
theorem flex_abs_pass_only_abs (k : FlexModel.AlgoConstants α) (xs : List (Style α)) (acc : Size α) :
    OnlyAbs (C06.absIdx xs) (FlexModel.absLoop k xs 0 acc) :=
  FlexAbs.absLoop_onlyAbs _ k xs 0 acc fun j x hj hv => ⟨x, by simpa using hj, hv⟩

/-- `AbsBlind` for the concrete block and flexbox algorithms: only the grid hypothesis remains -/
theorem algs_AbsBlind_flex (grid : ContainerAlg α) (hg : AlgAbsBlind grid) :
    C06.AbsBlind (EvalConcrete.algs FlexModel.computeFlexboxLayout grid) :=
  algs_AbsBlind _ grid flex_AbsBlind hg

/-- **abs_invisible_flex_algs**: `C06.abs_invisible` with the concrete leaf, block and flexbox -/
theorem abs_invisible_flex_algs (ci : CacheImpl α C) (R : C → C → Prop) (hc : C06.CacheRespects ci R)
    (grid : ContainerAlg α) (hg : AlgAbsBlind grid)
    (fuel : Nat) (tA tB : STree α) (nsA nsB : NS α C) (inp : LayoutInput α)
    (hr : C06.AbsRel tA tB) (hs : C06.SimA R tA nsA nsB) :
    C06.OutEqv (evalNode ci (EvalConcrete.algs FlexModel.computeFlexboxLayout grid) fuel tA nsA inp).1
      (evalNode ci (EvalConcrete.algs FlexModel.computeFlexboxLayout grid) fuel tB nsB inp).1 ∧
    C06.SimA R tA (evalNode ci (EvalConcrete.algs FlexModel.computeFlexboxLayout grid) fuel tA nsA inp).2
      (evalNode ci (EvalConcrete.algs FlexModel.computeFlexboxLayout grid) fuel tB nsB inp).2 :=
  abs_invisible_algs ci R hc _ grid flex_AbsBlind hg fuel tA tB nsA nsB inp hr hs

/-! ### trees without grid containers: unconditional -/

/-- `TaffyTree`'s extracted dispatch never sends a node of a `NoGrid` tree to grid -/
theorem NoGrid_NoG_real (t : STree α) (h : NoGrid t) : NoG (Dispatch.select dispatchArms) t :=
  NoGrid_NoG _ (fun d b => by rw [C17.dispatch_eq]; cases d <;> rfl) t h

/-- **eval_block_flex_leaf_trees**: on a `NoGrid` tree the evaluator does not depend on the grid parameter -/
theorem eval_block_flex_leaf_trees (ci : CacheImpl α C) (flex grid grid' : ContainerAlg α)
    (fuel : Nat) (t : STree α) (ns : NS α C) (inp : LayoutInput α) (h : NoGrid t) :
    evalNode ci (EvalConcrete.algs flex grid) fuel t ns inp = evalNode ci (EvalConcrete.algs flex grid') fuel t ns inp :=
  eval_algs_congr_grid ci _ (EvalConcrete.algs flex grid) (EvalConcrete.algs flex grid') rfl rfl rfl fuel t ns inp
    (NoGrid_NoG_real t h)

/-- the evaluator with the three modelled algorithms -/
abbrev flexAlgs (grid : ContainerAlg α) : Algs α := EvalConcrete.algs FlexModel.computeFlexboxLayout grid

/-- **abs_invisible_block_flex_leaf_trees** (unconditional): two trees of block containers, flexbox containers and
leaves, the second obtained from the first by replacing absolutely positioned children (at any depth) by arbitrary other
absolutely positioned children; states agreeing outside the absolutely positioned subtrees: outputs equal up to
`content_size`, states again agreeing outside the absolutely positioned subtrees -/
theorem abs_invisible_block_flex_leaf_trees (ci : CacheImpl α C) (R : C → C → Prop) (hc : C06.CacheRespects ci R)
    (grid : ContainerAlg α) (fuel : Nat) (tA tB : STree α) (nsA nsB : NS α C) (inp : LayoutInput α)
    (hA : NoGrid tA) (hB : NoGrid tB) (hr : C06.AbsRel tA tB) (hs : C06.SimA R tA nsA nsB) :
    C06.OutEqv (evalNode ci (flexAlgs grid) fuel tA nsA inp).1 (evalNode ci (flexAlgs grid) fuel tB nsB inp).1 ∧
    C06.SimA R tA (evalNode ci (flexAlgs grid) fuel tA nsA inp).2 (evalNode ci (flexAlgs grid) fuel tB nsB inp).2 := by
  unfold flexAlgs
  rw [eval_block_flex_leaf_trees ci _ grid EvalConcrete.idle fuel tA nsA inp hA,
    eval_block_flex_leaf_trees ci _ grid EvalConcrete.idle fuel tB nsB inp hB]
  exact abs_invisible_flex_algs ci R hc _ idle_AbsBlind fuel tA tB nsA nsB inp hr hs

/-- **abs_invisible_pass_block_flex_leaf_trees** (unconditional): whole passes from freshly built trees: outputs equal
up to `content_size`, and every node outside the absolutely positioned subtrees gets the same order, location, size,
scrollbar size, border, padding and margin -/
theorem abs_invisible_pass_block_flex_leaf_trees (ci : CacheImpl α C) (R : C → C → Prop)
    (hc : C06.CacheRespects ci R) (grid : ContainerAlg α) (fuel : Nat) (tA tB : STree α) (inp : LayoutInput α)
    (hA : NoGrid tA) (hB : NoGrid tB) (hr : C06.AbsRel tA tB) :
    C06.OutEqv (evalNode ci (flexAlgs grid) fuel tA (NS.init ci tA) inp).1
      (evalNode ci (flexAlgs grid) fuel tB (NS.init ci tB) inp).1 ∧
    ∀ p, C06.OutsideAbs tA p →
      C06.OptRel (fun x y => C06.LayEqv x.layout y.layout)
        (C06.nsAt (evalNode ci (flexAlgs grid) fuel tA (NS.init ci tA) inp).2 p)
        (C06.nsAt (evalNode ci (flexAlgs grid) fuel tB (NS.init ci tB) inp).2 p) := by
  obtain ⟨h1, h2⟩ := abs_invisible_block_flex_leaf_trees ci R hc grid fuel tA tB _ _ inp hA hB hr
    (C06.SimA_init ci R hc tA tB hr)
  exact ⟨h1, fun p hv => C06.OptRel.mono (fun _ _ h => h.1) _ _ (C06.SimA_at R p tA _ _ h2 hv)⟩

/-- **abs_invisible_replace_block_flex_leaf_trees** (C06 as worded, unconditional): in a tree of block containers,
flexbox containers and leaves replace any absolutely positioned box (non-root path `q`) with its subtree by ANY other
absolutely positioned box `r` (itself a tree of block containers, flexbox containers and leaves) -/
theorem abs_invisible_replace_block_flex_leaf_trees (ci : CacheImpl α C) (R : C → C → Prop)
    (hc : C06.CacheRespects ci R) (grid : ContainerAlg α) (fuel : Nat) (t h r : STree α) (q : List Nat)
    (inp : LayoutInput α) (hbt : NoGrid t) (hbr : NoGrid r)
    (hq : q ≠ []) (ht : treeAt t q = some h) (hh : C06.absVis h.style) (hr : C06.absVis r.style) :
    C06.OutEqv (evalNode ci (flexAlgs grid) fuel t (NS.init ci t) inp).1
      (evalNode ci (flexAlgs grid) fuel (replaceAt t q r) (NS.init ci (replaceAt t q r)) inp).1 ∧
    ∀ p, C06.OutsideAbs t p →
      C06.OptRel (fun x y => C06.LayEqv x.layout y.layout)
        (C06.nsAt (evalNode ci (flexAlgs grid) fuel t (NS.init ci t) inp).2 p)
        (C06.nsAt (evalNode ci (flexAlgs grid) fuel (replaceAt t q r) (NS.init ci (replaceAt t q r)) inp).2 p) :=
  abs_invisible_pass_block_flex_leaf_trees ci R hc grid fuel t _ inp hbt (NoGrid_replaceAt q t r hbt hbr)
    (C06.AbsRel_replaceAt q t h r hq ht hh hr)

/-! ### non-vacuity (at `Rat`) -/

section examples

def flexRoot : Style Rat :=
  { (Style.default : Style Rat) with
    display := .flex, size := ⟨.length 100, .auto⟩, flexWrap := .wrap,
    padding := ⟨.length 2, .length 2, .length 2, .length 2⟩ }
def inflowA : Style Rat :=
  { (Style.default : Style Rat) with display := .block, size := ⟨.length 60, .length 10⟩, flexGrow := 1 }
def inflowB : Style Rat :=
  { (Style.default : Style Rat) with display := .block, size := ⟨.length 70, .auto⟩, alignSelf := some .baseline }
def absA : Style Rat :=
  { (Style.default : Style Rat) with
    display := .block, position := .absolute, size := ⟨.length 500, .length 500⟩,
    inset := ⟨.length 3, .auto, .auto, .length 4⟩ }
def absB : Style Rat :=
  { (Style.default : Style Rat) with display := .flex, position := .absolute, flexGrow := 3 }

/-- two child-style lists that differ in the absolutely positioned child (index 1) only -/
example : C06.AgreeA [inflowA, absA, inflowB] [inflowA, absB, inflowB] := by
  simp only [C06.AgreeA, and_true]
  exact ⟨Or.inr (by decide), Or.inl ⟨by decide, by decide⟩, Or.inr (by decide)⟩

example (inp : LayoutInput Rat) :
    C06.AbsEquiv (C06.absIdx [inflowA, absA, inflowB]) C06.OutEqv
      (FlexModel.computeFlexboxLayout flexRoot [inflowA, absA, inflowB] inp)
      (FlexModel.computeFlexboxLayout flexRoot [inflowA, absB, inflowB] inp) :=
  flex_AbsBlind flexRoot _ _ inp (by
    simp only [C06.AgreeA, and_true]
    exact ⟨Or.inr (by decide), Or.inl ⟨by decide, by decide⟩, Or.inr (by decide)⟩)

/-- tree A: flex root (wrapping, padded) with two in-flow leaves and an absolutely positioned block container between
them that has a subtree of its own; tree B: the absolutely positioned child replaced by a flex leaf -/
def exA : STree Rat :=
  .node flexRoot none [.node inflowA (some (.fixed 60 10)) [], .node absA none [.node inflowA none []],
    .node inflowB (some (.wrap 120 10)) []]
def exB : STree Rat :=
  .node flexRoot none [.node inflowA (some (.fixed 60 10)) [], .node absB (some (.fixed 1 1)) [],
    .node inflowB (some (.wrap 120 10)) []]

theorem exAB_rel : C06.AbsRel exA exB := by
  simp only [exA, exB, C06.AbsRel, C06.AbsRelList, STree.style, and_true, true_and]
  exact ⟨Or.inr (by decide), Or.inl ⟨by decide, by decide⟩, Or.inr (by decide)⟩

theorem exA_noGrid : NoGrid exA := by
  simp [exA, NoGrid, NoGridList, flexRoot, inflowA, inflowB, absA, Style.default]
theorem exB_noGrid : NoGrid exB := by
  simp [exB, NoGrid, NoGridList, flexRoot, inflowA, inflowB, absB, Style.default]

example : C06.OutsideAbs exA [0] ∧ C06.OutsideAbs exA [2] := by
  constructor <;> simp [exA, C06.OutsideAbs, C06.absVis, inflowA, inflowB, STree.style, Style.default]

/-- the theorem applied to the concrete trees, with the real cache -/
example (grid : ContainerAlg Rat) (fuel : Nat) (inp : LayoutInput Rat) :
    C06.OutEqv (evalNode realCache (flexAlgs grid) fuel exA (NS.init realCache exA) inp).1
      (evalNode realCache (flexAlgs grid) fuel exB (NS.init realCache exB) inp).1 :=
  (abs_invisible_pass_block_flex_leaf_trees realCache C06.RealRel C06.realCache_respects grid fuel exA exB inp
    exA_noGrid exB_noGrid exAB_rel).1

def exIn : LayoutInput Rat :=
  { runMode := .performLayout, sizingMode := .inherentSize, axis := .both, knownDimensions := ⟨none, none⟩,
    parentSize := ⟨some 200, none⟩, availableSpace := ⟨.definite 200, .maxContent⟩,
    verticalMarginsAreCollapsible := ⟨false, false⟩ }

def kidBoxes (r : LayoutOutput Rat × NS Rat Unit) : Size Rat × Size Rat × List (Nat × Point Rat × Size Rat) :=
  (r.1.size, r.1.contentSize, r.2.kids.map fun n => (n.layout.order, n.layout.location, n.layout.size))

/-- and what the two passes compute: the in-flow children (indices 0 and 2, two flex lines) get the same boxes and the
same `order`; the container's size is the same; `content_size` is NOT (the 500×500 absolutely positioned child of tree A,
`left: 3, bottom: 4`, overflows to the right) -/
example : kidBoxes (evalNode noCache (flexAlgs EvalConcrete.idle) 4 exA (NS.init noCache exA) exIn) =
    (⟨100, 34⟩, ⟨503, 34⟩, [(0, ⟨2, 2⟩, ⟨96, 10⟩), (1, ⟨3, -470⟩, ⟨500, 500⟩), (2, ⟨2, 12⟩, ⟨70, 20⟩)]) := by
  decide +kernel
example : kidBoxes (evalNode noCache (flexAlgs EvalConcrete.idle) 4 exB (NS.init noCache exB) exIn) =
    (⟨100, 34⟩, ⟨100, 34⟩, [(0, ⟨2, 2⟩, ⟨96, 10⟩), (1, ⟨2, 2⟩, ⟨1, 1⟩), (2, ⟨2, 12⟩, ⟨70, 20⟩)]) := by
  decide +kernel

end examples

end EvalFlexAbs

/-
  Obligations to audit (`#print axioms`; all depend on [propext, Classical.choice, Quot.sound] at most):
  EVALFLEX_C06 = [
    "EvalFlexAbs.flex_AbsBlind", "EvalFlexAbs.flex_items_abs_blind", "EvalFlexAbs.flex_abs_pass_only_abs",
    "EvalFlexAbs.algs_AbsBlind_flex", "EvalFlexAbs.abs_invisible_flex_algs", "EvalFlexAbs.NoGrid_NoG_real",
    "EvalFlexAbs.eval_block_flex_leaf_trees", "EvalFlexAbs.abs_invisible_block_flex_leaf_trees",
    "EvalFlexAbs.abs_invisible_pass_block_flex_leaf_trees", "EvalFlexAbs.abs_invisible_replace_block_flex_leaf_trees",
    "EvalFlexAbs.exAB_rel", "EvalFlexAbs.exA_noGrid", "EvalFlexAbs.exB_noGrid",
    -- supporting lemmas worth auditing by name
    "FlexStages.computePreliminary_eq", "FlexAbs.computeFlexboxLayout_equiv", "FlexAbs.generateItemsFrom_agree",
    "FlexAbs.finalLayoutPass_equiv", "FlexAbs.absLoop_onlyAbs", "FlexTrees.eval_algs_congr_grid",
    "FlexTrees.NoGrid_replaceAt", "FlexTrees.BlockOnly_NoGrid",
  ]
-/
