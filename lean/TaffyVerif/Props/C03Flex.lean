/-
  C03 (flex obligation) — the freeze loop of `resolve_flexible_lengths` terminates for all inputs.

  The loop body freezes at least one unfrozen item per pass (all of them when the total violation is zero), so it runs
  at most `n` times for a line of `n` items; the model's `fuel` argument is never exhausted when `fuel ≥ n`.
  The statements are those of `Props/C07.lean`, registered here as the flex part of C03.
-/
import TaffyVerif.Props.C07

namespace C03Flex
open FlexLine

/-- measure: the number of unfrozen items strictly decreases in every pass that is entered -/
theorem iteration_freezes_one (k : RflCtx Rat) (items : List (FlexItemM Rat)) (h : ¬ items.all (·.frozen) = true) :
    ucount (iter k items) < ucount items := C07.iteration_freezes_one k items h

/-- a pass with zero total violation freezes everything -/
theorem iteration_freezes_all_when_zero (k : RflCtx Rat) (items : List (FlexItemM Rat)) :
    ∃ d, iter k items = freezePass (totalViolation (clampPass d items)) (clampPass d items) ∧
      (totalViolation (clampPass d items) = 0 → (iter k items).all (·.frozen) = true) :=
  C07.iteration_freezes_all_when_zero k items

/-- no hang: for every item list, inner size (definite or not) and gap, `fuel ≥ n` suffices and all items end frozen -/
theorem freeze_loop_terminates (items : List (FlexItemM Rat)) (innerMain : Option Rat) (gap : Rat) (fuel : Nat)
    (hfuel : items.length ≤ fuel) :
    ∃ r, resolveFlexibleLengths items innerMain gap fuel = some r ∧ r.all (·.frozen) = true ∧
      r.length = items.length := C07.freeze_loop_terminates items innerMain gap fuel hfuel

end C03Flex
