/-
  C04 — Layout is homogeneous under uniform scaling of all lengths.

  `Scalable.scale k` (Model/Scale.lean) multiplies every absolute length by `k` — sizes, min/max sizes, margins, padding,
  borders, insets, gaps, flex bases, scrollbar widths, the lengths of the grid track lists (`Style.grid`: fixed track
  sizes, `fit-content(px)` arguments, `minmax` bounds), the definite available space, the known dimensions, the parent
  size, the results of the measure function — and leaves percentages, flex factors, `fr` factors, aspect ratios, enums,
  flags, paint order, child indices and grid placements alone.  (The tree theorem for ALL trees, grid containers
  included: Props/C04Tree.lean.)  Every theorem below is at `Rat` and holds for EVERY `k > 0` with no other hypothesis
  (unless stated), for every style / input / child answer.

  Interaction programs: `scaleProg k p` scales the input of every `compute_child_layout` call and every layout handed to
  `set_unrounded_layout`, scales the final result, and feeds the continuation the un-scaled answer (`scale k⁻¹`).

  Functions that compare a length with a literal constant:
    * `AvailableSpace::is_roughly_equal` (cache.rs, `f32::EPSILON`): modelled (Model/Cache.lean); homogeneous only under
      the side condition of `cache_roughly_equal_homogeneous`; refuted without it (`cache_roughly_equal_not_homogeneous`).
      Therefore the tree-level theorem is about the cache-free evaluator `Eval.noCache`.
    * flexbox.rs `determine_container_main_size` (min/max-content branch) used to floor `flex_shrink · inner_flex_basis`
      at the dimensionless `1` (the former C04 finding; repaired by fix b09946f: the flex shrink *factor* is floored, as
      in the multiplication below it). The whole flexbox program is now proved homogeneous in Props/EvalFlexScale.lean
      (`C04Flex.flex_homogeneous`).  In the flex-line functions every comparison is length-vs-length, length-vs-0 or
      flex-factor-sum-vs-1, so they are homogeneous without side condition.
    * no `THRESHOLD`-style constant occurs in leaf, root, block, the abs-pos copies or the flex-line functions.
-/
import TaffyVerif.Lemmas.ScaleLeaf
import TaffyVerif.Lemmas.ScaleAbs
import TaffyVerif.Lemmas.ScaleFlexLine
import TaffyVerif.Lemmas.ScaleBlock
import TaffyVerif.Lemmas.ScaleCache
import Mathlib.Tactic.NormNum

set_option linter.unusedVariables false

namespace C04
open Scalable Eval

variable {k : Rat}

/-! ### 1–2. the `Scalable` machinery and the helpers

  `scale_scale`, `scale_one` (class `LawfulScalable`), `scale_inv_cancel`, `scale_cancel_inv` (Lemmas/ScaleBasic.lean);
  the helper equivariance lemmas are the `@[scale_simp]` set of Lemmas/ScaleMath.lean.  The ones named in the property
  statement are restated here. -/

/-- `f32::max`, `f32::min`, `f32::abs` commute with scaling by `k > 0` -/
theorem num_homogeneous (hk : 0 < k) (a b : Rat) :
    Num.fmax (scale k a) (scale k b) = scale k (Num.fmax a b) ∧
    Num.fmin (scale k a) (scale k b) = scale k (Num.fmin a b) ∧
    Num.abs (scale k a) = scale k (Num.abs a) :=
  ⟨fmax_scale hk a b, fmin_scale hk a b, abs_scale hk a⟩

/-- length resolution: lengths scale, percentages resolve against the scaled context -/
theorem resolve_homogeneous (k : Rat) (x : LP Rat) (y : LPA Rat) (ctx : Option Rat) (c : Rat) :
    (scale k x).maybeResolve (scale k ctx) = scale k (x.maybeResolve ctx) ∧
    (scale k x).resolveOrZero (scale k ctx) = scale k (x.resolveOrZero ctx) ∧
    (scale k y).maybeResolve (scale k ctx) = scale k (y.maybeResolve ctx) ∧
    (scale k y).resolveOrZero (scale k ctx) = scale k (y.resolveOrZero ctx) ∧
    (scale k y).resolveToOption (scale k c) = scale k (y.resolveToOption c) :=
  ⟨LP.maybeResolve_scale k x ctx, LP.resolveOrZero_scale k x ctx, LPA.maybeResolve_scale k y ctx,
   LPA.resolveOrZero_scale k y ctx, LPA.resolveToOption_scale k y c⟩

/-- `maybe_apply_aspect_ratio`: the ratio is NOT scaled -/
theorem aspect_ratio_homogeneous (k : Rat) (s : Size (Option Rat)) (ratio : Option Rat) :
    (scale k s).maybeApplyAspectRatio ratio = scale k (s.maybeApplyAspectRatio ratio) :=
  Size.maybeApplyAspectRatio_scale k s ratio

/-- `maybe_clamp` in its five `MaybeMath` forms -/
theorem clamp_homogeneous (hk : 0 < k) (x : Rat) (ox mn mx : Option Rat) (a : AvailableSpace Rat) (fmn fmx : Rat) :
    MaybeMath.oo_clamp (scale k ox) (scale k mn) (scale k mx) = scale k (MaybeMath.oo_clamp ox mn mx) ∧
    MaybeMath.of_clamp (scale k ox) (scale k fmn) (scale k fmx) = scale k (MaybeMath.of_clamp ox fmn fmx) ∧
    MaybeMath.fo_clamp (scale k x) (scale k mn) (scale k mx) = scale k (MaybeMath.fo_clamp x mn mx) ∧
    MaybeMath.af_clamp (scale k a) (scale k fmn) (scale k fmx) = scale k (MaybeMath.af_clamp a fmn fmx) ∧
    MaybeMath.ao_clamp (scale k a) (scale k mn) (scale k mx) = scale k (MaybeMath.ao_clamp a mn mx) :=
  ⟨oo_clamp_scale hk ox mn mx, of_clamp_scale hk ox fmn fmx, fo_clamp_scale hk x mn mx, af_clamp_scale hk a fmn fmx,
   ao_clamp_scale hk a mn mx⟩

/-- collapsible margin sets -/
theorem margin_set_homogeneous (hk : 0 < k) (s o : MarginSet Rat) (m : Rat) :
    MarginSet.fromMargin (scale k m) = scale k (MarginSet.fromMargin m) ∧
    (scale k s).collapseWithMargin (scale k m) = scale k (s.collapseWithMargin m) ∧
    (scale k s).collapseWithSet (scale k o) = scale k (s.collapseWithSet o) ∧
    (scale k s).resolve = scale k s.resolve :=
  ⟨MarginSet.fromMargin_scale hk m, MarginSet.collapseWithMargin_scale hk s m, MarginSet.collapseWithSet_scale hk s o,
   MarginSet.resolve_scale k s⟩

/-- the harness' measure function (both families): scaled content, scaled arguments ↦ scaled result -/
theorem measure_homogeneous (hk : 0 < k) (m : MeasureSpec Rat) (kd : Size (Option Rat)) (av : Size (AvailableSpace Rat)) :
    (scale k m).measure (scale k kd) (scale k av) = scale k (m.measure kd av) :=
  MeasureSpec.measure_scale hk m kd av

/-! ### 3. algorithm level -/

/-- **leaf_homogeneous**: `compute_leaf_layout` with scaled input, scaled style and scaled measure function returns the
scaled output AND records the scaled measure-call arguments; the `unreachable!()` panic is preserved. -/
theorem leaf_homogeneous (hk : 0 < k) (inp : LayoutInput Rat) (style : Style Rat)
    (m : Size (Option Rat) → Size (AvailableSpace Rat) → Size Rat) :
    LeafModel.computeLeafLayout (scale k inp) (scale k style) (scaleMeasure k m) =
      scale k (LeafModel.computeLeafLayout inp style m) :=
  leaf_homogeneous' hk inp style m

/-- the same with the harness' measure function of a (scaled) node context -/
theorem leaf_homogeneous_ctx (hk : 0 < k) (inp : LayoutInput Rat) (style : Style Rat) (ctx : Option (MeasureSpec Rat)) :
    LeafModel.computeLeafLayout (scale k inp) (scale k style) (measureOf (scale k ctx)) =
      scale k (LeafModel.computeLeafLayout inp style (measureOf ctx)) := by
  rw [measureOf_scale hk]
  exact leaf_homogeneous hk inp style _

/-- **root_homogeneous**: `compute_root_layout` — the root's known dimensions, the `LayoutInput` it is laid out with, and
the layout written for it -/
theorem root_homogeneous (hk : 0 < k) (style : Style Rat) (av : Size (AvailableSpace Rat)) (out : LayoutOutput Rat) :
    RootModel.rootKnownDimensions (scale k style) (scale k av) = scale k (RootModel.rootKnownDimensions style av) ∧
    RootModel.rootInput (scale k style) (scale k av) = scale k (RootModel.rootInput style av) ∧
    RootModel.rootLayout (scale k style) (scale k av) (scale k out) = scale k (RootModel.rootLayout style av out) :=
  ⟨rootKnownDimensions_scale hk style av, rootInput_scale hk style av, rootLayout_scale hk style av out⟩

/-- **abs_homogeneous**: the three copies of "lay out an absolutely positioned child" (block.rs, flexbox.rs,
grid/alignment.rs), for every child answer function `orc` (`scaleOracle k orc (scale k i) = scale k (orc i)`) -/
theorem abs_homogeneous (hk : 0 < k) (st : Style Rat) (orc : AbsPos.Oracle Rat)
    (ab : AbsPos.BlockArgs Rat) (af : AbsPos.FlexArgs Rat) (ag : AbsPos.GridArgs Rat) :
    AbsPos.absBlock (scale k ab) (scale k st) (scaleOracle k orc) = scale k (AbsPos.absBlock ab st orc) ∧
    AbsPos.absFlex (scale k af) (scale k st) (scaleOracle k orc) = scale k (AbsPos.absFlex af st orc) ∧
    AbsPos.absGrid (scale k ag) (scale k st) (scaleOracle k orc) = scale k (AbsPos.absGrid ag st orc) :=
  ⟨absBlock_scale hk ab st orc, absFlex_scale hk af st orc, absGrid_scale hk ag st orc⟩

/-- the call sites that build the abs-pos arguments from the container -/
theorem abs_call_sites_homogeneous (hk : 0 < k) (cst : Style Rat) (outer : Size Rat) (ps kd : Size (Option Rat))
    (order : Nat) :
    AbsPos.blockCallSite (scale k cst) (scale k outer) order = scale k (AbsPos.blockCallSite cst outer order) ∧
    AbsPos.flexStyledKnownDimensions (scale k cst) (scale k ps) = scale k (AbsPos.flexStyledKnownDimensions cst ps) ∧
    AbsPos.flexCallSite (scale k cst) (scale k ps) (scale k kd) (scale k outer) order =
      scale k (AbsPos.flexCallSite cst ps kd outer order) ∧
    AbsPos.gridCallSite (scale k cst) (scale k ps) (scale k outer) order = scale k (AbsPos.gridCallSite cst ps outer order) :=
  ⟨blockCallSite_scale hk cst outer order, flexStyledKnownDimensions_scale hk cst ps,
   flexCallSite_scale hk cst ps kd outer order, gridCallSite_scale hk cst ps outer order⟩

/-- **flex_line_homogeneous**: `resolve_flexible_lengths` (freeze loop, any fuel; running out of fuel is preserved),
`distribute_remaining_free_space`, and the main-axis positions of `calculate_layout_line`.  Item lengths, the inner main
size, the gap, the child sizes and the start offset are scaled; `flex_grow`, `flex_shrink` and the flags are not. -/
theorem flex_line_homogeneous (hk : 0 < k) (items : List (FlexLine.FlexItemM Rat)) (innerMain : Option Rat)
    (inner gap start : Rat) (fuel : Nat) (jc : Option AlignContent) (dir : FlexDirection)
    (zs : List (FlexLine.FlexItemM Rat × Rat)) :
    FlexLine.resolveFlexibleLengths (scale k items) (scale k innerMain) (scale k gap) fuel =
      scale k (FlexLine.resolveFlexibleLengths items innerMain gap fuel) ∧
    FlexLine.distributeRemainingFreeSpace (scale k items) (scale k inner) (scale k gap) jc dir =
      scale k (FlexLine.distributeRemainingFreeSpace items inner gap jc dir) ∧
    FlexLine.mainAxisPositions (scale k zs) (scale k start) dir = scale k (FlexLine.mainAxisPositions zs start dir) :=
  ⟨resolveFlexibleLengths_scale hk items innerMain gap fuel, distributeRemainingFreeSpace_scale hk items inner gap jc dir,
   mainAxisPositions_scale k zs start dir⟩

/-- **block_homogeneous**: the WHOLE of `compute_block_layout` (item generation, content-based width, the in-flow loop
with margin collapsing, absolutely positioned children, hidden children, the three short-circuits) as an interaction
program: the program of the scaled container is the scaled program. -/
theorem block_homogeneous (hk : 0 < k) (style : Style Rat) (childStyles : List (Style Rat)) (inp : LayoutInput Rat) :
    BlockModel.computeBlockLayout (scale k style) (childStyles.map (scale k)) (scale k inp) =
      scaleProg k (BlockModel.computeBlockLayout style childStyles inp) :=
  computeBlockLayout_scale hk style childStyles inp

/-- the in-flow loop alone, from any loop state -/
theorem flow_loop_homogeneous (hk : 0 < k) (c : BlockModel.FlowCtx Rat) (items : List (BlockModel.BlockItem Rat))
    (st : BlockModel.FlowState Rat) :
    BlockModel.flowLoop (scale k c) (scale k items) (scale k st) = scaleProg k (BlockModel.flowLoop c items st) :=
  flowLoop_scale hk c items st

/-- one iteration of the in-flow loop, for any child answer -/
theorem place_item_homogeneous (hk : 0 < k) (c : BlockModel.FlowCtx Rat) (st : BlockModel.FlowState Rat)
    (item : BlockModel.BlockItem Rat) (out : LayoutOutput Rat) :
    BlockModel.placeItem (scale k c) (scale k st) (scale k item) (scale k out) =
      scale k (BlockModel.placeItem c st item out) :=
  placeItem_scale hk c st item out

/-! ### the one modelled comparison with a literal: the cache's ε -/

/-- `is_roughly_equal` is homogeneous when the values are equal, or at least ε apart and scaled up, or less than ε apart
and scaled down -/
theorem cache_roughly_equal_homogeneous (hk : 0 < k) (x y : Rat)
    (hside : x = y ∨ ((Num.eps : Rat) ≤ Num.abs (x - y) ∧ 1 ≤ k) ∨ (Num.abs (x - y) < (Num.eps : Rat) ∧ k ≤ 1)) :
    CacheModel.isRoughlyEqual (scale k (AvailableSpace.definite x)) (scale k (AvailableSpace.definite y)) =
      CacheModel.isRoughlyEqual (AvailableSpace.definite x) (AvailableSpace.definite y) :=
  isRoughlyEqual_scale hk x y hside

/-- and not otherwise (witness: 0 and 2⁻²⁴, k = 4) -/
theorem cache_roughly_equal_not_homogeneous :
    CacheModel.isRoughlyEqual (scale 4 (AvailableSpace.definite (0 : Rat)))
        (scale 4 (AvailableSpace.definite (1 / 16777216 : Rat))) ≠
      CacheModel.isRoughlyEqual (AvailableSpace.definite (0 : Rat)) (AvailableSpace.definite (1 / 16777216 : Rat)) :=
  isRoughlyEqual_not_homogeneous

/-! ### 4. tree level -/

/-- **tree_homogeneous**: for the cache-free evaluator, every dispatch table `sel`, every fuel, tree, state of stored
layouts and input: if the algorithms are homogeneous (`AlgsHomogeneous algs k`: the leaf algorithm commutes with scaling
of input, style and measure function; each container algorithm's program for the scaled container is the scaled
program), then evaluating the scaled tree with the scaled input from the scaled state yields the scaled output and the
scaled state (every stored unrounded layout of every node scaled). -/
theorem tree_homogeneous (hk : 0 < k) (sel : Display → Bool → Option Gen.Facts.Callee) (algs : Algs Rat)
    (h : AlgsHomogeneous algs k) (fuel : Nat) (t : STree Rat) (ns : NS Rat Unit) (inp : LayoutInput Rat) :
    evalNodeWith noCache sel algs fuel (scale k t) (scale k ns) (scale k inp) =
      (scale k (evalNodeWith noCache sel algs fuel t ns inp).1, scale k (evalNodeWith noCache sel algs fuel t ns inp).2) :=
  evalNodeWith_scale hk sel algs h fuel t ns inp

/-- from a freshly built tree (the fresh state of the scaled tree is the scaled fresh state) -/
theorem tree_homogeneous_fresh (hk : 0 < k) (sel : Display → Bool → Option Gen.Facts.Callee) (algs : Algs Rat)
    (h : AlgsHomogeneous algs k) (fuel : Nat) (t : STree Rat) (inp : LayoutInput Rat) :
    evalNodeWith noCache sel algs fuel (scale k t) (NS.init noCache (scale k t)) (scale k inp) =
      scale k (evalNodeWith noCache sel algs fuel t (NS.init noCache t) inp) := by
  rw [init_scale]
  exact evalNodeWith_scale hk sel algs h fuel t _ inp

/-- the real dispatch (`TaffyView::compute_child_layout`, arms extracted from the source) -/
theorem tree_homogeneous_evalNode (hk : 0 < k) (algs : Algs Rat) (h : AlgsHomogeneous algs k) (fuel : Nat)
    (t : STree Rat) (ns : NS Rat Unit) (inp : LayoutInput Rat) :
    evalNode noCache algs fuel (scale k t) (scale k ns) (scale k inp) = scale k (evalNode noCache algs fuel t ns inp) :=
  evalNodeWith_scale hk _ algs h fuel t ns inp

/-- the leaf algorithm as the evaluator uses it: the panic outcome (hidden run mode, unreachable through the dispatch)
is mapped to `LayoutOutput::HIDDEN` -/
def leafAlg (inp : LayoutInput Rat) (style : Style Rat) (m : Size (Option Rat) → Size (AvailableSpace Rat) → Size Rat) :
    LayoutOutput Rat :=
  match LeafModel.computeLeafLayout inp style m with
  | .ok (out, _) => out
  | .error _ => LayoutOutput.hidden

/-- the modelled algorithms: leaf and block are the models; flex and grid are parameters -/
def concreteAlgs (flex grid : Style Rat → List (Style Rat) → LayoutInput Rat → ProgM Rat (LayoutOutput Rat)) : Algs Rat :=
  { leaf := leafAlg, block := BlockModel.computeBlockLayout, flex := flex, grid := grid }

theorem leafAlg_homogeneous (hk : 0 < k) (inp : LayoutInput Rat) (style : Style Rat)
    (m : Size (Option Rat) → Size (AvailableSpace Rat) → Size Rat) :
    leafAlg (scale k inp) (scale k style) (scaleMeasure k m) = scale k (leafAlg inp style m) := by
  unfold leafAlg
  rw [leaf_homogeneous hk]
  cases LeafModel.computeLeafLayout inp style m with
  | error e => simp only [scale_traced_error, scale_lo_hidden]
  | ok r => obtain ⟨o, c⟩ := r; rfl

/-- **algs_homogeneous_concrete**: `AlgsHomogeneous` holds for the modelled leaf and block algorithms; homogeneity of
the flex and grid container algorithms (not modelled as whole programs) stays a hypothesis -/
theorem algs_homogeneous_concrete (hk : 0 < k)
    (flex grid : Style Rat → List (Style Rat) → LayoutInput Rat → ProgM Rat (LayoutOutput Rat))
    (hflex : ∀ style styles inp, flex (scale k style) (styles.map (scale k)) (scale k inp) = scaleProg k (flex style styles inp))
    (hgrid : ∀ style styles inp, grid (scale k style) (styles.map (scale k)) (scale k inp) = scaleProg k (grid style styles inp)) :
    AlgsHomogeneous (concreteAlgs flex grid) k :=
  { leaf := leafAlg_homogeneous hk, block := block_homogeneous hk, flex := hflex, grid := hgrid }

/-- **tree_homogeneous_concrete**: the tree-level theorem for the modelled leaf and block algorithms -/
theorem tree_homogeneous_concrete (hk : 0 < k)
    (flex grid : Style Rat → List (Style Rat) → LayoutInput Rat → ProgM Rat (LayoutOutput Rat))
    (hflex : ∀ style styles inp, flex (scale k style) (styles.map (scale k)) (scale k inp) = scaleProg k (flex style styles inp))
    (hgrid : ∀ style styles inp, grid (scale k style) (styles.map (scale k)) (scale k inp) = scaleProg k (grid style styles inp))
    (fuel : Nat) (t : STree Rat) (inp : LayoutInput Rat) :
    evalNode noCache (concreteAlgs flex grid) fuel (scale k t) (NS.init noCache (scale k t)) (scale k inp) =
      scale k (evalNode noCache (concreteAlgs flex grid) fuel t (NS.init noCache t) inp) := by
  rw [init_scale]
  exact tree_homogeneous_evalNode hk _ (algs_homogeneous_concrete hk flex grid hflex hgrid) fuel t _ inp

/-! ### 5. non-vacuity: concrete styles, inputs and factors (k = 2 and k = 1/4) -/

section examples

def exStyle : Style Rat :=
  { (Style.default : Style Rat) with
    display := .block, size := ⟨.length 100, .auto⟩, minSize := ⟨.auto, .length 12⟩,
    padding := ⟨.length 4, .length 4, .percent (1/10), .length 2⟩,
    border := ⟨.length 1, .length 1, .length 1, .length 1⟩,
    margin := ⟨.length 5, .auto, .length 3, .length 3⟩, aspectRatio := some 2 }

def exInput : LayoutInput Rat :=
  { runMode := .performLayout, sizingMode := .inherentSize, axis := .both, knownDimensions := ⟨none, none⟩,
    parentSize := ⟨some 200, none⟩, availableSpace := ⟨.definite 200, .maxContent⟩,
    verticalMarginsAreCollapsible := ⟨false, false⟩ }

def exCtx : Option (MeasureSpec Rat) := some (.wrap 120 10)

/-- scaling touches lengths only: the percentage padding and the aspect ratio stay -/
example : (scale 2 exStyle).size = ⟨.length 200, .auto⟩ ∧
    (scale 2 exStyle).padding = ⟨.length 8, .length 8, .percent (1/10), .length 4⟩ ∧
    (scale 2 exStyle).aspectRatio = some 2 ∧ (scale 2 exCtx) = some (.wrap 240 20) := by decide +kernel

def outSizes (r : LeafModel.Traced Rat (LayoutOutput Rat)) : Option (Size Rat × Size Rat) :=
  match r with
  | .ok (o, _) => some (o.size, o.contentSize)
  | .error _ => none

/-- `leaf_homogeneous` at k = 2 and k = 1/4, and what the two sides evaluate to (text wraps onto two lines) -/
example : LeafModel.computeLeafLayout (scale 2 exInput) (scale 2 exStyle) (measureOf (scale 2 exCtx)) =
    scale 2 (LeafModel.computeLeafLayout exInput exStyle (measureOf exCtx)) :=
  leaf_homogeneous_ctx (by norm_num) exInput exStyle exCtx
example : LeafModel.computeLeafLayout (scale (1/4) exInput) (scale (1/4) exStyle) (measureOf (scale (1/4) exCtx)) =
    scale (1/4) (LeafModel.computeLeafLayout exInput exStyle (measureOf exCtx)) :=
  leaf_homogeneous_ctx (by norm_num) exInput exStyle exCtx
example : outSizes (LeafModel.computeLeafLayout exInput exStyle (measureOf exCtx)) = some (⟨100, 50⟩, ⟨98, 42⟩) := by
  decide +kernel
example : outSizes (LeafModel.computeLeafLayout (scale 2 exInput) (scale 2 exStyle) (measureOf (scale 2 exCtx))) =
    some (⟨200, 100⟩, ⟨196, 84⟩) := by decide +kernel

/-- `root_homogeneous` -/
example : RootModel.rootKnownDimensions exStyle ⟨.definite 200, .maxContent⟩ = ⟨some 100, some 50⟩ ∧
    RootModel.rootKnownDimensions (scale 2 exStyle) (scale 2 ⟨.definite 200, .maxContent⟩) = ⟨some 200, some 100⟩ := by
  decide +kernel

/-- a tree: block root (160 wide, padding 2) with an in-flow text child, an absolutely positioned child with a
percentage inset and a percentage width, and an in-flow fixed-content child; all three container algorithms are the
block model, so `AlgsHomogeneous` holds outright -/
def exAlgs : Algs Rat := concreteAlgs BlockModel.computeBlockLayout BlockModel.computeBlockLayout

theorem exAlgs_homogeneous (hk : 0 < k) : AlgsHomogeneous exAlgs k :=
  algs_homogeneous_concrete hk _ _ (block_homogeneous hk) (block_homogeneous hk)

def exKidA : Style Rat :=
  { (Style.default : Style Rat) with display := .block, margin := ⟨.length 0, .length 0, .length 6, .length 8⟩ }
def exKidB : Style Rat :=
  { (Style.default : Style Rat) with
    display := .block, position := .absolute, inset := ⟨.length 3, .auto, .percent (1/4), .auto⟩,
    size := ⟨.percent (1/2), .length 10⟩ }
def exRoot : Style Rat :=
  { (Style.default : Style Rat) with
    display := .block, size := ⟨.length 160, .auto⟩, padding := ⟨.length 2, .length 2, .length 2, .length 2⟩ }
def exTree : STree Rat :=
  .node exRoot none [.node exKidA exCtx [], .node exKidB none [], .node exKidA (some (.fixed 30 7)) []]

def kidLayouts (r : LayoutOutput Rat × NS Rat Unit) : Size Rat × List (Point Rat × Size Rat) :=
  (r.1.size, r.2.kids.map fun n => (n.layout.location, n.layout.size))

/-- `tree_homogeneous` for this tree at k = 2 -/
example : evalNode noCache exAlgs 3 (scale 2 exTree) (NS.init noCache (scale 2 exTree)) (scale 2 exInput) =
    scale 2 (evalNode noCache exAlgs 3 exTree (NS.init noCache exTree) exInput) := by
  rw [init_scale]
  exact tree_homogeneous_evalNode (by norm_num) exAlgs (exAlgs_homogeneous (by norm_num)) 3 exTree _ exInput

/-- and what the two evaluations are: every size and location doubles (resp. is divided by 4) -/
example : kidLayouts (evalNode noCache exAlgs 3 exTree (NS.init noCache exTree) exInput) =
    (⟨160, 43⟩, [(⟨2, 8⟩, ⟨156, 10⟩), (⟨3, 43/4⟩, ⟨80, 10⟩), (⟨2, 26⟩, ⟨156, 7⟩)]) := by decide +kernel
example : kidLayouts (evalNode noCache exAlgs 3 (scale 2 exTree) (NS.init noCache (scale 2 exTree)) (scale 2 exInput)) =
    (⟨320, 86⟩, [(⟨4, 16⟩, ⟨312, 20⟩), (⟨6, 43/2⟩, ⟨160, 20⟩), (⟨4, 52⟩, ⟨312, 14⟩)]) := by decide +kernel
example : kidLayouts (evalNode noCache exAlgs 3 (scale (1/4) exTree) (NS.init noCache (scale (1/4) exTree))
      (scale (1/4) exInput)) =
    (⟨40, 43/4⟩, [(⟨1/2, 2⟩, ⟨39, 5/2⟩), (⟨3/4, 43/16⟩, ⟨20, 5/2⟩), (⟨1/2, 13/2⟩, ⟨39, 7/4⟩)]) := by decide +kernel

/-- `block_homogeneous`, `abs_homogeneous`, `flex_line_homogeneous` instantiated -/
example : BlockModel.computeBlockLayout (scale 2 exRoot) ([exKidA, exKidB, exKidA].map (scale 2)) (scale 2 exInput) =
    scaleProg 2 (BlockModel.computeBlockLayout exRoot [exKidA, exKidB, exKidA] exInput) :=
  block_homogeneous (by norm_num) _ _ _

def exItem (basis grow : Rat) : FlexLine.FlexItemM Rat :=
  { flexBasis := basis, innerFlexBasis := basis, hypInner := basis, hypOuter := basis + 4, resolvedMinMain := 0,
    maxMain := some 90, flexGrow := grow, flexShrink := 1, marginStart := 2, marginEnd := 2, marginStartAuto := false,
    marginEndAuto := false, insetStart := none, insetEnd := none, frozen := false, violation := 0, targetMain := 0,
    outerTargetMain := 0, offsetMain := 0 }

/-- a growing line whose second item hits its max size (two freeze-loop iterations) -/
example : (FlexLine.resolveFlexibleLengths [exItem 20 1, exItem 60 3] (some 160) 10 5).map (·.map (·.targetMain)) =
      some [52, 90] ∧
    (FlexLine.resolveFlexibleLengths (scale 2 [exItem 20 1, exItem 60 3]) (scale 2 (some 160)) (scale 2 10) 5).map
        (·.map (·.targetMain)) = some [104, 180] := by decide +kernel

example : AbsPos.absBlock (scale 2 (AbsPos.blockCallSite exRoot ⟨160, 43⟩ 1)) (scale 2 exKidB)
      (scaleOracle 2 fun i => LayoutOutput.fromOuterSize ⟨i.knownDimensions.width.getD 0, 10⟩) =
    scale 2 (AbsPos.absBlock (AbsPos.blockCallSite exRoot ⟨160, 43⟩ 1) exKidB
      fun i => LayoutOutput.fromOuterSize ⟨i.knownDimensions.width.getD 0, 10⟩) :=
  (abs_homogeneous (by norm_num) exKidB _ _ default default).1

end examples

/-
  AUDIT LIST (checked with `#print axioms`; allowed: propext, Classical.choice, Quot.sound)

    C04.num_homogeneous
    C04.resolve_homogeneous
    C04.aspect_ratio_homogeneous
    C04.clamp_homogeneous
    C04.margin_set_homogeneous
    C04.measure_homogeneous
    C04.leaf_homogeneous
    C04.leaf_homogeneous_ctx
    C04.root_homogeneous
    C04.abs_homogeneous
    C04.abs_call_sites_homogeneous
    C04.flex_line_homogeneous
    C04.block_homogeneous
    C04.flow_loop_homogeneous
    C04.place_item_homogeneous
    C04.cache_roughly_equal_homogeneous
    C04.cache_roughly_equal_not_homogeneous
    C04.tree_homogeneous
    C04.tree_homogeneous_fresh
    C04.tree_homogeneous_evalNode
    C04.leafAlg_homogeneous
    C04.algs_homogeneous_concrete
    C04.tree_homogeneous_concrete
    C04.exAlgs_homogeneous

  Supporting lemma files: Lemmas/ScaleAttr.lean (simp set), ScaleBasic.lean, ScaleMath.lean (helpers: every `Resolve.*`,
  every `MaybeMath.*`, `Size`/`Rect`/`AvailableSpace` helpers), ScaleLeaf.lean, ScaleEval.lean, ScaleAbs.lean,
  ScaleFlexLine.lean, ScaleBlock.lean, ScaleCache.lean; definitions: Model/Scale.lean.
-/

end C04
