/-
  C14 — ONE simulation theorem between the slot-map model of `TaffyTree` and the reference forest.

  Implementation model : `Model/SlotMap.lean` + `Model/Tree.lean`   (`TreeModel.step : Tree → Op → Tree × Out`, 19 ops)
  Specification        : `Model/Forest.lean`                        (`ForestSpec.specStep : Forest → Id → Op → Forest × Out`:
                         a list of live ids and a child list per id; no slot maps, no versions; `parentOf` is derived)
  Abstraction          : `C14.abs t` = (live keys of `t.nodes` in slot order, `k ↦ children(k)`); as a relation
                         `Sim t f` ("`f` is `abs t` up to the order in which the live ids are listed" — `sim_iff_equiv_abs`;
                         the spec appends a new id to its list, the slot map reuses a freed slot, so the *order* of the live
                         list is the one thing in which `abs (step t op)` and `specStep (abs t) op` may differ).
  Precondition         : the decidable `ForestSpec.specPre` evaluated on the SPEC state (ids live; a node is attached by
                         add/insert/replace/new_with_children only while detached; set_children's argument duplicate-free;
                         remove_child names a child; remove_children_range in range) + `Cap`: the slot map is not full.
                         `specPre_iff_pre`: on related states this is exactly `C14.Pre`.
  Creating an id is nondeterministic in the spec (any id that is not live); the id the implementation chose is passed
  to `specStep` (`newIdOf`), and the theorems prove it *was* an admissible choice (not live; never live before).
  Histories are stacks, newest operation first, as in `Props/C14.lean`.
-/
import TaffyVerif.Lemmas.C14Sim
import TaffyVerif.Lemmas.C14Cap

namespace C14Sim
open SlotMapModel TreeModel ForestSpec

/-! ### 1. one step -/

/-- a spec step that answers an index error leaves the forest unchanged -/
theorem spec_err_unchanged (f : Forest) (newId : Id) (op : Op) (e : Err) (h : (specStep f newId op).2 = .err e) :
    (specStep f newId op).1 = f := by
  cases op <;> simp only [specStep] at h ⊢ <;> (try split at h) <;> simp_all

/-- on related states the spec-side precondition (+ capacity) is the implementation-side precondition of `Props/C14` -/
theorem specPre_iff_pre {t : Tree} {f : Forest} (inv : Inv t) (s : Sim t f) (op : Op) :
    (specPre f op = true ∧ Cap t op) ↔ C14.Pre t op :=
  ⟨fun h => pre_of_specPre inv s op h.1 h.2, specPre_of_pre inv s op⟩

/-- **`step_simulates`.** Let `t` satisfy the invariant and denote the forest `f`. For every one of the 19 operations that
    meets the precondition:
      * the implementation does not panic and its new state again satisfies the invariant;
      * the new state denotes the forest the specification prescribes (`Sim`);
      * both give the same answer — returned ids, unit, lists, counts, and `ChildIndexOutOfBounds` with the same payload
        (`get_node_context` excepted: node contexts are not part of the structural specification; its state part holds);
      * a created id is one the specification allows (not live);
      * an index error leaves both states unchanged. -/
theorem step_simulates {t : Tree} {f : Forest} (inv : Inv t) (s : Sim t f) (op : Op) (hpre : specPre f op = true)
    (cap : Cap t op) :
    Inv (step t op).1 ∧ (step t op).2 ≠ .panic ∧
    Sim (step t op).1 (specStep f (newIdOf (step t op).2) op).1 ∧
    ((∀ n, op ≠ .getNodeContext n) → (step t op).2 = (specStep f (newIdOf (step t op).2) op).2) ∧
    (creates op = true → (step t op).2 = .ok (.id (newIdOf (step t op).2)) ∧ newIdOf (step t op).2 ∉ f.live) ∧
    (∀ e, (step t op).2 = .err e → (step t op).1 = t ∧ (specStep f (newIdOf (step t op).2) op).1 = f) := by
  obtain ⟨h1, h2, h3⟩ := step_sim inv s op hpre cap
  obtain ⟨i1, i2⟩ := C14.step_inv inv op (pre_of_specPre inv s op hpre cap)
  refine ⟨i1, i2, h1, h2, h3, fun e he => ⟨err_unchanged t op e he, ?_⟩⟩
  apply spec_err_unchanged f _ op e
  rw [← h2 ?_]
  · exact he
  · intro n hn; subst hn; simp [step, getNodeContext] at he

/-- the same with the abstraction *function*: `abs (step t op)` is `specStep (abs t) op` up to the order of the live list -/
theorem step_simulates_abs {t : Tree} (inv : Inv t) (op : Op) (hpre : specPre (C14.abs t) op = true) (cap : Cap t op) :
    FEquiv (specStep (C14.abs t) (newIdOf (step t op).2) op).1 (C14.abs (step t op).1) ∧
    ((∀ n, op ≠ .getNodeContext n) → (step t op).2 = (specStep (C14.abs t) (newIdOf (step t op).2) op).2) :=
  let h := step_simulates inv (sim_abs t) op hpre cap
  ⟨sim_iff_equiv_abs.mp h.2.2.1, h.2.2.2.1⟩

/-- non-vacuity: slot reuse — the step where `abs` and the spec list the live ids in different orders -/
example :
    let t := runH [.remove ⟨1, 1⟩, .newLeaf, .newLeaf]
    specPre (C14.abs t) .newLeaf = true ∧ (step t .newLeaf).2 = .ok (.id ⟨1, 3⟩) ∧
    (C14.abs (step t .newLeaf).1).live = [⟨1, 3⟩, ⟨2, 1⟩] ∧
    (specStep (C14.abs t) ⟨1, 3⟩ .newLeaf).1.live = [⟨2, 1⟩, ⟨1, 3⟩] := by decide

/-! ### 2. histories -/

/-- the reference forest after a history, fed with the ids the implementation handed out -/
def specRunH : List Op → Forest
  | [] => Forest.empty
  | op :: h => (specStep (specRunH h) (newIdOf (step (runH h) op).2) op).1

/-- the answer the specification gives to the newest operation of a history -/
def specAnswer (h : List Op) (op : Op) : Out := (specStep (specRunH h) (newIdOf (step (runH h) op).2) op).2

/-- every operation met the spec's precondition in the SPEC state it was issued in (and the slot map was not full) -/
def SpecValid : List Op → Prop
  | [] => True
  | op :: h => SpecValid h ∧ specPre (specRunH h) op = true ∧ Cap (runH h) op

theorem sim_empty : Sim Tree.new Forest.empty := by
  refine ⟨List.nodup_nil, fun k => ?_, fun k => ?_⟩
  · have : Tree.new.nodes.get k = none := by
      simp only [Tree.new, SlotMap.new, SlotMap.get]
      cases hh : k.idx <;> simp
    simp [Forest.empty, Tree.live, this]
  · have : Tree.new.children.get k = none := by
      simp only [Tree.new, SlotMap.new, SlotMap.get]
      cases hh : k.idx <;> simp
    simp [Forest.empty, this]

/-- **`history_simulates`** (state part): after every finite history that respects the precondition, the tree satisfies
    the invariant and denotes exactly the forest the specification computes — by induction over the history. -/
theorem history_simulates : ∀ (h : List Op), SpecValid h → Inv (runH h) ∧ Sim (runH h) (specRunH h)
  | [], _ => ⟨inv_new, sim_empty⟩
  | op :: h, hv =>
    let ih := history_simulates h hv.1
    let st := step_simulates ih.1 ih.2 op hv.2.1 hv.2.2
    ⟨st.1, st.2.2.1⟩

/-- `SpecValid` is `C14.Valid`: the spec-side and the implementation-side reading of the precondition agree on histories -/
theorem specValid_iff_valid : ∀ (h : List Op), SpecValid h ↔ C14.Valid h
  | [] => Iff.rfl
  | op :: h => by
    simp only [SpecValid, C14.Valid, specValid_iff_valid h]
    constructor
    · intro hv
      obtain ⟨i, s⟩ := history_simulates h ((specValid_iff_valid h).mpr hv.1)
      exact ⟨hv.1, (specPre_iff_pre i s op).mp hv.2⟩
    · intro hv
      obtain ⟨i, s⟩ := history_simulates h ((specValid_iff_valid h).mpr hv.1)
      exact ⟨hv.1, (specPre_iff_pre i s op).mpr hv.2⟩

/-- non-vacuity: create, attach (`new_with_children`), remove (slot freed), create again (slot reused), insert, remove by
    index — a history on which `abs` and the spec order their live lists differently -/
def exH : List Op :=
  [.removeChildAtIndex ⟨3, 1⟩ 0, .insertChildAtIndex ⟨3, 1⟩ 0 ⟨2, 3⟩, .newLeaf, .remove ⟨2, 1⟩,
   .newWithChildren [⟨1, 1⟩], .newLeaf, .newLeaf]

example : SpecValid exH := (specValid_iff_valid exH).mpr (by
  simp only [exH, C14.Valid, C14.Pre, C14.Detached, Tree.live]
  decide)

example : (specRunH exH).live = [⟨1, 1⟩, ⟨3, 1⟩, ⟨2, 3⟩] ∧ (C14.abs (runH exH)).live = [⟨1, 1⟩, ⟨2, 3⟩, ⟨3, 1⟩] ∧
    (specRunH exH).kids ⟨3, 1⟩ = [⟨1, 1⟩] := by decide

/-- the precondition read on the spec side ONLY: every operation met `specPre` in the spec state it was issued in -/
def SpecValid0 : List Op → Prop
  | [] => True
  | op :: h => SpecValid0 h ∧ specPre (specRunH h) op = true

/-- the capacity side condition is implied by a bound on the length of the history: the slot vector gains at most one
    slot per operation (`C14Cap.slots_le_length`), so fewer than 2^32 − 2 operations never find the slot map full -/
theorem specValid_of_short : ∀ (h : List Op), h.length + 1 < u32Max → SpecValid0 h → SpecValid h
  | [], _, _ => trivial
  | op :: h, hlen, hv => by
    simp only [List.length_cons] at hlen
    refine ⟨specValid_of_short h (by omega) hv.1, hv.2, fun _ => ?_⟩
    have := C14Cap.slots_le_length h
    omega

/-- **`history_simulates`, spec-side hypotheses only**: for every history of fewer than 2^32 − 2 operations each of which
    meets the specification's precondition in the specification's state, the tree satisfies the invariant and denotes the
    specification's forest -/
theorem history_simulates_short (h : List Op) (hlen : h.length + 1 < u32Max) (hv : SpecValid0 h) :
    Inv (runH h) ∧ Sim (runH h) (specRunH h) :=
  history_simulates h (specValid_of_short h hlen hv)

example : SpecValid0 exH ∧ exH.length + 1 < u32Max := by
  simp only [SpecValid0, exH, u32Max]
  decide

/-- (answer part) every operation of a valid history is answered as the specification answers it, and never panics;
    a created id is new to the spec forest -/
theorem history_answers (h : List Op) (op : Op) (hv : SpecValid (op :: h)) :
    (step (runH h) op).2 ≠ .panic ∧
    ((∀ n, op ≠ .getNodeContext n) → (step (runH h) op).2 = specAnswer h op) ∧
    (creates op = true → newIdOf (step (runH h) op).2 ∉ (specRunH h).live) := by
  obtain ⟨i, s⟩ := history_simulates h hv.1
  have st := step_simulates i s op hv.2.1 hv.2.2
  exact ⟨st.2.1, st.2.2.2.1, fun hc => (st.2.2.2.2.1 hc).2⟩

/-- (observer part) after every valid history each observer — `children`, `parent`, `child_count`, `child_at_index`
    (every index, including the out-of-bounds error), `total_node_count` — returns what the specification returns on the
    forest `specRunH h` -/
theorem history_observers (h : List Op) (hv : SpecValid h) (p : Id) (hp : (specRunH h).isLive p = true) (i : Nat) :
    (step (runH h) (.children p)).2 = .ok (.ids ((specRunH h).kids p)) ∧
    (step (runH h) (.parent p)).2 = .ok (.optId ((specRunH h).parentOf p)) ∧
    (step (runH h) (.childCount p)).2 = .ok (.nat ((specRunH h).kids p).length) ∧
    (step (runH h) (.childAtIndex p i)).2 =
      (match ((specRunH h).kids p)[i]? with
       | some c => .ok (.id c)
       | none => .err (.childIndexOutOfBounds p i ((specRunH h).kids p).length)) ∧
    (step (runH h) .totalNodeCount).2 = .ok (.nat (specRunH h).live.length) := by
  obtain ⟨inv, s⟩ := history_simulates h hv
  have ob : ∀ op, specPre (specRunH h) op = true → creates op = false → (∀ n, op ≠ .getNodeContext n) →
      (step (runH h) op).2 = (specStep (specRunH h) (newIdOf (step (runH h) op).2) op).2 := by
    intro op h1 h2 h3
    exact (step_simulates inv s op h1 (fun hc => by rw [h2] at hc; cases hc)).2.2.2.1 h3
  refine ⟨?_, ?_, ?_, ?_, ?_⟩
  · rw [ob (.children p) hp rfl (by intro n hn; cases hn)]; rfl
  · rw [ob (.parent p) hp rfl (by intro n hn; cases hn)]; rfl
  · rw [ob (.childCount p) hp rfl (by intro n hn; cases hn)]; rfl
  · rw [ob (.childAtIndex p i) hp rfl (by intro n hn; cases hn)]
    simp only [specStep]
    cases ((specRunH h).kids p)[i]? <;> rfl
  · rw [ob .totalNodeCount rfl rfl (by intro n hn; cases hn)]; rfl

/-! ### 3. the reference forest is well formed, and the clauses of the property -/

/-- a well-formed forest: live ids listed once; only live nodes have or are children; no list mentions a node twice;
    no node is in two lists -/
structure WF (f : Forest) : Prop where
  nodup : f.live.Nodup
  kidsLive : ∀ p c, c ∈ f.kids p → p ∈ f.live ∧ c ∈ f.live
  kidsNodup : ∀ p, (f.kids p).Nodup
  unique : ∀ p q c, c ∈ f.kids p → c ∈ f.kids q → p = q

theorem wf_of_sim {t : Tree} {f : Forest} (inv : Inv t) (s : Sim t f) : WF f := by
  refine ⟨s.nodup, fun p c hc => ?_, fun p => ?_, fun p q c hp hq => ?_⟩
  · obtain ⟨l, hl, hcl⟩ := (s.mem_kids c p).mp hc
    exact ⟨(s.live p).mpr (inv.live_of_kids hl), (s.live c).mpr (inv.kidsLive p l c hl hcl)⟩
  · rw [s.kids]
    cases hl : t.children.get p with
    | none => exact List.nodup_nil
    | some l => exact inv.nodup p l hl
  · obtain ⟨l, hl, hcl⟩ := (s.mem_kids c p).mp hp
    obtain ⟨l', hl', hcl'⟩ := (s.mem_kids c q).mp hq
    exact inv.unique_parent hl hcl hl' hcl'

/-- the spec's `parentOf` on a well-formed forest: `some p` exactly for the members of `kids p` -/
theorem parentOf_eq_some_iff {f : Forest} (w : WF f) (c p : Id) : f.parentOf c = some p ↔ c ∈ f.kids p := by
  unfold Forest.parentOf
  constructor
  · intro h
    have := List.find?_some (p := fun p => decide (c ∈ f.kids p)) h
    exact of_decide_eq_true this
  · intro h
    apply find?_unique (w.kidsLive p c h).1 (decide_eq_true h)
    intro q _ hq
    exact w.unique q p c (of_decide_eq_true hq) h

/-- after every valid history the reference forest is well formed -/
theorem history_wf (h : List Op) (hv : SpecValid h) : WF (specRunH h) :=
  let hs := history_simulates h hv
  wf_of_sim hs.1 hs.2

/-- **each attached node appears exactly once, in exactly its parent's child list**, and the implementation's `parent` /
    `children` say so -/
theorem attached_exactly_once (h : List Op) (hv : SpecValid h) {p c : Id} (hc : c ∈ (specRunH h).kids p) :
    ((specRunH h).kids p).count c = 1 ∧ (∀ q, c ∈ (specRunH h).kids q → q = p) ∧
    (step (runH h) (.parent c)).2 = .ok (.optId (some p)) ∧
    (step (runH h) (.children p)).2 = .ok (.ids ((specRunH h).kids p)) := by
  have w := history_wf h hv
  obtain ⟨hpl, hcl⟩ := w.kidsLive p c hc
  have h3 := List.nodup_iff_count.mp (w.kidsNodup p) c
  have h4 := List.count_pos_iff.mpr hc
  refine ⟨by omega, fun q hq => w.unique q p c hq hc, ?_, ?_⟩
  · rw [(history_observers h hv c (by simp [Forest.isLive, hcl]) 0).2.1, (parentOf_eq_some_iff w c p).mpr hc]
  · exact (history_observers h hv p (by simp [Forest.isLive, hpl]) 0).1

/-- **in the requested position**: a valid `insert_child_at_index(p, i, c)` with `i ≤ len` puts `c` at index `i` of
    `p`'s list (the old list with `c` spliced in), `child_at_index(p, i)` answers `c`, `parent(c)` answers `p`, and no
    other list changes -/
theorem insert_position (h : List Op) {p c : Id} {i : Nat} (hv : SpecValid (.insertChildAtIndex p i c :: h))
    (hi : i ≤ ((specRunH h).kids p).length) :
    let h' := Op.insertChildAtIndex p i c :: h
    (specRunH h').kids p = ((specRunH h).kids p).take i ++ c :: ((specRunH h).kids p).drop i ∧
    (∀ q, q ≠ p → (specRunH h').kids q = (specRunH h).kids q) ∧
    (step (runH h') (.childAtIndex p i)).2 = .ok (.id c) ∧
    (step (runH h') (.parent c)).2 = .ok (.optId (some p)) := by
  intro h'
  have hi' : ¬ i > ((specRunH h).kids p).length := by omega
  have hk : ∀ q, (specRunH h').kids q =
      if q = p then ((specRunH h).kids p).take i ++ c :: ((specRunH h).kids p).drop i else (specRunH h).kids q := by
    intro q
    show (specStep (specRunH h) _ (.insertChildAtIndex p i c)).1.kids q = _
    simp only [specStep, hi', if_false, Forest.setKids]
  have hkp := hk p
  rw [if_pos rfl] at hkp
  have hidx : ((specRunH h').kids p)[i]? = some c := by
    rw [hkp, List.getElem?_append_right (by simp; omega)]
    simp [Nat.min_eq_left hi]
  have hcp : c ∈ (specRunH h').kids p := List.mem_of_getElem? hidx
  have hpl : (specRunH h').isLive p = true := by
    simp [Forest.isLive, ((history_wf h' hv).kidsLive p c hcp).1]
  refine ⟨hkp, fun q hq => by rw [hk q, if_neg hq], ?_, (attached_exactly_once h' hv hcp).2.2.1⟩
  rw [(history_observers h' hv p hpl i).2.2.2.1, hidx]

/-- `add_child` appends: the new child is the last one -/
theorem add_child_position (h : List Op) {p c : Id} (hv : SpecValid (.addChild p c :: h)) :
    let h' := Op.addChild p c :: h
    (specRunH h').kids p = (specRunH h).kids p ++ [c] ∧
    (step (runH h') (.childAtIndex p ((specRunH h).kids p).length)).2 = .ok (.id c) ∧
    (step (runH h') (.parent c)).2 = .ok (.optId (some p)) := by
  intro h'
  have hkp : (specRunH h').kids p = (specRunH h).kids p ++ [c] := by
    show (specStep (specRunH h) _ (.addChild p c)).1.kids p = _
    simp [specStep, Forest.setKids]
  have hcp : c ∈ (specRunH h').kids p := by rw [hkp]; simp
  have hpl : (specRunH h').isLive p = true := by
    simp [Forest.isLive, ((history_wf h' hv).kidsLive p c hcp).1]
  refine ⟨hkp, ?_, (attached_exactly_once h' hv hcp).2.2.1⟩
  rw [(history_observers h' hv p hpl _).2.2.2.1, hkp]
  simp

/-- `set_children(p, cs)` installs exactly `cs` (in that order) and takes the new children out of every other list;
    `new_with_children(cs)` gives the new node exactly `cs` -/
theorem set_children_installs (h : List Op) {p : Id} {cs : List Id} (hv : SpecValid (.setChildren p cs :: h)) :
    let h' := Op.setChildren p cs :: h
    (step (runH h') (.children p)).2 = .ok (.ids cs) ∧
    (∀ q, q ≠ p → (specRunH h').kids q = ((specRunH h).kids q).filter (fun c => decide (c ∉ cs))) ∧
    (∀ c ∈ cs, (step (runH h') (.parent c)).2 = .ok (.optId (some p))) := by
  intro h'
  have hk : ∀ q, (specRunH h').kids q =
      if q = p then cs else ((specRunH h).kids q).filter (fun c => decide (c ∉ cs)) := by
    intro q
    show (specStep (specRunH h) _ (.setChildren p cs)).1.kids q = _
    simp only [specStep]
  have hkp := hk p
  rw [if_pos rfl] at hkp
  have hlive : (specRunH h').live = (specRunH h).live := by
    show (specStep (specRunH h) _ (.setChildren p cs)).1.live = _
    simp only [specStep]
  have hpl : (specRunH h').isLive p = true := by
    have := hv.2.1
    simp only [specPre, Bool.and_eq_true] at this
    simp only [Forest.isLive, hlive]; exact this.1.1
  refine ⟨?_, fun q hq => by rw [hk q, if_neg hq], fun c hc => ?_⟩
  · rw [(history_observers h' hv p hpl 0).1, hkp]
  · exact (attached_exactly_once h' hv (by rw [hkp]; exact hc)).2.2.1

/-- `replace_child_at_index(p, i, c)` puts `c` exactly where `old` was, answers `old`, and `old` becomes a root -/
theorem replace_child_position (h : List Op) {p c old : Id} {i : Nat} (hv : SpecValid (.replaceChildAtIndex p i c :: h))
    (hi : ((specRunH h).kids p)[i]? = some old) :
    let h' := Op.replaceChildAtIndex p i c :: h
    (step (runH h) (.replaceChildAtIndex p i c)).2 = .ok (.id old) ∧
    (specRunH h').kids p = ((specRunH h).kids p).take i ++ c :: ((specRunH h).kids p).drop (i + 1) ∧
    (step (runH h') (.childAtIndex p i)).2 = .ok (.id c) ∧
    (step (runH h') (.parent c)).2 = .ok (.optId (some p)) ∧
    (step (runH h') (.parent old)).2 = .ok (.optId none) := by
  intro h'
  have w := history_wf h hv.1
  have w' := history_wf h' hv
  have hk : ∀ q, (specRunH h').kids q =
      if q = p then ((specRunH h).kids p).take i ++ c :: ((specRunH h).kids p).drop (i + 1) else (specRunH h).kids q := by
    intro q
    show (specStep (specRunH h) _ (.replaceChildAtIndex p i c)).1.kids q = _
    simp only [specStep, hi, Forest.setKids]
  have hlive : (specRunH h').live = (specRunH h).live := by
    show (specStep (specRunH h) _ (.replaceChildAtIndex p i c)).1.live = _
    simp only [specStep, hi, Forest.setKids]
  have hkp := hk p
  rw [if_pos rfl] at hkp
  have hlt : i < ((specRunH h).kids p).length := (List.getElem?_eq_some_iff.mp hi).1
  have hidx : ((specRunH h').kids p)[i]? = some c := by
    rw [hkp, List.getElem?_append_right (by simp; omega)]
    simp [Nat.min_eq_left (Nat.le_of_lt hlt)]
  have hcp : c ∈ (specRunH h').kids p := List.mem_of_getElem? hidx
  have hol : old ∈ (specRunH h).kids p := List.mem_of_getElem? hi
  obtain ⟨hpl, holl⟩ := w.kidsLive p old hol
  have hpl' : (specRunH h').isLive p = true := by simp [Forest.isLive, hlive, hpl]
  have hans := (history_answers h _ hv).2.1 (by intro m hm; cases hm)
  -- `c` was detached, so it is not `old`
  have hcnot : c ∉ (specRunH h).kids p := by
    have := hv.2.1
    simp only [specPre, Bool.and_eq_true, Forest.detached, List.all_eq_true, decide_eq_true_eq] at this
    exact this.2 p hpl
  have hne : old ≠ c := fun e => hcnot (e ▸ hol)
  have hnd := w.kidsNodup p
  rw [split_at hi] at hnd
  obtain ⟨_, hon⟩ := nodup_mid hnd
  have hnone : (specRunH h').parentOf old = none := by
    cases hpo : (specRunH h').parentOf old with
    | none => rfl
    | some q =>
      exfalso
      have hoq := (parentOf_eq_some_iff w' old q).mp hpo
      rw [hk q] at hoq
      split at hoq
      · simp only [List.mem_append, List.mem_cons] at hoq hon
        rcases hoq with h1 | h1 | h1
        · exact hon (Or.inl h1)
        · exact hne h1
        · exact hon (Or.inr h1)
      · rename_i hq; exact hq (w.unique q p old hoq hol)
  refine ⟨?_, hkp, ?_, (attached_exactly_once h' hv hcp).2.2.1, ?_⟩
  · rw [hans]; simp only [specAnswer, specStep, hi]
  · rw [(history_observers h' hv p hpl' i).2.2.2.1, hidx]
  · rw [(history_observers h' hv old (by simp [Forest.isLive, hlive, holl]) 0).2.1, hnone]

/-- `new_with_children(cs)` answers a fresh id whose child list is exactly `cs`, and every `c ∈ cs` has it as parent -/
theorem new_with_children_installs (h : List Op) {cs : List Id} (hv : SpecValid (.newWithChildren cs :: h)) :
    let h' := Op.newWithChildren cs :: h
    let k := newIdOf (step (runH h) (.newWithChildren cs)).2
    (step (runH h) (.newWithChildren cs)).2 = .ok (.id k) ∧ k ∉ (specRunH h).live ∧
    (step (runH h') (.children k)).2 = .ok (.ids cs) ∧
    (∀ c ∈ cs, (step (runH h') (.parent c)).2 = .ok (.optId (some k))) := by
  intro h' k
  obtain ⟨i, s⟩ := history_simulates h hv.1
  obtain ⟨hout, hfresh⟩ := (step_simulates i s _ hv.2.1 hv.2.2).2.2.2.2.1 rfl
  have hkk : (specRunH h').kids k = cs := by
    show (specStep (specRunH h) k (.newWithChildren cs)).1.kids k = _
    simp only [specStep, if_true]
  have hkl : (specRunH h').isLive k = true := by
    have : (specRunH h').live = (specRunH h).live ++ [k] := by
      show (specStep (specRunH h) k (.newWithChildren cs)).1.live = _
      simp only [specStep]
    simp [Forest.isLive, this]
  refine ⟨hout, hfresh, ?_, fun c hc => ?_⟩
  · rw [(history_observers h' hv k hkl 0).1, hkk]
  · exact (attached_exactly_once h' hv (by rw [hkk]; exact hc)).2.2.1

/-- **removed nodes are gone, and the children of a removed node become roots**: after a valid `remove(n)` the id is not
    live, is in no child list, has no children; every other former child of `n` is live with `parent = None`; all other
    nodes stay live -/
theorem remove_effect (h : List Op) {n : Id} (hv : SpecValid (.remove n :: h)) :
    let h' := Op.remove n :: h
    (step (runH h) (.remove n)).2 = .ok (.id n) ∧
    n ∉ (specRunH h').live ∧ ¬ (runH h').live n ∧ (∀ q, n ∉ (specRunH h').kids q) ∧ (specRunH h').kids n = [] ∧
    (∀ k, k ≠ n → (k ∈ (specRunH h').live ↔ k ∈ (specRunH h).live)) ∧
    (∀ c, c ∈ (specRunH h).kids n → c ≠ n →
      (specRunH h').parentOf c = none ∧ (step (runH h') (.parent c)).2 = .ok (.optId none)) := by
  intro h'
  have hlive : (specRunH h').live = (specRunH h).live.filter (fun q => q ≠ n) := by
    show (specStep (specRunH h) _ (.remove n)).1.live = _
    simp only [specStep]
  have hk : ∀ q, (specRunH h').kids q = if q = n then [] else ((specRunH h).kids q).filter (fun c => c ≠ n) := by
    intro q
    show (specStep (specRunH h) _ (.remove n)).1.kids q = _
    simp only [specStep]
  have hnl : n ∉ (specRunH h').live := by rw [hlive]; simp
  have hnk : ∀ q, n ∉ (specRunH h').kids q := by
    intro q; rw [hk q]; split <;> simp
  have hans := (history_answers h (.remove n) hv).2.1 (by intro m hm; cases hm)
  obtain ⟨_, s'⟩ := history_simulates h' hv
  refine ⟨by rw [hans]; rfl, hnl, fun hl => hnl ((s'.live n).mpr hl), hnk, by rw [hk n, if_pos rfl], fun k hkn => ?_,
    fun c hc hcn => ?_⟩
  · rw [hlive, List.mem_filter]; simp [hkn]
  · have w := history_wf h hv.1
    have w' := history_wf h' hv
    have hcl : c ∈ (specRunH h').live := by
      rw [hlive, List.mem_filter]; exact ⟨(w.kidsLive n c hc).2, by simpa using hcn⟩
    have hnone : (specRunH h').parentOf c = none := by
      cases hpo : (specRunH h').parentOf c with
      | none => rfl
      | some q =>
        exfalso
        have hcq := (parentOf_eq_some_iff w' c q).mp hpo
        rw [hk q] at hcq
        split at hcq
        · cases hcq
        · rename_i hqn
          exact hqn (w.unique q n c (List.mem_filter.mp hcq).1 hc)
    exact ⟨hnone, by rw [(history_observers h' hv c (by simp [Forest.isLive, hcl]) 0).2.1, hnone]⟩

/-- **the id of a removed node is never produced again** (version bump): in any continuation of the history — valid or
    not — shorter than 2^32 − 1 operations (no slot's 32-bit version counter can have wrapped), no creating operation
    answers an id that was live at an earlier point; in particular not the id `n` that a `remove(n)` took away -/
theorem removed_id_never_reissued (h rest : List Op) (op : Op) {n : Id} (hn : (runH h).live n)
    (hlen : (op :: (rest ++ .remove n :: h)).length < u32Max)
    (hc : creates op = true) : (step (runH (rest ++ .remove n :: h)) op).2 ≠ .ok (.id n) := by
  intro hk
  have hcr : op = .newLeaf ∨ (∃ x, op = .newLeafWithContext x) ∨ ∃ cs, op = .newWithChildren cs := by
    cases op <;> simp [creates] at hc
    · exact Or.inl rfl
    · exact Or.inr (Or.inl ⟨_, rfl⟩)
    · exact Or.inr (Or.inr ⟨_, rfl⟩)
  refine C14.created_id_never_seen_before _ op hlen n hk hcr h ?_ hn
  exact ⟨rest ++ [.remove n], by simp⟩

example : (runH [.newLeaf, .newLeaf]).live ⟨1, 1⟩ ∧
    (step (runH ([.newLeaf] ++ .remove ⟨1, 1⟩ :: [.newLeaf, .newLeaf])) .newLeaf).2 = .ok (.id ⟨3, 1⟩) := by
  simp only [Tree.live]; decide

end C14Sim
