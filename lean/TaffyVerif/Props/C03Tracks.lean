/-
  C03 (grid-track part) — termination of `find_size_of_fr`'s loop and guarded partial operations of grid track
  initialisation / sizing.  Numbers are exact rationals.
-/
import TaffyVerif.Lemmas.GridTracksInit
import TaffyVerif.Lemmas.FrSize
import TaffyVerif.Model.Alignment
import TaffyVerif.Lemmas.Distribute

namespace C03Tracks
open GridTracks

/-- **fr_loop_terminates.** For flexible tracks with non-negative factors and base sizes, `find_size_of_fr`'s `loop`
leaves through `break` after at most `#tracks + 1` iterations: with any fuel ≥ `#tracks + 1` the model's loop returns
the same value `F`, and `F` passed the validity test against the value `P` of the iteration before (fuel is never
exhausted; the pipeline uses `#tracks + 2`).  Reason: the iterates decrease (`fr_iterates_decrease`), so every restart
strictly enlarges the set of flexible tracks known to be inflexible.  In exact arithmetic this does not even need the
code's `space_to_fill == 0` guard. -/
theorem fr_loop_terminates (tracks : List (GridTrack Rat)) (hw : ∀ t ∈ tracks, FrWF t) (space : Rat) :
    ∃ P F, FrExit tracks space P F ∧
      ∀ fuel, tracks.length + 1 ≤ fuel → findSizeOfFrLoop fuel tracks space none = some F := by
  obtain ⟨P, F, _, hexit, hall⟩ := findSizeOfFrLoop_exits tracks hw space (tracks.length + 1) none trivial
    (by have := frMeasure_le tracks none; omega)
  exact ⟨P, F, hexit, fun fuel hf => hall fuel (by have := frMeasure_le tracks none; omega)⟩

/-- the hypothetical fr sizes computed by successive iterations never increase -/
theorem fr_iterates_decrease (tracks : List (GridTrack Rat)) (hw : ∀ t ∈ tracks, FrWF t) (space : Rat)
    (P : Option Rat) (h : FrInv tracks space P) :
    frStep tracks space (some (frStep tracks space P)) ≤ frStep tracks space P :=
  frStep_mono tracks hw space P h

/-- each restart strictly shrinks the set of flexible tracks not yet known to be inflexible -/
theorem fr_restart_progress (tracks : List (GridTrack Rat)) (hw : ∀ t ∈ tracks, FrWF t) (space : Rat)
    (P : Option Rat) (h : FrInv tracks space P)
    (hbad : frIsValid tracks (some (frStep tracks space P)) P = false) :
    frMeasure tracks (some (frStep tracks space P)) < frMeasure tracks P :=
  frMeasure_decreases tracks hw space P h hbad

/-- non-vacuity: `1fr 1fr 1fr` with base sizes 60, 0, 30 in 100 restarts twice (3 iterations ≤ 3 + 1) -/
example :
    let mk := fun (b : Rat) => ({ GridTrack.new (α := Rat) ⟨.auto, .fr 1⟩ with baseSize := b } : GridTrack Rat)
    findSizeOfFrLoop 2 [mk 60, mk 0, mk 30] 100 none = some 20 ∧
    frIsValid [mk 60, mk 0, mk 30] (some 20) (some (100 / 3)) = false ∧
    findSizeOfFrLoop 3 [mk 60, mk 0, mk 30] 100 none = some 10 ∧
    findSizeOfFr [mk 60, mk 0, mk 30] 100 = 10 := by
  decide +kernel

/-- the division that computes the fr size is guarded: the divisor `max(flex factor sum, 1)` is at least 1 -/
theorem fr_divisor_positive (tracks : List (GridTrack Rat)) (hyp : Option Rat) :
    1 ≤ max (frFlexSum hyp tracks) 1 := le_max_right _ _

/-- **auto_repeat_zero_size_total** (was the finding `c03-auto-repeat-zero-size-overflow`, fixed by f9d2661).
`repeat(auto-fill, [0px])`, gap 0, in a definite 100px container: the repetition size is floored at 1px, so
100 / 1 = 100 further repetitions fit and the explicit grid has 101 tracks — no division by zero, no overflow. -/
theorem auto_repeat_zero_size_total :
    computeExplicitGridSizeInAxis (α := Rat) (.length 100) .auto (.length 0)
      [.rep .autoFill [⟨.length 0, .length 0⟩]] (some 100) = .ok 101 := by
  decide +kernel

/-- the divisor of the repetition count is at least 1 (`f32_max(per_repetition_used_space, 1.0)`) -/
theorem auto_repeat_divisor_positive (x : Rat) : 0 < (if Num.fgt x 0 then x else (1 : Rat)) := by
  by_cases h : Num.fgt x 0 = true
  · rw [if_pos h]
    simpa [Num.fgt, Num.flt] using h
  · rw [if_neg h]; decide

/-- with a positive repetition size the same template is fine: 100 / 20 = 5 repetitions -/
example : computeExplicitGridSizeInAxis (α := Rat) (.length 100) .auto (.length 0)
    [.rep .autoFill [⟨.length 20, .length 20⟩]] (some 100) = .ok 5 := by
  decide +kernel

/-- `initialize_grid_tracks` never fails when it is called with the explicit count that
`compute_explicit_grid_size_in_axis` returned and the three counts fit a u16 (restated from C09) -/
theorem initialize_total {α : Type} [Num α] [NumCast α] (size maxSize : Dimension α) (gap : LP α)
    (tpl : List (TrackDef α)) (inner : Option α) (n : Nat) (hs : SmallReps tpl) (hlen : tpl.length < 65536)
    (hc : computeExplicitGridSizeInAxis size maxSize gap tpl inner = .ok n)
    (neg pos : Nat) (hsum : neg + n + pos ≤ 65535) (autoTracks : List (TrackFn α)) (has : Nat → Bool) :
    ∃ ts, initializeGridTracks ⟨neg, n, pos⟩ tpl autoTracks gap has = .ok ts := by
  have hshape := computeExplicit_shape size maxSize gap tpl inner n hs hlen hc
  unfold initializeGridTracks
  have hov : ¬ ((decide (neg + n > u16Max) || decide (neg + n + pos > u16Max)) = true) := by
    simp [u16Max]; omega
  simp only [hov, if_false]
  by_cases hpos : n > 0
  · simp only [hpos, if_true]
    rcases hshape with h0 | ⟨hz, hm, hcase⟩
    · omega
    · unfold autoRepeatedTrackCount
      by_cases hany : tpl.any TrackDef.isAutoRepetition = true
      · simp only [hany, if_true, hm]
        rcases hcase with ⟨hnone, _⟩ | ⟨_, hle⟩
        · exfalso
          rw [List.any_eq_true] at hany
          obtain ⟨d, hd, hd'⟩ := hany
          have : d ∈ tpl.filter TrackDef.isAutoRepetition := List.mem_filter.mpr ⟨hd, hd'⟩
          rw [hnone] at this; cases this
        · have hlt : ¬ (n < nonAutoCount tpl) := by omega
          simp only [hlt, if_false]
          exact ⟨_, rfl⟩
      · simp only [hany, Bool.false_eq_true, if_false]
        exact ⟨_, rfl⟩
  · simp only [hpos, if_false]
    exact ⟨_, rfl⟩

/-- **no division by zero in `compute_alignment_offset` as `align_tracks` calls it**: after `apply_alignment_fallback`
the distributed modes that divide by `num_items − 1` or `num_items` only survive with at least two tracks (and
`space-evenly` divides by `num_items + 1`). -/
theorem alignment_divisors_positive (free : Rat) (n : Nat) (mode : AlignContent) (safe : Bool) :
    (applyAlignmentFallback free n mode safe = .spaceBetween → 1 ≤ n - 1) ∧
    (applyAlignmentFallback free n mode safe = .spaceAround → 1 ≤ n) := by
  unfold applyAlignmentFallback
  by_cases h : (decide (n ≤ 1) || Num.fle free 0) = true
  · simp only [h, if_true]
    cases mode <;> simp <;> split <;> simp
  · simp only [h]
    have hn : ¬ n ≤ 1 := by
      intro hn; apply h; simp [hn]
    have hf : Num.fle free 0 = false := by
      cases hc : Num.fle free 0
      · rfl
      · exfalso; apply h; simp [hc]
    simp only [hf, Bool.false_and, Bool.false_eq_true, if_false]
    constructor <;> intro _ <;> omega

/-- **distribute_progress.** One iteration of `distribute_space_up_to_limits` (closures that do not read
`item_incurred_increase`, non-negative proportions, non-negative increases so far, space above the THRESHOLD, a non-zero
proportion sum): either the space is used up (≤ 0, the loop exits at its next test) or the arg-min track reaches its
limit and leaves the set of growable tracks with a positive share for good. -/
theorem distribute_progress (p : DistParams) (hp : p.WF) (space : Rat) (tracks : List (GridTrack Rat))
    (hinc : IncNonneg tracks) (hs : 1 / 100 < space) (hsum : propSumOf p tracks ≠ 0) (m : Ext Rat)
    (hm : minLimitOf p tracks = some m) :
    space - (tracks.map (takenOne p (m.minF (space / propSumOf p tracks)))).sum ≤ 0 ∨
      distMeasure p (tracks.map (applyOne p (m.minF (space / propSumOf p tracks)))) < distMeasure p tracks :=
  dist_progress p hp space tracks hinc hs hsum m hm

/-- **distribute_terminates.** Hence the loop runs at most `#tracks + 1` times: with any fuel ≥ `#tracks + 1` the
model returns what it returns with `#tracks + 1` (the pipeline gives `2·#tracks + 8`), i.e. fuel is never exhausted and
the `unwrap()` of the arg-min is only reached with a non-empty iterator. -/
theorem distribute_terminates (p : DistParams) (hp : p.WF) (space : Rat) (tracks : List (GridTrack Rat))
    (hinc : IncNonneg tracks) (fuel : Nat) (hf : tracks.length + 1 ≤ fuel) :
    distributeSpaceUpToLimits fuel space tracks p.isAffected p.proportion p.affectedProp p.limit =
      distributeSpaceUpToLimits (tracks.length + 1) space tracks p.isAffected p.proportion p.affectedProp p.limit := by
  have hm := distMeasure_le p tracks
  exact dist_fuel_irrelevant p hp fuel space tracks (tracks.length + 1) hinc (by omega) (by omega)

/-- the closures `maximise_tracks` passes satisfy the hypotheses (so do the `|_| 1.0` calls of item distribution; the
flex-factor variant needs non-negative flex factors) -/
theorem maximise_params_wf (inner : Option Rat) :
    DistParams.WF ⟨fun _ => true, fun _ => 1, (·.baseSize), fun t => t.fitContentLimitedGrowthLimit inner⟩ :=
  { aff := fun _ _ => rfl, prop := fun _ _ => rfl, ap := fun _ _ => rfl, lim := fun _ _ => rfl,
    propNonneg := fun _ => by norm_num }

/-- non-vacuity: two growable tracks and a fixed one, free space 30: two iterations -/
example :
    let mk := fun (b g : Rat) => ({ GridTrack.new (α := Rat) ⟨.auto, .auto⟩ with baseSize := b, growthLimit := .fin g } : GridTrack Rat)
    (distributeSpaceUpToLimits 4 30 [mk 0 5, mk 0 100, mk 10 10] (fun _ => true) (fun _ => 1) (·.baseSize)
      (fun t => t.growthLimit)).1 = 0 ∧
    ((distributeSpaceUpToLimits 4 30 [mk 0 5, mk 0 100, mk 10 10] (fun _ => true) (fun _ => 1) (·.baseSize)
      (fun t => t.growthLimit)).2.map (·.itemIncurredIncrease)) = [5, 25, 0] := by
  decide +kernel

end C03Tracks
