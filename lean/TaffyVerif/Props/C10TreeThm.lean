/-
  C10, tree level — THE THEOREM: for every tree of the family, the layouts the model computes satisfy the independent
  specification Spec/MarginCollapse.lean (CSS 2.1 §8.3.1).

  Objects.
    * model: `BlockModel.computeBlockLayout` (Model/Block.lean = src/compute/block.rs), `EvalConcrete.leafAlg`
      (Model/Leaf.lean = leaf.rs), composed by the tree-level evaluator `Eval.evalNode` (Model/Eval.lean) with NO cache
      (`Eval.noCache`) and `TaffyTree`'s extracted dispatch, started by `RootModel.rootInput` / `rootLayout`
      (Model/Root.lean = `compute_root_layout`) on a freshly built tree: `rootPass`, `rootLayouts`.
    * specification: `MarginCollapse.TreeOK` on the tree `build` (the conversion of Drv/C10Tree.lean, restated over the
      number type in Lemmas/C10TreeConv.lean and instantiated at `Rat`) makes of the style tree and the preorder layouts.
    * family: `C10Thm.InFamily` (Lemmas/C10TreeFamily.lean) = the driver's family check (`boxOf` succeeds at every node:
      border-box, overflow visible, no aspect ratio, no table, `inset: auto` on relative boxes, `max-*: none`,
      `min-width: auto`, margins / padding / borders px, `width` / `height` / `min-height` auto or px, content a fixed-size
      measure function on childless boxes only; exclusions (A), (B)), RESTRICTED to
        (i)  `display: block` or `display: none` at every node (the root included: the flex / grid wrappers of the
             placements `in-flex` / `in-grid` need the flexbox / grid models and are not covered), and
        (ii) `nonNegOk`: vertical padding, vertical border widths, `height`, `min-height` and the content height ≥ 0
             — which CSS requires and the driver does not check; without it the statement is FALSE
             (`negative_padding_witness`, replayed on the real `TaffyTree`).
      `inFamilyCore` is the part of it the proofs use: (A) and (B) are not needed.

  Layers.
    A. one container against an arbitrary (stateless) oracle for its children, no evaluator:
       `block_output_meets_spec`, `block_positions_meet_spec`.
    B + C. whole trees, cache-free evaluator, root under ANY available space (placements `root-def`, `root-maxc`,
       `root-minc`): `block_subtree_meets_spec`, `block_trees_meet_margin_spec_core`, `block_trees_meet_margin_spec`.

  Proof files: Lemmas/C10TreeConv, C10TreeFamily, C10TreeStyle, C10TreeWalk, C10TreeFlow, C10TreeBlock, C10TreeLeaf,
  C10TreeOut, C10TreeRun, C10TreeEval, C10TreePure.
-/
import TaffyVerif.Lemmas.C10TreePure
import TaffyVerif.Model.Root

set_option linter.unusedSectionVars false

namespace C10Thm
open MarginCollapse BlockModel C10Tree C10Conv EvalMemo EvalBlock Eval

/-! ## Layer A — one block container, children = any stateless oracle -/

/-- **block_output_meets_spec.**  A block container of the family that is itself an in-flow child (`kidInFlow`), run in
`PerformLayout` mode with the input an in-flow child gets (`InFlowIn`: inherent sizing, collapsible vertical margins,
known height = `height` clamped by `min-height`), against ANY oracle for its children: if every in-flow child's answer to
such an input says about the child's subtree what the specification says (`Meets`: collapse-through flag =
`collapsesThrough`, margin sets ∪ own margin = `toSet (topSet …)` / `toSet (bottomSet …)`, height 0 when collapsed
through), then the container's output says the same about the container's subtree. -/
theorem block_output_meets_spec (orc : Orc) (s : Style Rat) (ctx : Option (MeasureSpec Rat)) (kids : List (STree Rat))
    (inp : LayoutInput Rat) (hfam : inFamilyCore (.node s ctx kids) = true) (hkids : kids ≠ [])
    (hflow : kidInFlow (.node s ctx kids) = true) (hin : InFlowIn s inp)
    (hch : ∀ i t, kids[i]? = some t → kidInFlow t = true → ∀ cin, InFlowIn t.style cin →
      Meets (styleTree t) (orc i cin)) :
    Meets (styleTree (.node s ctx kids)) (runPure orc (computeBlockLayout s (kids.map STree.style) inp)).1 := by
  obtain ⟨hp, hn, hd, _, hc, hk⟩ := node_facts s ctx kids hfam
  obtain ⟨hvis, hrel⟩ := kidInFlow_elim _ hflow
  rw [runPure_fst]
  refine block_output_meets orc s ctx kids inp hp hn (notHidden_block s hd hvis) hrel (hc hkids) hk hin ?_
  apply kidsMeet_of
  intro j t hj hf cin hcin
  rw [Nat.zero_add]
  exact hch j t hj hf cin hcin

/-- **block_positions_meet_spec.**  A block container of the family that generates a box, run in `PerformLayout` mode
(any sizing mode, any known dimensions, any available space) against ANY oracle whose answers for the in-flow children
meet the specification and honour a known width: let `Ts` be the children's specification trees, each in-flow child's own
box carrying the FIRST layout the run set for it (`Lay (firstSet …)`), and give the container any layout `l` of the width
the run reports.  Then the specification's `flow` finds no violated clause among the children — `first-child`,
`sibling-gap`, `through-pos`, `through-height`, `stretch` — the container's own top margin taking part (`!bfc`) exactly
when the input makes its vertical margins collapsible and it is `position: relative`. -/
theorem block_positions_meet_spec (orc : Orc) (s : Style Rat) (ctx : Option (MeasureSpec Rat)) (kids : List (STree Rat))
    (inp : LayoutInput Rat) (bfc : Bool) (l : Layout Rat) (n : Nat) (Ts : List Tree)
    (hfam : inFamilyCore (.node s ctx kids) = true) (hvis : (s.display == Display.none) = false)
    (hm : inp.runMode = .performLayout)
    (hvmc : (inp.verticalMarginsAreCollapsible.start && (s.position == Position.relative)) = !bfc)
    (hch : ∀ i t, kids[i]? = some t → kidInFlow t = true → ∀ cin, InFlowIn t.style cin →
      Meets (styleTree t) (orc i cin))
    (hwd : ∀ i t, kids[i]? = some t → kidInFlow t = true → ∀ cin kw, cin.runMode = .performLayout →
      cin.knownDimensions.width = some kw → (orc i cin).size.width = max kw (pbW t.style))
    (hl : l.size.width = (runPure orc (computeBlockLayout s (kids.map STree.style) inp)).1.size.width)
    (hTs : Lay (firstSet (runPure orc (computeBlockLayout s (kids.map STree.style) inp)).2) 0 kids Ts) :
    flow (sbox s ctx l) (!bfc && (sbox s ctx l).topOpen) false ((sbox s ctx l).borderTop + (sbox s ctx l).paddingTop) []
      n Ts = [] := by
  obtain ⟨hp, _, hd, _, _, hk⟩ := node_facts s ctx kids hfam
  obtain ⟨tail, hsets, _⟩ := runPure_block_sets orc s (kids.map STree.style) inp hm
  refine container_flow orc s ctx kids inp bfc l n _ Ts hp (notHidden_block s hd hvis) hk hvmc ?_ ?_ ?_ hTs ?_
  · apply kidsMeet_of
    intro j t hj hf cin hcin
    rw [Nat.zero_add]; exact hch j t hj hf cin hcin
  · apply kidsWide_of
    intro j t hj hf cin kw hcm hkw
    rw [Nat.zero_add]; exact hwd j t hj hf cin kw hcm hkw
  · rw [hl, runPure_fst]
    obtain ⟨w, acs, hwW, _, _, heq⟩ := interp_block_PL orc s (kids.map STree.style) inp hm
    rw [heq, ← hwW]
    rfl
  · intro i l' hmem
    rw [hsets]
    exact walk_first _ _ orc _ 0 0 _ tail i l' hmem

/-! ## Layers B and C — whole trees, the cache-free evaluator -/

section
variable (flex grid : Style Rat → List (Style Rat) → LayoutInput Rat → ProgM Rat (LayoutOutput Rat))

/-- **block_subtree_meets_spec** (the induction over the tree).  `compute_child_layout` of the cache-free evaluator on a
box `t` of the family that generates a box, with any `PerformLayout` input, from ANY state `ns` of the right shape
(whatever was laid out before): afterwards the layouts stored in `t`'s subtree, together with any layout `l` of the
reported width for `t` itself, violate no clause of the specification — `t`'s own margins collapsing with its children's
(`bfc = false`) exactly when the input makes them collapsible and `t` is `position: relative`.  (`flex`, `grid`: the
evaluator's flexbox / grid parameters, never run on a tree of the family.) -/
theorem block_subtree_meets_spec (fuel : Nat) (t : STree Rat) (ns : NS Rat Unit) (inp : LayoutInput Rat) (bfc : Bool)
    (l : Layout Rat) (n : Nat) (hfam : inFamilyCore t = true) (hfuel : STree.depth t ≤ fuel) (hs : Shape t ns)
    (hvis : (t.style.display == Display.none) = false) (hm : inp.runMode = .performLayout)
    (hvmc : (inp.verticalMarginsAreCollapsible.start && (t.style.position == Position.relative)) = !bfc)
    (hl : l.size.width = (evalNode noCache (EvalConcrete.algs flex grid) fuel t ns inp).1.size.width) :
    violations bfc n (specOf t l (evalNode noCache (EvalConcrete.algs flex grid) fuel t ns inp).2) = [] := by
  refine evalOK flex grid fuel t ns inp bfc l n hfam hfuel hs hvis hm hvmc ?_
  rw [hl]
  exact congrArg (fun o => o.size.width) (ev_facts flex grid fuel t ns inp hfuel hs).1

/-- **oracle_hypotheses_hold_for_evaluator** (non-vacuity of Layer A, and the step that feeds it in Layer B): the children
of a node of the family, answered by the cache-free evaluator (`EvalMemo.ansOf` = `outFresh` of the child), are an oracle
satisfying both hypotheses `hch`, `hwd` of `block_output_meets_spec` / `block_positions_meet_spec` -/
theorem oracle_hypotheses_hold_for_evaluator (fuel : Nat) (kids : List (STree Rat))
    (hk : inFamilyCoreKids kids = true) (hd : STree.depthList kids ≤ fuel) :
    (∀ i t, kids[i]? = some t → kidInFlow t = true → ∀ cin, InFlowIn t.style cin →
      Meets (styleTree t) (ansOf sel (EvalConcrete.algs flex grid) fuel kids i cin)) ∧
    (∀ i t, kids[i]? = some t → kidInFlow t = true → ∀ cin kw, cin.runMode = .performLayout →
      cin.knownDimensions.width = some kw →
      (ansOf sel (EvalConcrete.algs flex grid) fuel kids i cin).size.width = max kw (pbW t.style)) := by
  constructor
  · intro i t hi hf cin hcin
    simp only [ansOf, hi]
    have hdt := depth_le_of_getElem kids i t hi
    exact out_meets flex grid fuel t cin (inFamilyCoreKids_get kids i t hk hi) (by omega) hf hcin
  · intro i t hi hf cin kw hm hkw
    simp only [ansOf, hi]
    have hdt := depth_le_of_getElem kids i t hi
    have h1 : 1 ≤ STree.depth t := by cases t; simp [STree.depth]
    obtain ⟨f', hf'⟩ : ∃ f', fuel = f' + 1 := ⟨fuel - 1, by omega⟩
    rw [hf']
    exact (out_wide flex grid f' t cin (inFamilyCoreKids_get kids i t hk hi) (kidInFlow_elim t hf).1 hm).1 kw hkw

/-- the layouts of a whole pass: `compute_root_layout` over a freshly built tree with the cache-free evaluator (the
`layoutRoot` of Drv/EVAL.lean, at `Rat`, with `Eval.noCache`) — output of the root, and the state tree holding every
other node's layout -/
def rootPass (t : STree Rat) (av : Size (AvailableSpace Rat)) (fuel : Nat) : LayoutOutput Rat × NS Rat Unit :=
  evalNode noCache (EvalConcrete.algs flex grid) fuel t (NS.init noCache t) (RootModel.rootInput t.style av)

/-- … as the preorder list of all nodes' layouts the harness prints (`all_layouts`): the root's layout is the one
`compute_root_layout` writes -/
def rootLayouts (t : STree Rat) (av : Size (AvailableSpace Rat)) (fuel : Nat) : List (Layout Rat) :=
  RootModel.rootLayout t.style av (rootPass flex grid t av fuel).1 :: preorderList (rootPass flex grid t av fuel).2.kids

omit flex grid in
theorem shape_init (t : STree Rat) : Shape t (NS.init (noCache (α := Rat)) t) :=
  Valid_shape _ sel (EvalConcrete.algs EvalConcrete.idle EvalConcrete.idle) t _
    (Valid_init sel (EvalConcrete.algs EvalConcrete.idle EvalConcrete.idle) noCache noCache_sound t)

/-- **block_trees_meet_margin_spec_core.**  The whole-tree statement without the detour through the preorder list, and
without the exclusions (A), (B): for every tree with `inFamilyCore`, every available space and enough fuel, the
specification tree of the style tree zipped with the layouts of the pass satisfies `TreeOK`. -/
theorem block_trees_meet_margin_spec_core (t : STree Rat) (av : Size (AvailableSpace Rat)) (fuel : Nat)
    (hfam : inFamilyCore t = true) (hfuel : STree.depth t ≤ fuel) :
    TreeOK (specOf t (RootModel.rootLayout t.style av (rootPass flex grid t av fuel).1)
      (rootPass flex grid t av fuel).2) := by
  unfold TreeOK
  by_cases hvis : (t.style.display == Display.none) = true
  · apply violations_hidden
    rw [specOf_box]; exact hvis
  · have hvis' : (t.style.display == Display.none) = false := by simpa using hvis
    exact block_subtree_meets_spec flex grid fuel t _ (RootModel.rootInput t.style av) true _ 0 hfam hfuel
      (shape_init t) hvis' rfl rfl rfl

/-- **block_trees_meet_margin_spec — C10 on whole trees.**  For every tree of the family laid out as a root under ANY
available space (definite, max-content or min-content in either axis — the placements `root-def`, `root-maxc`,
`root-minc` of harness/src/c10tree.rs) by `compute_root_layout` over a freshly built tree with the cache-free evaluator:
the driver's conversion (`build` of Drv/C10Tree.lean, at `Rat`) accepts the style tree with the preorder layouts of the
pass — all of them consumed — and the specification tree it returns violates no clause of Spec/MarginCollapse.lean. -/
theorem block_trees_meet_margin_spec (t : STree Rat) (av : Size (AvailableSpace Rat)) (fuel : Nat)
    (h : InFamily t) (hfuel : STree.depth t ≤ fuel) :
    ∃ T, build toQ true t (rootLayouts flex grid t av fuel) = .ok (T, []) ∧ TreeOK T := by
  have hs := (ev_facts flex grid fuel t _ (RootModel.rootInput t.style av) hfuel (shape_init t)).2
  refine ⟨specOf t (RootModel.rootLayout t.style av (rootPass flex grid t av fuel).1) (rootPass flex grid t av fuel).2,
    ?_, block_trees_meet_margin_spec_core flex grid t av fuel (inFamily_core t h) hfuel⟩
  have := build_specOf true t (RootModel.rootLayout t.style av (rootPass flex grid t av fuel).1)
    (rootPass flex grid t av fuel).2 [] h hs
  rw [List.append_nil] at this
  exact this

end

/-! ## non-vacuity, and the boundary of the family -/

def exBlock : Style Rat := { (Style.default : Style Rat) with display := .block }
def exLeaf (mt mb w h : Rat) : STree Rat :=
  .node { exBlock with margin := ⟨.length 0, .length 0, .length mt, .length mb⟩ } (some (.fixed w h)) []

/-- the tree of `C10Tree.tree2` with an absolutely positioned and a `display:none` child added: container 100 wide
{ `a` (mb 10), `middle` = block (mt −5) { `p` (20 / 10), an absolutely positioned box, `e` = empty box (2.5 / −20),
`q` (5 / −8) }, a `display:none` box, `z` (mt −5) } -/
def exTree : STree Rat :=
  .node { exBlock with size := ⟨.length 100, .auto⟩ } none [
    exLeaf 0 10 20 10,
    .node { exBlock with margin := ⟨.length 0, .length 0, .length (-5), .length 0⟩ } none [
      exLeaf 20 10 100 10,
      .node { exBlock with position := .absolute, inset := ⟨.length 5, .auto, .length 5, .auto⟩ } none [exLeaf 3 3 10 10],
      .node { exBlock with margin := ⟨.length 0, .length 0, .length (5/2), .length (-20)⟩ } none [],
      exLeaf 5 (-8) 40 10 ],
    .node { exBlock with display := .none } none [exLeaf 1 1 10 10],
    exLeaf (-5) 0 20 10 ]

/-- the hypotheses of the theorem are satisfiable: `exTree` is in the family (depth 4) -/
theorem exTree_inFamily : InFamily exTree ∧ STree.depth exTree ≤ 4 := by decide +kernel

/-- … and the positions the theorem speaks about are the CSS ones of `C10Tree.tree2Good`: `middle` at 25, `p` flush with
`middle`, `e` at 20, `q` at 0, `z` at 27 (evaluated, under max-content) -/
theorem exTree_layouts :
    ((rootLayouts EvalConcrete.idle EvalConcrete.idle exTree ⟨.maxContent, .maxContent⟩ 4).map
      fun l => (l.location.y, l.size.height)) =
    [(0, 37), (0, 10), (25, 10), (0, 10), (5, 16), (3, 10), (20, 0), (0, 10), (0, 0), (0, 0), (27, 10)] := by
  decide +kernel

/-- **negative_padding_witness — why `nonNegOk` is part of the family.**  Container 100 wide { `A` = empty box with margins
10 / 20 and `padding-top: −5`, `B` = 10 × 10 box with `margin-top: 5` }.  The driver's family check accepts the tree
(`build` succeeds); block.rs / leaf.rs test `padding.top > 0.0`, so `A` is collapsed through and `B` ends up at
`y = collapsed {10, 20, 5} = 20`; the specification (any non-zero padding separates the margins) wants `B` at
`10 + 0 + collapsed {20, 5} = 30` and reports `sibling-gap` at node 2.  Replayed on the real `TaffyTree`
(/tmp/w_c10thm/scratch/negpad): A y = 10, h = 0; B y = 20 — the model is right about the code.  Negative padding is
invalid CSS ("Negative values for padding properties are illegal", CSS 2.1 §8.4), so this is not a defect of taffy; it is
the reason the family needs the sign conditions. -/
def negPad : STree Rat :=
  .node { exBlock with size := ⟨.length 100, .auto⟩ } none [
    .node { exBlock with margin := ⟨.length 0, .length 0, .length 10, .length 20⟩,
                         padding := ⟨.length 0, .length 0, .length (-5), .length 0⟩ } none [],
    exLeaf 5 0 10 10 ]

theorem negative_padding_witness :
    ((build toQ true negPad (rootLayouts EvalConcrete.idle EvalConcrete.idle negPad ⟨.maxContent, .maxContent⟩ 2)).toOption.map
      fun r => violations true 0 r.1) = some [(Clause.siblingGap, 2)] ∧
    inFamily negPad = false := by
  decide +kernel

end C10Thm

/-
  Obligations to audit (`#print axioms`; all depend on [propext, Classical.choice, Quot.sound] at most):
    "C10Thm.block_output_meets_spec", "C10Thm.block_positions_meet_spec", "C10Thm.block_subtree_meets_spec",
    "C10Thm.block_trees_meet_margin_spec_core", "C10Thm.block_trees_meet_margin_spec",
    "C10Thm.oracle_hypotheses_hold_for_evaluator", "C10Thm.exTree_inFamily", "C10Thm.exTree_layouts", "C10Thm.negative_padding_witness",
    -- supporting lemmas worth auditing by name
    "C10Thm.build_specOf", "C10Thm.walk_final", "C10Thm.walk_flow", "C10Thm.block_output_meets", "C10Thm.leaf_meets",
    "C10Thm.out_meets", "C10Thm.out_wide", "C10Thm.run_block_PL", "C10Thm.evalOK", "C10Thm.container_flow",
    "C10Thm.runPure_block_sets"
-/
