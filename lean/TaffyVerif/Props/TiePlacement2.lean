/-
  Tie (tier T) for grid item placement, second part: the functions of src/compute/grid/types/cell_occupancy.rs and
  src/compute/grid/placement.rs that mutate the occupancy matrix (`expand_to_fit_range`, `mark_area_as`, `record_grid_placement`) and the
  two occupancy queries used by the track initialisation (`row_is_occupied`, `column_is_occupied`).

  The generated code expresses every `for` loop as `Occ.forM` over `rangeI`; the model of Model/GridPlacement.lean uses closed forms
  (`List.replicate`) and structural recursions (`copyRow`, `copyRows`, `markRow`, `markRows`).  The fold lemmas below relate the two.
-/
import TaffyVerif.Props.TiePlacement

namespace TiePlacement
open GridPlacement TieGrid

/-! ### monad laws of `Outcome` (no `LawfulMonad` instance in the model) -/

theorem bind_assoc' {α β γ : Type} (x : Outcome α) (f : α → Outcome β) (g : β → Outcome γ) :
    ((x >>= f) >>= g) = (x >>= fun a => f a >>= g) := by cases x <;> rfl

theorem pure_bind' {α β : Type} (a : α) (f : α → Outcome β) : ((pure a : Outcome α) >>= f) = f a := rfl

/-! ### fold lemmas: `Occ.forM` against the model's closed forms -/

/-- `for _ in l { data.push(c) }` -/
theorem forM_push {ι : Type} (c : Cell) (l : List ι) (data : List Cell) :
    Occ.forM l data (fun _ data => pure (data ++ [c])) = pure (data ++ List.replicate l.length c) := by
  induction l generalizing data with
  | nil => simp [Occ.forM]
  | cons x xs ih =>
    unfold Occ.forM
    rw [pure_bind', ih, List.length_cons, List.replicate_succ, List.append_assoc]
    rfl

theorem rangeI_length (s e : Int) : (rangeI s e).length = (e - s).toNat := by
  simp [rangeI]

theorem rangeI_zero (n : Int) : rangeI 0 n = (List.range n.toNat).map fun (i : Nat) => (i : Int) := by
  unfold rangeI
  simp only [Int.sub_zero, Int.zero_add]

/-- `for _ in 0..n { data.push(c) }` -/
theorem forM_push_range (c : Cell) (n : Int) (data : List Cell) :
    Occ.forM (rangeI 0 n) data (fun _ data => pure (data ++ [c])) = pure (data ++ List.replicate n.toNat c) := by
  rw [forM_push, rangeI_length, Int.sub_zero]

theorem unwrap_some {α : Type} (fn : String) (a : α) : Occ.unwrap fn (some a) = .ok a := rfl

theorem unwrap_none_expand :
    Occ.unwrap "expand_to_fit_range" (none : Option Cell)
      = .panic "called `Option::unwrap()` on a `None` value (expand_to_fit_range)" := by decide

/-- `for col in 0..old_col_count { data.push(*self.inner.get(row, col).unwrap()) }` on a list of column numbers -/
theorem forM_copyRow (g : Grid) (row : Nat) (f : Int → List Cell → Outcome (List Cell))
    (hf : ∀ (c : Nat) data, f (c : Int) data
      = (Occ.unwrap "expand_to_fit_range" (Grid.get g (row : Int) (c : Int)) >>= fun t => pure (data ++ [t]))) :
    ∀ (cols : List Nat) (data : List Cell),
      Occ.forM (cols.map fun (i : Nat) => (i : Int)) data f = (Matrix.copyRow g row cols >>= fun l => pure (data ++ l)) := by
  intro cols
  induction cols with
  | nil => intro data; simp [Occ.forM, Matrix.copyRow, pure_bind']
  | cons c cs ih =>
    intro data
    simp only [List.map_cons]
    unfold Occ.forM Matrix.copyRow
    rw [hf]
    cases hget : Grid.get g (row : Int) (c : Int) with
    | none => rw [unwrap_none_expand]; rfl
    | some v =>
      simp only [unwrap_some, ok_bind', pure_bind']
      rw [ih]
      cases Matrix.copyRow g row cs with
      | ok tl => simp only [ok_bind', pure_bind', List.append_assoc, List.singleton_append]
      | _ => rfl

/-- the "push existing rows" loop of `expand_to_fit_range` on a list of row numbers -/
theorem forM_copyRows (g : Grid) (oldCols : Nat) (negCols posCols : Int) (f : Int → List Cell → Outcome (List Cell))
    (hf : ∀ (r : Nat) data, f (r : Int) data = (Matrix.copyRow g r (List.range oldCols) >>= fun ex =>
      pure (data ++ List.replicate negCols.toNat Cell.unoccupied ++ ex ++ List.replicate posCols.toNat Cell.unoccupied))) :
    ∀ (rows : List Nat) (data : List Cell),
      Occ.forM (rows.map fun (i : Nat) => (i : Int)) data f
        = (Matrix.copyRows g oldCols negCols posCols rows >>= fun l => pure (data ++ l)) := by
  intro rows
  induction rows with
  | nil => intro data; simp [Occ.forM, Matrix.copyRows, pure_bind']
  | cons r rs ih =>
    intro data
    simp only [List.map_cons]
    unfold Occ.forM Matrix.copyRows
    rw [hf]
    cases Matrix.copyRow g r (List.range oldCols) with
    | ok existing =>
      simp only [ok_bind', pure_bind']
      rw [ih]
      cases Matrix.copyRows g oldCols negCols posCols rs with
      | ok tl => simp only [ok_bind', pure_bind', List.append_assoc]
      | _ => rfl
    | _ => rfl

/-- the body of the "push existing rows" loop, as generated, meets the hypothesis of `forM_copyRows` -/
theorem copy_row_body (g : Grid) (oldCols negCols posCols : Int) (r : Nat) (data : List Cell) :
    (Occ.forM (rangeI 0 negCols) data (fun _ data => pure (data ++ [Cell.unoccupied])) >>= fun data =>
      Occ.forM (rangeI 0 oldCols) data (fun col data =>
        Occ.unwrap "expand_to_fit_range" (Grid.get g (r : Int) col) >>= fun t => pure (data ++ [t])) >>= fun data =>
      Occ.forM (rangeI 0 posCols) data (fun _ data => pure (data ++ [Cell.unoccupied])))
    = (Matrix.copyRow g r (List.range oldCols.toNat) >>= fun ex =>
      pure (data ++ List.replicate negCols.toNat Cell.unoccupied ++ ex ++ List.replicate posCols.toNat Cell.unoccupied)) := by
  rw [forM_push_range, pure_bind', rangeI_zero oldCols, forM_copyRow g r _ (fun c data => rfl)]
  cases Matrix.copyRow g r (List.range oldCols.toNat) with
  | ok ex => simp only [ok_bind', pure_bind', forM_push_range]
  | _ => rfl

/-- inner `for y in col_range { *self.inner.get_mut(x, y).unwrap() = value }` of `mark_area_as` -/
theorem forM_markRow (x : Int) (v : Cell) (f : Int → Matrix → Outcome Matrix)
    (hf : ∀ y (m : Matrix), f y m = (Grid.set m.inner x y v >>= fun t => pure { m with inner := t })) :
    ∀ (ys : List Int) (m : Matrix),
      Occ.forM ys m f = (Matrix.markRow m.inner x v ys >>= fun g => pure { m with inner := g }) := by
  intro ys
  induction ys with
  | nil => intro m; cases m; simp [Occ.forM, Matrix.markRow, pure_bind']
  | cons y ys ih =>
    intro m
    unfold Occ.forM Matrix.markRow
    rw [hf]
    cases Grid.set m.inner x y v with
    | ok g' =>
      simp only [ok_bind', pure_bind']
      rw [ih]
    | _ => rfl

/-- the loop nest of `mark_area_as` -/
theorem forM_markRows (cols : List Int) (v : Cell) (f : Int → Matrix → Outcome Matrix)
    (hf : ∀ x (m : Matrix), f x m = (Matrix.markRow m.inner x v cols >>= fun g => pure { m with inner := g })) :
    ∀ (xs : List Int) (m : Matrix),
      Occ.forM xs m f = (Matrix.markRows m.inner cols v xs >>= fun g => pure { m with inner := g }) := by
  intro xs
  induction xs with
  | nil => intro m; cases m; simp [Occ.forM, Matrix.markRows, pure_bind']
  | cons x xs ih =>
    intro m
    unfold Occ.forM Matrix.markRows
    rw [hf]
    cases Matrix.markRow m.inner x v cols with
    | ok g' =>
      simp only [ok_bind', pure_bind']
      rw [ih]
    | _ => rfl

/-- the loop nest of `mark_area_as`, as generated -/
theorem mark_nest (m : Matrix) (cols xs : List Int) (v : Cell) :
    Occ.forM xs m (fun x self_ =>
        Occ.forM cols self_ (fun y self_ => Grid.set self_.inner x y v >>= fun t => pure { self_ with inner := t }))
      = (Matrix.markRows m.inner cols v xs >>= fun g => pure { m with inner := g }) := by
  apply forM_markRows
  intro x m
  exact forM_markRow x v _ (fun y m => rfl) cols m

/-! ### `expand_to_fit_range`, `mark_area_as` -/

theorem expand_to_fit_range_eq (m : Matrix) (rowRange colRange : Line Int) :
    Gen.Placement.CellOccupancyMatrix.expand_to_fit_range m rowRange colRange = m.expandToFitRange rowRange colRange := by
  unfold Gen.Placement.CellOccupancyMatrix.expand_to_fit_range Matrix.expandToFitRange
  simp only [track_counts_len_eq]
  cases hr : TrackCounts.len m.rows with
  | ok rl =>
    simp only [ok_bind']
    apply bind_congr'; intro rl16
    apply bind_congr'; intro dr
    cases hc : TrackCounts.len m.columns with
    | ok cl =>
      simp only [ok_bind']
      apply bind_congr'; intro cl16
      apply bind_congr'; intro dc
      apply bind_congr'; intro sr
      apply bind_congr'; intro sru
      apply bind_congr'; intro newRowCount
      apply bind_congr'; intro sc
      apply bind_congr'; intro scu
      apply bind_congr'; intro newColCount
      apply bind_congr'; intro _cap
      apply bind_congr'; intro nru
      apply bind_congr'; intro nneg
      rw [forM_push_range, pure_bind', rangeI_zero rl,
        forM_copyRows m.inner cl.toNat (min colRange.start 0) (max dc 0) _
          (fun r data => copy_row_body m.inner cl (min colRange.start 0) (max dc 0) r data)]
      cases Matrix.copyRows m.inner cl.toNat (min colRange.start 0) (max dc 0) (List.range rl.toNat) with
      | ok body =>
        simp only [ok_bind', pure_bind']
        apply bind_congr'; intro pru
        apply bind_congr'; intro npos
        rw [forM_push_range, pure_bind', List.nil_append]
        rfl
      | _ => rfl
    | _ => rfl
  | _ => rfl

/-- a 1 × 1 matrix grows by one positive row and one positive column; the old cell keeps its place -/
example : Gen.Placement.CellOccupancyMatrix.expand_to_fit_range ⟨⟨[.autoPlaced], 1, 1⟩, ⟨0, 1, 0⟩, ⟨0, 1, 0⟩⟩ ⟨0, 2⟩ ⟨0, 2⟩
    = .ok ⟨⟨[.autoPlaced, .unoccupied, .unoccupied, .unoccupied], 2, 2⟩, ⟨0, 1, 1⟩, ⟨0, 1, 1⟩⟩ := by decide

theorem mark_area_as_eq (m : Matrix) (ax : Axis) (p s : Line Int) (v : Cell) :
    Gen.Placement.CellOccupancyMatrix.mark_area_as m ax p s v = m.markAreaAs ax p s v := by
  unfold Gen.Placement.CellOccupancyMatrix.mark_area_as Matrix.markAreaAs
  simp only [oz_line_range_to_track_range_eq, is_area_in_range_eq, expand_to_fit_range_eq]
  cases ax <;>
    (simp only [rowOf, colOf]
     apply bind_congr'; intro colRange
     apply bind_congr'; intro rowRange
     apply bind_congr'; intro inRange
     apply bind_congr'; intro t
     obtain ⟨m', colRange', rowRange'⟩ := t
     dsimp only
     exact mark_nest m' _ _ v)

/-- marking an area that sticks out of a 1 × 1 matrix expands it first -/
example : Gen.Placement.CellOccupancyMatrix.mark_area_as ⟨⟨[.unoccupied], 1, 1⟩, ⟨0, 1, 0⟩, ⟨0, 1, 0⟩⟩ .horizontal ⟨1, 2⟩ ⟨0, 1⟩
    .definitelyPlaced = .ok ⟨⟨[.unoccupied, .definitelyPlaced], 1, 2⟩, ⟨0, 1, 1⟩, ⟨0, 1, 0⟩⟩ := by decide

/-! ### `row_is_occupied`, `column_is_occupied` (the argument is a `usize`: a natural number) -/

theorem not_unoccupied_eq (c : Cell) :
    (!(match c with | .unoccupied => true | _ => false)) = (c != Cell.unoccupied) := by
  cases c <;> rfl

theorem row_is_occupied_eq (m : Matrix) (i : Nat) :
    Gen.Placement.CellOccupancyMatrix.row_is_occupied m (i : Int) = .ok (GridModel.rowIsOccupied m i) := by
  unfold Gen.Placement.CellOccupancyMatrix.row_is_occupied GridModel.rowIsOccupied Occ.gridRows Grid.iterRow
  by_cases h : i ≥ m.inner.rows
  · have h' : (i : Int) ≥ (m.inner.rows : Int) := by omega
    simp only [h, h', if_true]; rfl
  · have h' : ¬ (i : Int) ≥ (m.inner.rows : Int) := by omega
    have h0 : (0 : Int) ≤ (i : Int) := by omega
    have h3 : i < m.inner.rows := by omega
    simp only [h, h', h0, h3, Int.toNat_natCast, and_self, if_false, if_true, ok_bind']
    show Outcome.ok _ = Outcome.ok _
    congr 1
    rw [List.any_map]
    congr 1
    funext c
    exact not_unoccupied_eq _

theorem column_is_occupied_eq (m : Matrix) (i : Nat) :
    Gen.Placement.CellOccupancyMatrix.column_is_occupied m (i : Int) = .ok (GridModel.columnIsOccupied m i) := by
  unfold Gen.Placement.CellOccupancyMatrix.column_is_occupied GridModel.columnIsOccupied Occ.gridCols Grid.iterCol
  by_cases h : i ≥ m.inner.cols
  · have h' : (i : Int) ≥ (m.inner.cols : Int) := by omega
    simp only [h, h', if_true]; rfl
  · have h' : ¬ (i : Int) ≥ (m.inner.cols : Int) := by omega
    have h0 : (0 : Int) ≤ (i : Int) := by omega
    have h3 : i < m.inner.cols := by omega
    simp only [h, h', h0, h3, Int.toNat_natCast, and_self, if_false, if_true, ok_bind']
    show Outcome.ok _ = Outcome.ok _
    congr 1
    rw [List.any_map]
    congr 1
    funext c
    exact not_unoccupied_eq _

example : Gen.Placement.CellOccupancyMatrix.row_is_occupied
    ⟨⟨[.unoccupied, .autoPlaced, .unoccupied, .unoccupied], 2, 2⟩, ⟨0, 2, 0⟩, ⟨0, 2, 0⟩⟩ 0 = .ok true := by decide

/-! ### `record_grid_placement`

The source pushes onto the end of `items` (a `Vec<GridItem>`); the model's `State.items` is newest first (`run` reverses at the end) and
carries the model-only flag `auto`.  The generated list is therefore the model's list reversed, with the flag erased. -/

/-- what a `GridItem` records of the model's `Item` -/
def toPlaced (it : Item) : Occ.PlacedItem := ⟨it.index, it.row, it.column⟩

/-- the generated `items` that corresponds to a model state -/
def placedOf (st : State) : List Occ.PlacedItem := st.items.reverse.map toPlaced

theorem u16_ok {x n : Int} (h : u16 x = .ok n) : n = x := by
  unfold u16 at h
  split at h
  · cases h; rfl
  · cases h

theorem record_grid_placement_eq (st : State) (index : Nat) (ax : Axis) (p s : Line Int) (kind : Cell) :
    Gen.Placement.record_grid_placement st.matrix (placedOf st) (index : Int) ax p s kind
      = (recordGridPlacement st index ax p s kind >>= fun st' => pure (st'.matrix, placedOf st')) := by
  unfold Gen.Placement.record_grid_placement recordGridPlacement
  simp only [mark_area_as_eq]
  cases st.matrix.markAreaAs ax p s kind with
  | ok matrix =>
    simp only [ok_bind']
    cases h : u16 (index : Int) with
    | ok t2 =>
      have := u16_ok h
      subst this
      cases ax <;>
        simp only [ok_bind', pure_bind', placedOf, toPlaced, rowOf, colOf, List.reverse_cons, List.map_append, List.map_cons,
          List.map_nil]
    | _ => cases ax <;> rfl
  | _ => rfl

example : Gen.Placement.record_grid_placement ⟨⟨[], 0, 0⟩, ⟨0, 0, 0⟩, ⟨0, 0, 0⟩⟩ [] 3 .horizontal ⟨0, 2⟩ ⟨0, 1⟩ .autoPlaced
    = .ok (⟨⟨[.autoPlaced, .autoPlaced], 1, 2⟩, ⟨0, 0, 2⟩, ⟨0, 0, 1⟩⟩, [⟨3, ⟨0, 1⟩, ⟨0, 2⟩⟩]) := by decide

/-! ### one iteration of each phase of `place_grid_items` (place, then record), in the relation `placedOf`

`place_grid_items` itself is not translated yet; these are the steps of its three `for_each` bodies, composed from generated functions only. -/

theorem phase1_step_eq (st : State) (c : OzChild) (ax : Axis) :
    (Gen.Placement.place_definite_grid_item ⟨c.horizontal, c.vertical⟩ ax >>= fun ps =>
        Gen.Placement.record_grid_placement st.matrix (placedOf st) (c.index : Int) ax ps.1 ps.2 .definitelyPlaced)
      = ((placeDefiniteGridItem c ax >>= fun ps => recordGridPlacement st c.index ax ps.1 ps.2 .definitelyPlaced)
          >>= fun st' => pure (st'.matrix, placedOf st')) := by
  rw [place_definite_grid_item_eq, bind_assoc']
  apply bind_congr'; intro ps
  exact record_grid_placement_eq st c.index ax ps.1 ps.2 _

theorem phase2_step_eq (fuel : Nat) (st : State) (c : OzChild) (flow : AutoFlow) :
    (Gen.Placement.place_definite_secondary_axis_item fuel st.matrix ⟨c.horizontal, c.vertical⟩ flow >>= fun ps =>
        Gen.Placement.record_grid_placement st.matrix (placedOf st) (c.index : Int) (Gen.Placement.GridAutoFlow.primary_axis flow)
          ps.1 ps.2 .autoPlaced)
      = ((placeDefiniteSecondaryAxisItem fuel st.matrix c flow >>= fun ps =>
            recordGridPlacement st c.index flow.primaryAxis ps.1 ps.2 .autoPlaced)
          >>= fun st' => pure (st'.matrix, placedOf st')) := by
  rw [place_definite_secondary_axis_item_eq, bind_assoc', primary_axis_eq]
  apply bind_congr'; intro ps
  exact record_grid_placement_eq st c.index _ ps.1 ps.2 _

theorem phase4_step_eq (fuel : Nat) (st : State) (c : OzChild) (flow : AutoFlow) (pos : Int × Int) :
    (Gen.Placement.place_indefinitely_positioned_item fuel st.matrix ⟨c.horizontal, c.vertical⟩ flow pos >>= fun ps =>
        Gen.Placement.record_grid_placement st.matrix (placedOf st) (c.index : Int) (Gen.Placement.GridAutoFlow.primary_axis flow)
          ps.1 ps.2 .autoPlaced)
      = ((placeIndefinitelyPositionedItem fuel st.matrix c flow pos >>= fun ps =>
            recordGridPlacement st c.index flow.primaryAxis ps.1 ps.2 .autoPlaced)
          >>= fun st' => pure (st'.matrix, placedOf st')) := by
  rw [place_indefinitely_positioned_item_eq, bind_assoc', primary_axis_eq]
  apply bind_congr'; intro ps
  exact record_grid_placement_eq st c.index _ ps.1 ps.2 _

/-! ### implicit_grid.rs: `get_known_child_positions`, `compute_grid_size_estimate`

`impl Iterator<Item = S>` is the list of the child styles it yields; `for_each` with captured `&mut` accumulators is a fold over the tuple
of the accumulators. -/

/-- the six accumulators as the generated code returns them -/
def knownTuple (k : KnownPositions) : Int × Int × Int × Int × Int × Int :=
  (k.colMin, k.colMax, k.colMaxSpan, k.rowMin, k.rowMax, k.rowMaxSpan)

theorem forM_known (ec er : Int) (f : Child → Int × Int × Int × Int × Int × Int → Outcome (Int × Int × Int × Int × Int × Int))
    (hf : ∀ c k, f c (knownTuple k) = (knownStep ec er k c >>= fun k' => pure (knownTuple k'))) :
    ∀ (cs : List Child) (k : KnownPositions),
      Occ.forM cs (knownTuple k) f = (knownFold ec er k cs >>= fun k' => pure (knownTuple k')) := by
  intro cs
  induction cs with
  | nil => intro k; rfl
  | cons c cs ih =>
    intro k
    unfold Occ.forM knownFold
    rw [hf]
    cases knownStep ec er k c with
    | ok k' =>
      simp only [ok_bind', pure_bind']
      exact ih k'
    | _ => rfl

theorem get_known_child_positions_eq (children : List Child) (ec er : Int) :
    Gen.Placement.get_known_child_positions children ec er
      = (getKnownChildPositions children ec er >>= fun k => pure (knownTuple k)) := by
  unfold Gen.Placement.get_known_child_positions getKnownChildPositions
  simp only [child_min_line_max_line_span_eq]
  have h0 : ((0, 0, 0, 0, 0, 0) : Int × Int × Int × Int × Int × Int) = knownTuple ⟨0, 0, 0, 0, 0, 0⟩ := rfl
  rw [h0, forM_known ec er _ _ children ⟨0, 0, 0, 0, 0, 0⟩]
  · cases knownFold ec er ⟨0, 0, 0, 0, 0, 0⟩ children <;> rfl
  · intro c k
    unfold knownStep
    cases childMinLineMaxLineSpan c.column ec with
    | ok a =>
      cases childMinLineMaxLineSpan c.row er with
      | ok b => rfl
      | _ => rfl
    | _ => rfl

example : Gen.Placement.get_known_child_positions [⟨⟨.line 2, .span 3⟩, ⟨.line (-1), .auto⟩⟩, ⟨⟨.auto, .auto⟩, ⟨.span 4, .auto⟩⟩] 2 2
    = .ok (0, 3, 4, 0, 4, 1) := by decide

/-- "ok or overflow": the outcome of a computation made of checked integer operations only -/
def OO {α : Type} (x : Outcome α) : Prop := (∃ a, x = .ok a) ∨ x = .overflow

theorem OO_pure {α : Type} (a : α) : OO (pure a : Outcome α) := Or.inl ⟨a, rfl⟩
theorem OO_u16 (x : Int) : OO (u16 x) := by unfold u16; split; exact Or.inl ⟨_, rfl⟩; exact Or.inr rfl
theorem OO_i16 (x : Int) : OO (i16 x) := by unfold i16; split; exact Or.inl ⟨_, rfl⟩; exact Or.inr rfl
theorem OO_bind {α β : Type} {x : Outcome α} {f : α → Outcome β} (hx : OO x) (hf : ∀ a, OO (f a)) : OO (x >>= f) := by
  rcases hx with ⟨a, rfl⟩ | rfl
  · exact hf a
  · exact Or.inr rfl

/-- two computations that can only overflow commute -/
theorem OO_swap {α β γ : Type} {x : Outcome α} {y : Outcome β} (hx : OO x) (hy : OO y) (f : α → β → Outcome γ) :
    (x >>= fun a => y >>= fun b => f a b) = (y >>= fun b => x >>= fun a => f a b) := by
  rcases hx with ⟨a, rfl⟩ | rfl <;> rcases hy with ⟨b, rfl⟩ | rfl <;> rfl

/-- `estimateAxis` after the two implied counts -/
def estRest (neg pos maxSpan explicit : Int) : Outcome TrackCounts := do
  let t0 ← u16 (neg + explicit)
  let tot ← u16 (t0 + pos)
  let pos' ← (if tot < maxSpan then do
      let a ← u16 (maxSpan - explicit)
      u16 (a - neg)
    else pure pos : Outcome Int)
  pure ⟨neg, explicit, pos'⟩

theorem estimateAxis_split (mn mx ms e : Int) :
    estimateAxis mn mx ms e = (impliedPositiveImplicitTracks mx e >>= fun pos => estRest (impliedNegativeImplicitTracks mn) pos ms e) := rfl

theorem OO_impliedPositive (l e : Int) : OO (impliedPositiveImplicitTracks l e) := by
  unfold impliedPositiveImplicitTracks
  apply OO_bind (OO_i16 _); intro e'
  split
  · exact OO_bind (OO_u16 _) (fun _ => OO_u16 _)
  · exact OO_pure _

theorem OO_estRest (neg pos ms e : Int) : OO (estRest neg pos ms e) := by
  unfold estRest
  apply OO_bind (OO_u16 _); intro t0
  apply OO_bind (OO_u16 _); intro tot
  apply OO_bind
  · split
    · exact OO_bind (OO_u16 _) (fun _ => OO_u16 _)
    · exact OO_pure _
  · intro _; exact OO_pure _

theorem compute_grid_size_estimate_eq (ec er : Int) (children : List Child) :
    Gen.Placement.compute_grid_size_estimate ec er children = computeGridSizeEstimate ec er children := by
  unfold Gen.Placement.compute_grid_size_estimate computeGridSizeEstimate
  simp only [get_known_child_positions_eq, implied_negative_eq, implied_positive_eq, from_raw_eq, estimateAxis_split, bind_assoc',
    pure_bind']
  cases getKnownChildPositions children ec er with
  | ok k =>
    simp only [ok_bind', knownTuple]
    apply bind_congr'; intro posI
    rw [OO_swap (OO_estRest _ posI _ _) (OO_impliedPositive k.rowMax er)]
    apply bind_congr'; intro posB
    unfold estRest
    simp only [bind_assoc', pure_bind', bind_pure']
  | _ => rfl

/-- two children in a 2 × 2 explicit grid: one spans rows 2‥5 (one implicit row), one spans 4 columns (two implicit columns) -/
example : Gen.Placement.compute_grid_size_estimate 2 2 [⟨⟨.line 2, .span 3⟩, ⟨.line (-1), .auto⟩⟩, ⟨⟨.auto, .auto⟩, ⟨.span 4, .auto⟩⟩]
    = .ok (⟨0, 2, 2⟩, ⟨0, 2, 2⟩) := by decide

/-- the first two steps of `GridPlacement.run` (what `compute_grid_layout` does before `place_grid_items`): size estimate, then the matrix -/
theorem estimate_then_matrix_eq (ec er : Int) (children : List Child) :
    (Gen.Placement.compute_grid_size_estimate ec er children >>= fun cr =>
        Gen.Placement.CellOccupancyMatrix.with_track_counts cr.1 cr.2)
      = (computeGridSizeEstimate ec er children >>= fun cr => Matrix.withTrackCounts cr.1 cr.2) := by
  rw [compute_grid_size_estimate_eq, with_track_counts_eq]

end TiePlacement
