/-
  Tie (tier T) for src/compute/common/content_size.rs: `compute_content_size_contribution`
  (used by the block, flex and grid programs for every child's contribution to the container's content size).

  `Gen.ContentSize.*` is regenerated from the Rust source on every run; the theorem states that the generated definition IS
  `BlockModel.contentSizeContribution` of Model/Block.lean — for every argument and every `[Num α]`.
  The enum `Overflow` of Model/Style.lean is compared with src/style/mod.rs by the extractor.
-/
import TaffyVerif.Generated.ContentSize
import TaffyVerif.Model.Block

namespace TieContent
variable {α : Type} [Num α]

theorem compute_content_size_contribution_eq :
    Gen.ContentSize.compute_content_size_contribution (α := α) = BlockModel.contentSizeContribution := by
  funext loc size cs ov
  obtain ⟨ox, oy⟩ := ov
  cases ox <;> cases oy <;> rfl

end TieContent
