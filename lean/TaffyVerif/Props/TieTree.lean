/-
  Tier T for `TaffyTree`'s structural methods (src/tree/taffy_tree.rs).

  `Generated/TreeOps.lean` is regenerated from the Rust source on every run: every statement of every structural method, in
  source order, as a statement of the monad `TreeModel.TreeM` (`Model/TreeInterp.lean`). This file proves, for every method,
      (generated method, run on a state) = (hand-written model function of `Model/Tree.lean`)
  for ALL states (no invariant is assumed: torn, non-well-formed slot maps included) and all arguments, panics and index errors
  included. So the theorems of C14 (and what C15 / C01 take from the structural model) are theorems about the translated
  source text, not only about a model compared with the code by testing.
  Also: the two independently extracted tables of `mark_dirty` calls agree (`dirty_table_consistent`).
-/
import TaffyVerif.Generated.TreeOps
import TaffyVerif.Generated.Facts
import TaffyVerif.Lemmas.SlotMap
import TaffyVerif.Props.C14

namespace TieTree
open TreeModel SlotMapModel

set_option linter.unusedSimpArgs false

/-! ### running the monad -/

theorem run_bind {α β : Type} (m : TreeM α) (f : α → TreeM β) (t : Tree) :
    (m >>= f) t = match m t with
      | (t', .ok a) => f a t'
      | (t', .err e) => (t', .err e)
      | (t', .panic) => (t', .panic) := rfl

theorem run_pure {α : Type} (a : α) (t : Tree) : (pure a : TreeM α) t = (t, .ok a) := rfl

theorem run_ite {α : Type} (c : Prop) [Decidable c] (a b : TreeM α) (t : Tree) :
    (if c then a else b) t = if c then a t else b t := by
  split <;> rfl

theorem ifLetSome_some {α β : Type} (x : β) (s : β → TreeM α) (n : TreeM α) : TreeM.ifLetSome (some x) s n = s x := rfl

theorem ifLetSome_none {α β : Type} (s : β → TreeM α) (n : TreeM α) : TreeM.ifLetSome none s n = n := rfl

theorem forEach_nil {β : Type} (f : β → TreeM Unit) (t : Tree) : TreeM.forEach [] f t = (t, .ok ()) := rfl

theorem forEach_cons {β : Type} (x : β) (rest : List β) (f : β → TreeM Unit) (t : Tree) :
    TreeM.forEach (x :: rest) f t = match f x t with
      | (t', .ok _) => TreeM.forEach rest f t'
      | (t', .err e) => (t', .err e)
      | (t', .panic) => (t', .panic) := by
  rw [TreeM.forEach, run_bind]
  generalize f x t = r
  obtain ⟨t1, r⟩ := r
  cases r <;> rfl

/-! ### slot-map facts about states (not only views) -/

theorem set_set {V : Type} (m : SlotMap V) (k : Key) (a b : V) : (m.set k a).set k b = m.set k b := by
  cases h : m.get k with
  | none => rw [set_of_get_none h, set_of_get_none h]
  | some v0 =>
    have h1 : (m.set k a).get k = some a := by rw [get_set]; simp [h]
    rw [set_of_get h1, set_of_get h a, set_of_get h b]
    simp

theorem get_set_self {V : Type} {m : SlotMap V} {k : Key} (h : (m.get k).isSome = true) (v : V) :
    (m.set k v).get k = some v := by
  rw [get_set]; simp [h]

/-! ### the loops -/

/-- `for child in cs { self.parents[child] = v }` is the model's `setParents` -/
theorem forEach_parentsAssign (v : Option Id) : ∀ (cs : List Id) (t : Tree),
    TreeM.forEach cs (fun child => TreeM.parentsAssign child v) t =
      (({ t with parents := (setParents t.parents v cs).1 } : Tree),
        if (setParents t.parents v cs).2 = true then Res.ok () else Res.panic) := by
  intro cs
  induction cs with
  | nil => intro t; rfl
  | cons c rest ih =>
    intro t
    rw [forEach_cons]
    cases h : t.parents.get c with
    | none => simp only [TreeM.parentsAssign, setParents, h]; rfl
    | some o => simp only [TreeM.parentsAssign, setParents, h]; rw [ih]

/-- `children.iter().for_each(|child| parent_children.push(*child))` appends the whole list -/
theorem forEach_push (k : Id) : ∀ (cs : List Id) (t : Tree) (m : SlotMap (List Id)) (acc : List Id),
    (m.get k).isSome = true → t.children = m.set k acc →
    TreeM.forEach cs (fun child => TreeM.childrenModify k (VecOps.push child)) t =
      (({ t with children := m.set k (acc ++ cs) } : Tree), Res.ok ()) := by
  intro cs
  induction cs with
  | nil =>
    intro t m acc _ ht
    rw [forEach_nil, List.append_nil, ← ht]
  | cons c rest ih =>
    intro t m acc hm ht
    rw [forEach_cons]
    have hg : t.children.get k = some acc := by rw [ht]; exact get_set_self hm acc
    simp only [TreeM.childrenModify, hg, VecOps.push]
    rw [ih _ m (acc ++ [c]) hm (by rw [ht, set_set])]
    simp [List.append_assoc]

/-! ### constructors -/

theorem NodeData_new_eq : Gen.TreeOps.NodeData_new = TreeModel.NodeData.new := rfl

theorem with_capacity_eq (n : Nat) : Gen.TreeOps.with_capacity n = Tree.new := rfl

theorem new_eq : Gen.TreeOps.new = Tree.new := rfl

theorem new_leaf_eq (t : Tree) : TreeM.out Val.id Gen.TreeOps.new_leaf t = newLeaf t := by
  simp only [Gen.TreeOps.new_leaf, Gen.TreeOps.NodeData_new, newLeaf, TreeM.out, run_bind, run_pure, run_ite, TreeM.nodesInsert,
    TreeM.childrenInsert, TreeM.parentsInsert]
  cases h1 : t.nodes.insert ⟨false⟩ with
  | none => rfl
  | some r1 =>
    obtain ⟨nodes, id⟩ := r1
    simp only
    cases h2 : t.children.insert [] with
    | none => rfl
    | some r2 =>
      obtain ⟨ch, _⟩ := r2
      simp only
      cases h3 : t.parents.insert none with
      | none => rfl
      | some r3 => rfl

theorem new_leaf_with_context_eq (t : Tree) (x : Nat) :
    TreeM.out Val.id (Gen.TreeOps.new_leaf_with_context x) t = newLeafWithContext t x := by
  simp only [Gen.TreeOps.new_leaf_with_context, Gen.TreeOps.NodeData_new, newLeafWithContext, TreeM.out, run_bind, run_pure, run_ite,
    TreeM.nodesInsert, TreeM.childrenInsert, TreeM.parentsInsert, TreeM.ctxInsert]
  cases h1 : t.nodes.insert ⟨true⟩ with
  | none => rfl
  | some r1 =>
    obtain ⟨nodes, id⟩ := r1
    simp only
    cases h2 : t.children.insert [] with
    | none => rfl
    | some r2 =>
      obtain ⟨ch, _⟩ := r2
      simp only
      cases h3 : t.parents.insert none with
      | none => rfl
      | some r3 => rfl

theorem new_with_children_eq (t : Tree) (cs : List Id) :
    TreeM.out Val.id (Gen.TreeOps.new_with_children cs) t = newWithChildren t cs := by
  simp only [Gen.TreeOps.new_with_children, Gen.TreeOps.NodeData_new, newWithChildren, TreeM.out, run_bind, run_pure, run_ite,
    TreeM.nodesInsert, TreeM.childrenInsert, TreeM.parentsInsert]
  cases h1 : t.nodes.insert ⟨false⟩ with
  | none => rfl
  | some r1 =>
    obtain ⟨nodes, id⟩ := r1
    simp only [forEach_parentsAssign]
    cases hsp : setParents t.parents (some id) cs with
    | mk pm b =>
      cases b with
      | false => rfl
      | true =>
        simp only [if_true]
        cases h2 : t.children.insert cs with
        | none => rfl
        | some r2 =>
          obtain ⟨ch, _⟩ := r2
          simp only
          cases h3 : pm.insert none with
          | none => rfl
          | some r3 => rfl

/-! ### clear, node context -/

theorem clear_eq (t : Tree) : TreeM.out (fun _ => Val.unit) Gen.TreeOps.clear t = clear t := rfl

theorem set_node_context_eq (t : Tree) (n : Id) (x : Option Nat) :
    TreeM.out (fun _ => Val.unit) (Gen.TreeOps.set_node_context n x) t = setNodeContext t n x := by
  cases x with
  | none =>
    cases h : t.nodes.get n with
    | none =>
      simp only [Gen.TreeOps.set_node_context, setNodeContext, TreeM.out, run_bind, run_pure, run_ite, ifLetSome_some, ifLetSome_none, TreeM.nodesAssignHasContext, h]
    | some d =>
      simp only [Gen.TreeOps.set_node_context, setNodeContext, TreeM.out, run_bind, run_pure, run_ite, ifLetSome_some, ifLetSome_none, TreeM.nodesAssignHasContext,
        TreeM.ctxInsert, TreeM.ctxRemove, TreeM.markDirty, h]
      generalize markDirty _ _ = b
      cases b <;> rfl
  | some m =>
    cases h : t.nodes.get n with
    | none =>
      simp only [Gen.TreeOps.set_node_context, setNodeContext, TreeM.out, run_bind, run_pure, run_ite, ifLetSome_some, ifLetSome_none, TreeM.nodesAssignHasContext, h]
    | some d =>
      simp only [Gen.TreeOps.set_node_context, setNodeContext, TreeM.out, run_bind, run_pure, run_ite, ifLetSome_some, ifLetSome_none, TreeM.nodesAssignHasContext,
        TreeM.ctxInsert, TreeM.ctxRemove, TreeM.markDirty, h]
      generalize markDirty _ _ = b
      cases b <;> rfl

theorem get_node_context_eq (t : Tree) (n : Id) :
    TreeM.out Val.optNat (Gen.TreeOps.get_node_context n) t = getNodeContext t n := rfl

/-! ### attaching -/

theorem add_child_eq (t : Tree) (p c : Id) :
    TreeM.out (fun _ => Val.unit) (Gen.TreeOps.add_child p c) t = addChild t p c := by
  simp only [Gen.TreeOps.add_child, addChild, TreeM.out, run_bind, run_pure, run_ite, TreeM.parentsAssign, TreeM.childrenModify,
    TreeM.markDirty, VecOps.push]
  cases h1 : t.parents.get c with
  | none => rfl
  | some o =>
    simp only
    cases h2 : t.children.get p with
    | none => rfl
    | some l =>
      simp only
      generalize markDirty _ _ = b
      cases b <;> rfl

theorem insert_child_at_index_eq (t : Tree) (p : Id) (i : Nat) (c : Id) :
    TreeM.out (fun _ => Val.unit) (Gen.TreeOps.insert_child_at_index p i c) t = insertChildAtIndex t p i c := by
  simp only [Gen.TreeOps.insert_child_at_index, insertChildAtIndex, TreeM.out, run_bind, run_pure, run_ite, TreeM.parentsAssign,
    TreeM.childrenIdx, TreeM.childrenModify, TreeM.markDirty, TreeM.throw, VecOps.insert]
  cases h1 : t.children.get p with
  | none => rfl
  | some l =>
    simp only
    by_cases hi : i > l.length
    · simp only [hi, if_true]
    · simp only [hi, if_false]
      cases h2 : t.parents.get c with
      | none => rfl
      | some o =>
        simp only [h1, hi, if_false]
        generalize markDirty _ _ = b
        cases b <;> rfl

/-! ### detaching -/

theorem remove_child_at_index_eq (t : Tree) (p : Id) (i : Nat) :
    TreeM.out Val.id (Gen.TreeOps.remove_child_at_index p i) t = removeChildAtIndex t p i := by
  simp only [Gen.TreeOps.remove_child_at_index, removeChildAtIndex, TreeM.out, run_bind, run_pure, run_ite, TreeM.parentsAssign,
    TreeM.childrenIdx, TreeM.childrenModify, TreeM.markDirty, TreeM.throw, VecOps.remove]
  cases h1 : t.children.get p with
  | none => rfl
  | some l =>
    simp only
    by_cases hi : i ≥ l.length
    · simp only [hi, if_true]
    · simp only [hi, if_false, h1]
      cases h2 : l[i]? with
      | none => rfl
      | some c =>
        simp only
        cases h3 : t.parents.get c with
        | none => rfl
        | some o =>
          simp only
          generalize markDirty _ _ = b
          cases b <;> rfl

/-- the generated `remove_child_at_index`, as a function of the model's answer -/
theorem remove_child_at_index_run (t : Tree) (p : Id) (i : Nat) :
    (Gen.TreeOps.remove_child_at_index p i t).1 = (removeChildAtIndex t p i).1 ∧
    (match Gen.TreeOps.remove_child_at_index p i t with
      | (_, .ok a) => (removeChildAtIndex t p i).2 = .ok (.id a)
      | (_, .err e) => (removeChildAtIndex t p i).2 = .err e
      | (_, .panic) => (removeChildAtIndex t p i).2 = .panic) := by
  have h := remove_child_at_index_eq t p i
  simp only [TreeM.out] at h
  rw [← h]
  cases hm : Gen.TreeOps.remove_child_at_index p i t with
  | mk t1 r => cases r <;> exact ⟨rfl, rfl⟩

theorem remove_child_eq (t : Tree) (p c : Id) :
    TreeM.out Val.id (Gen.TreeOps.remove_child p c) t = removeChild t p c := by
  simp only [Gen.TreeOps.remove_child, removeChild, run_bind, TreeM.out, TreeM.childrenIdx, VecOps.position]
  cases h1 : t.children.get p with
  | none => rfl
  | some l =>
    simp only
    cases h2 : l.findIdx? (fun n => decide (n = c)) with
    | none => rfl
    | some idx =>
      simp only [TreeM.ofOption, run_pure]
      exact remove_child_at_index_eq t p idx

theorem remove_children_range_eq (t : Tree) (p : Id) (a b : Nat) :
    TreeM.out (fun _ => Val.unit) (Gen.TreeOps.remove_children_range p a b) t = removeChildrenRange t p a b := by
  simp only [Gen.TreeOps.remove_children_range, removeChildrenRange, TreeM.out, run_bind, run_pure, run_ite, TreeM.childrenModify,
    TreeM.markDirty, VecOps.drain, forEach_parentsAssign]
  cases h1 : t.children.get p with
  | none => rfl
  | some l =>
    simp only
    by_cases hr : a > b ∨ b > l.length
    · simp only [hr, if_true]
    · simp only [hr, if_false]
      cases hsp : setParents t.parents none (List.drop a (List.take b l)) with
      | mk pm ok =>
        cases ok with
        | false => rfl
        | true =>
          simp only [if_true]
          generalize markDirty _ _ = bb
          cases bb <;> rfl

theorem replace_child_at_index_eq (t : Tree) (p : Id) (i : Nat) (c : Id) :
    TreeM.out Val.id (Gen.TreeOps.replace_child_at_index p i c) t = replaceChildAtIndex t p i c := by
  simp only [Gen.TreeOps.replace_child_at_index, replaceChildAtIndex, TreeM.out, run_bind, run_pure, run_ite, TreeM.parentsAssign,
    TreeM.childrenIdx, TreeM.childrenModify, TreeM.markDirty, TreeM.throw, VecOps.replaceAt]
  cases h1 : t.children.get p with
  | none => rfl
  | some l =>
    simp only
    by_cases hi : i ≥ l.length
    · simp only [hi, if_true]
    · simp only [hi, if_false]
      cases h2 : t.parents.get c with
      | none => rfl
      | some o =>
        simp only [h1]
        cases h3 : l[i]? with
        | none => rfl
        | some old =>
          simp only
          cases h4 : (t.parents.set c (some p)).get old with
          | none => rfl
          | some o2 =>
            simp only
            generalize markDirty _ _ = b
            cases b <;> rfl

/-! ### remove -/

/-- the part of `remove` after the `if let Some(parent)` block, on any intermediate state -/
theorem remove_tail (t1 : Tree) (node : Id) :
    TreeM.out Val.id (do
      let v3 ← TreeM.childrenGet node
      TreeM.ifLetSome v3 (fun children => TreeM.forEach children (fun child => TreeM.parentsAssign child none)) (pure ())
      TreeM.childrenRemove node
      TreeM.parentsRemove node
      TreeM.nodesRemove node
      pure node) t1 =
    (match (match t1.children.get node with
            | some l =>
              match setParents t1.parents none l with
              | (parents, b) => (({ t1 with parents } : Tree), b)
            | none => (t1, true) : Tree × Bool) with
     | (t, false) => (t, .panic)
     | (t, true) =>
       ({ t with children := (t.children.remove node).1, parents := (t.parents.remove node).1,
                 nodes := (t.nodes.remove node).1 }, .ok (.id node))) := by
  cases h3 : t1.children.get node with
  | none =>
    simp only [TreeM.out, run_bind, run_pure, TreeM.childrenGet, h3, ifLetSome_some, ifLetSome_none, TreeM.childrenRemove,
      TreeM.parentsRemove, TreeM.nodesRemove]
  | some l =>
    simp only [TreeM.out, run_bind, run_pure, TreeM.childrenGet, h3, ifLetSome_some, ifLetSome_none, TreeM.childrenRemove,
      TreeM.parentsRemove, TreeM.nodesRemove, forEach_parentsAssign]
    cases hsp : setParents t1.parents none l with
    | mk pm b => cases b <;> rfl

theorem remove_eq (t : Tree) (n : Id) : TreeM.out Val.id (Gen.TreeOps.remove n) t = remove t n := by
  have tail := remove_tail
  simp only [TreeM.out, run_bind, run_pure] at tail
  cases h1 : t.parents.get n with
  | none => simp only [Gen.TreeOps.remove, remove, TreeM.out, run_bind, run_pure, TreeM.parentsIdx, h1]
  | some par =>
    cases par with
    | none =>
      simp only [Gen.TreeOps.remove, remove, TreeM.out, run_bind, run_pure, TreeM.parentsIdx, h1, ifLetSome_some, ifLetSome_none, retainInParent,
        markDirtyOpt, if_true]
      exact tail t n
    | some p =>
      cases h2 : t.children.get p with
      | none =>
        simp only [Gen.TreeOps.remove, remove, TreeM.out, run_bind, run_pure, TreeM.parentsIdx, h1, ifLetSome_some, ifLetSome_none, retainInParent,
          markDirtyOpt, TreeM.childrenGet, h2, TreeM.markDirty]
        cases hb : markDirty t p with
        | false => simp only [Bool.false_eq_true, if_false]
        | true =>
          simp only [if_true]
          exact tail t n
      | some l0 =>
        simp only [Gen.TreeOps.remove, remove, TreeM.out, run_bind, run_pure, TreeM.parentsIdx, h1, ifLetSome_some, ifLetSome_none, retainInParent,
          markDirtyOpt, TreeM.childrenGet, h2, TreeM.markDirty, TreeM.childrenModify, VecOps.retain]
        generalize hb : markDirty _ p = b
        cases b with
        | false => simp only [Bool.false_eq_true, if_false]
        | true =>
          simp only [if_true]
          exact tail { t with children := t.children.set p (l0.filter (fun f => decide (f ≠ n))) } n

/-! ### set_children -/

/-- the second loop of `set_children` is the model's `reparentLoop` -/
theorem forEach_reparent (parent : Id) : ∀ (cs : List Id) (t : Tree),
    TreeM.forEach cs (fun child => (do
      let v2 ← TreeM.parentsIdx child
      TreeM.ifLetSome v2 (fun previous_parent => (do
          let _ ← TreeM.unwrapResult (Gen.TreeOps.remove_child previous_parent child)
          pure ()
        )) (do
          pure ()
        )
      TreeM.parentsAssign child (some parent)
    )) t =
      ((reparentLoop t parent cs).1, if (reparentLoop t parent cs).2 = true then Res.ok () else Res.panic) := by
  intro cs
  induction cs with
  | nil => intro t; rfl
  | cons child rest ih =>
    intro t
    rw [forEach_cons]
    cases h : t.parents.get child with
    | none => simp only [run_bind, TreeM.parentsIdx, reparentLoop, h]; rfl
    | some par =>
      cases par with
      | none =>
        simp only [run_bind, run_pure, TreeM.parentsIdx, ifLetSome_some, ifLetSome_none, TreeM.parentsAssign, reparentLoop, h]
        rw [ih]
      | some pp =>
        simp only [run_bind, run_pure, TreeM.parentsIdx, ifLetSome_some, ifLetSome_none, reparentLoop, h, TreeM.unwrapResult,
          ← remove_child_eq t pp child, TreeM.out]
        generalize Gen.TreeOps.remove_child pp child t = r
        obtain ⟨t1, r⟩ := r
        cases r with
        | err e => rfl
        | panic => rfl
        | ok a =>
          rcases Option.eq_none_or_eq_some (t1.parents.get child) with h2 | ⟨o, h2⟩
          · simp only [TreeM.parentsAssign, h2]; rfl
          · simp only [TreeM.parentsAssign, h2]; rw [ih]

theorem set_children_eq (t : Tree) (p : Id) (cs : List Id) :
    TreeM.out (fun _ => Val.unit) (Gen.TreeOps.set_children p cs) t = setChildren t p cs := by
  cases h1 : t.children.get p with
  | none => simp only [Gen.TreeOps.set_children, setChildren, TreeM.out, run_bind, TreeM.childrenIdx, h1]
  | some old =>
    simp only [Gen.TreeOps.set_children, setChildren, TreeM.out, run_bind, TreeM.childrenIdx, h1, forEach_parentsAssign,
      forEach_reparent]
    cases hsp : setParents t.parents none old with
    | mk pm b =>
      cases b with
      | false => rfl
      | true =>
        simp only [if_true]
        cases hrl : reparentLoop { t with parents := pm } p cs with
        | mk t2 b2 =>
          cases b2 with
          | false => rfl
          | true =>
            simp only [if_true]
            cases h4 : t2.children.get p with
            | none => rfl
            | some l4 =>
              simp only [TreeM.childrenModify, h4, VecOps.clear]
              rw [forEach_push p cs _ t2.children [] (by rw [h4]; rfl) rfl]
              simp only [List.nil_append, TreeM.markDirty, run_pure]
              generalize markDirty _ _ = bb
              cases bb <;> rfl

/-! ### observers -/

theorem child_at_index_eq (t : Tree) (p : Id) (i : Nat) :
    TreeM.out Val.id (Gen.TreeOps.child_at_index p i) t = childAtIndex t p i := by
  simp only [Gen.TreeOps.child_at_index, childAtIndex, TreeM.out, run_bind, run_pure, run_ite, TreeM.childrenIdx, TreeM.throw,
    VecOps.index]
  cases h1 : t.children.get p with
  | none => rfl
  | some l =>
    simp only
    by_cases hi : i ≥ l.length
    · simp only [hi, if_true]
    · simp only [hi, if_false, h1]
      cases h2 : l[i]? with
      | none => rfl
      | some c => rfl

theorem total_node_count_eq (t : Tree) : TreeM.out Val.nat Gen.TreeOps.total_node_count t = totalNodeCount t := rfl

theorem child_count_eq (t : Tree) (p : Id) : TreeM.out Val.nat (Gen.TreeOps.child_count p) t = childCount t p := by
  simp only [Gen.TreeOps.child_count, childCount, TreeM.out, run_bind, run_pure, run_ite, TreeM.childrenIdx]
  cases h1 : t.children.get p <;> rfl

theorem children_eq (t : Tree) (p : Id) : TreeM.out Val.ids (Gen.TreeOps.children p) t = children t p := by
  simp only [Gen.TreeOps.children, children, TreeM.out, run_bind, run_pure, run_ite, TreeM.childrenIdx]
  cases h1 : t.children.get p <;> rfl

theorem parent_eq (t : Tree) (n : Id) : TreeM.out Val.optId (Gen.TreeOps.parent n) t = parent t n := by
  simp only [Gen.TreeOps.parent, parent, TreeM.out, TreeM.parentsIdx]
  cases h1 : t.parents.get n <;> rfl

/-! ### the whole interface: one step, whole histories -/

/-- `TreeModel.step` with every method replaced by its translation from the source -/
def genStep (t : Tree) : Op → Tree × Out
  | .newLeaf => TreeM.out Val.id Gen.TreeOps.new_leaf t
  | .newLeafWithContext x => TreeM.out Val.id (Gen.TreeOps.new_leaf_with_context x) t
  | .newWithChildren cs => TreeM.out Val.id (Gen.TreeOps.new_with_children cs) t
  | .clear => TreeM.out (fun _ => Val.unit) Gen.TreeOps.clear t
  | .remove n => TreeM.out Val.id (Gen.TreeOps.remove n) t
  | .setNodeContext n x => TreeM.out (fun _ => Val.unit) (Gen.TreeOps.set_node_context n x) t
  | .getNodeContext n => TreeM.out Val.optNat (Gen.TreeOps.get_node_context n) t
  | .addChild p c => TreeM.out (fun _ => Val.unit) (Gen.TreeOps.add_child p c) t
  | .insertChildAtIndex p i c => TreeM.out (fun _ => Val.unit) (Gen.TreeOps.insert_child_at_index p i c) t
  | .setChildren p cs => TreeM.out (fun _ => Val.unit) (Gen.TreeOps.set_children p cs) t
  | .removeChild p c => TreeM.out Val.id (Gen.TreeOps.remove_child p c) t
  | .removeChildAtIndex p i => TreeM.out Val.id (Gen.TreeOps.remove_child_at_index p i) t
  | .removeChildrenRange p a b => TreeM.out (fun _ => Val.unit) (Gen.TreeOps.remove_children_range p a b) t
  | .replaceChildAtIndex p i c => TreeM.out Val.id (Gen.TreeOps.replace_child_at_index p i c) t
  | .childAtIndex p i => TreeM.out Val.id (Gen.TreeOps.child_at_index p i) t
  | .totalNodeCount => TreeM.out Val.nat Gen.TreeOps.total_node_count t
  | .childCount p => TreeM.out Val.nat (Gen.TreeOps.child_count p) t
  | .children p => TreeM.out Val.ids (Gen.TreeOps.children p) t
  | .parent n => TreeM.out Val.optId (Gen.TreeOps.parent n) t

/-- **Tier T for the structural interface**: on every state (well-formed or not) and for every operation with every argument,
    the method bodies translated from src/tree/taffy_tree.rs compute exactly what `Model/Tree.lean` computes — new state
    (also the torn state after a panic) and answer (value, `ChildIndexOutOfBounds` payload, or panic). -/
theorem step_eq (t : Tree) (op : Op) : genStep t op = step t op := by
  cases op with
  | newLeaf => exact new_leaf_eq t
  | newLeafWithContext x => exact new_leaf_with_context_eq t x
  | newWithChildren cs => exact new_with_children_eq t cs
  | clear => exact clear_eq t
  | remove n => exact remove_eq t n
  | setNodeContext n x => exact set_node_context_eq t n x
  | getNodeContext n => exact get_node_context_eq t n
  | addChild p c => exact add_child_eq t p c
  | insertChildAtIndex p i c => exact insert_child_at_index_eq t p i c
  | setChildren p cs => exact set_children_eq t p cs
  | removeChild p c => exact remove_child_eq t p c
  | removeChildAtIndex p i => exact remove_child_at_index_eq t p i
  | removeChildrenRange p a b => exact remove_children_range_eq t p a b
  | replaceChildAtIndex p i c => exact replace_child_at_index_eq t p i c
  | childAtIndex p i => exact child_at_index_eq t p i
  | totalNodeCount => exact total_node_count_eq t
  | childCount p => exact child_count_eq t p
  | children p => exact children_eq t p
  | parent n => exact parent_eq t n

/-- the state after a history (newest operation first) from the translated `TaffyTree::new()`, by the translated methods -/
def genRunH : List Op → Tree
  | [] => Gen.TreeOps.new
  | op :: h => (genStep (genRunH h) op).1

theorem runH_eq : ∀ (h : List Op), genRunH h = runH h
  | [] => new_eq
  | op :: h => by simp only [genRunH, runH, runH_eq h, step_eq]

/-- C14's invariant and absence of panics, restated on the translated source: every history in which each operation met its
    precondition keeps the three slot maps well-formed, in lock-step and mutually consistent, and no translated method panics -/
theorem generated_inv_no_panic (h : List Op) (op : Op) (hv : C14.Valid (op :: h)) :
    Inv (genRunH h) ∧ Inv (genStep (genRunH h) op).1 ∧ (genStep (genRunH h) op).2 ≠ .panic := by
  rw [runH_eq, step_eq]
  exact ⟨C14.inv_runH h hv.1, (C14.step_inv (C14.inv_runH h hv.1) op hv.2).1, C14.no_panic h op hv⟩

/-- a history whose operations meet the hypotheses of `generated_inv_no_panic` (reparenting `set_children`, removal of an attached
    node) and what the translated methods answer on it -/
example : C14.Valid [.remove ⟨3, 1⟩, .setChildren ⟨1, 1⟩ [⟨3, 1⟩], .addChild ⟨2, 1⟩ ⟨3, 1⟩, .newLeaf, .newLeaf, .newLeaf] := by
  simp only [C14.Valid, C14.Pre, C14.Detached, Tree.live]
  decide

example :
    let h : List Op := [.setChildren ⟨1, 1⟩ [⟨3, 1⟩], .addChild ⟨2, 1⟩ ⟨3, 1⟩, .newLeaf, .newLeaf, .newLeaf]
    (genStep (genRunH h) (.children ⟨1, 1⟩)).2 = .ok (.ids [⟨3, 1⟩]) ∧
    (genStep (genRunH h) (.children ⟨2, 1⟩)).2 = .ok (.ids []) ∧
    (genStep (genRunH h) (.parent ⟨3, 1⟩)).2 = .ok (.optId (some ⟨1, 1⟩)) ∧
    (genStep (genRunH h) (.remove ⟨3, 1⟩)).2 = .ok (.id ⟨3, 1⟩) ∧
    (genStep (genRunH h) (.removeChildAtIndex ⟨1, 1⟩ 1)).2 = .err (.childIndexOutOfBounds ⟨1, 1⟩ 1 1) ∧
    (genStep (genRunH h) (.insertChildAtIndex ⟨1, 1⟩ 2 ⟨2, 1⟩)).2 = .err (.childIndexOutOfBounds ⟨1, 1⟩ 2 1) ∧
    (genStep (genRunH h) (.removeChild ⟨2, 1⟩ ⟨3, 1⟩)).2 = .panic ∧
    (genStep (genRunH h) (.removeChildrenRange ⟨1, 1⟩ 0 2)).2 = .panic ∧
    (genStep (genRunH h) (.addChild ⟨9, 1⟩ ⟨3, 1⟩)).2 = .panic := by
  decide

/-- The `self.mark_dirty(parent)?` statement of `remove` (added to the source by the repair 84afe4b; the hand-written model had not
    followed and `remove_eq` failed to prove until `Model/Tree.lean` got the panic site) is observable, on a torn state only:
    `add_child(dead, b)` panics after having written `parents[b] = Some(dead)`; then `remove(b)` panics inside `mark_dirty(dead)` and
    `b` stays in the tree. Replayed on the real code (same four answers). Under C14's invariant the site never fires (`C14.no_panic`). -/
theorem remove_markDirty_site_witness :
    let h : List Op := [.remove ⟨3, 1⟩, .newLeaf, .newLeaf, .newLeaf]
    (step (runH h) (.addChild ⟨3, 1⟩ ⟨2, 1⟩)).2 = .panic ∧
    (step (runH (.addChild ⟨3, 1⟩ ⟨2, 1⟩ :: h)) (.parent ⟨2, 1⟩)).2 = .ok (.optId (some ⟨3, 1⟩)) ∧
    (step (runH (.addChild ⟨3, 1⟩ ⟨2, 1⟩ :: h)) (.remove ⟨2, 1⟩)).2 = .panic ∧
    (step (runH (.remove ⟨2, 1⟩ :: .addChild ⟨3, 1⟩ ⟨2, 1⟩ :: h)) .totalNodeCount).2 = .ok (.nat 2) := by
  decide

/-! ### the `mark_dirty` table -/

/-- the `self.mark_dirty(..)?` statements a `Gen.Facts.DirtyTarget` stands for -/
def callsOf : Gen.Facts.DirtyTarget → List Gen.TreeOps.DirtyArg
  | .none => []
  | .node => [.node]
  | .parent => [.parent]

/-- the `mark_dirty` table C15/C01 read (`Gen.Facts.dirty_*`) lists exactly the `self.mark_dirty(..)?` statements the
    statement-by-statement translation met in each method body; the observers contain none -/
theorem dirty_table_consistent :
    Gen.TreeOps.markDirtyCalls_new_leaf = callsOf Gen.Facts.dirty_new_leaf ∧
    Gen.TreeOps.markDirtyCalls_new_leaf_with_context = callsOf Gen.Facts.dirty_new_leaf_with_context ∧
    Gen.TreeOps.markDirtyCalls_new_with_children = callsOf Gen.Facts.dirty_new_with_children ∧
    Gen.TreeOps.markDirtyCalls_remove = callsOf Gen.Facts.dirty_remove ∧
    Gen.TreeOps.markDirtyCalls_set_node_context = callsOf Gen.Facts.dirty_set_node_context ∧
    Gen.TreeOps.markDirtyCalls_add_child = callsOf Gen.Facts.dirty_add_child ∧
    Gen.TreeOps.markDirtyCalls_insert_child_at_index = callsOf Gen.Facts.dirty_insert_child_at_index ∧
    Gen.TreeOps.markDirtyCalls_set_children = callsOf Gen.Facts.dirty_set_children ∧
    Gen.TreeOps.markDirtyCalls_remove_child = callsOf Gen.Facts.dirty_remove_child ∧
    Gen.TreeOps.markDirtyCalls_remove_child_at_index = callsOf Gen.Facts.dirty_remove_child_at_index ∧
    Gen.TreeOps.markDirtyCalls_remove_children_range = callsOf Gen.Facts.dirty_remove_children_range ∧
    Gen.TreeOps.markDirtyCalls_replace_child_at_index = callsOf Gen.Facts.dirty_replace_child_at_index ∧
    Gen.TreeOps.markDirtyCalls_clear = [] ∧ Gen.TreeOps.markDirtyCalls_get_node_context = [] ∧
    Gen.TreeOps.markDirtyCalls_child_at_index = [] ∧ Gen.TreeOps.markDirtyCalls_total_node_count = [] ∧
    Gen.TreeOps.markDirtyCalls_parent = [] ∧ Gen.TreeOps.markDirtyCalls_children = [] ∧
    Gen.TreeOps.markDirtyCalls_child_count = [] := by
  decide

end TieTree
