/-
  Tie (tier T) for the `AbstractAxis`-indexed accessors of src/geometry.rs (`AbstractAxis::other`, `Size::{get,set}`,
  `Point::{get,set}`), which the grid model writes as `GridModel.Ax.other`, `sget`, `sset`, `pget` (Model/GridItem.lean).

  `Gen.GridAxes.*` is regenerated from the Rust source on every run; each theorem states that the generated definition IS
  the hand-written one, for every argument and every element type `β`. The enum `AbstractAxis` ↦ `GridModel.Ax`
  (`Inline` ↦ `inl`, `Block` ↦ `blk`) is compared with the source by the extractor.
-/
import TaffyVerif.Generated.GridAxes

namespace TieGridAxes
variable {β : Type}

theorem axis_other_eq : Gen.GridAxes.AbstractAxis.other = GridModel.Ax.other := by
  funext a; cases a <;> rfl
theorem size_get_eq : Gen.GridAxes.Size.get (β := β) = GridModel.sget := by
  funext s a; cases a <;> rfl
theorem size_set_eq : Gen.GridAxes.Size.set (β := β) = GridModel.sset := by
  funext s a v; cases a <;> rfl
theorem point_get_eq : Gen.GridAxes.Point.get (β := β) = GridModel.pget := by
  funext p a; cases a <;> rfl

end TieGridAxes
