/-
  Tie (tier T) for src/compute/block.rs: the functions of the block algorithm, translated from the Rust source in interaction form.

  `Gen.Block.*` (Generated/Block.lean) is regenerated from src/compute/block.rs on every run (extract/src/blockmod.rs): programs over
  `Gen.Tree.Prog α Nat` — one node per trait-method call of the tree, in the Rust order; a `for` over the item list whose body talks
  to the tree is `Gen.Block.for_mut` / `for_fold` applied to the body as a step function of (tuple of the outer locals, item).
  The hand-written model (Model/Block.lean, the definitions C10, C11, C06, C05 and C12 are stated on) is a `ProgM` program;
  `toGen` reads a `ProgM` program as a generated one (`call` ↦ `compute_child_layout`, `setLayout` ↦ `set_unrounded_layout`,
  `pure` ↦ `ret`; it is injective), so `Gen.Block.f … = toGen (BlockModel.f …)` says: the same calls in the same order with the same
  inputs, the same layouts set, the same result — for every `[Num α]` and all arguments.

  * `perform_final_layout_on_in_flow_children_eq` — the margin-collapsing loop (the heart of C10) with its epilogue.  The generated
    step function is never restated: the congruence lemma `for_mut_flow` (induction over the item list: the generated loop is a fold
    whose step is a program, the model recurses with the tail's results consed on) is applied with the step found by unification
    and the pointwise goal is closed by rewriting with the existing Tie equalities and case analysis on `text_align` and the two
    loop flags.
  * `determine_content_based_container_width_eq` — the content-based width loop (`for … in items.iter().filter(..)`, one
    `perform_child_layout` per in-flow item without a known width).
  * `generate_item_list_eq` — the iterator chain that builds the `BlockItem`s, with the children addressed `0 .. n` and
    `tree.get_block_child_style` / `tree.child_ids` read as functions (the pure reads of the tree are parameters of the generated
    definition; Model/Block.lean takes the list of child styles).
  * `perform_absolute_layout_on_absolute_children_eq` — the absolute pass (`BlockModel.absLoop` / `absItem`: the inset / margin /
    size equations C11 is about, the static position C06 is about).
  * `compute_inner_eq`, `compute_block_layout_eq` — the whole algorithm: with the tree's pure reads given as functions and the
    children addressed `0 .. n`, the generated programs ARE `BlockModel.computeInner` / `computeBlockLayout` on the container's style
    and the list of child styles.  (`absLoop` reads `childStyles[i]?` in the model and `get_block_child_style i` in the source: the
    two agree on the node ids the in-flow pass hands on — `flowLoop_ids`, `generateItemsFrom_ids`, `absLoop_congr`.)
-/
import TaffyVerif.Generated.Block
import TaffyVerif.Model.Block
import TaffyVerif.Props.TieLayout
import TaffyVerif.Props.TieMaybeMath
import TaffyVerif.Props.TieResolve
import TaffyVerif.Props.TieContent
import TaffyVerif.Props.TieLayoutTree
import TaffyVerif.Props.TieStyle
import TaffyVerif.Props.TieLeaf
import TaffyVerif.Props.TieAxes
import TaffyVerif.Props.TieInput

namespace TieBlock
open BlockModel
variable {α : Type} [Num α] {β γ : Type}

/-- a hand-written program read as a generated one -/
def toGen : ProgM α β → Gen.Tree.Prog α Nat β
  | .pure b => .ret b
  | .call c i k => .compute_child_layout c i (fun o => toGen (k o))
  | .setLayout c l k => .set_unrounded_layout c l (fun u => toGen (k u))

omit [Num α] in
theorem toGen_bind (p : ProgM α β) (f : β → ProgM α γ) :
    toGen (p >>= f) = (toGen p).bind (fun b => toGen (f b)) := by
  show toGen (ProgM.bind p f) = _
  induction p with
  | pure b => rfl
  | call c i k ih => simp only [ProgM.bind, toGen, Gen.Tree.Prog.bind, ih]
  | setLayout c l k ih => simp only [ProgM.bind, toGen, Gen.Tree.Prog.bind, ih]

/-! ### helpers translated for block.rs -/
theorem resolve_to_option_eq : Gen.Block.LengthPercentageAuto.resolve_to_option (α := α) = LPA.resolveToOption := by
  funext x c; cases x <;> rfl
theorem size_sub_eq : Gen.Block.Size.sub (α := α) = Size.sub := rfl
theorem maybeResolve_some (x : LPA α) (c : α) : x.maybeResolve (some c) = x.resolveToOption c := by
  cases x <;> rfl

theorem toNat_ite (b : Bool) : b.toNat = if b then 1 else 0 := by cases b <;> rfl

omit [Num α] in
theorem ite_point (c : Prop) [Decidable c] (x1 x0 y : α) :
    (if c then (⟨x1, y⟩ : Point α) else ⟨x0, y⟩) = ⟨if c then x1 else x0, y⟩ := by split <;> rfl

/-- the outer locals of the loop of `perform_final_layout_on_in_flow_children`, in the order the extractor lists them -/
abbrev Acc (α : Type) := Size α × MarginSet α × Bool × MarginSet α × α × α

@[reducible] def accOf (st : FlowState α) : Acc α :=
  (st.inflowContentSize, st.firstChildTopMarginSet, st.isCollapsingWithFirstMarginSet, st.activeCollapsibleMarginSet,
    st.yOffsetForAbsolute, st.committedYOffset)

/-- one pass through the loop body, as the model writes it -/
def flowStep (c : FlowCtx α) (st : FlowState α) (item : BlockItem α) : ProgM α (BlockItem α × FlowState α) :=
  if item.position == .absolute then
    pure ({ item with staticPosition := ⟨c.resolvedContentBoxInset.left, st.yOffsetForAbsolute⟩ }, st)
  else do
    let out ← ProgM.computeChildLayout item.nodeIdx (itemInput c item)
    let p := placeItem c st item out
    ProgM.setUnroundedLayout item.nodeIdx p.layout
    pure (p.item, p.st)

/-- the model's loop, one item unrolled -/
theorem flowLoop_cons (c : FlowCtx α) (item : BlockItem α) (rest : List (BlockItem α)) (st : FlowState α) :
    flowLoop c (item :: rest) st =
      (do let r ← flowStep c st item
          let r' ← flowLoop c rest r.2
          pure (r.1 :: r'.1, r'.2)) := by
  conv => lhs; rw [flowLoop]
  unfold flowStep
  split <;> rfl

omit [Num α] in
theorem bind_ret (p : Gen.Tree.Prog α Nat β) : p.bind Gen.Tree.Prog.ret = p := by
  induction p with
  | ret b => rfl
  | unreachable => rfl
  | get_core_container_style n k ih => simp only [Gen.Tree.Prog.bind, ih]
  | set_unrounded_layout n l k ih => simp only [Gen.Tree.Prog.bind, ih]
  | compute_child_layout n i k ih => simp only [Gen.Tree.Prog.bind, ih]
  | cache_get n kd av rm k ih => simp only [Gen.Tree.Prog.bind, ih]
  | cache_store n kd av rm o k ih => simp only [Gen.Tree.Prog.bind, ih]
  | cache_clear n k ih => simp only [Gen.Tree.Prog.bind, ih]

omit [Num α] in
theorem bind_assoc {δ : Type} (p : Gen.Tree.Prog α Nat β) (f : β → Gen.Tree.Prog α Nat γ) (g : γ → Gen.Tree.Prog α Nat δ) :
    (p.bind f).bind g = p.bind (fun b => (f b).bind g) := by
  induction p with
  | ret b => rfl
  | unreachable => rfl
  | get_core_container_style n k ih => simp only [Gen.Tree.Prog.bind, ih]
  | set_unrounded_layout n l k ih => simp only [Gen.Tree.Prog.bind, ih]
  | compute_child_layout n i k ih => simp only [Gen.Tree.Prog.bind, ih]
  | cache_get n kd av rm k ih => simp only [Gen.Tree.Prog.bind, ih]
  | cache_store n kd av rm o k ih => simp only [Gen.Tree.Prog.bind, ih]
  | cache_clear n k ih => simp only [Gen.Tree.Prog.bind, ih]

/-- congruence: a step function that is pointwise the model's step makes `for_mut` the model's loop -/
theorem for_mut_flow (c : FlowCtx α) (F : Acc α → BlockItem α → Gen.Tree.Prog α Nat (BlockItem α × Acc α))
    (hF : ∀ st item, F (accOf st) item = toGen (flowStep c st item >>= fun r => pure (r.1, accOf r.2)))
    (items : List (BlockItem α)) (st : FlowState α) :
    Gen.Block.for_mut F (accOf st) items = toGen (flowLoop c items st >>= fun r => pure (r.1, accOf r.2)) := by
  induction items generalizing st with
  | nil => rfl
  | cons item rest ih =>
    rw [flowLoop_cons, Gen.Block.for_mut, hF]
    simp only [toGen_bind, bind_assoc]
    congr 1; funext r
    show (Gen.Tree.Prog.bind (Gen.Block.for_mut F (accOf r.2) rest) _) = _
    rw [ih]
    simp only [toGen_bind, bind_assoc]
    rfl

/-- **Tie, block.rs `perform_final_layout_on_in_flow_children`.**  The program generated from the source IS the model's program
`BlockModel.performFinalLayoutOnInFlowChildren` (flow loop + epilogue): same child queries in the same order with the same inputs,
same layouts set, same updated items and result. -/
theorem perform_final_layout_on_in_flow_children_eq (cow : α) (cbi rcbi : Rect α) (ta : TextAlign) (own : Line Bool) (items : List (BlockItem α)) :
    Gen.Block.perform_final_layout_on_in_flow_children items cow cbi rcbi ta own =
      toGen (performFinalLayoutOnInFlowChildren ⟨cow, cbi, rcbi, ta, own⟩ items) := by
  unfold Gen.Block.perform_final_layout_on_in_flow_children
  refine Eq.trans (congrArg (fun x => Gen.Tree.Prog.bind x _)
    (for_mut_flow ⟨cow, cbi, rcbi, ta, own⟩ _ ?hF items (FlowCtx.initState ⟨cow, cbi, rcbi, ta, own⟩))) ?_
  case hF =>
    intro st item
    unfold flowStep
    by_cases hp : (item.position == Position.absolute) = true
    · simp -zeta only [hp, ↓reduceIte]
      rfl
    · simp only [hp, Bool.false_eq_true, ↓reduceIte,
        Gen.Block.Rect.map, Gen.Block.Rect.zip_size, Gen.Block.Size.map_width,
        TieLayout.f32_max_eq, TieLayout.margin_zero_eq, TieLayout.collapse_with_margin_eq, TieLayout.collapse_with_set_eq,
        TieLayout.margin_resolve_eq, TieLayout.horizontal_axis_sum_eq, TieLayout.size_f32_max_eq, TieLayout.size_ZERO_eq,
        TieLayout.size_NONE_eq, TieMaybeMath.size_oo_clamp_eq, TieMaybeMath.fo_clamp_eq, TieMaybeMath.af_sub_eq,
        TieResolve.lpa_f32_maybe_resolve_eq, TieContent.compute_content_size_contribution_eq,
        TieLayoutTree.perform_child_layout_eq, resolve_to_option_eq]
      show _ = toGen (ProgM.bind _ _)
      simp only [ProgM.bind, ProgM.computeChildLayout, ProgM.setUnroundedLayout, toGen, Gen.Tree.Prog.bind]
      congr 1
      funext out
      simp only [resolve_to_option_eq]
      congr 1
      · simp only [placeItem, itemMargin, itemNonAutoXMarginSum, topMarginSet, bottomMarginSet, insetOffsetX, insetOffsetY,
          yMarginOffset, FlowCtx.containerInnerWidth, maybeResolve_some, toNat_ite, decide_eq_true_eq,
          Rect.horizontalAxisSum]
        congr 1
        cases ta <;> exact (ite_point _ _ _ _).trans rfl
      · funext _
        show Gen.Tree.Prog.ret _ = Gen.Tree.Prog.ret _
        congr 1
        cases hc : out.marginsCanCollapseThrough <;> cases hf : st.isCollapsingWithFirstMarginSet <;>
          simp only [placeItem, itemMargin, itemNonAutoXMarginSum, topMarginSet, bottomMarginSet, insetOffsetX, insetOffsetY,
            yMarginOffset, FlowCtx.containerInnerWidth, maybeResolve_some, toNat_ite, decide_eq_true_eq,
            Rect.horizontalAxisSum, hc, hf, Bool.false_eq_true, ↓reduceIte, accOf]
        all_goals simp only [Prod.mk.injEq, and_true, true_and]
        all_goals try (refine ⟨rfl, ?_⟩)
        all_goals congr 2
        all_goals cases ta <;> exact (ite_point _ _ _ _).trans rfl
  · show _ = toGen (flowLoop _ items _ >>= _)
    simp only [toGen_bind, bind_assoc, TieLayout.f32_max_eq, TieLayout.margin_resolve_eq]
    congr 1

/-- concrete instance: no items — the generated program returns at once: zero content size, the container's own vertical insets as
height, both margin sets zero -/
example (cow : α) (cbi rcbi : Rect α) :
    Gen.Block.perform_final_layout_on_in_flow_children [] cow cbi rcbi .auto ⟨false, false⟩ =
      .ret ([], (Size.zero, Num.fmax 0 (rcbi.top + (rcbi.bottom + (MarginSet.zero : MarginSet α).resolve)),
        MarginSet.zero, MarginSet.zero)) := rfl

/-- concrete instance: one in-flow item — the generated program starts with exactly the model's child query `itemInput` -/
example (item : BlockItem α) (hp : item.position = .relative) (cow : α) (cbi rcbi : Rect α) (ta : TextAlign) (own : Line Bool) :
    ∃ k, Gen.Block.perform_final_layout_on_in_flow_children [item] cow cbi rcbi ta own =
      .compute_child_layout item.nodeIdx (itemInput ⟨cow, cbi, rcbi, ta, own⟩ item) k := by
  rw [perform_final_layout_on_in_flow_children_eq, performFinalLayoutOnInFlowChildren, flowLoop_cons, flowStep, hp]
  exact ⟨_, rfl⟩

/-- concrete instance: one absolutely positioned item — no child query; its static position is the content box's top-left corner -/
example (item : BlockItem α) (hp : item.position = .absolute) (cow : α) (cbi rcbi : Rect α) (ta : TextAlign) (own : Line Bool) :
    ∃ r, Gen.Block.perform_final_layout_on_in_flow_children [item] cow cbi rcbi ta own = .ret r ∧
      r.1 = [{ item with staticPosition := ⟨rcbi.left, rcbi.top⟩ }] := by
  rw [perform_final_layout_on_in_flow_children_eq, performFinalLayoutOnInFlowChildren, flowLoop_cons, flowStep, hp]
  exact ⟨_, rfl, rfl⟩

/-! ### `generate_item_list` -/

/-- congruence: an item constructor that is pointwise `generateItem` and a filter that is pointwise `!isHidden` make the iterator chain
`child_ids.map(id ↦ (id, style)).filter(..).enumerate().map(..)` the model's recursion over the child styles (`idx` counts all
children, `order` the kept ones) -/
theorem map_enum_filter (gs : Nat → Style α) (inner : Size (Option α)) (G : Nat × (Nat × Style α) → BlockItem α)
    (P : Nat × Style α → Bool) (hG : ∀ o id cs, G (o, (id, cs)) = generateItem id o cs inner)
    (hP : ∀ id cs, P (id, cs) = !cs.isHidden) (n k o : Nat) :
    List.map G (Gen.Block.enumerate_from o (List.filter P (List.map (fun id => (id, gs id)) (List.range' k n)))) =
      generateItemsFrom inner ((List.range' k n).map gs) k o := by
  induction n generalizing k o with
  | zero => rfl
  | succ n ih =>
    rw [List.range'_succ, List.map_cons, List.map_cons, List.filter_cons, hP, generateItemsFrom]
    cases (gs k).isHidden
    · simp only [Bool.not_false, ↓reduceIte, Bool.false_eq_true, Gen.Block.enumerate_from, List.map_cons, hG, ih]
    · simp only [Bool.not_true, Bool.false_eq_true, ↓reduceIte, ih]

/-- **Tie, block.rs `generate_item_list`.**  With the children addressed by their indices (`tree.child_ids(node)` = `0 .. n`, as in
Model/Block.lean) and `tree.get_block_child_style` read as `gs`, the generated iterator chain IS `BlockModel.generateItemList` on the
list of child styles: hidden children dropped, `node_id` the index among all children, `order` the index among the kept ones, every
field of `BlockItem` as the model computes it (sizes resolved against the container's content box, box-sizing adjustment added). -/
theorem generate_item_list_eq (gs : Nat → Style α) (cids : Nat → List Nat) (node n : Nat) (h : cids node = List.range n)
    (inner : Size (Option α)) :
    Gen.Block.generate_item_list gs cids node inner = .ret (generateItemList ((List.range n).map gs) inner) := by
  unfold Gen.Block.generate_item_list generateItemList Gen.Block.enumerate
  rw [h, List.range_eq_range']
  congr 1
  refine map_enum_filter gs inner _ _ ?_ ?_ n 0 0
  · intro o id cs
    simp only [Gen.Block.as_u32, TieStyle.aspect_ratio_eq, TieStyle.padding_eq, TieStyle.border_eq, TieStyle.box_sizing_eq,
      TieStyle.size_eq, TieStyle.min_size_eq, TieStyle.max_size_eq, TieStyle.overflow_eq, TieStyle.scrollbar_width_eq,
      TieStyle.position_eq, TieStyle.inset_eq, TieStyle.margin_eq, TieStyle.is_table_eq,
      TieResolve.rect_lp_size_resolve_or_zero_eq, TieResolve.size_dim_maybe_resolve_eq, TieLeaf.rect_add_eq,
      TieLayout.sum_axes_eq, TieLayout.size_ZERO_eq, TieLayout.size_zero_eq, TieLayout.maybe_apply_aspect_ratio_eq,
      TieMaybeMath.size_of_add_eq]
    rfl
  · intro id cs
    simp only [TieStyle.box_generation_mode_none_eq]

/-- concrete instance: three children, the middle one `display: none` — two items, node ids 0 and 2, orders 0 and 1 -/
example (s : Style α) (hs : s.isHidden = false) (hid : Style α) (hh : hid.isHidden = true) (inner : Size (Option α)) :
    ∃ a b, Gen.Block.generate_item_list (fun i => if i = 1 then hid else s) (fun _ => [0, 1, 2]) 0 inner = .ret [a, b] ∧
      (a.nodeIdx, a.order, b.nodeIdx, b.order) = (0, 0, 2, 1) := by
  rw [generate_item_list_eq _ _ 0 3 rfl]
  simp only [generateItemList, generateItemsFrom, List.range, List.range.loop, List.map, hs, hh, Nat.reduceEqDiff, ↓reduceIte,
    Bool.false_eq_true, Nat.zero_ne_one, Nat.reduceEqDiff, (by decide : ¬ (2 : Nat) = 1), (by decide : ¬ (0 : Nat) = 1)]
  exact ⟨_, _, rfl, rfl⟩

/-! ### `determine_content_based_container_width` -/

/-- one pass through the loop body, as the model writes it -/
def widthStep (availableWidth : AvailableSpace α) (acc : α) (item : BlockItem α) : ProgM α α :=
  if item.position == .absolute then pure acc
  else do
    let kd := item.size.oo_clamp item.minSize item.maxSize
    let width ← (match kd.width with
      | some w => (pure w : ProgM α α)
      | none => do
        let xms := (Resolve.rectLPAOrZero item.margin availableWidth.intoOption).horizontalAxisSum
        let out ← ProgM.performChildLayout item.nodeIdx kd Size.none
          ⟨MaybeMath.af_sub availableWidth xms, .minContent⟩ .inherentSize ⟨true, true⟩
        pure (out.size.width + xms))
    let width := Num.fmax width item.paddingBorderSum.width
    pure (Num.fmax acc width)

theorem contentWidthLoop_cons (aw : AvailableSpace α) (item : BlockItem α) (rest : List (BlockItem α)) (acc : α) :
    contentWidthLoop aw (item :: rest) acc = widthStep aw acc item >>= contentWidthLoop aw rest := by
  conv => lhs; rw [contentWidthLoop]
  unfold widthStep
  split
  · rfl
  · show _ = ProgM.bind (ProgM.bind _ _) _
    generalize item.size.oo_clamp item.minSize item.maxSize = kd
    obtain ⟨_ | w, h⟩ := kd <;> rfl

/-- congruence: a step function that is pointwise the model's step makes `for_fold` the model's loop -/
theorem for_fold_width (aw : AvailableSpace α) (F : α → BlockItem α → Gen.Tree.Prog α Nat α)
    (hF : ∀ acc item, F acc item = toGen (widthStep aw acc item)) (items : List (BlockItem α)) (acc : α) :
    Gen.Block.for_fold F acc items = toGen (contentWidthLoop aw items acc) := by
  induction items generalizing acc with
  | nil => rfl
  | cons item rest ih =>
    rw [contentWidthLoop_cons, Gen.Block.for_fold, hF, toGen_bind]
    congr 1; funext r
    exact ih r

/-- **Tie, block.rs `determine_content_based_container_width`.**  The program generated from the source IS the model's
`BlockModel.contentWidthLoop` started at `0`: absolutely positioned items are skipped, an item with a known width is not asked,
every other item is asked once (`perform_child_layout`, min-content height, the same known dimensions and available space). -/
theorem determine_content_based_container_width_eq (items : List (BlockItem α)) (aw : AvailableSpace α) :
    Gen.Block.determine_content_based_container_width items aw = toGen (contentWidthLoop aw items 0) := by
  unfold Gen.Block.determine_content_based_container_width
  refine Eq.trans (congrArg (fun x => Gen.Tree.Prog.bind x _) (for_fold_width aw _ ?hF items 0)) (bind_ret _)
  intro acc item
  unfold widthStep
  by_cases hp : (item.position == Position.absolute) = true
  · simp -zeta only [hp, Bool.not_true, Bool.false_eq_true, ↓reduceIte]
    rfl
  · simp only [hp, Bool.not_false, ↓reduceIte, Bool.false_eq_true, Gen.Block.Size.map_width,
      TieLayout.f32_max_eq, TieLayout.horizontal_axis_sum_eq, TieLayout.size_NONE_eq, TieLayout.into_option_eq,
      TieMaybeMath.size_oo_clamp_eq, TieMaybeMath.af_sub_eq, TieResolve.rect_lpa_opt_resolve_or_zero_eq,
      TieLayoutTree.perform_child_layout_eq]
    show _ = toGen (ProgM.bind _ _)
    generalize item.size.oo_clamp item.minSize item.maxSize = kd
    obtain ⟨_ | w, h⟩ := kd <;> rfl

/-- concrete instance: an in-flow item without a known width is asked once, with min-content height -/
example (item : BlockItem α) (hp : item.position = .relative) (hs : item.size = ⟨none, none⟩) (aw : AvailableSpace α) :
    ∃ inp k, Gen.Block.determine_content_based_container_width [item] aw = .compute_child_layout item.nodeIdx inp k ∧
      inp.availableSpace.height = .minContent := by
  rw [determine_content_based_container_width_eq, contentWidthLoop_cons, widthStep, hp, hs]
  exact ⟨_, _, rfl, rfl⟩

/-! ### `perform_absolute_layout_on_absolute_children` -/

theorem size_dim_f32_maybe_resolve_eq (d : Size (Dimension α)) (c : Size α) :
    Gen.Block.Size_Dimension.f32_maybe_resolve d c = Resolve.sizeMaybe d ⟨some c.width, some c.height⟩ := by
  simp only [Gen.Block.Size_Dimension.f32_maybe_resolve, TieResolve.dim_f32_maybe_resolve_eq, Resolve.sizeMaybe,
    maybeResolve_some]

/-- one pass through the loop body, as the model writes it; `gs` is `tree.get_block_child_style` -/
def absStep (gs : Nat → Style α) (areaSize : Size α) (areaOffset : Point α) (acc : Size α) (item : BlockItem α) :
    ProgM α (Size α) :=
  if item.position == .absolute then
    if (gs item.nodeIdx).isHidden || (gs item.nodeIdx).position != .absolute then pure acc
    else absItem item (gs item.nodeIdx) areaSize areaOffset acc
  else pure acc

theorem absLoop_cons (gs : Nat → Style α) (a : Size α) (o : Point α) (item : BlockItem α) (rest : List (BlockItem α))
    (acc : Size α) :
    absLoop (fun i => some (gs i)) a o (item :: rest) acc =
      absStep gs a o acc item >>= absLoop (fun i => some (gs i)) a o rest := by
  conv => lhs; rw [absLoop]
  unfold absStep
  by_cases h1 : (item.position == Position.absolute) = true
  · by_cases h2 : ((gs item.nodeIdx).isHidden || (gs item.nodeIdx).position != Position.absolute) = true
    · simp only [h1, h2, ↓reduceIte]; rfl
    · simp only [h1, h2, ↓reduceIte, Bool.false_eq_true]
  · simp only [h1, ↓reduceIte, Bool.false_eq_true]; rfl

/-- congruence: a step function that is pointwise the model's step makes `for_fold` the model's loop -/
theorem for_fold_abs (gs : Nat → Style α) (a : Size α) (o : Point α) (F : Size α → BlockItem α → Gen.Tree.Prog α Nat (Size α))
    (hF : ∀ acc item, F acc item = toGen (absStep gs a o acc item)) (items : List (BlockItem α)) (acc : Size α) :
    Gen.Block.for_fold F acc items = toGen (absLoop (fun i => some (gs i)) a o items acc) := by
  induction items generalizing acc with
  | nil => rfl
  | cons item rest ih =>
    rw [absLoop_cons, Gen.Block.for_fold, hF, toGen_bind]
    congr 1; funext r
    exact ih r

omit [Num α] in
theorem getD_getD_map (o : Option α) (c d : α) : o.getD ((o.map fun _ => c).getD d) = o.getD d := by cases o <;> rfl
omit [Num α] in
theorem getD_map {β : Type} (o : Option α) (f : α → β) (d : β) :
    (o.map f).getD d = (match o with | some r => f r | none => d) := by cases o <;> rfl

/-- **Tie, block.rs `perform_absolute_layout_on_absolute_children`.**  The program generated from the source IS the model's
`BlockModel.absLoop` (one `BlockModel.absItem` per absolutely positioned item whose style is still absolute and not hidden) started
at `Size.zero`, with `tree.get_block_child_style` read as the function `gs` (the model's `styleOf` answers `some (gs i)`): the same
child queries (known dimensions from the insets, `SizingMode::ContentSize`) in the same order, the same layouts set (the inset /
margin / size equations of C11), the same content size. -/
theorem perform_absolute_layout_on_absolute_children_eq (gs : Nat → Style α) (items : List (BlockItem α)) (area : Size α)
    (off : Point α) :
    Gen.Block.perform_absolute_layout_on_absolute_children gs items area off =
      toGen (absLoop (fun i => some (gs i)) area off items Size.zero) := by
  unfold Gen.Block.perform_absolute_layout_on_absolute_children
  refine Eq.trans (congrArg (fun x => Gen.Tree.Prog.bind x _) (for_fold_abs gs area off _ ?hF items Size.zero)) (bind_ret _)
  intro acc item
  unfold absStep
  by_cases h1 : (item.position == Position.absolute) = true
  · by_cases h2 : ((gs item.nodeIdx).isHidden || !((gs item.nodeIdx).position == Position.absolute)) = true
    · simp only [h1, h2, ↓reduceIte, TieStyle.box_generation_mode_none_eq, TieStyle.position_eq, bne]
      rfl
    · simp only [h1, h2, ↓reduceIte, Bool.false_eq_true, TieStyle.box_generation_mode_none_eq, TieStyle.position_eq, bne,
        Gen.Block.Rect.map, resolve_to_option_eq, size_dim_f32_maybe_resolve_eq,
        TieStyle.aspect_ratio_eq, TieStyle.margin_eq, TieStyle.padding_eq, TieStyle.border_eq, TieStyle.box_sizing_eq,
        TieStyle.inset_eq, TieStyle.size_eq, TieStyle.min_size_eq, TieStyle.max_size_eq,
        TieLeaf.rect_add_eq, TieLeaf.size_map_eq,
        TieLayout.f32_max_eq, TieLayout.sum_axes_eq, TieLayout.size_ZERO_eq, TieLayout.maybe_apply_aspect_ratio_eq,
        TieLayout.size_or_eq, TieLayout.size_unwrap_or_eq, TieLayout.horizontal_axis_sum_eq, TieLayout.vertical_axis_sum_eq,
        TieLayout.size_f32_max_eq,
        TieMaybeMath.size_of_add_eq, TieMaybeMath.size_of_max_eq, TieMaybeMath.size_oo_clamp_eq, TieMaybeMath.size_fo_clamp_eq,
        TieMaybeMath.fo_clamp_eq, TieMaybeMath.fo_sub_eq, TieMaybeMath.of_add_eq,
        TieResolve.rect_lp_opt_resolve_or_zero_eq, TieResolve.lpa_f32_maybe_resolve_eq,
        TieContent.compute_content_size_contribution_eq, TieLayoutTree.perform_child_layout_eq,
        toNat_ite, decide_eq_true_eq, getD_getD_map]
      show _ = toGen (ProgM.bind _ _)
      simp only [absItem, boxSizingAdjustment, resolveStyleSize, maybeResolve_some,
        ProgM.bind, ProgM.performChildLayout, ProgM.computeChildLayout, ProgM.setUnroundedLayout, toGen, Gen.Tree.Prog.bind]
      congr 1
      funext out
      congr 1
      all_goals generalize (gs item.nodeIdx).inset.right.resolveToOption area.width = right
      all_goals generalize (gs item.nodeIdx).inset.bottom.resolveToOption area.height = bottom
      all_goals cases right <;> cases bottom <;> rfl
  · simp -zeta only [h1, ↓reduceIte, Bool.false_eq_true]
    rfl

/-! ### `compute_inner`, `compute_block_layout` -/

/-- every result of a program satisfies `P`, whatever the children answer -/
def AllRes (P : β → Prop) : ProgM α β → Prop
  | .pure b => P b
  | .call _ _ k => ∀ o, AllRes P (k o)
  | .setLayout _ _ k => ∀ u, AllRes P (k u)

/-- the same for generated programs -/
def AllResG (P : β → Prop) : Gen.Tree.Prog α Nat β → Prop
  | .ret b => P b
  | .unreachable => True
  | .get_core_container_style _ k => ∀ o, AllResG P (k o)
  | .set_unrounded_layout _ _ k => ∀ o, AllResG P (k o)
  | .compute_child_layout _ _ k => ∀ o, AllResG P (k o)
  | .cache_get _ _ _ _ k => ∀ o, AllResG P (k o)
  | .cache_store _ _ _ _ _ k => ∀ o, AllResG P (k o)
  | .cache_clear _ k => ∀ o, AllResG P (k o)

omit [Num α] in
theorem allResG_toGen (P : β → Prop) (p : ProgM α β) (h : AllRes P p) : AllResG P (toGen p) := by
  induction p with
  | pure b => exact h
  | call c i k ih => exact fun o => ih o (h o)
  | setLayout c l k ih => exact fun o => ih o (h o)

omit [Num α] in
theorem allRes_bind (P : β → Prop) (Q : γ → Prop) (p : ProgM α β) (f : β → ProgM α γ) (hp : AllRes P p)
    (hf : ∀ b, P b → AllRes Q (f b)) : AllRes Q (p >>= f) := by
  show AllRes Q (ProgM.bind p f)
  induction p with
  | pure b => exact hf b hp
  | call c i k ih => exact fun o => ih o (hp o)
  | setLayout c l k ih => exact fun o => ih o (hp o)

omit [Num α] in
/-- two continuations that agree on every possible result of `p` give the same program -/
theorem bindG_congr_all (P : β → Prop) (p : Gen.Tree.Prog α Nat β) (h : AllResG P p) (f g : β → Gen.Tree.Prog α Nat γ)
    (hfg : ∀ b, P b → f b = g b) : p.bind f = p.bind g := by
  induction p with
  | ret b => exact hfg b h
  | unreachable => rfl
  | get_core_container_style n k ih => simp only [Gen.Tree.Prog.bind]; congr 1; funext o; exact ih o (h o)
  | set_unrounded_layout n l k ih => simp only [Gen.Tree.Prog.bind]; congr 1; funext o; exact ih o (h o)
  | compute_child_layout n i k ih => simp only [Gen.Tree.Prog.bind]; congr 1; funext o; exact ih o (h o)
  | cache_get n kd av rm k ih => simp only [Gen.Tree.Prog.bind]; congr 1; funext o; exact ih o (h o)
  | cache_store n kd av rm o k ih => simp only [Gen.Tree.Prog.bind]; congr 1; funext o'; exact ih o' (h o')
  | cache_clear n k ih => simp only [Gen.Tree.Prog.bind]; congr 1; funext o; exact ih o (h o)

omit [Num α] in
theorem bindG_congr (p q : Gen.Tree.Prog α Nat β) (f g : β → Gen.Tree.Prog α Nat γ) (hp : p = q) (hf : ∀ b, f b = g b) :
    p.bind f = q.bind g := by
  subst hp; congr 1; funext b; exact hf b

/-- the in-flow pass keeps every item's node id -/
theorem flowLoop_ids (c : FlowCtx α) (items : List (BlockItem α)) (st : FlowState α) :
    AllRes (fun r => r.1.map (·.nodeIdx) = items.map (·.nodeIdx)) (flowLoop c items st) := by
  induction items generalizing st with
  | nil => exact rfl
  | cons item rest ih =>
    rw [flowLoop_cons]
    refine allRes_bind (fun r => r.1.nodeIdx = item.nodeIdx) _ _ _ ?_ ?_
    · unfold flowStep
      split
      · exact rfl
      · exact fun _ _ => rfl
    · intro r hr
      refine allRes_bind _ _ _ _ (ih r.2) ?_
      intro r' hr'
      show (r.1 :: r'.1).map _ = _
      simp only [List.map_cons, hr, hr']

theorem performFinal_ids (c : FlowCtx α) (items : List (BlockItem α)) :
    AllRes (fun r => r.1.map (·.nodeIdx) = items.map (·.nodeIdx)) (performFinalLayoutOnInFlowChildren c items) := by
  unfold performFinalLayoutOnInFlowChildren
  exact allRes_bind _ _ _ _ (flowLoop_ids c items _) (fun r hr => hr)

/-- the absolute pass reads the style function only at the node ids of its items -/
theorem absLoop_congr (s1 s2 : Nat → Option (Style α)) (a : Size α) (o : Point α) (items : List (BlockItem α))
    (h : ∀ i ∈ items.map (·.nodeIdx), s1 i = s2 i) (acc : Size α) :
    absLoop s1 a o items acc = absLoop s2 a o items acc := by
  induction items generalizing acc with
  | nil => rfl
  | cons item rest ih =>
    have h0 : s1 item.nodeIdx = s2 item.nodeIdx := h _ (by simp)
    have ih' := fun acc => ih (fun i hi => h i (by simp only [List.map_cons, List.mem_cons]; exact Or.inr hi)) acc
    rw [absLoop, absLoop, h0]
    simp only [ih']

/-- the node ids of the generated items are indices into the child list -/
theorem generateItemsFrom_ids (inner : Size (Option α)) (styles : List (Style α)) (k o : Nat) :
    ∀ i ∈ (generateItemsFrom inner styles k o).map (·.nodeIdx), k ≤ i ∧ i < k + styles.length := by
  induction styles generalizing k o with
  | nil => intro i hi; simp [generateItemsFrom] at hi
  | cons s rest ih =>
    intro i hi
    rw [generateItemsFrom] at hi
    split at hi
    · have := ih (k + 1) o i hi
      simp only [List.length_cons]; omega
    · simp only [List.map_cons, List.mem_cons] at hi
      rcases hi with rfl | hi
      · simp only [generateItem, List.length_cons]; omega
      · have := ih (k + 1) (o + 1) i hi
        simp only [List.length_cons]; omega

/-- the hidden-children loop: `for order in 0..len` against the model's recursion over the child styles -/
theorem for_fold_hidden (gs : Nat → Style α) (F : Unit → Nat → Gen.Tree.Prog α Nat Unit)
    (hF : ∀ u i, F u i = toGen (if (gs i).isHidden then (do
        let _ ← ProgM.performChildLayout i Size.none Size.none ⟨.maxContent, .maxContent⟩ .inherentSize ⟨false, false⟩
        ProgM.setUnroundedLayout i (Layout.withOrder i)) else pure ())) (n k : Nat) :
    Gen.Block.for_fold F () (List.range' k n) = toGen (hiddenLoop ((List.range' k n).map gs) k) := by
  induction n generalizing k with
  | zero => rfl
  | succ n ih =>
    rw [List.range'_succ, List.map_cons, Gen.Block.for_fold, hiddenLoop, hF]
    cases (gs k).isHidden
    · simp only [Bool.false_eq_true, ↓reduceIte]
      exact ih (k + 1)
    · simp only [↓reduceIte]
      simp only [toGen_bind, bind_assoc]
      congr 1; funext _; congr 1; funext u
      exact ih (k + 1)

/-- on the items the in-flow pass hands on, the model's `childStyles[i]?` answers `some (gs i)` -/
theorem styleOf_ok (gs : Nat → Style α) (n : Nat) (inner : Size (Option α)) (l : List (BlockItem α))
    (hl : l.map (·.nodeIdx) = (generateItemList ((List.range n).map gs) inner).map (·.nodeIdx)) :
    ∀ i ∈ l.map (·.nodeIdx), (some (gs i) : Option (Style α)) = ((List.range n).map gs)[i]? := by
  intro i hi
  rw [hl] at hi
  have h := generateItemsFrom_ids inner _ 0 0 i hi
  simp only [List.length_map, List.length_range, Nat.zero_add] at h
  simp only [List.getElem?_map, List.getElem?_range h.2, Option.map_some]

omit [Num α] in
theorem overflow_match (o : Overflow) (a b : α) :
    Gen.Block.compute_inner.match_1 (fun _ => α) o (fun _ => a) (fun _ => b) = if o == Overflow.scroll then a else b := by
  cases o <;> rfl
/-- **Tie, block.rs `compute_inner`.**  With the tree's pure reads given as functions — `gc = get_block_container_style`,
`gs = get_block_child_style`, the children of `node` addressed `0 .. n` (`child_count node = n`, `child_ids node = 0 .. n`,
`get_child_id node i = i`: the addressing of Model/Block.lean) — the program generated from the source IS the model's
`BlockModel.computeInner` on the container's style and the list of child styles: item generation, the content-based width, the
`ComputeSize` short-circuits, the in-flow pass, the absolute pass, the hidden-children loop (`perform_child_layout` before
`set_unrounded_layout(with_order(order))`) and the final `LayoutOutput` (margin sets, `margins_can_collapse_through`), in this order. -/
theorem compute_inner_eq (gs gc : Nat → Style α) (cc : Nat → Nat) (cids : Nat → List Nat) (gid : Nat → Nat → Nat) (node n : Nat)
    (hc : cc node = n) (hids : cids node = List.range n) (hid : ∀ i, gid node i = i) (inputs : LayoutInput α) :
    Gen.Block.compute_inner gs gc cc cids gid node inputs =
      toGen (computeInner (gc node) ((List.range n).map gs) inputs) := by
  obtain ⟨runMode, sizingMode, axis, ⟨kdw, kdh⟩, ps, av, vmc⟩ := inputs
  unfold Gen.Block.compute_inner
  simp only [generate_item_list_eq gs cids node n hids, determine_content_based_container_width_eq,
    perform_final_layout_on_in_flow_children_eq, perform_absolute_layout_on_absolute_children_eq, hc, hid,
    Gen.Tree.Prog.bind]
  cases kdw <;> cases runMode <;> cases kdh
  all_goals simp only [overflow_match, TieAxes.point_transpose_eq, TieLeaf.point_map_eq, Point.transpose,
    TieStyle.aspect_ratio_eq, TieStyle.padding_eq, TieStyle.border_eq, TieStyle.box_sizing_eq, TieStyle.overflow_eq,
    TieStyle.scrollbar_width_eq, TieStyle.position_eq, TieStyle.size_eq, TieStyle.min_size_eq, TieStyle.max_size_eq,
    TieStyle.text_align_eq, TieStyle.is_block_eq, TieStyle.is_scroll_container_eq, TieStyle.box_generation_mode_none_eq,
    TieResolve.rect_lp_opt_resolve_or_zero_eq, TieResolve.size_dim_maybe_resolve_eq, TieLeaf.rect_add_eq, size_sub_eq,
    TieLayout.sum_axes_eq, TieLayout.size_ZERO_eq, TieLayout.size_NONE_eq, TieLayout.maybe_apply_aspect_ratio_eq,
    TieLayout.horizontal_axis_sum_eq, TieLayout.size_f32_max_eq, TieLayout.margin_zero_eq, TieLayout.from_outer_size_eq,
    TieLayout.layout_with_order_eq, TieInput.line_false_eq, TieLeaf.point_NONE_eq,
    TieMaybeMath.size_of_add_eq, TieMaybeMath.size_of_sub_eq, TieMaybeMath.fo_clamp_eq, TieMaybeMath.fo_max_eq,
    TieMaybeMath.af_sub_eq, TieLayoutTree.perform_child_layout_eq, Gen.Block.as_u32]
  all_goals simp only [computeInner, containerWidthProg, innerCtx, flowCtxOf, scrollbarGutter, boxSizingAdjustment,
    resolveStyleSize, toGen_bind, toGen, Gen.Tree.Prog.bind, bind_assoc, Bool.and_assoc, Bool.or_assoc]
  all_goals try simp only [(rfl : (RunMode.computeSize == RunMode.computeSize) = true),
    (rfl : (RunMode.performLayout == RunMode.computeSize) = false),
    (rfl : (RunMode.performHiddenLayout == RunMode.computeSize) = false), ↓reduceIte, Bool.false_eq_true]
  all_goals try rfl
  all_goals first
    | refine bindG_congr_all _ _ (allResG_toGen _ _ (performFinal_ids _ _)) _ _ ?_
    | (refine bindG_congr _ _ _ _ rfl (fun b => ?_);
       refine bindG_congr_all _ _ (allResG_toGen _ _ (performFinal_ids _ _)) _ _ ?_)
  all_goals intro r hr
  all_goals obtain ⟨items', ics, ioh, fts, lbs⟩ := r
  all_goals simp only [if_neg (show ¬ (RunMode.performLayout == RunMode.computeSize) = true by decide),
    if_neg (show ¬ (RunMode.performHiddenLayout == RunMode.computeSize) = true by decide), toGen_bind, toGen]
  all_goals rw [absLoop_congr _ _ _ _ items' (styleOf_ok gs n _ items' hr)]
  all_goals refine bindG_congr _ _ _ _ rfl (fun acs => ?_)
  all_goals rw [List.range_eq_range']
  all_goals refine bindG_congr _ _ _ _ (for_fold_hidden gs _ ?_ n 0) (fun _ => ?_)
  all_goals first
    | (intro u i
       by_cases h : (gs i).isHidden = true <;> simp only [h, ↓reduceIte, Bool.false_eq_true] <;> rfl)
    | (simp only [innerOutput, allInFlowCollapsible, toGen, Bool.and_assoc, Bool.or_assoc]
       try rfl)

/-- **Tie, block.rs `compute_block_layout`** (the entry point): the generated program IS `BlockModel.computeBlockLayout` — the
style-based known dimensions, the `ComputeSize` short-circuit, then `compute_inner` — under the same addressing of the children. -/
theorem compute_block_layout_eq (gs gc : Nat → Style α) (cc : Nat → Nat) (cids : Nat → List Nat) (gid : Nat → Nat → Nat)
    (node n : Nat) (hc : cc node = n) (hids : cids node = List.range n) (hid : ∀ i, gid node i = i) (inputs : LayoutInput α) :
    Gen.Block.compute_block_layout gs gc cc cids gid node inputs =
      toGen (computeBlockLayout (gc node) ((List.range n).map gs) inputs) := by
  obtain ⟨runMode, sizingMode, axis, kd, ps, av, vmc⟩ := inputs
  unfold Gen.Block.compute_block_layout
  simp only [compute_inner_eq gs gc cc cids gid node n hc hids hid,
    TieStyle.aspect_ratio_eq, TieStyle.padding_eq, TieStyle.border_eq, TieStyle.box_sizing_eq,
    TieStyle.size_eq, TieStyle.min_size_eq, TieStyle.max_size_eq,
    TieResolve.rect_lp_opt_resolve_or_zero_eq, TieResolve.size_dim_maybe_resolve_eq, TieLeaf.rect_add_eq,
    TieLeaf.size_zip_map_eq, Size.zipMap,
    TieLayout.sum_axes_eq, TieLayout.size_ZERO_eq, TieLayout.size_NONE_eq, TieLayout.maybe_apply_aspect_ratio_eq,
    TieLayout.size_or_eq, TieLayout.from_outer_size_eq,
    TieMaybeMath.size_of_add_eq, TieMaybeMath.size_of_max_eq, TieMaybeMath.size_oo_clamp_eq]
  simp only [computeBlockLayout, styledBasedKnownDimensions, boxSizingAdjustment, resolveStyleSize]
  generalize Size.of_max (α := α) _ _ = s
  obtain ⟨_ | w, _ | h⟩ := s <;> cases runMode <;> rfl

/-- the hypotheses are satisfiable: the index addressing itself (`n` children, ids `0 .. n`) -/
example (gs gc : Nat → Style α) (n : Nat) (inputs : LayoutInput α) :
    Gen.Block.compute_block_layout gs gc (fun _ => n) (fun _ => List.range n) (fun _ i => i) 0 inputs =
      toGen (computeBlockLayout (gc 0) ((List.range n).map gs) inputs) :=
  compute_block_layout_eq gs gc _ _ _ 0 n rfl rfl (fun _ => rfl) inputs

/-- concrete instance: a childless block container laid out with a known width asks no child and sets no layout (the program is a
bare `ret`) -/
example (gs gc : Nat → Style α) (w : α) (ps : Size (Option α)) (av : Size (AvailableSpace α)) :
    ∃ o, Gen.Block.compute_inner gs gc (fun _ => 0) (fun _ => List.range 0) (fun _ i => i) 0
        { runMode := .performLayout, sizingMode := .inherentSize, axis := .both, knownDimensions := ⟨some w, none⟩,
          parentSize := ps, availableSpace := av, verticalMarginsAreCollapsible := ⟨false, false⟩ } = .ret o := by
  rw [compute_inner_eq gs gc (fun _ => 0) (fun _ => List.range 0) (fun _ i => i) 0 0 rfl rfl (fun _ => rfl)]
  exact ⟨_, rfl⟩

/-- concrete instance: an in-flow item is not touched by the absolute pass (no query, no layout) -/
example (gs : Nat → Style α) (item : BlockItem α) (hp : item.position = .relative) (area : Size α) (off : Point α) :
    Gen.Block.perform_absolute_layout_on_absolute_children gs [item] area off = .ret Size.zero := by
  rw [perform_absolute_layout_on_absolute_children_eq, absLoop_cons, absStep, hp]; rfl

/-- concrete instance: an absolutely positioned item whose style is `position: absolute; display: block` is asked exactly once first,
in `SizingMode::ContentSize`, with the area as its parent size -/
example (gs : Nat → Style α) (item : BlockItem α) (hp : item.position = .absolute)
    (hd : (gs item.nodeIdx).display = .block) (hq : (gs item.nodeIdx).position = .absolute) (area : Size α) (off : Point α) :
    ∃ inp k, Gen.Block.perform_absolute_layout_on_absolute_children gs [item] area off =
        .compute_child_layout item.nodeIdx inp k ∧
      inp.sizingMode = .contentSize ∧ inp.parentSize = ⟨some area.width, some area.height⟩ := by
  rw [perform_absolute_layout_on_absolute_children_eq, absLoop_cons, absStep, hp, Style.isHidden, hd, hq]
  exact ⟨_, _, rfl, rfl, rfl⟩

end TieBlock
